SPECIFICATION Spec
CONSTANTS
  Bnds <- BndsAll
  Prefixes <- StdPrefixes
  MaxTail = 5
  FieldLimits = {1000}
  DeclSlack = TRUE
  Mut = "dropprefix"
INVARIANTS Exact Accepts AllOrNothing Progress
