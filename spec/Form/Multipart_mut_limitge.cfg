SPECIFICATION Spec
CONSTANTS
  Bnds <- BndsAll
  Prefixes <- StdPrefixes
  MaxTail = 4
  FieldLimits = {1,2}
  DeclSlack = TRUE
  Mut = "limitge"
INVARIANTS Exact Accepts AllOrNothing Progress
