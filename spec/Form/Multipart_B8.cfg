SPECIFICATION Spec
CONSTANTS
  Bnds <- BndsB
  Prefixes <- StdPrefixes
  MaxTail = 8
  FieldLimits = {1000}
  DeclSlack = TRUE
  Mut = "none"
INVARIANTS Exact Accepts AllOrNothing Progress
