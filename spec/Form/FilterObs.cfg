SPECIFICATION Spec
CONSTANTS
  MaxLen = 3
  Mut = "none"
INVARIANTS ObsExact Untouched
