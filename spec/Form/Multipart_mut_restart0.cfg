SPECIFICATION Spec
CONSTANTS
  Bnds <- BndsAll
  Prefixes <- StdPrefixes
  MaxTail = 6
  FieldLimits = {1000}
  DeclSlack = TRUE
  Mut = "restart0"
INVARIANTS Exact Accepts AllOrNothing Progress
