SPECIFICATION Spec
CONSTANTS
  MaxLen = 3
  Mut = "noseek"
INVARIANTS ObsExact Untouched
