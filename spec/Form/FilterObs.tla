----------------------------- MODULE FilterObs -----------------------------
(***************************************************************************)
(* Leg D of C12, filter observations: one multipart part whose content is  *)
(* written by the parser (append only) while a multipart_filter may, at    *)
(* any call-back, seek and read file::data() - the stream has ONE read     *)
(* position, independent of the write position (http_file_buffer.h).  When *)
(* the part is complete the request layer rewinds and calls on_data_ready; *)
(* at the end of the content (after on_end_of_content, where the filter    *)
(* may read once more) a form field is turned into the post() value by     *)
(* read_file(), which rewinds again.                                       *)
(*   ObsExact   every read of the filter returns the bytes of the prefix   *)
(*              received so far, from the position it asked for            *)
(*   Untouched  the value delivered to the application is the whole        *)
(*              content - the filter's reads are observations only         *)
(* Seeded fault Mut = "noseek": read_file() reads from the current read    *)
(* position (the rewind was dropped).                                      *)
(***************************************************************************)
EXTENDS Integers, Sequences

CONSTANTS MaxLen, Mut

VARIABLES content,   \* bytes written so far
          rp,        \* read position of the stream (0-based)
          phase,     \* "writing" | "ready" | "eoc" | "done"
          lastread,  \* [pos, n, data] of the last read by the filter
          value      \* what the application gets
vars == <<content, rp, phase, lastread, value>>

Bytes == {1, 2}
NoRead == [pos |-> 0, n |-> 0, data |-> <<>>]
Min(a, b) == IF a < b THEN a ELSE b

Init == content = <<>> /\ rp = 0 /\ phase = "writing" /\ lastread = NoRead /\ value = <<>>

Write == /\ phase = "writing" /\ Len(content) < MaxLen
         /\ \E b \in Bytes : content' = Append(content, b)
         /\ UNCHANGED <<rp, phase, lastread, value>>

\* the filter, in any call-back (on_new_file, on_upload_progress, on_data_ready, on_end_of_content)
FSeek == /\ phase \in {"writing", "ready", "eoc"}
         /\ \E p \in 0..Len(content) : rp' = p
         /\ UNCHANGED <<content, phase, lastread, value>>
FRead == /\ phase \in {"writing", "ready", "eoc"}
         /\ \E k \in 0..(MaxLen + 1) :
              LET n == Min(k, Len(content) - rp)
              IN /\ lastread' = [pos |-> rp, n |-> n, data |-> SubSeq(content, rp + 1, rp + n)]
                 /\ rp' = rp + n
         /\ UNCHANGED <<content, phase, value>>

\* content_ready: the request layer rewinds, then on_data_ready may run
Ready == /\ phase = "writing" /\ phase' = "ready" /\ rp' = 0 /\ UNCHANGED <<content, lastread, value>>
\* read_size = content_length: on_end_of_content may run
Eoc   == /\ phase = "ready" /\ phase' = "eoc" /\ UNCHANGED <<content, rp, lastread, value>>
\* read_file(): rewind, read everything
Deliver == /\ phase = "eoc" /\ phase' = "done"
           /\ LET from == IF Mut = "noseek" THEN rp ELSE 0
              IN value' = SubSeq(content, from + 1, Len(content))
           /\ UNCHANGED <<content, rp, lastread>>

Next == Write \/ FSeek \/ FRead \/ Ready \/ Eoc \/ Deliver
Spec == Init /\ [][Next]_vars

ObsExact  == /\ lastread.pos + lastread.n <= Len(content)
             /\ lastread.data = SubSeq(content, lastread.pos + 1, lastread.pos + lastread.n)
Untouched == phase = "done" => value = content
=============================================================================
