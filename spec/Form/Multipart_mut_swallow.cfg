SPECIFICATION Spec
CONSTANTS
  Bnds <- BndsAll
  Prefixes <- StdPrefixes
  MaxTail = 6
  FieldLimits = {1000}
  DeclSlack = TRUE
  Mut = "swallow"
INVARIANTS Exact Accepts AllOrNothing Progress
