SPECIFICATION Spec
CONSTANTS
  Bnds <- BndsAll
  Prefixes <- StdPrefixes
  MaxTail = 5
  FieldLimits = {0,1,2}
  DeclSlack = TRUE
  Mut = "none"
INVARIANTS Exact Accepts AllOrNothing Progress
