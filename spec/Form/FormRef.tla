------------------------------ MODULE FormRef ------------------------------
(***************************************************************************)
(* Declarative reference for C12 (no variables; shared by the design model *)
(* Multipart.tla and by the trace specification FormTrace.tla).            *)
(*                                                                         *)
(* A body is a sequence of bytes 0..255.  Split(body, bnd) says what a     *)
(* multipart/form-data body *means*: it is defined through the sets of     *)
(* positions at which the delimiter  CR LF "--" bnd  (resp. CR LF CR LF)   *)
(* occurs and the choice of the FIRST such position - no byte-at-a-time    *)
(* matcher, no restart rule.  The incremental parser of the code is        *)
(* modelled separately (Multipart.tla) and compared against this.          *)
(*                                                                         *)
(* Named restrictions of the code, adopted here because the property       *)
(* permits refusing such bodies ("refused ... rather than delivered in     *)
(* part"):                                                                 *)
(*   NoPreamble  - the body starts with the first dash-boundary;           *)
(*   NoEpilogue  - the body ends with the CRLF of the close-delimiter;     *)
(*   NoPadding   - no transport padding between boundary and CRLF / "--".  *)
(* A part may have an EMPTY header block (delimiter CRLF CRLF): its content *)
(* starts right after the CRLF that ends the empty block (RFC 2046); it is *)
(* delivered under the empty name like any part without Content-Disposition.*)
(***************************************************************************)
EXTENDS Integers, Sequences, FiniteSets

CRLF     == <<13, 10>>
CRLFCRLF == <<13, 10, 13, 10>>
DDCRLF   == <<45, 45, 13, 10>>
Delim(bnd) == <<13, 10, 45, 45>> \o bnd

OccAt(s, d, i) ==
    /\ i >= 1
    /\ i + Len(d) - 1 <= Len(s)
    /\ \A j \in 1..Len(d) : s[i + j - 1] = d[j]

Occs(s, d, from) == { i \in from..(Len(s) - Len(d) + 1) : OccAt(s, d, i) }

\* position of the first occurrence of d in s at or after `from`; 0 = none
FirstOcc(s, d, from) ==
    LET O == Occs(s, d, from)
    IN IF O = {} THEN 0 ELSE CHOOSE i \in O : \A j \in O : i <= j

Bad == [ok |-> FALSE, parts |-> <<>>]

(* t = CRLF \o body, d = delimiter, i = index just after a delimiter.      *)
(* After a delimiter comes either "--" CRLF <end of body> or CRLF, a header *)
(* block (ending at the first empty line), the content (ending right       *)
(* before the first delimiter occurrence after the header block), again.   *)
RECURSIVE PartsFrom(_, _, _)
PartsFrom(t, d, i) ==
    IF i + 3 = Len(t) /\ SubSeq(t, i, i + 3) = DDCRLF
    THEN [ok |-> TRUE, parts |-> <<>>]
    ELSE IF OccAt(t, CRLF, i)
    THEN LET hs == i + 2
             he == IF OccAt(t, CRLF, hs) THEN hs + 1
                   ELSE LET k == FirstOcc(t, CRLFCRLF, hs)
                        IN IF k = 0 THEN 0 ELSE k + 3
         IN IF he = 0 THEN Bad
            ELSE LET k == FirstOcc(t, d, he + 1)
                 IN IF k = 0 THEN Bad
                    ELSE LET r == PartsFrom(t, d, k + Len(d))
                         IN IF r.ok
                            THEN [ok |-> TRUE,
                                  parts |-> <<[hdr |-> SubSeq(t, hs, he),
                                               data |-> SubSeq(t, he + 1, k - 1)]>> \o r.parts]
                            ELSE Bad
    ELSE Bad

\* structural split: [ok, parts = << [hdr = header block incl. the empty line, data] ... >>]
Split(body, bnd) ==
    LET t == CRLF \o body
        d == Delim(bnd)
    IN IF OccAt(t, d, 1) THEN PartsFrom(t, d, Len(d) + 1) ELSE Bad

\* the header lines of a header block (block = (line CRLF)* CRLF, lines non-empty)
RECURSIVE LinesOf(_)
LinesOf(h) ==
    IF h = CRLF \/ Len(h) < 2 THEN <<>>
    ELSE LET k == FirstOcc(h, CRLF, 1)
         IN IF k = 0 THEN <<h>>
            ELSE <<SubSeq(h, 1, k - 1)>> \o LinesOf(SubSeq(h, k + 2, Len(h)))

\* an occurrence of  delimiter CRLF CRLF : a part without any header line
Headerless(body, bnd) == Occs(CRLF \o body, Delim(bnd) \o CRLFCRLF, 1) # {}

(***************************************************************************)
(* application/x-www-form-urlencoded.  Pieces are separated by "&"; one    *)
(* trailing "&" is tolerated; every piece must contain "=" after a         *)
(* non-empty name (this is what the code itself classifies as well-formed: *)
(* request::parse_form_urlencoded returns false otherwise).                *)
(***************************************************************************)
AMP == 38
EQ  == 61
PCT == 37
PLUS == 43

RECURSIVE SplitOn(_, _)
SplitOn(s, c) ==
    LET O == { i \in 1..Len(s) : s[i] = c }
    IN IF O = {} THEN <<s>>
       ELSE LET k == CHOOSE i \in O : \A j \in O : i <= j
            IN <<SubSeq(s, 1, k - 1)>> \o SplitOn(SubSeq(s, k + 1, Len(s)), c)

UrlPieces(body) ==
    IF body = <<>> THEN <<>>
    ELSE LET ps == SplitOn(body, AMP)
         IN IF ps[Len(ps)] = <<>> THEN SubSeq(ps, 1, Len(ps) - 1) ELSE ps

PieceOK(p) == \E i \in 2..Len(p) : p[i] = EQ /\ \A j \in 1..(i - 1) : p[j] # EQ

IsHex(c) == (c >= 48 /\ c <= 57) \/ (c >= 65 /\ c <= 70) \/ (c >= 97 /\ c <= 102)
HexVal(c) == IF c <= 57 THEN c - 48 ELSE IF c <= 70 THEN c - 55 ELSE c - 87

\* a "%" not followed by two hex digits: the property is silent about it
StrayPct(s) == \E i \in 1..Len(s) : s[i] = PCT /\ ~(i + 2 <= Len(s) /\ IsHex(s[i + 1]) /\ IsHex(s[i + 2]))

RECURSIVE UrlDecode(_)
UrlDecode(s) ==
    IF s = <<>> THEN <<>>
    ELSE IF s[1] = PLUS THEN <<32>> \o UrlDecode(Tail(s))
    ELSE IF s[1] = PCT /\ Len(s) >= 3 /\ IsHex(s[2]) /\ IsHex(s[3])
         THEN <<16 * HexVal(s[2]) + HexVal(s[3])>> \o UrlDecode(SubSeq(s, 4, Len(s)))
    ELSE <<s[1]>> \o UrlDecode(Tail(s))

UrlSplit(body) ==
    LET ps == UrlPieces(body)
    IN IF \A i \in 1..Len(ps) : PieceOK(ps[i])
       THEN [ok |-> TRUE,
             parts |-> [i \in 1..Len(ps) |->
                          LET p == ps[i]
                              k == CHOOSE j \in 2..Len(p) : p[j] = EQ /\ \A q \in 1..(j - 1) : p[q] # EQ
                          IN [n |-> UrlDecode(SubSeq(p, 1, k - 1)), d |-> UrlDecode(SubSeq(p, k + 1, Len(p)))]]]
       ELSE Bad
=============================================================================
