----------------------------- MODULE Multipart -----------------------------
(***************************************************************************)
(* Leg D of C12: the incremental multipart parser                          *)
(* (private/multipart_parser.h : consume) driven by the read loop of       *)
(* http::request::on_content_progress, one byte per step, the body being   *)
(* chosen byte by byte and cut into chunks at arbitrary places by TLC.     *)
(*                                                                         *)
(* Byte classes (concrete codes so that FormRef is shared with Leg B):     *)
(*   CR=13 LF=10 DASH=45 B=66 (boundary char) X=120 (any other byte)       *)
(*   H=72 stands for one complete, well-formed header line (opaque here;   *)
(*   its interpretation - name, filename, type - is bound in Leg B against *)
(*   the encoder's part list).  In every state but the header block H      *)
(*   behaves exactly like X, so it is only offered inside header blocks.   *)
(*                                                                         *)
(* s is the whole state of parser + request:                               *)
(*   body   bytes read so far (history)       cut  the last byte ended a   *)
(*   st/pos parser state_ / position_              read chunk              *)
(*   hdr    header_ accumulated               cur  content of the open part*)
(*   files  completed parts                   status 0 = reading, else the *)
(*   decl   declared length                        HTTP status             *)
(* Chunking: every byte carries the flag "last byte of its chunk"; the     *)
(* byte that completes the declared length always ends its chunk (reads    *)
(* never exceed the remaining length).                                     *)
(***************************************************************************)
EXTENDS FormRef, TLC

CONSTANTS Bnds,        \* set of boundaries (byte sequences)
          Prefixes,    \* function: boundary -> set of bodies fed first (uncut) - starting points
          MaxTail,     \* number of freely chosen bytes after the prefix
          FieldLimits, \* values of content_length_limit (bytes) explored; applies to every part here
          DeclSlack,   \* declared length = consumed length at completion; also try ending 1 short/long
          Mut          \* "none" = the code as it is; other values: seeded faults for the self-test of Leg D
                       \*   "restart0"   matcher restarts at 0 (not 1) when the mismatching byte is CR
                       \*   "dropprefix" a partial match pending at a chunk edge is forgotten
                       \*   "limitge"    part limit compared with >= instead of >
                       \*   "swallow"    empty header block not recognised: the parser looks for the next CRLFCRLF
                       \*                (behaviour before the fix "content of a part without headers was partly swallowed")

VARIABLE s
vars == <<s>>

LineOK(line) == line = <<72>>
Alphabet == {13, 10, 45, 66, 120}

\* ---------------------------------------------------------------- mechanism
BStr(bnd) == Delim(bnd)                       \* boundary_ = "\r\n--" + key

\* process_header: scan lines; TRUE at the first empty line, FALSE on a bad line / no CRLF
RECURSIVE PH(_, _)
PH(h, p) ==
    IF p > Len(h) THEN FALSE
    ELSE LET nx == FirstOcc(h, CRLF, p)
         IN IF nx = 0 THEN FALSE
            ELSE IF nx = p THEN TRUE
            ELSE IF LineOK(SubSeq(h, p, nx - 1)) THEN PH(h, nx + 2) ELSE FALSE

Err(x, code)  == [x EXCEPT !.status = code]

Over(n, lim) == IF Mut = "limitge" THEN n >= lim ELSE n > lim

\* request-level bookkeeping after the parser consumed byte b (x = state after the parser step,
\* r = parser result for that byte: "more" | "partial" | "ready" | "meta" | "eof")
Finish(x, r, last) ==
    LET n == Len(x.body)
    IN IF r = "eof" THEN (IF n = x.decl THEN Err(x, 200) ELSE Err(x, 400))
       ELSE IF r = "ready" /\ Over(Len(x.files[Len(x.files)].data), x.flimit) THEN Err(x, 413)
       ELSE IF last /\ x.st = "content" /\ Over(Len(x.cur), x.flimit) THEN Err(x, 413)   \* content_partial at chunk end
       ELSE IF n = x.decl THEN Err(x, 400)                                        \* declared length reached without eof
       ELSE x

Step(x0, b, last) ==
    LET x  == [x0 EXCEPT !.body = Append(x0.body, b), !.cut = last]
        bs == BStr(x.bnd)
    IN
    CASE x.st = "first" ->
           IF b # bs[x.pos + 1] THEN Err(x, 400)
           ELSE IF x.pos + 1 = Len(bs) THEN Finish([x EXCEPT !.st = "crlf_or_eof", !.pos = 0], "more", last)
           ELSE Finish([x EXCEPT !.pos = x.pos + 1], "more", last)
      [] x.st = "crlf_or_eof" ->
           IF b = 13 THEN Finish([x EXCEPT !.st = "lf"], "more", last)
           ELSE IF b = 45 THEN Finish([x EXCEPT !.st = "minus"], "more", last)
           ELSE Err(x, 400)
      [] x.st = "minus"  -> IF b = 45 THEN Finish([x EXCEPT !.st = "eof_cr"], "more", last) ELSE Err(x, 400)
      [] x.st = "eof_cr" -> IF b = 13 THEN Finish([x EXCEPT !.st = "eof_lf"], "more", last) ELSE Err(x, 400)
      [] x.st = "eof_lf" -> IF b = 10 /\ (last \/ Mut = "eofanywhere") THEN Finish(x, "eof", last) ELSE Err(x, 400)
      [] x.st = "lf"     -> IF b = 10 THEN Finish([x EXCEPT !.st = "hdr", !.pos = IF Mut = "swallow" THEN 0 ELSE 2, !.hdr = <<>>], "more", last)
                            ELSE Err(x, 400)      \* the CRLF of the delimiter line is the first half of the CRLFCRLF that ends the headers
      [] x.st = "hdr" ->
           LET h == Append(x.hdr, b)
               p == IF b = CRLFCRLF[x.pos + 1] THEN x.pos + 1 ELSE 0
           IN IF p = 4
              THEN (IF PH(h, 1) THEN Finish([x EXCEPT !.hdr = h, !.pos = 0, !.st = "content", !.cur = <<>>], "meta", last)
                    ELSE Err(x, 400))
              ELSE Finish([x EXCEPT !.hdr = h, !.pos = p], "more", last)
      [] x.st = "content" ->
           LET pos0  == IF Mut = "dropprefix" /\ x0.cut THEN 0 ELSE x.pos
               hit   == b = bs[pos0 + 1]
               emit0 == IF ~hit /\ pos0 > 0 THEN SubSeq(bs, 1, pos0) ELSE <<>>   \* failed partial match re-emitted
               p     == IF hit THEN pos0 + 1 ELSE IF pos0 > 0 /\ b = bs[1] /\ Mut # "restart0" THEN 1 ELSE 0
               c     == x.cur \o emit0 \o (IF p = 0 THEN <<b>> ELSE <<>>)
           IN IF p = Len(bs)
              THEN Finish([x EXCEPT !.files = Append(x.files, [hdr |-> x.hdr, data |-> c]),
                                    !.cur = <<>>, !.hdr = <<>>, !.pos = 0, !.st = "crlf_or_eof"], "ready", last)
              ELSE Finish([x EXCEPT !.cur = c, !.pos = p], IF last THEN "partial" ELSE "more", last)

S0(bnd, fl) == [body |-> <<>>, cut |-> TRUE, bnd |-> bnd, st |-> "first", pos |-> 2, hdr |-> <<>>, cur |-> <<>>,
                files |-> <<>>, status |-> 0, decl |-> 1000, flimit |-> fl, free |-> 0]

RECURSIVE Run(_, _)
Run(x, bytes) == IF bytes = <<>> THEN x ELSE Run(Step(x, bytes[1], FALSE), Tail(bytes))

Init == \E bnd \in Bnds : \E p \in Prefixes[bnd] : \E fl \in FieldLimits :
            LET r == Run(S0(bnd, fl), p)            \* starting inside a header block (6 symbols offered): one free byte less
            IN s = [r EXCEPT !.free = IF r.st = "hdr" THEN 1 ELSE 0]

\* the declared length is fixed lazily: the step that feeds byte number n may declare n to be the
\* length (the byte then ends its chunk); with DeclSlack the peer may also stop one byte short
Feed(b, last, fin) ==
    /\ s.status = 0 /\ s.free < MaxTail
    /\ (s.st = "hdr" \/ b # 72)
    /\ LET x == [s EXCEPT !.decl = IF fin THEN Len(s.body) + 1 ELSE 1000, !.free = s.free + 1]
       IN s' = Step(x, b, last \/ fin)

\* the peer closes although the declared length has not been reached
Close == /\ s.status = 0 /\ DeclSlack /\ s.cut
         /\ s' = [s EXCEPT !.status = 400, !.decl = Len(s.body) + 1]

Next == (\E b \in Alphabet \cup {72} : \E last, fin \in BOOLEAN : Feed(b, last, fin)) \/ Close
Spec == Init /\ [][Next]_vars

\* ---------------------------------------------------------------- property
HdrOK(h) == LET ls == LinesOf(h) IN \A i \in 1..Len(ls) : LineOK(ls[i])     \* zero lines: a part without headers

\* what the body means: [ok, parts]
Meaning(body, bnd) ==
    LET sp == Split(body, bnd)
    IN IF sp.ok /\ \A i \in 1..Len(sp.parts) : HdrOK(sp.parts[i].hdr) THEN sp ELSE Bad

Complete == Len(s.body) = s.decl
TooBig(m) == \E i \in 1..Len(m.parts) : Len(m.parts[i].data) > s.flimit

InScope == TRUE

Exact ==
    (s.status = 200 /\ InScope) =>
        LET m == Meaning(s.body, s.bnd)
        IN m.ok /\ Complete /\ ~TooBig(m) /\ s.files = m.parts

\* a well-formed, complete, within-limits body is accepted under EVERY chunking
Accepts ==
    (InScope /\ s.status # 0 /\ Complete) =>
        LET m == Meaning(s.body, s.bnd)
        IN (m.ok /\ ~TooBig(m)) => s.status = 200

AllOrNothing ==
    (InScope /\ s.status # 0) =>
        LET m == Meaning(s.body, s.bnd)
        IN /\ (~m.ok \/ ~Complete) => s.status \in {400, 413}
           /\ (m.ok /\ Complete /\ TooBig(m)) => s.status = 413
           /\ s.status = 413 => \/ (\E i \in 1..Len(s.files) : Len(s.files[i].data) > s.flimit)
                                \/ Len(s.cur) > s.flimit

\* the matcher never loses or invents content: while reading, completed parts + open part are
\* what the reference yields for the same bytes closed off by a delimiter (checked on parts only)
Progress ==
    (InScope /\ s.status = 0 /\ s.st = "content" /\ s.pos = 0) =>
        LET m == Split(s.body \o Delim(s.bnd) \o DDCRLF, s.bnd)
        IN m.ok /\ Len(m.parts) = Len(s.files) + 1
           /\ (\A i \in 1..Len(s.files) : m.parts[i] = s.files[i])
           /\ m.parts[Len(m.parts)].data = s.cur

\* ---------------------------------------------------------------- model constants
BndsAll == {<<66>>, <<66, 66>>, <<45, 66>>}
BndsB == {<<66>>}
Open(bnd)  == <<45, 45>> \o bnd \o CRLF \o <<72>> \o CRLFCRLF        \* first delimiter + one header line
Again(bnd) == Delim(bnd) \o CRLF \o <<72>> \o CRLFCRLF                \* next delimiter + header
StdPrefixes == [bnd \in BndsAll |->
                  { <<>>,                          \* whole bodies from the first byte
                    Open(bnd),                     \* inside the content of part 1
                    Open(bnd) \o Delim(bnd),       \* right after the delimiter that closes part 1
                    Open(bnd) \o Delim(bnd) \o CRLF,  \* at the start of the header block of part 2
                    Open(bnd) \o <<120>> \o Again(bnd) }]   \* inside the content of part 2
=============================================================================
