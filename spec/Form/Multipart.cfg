SPECIFICATION Spec
CONSTANTS
  Bnds <- BndsAll
  Prefixes <- StdPrefixes
  MaxTail = 7
  FieldLimits = {1000}
  DeclSlack = TRUE
  Mut = "none"
INVARIANTS Exact Accepts AllOrNothing Progress
