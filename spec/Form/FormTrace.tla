----------------------------- MODULE FormTrace -----------------------------
(***************************************************************************)
(* Leg B of C12.  One trace line = one upload run against the real code    *)
(* (harness/form/form_drv.cpp); TLC accepts the line iff the property      *)
(* holds of it:                                                            *)
(*   Exact         accepted  =>  delivered parts = meaning of the body     *)
(*   AllOrNothing  malformed / over limit / length mismatch  =>  refused   *)
(*                 (400/413, application never sees a field)               *)
(*   FilterOnce    filters see every byte exactly once, in order;          *)
(*                 on_end_of_content once on success, on_error <= once     *)
(*                 what a multipart_filter reads from file::data() in any  *)
(*                 call-back is the prefix received so far, and its reads  *)
(*                 change nothing of what the application gets (Exact      *)
(*                 holds whatever the filter did); abort_upload(code) =>   *)
(*                 status code, nothing delivered                          *)
(*   Spill         a file is on disk iff larger than file_in_memory_limit; *)
(*                 no temporary file survives the request                  *)
(* The meaning of a small body is computed here from its bytes with        *)
(* FormRef!Split (header lines are interpreted through the table the       *)
(* encoder logged in the Reset line); for big bodies the harness logs the  *)
(* part list the body was encoded from and lengths + digests are compared. *)
(*                                                                         *)
(* Events                                                                  *)
(*  Reset{hl:[{b,k:"cd"|"ct"|"x",n,f,m}]}                                  *)
(*  Parse{bnd,b,cnt,cut,ok,parts:[{n,f,m,d}]}        multipart_parser alone*)
(*  Up{ct,bnd,b?,blen,bdig,decl,cl,mp,mem,flt,buf,cnt,cut,enc?,            *)
(*     st,ran,post,files,rp,raw,mpf,tmpd,tmpa}        through http::request *)
(***************************************************************************)
EXTENDS FormRef, TraceBase

VARIABLES l, tab
tvars == <<l, tab>>

Ev == TraceLog[l]
Is(name) == l <= NLines /\ Ev.e = name /\ l' = l + 1

Range(q) == { q[i] : i \in DOMAIN q }
IsPrefix(p, q) == Len(p) <= Len(q) /\ SubSeq(q, 1, Len(p)) = p
Min2(a, b) == IF a < b THEN a ELSE b

\* ----------------------------------------------------------- header lines
LineInfo(line) ==
    LET S == { i \in DOMAIN tab : tab[i].b = line }
    IN IF S # {} THEN tab[CHOOSE i \in S : TRUE]
       ELSE IF 58 \in Range(line) THEN [k |-> "unknown"]     \* has ":" but not produced by the encoder
       ELSE [k |-> "bad"]                                    \* no colon: never a header line

PartOf(p) ==
    LET ls  == LinesOf(p.hdr)
        inf == [i \in 1..Len(ls) |-> LineInfo(ls[i])]
        cds == { i \in 1..Len(ls) : inf[i].k = "cd" }
        cts == { i \in 1..Len(ls) : inf[i].k = "ct" }
        cd  == IF cds = {} THEN [n |-> <<>>, f |-> <<>>] ELSE inf[CHOOSE i \in cds : \A j \in cds : j <= i]
        ct  == IF cts = {} THEN [m |-> <<>>] ELSE inf[CHOOSE i \in cts : \A j \in cts : j <= i]
    IN [bad |-> \E i \in 1..Len(ls) : inf[i].k = "bad",        \* zero lines = part without headers: legal, empty name
        unk |-> \E i \in 1..Len(ls) : inf[i].k = "unknown",
        n |-> cd.n, f |-> cd.f, m |-> ct.m, d |-> p.data]

\* [ok, silent, parts]: meaning of a multipart body given as bytes
MeaningMp(b, bnd) ==
    LET sp == Split(b, bnd)
    IN IF ~sp.ok THEN [ok |-> FALSE, silent |-> FALSE, parts |-> <<>>]
       ELSE LET ps == [i \in 1..Len(sp.parts) |-> PartOf(sp.parts[i])]
            IN IF \E i \in 1..Len(ps) : ps[i].bad THEN [ok |-> FALSE, silent |-> FALSE, parts |-> <<>>]
               ELSE IF \E i \in 1..Len(ps) : ps[i].unk THEN [ok |-> FALSE, silent |-> TRUE, parts |-> <<>>]
               ELSE [ok |-> TRUE, silent |-> FALSE,
                     parts |-> [i \in 1..Len(ps) |-> [n |-> ps[i].n, f |-> ps[i].f, m |-> ps[i].m, d |-> ps[i].d]]]

MeaningUrl(b) ==
    LET u == UrlSplit(b)
    IN IF StrayPct(b) THEN [ok |-> FALSE, silent |-> TRUE, parts |-> <<>>]
       ELSE IF ~u.ok THEN [ok |-> FALSE, silent |-> FALSE, parts |-> <<>>]
       ELSE [ok |-> TRUE, silent |-> FALSE,
             parts |-> [i \in 1..Len(u.parts) |-> [n |-> u.parts[i].n, f |-> <<>>, m |-> <<>>, d |-> u.parts[i].d]]]

\* ----------------------------------------------------------- comparisons
Small == Has(Ev, "b")
Key(p)  == IF Has(p, "d") THEN p.d ELSE <<p.len, p.dig>>
Size(p) == IF Has(p, "d") THEN Len(p.d) ELSE p.len

Fields(ps) == SelectSeq(ps, LAMBDA p : p.m = <<>>)
FilesOf(ps) == SelectSeq(ps, LAMBDA p : p.m # <<>>)

\* post() is a multimap: values of one name keep their order, names are sorted
PostOK(post, flds) ==
    /\ Len(post) = Len(flds)
    /\ \A i \in 1..Len(flds) :
          LET nm == flds[i].n
              a == SelectSeq(post, LAMBDA p : p.n = nm)
              e == SelectSeq(flds, LAMBDA p : p.n = nm)
          IN Len(a) = Len(e) /\ \A j \in 1..Len(e) : Key(a[j]) = Key(e[j])

FilesOK(files, exp) ==
    /\ Len(files) = Len(exp)
    /\ \A i \in 1..Len(exp) :
          /\ files[i].n = exp[i].n /\ files[i].f = exp[i].f /\ files[i].m = exp[i].m
          /\ Key(files[i]) = Key(exp[i])

NothingDelivered == ~Ev.ran /\ Ev.post = <<>> /\ Ev.files = <<>>

\* multipart_filter call-backs: per part new(0) progress* ready(len), sizes monotone
RECURSIVE MpfOK(_, _, _)
MpfOK(cbs, ps, complete) ==      \* complete: the whole body was accepted
    IF cbs = <<>> THEN (ps = <<>> \/ ~complete)
    ELSE IF ps = <<>> THEN FALSE
    ELSE LET sz == Size(ps[1])
             prog == { k \in 2..Len(cbs) : cbs[k][1] # 2 }
             e == IF prog = {} THEN Len(cbs) + 1 ELSE CHOOSE k \in prog : \A j \in prog : k <= j
         IN /\ cbs[1] = <<1, 0>>
            /\ \A k \in 2..(e - 1) : cbs[k][2] <= sz /\ (k > 2 => cbs[k - 1][2] <= cbs[k][2])
            /\ IF e > Len(cbs) THEN ~complete
               ELSE cbs[e] = <<3, sz>> /\ MpfOK(SubSeq(cbs, e + 1, Len(cbs)), Tail(ps), complete)

\* what the filter READ through file::data() in its call-backs (c: 1 on_new_file, 2 on_upload_progress,
\* 3 on_data_ready, 4 on_end_of_content via a saved reference; i: part number; s: file::size() then;
\* p: position read from; k: bytes asked for): the bytes of the prefix received so far, nothing else
ObsOK(obs, ps) ==
    \A j \in 1..Len(obs) :
        LET e == obs[j]
        IN /\ e.i >= 1 /\ e.i <= Len(ps)
           /\ LET P == ps[e.i]
                  sz == Size(P)
                  n == IF Has(e, "d") THEN Len(e.d) ELSE e.len
              IN /\ e.s <= sz /\ (e.c = 1 => e.s = 0) /\ (e.c \in {3, 4} => e.s = sz)
                 /\ e.p >= 0 /\ e.p <= e.s
                 /\ n = Min2(e.k, e.s - e.p)
                 /\ IF Has(e, "d") THEN e.d = SubSeq(P.d, e.p + 1, e.p + n)
                    ELSE (e.p = 0 /\ n = sz) => e.dig = P.dig

\* ----------------------------------------------------------- Parse
ParseOK ==
    LET m == MeaningMp(Ev.b, Ev.bnd)
    IN IF m.silent THEN TRUE
       ELSE IF m.ok THEN Ev.ok /\ Len(Ev.parts) = Len(m.parts)
                         /\ \A i \in 1..Len(m.parts) :
                               /\ Ev.parts[i].n = m.parts[i].n /\ Ev.parts[i].f = m.parts[i].f
                               /\ Ev.parts[i].m = m.parts[i].m /\ Ev.parts[i].d = m.parts[i].d
       ELSE ~Ev.ok

\* ----------------------------------------------------------- Up
Seen  == Min2(Ev.decl, Ev.blen)                 \* bytes the server can read
Short == Ev.blen < Ev.decl                      \* peer stops before the declared length
OverLen == IF Ev.ct = "mp" THEN Ev.decl > Ev.mp ELSE Ev.decl > Ev.cl
Refused == IF Short THEN Ev.st \in {0, 400, 413} ELSE Ev.st \in {400, 413}

Meaning ==
    IF Ev.ct = "mp"
    THEN IF Small THEN MeaningMp(SubSeq(Ev.b, 1, Seen), Ev.bnd)
         ELSE IF Ev.decl = Ev.blen THEN [ok |-> TRUE, silent |-> FALSE, parts |-> Ev.enc]
         ELSE [ok |-> FALSE, silent |-> FALSE, parts |-> <<>>]
    ELSE IF Ev.ct = "url"
    THEN IF Small THEN MeaningUrl(SubSeq(Ev.b, 1, Seen))
         ELSE IF Ev.decl = Ev.blen THEN [ok |-> TRUE, silent |-> FALSE, parts |-> Ev.enc]
         ELSE [ok |-> FALSE, silent |-> FALSE, parts |-> <<>>]
    ELSE [ok |-> TRUE, silent |-> FALSE, parts |-> <<>>]

FieldOver(ps) == Ev.ct = "mp" /\ \E i \in 1..Len(ps) : ps[i].m = <<>> /\ Size(ps[i]) > Ev.cl

RawSeenOK(r, all) ==      \* bytes shown to the raw filter: all of them / a prefix
    IF Small THEN (IF all THEN r.d = SubSeq(Ev.b, 1, Seen) ELSE IsPrefix(r.d, Ev.b))
    ELSE (IF all THEN r.len = Seen /\ (Ev.decl = Ev.blen => r.dig = Ev.bdig) ELSE r.len <= Seen)

SpillOK(ps) ==
    Ev.tmpd = Cardinality({ i \in 1..Len(ps) : ps[i].m # <<>> /\ Size(ps[i]) > Ev.mem })

UpOK ==
    LET m == Meaning
    IN
    /\ Ev.tmpa = 0
    /\ IF Ev.decl = 0
       THEN Ev.st = 200 /\ Ev.ran /\ Ev.post = <<>> /\ Ev.files = <<>>
       ELSE IF Ev.fired
       THEN \* the filter threw abort_upload(code): that status, nothing delivered, no on_error
            /\ Ev.st = Ev.ab.code /\ NothingDelivered
            /\ IF Ev.flt = "raw" THEN RawSeenOK(Ev.raw, FALSE) /\ Ev.raw.err = 0 /\ Ev.raw.eoc <= 1
               ELSE /\ Ev.mpf.err = 0 /\ Ev.mpf.eoc <= 1
                    /\ (Ev.ct = "mp" /\ m.ok /\ ~m.silent) => MpfOK(Ev.mpf.cbs, m.parts, FALSE) /\ ObsOK(Ev.mpf.obs, m.parts)
       ELSE IF Ev.flt = "raw"
       THEN \* no parsing at all; the filter is the only consumer
            IF ~OverLen /\ ~Short
            THEN /\ Ev.st = 200 /\ Ev.ran /\ Ev.post = <<>> /\ Ev.files = <<>>
                 /\ RawSeenOK(Ev.raw, TRUE) /\ Ev.raw.eoc = 1 /\ Ev.raw.err = 0
            ELSE /\ Refused /\ NothingDelivered
                 /\ RawSeenOK(Ev.raw, FALSE) /\ Ev.raw.eoc = 0 /\ Ev.raw.err <= 1
       ELSE IF m.silent THEN TRUE
       ELSE IF ~OverLen /\ ~Short /\ m.ok /\ ~FieldOver(m.parts)
       THEN /\ Ev.st = 200 /\ Ev.ran
            /\ IF Ev.ct = "raw" THEN Ev.post = <<>> /\ Ev.files = <<>>
                                      /\ (IF Small THEN Ev.rp.d = SubSeq(Ev.b, 1, Seen)
                                          ELSE Ev.rp.len = Seen /\ (Ev.decl = Ev.blen => Ev.rp.dig = Ev.bdig))
               ELSE PostOK(Ev.post, Fields(m.parts)) /\ FilesOK(Ev.files, FilesOf(m.parts))
            /\ (Ev.ct = "mp" => SpillOK(m.parts))
            /\ (Ev.flt = "mp" => Ev.mpf.eoc = 1 /\ Ev.mpf.err = 0
                                 /\ (Ev.ct = "mp" => MpfOK(Ev.mpf.cbs, m.parts, TRUE) /\ ObsOK(Ev.mpf.obs, m.parts)))
       ELSE /\ Refused /\ NothingDelivered
            /\ (Ev.flt = "mp" => Ev.mpf.eoc = 0 /\ Ev.mpf.err <= 1)

TReset == Is("Reset") /\ tab' = Ev.hl
TParse == Is("Parse") /\ ParseOK /\ UNCHANGED tab
TUp    == Is("Up") /\ UpOK /\ UNCHANGED tab

TraceInit == l = 1 /\ tab = <<>>
TraceNext == TReset \/ TParse \/ TUp
TraceSpec == TraceInit /\ [][TraceNext]_tvars
=============================================================================
