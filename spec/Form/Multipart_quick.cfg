SPECIFICATION Spec
CONSTANTS
  Bnds <- BndsAll
  Prefixes <- StdPrefixes
  MaxTail = 6
  FieldLimits = {1000}
  DeclSlack = TRUE
  Mut = "none"
INVARIANTS Exact Accepts AllOrNothing Progress
