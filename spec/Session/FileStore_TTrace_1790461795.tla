---- MODULE FileStore_TTrace_1790461795 ----
EXTENDS FileStore, Sequences, TLCExt, Toolbox, Naturals, TLC

_expression ==
    LET FileStore_TEExpression == INSTANCE FileStore_TEExpression
    IN FileStore_TEExpression!expression
----

_trace ==
    LET FileStore_TETrace == INSTANCE FileStore_TETrace
    IN FileStore_TETrace!trace
----

_inv ==
    ~(
        TLCGet("level") = Len(_TETrace)
        /\
        res = ([dl |-> 3, data |-> <<>>, ok |-> TRUE, f |-> 1, good |-> TRUE, op |-> "load", pre |-> <<[ex |-> FALSE, hdr |-> [k |-> "none", dl |-> 0, size |-> 0, sum |-> <<>>], data |-> <<>>]>>])
        /\
        vol = (<<[ex |-> TRUE, hdr |-> [k |-> "full", dl |-> 3, size |-> 0, sum |-> <<>>], data |-> <<>>]>>)
        /\
        disk = (<<[ex |-> TRUE, hdr |-> [k |-> "full", dl |-> 3, size |-> 0, sum |-> <<>>], data |-> <<>>]>>)
        /\
        touched = (<<{}>>)
        /\
        sv = ([dl |-> 0, data |-> <<>>, on |-> FALSE, f |-> 1, ph |-> "idle", off |-> 0, rem |-> 0, adv |-> TRUE, clean |-> FALSE, good |-> TRUE])
        /\
        saves = ({[dl |-> 1, data |-> <<>>], [dl |-> 3, data |-> <<0>>]})
        /\
        now = (2)
        /\
        nplants = (0)
        /\
        nsaves = (2)
    )
----

_init ==
    /\ now = _TETrace[1].now
    /\ vol = _TETrace[1].vol
    /\ disk = _TETrace[1].disk
    /\ res = _TETrace[1].res
    /\ nsaves = _TETrace[1].nsaves
    /\ sv = _TETrace[1].sv
    /\ nplants = _TETrace[1].nplants
    /\ touched = _TETrace[1].touched
    /\ saves = _TETrace[1].saves
----

_next ==
    /\ \E i,j \in DOMAIN _TETrace:
        /\ \/ /\ j = i + 1
              /\ i = TLCGet("level")
        /\ now  = _TETrace[i].now
        /\ now' = _TETrace[j].now
        /\ vol  = _TETrace[i].vol
        /\ vol' = _TETrace[j].vol
        /\ disk  = _TETrace[i].disk
        /\ disk' = _TETrace[j].disk
        /\ res  = _TETrace[i].res
        /\ res' = _TETrace[j].res
        /\ nsaves  = _TETrace[i].nsaves
        /\ nsaves' = _TETrace[j].nsaves
        /\ sv  = _TETrace[i].sv
        /\ sv' = _TETrace[j].sv
        /\ nplants  = _TETrace[i].nplants
        /\ nplants' = _TETrace[j].nplants
        /\ touched  = _TETrace[i].touched
        /\ touched' = _TETrace[j].touched
        /\ saves  = _TETrace[i].saves
        /\ saves' = _TETrace[j].saves

\* Uncomment the ASSUME below to write the states of the error trace
\* to the given file in Json format. Note that you can pass any tuple
\* to `JsonSerialize`. For example, a sub-sequence of _TETrace.
    \* ASSUME
    \*     LET J == INSTANCE Json
    \*         IN J!JsonSerialize("FileStore_TTrace_1790461795.json", _TETrace)

=============================================================================

 Note that you can extract this module `FileStore_TEExpression`
  to a dedicated file to reuse `expression` (the module in the 
  dedicated `FileStore_TEExpression.tla` file takes precedence 
  over the module `FileStore_TEExpression` below).

---- MODULE FileStore_TEExpression ----
EXTENDS FileStore, Sequences, TLCExt, Toolbox, Naturals, TLC

expression == 
    [
        \* To hide variables of the `FileStore` spec from the error trace,
        \* remove the variables below.  The trace will be written in the order
        \* of the fields of this record.
        now |-> now
        ,vol |-> vol
        ,disk |-> disk
        ,res |-> res
        ,nsaves |-> nsaves
        ,sv |-> sv
        ,nplants |-> nplants
        ,touched |-> touched
        ,saves |-> saves
        
        \* Put additional constant-, state-, and action-level expressions here:
        \* ,_stateNumber |-> _TEPosition
        \* ,_nowUnchanged |-> now = now'
        
        \* Format the `now` variable as Json value.
        \* ,_nowJson |->
        \*     LET J == INSTANCE Json
        \*     IN J!ToJson(now)
        
        \* Lastly, you may build expressions over arbitrary sets of states by
        \* leveraging the _TETrace operator.  For example, this is how to
        \* count the number of times a spec variable changed up to the current
        \* state in the trace.
        \* ,_nowModCount |->
        \*     LET F[s \in DOMAIN _TETrace] ==
        \*         IF s = 1 THEN 0
        \*         ELSE IF _TETrace[s].now # _TETrace[s-1].now
        \*             THEN 1 + F[s-1] ELSE F[s-1]
        \*     IN F[_TEPosition - 1]
    ]

=============================================================================



Parsing and semantic processing can take forever if the trace below is long.
 In this case, it is advised to uncomment the module below to deserialize the
 trace from a generated binary file.

\*
\*---- MODULE FileStore_TETrace ----
\*EXTENDS FileStore, IOUtils, TLC
\*
\*trace == IODeserialize("FileStore_TTrace_1790461795.bin", TRUE)
\*
\*=============================================================================
\*

---- MODULE FileStore_TETrace ----
EXTENDS FileStore, TLC

trace == 
    <<
    ([res |-> [dl |-> 0, data |-> <<>>, ok |-> FALSE, f |-> 1, good |-> TRUE, op |-> "none", pre |-> <<[ex |-> FALSE, hdr |-> [k |-> "none", dl |-> 0, size |-> 0, sum |-> <<>>], data |-> <<>>]>>],vol |-> <<[ex |-> FALSE, hdr |-> [k |-> "none", dl |-> 0, size |-> 0, sum |-> <<>>], data |-> <<>>]>>,disk |-> <<[ex |-> FALSE, hdr |-> [k |-> "none", dl |-> 0, size |-> 0, sum |-> <<>>], data |-> <<>>]>>,touched |-> <<{}>>,sv |-> [dl |-> 0, data |-> <<>>, on |-> FALSE, f |-> 1, ph |-> "idle", off |-> 0, rem |-> 0, adv |-> TRUE, clean |-> FALSE, good |-> TRUE],saves |-> {},now |-> 2,nplants |-> 0,nsaves |-> 0]),
    ([res |-> [dl |-> 0, data |-> <<>>, ok |-> FALSE, f |-> 1, good |-> TRUE, op |-> "begin", pre |-> <<[ex |-> FALSE, hdr |-> [k |-> "none", dl |-> 0, size |-> 0, sum |-> <<>>], data |-> <<>>]>>],vol |-> <<[ex |-> TRUE, hdr |-> [k |-> "none", dl |-> 0, size |-> 0, sum |-> <<>>], data |-> <<>>]>>,disk |-> <<[ex |-> FALSE, hdr |-> [k |-> "none", dl |-> 0, size |-> 0, sum |-> <<>>], data |-> <<>>]>>,touched |-> <<{}>>,sv |-> [dl |-> 1, data |-> <<>>, on |-> TRUE, f |-> 1, ph |-> "hdr", off |-> 0, rem |-> 0, adv |-> TRUE, clean |-> TRUE, good |-> TRUE],saves |-> {[dl |-> 1, data |-> <<>>]},now |-> 2,nplants |-> 0,nsaves |-> 1]),
    ([res |-> [dl |-> 0, data |-> <<>>, ok |-> FALSE, f |-> 1, good |-> TRUE, op |-> "whdr", pre |-> <<[ex |-> FALSE, hdr |-> [k |-> "none", dl |-> 0, size |-> 0, sum |-> <<>>], data |-> <<>>]>>],vol |-> <<[ex |-> TRUE, hdr |-> [k |-> "ts", dl |-> 1, size |-> 0, sum |-> <<>>], data |-> <<>>]>>,disk |-> <<[ex |-> FALSE, hdr |-> [k |-> "none", dl |-> 0, size |-> 0, sum |-> <<>>], data |-> <<>>]>>,touched |-> <<{0}>>,sv |-> [dl |-> 1, data |-> <<>>, on |-> TRUE, f |-> 1, ph |-> "hdr2", off |-> 0, rem |-> 0, adv |-> TRUE, clean |-> TRUE, good |-> TRUE],saves |-> {[dl |-> 1, data |-> <<>>]},now |-> 2,nplants |-> 0,nsaves |-> 1]),
    ([res |-> [dl |-> 0, data |-> <<>>, ok |-> FALSE, f |-> 1, good |-> TRUE, op |-> "whdr", pre |-> <<[ex |-> FALSE, hdr |-> [k |-> "none", dl |-> 0, size |-> 0, sum |-> <<>>], data |-> <<>>]>>],vol |-> <<[ex |-> TRUE, hdr |-> [k |-> "full", dl |-> 1, size |-> 0, sum |-> <<>>], data |-> <<>>]>>,disk |-> <<[ex |-> FALSE, hdr |-> [k |-> "none", dl |-> 0, size |-> 0, sum |-> <<>>], data |-> <<>>]>>,touched |-> <<{0}>>,sv |-> [dl |-> 1, data |-> <<>>, on |-> TRUE, f |-> 1, ph |-> "end", off |-> 0, rem |-> 0, adv |-> TRUE, clean |-> TRUE, good |-> TRUE],saves |-> {[dl |-> 1, data |-> <<>>]},now |-> 2,nplants |-> 0,nsaves |-> 1]),
    ([res |-> [dl |-> 1, data |-> <<>>, ok |-> FALSE, f |-> 1, good |-> TRUE, op |-> "save", pre |-> <<[ex |-> FALSE, hdr |-> [k |-> "none", dl |-> 0, size |-> 0, sum |-> <<>>], data |-> <<>>]>>],vol |-> <<[ex |-> TRUE, hdr |-> [k |-> "full", dl |-> 1, size |-> 0, sum |-> <<>>], data |-> <<>>]>>,disk |-> <<[ex |-> FALSE, hdr |-> [k |-> "none", dl |-> 0, size |-> 0, sum |-> <<>>], data |-> <<>>]>>,touched |-> <<{0}>>,sv |-> [dl |-> 0, data |-> <<>>, on |-> FALSE, f |-> 1, ph |-> "idle", off |-> 0, rem |-> 0, adv |-> TRUE, clean |-> FALSE, good |-> TRUE],saves |-> {[dl |-> 1, data |-> <<>>]},now |-> 2,nplants |-> 0,nsaves |-> 1]),
    ([res |-> [dl |-> 0, data |-> <<>>, ok |-> FALSE, f |-> 1, good |-> TRUE, op |-> "begin", pre |-> <<[ex |-> FALSE, hdr |-> [k |-> "none", dl |-> 0, size |-> 0, sum |-> <<>>], data |-> <<>>]>>],vol |-> <<[ex |-> TRUE, hdr |-> [k |-> "full", dl |-> 1, size |-> 0, sum |-> <<>>], data |-> <<>>]>>,disk |-> <<[ex |-> FALSE, hdr |-> [k |-> "none", dl |-> 0, size |-> 0, sum |-> <<>>], data |-> <<>>]>>,touched |-> <<{0}>>,sv |-> [dl |-> 3, data |-> <<0>>, on |-> TRUE, f |-> 1, ph |-> "hdr", off |-> 0, rem |-> 1, adv |-> TRUE, clean |-> FALSE, good |-> TRUE],saves |-> {[dl |-> 1, data |-> <<>>], [dl |-> 3, data |-> <<0>>]},now |-> 2,nplants |-> 0,nsaves |-> 2]),
    ([res |-> [dl |-> 0, data |-> <<>>, ok |-> FALSE, f |-> 1, good |-> TRUE, op |-> "whdr", pre |-> <<[ex |-> FALSE, hdr |-> [k |-> "none", dl |-> 0, size |-> 0, sum |-> <<>>], data |-> <<>>]>>],vol |-> <<[ex |-> TRUE, hdr |-> [k |-> "full", dl |-> 3, size |-> 0, sum |-> <<>>], data |-> <<>>]>>,disk |-> <<[ex |-> FALSE, hdr |-> [k |-> "none", dl |-> 0, size |-> 0, sum |-> <<>>], data |-> <<>>]>>,touched |-> <<{0}>>,sv |-> [dl |-> 3, data |-> <<0>>, on |-> TRUE, f |-> 1, ph |-> "hdr2", off |-> 0, rem |-> 1, adv |-> TRUE, clean |-> FALSE, good |-> TRUE],saves |-> {[dl |-> 1, data |-> <<>>], [dl |-> 3, data |-> <<0>>]},now |-> 2,nplants |-> 0,nsaves |-> 2]),
    ([res |-> [dl |-> 0, data |-> <<>>, ok |-> FALSE, f |-> 1, good |-> TRUE, op |-> "crash", pre |-> <<[ex |-> FALSE, hdr |-> [k |-> "none", dl |-> 0, size |-> 0, sum |-> <<>>], data |-> <<>>]>>],vol |-> <<[ex |-> TRUE, hdr |-> [k |-> "full", dl |-> 3, size |-> 0, sum |-> <<>>], data |-> <<>>]>>,disk |-> <<[ex |-> TRUE, hdr |-> [k |-> "full", dl |-> 3, size |-> 0, sum |-> <<>>], data |-> <<>>]>>,touched |-> <<{}>>,sv |-> [dl |-> 0, data |-> <<>>, on |-> FALSE, f |-> 1, ph |-> "idle", off |-> 0, rem |-> 0, adv |-> TRUE, clean |-> FALSE, good |-> TRUE],saves |-> {[dl |-> 1, data |-> <<>>], [dl |-> 3, data |-> <<0>>]},now |-> 2,nplants |-> 0,nsaves |-> 2]),
    ([res |-> [dl |-> 3, data |-> <<>>, ok |-> TRUE, f |-> 1, good |-> TRUE, op |-> "load", pre |-> <<[ex |-> FALSE, hdr |-> [k |-> "none", dl |-> 0, size |-> 0, sum |-> <<>>], data |-> <<>>]>>],vol |-> <<[ex |-> TRUE, hdr |-> [k |-> "full", dl |-> 3, size |-> 0, sum |-> <<>>], data |-> <<>>]>>,disk |-> <<[ex |-> TRUE, hdr |-> [k |-> "full", dl |-> 3, size |-> 0, sum |-> <<>>], data |-> <<>>]>>,touched |-> <<{}>>,sv |-> [dl |-> 0, data |-> <<>>, on |-> FALSE, f |-> 1, ph |-> "idle", off |-> 0, rem |-> 0, adv |-> TRUE, clean |-> FALSE, good |-> TRUE],saves |-> {[dl |-> 1, data |-> <<>>], [dl |-> 3, data |-> <<0>>]},now |-> 2,nplants |-> 0,nsaves |-> 2])
    >>
----


=============================================================================

---- CONFIG FileStore_TTrace_1790461795 ----
CONSTANTS
    Files = { 1 }
    Payloads <- PayQuick
    Deadlines = { 1 , 3 }
    MinNow = 2
    MaxNow = 3
    MaxSaves = 2
    MaxPlants = 1
    SS = 2
    HB = 1
    HdrAtomic = FALSE
    Advance = { TRUE }

INVARIANT
    _inv

CHECK_DEADLOCK
    \* CHECK_DEADLOCK off because of PROPERTY or INVARIANT above.
    FALSE

INIT
    _init

NEXT
    _next

CONSTANT
    _TETrace <- _trace

ALIAS
    _expression
=============================================================================
\* Generated on Sat Sep 26 22:30:00 UTC 2026