SPECIFICATION Spec
CONSTANTS
  Files = {1}
  Payloads <- PayQuick
  Deadlines = {1, 3}
  MinNow = 2
  MaxNow = 3
  MaxSaves = 3
  MaxPlants = 0
  SS = 2
  HB = 1
  HdrAtomic = TRUE
  Advance = {TRUE}
INVARIANTS TypeOK NoMix LoadCleans GcSafe GcExact GcCleans SaveLoads ClosedFormOK MustLoadOK
CHECK_DEADLOCK FALSE
