SPECIFICATION TraceSpec
CONSTANTS
  Browsers = {0,1,2,3}
  Keys = {"a","b","c","d"}
  CLoc = "both"
  CHow0 = 1
  CAge0 = 100
  CPol = FALSE
  Vals = {}
  Ages = {}
  Hows = {}
  OpKinds = {}
  Advances = {}
  WfIds = {}
  JunkIds = {}
  MaxReq = 0
  MaxOps = 0
  MaxTamper = 0
  Relax = {}
  Tolerate = {"MetaAfterClear","ExposedNotRenewed"}
POSTCONDITION TraceDone
CHECK_DEADLOCK FALSE
