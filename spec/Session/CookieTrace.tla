---------------------------- MODULE CookieTrace ----------------------------
(* Leg B for C05: traces of harness/cookie/cookie_drv.cpp.                   *)
(*                                                                           *)
(* issued[cfg] = records [n, t, p, dl]: n = trace line of the Save event, t =  *)
(* line of the first Save with the same text (the cipher text is referenced,  *)
(* not copied), p = payload id, dl deadline.                                  *)
(* A cookie is logged as c0 (code of its first character, -1 if the cookie   *)
(* is empty) and the remaining characters: either tx (their codes) or, for   *)
(* long texts, as a splice of the text of the of-th Save of this execution:  *)
(* its first cp characters, then the characters mid, then its last cs ones.  *)
(*                                                                           *)
(* Clock and deadlines are absolute 64-bit time_t values logged as limb        *)
(* triples (Cookie!GeqW); a Tick carries the new clock value.                 *)
(* Load rule (DESIGN.md C05, Cookie!LoadRule): with                          *)
(*   live = { r in issued[cfg] : c0 = 'C', tx decodable, tx decodes to the   *)
(*            same bytes as the text issued by r, r.dl >= now }              *)
(* property layer: ok => the returned (payload, deadline) is that of a       *)
(*   record in live (Auth, Fresh); not ok and cookie non-empty => cleared;   *)
(*   a cookie character-for-character equal to a live issued one loads       *)
(*   (RoundTrip / replay).                                                   *)
(* Strict adds the code's lenient decoder as the model has it: every cookie  *)
(*   that decodes to a live issued cipher text loads, and is not cleared.    *)
(* Key schedule: a Save may carry ref = what an independent implementation   *)
(*   (libcrypto HMAC / AES-CBC, the documented derivation of the working     *)
(*   keys from the configured secret) reads from the cookie: it must open to *)
(*   the saved payload and deadline.  Cookies sealed by that reference       *)
(*   implementation from the same key material are Save events too (by =     *)
(*   "reference") and must load.  rv = verdict of the reference on the       *)
(*   presented cookie: ok => rv.  Forgeries (cipher texts re-signed under    *)
(*   keys that do not depend on the secret) are ordinary Load/Dec events:    *)
(*   they decode to no issued cipher text, so they must be refused, cleared. *)
(* Save: first character 'C'; Decode(tx) equals the raw cipher text when the *)
(*   harness saw it; under an encrypting configuration the cipher text       *)
(*   differs from every earlier one (IvFresh) and does not contain the       *)
(*   payload bytes (leak = FALSE).                                           *)
EXTENDS Cookie, TraceBase

CONSTANTS Strict

VARIABLES l, aes, svl
tvars == <<vars, l, aes, svl>>

Ev == TraceLog[l]
Is(name) == l <= NLines /\ Ev.e = name /\ l' = l + 1
TxOf(r) == TraceLog[r.t].tx

(* the presented text: length and character at position i *)
Spliced == Has(Ev, "of")
BaseTx  == TraceLog[svl[Ev.of]].tx
PLen    == IF Spliced THEN Ev.cp + Len(Ev.mid) + Ev.cs ELSE Len(Ev.tx)
PAt(i)  == IF ~Spliced THEN Ev.tx[i]
           ELSE IF i <= Ev.cp THEN BaseTx[i]
           ELSE IF i <= Ev.cp + Len(Ev.mid) THEN Ev.mid[i - Ev.cp]
           ELSE BaseTx[Len(BaseTx) - Ev.cs + (i - Ev.cp - Len(Ev.mid))]
(* Identical issued texts share one representative line (r.t); svl holds the    *)
(* representative of the k-th Save.  Comparing the presented text with the text *)
(* of line t: when it is a splice of that very text and the lengths agree, only *)
(* the replaced stretch can differ (prefix and suffix are the same characters   *)
(* at the same positions); a text logged in full is first compared natively.    *)
MidRange == (Ev.cp + 1)..(Ev.cp + Len(Ev.mid))
EqTo(t) ==
    LET b == TraceLog[t].tx
        n == PLen
    IN /\ n = Len(b)
       /\ IF Spliced /\ svl[Ev.of] = t
          THEN \A i \in MidRange : CanonG(Ev.mid[i - Ev.cp], n, i) = CanonG(b[i], n, i)
          ELSE IF ~Spliced /\ Ev.tx = b THEN TRUE
          ELSE DecEqG(PAt, n, LAMBDA i : b[i], n, Ev.h)
SameAs(t) ==
    LET b == TraceLog[t].tx IN
    /\ PLen = Len(b)
    /\ IF Spliced /\ svl[Ev.of] = t THEN \A i \in MidRange : Ev.mid[i - Ev.cp] = b[i]
       ELSE IF ~Spliced THEN Ev.tx = b
       ELSE \A i \in 1..PLen : PAt(i) = b[i]
SameText(r) == SameAs(r.t)

Frozen == UNCHANGED <<known, nsaves, nder>>

TReset ==
    /\ Is("Reset")
    /\ now' = Ev.now
    /\ issued' = [c \in Cfgs |-> {}]
    /\ aes' = SeqToSet(Ev.aes)
    /\ svl' = <<>>
    /\ res' = [NoRes EXCEPT !.op = "reset"]
    /\ Frozen

TSave ==
    /\ Is("Save")
    /\ Ev.c0 = 67
    /\ DecodeOK(Len(Ev.tx))
    /\ Has(Ev, "cipher") => Decode(Ev.tx) = Ev.cipher
    \* key schedule: the cookie opens, to the saved payload and deadline, under the working keys an
    \* independent implementation derives from the configured secret as documented
    /\ Has(Ev, "ref") => (Ev.ref.ok /\ Ev.ref.id = Ev.id /\ Ev.ref.dl = Ev.dl)
    /\ Ev.cfg \in aes =>
          /\ ~Ev.leak
          /\ \A r \in issued[Ev.cfg] : ~DecEq(Ev.tx, TxOf(r))
    /\ LET same == { r \in issued[Ev.cfg] : TxOf(r) = Ev.tx }
           rep  == IF same = {} THEN l ELSE (CHOOSE r \in same : TRUE).t
       IN /\ issued' = [issued EXCEPT ![Ev.cfg] = @ \cup {[n |-> l, t |-> rep, p |-> Ev.id, dl |-> Ev.dl]}]
          /\ svl' = Append(svl, rep)
    /\ res' = [NoRes EXCEPT !.op = "save"]
    /\ UNCHANGED <<now, aes>> /\ Frozen

Matching(cfg) ==
    IF Ev.c0 # 67 \/ ~DecodeOK(PLen) THEN {}
    ELSE LET mt == { t \in { r.t : r \in issued[cfg] } : EqTo(t) }
         IN { r \in issued[cfg] : r.t \in mt }

(* session_cookies::load through a session_interface + cookie adapter *)
TLoad ==
    /\ Is("Load")
    /\ LET live == { r \in Matching(Ev.cfg) : GeqW(r.dl, now) } IN
       /\ AuthFreshW(Ev.ok, Ev.id, Ev.dl, live, now)
       /\ (~Ev.ok /\ Ev.c0 # -1) => Ev.cleared
       /\ (Has(Ev, "rv") /\ Ev.ok) => Ev.rv           \* nothing loads that the reference keys do not authenticate
       /\ (\E r \in live : SameText(r)) => Ev.ok
       /\ Strict => ((live # {} => Ev.ok) /\ (Ev.ok => ~Ev.cleared))
    /\ res' = [NoRes EXCEPT !.op = "load"]
    /\ UNCHANGED <<now, issued, aes, svl>> /\ Frozen

(* encryptor::decrypt on the raw cipher text (no expiry, nothing to clear) *)
TDec ==
    /\ Is("Dec")
    /\ LET m == Matching(Ev.cfg) IN
       /\ AuthFreshW(Ev.ok, Ev.id, Ev.dl, m, Ev.dl)
       /\ (Has(Ev, "rv") /\ Ev.ok) => Ev.rv
       /\ (\E r \in m : SameText(r)) => Ev.ok
       /\ Strict => (m # {} => Ev.ok)
    /\ res' = [NoRes EXCEPT !.op = "dec"]
    /\ UNCHANGED <<now, issued, aes, svl>> /\ Frozen

TTick ==
    /\ Is("Tick")
    /\ now' = Ev.now
    /\ res' = [NoRes EXCEPT !.op = "tick"]
    /\ UNCHANGED <<issued, aes, svl>> /\ Frozen

(* configurations the code must refuse: encryption without MAC, keys shorter than 16 bytes *)
TRefuse ==
    /\ Is("Refuse")
    /\ Ev.refused
    /\ res' = [NoRes EXCEPT !.op = "refuse"]
    /\ UNCHANGED <<now, issued, aes, svl>> /\ Frozen

TraceInit == Init /\ l = 1 /\ aes = {} /\ svl = <<>>
TraceNext == TReset \/ TSave \/ TLoad \/ TDec \/ TTick \/ TRefuse
TraceSpec == TraceInit /\ [][TraceNext]_tvars
=============================================================================
