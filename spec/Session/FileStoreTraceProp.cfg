SPECIFICATION TraceSpec
CONSTANTS
  Files = {1}
  Payloads <- PayF8
  Deadlines = {1}
  MinNow = 1
  MaxNow = 1
  MaxSaves = 0
  MaxPlants = 0
  SS = 512
  HB = 16
  HdrAtomic = TRUE
  Advance = {TRUE}
  Strict = FALSE
  ClockBase = 1000000
  NF = 6
  SmallLimit = 40
POSTCONDITION TraceDone
CHECK_DEADLOCK FALSE
