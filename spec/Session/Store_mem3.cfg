SPECIFICATION Spec
CONSTANTS
  Sids = {1,2,3}
  Threads = {1,2}
  Deadlines = {1,2}
  MaxNow = 2
  MaxSaves = 3
  Backend = "memory"
  Net = FALSE
  IntMax = 1000
  GcBatch = 1
  Bug = "none"
CONSTRAINT Bounded
INVARIANTS TypeOK LoadCorrect LiveKept HeldSound IndexConsistent
PROPERTIES MemGcProgress FileGcComplete OnlyExpiredVanish
