SPECIFICATION TraceSpec
CONSTANTS
  Sids = {0,1,2,3,4,5,6,7,8,9,10,11,12,13,14,15,16}
  Threads = {0}
  Deadlines = {0}
  MaxNow = 0
  MaxSaves = 0
  Backend = "memory"
  Net = FALSE
  IntMax = 2147483647
  GcBatch = 5
  Bug = "none"
  Strict = TRUE
POSTCONDITION TraceDone
CHECK_DEADLOCK FALSE
