---------------------------- MODULE StoreLinTrace ----------------------------
(* Leg B of G03, concurrent histories (clause c).  store_drv (mode conc) runs 2..8 real threads on one back-end; *)
(* every thread logs Inv before and Ret after each call, both stamped by one global atomic counter (the trace is  *)
(* sorted by it; nothing inside the library is hooked).  The trace is accepted iff there is a LINEARIZATION:      *)
(* one point per call between its Inv and its Ret such that the calls, executed atomically in that order on the   *)
(* abstract store of Store.tla (cur[s] = latest save, NoEntry after remove; load = ValAt(cur[s], now)), return    *)
(* what the real calls returned.  Sessions are independent objects, so the search is per sid: when the Ret of a   *)
(* call on sid s arrives and the call has no point yet, TLC chooses a sequence of other point-less pending calls  *)
(* ON THE SAME SID to take effect first (lazy placement: a point is only ever needed just before some Ret of its  *)
(* sid - complete, and far fewer branches than eager placement).  gc calls have no abstract effect at all: any    *)
(* session a gc (or short_gc) wrongly removed makes a later load unexplainable.  Run with the depth-first queue.  *)
(* Between phases the threads are joined (Tick only when nothing is pending); View carries the quiescent          *)
(* white-box view, which must agree with the abstract store the chosen linearization produced.                    *)
EXTENDS Store, TraceBase

VARIABLES l, pend, be
tvars == <<vars, l, pend, be>>

Ev == TraceLog[l]
Is(name) == l <= NLines /\ Ev.e = name /\ l' = l + 1

Tids == 0..15
PIdle == [ph |-> "idle", op |-> "none", s |-> 0, v |-> 0, dl |-> 0, r |-> Miss]
Keep == UNCHANGED <<last, removed, nv, tindex, th, gc>>

TReset ==
    /\ Is("Reset") /\ Ev.mode = "conc"
    /\ now' = 0
    /\ store' = [s \in Sids |-> NoEntry]
    /\ pend' = [t \in Tids |-> PIdle]
    /\ be' = [name |-> Ev.be, mem |-> Ev.mem]
    /\ Keep

TInv ==
    /\ Is("Inv")
    /\ Ev.tid \in Tids /\ pend[Ev.tid].ph = "idle"
    /\ Ev.op \in {"save", "load", "remove", "gc"}
    /\ Ev.op # "gc" => Ev.s \in Sids \ {0}
    /\ pend' = [pend EXCEPT ![Ev.tid] = [ph |-> "inv", op |-> Ev.op, s |-> Ev.s, v |-> Get(Ev, "v", 0), dl |-> Get(Ev, "dl", 0), r |-> Miss]]
    /\ UNCHANGED <<now, store, be>> /\ Keep

\* all sequences of distinct elements of S (every order of every subset)
RECURSIVE Seqs(_)
Seqs(S) == {<<>>} \cup UNION { { <<x>> \o q : q \in Seqs(S \ {x}) } : x \in S }

\* the calls of q take effect in this order on (c, P)
RECURSIVE Apply(_, _, _)
Apply(c, P, q) ==
    IF q = <<>> THEN <<c, P>>
    ELSE LET u == Head(q)
             o == P[u]
             c1 == IF o.op = "save" THEN [c EXCEPT ![o.s] = Entry(o.v, o.dl)]
                   ELSE IF o.op = "remove" THEN [c EXCEPT ![o.s] = NoEntry]
                   ELSE c
             r == IF o.op = "load" THEN ValAt(c[o.s], now) ELSE Miss
         IN Apply(c1, [P EXCEPT ![u] = [@ EXCEPT !.ph = "lin", !.r = r]], Tail(q))

\* placing a pending load now is only ever needed in front of a save/remove that is placed now as well: otherwise it
\* sees the same abstract state when it is placed at the next occasion (pure reduction of the search, no loss)
Useful(q, t) ==
    \A i \in DOMAIN q : pend[q[i]].op = "load" =>
        \/ pend[t].op # "load"
        \/ \E j \in DOMAIN q : j > i /\ pend[q[j]].op # "load"

RetMatches(p) ==
    p.op = "load" => /\ Has(Ev, "hit") /\ Ev.hit = p.r.hit
                     /\ Ev.hit => (Ev.v = p.r.v /\ Ev.dl = p.r.dl)

TRet ==
    /\ Is("Ret")
    /\ Ev.tid \in Tids
    /\ LET t == Ev.tid
           p == pend[t]
       IN \/ /\ p.ph = "lin"
             /\ RetMatches(p)
             /\ pend' = [pend EXCEPT ![t] = PIdle]
             /\ store' = store
          \/ /\ p.ph = "inv"
             /\ LET others == IF p.op = "gc" THEN {}
                              ELSE { u \in Tids \ {t} : pend[u].ph = "inv" /\ pend[u].op # "gc" /\ pend[u].s = p.s }
                IN \E q \in Seqs(others) :
                      LET cp == Apply(store, pend, q \o <<t>>)
                      IN /\ Useful(q, t)
                         /\ RetMatches(cp[2][t])
                         /\ store' = cp[1]
                         /\ pend' = [cp[2] EXCEPT ![t] = PIdle]
    /\ UNCHANGED <<now, be>> /\ Keep

Quiescent == \A t \in Tids : pend[t].ph = "idle"

TTick ==
    /\ Is("Tick") /\ Ev.d > 0
    /\ Quiescent
    /\ now' = now + Ev.d
    /\ UNCHANGED <<store, pend, be>> /\ Keep

\* quiescent white-box view: what is held is what the linearization says (alive sessions all there, nothing foreign);
\* memory: the timeout index mirrors the map
M == Ev.m
ViewSids == { M[i].s : i \in DOMAIN M }
TView ==
    /\ Is("View")
    /\ Quiescent
    /\ Cardinality(ViewSids) = Len(M) /\ ViewSids \subseteq Sids
    /\ \A i \in DOMAIN M : store[M[i].s].has /\ store[M[i].s].v = M[i].v /\ store[M[i].s].dl = M[i].dl
    /\ \A s \in Sids : (store[s].has /\ store[s].dl >= now) => s \in ViewSids
    /\ be.mem => /\ Len(Ev.ix) = Len(M)
                 /\ \A i \in DOMAIN M : /\ (M[i].ip + 1) \in DOMAIN Ev.ix
                                        /\ Ev.ix[M[i].ip + 1].mp = i - 1
                                        /\ Ev.ix[M[i].ip + 1].dl = M[i].dl
                 /\ \A j \in 1..(Len(Ev.ix) - 1) : (Ev.ix[j].g = Ev.ix[j + 1].g => Ev.ix[j].dl <= Ev.ix[j + 1].dl)
    /\ UNCHANGED <<now, store, pend, be>> /\ Keep

TEnd ==
    /\ Is("End")
    /\ Quiescent
    /\ UNCHANGED <<now, store, pend, be>> /\ Keep

TraceInit == Init /\ l = 1 /\ pend = [t \in Tids |-> PIdle] /\ be = [name |-> "none", mem |-> FALSE]
TraceNext == TReset \/ TInv \/ TRet \/ TTick \/ TView \/ TEnd
TraceSpec == TraceInit /\ [][TraceNext]_tvars
=============================================================================
