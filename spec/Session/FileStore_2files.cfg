SPECIFICATION Spec
CONSTANTS
  Files = {1, 2}
  Payloads <- Pay3
  Deadlines = {1, 3}
  MinNow = 2
  MaxNow = 3
  MaxSaves = 2
  MaxPlants = 1
  SS = 2
  HB = 1
  HdrAtomic = TRUE
  Advance = {TRUE}
INVARIANTS TypeOK NoMix LoadCleans GcSafe GcExact GcCleans SaveLoads ClosedFormOK MustLoadOK
CHECK_DEADLOCK FALSE
