SPECIFICATION Spec
CONSTANTS
  Cfgs = {1, 2}
  AesCfgs = {2}
  Pay = {1, 2}
  Deadlines = {0, 2}
  MaxNow = 2
  MaxSaves = 2
  MaxDerive = 1
  MacCoversIv = TRUE
  FreshIv = TRUE
INVARIANTS Auth Fresh Cleared LoadRule RoundTrip IvFresh
CHECK_DEADLOCK FALSE
