\* representative thorough configuration (checks/C06.py generates one cfg per location x expire x jar from lib/sesslib.py)
SPECIFICATION Spec
CONSTANTS
  Browsers = {0}
  Keys = {"a"}
  CLoc = "both"
  CHow0 = 1
  CAge0 = 100
  CPol = FALSE
  Vals = {1}
  Ages = {50}
  Hows = {0,2}
  OpKinds = {"set","erase","clear","expose","hide","age","how","srv","reset"}
  Advances = {3,10,40,99,100,101}
  WfIds = {1,2,3,4,5,6,7,8,9,10,11,12,13,14}
  JunkIds = {901}
  MaxReq = 3
  MaxOps = 1
  MaxTamper = 1
VIEW View
INVARIANTS Carry NoForeign Dead SidForm Exposed JarLeft
PROPERTIES FreshSid Unusable DeadlineFixed DeadlineRenew
