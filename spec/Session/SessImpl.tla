------------------------------ MODULE SessImpl ------------------------------
(***************************************************************************)
(* Mechanism layer of C06: what session_interface::load/save,              *)
(* session_sid, session_dual, session_cookies and update_exposed *do*,     *)
(* written as functions of the request state, checked against the property *)
(* layer Sess: in every reachable state the mechanism's outputs            *)
(*   - satisfy the clauses of Sess!SaveGuard            (MechSaveOK),      *)
(*   - make Carry / NoForeign / Dead / Exposed / JarLeft hold.             *)
(* The abstract server state (store, issued, left, dead, seen) is the one  *)
(* of Sess, updated by Sess!SaveEffect with the mechanism's outputs.       *)
(*                                                                         *)
(* Faithful = TRUE reproduces the code as it is, including                 *)
(*   (a) clear() erasing the _t/_h/_s keys but keeping timeout_val_ /      *)
(*       how_ / on_server_, and                                            *)
(*   (b) update_exposed(force) re-sending an exposed cookie only when its  *)
(*       own value changed or an *unchanged* session is renewed;           *)
(* TLC then finds the two deviations the trace spec tolerates-and-reports  *)
(* (Carry after clear+set; Exposed with a polite jar) as counter-examples. *)
(* Faithful = FALSE is the repaired design (clear() also resets the three  *)
(* members; every write of the session cookie re-sends all exposed         *)
(* cookies): all invariants hold.                                          *)
(* A rejection at this layer is MODEL-DRIFT, never a violation (DESIGN 1.2)*)
(***************************************************************************)
EXTENDS Sess

CONSTANTS Faithful,     \* BOOLEAN
          BigVals       \* value ids whose size exceeds client_size_limit

VARIABLE xexp           \* [Browsers -> [Keys -> Int]]: expiry of the exposed cookie of a key in b's jar (-1: none)

ivars == <<vars, xexp>>

\* the keys actually stored (session_interface::data_): the data map plus the explicit settings
Data(S) == [d |-> S.d, t |-> IF S.mt THEN S.age ELSE -1, h |-> IF S.mh THEN S.how ELSE -1, s |-> IF S.ms THEN S.srv ELSE FALSE, ms |-> S.ms]

MechApply(S, o) ==
    IF o.op = "clear" THEN ApplyOp(S, [o EXCEPT !.v = IF Faithful THEN 0 ELSE 1]) ELSE ApplyOp(S, o)

Unchanged   == Data(cur.S) = Data(cur.S0) /\ ~NewSess                      \* data_ == data_copy_ && !new_session_
EarlyReturn == /\ ~IsEmpty(cur.S) /\ Unchanged
               /\ (cur.S.how = 0 \/ 10 * (now + cur.S.age - cur.dl0) < cur.S.age)
Written     == ~IsEmpty(cur.S) /\ ~EarlyReturn
MechDl      == IF EarlyReturn THEN cur.dl0
               ELSE IF cur.S.how \in {1, 2} \/ NewSess THEN now + cur.S.age ELSE cur.dl0           \* session_age()
MechExp     == IF cur.S.how = 2 THEN -1
               ELSE IF cur.S.how = 1 \/ NewSess THEN now + cur.S.age ELSE cur.dl0                  \* now + cookie_age()
Big(S)      == \E k \in Keys : S.d[k].has /\ S.d[k].v \in BigVals
OnServer    == conf.loc = "server" \/ (conf.loc = "both" /\ (cur.S.srv \/ Big(cur.S)))             \* session_dual::save
ValidI      == cur.ck.kind = "I" /\ cur.ck.id \in WfIds                                            \* session_sid::valid_sid
FreshId     == MinOf(WfIds \ seen)

MechCk ==
    IF IsEmpty(cur.S) THEN NoCk                                       \* storage clear: cookie withdrawn (or there was none)
    ELSE IF EarlyReturn THEN jar[cur.b]
    ELSE IF OnServer THEN [kind |-> "I", id |-> IF ValidI /\ ~NewSess THEN cur.ck.id ELSE FreshId, exp |-> MechExp]
    ELSE [kind |-> "C", id |-> FreshId, exp |-> MechExp]

\* update_exposed(force) on the jar J (set of [k,v]) of the requesting browser
ExposedIn(S, k) == S.d[k].has /\ S.d[k].x
Sent(k) ==
    /\ Written /\ ExposedIn(cur.S, k)
    /\ \/ Unchanged                                                   \* force_update
       \/ ~ExposedIn(cur.S0, k) \/ cur.S.d[k].v # cur.S0.d[k].v
       \/ ~Faithful                                                   \* repaired: every write re-sends all exposed cookies
MechXc(J) ==
    IF IsEmpty(cur.S) THEN {}                                         \* update_exposed(true) + remove_unknown_cookies
    ELSE IF EarlyReturn THEN J
    ELSE { c \in J : ExposedIn(cur.S, c.k) /\ ~Sent(c.k) }            \* everything else is withdrawn (remove_unknown_cookies)
         \cup { [k |-> k, v |-> cur.S.d[k].v] : k \in { q \in Keys : Sent(q) /\ cur.S.d[q].v # 0 } }

IInit == Init /\ xexp = [b \in Browsers |-> [k \in Keys |-> -1]]

\* a polite jar forgets exposed cookies whose Max-Age ran out before it sends the request
IReq(b) ==
    /\ cur.ph = "idle"
    /\ ~(conf.pol /\ jar[b].kind # "N" /\ jar[b].exp >= 0 /\ now > jar[b].exp)
    /\ cur' = [IdleCur EXCEPT !.ph = "req", !.b = b, !.ck = jar[b], !.hon = honest[b]]
    /\ seen' = IF jar[b].kind = "N" THEN seen ELSE seen \cup {jar[b].id}
    /\ xjar' = [xjar EXCEPT ![b] = { c \in xjar[b] : ~(conf.pol /\ xexp[b][c.k] >= 0 /\ now > xexp[b][c.k]) }]
    /\ UNCHANGED <<conf, now, store, issued, dead, jar, honest, left, hist, xexp>>

\* load: live iff deadline >= now; what comes back is what was stored - the explicit settings only
ILoad ==
    /\ cur.ph = "req"
    /\ LET c  == Cand(cur.ck)
           ok == c.has /\ c.dl >= now
           S  == IF ok THEN Canon(c.S) ELSE EmptyS
       IN cur' = [cur EXCEPT !.ph = "ops", !.ok = ok, !.S0 = S, !.S = S, !.dl0 = IF ok THEN c.dl ELSE 0]
    /\ UNCHANGED <<conf, now, store, issued, seen, dead, jar, xjar, honest, left, hist, xexp>>

IOp(o) ==
    /\ cur.ph = "ops"
    /\ cur' = [cur EXCEPT !.S = MechApply(cur.S, o), !.reset = (cur.reset \/ o.op = "reset"), !.nops = cur.nops + 1]
    /\ UNCHANGED <<conf, now, store, issued, seen, dead, jar, xjar, honest, left, hist, xexp>>

ISave ==
    /\ cur.ph = "ops"
    /\ (WfIds \ seen) # {}
    /\ SaveEffect(MechCk, MechDl, MechXc(xjar[cur.b]))
    /\ xexp' = [xexp EXCEPT ![cur.b] = [k \in Keys |-> IF Sent(k) THEN MechExp ELSE xexp[cur.b][k]]]
    /\ cur' = IdleCur

INext ==
    \/ \E d \in Advances :
           /\ cnt.stage = 0 /\ Tick(d) /\ cnt' = [cnt EXCEPT !.stage = 1] /\ UNCHANGED xexp
    \/ \E b \in Browsers : \E ck \in AttackCookies(b) :
           /\ cnt.stage < 2 /\ cnt.tamper < MaxTamper /\ jar[b] # ck /\ cnt.req[b] < MaxReq
           /\ Tamper(b, ck) /\ cnt' = [cnt EXCEPT !.tamper = @ + 1, !.stage = 2, !.who = b] /\ UNCHANGED xexp
    \/ \E b \in Browsers :
           /\ cnt.stage < 2 /\ cnt.req[b] < MaxReq
           /\ Expire(b) /\ cnt' = [cnt EXCEPT !.stage = 2, !.who = b] /\ UNCHANGED xexp
    \/ \E b \in Browsers :
           /\ cnt.req[b] < MaxReq /\ (cnt.stage = 2 => cnt.who = b)
           /\ IReq(b) /\ cnt' = [cnt EXCEPT !.req[b] = @ + 1, !.stage = 0, !.who = 0]
    \/ ILoad /\ UNCHANGED cnt
    \/ \E o \in OpAlphabet : IOp(o) /\ cur.nops < MaxOps /\ UNCHANGED cnt
    \/ /\ ISave /\ UNCHANGED cnt
       /\ \/ hist' = hist
          \/ (jar[cur.b].kind # "N" /\ jar'[cur.b] # jar[cur.b] /\ cnt.tamper < MaxTamper /\ hist' = {jar[cur.b]})

ISpec == IInit /\ [][INext]_ivars

\* every state of the "ops" phase is a possible save point: the mechanism's outputs must satisfy the property clauses
MechSaveOK == cur.ph = "ops" => SaveGuard(MechCk, MechDl, {})

\* on_server / size limit: a session that must live on the server is never put into the cookie (mechanism only)
MechPlacement == cur.ph = "ops" /\ Written /\ conf.loc = "both" /\ (cur.S.srv \/ Big(cur.S)) => MechCk.kind = "I"

IView == <<View, [b \in Browsers |-> [k \in Keys |-> RbExp(xexp[b][k])]]>>
=============================================================================
