-------------------------- MODULE FileStoreTrace --------------------------
(* Leg B for C18: traces of harness/filestore/fs_drv.cpp judged with the    *)
(* operators of FileStore.tla.                                              *)
(*                                                                          *)
(* Of FileStore's variables only now / saves / res are driven (history:     *)
(* every begun save as [data |-> <<id>>, dl]; a cell of the abstract images *)
(* used in gc mode is a whole payload).  Byte contents stay in TraceLog     *)
(* (constant) and are referenced by line number.                            *)
(*                                                                          *)
(* Property layer (always demanded): NoMix (a load that succeeds returns    *)
(* the payload AND deadline of one begun save, not expired), LoadCleans     *)
(* (file exists afterwards iff the load succeeded), MustLoad (an image that *)
(* is byte-identical to a complete save loads), GcSafe, GcCleans.           *)
(* Strict = TRUE additionally demands the exact behaviour of the model:     *)
(* the write pattern of Save (header HB@0 in one write, then the data in    *)
(* order) and for every crash image exactly the outcome FileStore!Closed    *)
(* predicts, gc removing exactly the dead.  The check validates strictly    *)
(* and re-validates a rejected execution with Strict = FALSE to tell a      *)
(* VIOLATION from model drift.                                              *)
EXTENDS FileStore, TraceBase

CONSTANTS Strict, ClockBase, NF, SmallLimit

VARIABLES l, mode, fs, cur, base, sm
tvars == <<vars, l, mode, fs, cur, base, sm>>

Ev == TraceLog[l]
Is(name) == l <= NLines /\ Ev.e = name /\ l' = l + 1

FNames == 1..NF
NoFile == [ex |-> FALSE, k |-> "none", dl |-> 0, valid |-> FALSE, id |-> 0, n |-> 0, unk |-> FALSE, line |-> 0]
NoCur  == [on |-> FALSE, f |-> 1, id |-> 0, dl |-> 0, n |-> 0, line |-> 0, ph |-> "idle", off |-> 0, patt |-> TRUE, nw |-> 0]
NoBase == [has |-> FALSE, ex |-> FALSE, dv |-> FALSE, id |-> 0, dl |-> 0, n |-> 0, L |-> 0, line |-> 0, hk |-> "none"]

DataOf(line) == TraceLog[line].data

(* abstract image of a tracked file: one cell = one payload *)
AImg(d) ==
    IF ~d.ex THEN Absent
    ELSE [ex |-> TRUE,
          hdr |-> [k |-> d.k, dl |-> d.dl, size |-> 1, sum |-> IF d.valid THEN <<d.id>> ELSE BadSum],
          data |-> IF d.valid THEN <<d.id>> ELSE <<0>>]

Dec32(b, i) == b[i] + 256 * b[i+1] + 65536 * b[i+2] + 16777216 * b[i+3]
HdrBytesOK(b, dl, n) ==
    /\ Len(b) = HB
    /\ b[4] < 128 /\ b[5] = 0 /\ b[6] = 0 /\ b[7] = 0 /\ b[8] = 0
    /\ Dec32(b, 1) = ClockBase + dl
    /\ b[16] < 128 /\ Dec32(b, 13) = n

Frozen == UNCHANGED <<disk, vol, touched, sv, nsaves, nplants>>

TReset ==
    /\ Is("Reset")
    /\ Assert(Ev.ss = SS /\ Ev.hb = HB /\ Ev.cb = ClockBase, "harness constants differ from the cfg")
    /\ now' = Ev.now /\ mode' = Ev.mode
    /\ fs' = [f \in FNames |-> NoFile]
    /\ saves' = {} /\ cur' = NoCur /\ base' = NoBase /\ sm' = <<>>
    /\ res' = [NoRes EXCEPT !.op = "reset"]
    /\ Frozen

BeginSave(short) ==
    /\ ~cur.on
    /\ Ev.n = Len(Ev.data)
    /\ cur' = [on |-> TRUE, f |-> Ev.f, id |-> Ev.id, dl |-> Ev.dl, n |-> Ev.n, line |-> l, ph |-> "hdr",
               off |-> 0, patt |-> ~short, nw |-> 0]
    /\ saves' = saves \cup {[data |-> <<Ev.id>>, dl |-> Ev.dl]}
    /\ fs' = [fs EXCEPT ![Ev.f] = IF @.ex THEN @ ELSE [NoFile EXCEPT !.ex = TRUE]]
    /\ sm' = IF base.has /\ ~short
             THEN Summary(IF base.ex THEN DataOf(base.line) ELSE <<>>, Ev.data, IF base.dv THEN base.n ELSE 0)
             ELSE <<>>
    /\ res' = [NoRes EXCEPT !.op = "begin"]
    /\ UNCHANGED <<now, mode, base>> /\ Frozen

TSave      == Is("Save") /\ BeginSave(FALSE)
TShortSave == Is("ShortSave") /\ BeginSave(TRUE)

(* does this write() follow FileStore!WriteHeader / WriteData ? *)
WriteMatches ==
    IF cur.ph = "hdr"
    THEN Ev.off = 0 /\ Ev.n = HB /\ Ev.ret = HB /\ HdrBytesOK(Ev.data, cur.dl, cur.n)
    ELSE /\ cur.ph = "data"
         /\ Ev.off = HB + cur.off /\ Ev.n = cur.n - cur.off /\ Ev.ret \in 1..Ev.n
         /\ Ev.data = SubSeq(DataOf(cur.line), cur.off + 1, cur.off + Ev.ret)

TWrite ==
    /\ Is("Write") /\ cur.on
    /\ LET m == cur.patt /\ WriteMatches IN
       /\ (Strict /\ cur.patt) => m
       /\ cur' = IF m THEN [cur EXCEPT !.nw = @ + 1,
                                       !.off = IF cur.ph = "hdr" THEN 0 ELSE @ + Ev.ret,
                                       !.ph = IF cur.ph = "hdr" THEN (IF cur.n = 0 THEN "end" ELSE "data")
                                              ELSE (IF cur.off + Ev.ret = cur.n THEN "end" ELSE "data")]
                 ELSE [cur EXCEPT !.patt = FALSE, !.nw = @ + 1]
    /\ res' = [NoRes EXCEPT !.op = "write"]
    /\ UNCHANGED <<now, mode, fs, saves, base, sm>> /\ Frozen

TSaveEnd ==
    /\ Is("SaveEnd") /\ cur.on
    /\ LET short == TraceLog[cur.line].e = "ShortSave"
           model == cur.patt /\ cur.ph = "end" /\ ~Ev.threw          \* the writes were exactly FileStore!Save
           whole == ~short /\ ~Ev.threw /\ (cur.patt => cur.ph = "end") \* a save that returned normally
       IN
       /\ (Strict /\ ~short) => model
       /\ fs' = [fs EXCEPT ![cur.f] =
                   IF whole THEN [ex |-> TRUE, k |-> "full", dl |-> cur.dl, valid |-> TRUE, id |-> cur.id, n |-> cur.n, unk |-> FALSE, line |-> cur.line]
                   ELSE [@ EXCEPT !.ex = TRUE, !.unk = TRUE, !.valid = FALSE]]
    /\ cur' = [cur EXCEPT !.on = FALSE]
    /\ res' = [NoRes EXCEPT !.op = "save"]
    /\ UNCHANGED <<now, mode, saves, base, sm>> /\ Frozen

TPlant ==
    /\ Is("Plant") /\ ~cur.on
    /\ IF Ev.f \in FNames
       THEN fs' = [fs EXCEPT ![Ev.f] = [ex |-> TRUE, k |-> Ev.k, dl |-> Ev.dl, valid |-> Ev.valid, id |-> Ev.id, n |-> Ev.size, unk |-> FALSE, line |-> 0]]
       ELSE fs' = fs
    /\ saves' = IF Ev.valid THEN saves \cup {[data |-> <<Ev.id>>, dl |-> Ev.dl]} ELSE saves
    /\ res' = [NoRes EXCEPT !.op = "plant"]
    /\ UNCHANGED <<now, mode, cur, base, sm>> /\ Frozen

TTick ==
    /\ Is("Tick")
    /\ now' = now + Ev.d
    /\ res' = [NoRes EXCEPT !.op = "tick"]
    /\ UNCHANGED <<mode, fs, saves, cur, base, sm>> /\ Frozen

(* the harness' snapshot of the durable file before the save under test *)
TBase ==
    /\ Is("Base") /\ ~cur.on
    /\ LET d == fs[Ev.f] IN
       /\ Ev.ex = d.ex
       /\ Ev.hk = (IF d.ex THEN d.k ELSE "none")
       /\ (d.ex /\ d.valid) =>
             /\ Ev.hdl = d.dl /\ Ev.hsize = d.n /\ Len(Ev.data) >= d.n
             /\ (d.line > 0 => SubSeq(Ev.data, 1, d.n) = DataOf(d.line))
       /\ base' = [has |-> TRUE, ex |-> d.ex, dv |-> d.ex /\ d.valid, id |-> d.id,
                   dl |-> IF d.ex /\ d.k # "none" THEN Ev.hdl ELSE 0, n |-> d.n, L |-> Len(Ev.data), line |-> l, hk |-> Ev.hk]
    /\ res' = [NoRes EXCEPT !.op = "base"]
    /\ UNCHANGED <<now, mode, fs, saves, cur, sm>> /\ Frozen

-----------------------------------------------------------------------------
(* the observed result as a FileStore result record *)
ObsRes(idpick) == [NoRes EXCEPT !.op = "load", !.ok = Ev.ok, !.data = IF Ev.ok THEN <<idpick>> ELSE <<>>,
                                !.dl = IF Ev.ok THEN Ev.dl ELSE 0]

(* NoMix on the observation: some reported id makes the (payload, deadline) pair one begun save *)
ObsNoMix(t) == Ev.ok => \E i \in SeqToSet(Ev.ids) : NoMixP(ObsRes(i), saves, t)
ObsIs(exp)  == /\ Ev.ok = exp.ok
               /\ exp.ok => (exp.data[1] \in SeqToSet(Ev.ids) /\ Ev.dl = exp.dl)

(* explicit byte images for the operational cross-check on small files *)
BaseImg ==
    IF ~base.ex THEN Absent
    ELSE [ex |-> TRUE,
          hdr |-> IF base.dv THEN FullHdr(base.dl, SubSeq(DataOf(base.line), 1, base.n))
                  ELSE IF base.hk = "full" THEN [k |-> "full", dl |-> base.dl, size |-> base.n, sum |-> BadSum]
                  ELSE IF base.hk = "ts" THEN [k |-> "ts", dl |-> base.dl, size |-> 0, sum |-> <<>>]
                  ELSE NoHdr,
          data |-> DataOf(base.line)]
VolImg(hw, b) ==
    LET d == IF base.ex THEN BaseImg ELSE Empty IN
    [ex |-> TRUE,
     hdr |-> IF hw THEN FullHdr(cur.dl, DataOf(cur.line)) ELSE d.hdr,
     data |-> Overlay(d.data, 0, SubSeq(DataOf(cur.line), 1, b))]

TCrashLoad ==
    /\ Is("CrashLoad") /\ base.has /\ ~cur.on /\ mode = "crash"
    /\ LET S  == SeqToSet(Ev.S)
           t  == Ev.now
       IN
       /\ ObsNoMix(t)
       /\ Ev.ex = Ev.ok
       /\ cur.patt =>
            LET hw == Ev.w >= 1
                b  == IF Ev.w = 0 THEN 0 ELSE IF Ev.w = 1 THEN Ev.pb ELSE cur.n
                w  == ClosedW(sm, base.dv, base.dl, base.L, cur.n, cur.dl, hw, b, S, t)
                exp == IF w = "old" THEN [ok |-> TRUE, data |-> <<base.id>>, dl |-> base.dl]
                       ELSE IF w = "new" THEN [ok |-> TRUE, data |-> <<cur.id>>, dl |-> cur.dl]
                       ELSE None
                ilen == IF ~hw /\ ~base.ex THEN 0 ELSE ImageLen(base.L, b, S)
                exact == (w = "old" /\ ilen = base.n) \/ (w = "new" /\ ilen = cur.n)
            IN /\ Assert(Ev.w <= cur.nw /\ (Ev.w = 1 => Ev.pb < cur.n \/ Ev.pb = 0) /\ (Ev.w # 1 => Ev.pb = 0)
                         /\ (\A s \in S : hw /\ (s = 0 \/ (b >= 1 /\ s <= Sec(b))))
                         /\ (Ev.c => (~base.ex /\ S = {})),
                         "malformed crash descriptor")
               /\ (base.L <= SmallLimit /\ cur.n <= SmallLimit) =>
                     LET o == LoadOutcome(CrashImage(BaseImg, VolImg(hw, b), S, Ev.c), t)
                         e == IF w = "old" THEN [ok |-> TRUE, data |-> SubSeq(DataOf(base.line), 1, base.n), dl |-> base.dl]
                              ELSE IF w = "new" THEN [ok |-> TRUE, data |-> DataOf(cur.line), dl |-> cur.dl]
                              ELSE None
                     IN Assert(o = e, <<"closed form differs from the operational model", l, o, w>>)
               /\ exact => ObsIs(exp)            \* MustLoad
               /\ Strict => ObsIs(exp)
       /\ now' = t
       /\ res' = [NoRes EXCEPT !.op = "crashload"]
    /\ UNCHANGED <<mode, fs, saves, cur, base, sm>> /\ Frozen

TLoad ==
    /\ Is("Load") /\ ~cur.on
    /\ LET d == fs[Ev.f]
           exp == LoadOutcome(AImg(d), now)
       IN
       /\ ObsNoMix(now)
       /\ Ev.ex = Ev.ok
       /\ (~d.unk /\ exp.ok) => ObsIs(exp)          \* MustLoad: a complete, unexpired save loads
       /\ (Strict /\ ~d.unk) => ObsIs(exp)
       /\ fs' = [fs EXCEPT ![Ev.f] = IF Ev.ex THEN @ ELSE NoFile]
    /\ res' = [NoRes EXCEPT !.op = "load"]
    /\ UNCHANGED <<now, mode, saves, cur, base, sm>> /\ Frozen

TGc ==
    /\ Is("Gc") /\ ~cur.on
    /\ LET B == SeqToSet(Ev.before)
           A == SeqToSet(Ev.after)
       IN
       /\ B \cap FNames = { f \in FNames : fs[f].ex }        \* nothing vanished or appeared behind our back
       /\ A \subseteq B
       /\ \A f \in B \cap FNames :
            LET i == AImg(fs[f]) IN
            /\ (~fs[f].unk /\ LoadOutcome(i, now).ok) => f \in A          \* GcSafe
            /\ (~fs[f].unk /\ Dead(i, now)) => f \notin A                 \* GcCleans
            /\ (Strict /\ ~fs[f].unk /\ ~Dead(i, now)) => f \in A         \* GcExact
       /\ Strict => (B \ FNames) \subseteq A                              \* names that are no session ids stay
       /\ fs' = [f \in FNames |-> IF f \in A THEN fs[f] ELSE NoFile]
    /\ res' = [NoRes EXCEPT !.op = "gc"]
    /\ UNCHANGED <<now, mode, saves, cur, base, sm>> /\ Frozen

TraceInit ==
    /\ Init /\ l = 1 /\ mode = "none"
    /\ fs = [f \in FNames |-> NoFile] /\ cur = NoCur /\ base = NoBase /\ sm = <<>>
TraceNext == TReset \/ TSave \/ TShortSave \/ TWrite \/ TSaveEnd \/ TPlant \/ TTick \/ TBase
             \/ TCrashLoad \/ TLoad \/ TGc
TraceSpec == TraceInit /\ [][TraceNext]_tvars
=============================================================================
