SPECIFICATION Spec
CONSTANTS
  Sids = {1,2,3}
  Threads = {1}
  Deadlines = {0,1,2,3}
  MaxNow = 3
  MaxSaves = 5
  Backend = "memory"
  Net = FALSE
  IntMax = 1000
  GcBatch = 2
  Bug = "none"
CONSTRAINT Bounded
INVARIANTS TypeOK LoadCorrect LiveKept HeldSound IndexConsistent
PROPERTIES MemGcProgress FileGcComplete OnlyExpiredVanish
