SPECIFICATION TraceSpec
CONSTANTS
  Cfgs = {0,1,2,3,4,5,6,7,8,9,10,11,12,13,14,15,16,17,18,19,20,21,22,23,24,25,26,27,28,29,30,31,32,33,34,35,36,37,38,39,40,41,42,43,44,45,46,47}
  AesCfgs = {0,1,2,3,4,5,6,7,8,9,10,11,12,13,14,15,16,17,18,19,20,21,22,23,24,25,26,27,28,29,30,31,32,33,34,35,36,37,38,39,40,41,42,43,44,45,46,47}
  Pay = {1}
  Deadlines = {1}
  MaxNow = 0
  MaxSaves = 0
  MaxDerive = 0
  MacCoversIv = TRUE
  FreshIv = TRUE
  Strict = TRUE
POSTCONDITION TraceDone
CHECK_DEADLOCK FALSE
