-------------------------------- MODULE Sess --------------------------------
(***************************************************************************)
(* Property layer of the cppcms session machinery (C06).                   *)
(*                                                                         *)
(* Browsers hold a session cookie in a jar (None | C(id) | I(id) | junk);  *)
(* the server holds  store : sid -> (session, deadline)  and has issued    *)
(* client-side cookies  issued : cid -> (session, deadline)  (these can    *)
(* never be revoked - replaying one is legal until its deadline).  A       *)
(* request is   Req ; Load ; Op* ; Save .  History variables:              *)
(*   left[b]   what the previous request of browser b left (or nothing),   *)
(*   dead      sids that were cleared / reset / moved away,                *)
(*   seen      every cookie id ever issued or presented.                   *)
(*                                                                         *)
(* A session (what the getters of session_interface show) is               *)
(*   [d : Keys -> [has,v,x], age, how, srv, mt, mh, ms]                    *)
(* v = abstract value id (0 = empty string), x = exposed, how = 0 fixed /  *)
(* 1 renew / 2 browser; mt/mh/ms say that age / how / srv were set         *)
(* explicitly (they then count as session content: a session holding only  *)
(* an explicit age is not empty).                                          *)
(*                                                                         *)
(* The layer is free exactly where the property is silent:                 *)
(*  - at the instant now = deadline a load may or may not succeed;         *)
(*  - renew/browser: the deadline must move once MORE than 10 % of the     *)
(*    period have elapsed, may move or stay before that;                   *)
(*  - location "both": either representation (cookie / server) may carry   *)
(*    the session after any save;                                          *)
(*  - a continuing server-side session may keep its sid or get a fresh one;*)
(*  - expired records may linger in, or vanish from, the store;            *)
(*  - clear(): whether age()/expiration()/on_server() show the defaults    *)
(*    at once or keep the old settings until the request ends - but what   *)
(*    they show is what the request leaves (and what its deadline uses).   *)
(***************************************************************************)
EXTENDS Integers, Sequences, FiniteSets, TLC

CONSTANTS Browsers,      \* set of browser numbers
          Keys,          \* session keys
          CLoc, CHow0, CAge0, CPol,   \* configuration explored by Init: session.location, default expiration mode
                                      \* (0 fixed, 1 renew, 2 browser), session.timeout, polite jar
          \* ---- exploration alphabet (Leg D only; the trace spec binds observed values)
          Vals,          \* value ids offered to set
          Ages,          \* arguments of age(t)
          Hows,          \* arguments of expiration(h)
          OpKinds,       \* subset of {"set","erase","clear","expose","hide","age","how","srv","reset"}
          Advances,      \* clock advances
          WfIds,         \* well-formed ids (allocatable and guessable)
          JunkIds,       \* ids of malformed cookies (disjoint from WfIds)
          MaxReq, MaxOps, MaxTamper

VARIABLES conf, now, store, issued, seen, dead, jar, xjar, honest, left, cur, hist, cnt

vars == <<conf, now, store, issued, seen, dead, jar, xjar, honest, left, cur, hist, cnt>>

NoVal == [has |-> FALSE, v |-> 0, x |-> FALSE]
NoCk  == [kind |-> "N", id |-> 0, exp |-> -1]

EmptyS == [d |-> [k \in Keys |-> NoVal], age |-> conf.age0, how |-> conf.how0, srv |-> FALSE,
           mt |-> FALSE, mh |-> FALSE, ms |-> FALSE]
NoLeft == [has |-> FALSE, S |-> EmptyS, dl |-> 0]

IsEmpty(S) == (\A k \in Keys : ~S.d[k].has) /\ ~S.mt /\ ~S.mh /\ ~S.ms

\* what the getters show
Vis(S) == [d |-> S.d, age |-> S.age, how |-> S.how, srv |-> S.srv]

\* exposed cookies a browser must hold after a request that left S
ExposedSet(S) == { [k |-> k, v |-> S.d[k].v] : k \in { q \in Keys : S.d[q].has /\ S.d[q].x /\ S.d[q].v # 0 } }

IdleCur == [ph |-> "idle", b |-> 0, ck |-> NoCk, hon |-> TRUE, ok |-> FALSE, S0 |-> EmptyS, dl0 |-> 0,
            S |-> EmptyS, reset |-> FALSE, nops |-> 0, fresh |-> {}]

Put(f, i, x) == [j \in (DOMAIN f) \cup {i} |-> IF j = i THEN x ELSE f[j]]
Drop(f, D)   == [j \in (DOMAIN f) \ D |-> f[j]]

InitWith(c) ==
    /\ conf = c
    /\ now = 0
    /\ store = <<>> /\ issued = <<>>
    /\ seen = {} /\ dead = {}
    /\ jar = [b \in Browsers |-> NoCk]
    /\ xjar = [b \in Browsers |-> {}]
    /\ honest = [b \in Browsers |-> TRUE]
    /\ left = [b \in Browsers |-> [has |-> FALSE, S |-> [d |-> [k \in Keys |-> NoVal], age |-> c.age0, how |-> c.how0,
                                   srv |-> FALSE, mt |-> FALSE, mh |-> FALSE, ms |-> FALSE], dl |-> 0]]
    /\ cur = [ph |-> "idle", b |-> 0, ck |-> NoCk, hon |-> TRUE, ok |-> FALSE,
              S0 |-> [d |-> [k \in Keys |-> NoVal], age |-> c.age0, how |-> c.how0, srv |-> FALSE, mt |-> FALSE, mh |-> FALSE, ms |-> FALSE],
              dl0 |-> 0,
              S |-> [d |-> [k \in Keys |-> NoVal], age |-> c.age0, how |-> c.how0, srv |-> FALSE, mt |-> FALSE, mh |-> FALSE, ms |-> FALSE],
              reset |-> FALSE, nops |-> 0, fresh |-> {}]
    /\ hist = {}
    /\ cnt = [req |-> [b \in Browsers |-> 0], stage |-> 0, who |-> 0, tamper |-> 0]

Confs == { [loc |-> CLoc, how0 |-> CHow0, age0 |-> CAge0, pol |-> CPol] }
Init == \E c \in Confs : InitWith(c)

---------------------------------------------------------------------------
(* Jar-side actions *)

Tick(d) ==
    /\ cur.ph = "idle"
    /\ now' = now + d
    /\ UNCHANGED <<conf, store, issued, seen, dead, jar, xjar, honest, left, cur, hist>>

\* the attacker (or a broken browser) replaces the session cookie of b
Tamper(b, ck) ==
    /\ cur.ph = "idle"
    /\ jar' = [jar EXCEPT ![b] = ck]
    /\ honest' = [honest EXCEPT ![b] = FALSE]
    /\ seen' = IF ck.kind = "N" THEN seen ELSE seen \cup {ck.id}
    /\ UNCHANGED <<conf, now, store, issued, dead, xjar, left, cur, hist>>

\* a polite jar forgets a cookie whose Max-Age ran out (allowed from the instant now = expiry on,
\* compulsory before a request once now > expiry - see Req)
Expire(b) ==
    /\ cur.ph = "idle" /\ conf.pol
    /\ jar[b].kind # "N" /\ jar[b].exp >= 0 /\ now >= jar[b].exp
    /\ jar' = [jar EXCEPT ![b] = NoCk]
    /\ UNCHANGED <<conf, now, store, issued, seen, dead, xjar, honest, left, cur, hist>>

\* browser restart: age-less cookies are dropped; a session in "browser" mode ends with it
Restart(b) ==
    /\ cur.ph = "idle" /\ conf.pol
    /\ jar' = [jar EXCEPT ![b] = IF jar[b].exp < 0 THEN NoCk ELSE jar[b]]
    /\ left' = [left EXCEPT ![b] = IF left[b].has /\ left[b].S.how = 2 /\ jar[b].exp < 0 THEN NoLeft ELSE left[b]]
    /\ xjar' = [xjar EXCEPT ![b] = IF left'[b].has THEN xjar[b] ELSE {}]
    /\ UNCHANGED <<conf, now, store, issued, seen, dead, honest, cur, hist>>

---------------------------------------------------------------------------
(* A request *)

Req(b) ==
    /\ cur.ph = "idle"
    /\ ~(conf.pol /\ jar[b].kind # "N" /\ jar[b].exp >= 0 /\ now > jar[b].exp)
    /\ cur' = [IdleCur EXCEPT !.ph = "req", !.b = b, !.ck = jar[b], !.hon = honest[b]]
    /\ seen' = IF jar[b].kind = "N" THEN seen ELSE seen \cup {jar[b].id}
    /\ UNCHANGED <<conf, now, store, issued, dead, jar, xjar, honest, left, hist>>

\* which stored content a presented cookie designates
Cand(ck) ==
    IF ck.kind = "I" /\ conf.loc # "client" /\ ck.id \in DOMAIN store
    THEN [has |-> TRUE, S |-> store[ck.id].S, dl |-> store[ck.id].dl]
    ELSE IF ck.kind = "C" /\ conf.loc # "server" /\ ck.id \in DOMAIN issued
    THEN [has |-> TRUE, S |-> issued[ck.id].S, dl |-> issued[ck.id].dl]
    ELSE NoLeft

\* c = [has,S,dl]: the load of a request may yield (ok, v) where v = Vis of the loaded session
YieldOK(c, ok, v) ==
    IF ok THEN c.has /\ c.dl >= now /\ v = Vis(c.S)
          ELSE (~c.has \/ c.dl <= now) /\ v = Vis(EmptyS)

Load(ok, S) ==
    /\ cur.ph = "req"
    /\ YieldOK(Cand(cur.ck), ok, Vis(S))
    /\ cur' = [cur EXCEPT !.ph = "ops", !.ok = ok, !.S0 = S, !.S = S, !.dl0 = IF ok THEN Cand(cur.ck).dl ELSE 0]
    /\ UNCHANGED <<conf, now, store, issued, seen, dead, jar, xjar, honest, left, hist>>

ApplyOp(S, o) ==
    CASE o.op = "set"    -> [S EXCEPT !.d[o.k] = [has |-> TRUE, v |-> o.v, x |-> S.d[o.k].x]]
      [] o.op = "erase"  -> [S EXCEPT !.d[o.k] = NoVal]
      \* clear() drops every key and every explicit setting.  Whether age()/expiration()/on_server() go back to the
      \* defaults at once (o.v = 1) or keep showing the old settings until the request ends (o.v = 0) is left open:
      \* either way what they show is what the request leaves.
      [] o.op = "clear"  -> IF o.v = 1
                            THEN [S EXCEPT !.d = [k \in Keys |-> NoVal], !.mt = FALSE, !.mh = FALSE, !.ms = FALSE,
                                           !.age = conf.age0, !.how = conf.how0, !.srv = FALSE]
                            ELSE [S EXCEPT !.d = [k \in Keys |-> NoVal], !.mt = FALSE, !.mh = FALSE, !.ms = FALSE]
      [] o.op = "expose" -> [S EXCEPT !.d[o.k] = [has |-> TRUE, v |-> S.d[o.k].v, x |-> TRUE]]
      [] o.op = "hide"   -> [S EXCEPT !.d[o.k] = [has |-> TRUE, v |-> S.d[o.k].v, x |-> FALSE]]
      [] o.op = "age"    -> [S EXCEPT !.age = o.t, !.mt = TRUE]
      [] o.op = "how"    -> [S EXCEPT !.how = o.h, !.mh = TRUE]
      [] o.op = "srv"    -> [S EXCEPT !.srv = o.s, !.ms = TRUE]
      [] o.op = "reset"  -> S

Op(o) ==
    /\ cur.ph = "ops"
    /\ cur' = [cur EXCEPT !.S = ApplyOp(cur.S, o), !.reset = (cur.reset \/ o.op = "reset"), !.nops = cur.nops + 1]
    /\ UNCHANGED <<conf, now, store, issued, seen, dead, jar, xjar, honest, left, hist>>

NewSess   == (~cur.ok /\ ~IsEmpty(cur.S)) \/ cur.reset
LoadedI   == cur.ok /\ cur.ck.kind = "I"
KindsOK   == IF conf.loc = "client" THEN {"C"} ELSE IF conf.loc = "server" THEN {"I"} ELSE {"C", "I"}

DeadlineOK(dl2) ==
    LET S == cur.S IN
    IF NewSess THEN dl2 = now + S.age
    ELSE IF S.how = 0 THEN dl2 = cur.dl0
    ELSE /\ dl2 \in {cur.dl0, now + S.age}
         /\ (10 * (now + S.age - cur.dl0) > S.age) => dl2 = now + S.age

\* other browsers holding the server-side session this request worked on: somebody else touched
\* their session, so "the previous request of the same browser" no longer determines what they read
Sharers == IF LoadedI THEN { b2 \in Browsers \ {cur.b} : jar[b2].kind = "I" /\ jar[b2].id = cur.ck.id } ELSE {}

\* storage form of a session: settings that were not made explicitly read as the defaults.  The two differ
\* only between a clear() and the end of that request (the getters keep showing the old settings).
Canon(S) == [S EXCEPT !.age = IF S.mt THEN S.age ELSE conf.age0,
                      !.how = IF S.mh THEN S.how ELSE conf.how0,
                      !.srv = IF S.ms THEN S.srv ELSE FALSE]

(* ck2 = session cookie in b's jar after the request, dl2 = deadline that cookie carries,           *)
(* xc2 = exposed cookies in b's jar after the request.  relax = clauses switched off (always {}     *)
(* except when the trace runner diagnoses a rejection)                                              *)
\* the clauses a save must satisfy (names = the clauses the trace runner can switch off for diagnosis)
GCookieGone(ck2) == ck2.kind = "N" \/ (ck2 = jar[cur.b] /\ ~(cur.ok /\ cur.ck.kind = "C"))
GKind(ck2)       == ck2.kind \in KindsOK
GFresh(ck2)      == (LoadedI /\ ~NewSess /\ ck2.id = cur.ck.id) \/ ck2.id \notin (seen \ cur.fresh)         \* FreshSid
GSame(ck2, dl2)  == ck2.id \in DOMAIN issued => (Canon(issued[ck2.id].S) = Canon(cur.S) /\ issued[ck2.id].dl = dl2)
SaveGuard(ck2, dl2, relax) ==
    IF IsEmpty(cur.S)
    THEN ("Cookie" \in relax \/ GCookieGone(ck2))
    ELSE /\ ck2.kind \in {"C", "I"}
         /\ ("Kind" \in relax \/ GKind(ck2))
         /\ ("Deadline" \in relax \/ DeadlineOK(dl2))
         /\ IF ck2.kind = "I" THEN ("FreshSid" \in relax \/ GFresh(ck2))
                              ELSE ("Cookie" \in relax \/ GSame(ck2, dl2))     \* the same cookie string designates the same content

SaveEffect(ck2, dl2, xc2) ==
    LET b    == cur.b
        S    == cur.S
        id0  == cur.ck.id
        kill == IF LoadedI /\ ~(~IsEmpty(S) /\ ck2.kind = "I" /\ ck2.id = id0) THEN {id0} ELSE {}
    IN
    /\ IF IsEmpty(S)
       THEN /\ store' = Drop(store, kill)
            /\ issued' = issued
            /\ left' = [left EXCEPT ![b] = NoLeft]
            /\ seen' = seen
       ELSE /\ IF ck2.kind = "I"
               THEN /\ store' = Put(Drop(store, kill), ck2.id, [S |-> S, dl |-> dl2])
                    /\ issued' = issued
               ELSE /\ store' = Drop(store, kill)
                    /\ issued' = IF ck2.id \in DOMAIN issued THEN issued ELSE Put(issued, ck2.id, [S |-> S, dl |-> dl2])
            /\ left' = [left EXCEPT ![b] = [has |-> TRUE, S |-> S, dl |-> dl2]]
            /\ seen' = seen \cup {ck2.id}
    /\ dead' = dead \cup kill
    /\ jar' = [jar EXCEPT ![b] = ck2]
    /\ xjar' = [xjar EXCEPT ![b] = xc2]
    \* b's jar is in step with the server again once the server has (re)sent the session cookie
    /\ honest' = [b2 \in Browsers |-> IF b2 = b THEN (cur.hon \/ ck2 # jar[b]) ELSE IF b2 \in Sharers THEN FALSE ELSE honest[b2]]
    /\ UNCHANGED <<conf, now>>

SaveG(ck2, dl2, xc2, relax) ==
    /\ cur.ph \in {"ops", "saved"}
    /\ SaveGuard(ck2, dl2, relax)
    /\ SaveEffect(ck2, dl2, xc2)

Save(ck2, dl2, xc2) == cur.ph = "ops" /\ SaveG(ck2, dl2, xc2, {}) /\ cur' = IdleCur

---------------------------------------------------------------------------
(* Leg D: exploration *)

OpAlphabet ==
       (IF "set"    \in OpKinds THEN { [op |-> "set", k |-> k, v |-> v, t |-> 0, h |-> 0, s |-> FALSE] : k \in Keys, v \in Vals } ELSE {})
  \cup (IF "erase"  \in OpKinds THEN { [op |-> "erase", k |-> k, v |-> 0, t |-> 0, h |-> 0, s |-> FALSE] : k \in Keys } ELSE {})
  \cup (IF "clear"  \in OpKinds THEN { [op |-> "clear", k |-> "", v |-> v, t |-> 0, h |-> 0, s |-> FALSE] : v \in {0, 1} } ELSE {})
  \cup (IF "expose" \in OpKinds THEN { [op |-> "expose", k |-> k, v |-> 0, t |-> 0, h |-> 0, s |-> FALSE] : k \in Keys } ELSE {})
  \cup (IF "hide"   \in OpKinds THEN { [op |-> "hide", k |-> k, v |-> 0, t |-> 0, h |-> 0, s |-> FALSE] : k \in Keys } ELSE {})
  \cup (IF "age"    \in OpKinds THEN { [op |-> "age", k |-> "", v |-> 0, t |-> t, h |-> 0, s |-> FALSE] : t \in Ages } ELSE {})
  \cup (IF "how"    \in OpKinds THEN { [op |-> "how", k |-> "", v |-> 0, t |-> 0, h |-> h, s |-> FALSE] : h \in Hows } ELSE {})
  \cup (IF "srv"    \in OpKinds /\ conf.loc # "client"
                                 THEN { [op |-> "srv", k |-> "", v |-> 0, t |-> 0, h |-> 0, s |-> s] : s \in BOOLEAN } ELSE {})
  \cup (IF "reset"  \in OpKinds THEN { [op |-> "reset", k |-> "", v |-> 0, t |-> 0, h |-> 0, s |-> FALSE] } ELSE {})

MinOf(X) == CHOOSE x \in X : \A y \in X : x <= y
MaxOf(X) == CHOOSE x \in X : \A y \in X : x >= y

\* cookies an attacker can put into b's jar: another browser's current cookie, any cookie that ever
\* existed, malformed ids presented as I... / C..., a well-formed id nobody issued (guess / fixation)
AttackCookies(b) ==
       { jar[b2] : b2 \in Browsers \ {b} }
  \cup hist
  \cup { [kind |-> "I", id |-> j, exp |-> -1] : j \in JunkIds }
  \cup { [kind |-> "C", id |-> j, exp |-> -1] : j \in JunkIds }
  \cup { [kind |-> "I", id |-> MaxOf(WfIds), exp |-> -1] }

DLoad ==
    \E ok \in BOOLEAN :
        LET c == Cand(cur.ck) IN Load(ok, IF ok THEN c.S ELSE EmptyS)

\* the design of save: what a correct implementation does, with every freedom the property leaves
DSave ==
    LET S == cur.S IN
    IF IsEmpty(S)
    THEN Save(NoCk, 0, {})
    ELSE \E kind \in KindsOK, dl2 \in {cur.dl0, now + S.age}, keep \in BOOLEAN :
            LET id == IF kind = "I" /\ keep /\ LoadedI /\ ~NewSess THEN cur.ck.id ELSE MinOf(WfIds \ seen)
                exp == IF S.how = 2 THEN -1 ELSE dl2
            IN /\ (WfIds \ seen) # {}
               /\ Save([kind |-> kind, id |-> id, exp |-> exp], dl2, ExposedSet(S))

(* Between two requests:  [Tick]  [Tamper(b) | Expire(b) | Restart(b)]  Req(b).  The stage counter only  *)
(* prunes equivalent orderings (two ticks in a row, jar actions of a browser that is not about to send a  *)
(* request); hist is what the attacker remembers: at most one cookie that is no longer in any jar.         *)
Next ==
    \/ \E d \in Advances :
           /\ cnt.stage = 0 /\ Tick(d) /\ cnt' = [cnt EXCEPT !.stage = 1]
    \/ \E b \in Browsers : \E ck \in AttackCookies(b) :
           /\ cnt.stage < 2 /\ cnt.tamper < MaxTamper /\ jar[b] # ck /\ cnt.req[b] < MaxReq
           /\ Tamper(b, ck) /\ cnt' = [cnt EXCEPT !.tamper = @ + 1, !.stage = 2, !.who = b]
    \/ \E b \in Browsers :
           /\ cnt.stage < 2 /\ cnt.req[b] < MaxReq
           /\ Expire(b) /\ cnt' = [cnt EXCEPT !.stage = 2, !.who = b]
    \/ \E b \in Browsers :
           /\ cnt.stage < 2 /\ cnt.req[b] < MaxReq /\ jar[b].exp < 0 /\ jar[b].kind # "N"
           /\ Restart(b) /\ cnt' = [cnt EXCEPT !.stage = 2, !.who = b]
    \/ \E b \in Browsers :
           /\ cnt.req[b] < MaxReq /\ (cnt.stage = 2 => cnt.who = b)
           /\ Req(b) /\ cnt' = [cnt EXCEPT !.req[b] = @ + 1, !.stage = 0, !.who = 0]
    \/ DLoad /\ UNCHANGED cnt
    \/ \E o \in OpAlphabet : Op(o) /\ cur.nops < MaxOps /\ UNCHANGED cnt
    \/ /\ DSave /\ UNCHANGED cnt
       /\ \/ hist' = hist
          \/ (jar[cur.b].kind # "N" /\ jar'[cur.b] # jar[cur.b] /\ cnt.tamper < MaxTamper /\ hist' = {jar[cur.b]})

Spec == Init /\ [][Next]_vars

(* State identification for Leg D (cfg: VIEW View).  The rules are invariant under a shift of the clock *)
(* and under renaming of allocatable ids, and an id that no jar holds and the attacker does not remember  *)
(* can never be presented again; so deadlines are shown relative to now (everything expired alike) and   *)
(* allocatable ids by their rank among the ids still referenced.                                          *)
GuessId == MaxOf(WfIds)
Ref == { jar[b].id : b \in Browsers } \cup { c.id : c \in hist } \cup {cur.ck.id}
Renamable == (WfIds \ {GuessId}) \cap Ref
Rk(i) == IF i \in Renamable THEN Cardinality({ j \in Renamable : j < i }) + 1 ELSE IF i = 0 THEN 0 ELSE 1000 + i
Rb(dl) == IF dl < now THEN -1 ELSE dl - now
RbExp(e) == IF e < 0 THEN -1 ELSE IF e < now THEN -2 ELSE e - now
CkV(c) == [kind |-> c.kind, id |-> Rk(c.id), exp |-> RbExp(c.exp)]
View ==
    << conf,
       { <<Rk(i), store[i].S, Rb(store[i].dl)>> : i \in (DOMAIN store) \cap Ref },
       { <<Rk(i), issued[i].S, Rb(issued[i].dl)>> : i \in (DOMAIN issued) \cap Ref },
       { Rk(i) : i \in seen \cap Ref }, { Rk(i) : i \in dead \cap Ref },
       [b \in Browsers |-> CkV(jar[b])], xjar, honest,
       [b \in Browsers |-> IF left[b].has THEN <<TRUE, left[b].S, Rb(left[b].dl)>> ELSE <<FALSE>>],
       [cur EXCEPT !.ck = CkV(cur.ck), !.dl0 = Rb(cur.dl0)],
       { CkV(c) : c \in hist }, cnt >>

---------------------------------------------------------------------------
(* C06 *)

\* Carry: an honest browser reads exactly what its previous request left - if that is still alive -
\* and an empty session otherwise; never a mixture, never anybody else's.
CarryOK(L, ok, v) == YieldOK(L, ok, v)
Carry == (cur.ph = "ops" /\ cur.hon) => CarryOK(left[cur.b], cur.ok, Vis(cur.S0))

\* whatever is presented, what is read is the content designated by that very cookie, unexpired
NoForeign == cur.ph = "ops" => YieldOK(Cand(cur.ck), cur.ok, Vis(cur.S0))

\* Dead: a cleared / reset / abandoned sid is not a key of the store
Dead == dead \cap DOMAIN store = {}

\* SidForm: the store is keyed by well-formed ids only
SidForm == DOMAIN store \subseteq WfIds

\* FreshSid: a new or reset session gets an id nobody has issued or presented before
FreshSid ==
    [][ (cur.ph = "ops" /\ cur'.ph = "idle" /\ NewSess /\ ~IsEmpty(cur.S) /\ jar'[cur.b].kind = "I")
            => jar'[cur.b].id \notin seen ]_vars

\* after reset / clear the presented sid is unusable
Unusable ==
    [][ (cur.ph = "ops" /\ cur'.ph = "idle" /\ LoadedI /\ (cur.reset \/ IsEmpty(cur.S)))
            => cur.ck.id \notin DOMAIN store' ]_vars

\* Exposed: after a request the exposed cookies are exactly the exposed keys with their values
Exposed == \A b \in Browsers :
    (cur.ph = "idle" /\ honest[b]) => xjar[b] = (IF left[b].has THEN ExposedSet(left[b].S) ELSE {})

\* Deadline, fixed mode: never moves after the first save
DeadlineFixed ==
    [][ (cur.ph = "ops" /\ cur'.ph = "idle" /\ ~NewSess /\ ~IsEmpty(cur.S) /\ cur.S.how = 0)
            => left'[cur.b].dl = cur.dl0 ]_vars

\* Deadline, renew / browser: moves to now + age, compulsorily once more than 10 % elapsed
DeadlineRenew ==
    [][ (cur.ph = "ops" /\ cur'.ph = "idle" /\ ~IsEmpty(cur.S) /\ (NewSess \/ cur.S.how # 0))
            => /\ left'[cur.b].dl \in {cur.dl0, now + cur.S.age}
               /\ (NewSess \/ 10 * (now + cur.S.age - cur.dl0) > cur.S.age) => left'[cur.b].dl = now + cur.S.age ]_vars

\* the jar of an honest browser designates its own session
JarLeft == \A b \in Browsers :
    (cur.ph = "idle" /\ honest[b] /\ left[b].has /\ jar[b].kind # "N") =>
        (Cand(jar[b]).has /\ Cand(jar[b]).S = left[b].S /\ Cand(jar[b]).dl = left[b].dl)
=============================================================================
