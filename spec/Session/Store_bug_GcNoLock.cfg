SPECIFICATION Spec
CONSTANTS
  Sids = {1,2}
  Threads = {1,2}
  Deadlines = {1,2}
  MaxNow = 2
  MaxSaves = 2
  Backend = "files"
  Net = FALSE
  IntMax = 1000
  GcBatch = 1
  Bug = "GcNoLock"
CONSTRAINT Bounded
INVARIANTS LiveKept

