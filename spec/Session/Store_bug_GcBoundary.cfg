SPECIFICATION Spec
CONSTANTS
  Sids = {1,2}
  Threads = {1,2}
  Deadlines = {1,2}
  MaxNow = 2
  MaxSaves = 2
  Backend = "memory"
  Net = FALSE
  IntMax = 1000
  GcBatch = 1
  Bug = "GcBoundary"
CONSTRAINT Bounded
INVARIANTS LiveKept

