----------------------------- MODULE FileStore -----------------------------
(***************************************************************************)
(* C18 - a crash while saving a file-backed session never yields a         *)
(* corrupted session (src/session_posix_file_storage.cpp).                 *)
(*                                                                         *)
(* A session file is a header (deadline, checksum, size) followed by data  *)
(* cells.  The checksum is IDEAL: the header carries the data sequence it  *)
(* was computed from (hdr.sum) - assumption: no CRC-32 collision among the *)
(* images explored.  The header spans HB cells and lies entirely in sector *)
(* 0; a sector holds SS cells (model: HB=1, SS=2; reality: HB=16, SS=512). *)
(* Data cell j (1-based) sits at file offset HB+j-1.                       *)
(*                                                                         *)
(* save  = open(O_CREAT, no truncation); write the header (ONE write at    *)
(*         offset 0); write the data in any number of partial writes.      *)
(* Persistence: vol[f] is what the kernel shows (all writes performed so   *)
(* far); disk[f] is the durable image; touched[f] are the sectors dirtied  *)
(* since disk[f] was last in step with vol[f].  At a Crash an arbitrary    *)
(* subset of the touched sectors reaches the disk on top of disk[f].       *)
(* load  = deadline test, read `size' cells, compare checksum; unlink on   *)
(*         any failure.   gc = unlink every file whose time stamp is       *)
(*         unreadable or in the past.                                      *)
(*                                                                         *)
(* The second half of the module is a CLOSED FORM of "crash image, then    *)
(* load" in terms of a per-sector comparison summary of old and new data.  *)
(* TLC proves it equal to the operational definition on every reachable    *)
(* state (invariant ClosedFormOK); FileStoreTrace.tla uses it to judge     *)
(* real 512-byte-sector crash images at ~10^4 per second.                  *)
(***************************************************************************)
EXTENDS Integers, Sequences, FiniteSets, TLC

CONSTANTS Files,        \* file names (session ids)
          Payloads,     \* payloads offered to Save: sequences over {0,1}; 0 is the zero byte
          Deadlines,    \* deadlines offered to Save and Plant
          MinNow, MaxNow,
          MaxSaves, MaxPlants,
          SS, HB,       \* sector size and header span, in cells; HB <= SS
          HdrAtomic,    \* TRUE = the code; FALSE = self-test mutant (deadline and (sum,size) written separately)
          Advance       \* subset of BOOLEAN: is the buffer pointer advanced after a short write?
                        \* TRUE = intended, FALSE = what write_all does today (DESIGN.md F8)

ASSUME HB >= 1 /\ HB <= SS /\ MinNow >= 1

VARIABLES now, disk, vol, touched, sv, saves, nsaves, nplants, res
vars == <<now, disk, vol, touched, sv, saves, nsaves, nplants, res>>

Z      == 0              \* value of a cell in a hole
BadSum == << -1 >>       \* checksum of a garbage header: matches no data

Max(S) == CHOOSE x \in S : \A y \in S : y <= x
Min(S) == CHOOSE x \in S : \A y \in S : x <= y
Inf    == 1000000000

Sec(j)      == (j + HB - 1) \div SS          \* sector of data cell j
FirstPos(s) == Max({1, s * SS - HB + 1})     \* first / last data cell of sector s
LastPos(s)  == (s + 1) * SS - HB

NoHdr   == [k |-> "none", dl |-> 0, size |-> 0, sum |-> <<>>]   \* fewer than 8 bytes
ZeroHdr == [k |-> "full", dl |-> 0, size |-> 0, sum |-> <<>>]   \* 16 zero bytes (crc32("") = 0)
Absent  == [ex |-> FALSE, hdr |-> NoHdr, data |-> <<>>]
Empty   == [ex |-> TRUE,  hdr |-> NoHdr, data |-> <<>>]
FullHdr(dl, p) == [k |-> "full", dl |-> dl, size |-> Len(p), sum |-> p]

None == [ok |-> FALSE, data |-> <<>>, dl |-> 0]

(* read_from_file *)
LoadOutcome(img, t) ==
    IF ~img.ex \/ img.hdr.k = "none" THEN None
    ELSE IF img.hdr.dl < t THEN None
    ELSE IF img.hdr.k # "full" THEN None
    ELSE IF Len(img.data) < img.hdr.size THEN None
    ELSE IF SubSeq(img.data, 1, img.hdr.size) # img.hdr.sum THEN None
    ELSE [ok |-> TRUE, data |-> img.hdr.sum, dl |-> img.hdr.dl]

(* read_timestamp (gc): only the first 8 bytes are read *)
TsOK(img, t) == img.hdr.k # "none" /\ img.hdr.dl >= t
Dead(img, t) == img.ex /\ ~TsOK(img, t)

(* The durable image after a crash: sectors S of the volatile image v on top *)
(* of the durable image d; c = "the directory entry of a file created since  *)
(* the last durable point reached the disk" (only matters when S is empty).  *)
CrashImage(d, v, S, c) ==
    IF ~v.ex THEN Absent
    ELSE IF ~d.ex /\ S = {} THEN (IF c THEN Empty ELSE Absent)
    ELSE LET base == IF d.ex THEN d ELSE Empty
             Ld   == Len(base.data)
             Lv   == Len(v.data)
             Lp   == Max({Ld} \cup { Min({LastPos(s), Lv}) : s \in S })
             hdr  == IF 0 \in S THEN v.hdr
                     ELSE IF Lp > 0 /\ base.hdr.k = "none" THEN ZeroHdr
                     ELSE IF Lp > 0 /\ base.hdr.k = "ts"
                          THEN [k |-> "full", dl |-> base.hdr.dl, size |-> 0, sum |-> BadSum]
                     ELSE base.hdr
         IN [ex |-> TRUE, hdr |-> hdr,
             data |-> [j \in 1..Lp |-> IF Sec(j) \in S /\ j <= Lv THEN v.data[j]
                                        ELSE IF j <= Ld THEN base.data[j] ELSE Z]]

Overlay(old, at, new) ==   \* write sequence `new' at data cells at+1 .. at+Len(new)
    [j \in 1..Max({Len(old), at + Len(new)}) |->
        IF j > at /\ j <= at + Len(new) THEN new[j - at] ELSE old[j]]

-----------------------------------------------------------------------------
Idle == [on |-> FALSE, f |-> CHOOSE f \in Files : TRUE, data |-> <<>>, dl |-> 0, ph |-> "idle",
         off |-> 0, rem |-> 0, adv |-> TRUE, clean |-> FALSE, good |-> TRUE]
NoRes == [op |-> "none", f |-> CHOOSE f \in Files : TRUE, ok |-> FALSE, data |-> <<>>, dl |-> 0,
          good |-> TRUE, pre |-> [f \in Files |-> Absent]]

(* images a later load can never accept, and whose header does not turn     *)
(* into a valid record when a hole is zero-filled (assumption, see notes)   *)
Garbage ==
    {Empty}
    \cup { [ex |-> TRUE, hdr |-> [k |-> "ts", dl |-> d, size |-> 0, sum |-> <<>>], data |-> <<>>] : d \in Deadlines }
    \cup { [ex |-> TRUE, hdr |-> [k |-> "full", dl |-> d, size |-> n, sum |-> BadSum], data |-> <<1, 0>>] :
              d \in Deadlines, n \in {0, 2, 5} }

(* d is a durable image of the kind the closed form is stated for *)
Structured(d) ==
    \/ ~d.ex
    \/ d.hdr.k # "full"
    \/ d.hdr.sum = BadSum
    \/ (Len(d.data) >= d.hdr.size /\ SubSeq(d.data, 1, d.hdr.size) = d.hdr.sum)


(* payload sets for the .cfg files (lengths 0,1,3,4 over {0,1}) *)
PayQuick == { <<>>, <<1>>, <<1,0,1>>, <<0,0,1>>, <<1,0,1,1>>, <<1,0,0,0>> }
PayAll   == { <<>> } \cup [1..1 -> {0,1}] \cup [1..3 -> {0,1}] \cup [1..4 -> {0,1}]
Pay3     == { <<>>, <<1>>, <<1,0,1>>, <<1,0,1,1>> }
Pay2f    == { <<>>, <<1,0,1>> }
PayF8q   == { <<>>, <<1,0,1>>, <<1,1,1,1>>, <<1,0,1,0>> }
PayF8    == { <<>>, <<1,0,1>>, <<1,1,1>>, <<1,0,1,0>>, <<0,0,1,1>> }

Init ==
    /\ now = MinNow
    /\ disk = [f \in Files |-> Absent]
    /\ vol = [f \in Files |-> Absent]
    /\ touched = [f \in Files |-> {}]
    /\ sv = Idle
    /\ saves = {}
    /\ nsaves = 0
    /\ nplants = 0
    /\ res = NoRes

SaveBegin(f, p, dl) ==
    /\ ~sv.on /\ nsaves < MaxSaves
    /\ \E a \in Advance :
         sv' = [on |-> TRUE, f |-> f, data |-> p, dl |-> dl, ph |-> "hdr", off |-> 0, rem |-> Len(p),
                adv |-> a, good |-> TRUE,
                clean |-> (touched[f] = {} /\ disk[f] = vol[f] /\ Structured(disk[f]))]
    /\ vol' = [vol EXCEPT ![f] = IF @.ex THEN @ ELSE Empty]
    /\ saves' = saves \cup {[data |-> p, dl |-> dl]}
    /\ nsaves' = nsaves + 1
    /\ res' = [NoRes EXCEPT !.op = "begin", !.f = f]
    /\ UNCHANGED <<now, disk, touched, nplants>>

WriteHeader ==
    /\ sv.on /\ sv.ph = "hdr"
    /\ LET f == sv.f IN
       /\ IF HdrAtomic
          THEN /\ vol' = [vol EXCEPT ![f].hdr = FullHdr(sv.dl, sv.data)]
               /\ sv' = [sv EXCEPT !.ph = IF sv.rem = 0 THEN "end" ELSE "data"]
          ELSE /\ vol' = [vol EXCEPT ![f].hdr = [k |-> IF @.k = "full" THEN "full" ELSE "ts", dl |-> sv.dl,
                                                 size |-> @.size, sum |-> @.sum]]
               /\ sv' = [sv EXCEPT !.ph = "hdr2"]
       /\ touched' = [touched EXCEPT ![f] = @ \cup {0}]
    /\ res' = [NoRes EXCEPT !.op = "whdr", !.f = sv.f]
    /\ UNCHANGED <<now, disk, saves, nsaves, nplants>>

WriteHeader2 ==      \* mutant only
    /\ sv.on /\ sv.ph = "hdr2"
    /\ vol' = [vol EXCEPT ![sv.f].hdr = FullHdr(sv.dl, sv.data)]
    /\ sv' = [sv EXCEPT !.ph = IF sv.rem = 0 THEN "end" ELSE "data"]
    /\ res' = [NoRes EXCEPT !.op = "whdr", !.f = sv.f]
    /\ UNCHANGED <<now, disk, touched, saves, nsaves, nplants>>

(* one write() of the data loop: the kernel accepts r of the sv.rem cells     *)
(* offered.  r < rem is a short write - and, followed by Crash, the byte      *)
(* prefix a crash in the middle of a write leaves behind.                     *)
WriteData(r) ==
    /\ sv.on /\ sv.ph = "data" /\ r \in 1..sv.rem
    /\ LET f == sv.f
           src == IF sv.adv THEN SubSeq(sv.data, sv.off + 1, sv.off + r) ELSE SubSeq(sv.data, 1, r)
       IN /\ vol' = [vol EXCEPT ![f].data = Overlay(@, sv.off, src)]
          /\ touched' = [touched EXCEPT ![f] = @ \cup { Sec(j) : j \in (sv.off + 1)..(sv.off + r) }]
          /\ sv' = [sv EXCEPT !.off = @ + r, !.rem = @ - r,
                              !.ph = IF sv.rem = r THEN "end" ELSE "data",
                              !.good = sv.good /\ src = SubSeq(sv.data, sv.off + 1, sv.off + r)]
    /\ res' = [NoRes EXCEPT !.op = "wdata", !.f = sv.f]
    /\ UNCHANGED <<now, disk, saves, nsaves, nplants>>

SaveEnd ==
    /\ sv.on /\ sv.ph = "end"
    /\ sv' = Idle
    /\ res' = [NoRes EXCEPT !.op = "save", !.f = sv.f, !.data = sv.data, !.dl = sv.dl, !.good = sv.good]
    /\ UNCHANGED <<now, disk, vol, touched, saves, nsaves, nplants>>

Sync ==     \* write-back completes (or fsync): everything volatile is durable
    /\ disk' = vol
    /\ touched' = [f \in Files |-> {}]
    /\ sv' = [sv EXCEPT !.clean = FALSE]
    /\ res' = [NoRes EXCEPT !.op = "sync"]
    /\ UNCHANGED <<now, vol, saves, nsaves, nplants>>

Crash ==
    /\ \E S \in [Files -> SUBSET (0..Sec(Max({1} \cup {Len(p) : p \in Payloads})))], c \in [Files -> BOOLEAN] :
         /\ \A f \in Files : S[f] \subseteq touched[f] /\ (c[f] => (~disk[f].ex /\ vol[f].ex /\ S[f] = {}))
         /\ disk' = [f \in Files |-> CrashImage(disk[f], vol[f], S[f], c[f])]
    /\ vol' = disk'
    /\ touched' = [f \in Files |-> {}]
    /\ sv' = Idle
    /\ res' = [NoRes EXCEPT !.op = "crash"]
    /\ UNCHANGED <<now, saves, nsaves, nplants>>

Unlink(f) ==      \* assumption: an unlink is durable at once
    /\ vol' = [vol EXCEPT ![f] = Absent]
    /\ disk' = [disk EXCEPT ![f] = Absent]
    /\ touched' = [touched EXCEPT ![f] = {}]

Load(f) ==
    /\ ~sv.on
    /\ LET o == LoadOutcome(vol[f], now) IN
       /\ res' = [NoRes EXCEPT !.op = "load", !.f = f, !.ok = o.ok, !.data = o.data, !.dl = o.dl]
       /\ IF o.ok \/ ~vol[f].ex THEN UNCHANGED <<vol, disk, touched>> ELSE Unlink(f)
    /\ UNCHANGED <<now, sv, saves, nsaves, nplants>>

Gc ==
    /\ ~sv.on
    /\ LET dead == { f \in Files : Dead(vol[f], now) } IN
       /\ vol' = [f \in Files |-> IF f \in dead THEN Absent ELSE vol[f]]
       /\ disk' = [f \in Files |-> IF f \in dead THEN Absent ELSE disk[f]]
       /\ touched' = [f \in Files |-> IF f \in dead THEN {} ELSE touched[f]]
    /\ res' = [NoRes EXCEPT !.op = "gc", !.pre = vol]
    /\ UNCHANGED <<now, sv, saves, nsaves, nplants>>

Plant(f, g) ==
    /\ ~sv.on /\ nplants < MaxPlants
    /\ vol' = [vol EXCEPT ![f] = g]
    /\ disk' = [disk EXCEPT ![f] = g]
    /\ touched' = [touched EXCEPT ![f] = {}]
    /\ nplants' = nplants + 1
    /\ res' = [NoRes EXCEPT !.op = "plant", !.f = f]
    /\ UNCHANGED <<now, sv, saves, nsaves>>

Tick ==
    /\ now < MaxNow
    /\ now' = now + 1
    /\ res' = [NoRes EXCEPT !.op = "tick"]
    /\ UNCHANGED <<disk, vol, touched, sv, saves, nsaves, nplants>>

Next ==
    \/ \E f \in Files, p \in Payloads, dl \in Deadlines : SaveBegin(f, p, dl)
    \/ WriteHeader \/ WriteHeader2
    \/ (\E r \in 1..Max({1} \cup {Len(p) : p \in Payloads}) : WriteData(r))
    \/ SaveEnd \/ Sync \/ Crash \/ Gc \/ Tick
    \/ (\E f \in Files : Load(f))
    \/ (\E f \in Files, g \in Garbage : Plant(f, g))

Spec == Init /\ [][Next]_vars

-----------------------------------------------------------------------------
(* The property.  `saves' holds (data, deadline) of every save that was begun. *)
NoMixP(r, sset, t) ==
    (r.op = "load" /\ r.ok) => ([data |-> r.data, dl |-> r.dl] \in sset /\ r.dl >= t)
NoMix == NoMixP(res, saves, now)

LoadCleans == res.op = "load" => (vol[res.f].ex <=> res.ok)

GcSafe  == res.op = "gc" => \A f \in Files : LoadOutcome(res.pre[f], now).ok => vol[f] = res.pre[f]
GcExact == res.op = "gc" => \A f \in Files : ~Dead(res.pre[f], now) => vol[f] = res.pre[f]
GcCleans == res.op = "gc" => \A f \in Files : ~Dead(vol[f], now)

(* a save that completed (with correct buffer handling) is what load returns *)
SaveLoads ==
    (res.op = "save" /\ res.good /\ res.dl >= now) =>
        LoadOutcome(vol[res.f], now) = [ok |-> TRUE, data |-> res.data, dl |-> res.dl]

TypeOK ==
    /\ now \in MinNow..MaxNow
    /\ \A f \in Files : vol[f].ex \in BOOLEAN /\ disk[f].ex \in BOOLEAN
    /\ \A f \in Files : (~vol[f].ex => touched[f] = {})

-----------------------------------------------------------------------------
(* CLOSED FORM.  Situation: the durable image d is Structured, nothing is     *)
(* dirty, a save of (p, dl) is in flight: header written or not (hw), b data  *)
(* cells written (correct buffer handling).  For sector subset S and creation *)
(* flag c:  LoadOutcome(CrashImage(d, v, S, c), t) = Closed(...).             *)
(* Everything that needs the cell contents is in Summary(dd, p, nold), which  *)
(* is computed once per (d, p); Closed itself costs O(|S|).                   *)

DValid(d) == d.ex /\ d.hdr.k = "full" /\ d.hdr.sum # BadSum
             /\ Len(d.data) >= d.hdr.size /\ SubSeq(d.data, 1, d.hdr.size) = d.hdr.sum

(* dd: durable data cells, p: new payload, nold: size field of the old (valid) header, else 0. *)
(* Per sector s (cells lo..hi of the new payload):                                              *)
(*   maxBad  = last cell where the durable image does not already hold the new value (0: none)  *)
(*   badZ    = some cell differs from what an untouched sector shows (old cell, or zero beyond  *)
(*             the old end)                                                                     *)
(*   minDiff = first cell, within both payloads, where old and new differ (Inf: none)           *)
(* The scans stop at the first hit, so a summary costs O(n) at worst and O(#sectors) for        *)
(* unrelated contents.                                                                          *)
RECURSIVE LastBad(_, _, _, _), FirstDiff(_, _, _, _)
LastBad(dd, p, j, lo) ==
    IF j < lo THEN 0
    ELSE IF j > Len(dd) \/ dd[j] # p[j] THEN j
    ELSE LastBad(dd, p, j - 1, lo)
FirstDiff(dd, p, j, hi) ==
    IF j > hi THEN Inf
    ELSE IF dd[j] # p[j] THEN j
    ELSE FirstDiff(dd, p, j + 1, hi)

Summary(dd, p, nold) ==
    LET Ld == Len(dd)
        n  == Len(p)
        m  == Min({n, nold})
    IN [s \in 0..Sec(Max({n, 1})) |->
          LET lo == FirstPos(s)
              hi == Min({LastPos(s), n})
          IN [maxBad  |-> LastBad(dd, p, hi, lo),
              badZ    |-> \E j \in lo..hi : IF j <= Ld THEN dd[j] # p[j] ELSE p[j] # Z,
              minDiff |-> FirstDiff(dd, p, lo, Min({hi, m}))]]

(* sm = Summary(d.data, p, nold); dv = DValid(d); Ld = Len(d.data) (0 if absent);  *)
(* n = Len(p).  Result: which record the load returns - "old", "new" or "none".    *)
ImageLen(Ld, b, S) == Max({Ld} \cup { Min({LastPos(s), Max({Ld, b})}) : s \in S })

ClosedW(sm, dv, olddl, Ld, n, dl, hw, b, S, t) ==
    IF ~hw \/ 0 \notin S THEN
        IF dv /\ olddl >= t /\ (\A s \in S : sm[s].minDiff > b) THEN "old" ELSE "none"
    ELSE
        IF dl < t THEN "none"
        ELSE IF ImageLen(Ld, b, S) < n THEN "none"
        ELSE IF n = 0 \/ (\A s \in 0..Sec(n) : IF s \in S THEN sm[s].maxBad <= b ELSE ~sm[s].badZ)
             THEN "new"
             ELSE "none"

(* oldr = what a load of d returns when it succeeds *)
Closed(sm, dv, oldr, Ld, p, dl, hw, b, S, t) ==
    LET w == ClosedW(sm, dv, oldr.dl, Ld, Len(p), dl, hw, b, S, t) IN
    IF w = "old" THEN oldr
    ELSE IF w = "new" THEN [ok |-> TRUE, data |-> p, dl |-> dl]
    ELSE None

ClosedFormOK ==
    (sv.on /\ sv.clean /\ sv.adv /\ HdrAtomic) =>
        LET f  == sv.f
            d  == disk[f]
            dv == DValid(d)
            sm == Summary(d.data, sv.data, IF dv THEN d.hdr.size ELSE 0)
            oldr == [ok |-> TRUE, data |-> d.hdr.sum, dl |-> d.hdr.dl]
            hw == sv.ph # "hdr"
        IN \A S \in SUBSET touched[f], c \in BOOLEAN :
              (c => (~d.ex /\ S = {})) =>
                 LoadOutcome(CrashImage(d, vol[f], S, c), now)
                    = Closed(sm, dv, oldr, Len(d.data), sv.data, sv.dl, hw, sv.off, S, now)

(* "image byte-identical to a complete save": header of that save followed by  *)
(* exactly its data - such an image MUST load while its deadline has not passed *)
CompleteImage(p, dl) == [ex |-> TRUE, hdr |-> FullHdr(dl, p), data |-> p]
MustLoadOK ==
    \A f \in Files : \A s \in saves :
        (vol[f] = CompleteImage(s.data, s.dl) /\ s.dl >= now) =>
            LoadOutcome(vol[f], now) = [ok |-> TRUE, data |-> s.data, dl |-> s.dl]
=============================================================================
