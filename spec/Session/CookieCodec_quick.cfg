INIT CInit
NEXT CNext
CONSTANTS
  Cfgs = {1}
  AesCfgs = {}
  Pay = {1}
  Deadlines = {1}
  MaxNow = 0
  MaxSaves = 0
  MaxDerive = 0
  MacCoversIv = TRUE
  FreshIv = TRUE
  CodecChars = {65, 66, 69, 81, 33}
