----------------------------- MODULE CookieCodec -----------------------------
(* Leg D for the byte-level half of Cookie.tla: TLC evaluates the ASSUMEs.     *)
(*  - DecEq (sextets with the ignored bits masked) is exactly "Decode gives    *)
(*    the same bytes", on all texts of length 2, 3, 4 and 6, 7 (fixed first     *)
(*    group) over an alphabet that contains characters differing only in the   *)
(*    ignored bits, and characters outside the base64url alphabet;             *)
(*  - Decode inverts Encode; Encode(Decode(s)) is a spelling of s.             *)
EXTENDS Cookie
CONSTANT CodecChars      \* characters the texts are built from (quick: 5, thorough: 8)
VARIABLE x
CInit == Init /\ x = 0
CNext == UNCHANGED <<vars, x>>

Chars == CodecChars                               \* e.g. A B E Q _ ! z and a byte > 127
Texts(n) == [1..n -> Chars]
Tails(n) == { <<81, 85, 74, 68>> \o t : t \in Texts(n) }

SameDecoding(T) == \A a \in T : \A b \in T : DecEq(a, b) <=> (Decode(a) = Decode(b))

ASSUME SameDecoding(Texts(2))
ASSUME SameDecoding(Texts(3))
ASSUME SameDecoding([1..4 -> {65, 66, 81, 95, 33}])
ASSUME SameDecoding(Tails(2)) /\ SameDecoding(Tails(3))
ASSUME \A a \in Texts(2) : \A b \in Texts(3) : ~DecEq(a, b) /\ Decode(a) # Decode(b)
ASSUME \A a \in [1..3 -> {65, 66, 69, 33}] : \A h \in 0..4 : \A b \in [1..3 -> {65, 66, 69, 33}] : DecEqH(a, b, h) = DecEq(a, b)

(* limb comparison = numeric comparison (values that fit TLC's integers, both signs, limb borders) *)
P24 == 16777216
Limbs(v) == IF v >= 0 THEN <<0, v \div P24, Mod(v, P24)>>
            ELSE <<-1, (P24 - 1) - ((-v - 1) \div P24), (P24 - 1) - Mod(-v - 1, P24)>>
TimeSamples == {-2000000000, -1000000000, -16777217, -16777216, -16777215, -2, -1, 0, 1, 59, 16777215, 16777216, 16777217,
                1000000, 1790000000, 2147483646, 2147483647}
ASSUME \A t1 \in TimeSamples : \A t2 \in TimeSamples : GeqW(Limbs(t1), Limbs(t2)) <=> t1 >= t2
ASSUME GeqW(<<1, 0, 0>>, <<0, P24 - 1, P24 - 1>>) /\ ~GeqW(<<-1, P24 - 1, P24 - 1>>, <<0, 0, 0>>) /\ GeqW(<<0, 128, 0>>, <<0, 127, P24 - 1>>)
Bytes == {0, 1, 15, 16, 63, 64, 128, 255}
ASSUME \A n \in 0..3 : \A b \in [1..n -> Bytes] : Decode(Encode(b)) = b
ASSUME \A b \in [1..4 -> {0, 255, 77}] : Decode(Encode(b)) = b /\ Len(Encode(b)) = 6
ASSUME \A n \in {2, 3, 4} : \A s \in Texts(n) : DecEq(Encode(Decode(s)), s)
ASSUME ~DecodeOK(1) /\ ~DecodeOK(5) /\ DecodeOK(0) /\ DecodeOK(2) /\ DecodeOK(3) /\ DecodeOK(4)
ASSUME S64[45] = 62 /\ S64[95] = 63 /\ S64[65] = 0 /\ S64[122] = 51 /\ S64[48] = 52 /\ S64[57] = 61 /\ S64[61] = 0 /\ S64[43] = 0
(* "Hello" = SGVsbG8 *)
ASSUME Encode(<<72, 101, 108, 108, 111>>) = <<83, 71, 86, 115, 98, 71, 56>>
=============================================================================
