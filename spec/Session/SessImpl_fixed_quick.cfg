SPECIFICATION ISpec
CONSTANTS
  Browsers = {0}
  Keys = {"a"}
  CLoc = "both"
  CHow0 = 1
  CAge0 = 100
  CPol = TRUE
  Vals = {1,2}
  BigVals = {2}
  Faithful = FALSE
  Ages = {50}
  Hows = {0,2}
  OpKinds = {"set","erase","clear","expose","hide","age","how","srv","reset"}
  Advances = {3,40,99,101}
  WfIds = {1,2,3,4,5,6,7,8,9,10,11,12,13,14}
  JunkIds = {901}
  MaxReq = 2
  MaxOps = 2
  MaxTamper = 0
VIEW IView
INVARIANTS MechSaveOK MechPlacement Carry NoForeign Dead SidForm Exposed JarLeft
