------------------------------- MODULE Cookie -------------------------------
(***************************************************************************)
(* C05 - client-side sessions are accepted only if issued by this server   *)
(* and unexpired (src/session_cookies.cpp, hmac_encryptor.cpp,             *)
(* aes_encryptor.cpp, base64.cpp).                                         *)
(*                                                                         *)
(* Part 1 (symbolic, explored by TLC).  A cipher text is a term            *)
(*     [iv, body = (payload, deadline, iv it was encrypted under, damage), *)
(*      shape, mac]                                                        *)
(* and the MAC is IDEAL: it is the tuple of the things it authenticates,   *)
(* made under a configuration (key material + algorithm).  The attacker    *)
(* knows every cookie ever issued and derives new ones: re-spelling the    *)
(* text (the decoder is lenient), damaging the first character or the      *)
(* length, flipping bits in the IV block / the body / the MAC, truncating, *)
(* extending, swapping blocks, transplanting the MAC of another cookie,    *)
(* replaying under another configuration, inventing garbage.               *)
(* load = first character 'C', lenient base64url decode, MAC check over    *)
(* the whole cipher text (incl. IV block) BEFORE decryption, size checks,  *)
(* deadline >= now; every failure clears the cookie.                       *)
(* Invariants: Auth, Fresh, Cleared, RoundTrip, IvFresh and LoadRule - the *)
(* mechanism accepts exactly "decodes to a cipher text issued under the    *)
(* same configuration, unexpired", which is the rule CookieTrace.tla       *)
(* applies to the real code.                                               *)
(*                                                                         *)
(* Part 2 (byte level, used by CookieTrace and checked by CookieCodec):    *)
(* the code's lenient base64url decoder and the equivalence "two texts     *)
(* decode to the same bytes".                                              *)
(***************************************************************************)
EXTENDS Integers, Sequences, FiniteSets, TLC

CONSTANTS Cfgs,          \* configurations (key material + algorithm)
          AesCfgs,       \* those that encrypt (random IV block); the others only sign
          Pay,           \* payload ids
          Deadlines,
          MaxNow, MaxSaves, MaxDerive,
          MacCoversIv,   \* TRUE = the code; FALSE = self-test mutant (MAC over the body only)
          FreshIv        \* TRUE = the code (nonce IV); FALSE = self-test mutant (constant IV)

VARIABLES now, issued, known, nsaves, nder, res
vars == <<now, issued, known, nsaves, nder, res>>

Junk == [p |-> 0, dl |-> 0, iv0 |-> 0, dmg |-> 9]

MacOf(cfg, iv, body, shape) == IF MacCoversIv THEN <<cfg, iv, body, shape>> ELSE <<cfg, body, shape>>

Mint(cfg, p, dl, iv) ==
    LET body == [p |-> p, dl |-> dl, iv0 |-> iv, dmg |-> 0]
    IN [iv |-> iv, body |-> body, shape |-> "ok", mac |-> MacOf(cfg, iv, body, "ok")]

(* a cookie: first character is 'C' or not; the text is the canonical spelling, *)
(* another spelling with the same decoding, or undecodable (length = 4k+1)   *)
Cookie(t) == [first |-> TRUE, enc |-> "canon", t |-> t]

(* what decryption yields: a damaged or re-keyed first block garbles the payload *)
Plain(t) == IF t.body.dmg = 0 /\ t.iv = t.body.iv0 THEN [p |-> t.body.p, dl |-> t.body.dl]
            ELSE [p |-> -1, dl |-> t.body.dl]

NoRes == [op |-> "none", cfg |-> CHOOSE c \in Cfgs : TRUE, ok |-> FALSE, p |-> 0, dl |-> 0, cleared |-> FALSE,
          ck |-> Cookie(Mint(CHOOSE c \in Cfgs : TRUE, 0, 0, 0))]

(* session_cookies::load + encryptor::decrypt *)
LoadOutcome(cfg, ck, t) ==
    IF ~ck.first \/ ck.enc = "bad" THEN [ok |-> FALSE, p |-> 0, dl |-> 0]
    ELSE IF ck.t.shape # "ok" THEN [ok |-> FALSE, p |-> 0, dl |-> 0]                   \* size checks
    ELSE IF ck.t.mac # MacOf(cfg, ck.t.iv, ck.t.body, ck.t.shape) THEN [ok |-> FALSE, p |-> 0, dl |-> 0]
    ELSE LET pl == Plain(ck.t) IN
         IF pl.dl < t THEN [ok |-> FALSE, p |-> 0, dl |-> 0]
         ELSE [ok |-> TRUE, p |-> pl.p, dl |-> pl.dl]

Init ==
    /\ now = 0
    /\ issued = [c \in Cfgs |-> {}]
    /\ known = {}
    /\ nsaves = 0 /\ nder = 0
    /\ res = NoRes

Save(cfg, p, dl) ==
    /\ nsaves < MaxSaves
    /\ LET iv == IF cfg \in AesCfgs THEN (IF FreshIv THEN nsaves + 1 ELSE 1) ELSE 0
           t  == Mint(cfg, p, dl, iv)
       IN /\ issued' = [issued EXCEPT ![cfg] = @ \cup {[n |-> nsaves + 1, t |-> t, p |-> p, dl |-> dl]}]
          /\ known' = known \cup {Cookie(t)}
          /\ res' = [NoRes EXCEPT !.op = "save", !.cfg = cfg, !.p = p, !.dl = dl, !.ck = Cookie(t)]
    /\ nsaves' = nsaves + 1
    /\ UNCHANGED <<now, nder>>

Derivations(c) ==
    { [c EXCEPT !.enc = "alt"], [c EXCEPT !.enc = "bad"], [c EXCEPT !.first = FALSE],
      [c EXCEPT !.t.iv = @ + 100],                                        \* flip in the IV block
      [c EXCEPT !.t.body.dmg = 1],                                        \* flip in the body
      [c EXCEPT !.t.body.dmg = 2],                                        \* two 16-byte blocks swapped
      [c EXCEPT !.t.mac = <<"junk">>],                                    \* flip in the MAC
      [c EXCEPT !.t.shape = "short"], [c EXCEPT !.t.shape = "long"],      \* truncation / extension
      [c EXCEPT !.t.shape = "short", !.t.mac = <<"junk">>] }
    \cup { [c EXCEPT !.t.mac = d.t.mac] : d \in known }                   \* MAC transplant
    \cup { [c EXCEPT !.t.body = d.t.body] : d \in known }                 \* body spliced under this MAC

Derive ==
    /\ nder < MaxDerive
    /\ \E c \in known : \E d \in Derivations(c) : known' = known \cup {d}
    /\ nder' = nder + 1
    /\ res' = [NoRes EXCEPT !.op = "derive"]
    /\ UNCHANGED <<now, issued, nsaves>>

Garbage ==
    /\ nder < MaxDerive
    /\ known' = known \cup {[first |-> TRUE, enc |-> "canon", t |-> [iv |-> 7, body |-> Junk, shape |-> "ok", mac |-> <<"junk">>]]}
    /\ nder' = nder + 1
    /\ res' = [NoRes EXCEPT !.op = "derive"]
    /\ UNCHANGED <<now, issued, nsaves>>

Load(cfg, ck) ==          \* any known cookie may be presented to any configuration (replay, cross-key)
    /\ LET o == LoadOutcome(cfg, ck, now) IN
       res' = [op |-> "load", cfg |-> cfg, ok |-> o.ok, p |-> o.p, dl |-> o.dl, cleared |-> ~o.ok, ck |-> ck]
    /\ UNCHANGED <<now, issued, known, nsaves, nder>>

Tick ==
    /\ now < MaxNow /\ now' = now + 1
    /\ res' = [NoRes EXCEPT !.op = "tick"]
    /\ UNCHANGED <<issued, known, nsaves, nder>>

Next ==
    \/ \E cfg \in Cfgs, p \in Pay, dl \in Deadlines : Save(cfg, p, dl)
    \/ Derive \/ Garbage \/ Tick
    \/ (\E cfg \in Cfgs : \E ck \in known : Load(cfg, ck))
Spec == Init /\ [][Next]_vars

-----------------------------------------------------------------------------
Auth  == (res.op = "load" /\ res.ok) => \E r \in issued[res.cfg] : r.p = res.p /\ r.dl = res.dl
Fresh == (res.op = "load" /\ res.ok) => res.dl >= now
(* Auth and Fresh for an observed result (used by CookieTrace): the accepted pair is one issued *)
(* record among `live' = the issued records of the configuration the cookie decodes to          *)
AuthFreshP(ok, p, dl, live, t) == ok => \E r \in live : r.p = p /\ r.dl = dl /\ r.dl >= t
(* The same on the full time_t range: TLC integers have 32 bits, so traces carry a 64-bit     *)
(* time as three limbs <<a, b, c>>, t = a*2^48 + b*2^24 + c with 0 <= b, c < 2^24 (a signed); *)
(* the numeric order is the lexicographic order of the limbs.                                  *)
GeqW(x, y) == x[1] > y[1] \/ (x[1] = y[1] /\ (x[2] > y[2] \/ (x[2] = y[2] /\ x[3] >= y[3])))
AuthFreshW(ok, p, dl, live, t) == ok => \E r \in live : r.p = p /\ r.dl = dl /\ GeqW(r.dl, t)
Cleared == (res.op = "load" /\ ~res.ok) => res.cleared

(* the rule CookieTrace applies: accepted iff 'C' + a text that decodes to a cipher *)
(* text issued under the same configuration whose deadline has not passed           *)
LoadRule ==
    res.op = "load" =>
        (res.ok <=> (res.ck.first /\ res.ck.enc # "bad"
                     /\ \E r \in issued[res.cfg] : r.t = res.ck.t /\ r.dl >= now))

RoundTrip ==
    \A cfg \in Cfgs : \A r \in issued[cfg] :
        r.dl >= now => LoadOutcome(cfg, Cookie(r.t), now) = [ok |-> TRUE, p |-> r.p, dl |-> r.dl]

(* two saves under an encrypting configuration never give the same cipher text *)
IvFresh ==
    \A cfg \in AesCfgs : \A r1, r2 \in issued[cfg] : r1.n # r2.n => r1.t # r2.t

-----------------------------------------------------------------------------
(* Part 2: the lenient base64url decoder of src/base64.cpp on character codes. *)
Mod(a, b) == a - b * (a \div b)
Sextet(c) ==
    IF c >= 65 /\ c <= 90 THEN c - 65
    ELSE IF c >= 97 /\ c <= 122 THEN 26 + c - 97
    ELSE IF c >= 48 /\ c <= 57 THEN 52 + c - 48
    ELSE IF c = 45 THEN 62
    ELSE IF c = 95 THEN 63
    ELSE 0                                   \* characters outside the alphabet decode as 'A'
S64 == [c \in 0..255 |-> Sextet(c)]

DecodeOK(n) == Mod(n, 4) # 1                     \* decoded_size() < 0
DecLen(n)   == (n \div 4) * 3 + (IF Mod(n, 4) = 2 THEN 1 ELSE IF Mod(n, 4) = 3 THEN 2 ELSE 0)

(* byte k (0-based) of the decoding of text s (1-based sequence of character codes) *)
DecByte(s, k) ==
    LET g == 4 * (k \div 3)
        r == Mod(k, 3)
    IN IF r = 0 THEN S64[s[g+1]] * 4 + S64[s[g+2]] \div 16
       ELSE IF r = 1 THEN Mod(S64[s[g+2]], 16) * 16 + S64[s[g+3]] \div 4
       ELSE Mod(S64[s[g+3]], 4) * 64 + S64[s[g+4]]
Decode(s) == [k \in 1..DecLen(Len(s)) |-> DecByte(s, k - 1)]

(* the sextet of the character ch at position i of a text of length n, with the *)
(* bits the decoder ignores (last character of a partial group) masked out      *)
CanonG(ch, n, i) ==
    LET v == S64[ch]
    IN IF i = n /\ Mod(n, 4) = 2 THEN v - Mod(v, 16)
       ELSE IF i = n /\ Mod(n, 4) = 3 THEN v - Mod(v, 4)
       ELSE v
Canon(s, i) == CanonG(s[i], Len(s), i)
(* Texts given by accessor and length (decodable): do they decode to the same    *)
(* bytes?  h is only a hint where to look first - any value is sound.            *)
DecEqG(A(_), n, B(_), m, h) ==
    /\ n = m
    /\ ~(h \in 1..n /\ CanonG(A(h), n, h) # CanonG(B(h), n, h))
    /\ \A i \in 1..n : CanonG(A(i), n, i) = CanonG(B(i), n, i)
DecEqH(a, b, h) == DecEqG(LAMBDA i : a[i], Len(a), LAMBDA i : b[i], Len(b), h)
DecEq(a, b) == DecEqH(a, b, 0)

Alphabet == <<65,66,67,68,69,70,71,72,73,74,75,76,77,78,79,80,81,82,83,84,85,86,87,88,89,90,
              97,98,99,100,101,102,103,104,105,106,107,108,109,110,111,112,113,114,115,116,117,118,119,120,121,122,
              48,49,50,51,52,53,54,55,56,57,45,95>>
(* b64url::encode *)
EncChar(b, i) ==        \* character i (0-based) of the encoding of bytes b
    LET g == 3 * (i \div 4)
        r == Mod(i, 4)
        B(j) == IF j <= Len(b) THEN b[j] ELSE 0
    IN Alphabet[1 + (IF r = 0 THEN B(g+1) \div 4
                     ELSE IF r = 1 THEN Mod(B(g+1), 4) * 16 + B(g+2) \div 16
                     ELSE IF r = 2 THEN Mod(B(g+2), 16) * 4 + B(g+3) \div 64
                     ELSE Mod(B(g+3), 64))]
EncLen(n) == (n \div 3) * 4 + (IF Mod(n, 3) = 1 THEN 2 ELSE IF Mod(n, 3) = 2 THEN 3 ELSE 0)
Encode(b) == [i \in 1..EncLen(Len(b)) |-> EncChar(b, i - 1)]
=============================================================================
