----------------------------- MODULE SessTrace -----------------------------
(* Leg B for C06: a trace recorded from the real session_interface /        *)
(* session_sid / session_dual / session_cookies / storage code is accepted  *)
(* iff it is a behaviour of Sess (property layer).  One trace line per step. *)
(*                                                                          *)
(* Relax (constant, normally {}) names property clauses that are switched    *)
(* off; the runner uses it only to *diagnose* a rejection (which clause      *)
(* explains it), never to accept a trace.                                    *)
(* Tolerate (constant) names diagnosed deviation classes of the unchanged    *)
(* tree that are accepted *and reported* (a line DEVIATION <class> ... is    *)
(* printed and turned into a finding by the runner), so that the remainder   *)
(* of the trace is still validated:                                          *)
(*   "MetaAfterClear": clear() followed by another mutation in the same      *)
(*       request drops the explicit age / expiration / on_server settings    *)
(*       from what the next request reads, although the getters of the       *)
(*       clearing request (and the deadline it writes) still show them.      *)
(*   "ExposedNotRenewed" (polite jar only): an exposed cookie is re-sent     *)
(*       only when its own value changes or when an *unchanged* session is   *)
(*       renewed; a session kept alive by requests that change other data    *)
(*       outlives the Max-Age of its exposed cookies, so a browser honouring *)
(*       Max-Age ends up without the cookie of a key that is still exposed.  *)
EXTENDS Sess, TraceBase

CONSTANTS Relax, Tolerate

VARIABLES l, pend, xok
tvars == <<vars, l, pend, xok>>

Ev == TraceLog[l]
Is(name) == l <= NLines /\ Ev.e = name /\ l' = l + 1
R(c) == c \in Relax

Ck(j) == [kind |-> j.kind, id |-> j.id, exp |-> j.exp]

\* JSON list of {k,v,x} -> data map
DataOf(m) == [k \in Keys |-> IF \E i \in DOMAIN m : m[i].k = k
                             THEN LET i == CHOOSE i \in DOMAIN m : m[i].k = k
                                  IN [has |-> TRUE, v |-> m[i].v, x |-> m[i].x]
                             ELSE NoVal]
KeysKnown(m) == \A i \in DOMAIN m : m[i].k \in Keys

Persisted(S) == Canon(S)

S00(c) == [d |-> [k \in Keys |-> NoVal], age |-> c.age0, how |-> c.how0, srv |-> FALSE, mt |-> FALSE, mh |-> FALSE, ms |-> FALSE]
TReset ==
    /\ Is("Reset")
    /\ LET c == [loc |-> Ev.loc, how0 |-> Ev.how0, age0 |-> Ev.age0, pol |-> Ev.pol] IN
       /\ conf' = c
       /\ now' = 0
       /\ store' = <<>> /\ issued' = <<>>
       /\ seen' = {} /\ dead' = {}
       /\ jar' = [b \in Browsers |-> NoCk]
       /\ xjar' = [b \in Browsers |-> {}]
       /\ honest' = [b \in Browsers |-> TRUE]
       /\ left' = [b \in Browsers |-> [has |-> FALSE, S |-> S00(c), dl |-> 0]]
       /\ cur' = [ph |-> "idle", b |-> 0, ck |-> NoCk, hon |-> TRUE, ok |-> FALSE, S0 |-> S00(c), dl0 |-> 0,
                  S |-> S00(c), reset |-> FALSE, nops |-> 0, fresh |-> {}]
       /\ hist' = {}
       /\ cnt' = cnt

TTick == Is("Tick") /\ Tick(Ev.d) /\ UNCHANGED cnt

TTamper == Is("Tamper") /\ Tamper(Ev.b, Ck(Ev.ck)) /\ UNCHANGED cnt
TExpire == Is("Expire") /\ Expire(Ev.b) /\ UNCHANGED cnt
TRestart == Is("Restart") /\ Restart(Ev.b) /\ UNCHANGED cnt

TReq ==
    /\ Is("Req")
    /\ Ev.b \in Browsers
    /\ Ev.now = now
    /\ Ck(Ev.ck) = jar[Ev.b]                       \* harness consistency: the jar is what the server left
    /\ Req(Ev.b) /\ UNCHANGED cnt

(* SidForm: the storage is addressed only with 32 lower-case hex digits, which are either the    *)
(* presented I-cookie's or an id nobody has seen before                                           *)
Hex == (48..57) \cup (97..102)
WfBytes(sb, n) == n = 32 /\ Len(sb) = 32 /\ \A i \in 1..32 : sb[i] \in Hex
TSt ==
    /\ Is("St")
    /\ cur.ph \in {"req", "ops"}
    /\ R("SidForm") \/ WfBytes(Ev.sb, Ev.len)
    /\ R("SidForm") \/ (cur.ck.kind = "I" /\ Ev.sid = cur.ck.id) \/ Ev.sid \in cur.fresh \/ Ev.sid \notin seen
    /\ cur' = [cur EXCEPT !.fresh = IF Ev.sid \notin seen THEN cur.fresh \cup {Ev.sid} ELSE cur.fresh]
    /\ seen' = seen \cup {Ev.sid}
    /\ UNCHANGED <<conf, now, store, issued, dead, jar, xjar, honest, left, hist, cnt>>

ObsVis == [d |-> DataOf(Ev.m), age |-> Ev.age, how |-> Ev.how, srv |-> Ev.srv]

\* full session (with the explicit-setting flags, which getters do not show) behind an observed load
Full(c, ok, v) == [d |-> v.d, age |-> v.age, how |-> v.how, srv |-> v.srv,
                   mt |-> ok /\ c.has /\ c.S.mt, mh |-> ok /\ c.has /\ c.S.mh, ms |-> ok /\ c.has /\ c.S.ms]

PForm(c) == [has |-> c.has, S |-> Persisted(c.S), dl |-> c.dl]
TolMeta == "MetaAfterClear" \in Tolerate

TLoaded ==
    /\ Is("Loaded")
    /\ cur.ph = "req"
    /\ KeysKnown(Ev.m)
    /\ LET c    == Cand(cur.ck)
           L    == left[cur.b]
           okL  == YieldOK(c, Ev.ok, ObsVis)                                          \* NoForeign
           devL == ~okL /\ TolMeta /\ YieldOK(PForm(c), Ev.ok, ObsVis)                \* diagnosed deviation, reported
           okC  == CarryOK(L, Ev.ok, ObsVis)                                          \* Carry
           devC == ~okC /\ TolMeta /\ CarryOK(PForm(L), Ev.ok, ObsVis)
           base == IF devL THEN PForm(c) ELSE c
       IN
       /\ IF R("Load") THEN TRUE ELSE (okL \/ devL)
       /\ IF R("Carry") \/ ~cur.hon THEN TRUE ELSE (okC \/ devC)
       /\ IF (devL /\ ~R("Load")) \/ (devC /\ cur.hon /\ ~R("Carry"))
          THEN PrintT("DEVIATION MetaAfterClear line " \o ToString(l) \o " browser " \o ToString(cur.b))
          ELSE TRUE
       /\ cur' = [cur EXCEPT !.ph = "ops", !.ok = Ev.ok, !.S0 = Full(base, Ev.ok, ObsVis), !.S = Full(base, Ev.ok, ObsVis),
                             !.dl0 = IF Ev.ok THEN c.dl ELSE 0]
       /\ store' = IF devL /\ cur.ck.kind = "I" THEN Put(store, cur.ck.id, [S |-> base.S, dl |-> c.dl]) ELSE store
       /\ issued' = IF devL /\ cur.ck.kind = "C" THEN Put(issued, cur.ck.id, [S |-> base.S, dl |-> c.dl]) ELSE issued
    /\ UNCHANGED <<conf, now, seen, dead, jar, xjar, honest, left, hist, cnt>>

OpOf(e) ==
    [op |-> e.op,
     k |-> IF Has(e, "k") THEN e.k ELSE "",
     v |-> IF Has(e, "v") THEN e.v ELSE 0,
     t |-> IF Has(e, "t") THEN e.t ELSE 0,
     h |-> IF Has(e, "h") THEN e.h ELSE 0,
     s |-> IF Has(e, "s") THEN e.s ELSE FALSE]
\* ga/gh/gs = what age()/expiration()/on_server() return right after the operation; for clear() they decide
\* which of the two admissible readings the implementation follows
Getters(S) == <<S.age, S.how, S.srv>>
TOp ==
    /\ Is("Op")
    /\ cur.ph = "ops"
    /\ (Has(Ev, "k") => Ev.k \in Keys)
    /\ LET o0 == OpOf(Ev)
           o  == IF Ev.op = "clear" /\ Getters(ApplyOp(cur.S, o0)) # <<Ev.ga, Ev.gh, Ev.gs>> THEN [o0 EXCEPT !.v = 1] ELSE o0
       IN /\ IF R("Ops") THEN TRUE ELSE Getters(ApplyOp(cur.S, o)) = <<Ev.ga, Ev.gh, Ev.gs>>
          /\ Op(o)
    /\ UNCHANGED cnt

(* Saved carries the session cookie now in the jar (ck: kind,id,exp + the deadline dl that cookie *)
(* designates, f = whether that could be read back), the next line (Jar) the exposed cookies.     *)
(* Both are consumed here: Saved only remembers the cookie, Jar performs Save.                    *)
TSaved ==
    /\ Is("Saved")
    /\ cur.ph = "ops"
    /\ ~Ev.threw
    /\ pend' = [ck |-> Ck(Ev.ck), dl |-> Ev.ck.dl, f |-> Ev.ck.f]
    /\ cur' = [cur EXCEPT !.ph = "saved"]
    /\ UNCHANGED <<conf, now, store, issued, seen, dead, jar, xjar, honest, left, hist, cnt, xok>>

XcOf(xc) == { [k |-> xc[i].k, v |-> xc[i].v] : i \in DOMAIN xc }

TJar ==
    /\ Is("Jar")
    /\ cur.ph = "saved"
    /\ LET xc == XcOf(Ev.xc) IN
       /\ \/ R("Exposed") \/ ~(cur.hon /\ xok[cur.b]) \/ xc = ExposedSet(cur.S)       \* Exposed
          \/ /\ "ExposedNotRenewed" \in Tolerate /\ conf.pol                         \* diagnosed deviation, reported
             /\ ~R("Exposed") /\ cur.hon /\ xok[cur.b] /\ xc # ExposedSet(cur.S)
             /\ xc \subseteq ExposedSet(cur.S)
             /\ (ExposedSet(cur.S) \ xc) \subseteq ExposedSet(cur.S0)
             /\ PrintT("DEVIATION ExposedNotRenewed line " \o ToString(l) \o " browser " \o ToString(cur.b))
       /\ xok' = [xok EXCEPT ![cur.b] = (xc = ExposedSet(cur.S))]
       /\ R("Kept") \/ IsEmpty(cur.S) \/ pend.f                                     \* the cookie designates a readable record
       /\ SaveG(pend.ck, pend.dl, xc, Relax)
    /\ cur' = [IdleCur EXCEPT !.ph = "store"]
    /\ pend' = pend
    /\ UNCHANGED <<cnt, hist>>

(* Store: the sids the real storage still answers for (probed through the storage API) with     *)
(* their deadlines.  Every live record of the model must be there, nothing dead or unknown.      *)
TStore ==
    /\ Is("Store")
    /\ cur.ph = "store"
    /\ LET snap == { Ev.s[i].sid : i \in DOMAIN Ev.s } IN
       /\ R("Dead") \/ snap \subseteq DOMAIN store                                      \* Dead (and nothing foreign); expired records may linger
       /\ R("Kept") \/ { i \in DOMAIN store : store[i].dl > now } \subseteq snap       \* live records are kept
       /\ R("Deadline") \/ (\A i \in DOMAIN Ev.s : Ev.s[i].sid \in DOMAIN store => Ev.s[i].dl = store[Ev.s[i].sid].dl)
    /\ cur' = IdleCur
    /\ UNCHANGED <<conf, now, store, issued, seen, dead, jar, xjar, honest, left, hist, cnt, pend, xok>>

KeepPend == UNCHANGED <<pend, xok>>

TraceInit == (\E c \in Confs : InitWith(c)) /\ l = 1 /\ pend = [ck |-> NoCk, dl |-> 0, f |-> FALSE] /\ xok = [b \in Browsers |-> TRUE]
TraceNext ==
    \/ (TReset /\ pend' = pend /\ xok' = [b \in Browsers |-> TRUE])
    \/ (TTick /\ KeepPend) \/ (TTamper /\ KeepPend) \/ (TExpire /\ KeepPend) \/ (TRestart /\ KeepPend)
    \/ (TReq /\ KeepPend) \/ (TSt /\ KeepPend)
    \/ (TLoaded /\ KeepPend)
    \/ (TOp /\ KeepPend) \/ TSaved \/ TJar \/ TStore
TraceSpec == TraceInit /\ [][TraceNext]_tvars
=============================================================================
