------------------------------- MODULE Store -------------------------------
(***************************************************************************)
(* G03 (growth) - the session storage back-ends of cppcms refine ONE       *)
(* abstract store.                                                         *)
(*                                                                         *)
(*   interface   cppcms/session_storage.h : save(sid,deadline,data),       *)
(*               load(sid,deadline&,data&), remove(sid), factory gc_job()  *)
(*   memory      src/session_memory_storage.cpp : hash map + multimap      *)
(*               deadline -> map node (timeout index), one shared_mutex,   *)
(*               short_gc() (<= GcBatch expired entries, smallest deadline *)
(*               first) at the end of every save and remove                *)
(*   files       src/session_posix_file_storage.cpp : one file per sid,    *)
(*               every access inside locked_file (per-sid mutex [+fcntl]), *)
(*               load unlinks an expired / damaged file, gc() scans the    *)
(*               directory and takes the lock of each file in turn         *)
(*   tcp         src/session_tcp_storage.cpp -> src/tcp_cache_server.cpp   *)
(*               (session::save/load/remove): one connection per client    *)
(*               thread, the server executes the request on a memory or    *)
(*               files storage, the reply carries the deadline as `int'    *)
(*                                                                         *)
(* Abstract state (history variables - their update rules ARE the wording  *)
(* of the property): last[s] = latest save of s, removed[s] = that save    *)
(* was followed by remove(s), now = clock.                                 *)
(*   AbsVal(s) = hit(last[s].v, last[s].dl)  iff last[s].has /\            *)
(*               ~removed[s] /\ last[s].dl >= now        else miss         *)
(* Boundary: all three back-ends use  `deadline < time(0) => expired'      *)
(* (memory load + short_gc, files read_from_file + read_timestamp, the     *)
(* server only forwards), so a session is alive up to AND INCLUDING the    *)
(* second now = deadline.  No boundary-second deviation between back-ends. *)
(*                                                                         *)
(* Named deviations between the back-ends (not part of the property):      *)
(*  D1 sid alphabet: files use the sid as file name and its first 4 hex    *)
(*     digits as lock index, gc only visits 32-hex-digit names; tcp        *)
(*     requires exactly 32 bytes (h.size = data+32); memory takes anything.*)
(*  D2 files: load() of an expired or damaged session unlinks the file     *)
(*     (memory: load never modifies) - invisible through the interface.    *)
(*  D3 memory: factory.gc_job() is empty / requires_gc() = FALSE, expired  *)
(*     entries go <= GcBatch at a time inside save/remove; files: gc_job() *)
(*     removes every expired file; tcp: requires_gc() = FALSE on the       *)
(*     client, the server runs its own factory's gc_job on a timer.        *)
(*  D4 tcp: the server converts the deadline with `int toffset=timeout'    *)
(*     (tcp_cache_server.cpp session::load): a deadline > IntMax is        *)
(*     answered no_data (wrapped negative) or comes back truncated.  This  *)
(*     one IS a violation of (a) - it is modelled faithfully (TruncLoad),  *)
(*     Store_y2038.cfg shows TLC finding it; the regular configurations    *)
(*     keep every deadline <= IntMax.                                      *)
(*                                                                         *)
(* Mechanism state: store[s] = what the back-end holds for s (map node /   *)
(* file), tindex = the memory storage's timeout index as a set of          *)
(* <<deadline, sid>> pairs (an index entry *points at a map node*, so      *)
(* erasing through a stale entry erases the node's current content).       *)
(* Threads: th[t] = the call in progress: Call (function entry / request   *)
(* written) -> Lin (THE critical section / the server executing the        *)
(* request) -> Ret (return / reply read).  The files gc is a scanner with  *)
(* one critical section per file.                                          *)
(*                                                                         *)
(* Properties                                                              *)
(*  (a) LoadCorrect  a finished load returns a value AbsVal(s) had at some *)
(*                   moment between its Call and its Lin (sequentially:    *)
(*                   exactly AbsVal(s)) - linearizability of load against  *)
(*                   atomic save/remove                                    *)
(*  (b) LiveKept     every alive session is held, with the data and        *)
(*                   deadline of its latest save (gc never removes a       *)
(*                   session whose deadline is >= now)                     *)
(*      HeldSound    whatever is held is the latest, not removed save      *)
(*      IndexConsistent (memory) tindex = { <<store[s].dl,s>> : s held }   *)
(*      MemGcProgress  (memory) a save/remove leaves max(0, e - GcBatch)   *)
(*                   expired entries, e = expired entries after its own    *)
(*                   update; the victims have the smallest deadlines       *)
(*      FileGcComplete (files) a finished scan has removed every session   *)
(*                   that was expired when it began and was not re-saved   *)
(*  (c) per-sid linearizability of real concurrent histories is decided by *)
(*      StoreLinTrace.tla; here every interleaving of Threads is explored. *)
(*                                                                         *)
(* Seeded design bugs (CONSTANT Bug), each found by TLC (non-vacuity):     *)
(*   "GcBoundary"      short_gc / gc use <= now          -> LiveKept       *)
(*   "NoReindex"       save of a known sid keeps the old index entry       *)
(*                                          -> IndexConsistent (LiveKept)  *)
(*   "GcNoLock"        files gc reads the stamp and unlinks in two         *)
(*                     critical sections                 -> LiveKept       *)
(*   "LoadNoLock"      files load reads header and payload in two          *)
(*                     critical sections                 -> LoadCorrect    *)
(*   "LoadNoExpiry"    load does not compare the deadline -> LoadCorrect   *)
(*   "GcNever"         short_gc does nothing             -> MemGcProgress  *)
(***************************************************************************)
EXTENDS Integers, Sequences, FiniteSets, TLC

CONSTANTS Sids,         \* session ids
          Threads,      \* client threads
          Deadlines,    \* deadlines offered to save (same scale as now)
          MaxNow,       \* clock bound (state constraint)
          MaxSaves,     \* bound on value ids (state constraint)
          Backend,      \* "memory" | "files"   (server side when Net)
          Net,          \* TRUE: tcp_storage + tcp_cache_service in front of Backend
          IntMax,       \* largest deadline the server's `int toffset' carries
          GcBatch,      \* 5 in session_memory_storage::short_gc
          Bug           \* "none" or one of the seeded design bugs

VARIABLES now, last, removed, nv,     \* history (property layer)
          store, tindex,              \* mechanism
          th, gc

vars == <<now, last, removed, nv, store, tindex, th, gc>>

NoEntry == [has |-> FALSE, v |-> 0, dl |-> 0]
Miss    == [hit |-> FALSE, v |-> 0, dl |-> 0]
Hit(v, dl) == [hit |-> TRUE, v |-> v, dl |-> dl]
Entry(v, dl) == [has |-> TRUE, v |-> v, dl |-> dl]

Min(a, b) == IF a < b THEN a ELSE b
Max(a, b) == IF a > b THEN a ELSE b

(* ------------------------------------------------------------------ property layer *)
AbsValOf(l, r, n, s) == IF l[s].has /\ ~r[s] /\ l[s].dl >= n THEN Hit(l[s].v, l[s].dl) ELSE Miss
AbsVal(s) == AbsValOf(last, removed, now, s)
AliveOf(l, r, n, s) == l[s].has /\ ~r[s] /\ l[s].dl >= n

\* what a load of entry e answers at time n (all back-ends: expired iff dl < n)
ValAt(e, n) == IF e.has /\ e.dl >= n THEN Hit(e.v, e.dl) ELSE Miss

HeldOf(st) == { s \in DOMAIN st : st[s].has }
ExpiredOf(st, n) == { s \in DOMAIN st : st[s].has /\ st[s].dl < n }

\* (b) as predicates over a mechanism view st, reused by StoreTrace.tla
LiveKeptP(st, l, r, n) == \A s \in DOMAIN st : AliveOf(l, r, n, s) => (st[s].has /\ st[s].v = l[s].v /\ st[s].dl = l[s].dl)
HeldSoundP(st, l, r)   == \A s \in DOMAIN st : st[s].has => (l[s].has /\ ~r[s] /\ st[s].v = l[s].v /\ st[s].dl = l[s].dl)

\* victims of one short_gc over view st at time n: the k = min(GcBatch, #expired) expired sessions with the
\* smallest deadlines (ties are free: the multimap keeps equal keys in insertion order)
VictimSets(st, n, batch) ==
    LET E == ExpiredOf(st, n)
        k == Min(batch, Cardinality(E))
    IN { R \in SUBSET E : /\ Cardinality(R) = k
                          /\ \A a \in R, b \in E \ R : st[a].dl <= st[b].dl }

(* ------------------------------------------------------------------ mechanism *)
Idle == [pc |-> "idle", op |-> "none", s |-> 0, v |-> 0, dl |-> 0, r |-> Miss, cands |-> {}, tmp |-> NoEntry]

Init ==
    /\ now = 0
    /\ last = [s \in Sids |-> NoEntry]
    /\ removed = [s \in Sids |-> FALSE]
    /\ nv = 0
    /\ store = [s \in Sids |-> NoEntry]
    /\ tindex = {}
    /\ th = [t \in Threads |-> Idle]
    /\ gc = [pc |-> "idle", todo |-> {}, snap |-> [s \in Sids |-> NoEntry], n0 |-> 0, cur |-> 0, exp |-> FALSE]

ExpiredCmp(dl, n) == IF Bug = "GcBoundary" THEN dl <= n ELSE dl < n

\* every load in flight on s sees the new abstract value as a candidate result
Observe(T, l, r, n) ==
    [t \in Threads |-> IF T[t].op = "load" /\ T[t].pc \in {"called", "mid"}
                       THEN [T[t] EXCEPT !.cands = @ \cup {AbsValOf(l, r, n, T[t].s)}]
                       ELSE T[t]]

Call(t, op, s, dl) ==
    /\ th[t].pc = "idle"
    /\ IF op = "save" THEN nv' = nv + 1 ELSE nv' = nv
    /\ th' = [th EXCEPT ![t] = [Idle EXCEPT !.pc = "called", !.op = op, !.s = s, !.dl = dl,
                                             !.v = IF op = "save" THEN nv + 1 ELSE 0,
                                             !.cands = IF op = "load" THEN {AbsVal(s)} ELSE {}]]
    /\ UNCHANGED <<now, last, removed, store, tindex, gc>>

(* short_gc of the memory storage over (st, ix): index entries in deadline order, at most GcBatch, each erases the *)
(* map node it points at (whatever that node holds now) and itself.                                                 *)
ShortGc(st, ix) ==
    IF Bug = "GcNever" THEN { <<st, ix>> }
    ELSE LET E == { e \in ix : ExpiredCmp(e[1], now) }
             k == Min(GcBatch, Cardinality(E))
         IN { <<[s \in Sids |-> IF \E e \in R : e[2] = s THEN NoEntry ELSE st[s]], ix \ R>> :
                 R \in { X \in SUBSET E : /\ Cardinality(X) = k
                                          /\ \A a \in X, b \in E \ X : a[1] <= b[1] } }

Finish(t, r, T) == [T EXCEPT ![t] = [@ EXCEPT !.pc = "done", !.r = r]]

LinSave(t) ==
    LET s == th[t].s
        e == Entry(th[t].v, th[t].dl)
        st1 == [store EXCEPT ![s] = e]
        l1 == [last EXCEPT ![s] = e]
        r1 == [removed EXCEPT ![s] = FALSE]
    IN /\ th[t].pc = "called" /\ th[t].op = "save"
       /\ last' = l1 /\ removed' = r1
       /\ IF Backend = "memory"
          THEN LET ix0 == IF store[s].has /\ Bug # "NoReindex" THEN tindex \ {<<store[s].dl, s>>} ELSE tindex
                   ix1 == ix0 \cup {<<e.dl, s>>}
               IN \E p \in ShortGc(st1, ix1) : store' = p[1] /\ tindex' = p[2]
          ELSE store' = st1 /\ tindex' = tindex
       /\ th' = Observe(Finish(t, Miss, th), l1, r1, now)
       /\ UNCHANGED <<now, nv, gc>>

LinRemove(t) ==
    LET s == th[t].s
        st1 == [store EXCEPT ![s] = NoEntry]
        r1 == [removed EXCEPT ![s] = TRUE]
    IN /\ th[t].pc = "called" /\ th[t].op = "remove"
       /\ removed' = r1
       /\ IF Backend = "memory"
          THEN IF store[s].has
               THEN \E p \in ShortGc(st1, tindex \ {<<store[s].dl, s>>}) : store' = p[1] /\ tindex' = p[2]
               ELSE store' = store /\ tindex' = tindex        \* `if(p==map_.end()) return;' - no short_gc
          ELSE store' = st1 /\ tindex' = tindex
       /\ th' = Observe(Finish(t, Miss, th), last, r1, now)
       /\ UNCHANGED <<now, last, nv, gc>>

\* the reply of the tcp server: `int toffset = timeout; if(toffset < 0) no_data'
TruncLoad(r) == IF Net /\ r.hit /\ r.dl > IntMax THEN Miss ELSE r

LinLoad(t) ==
    LET s == th[t].s
        e == store[s]
        r == IF Bug = "LoadNoExpiry" THEN (IF e.has THEN Hit(e.v, e.dl) ELSE Miss) ELSE ValAt(e, now)
    IN /\ th[t].pc = "called" /\ th[t].op = "load"
       /\ Bug # "LoadNoLock"
       /\ th' = Finish(t, TruncLoad(r), th)
       /\ IF Backend = "files" /\ e.has /\ ~r.hit
          THEN store' = [store EXCEPT ![s] = NoEntry]      \* D2: read_from_file failed -> unlink
          ELSE store' = store
       /\ UNCHANGED <<now, last, removed, nv, tindex, gc>>

\* seeded bug: the header (deadline) and the payload are read in two separate critical sections
LoadHdr(t) ==
    /\ Bug = "LoadNoLock" /\ Backend = "files"
    /\ th[t].pc = "called" /\ th[t].op = "load"
    /\ th' = [th EXCEPT ![t] = [@ EXCEPT !.pc = "mid", !.tmp = store[th[t].s]]]
    /\ UNCHANGED <<now, last, removed, nv, store, tindex, gc>>
LoadBody(t) ==
    LET s == th[t].s
        h == th[t].tmp
    IN /\ Bug = "LoadNoLock"
       /\ th[t].pc = "mid"
       /\ th' = Finish(t, IF h.has /\ h.dl >= now /\ store[s].has THEN Hit(store[s].v, h.dl) ELSE Miss, th)
       /\ UNCHANGED <<now, last, removed, nv, store, tindex, gc>>

Ret(t) ==
    /\ th[t].pc = "done"
    /\ th' = [th EXCEPT ![t] = Idle]
    /\ UNCHANGED <<now, last, removed, nv, store, tindex, gc>>

(* files: gc_job() = session_file_storage::gc(): readdir, then per file { lock; read_timestamp; unlink; unlock } *)
GcStart ==
    /\ Backend = "files"
    /\ gc.pc = "idle"
    /\ gc' = [gc EXCEPT !.pc = "scan", !.todo = HeldOf(store), !.snap = store, !.n0 = now]
    /\ UNCHANGED <<now, last, removed, nv, store, tindex, th>>
GcFile(s) ==
    /\ gc.pc = "scan" /\ s \in gc.todo /\ Bug # "GcNoLock"
    /\ store' = IF store[s].has /\ ExpiredCmp(store[s].dl, now) THEN [store EXCEPT ![s] = NoEntry] ELSE store
    /\ gc' = [gc EXCEPT !.todo = @ \ {s}]
    /\ UNCHANGED <<now, last, removed, nv, tindex, th>>
GcPeek(s) ==      \* seeded bug: stamp read ...
    /\ gc.pc = "scan" /\ s \in gc.todo /\ Bug = "GcNoLock"
    /\ gc' = [gc EXCEPT !.pc = "peeked", !.cur = s, !.exp = store[s].has /\ ExpiredCmp(store[s].dl, now)]
    /\ UNCHANGED <<now, last, removed, nv, store, tindex, th>>
GcUnlink ==       \* ... and the unlink in another critical section
    /\ gc.pc = "peeked"
    /\ store' = IF gc.exp THEN [store EXCEPT ![gc.cur] = NoEntry] ELSE store
    /\ gc' = [gc EXCEPT !.pc = "scan", !.todo = @ \ {gc.cur}]
    /\ UNCHANGED <<now, last, removed, nv, tindex, th>>
GcEnd ==
    /\ gc.pc = "scan" /\ gc.todo = {}
    /\ gc' = [gc EXCEPT !.pc = "idle", !.snap = [s \in Sids |-> NoEntry], !.n0 = 0]
    /\ UNCHANGED <<now, last, removed, nv, store, tindex, th>>

Tick ==
    /\ now' = now + 1
    /\ th' = Observe(th, last, removed, now + 1)
    /\ UNCHANGED <<last, removed, nv, store, tindex, gc>>

Next ==
    \/ \E t \in Threads, s \in Sids :
          \/ \E dl \in Deadlines : Call(t, "save", s, dl)
          \/ Call(t, "load", s, 0)
          \/ Call(t, "remove", s, 0)
    \/ \E t \in Threads : LinSave(t) \/ LinRemove(t) \/ LinLoad(t) \/ LoadHdr(t) \/ LoadBody(t) \/ Ret(t)
    \/ GcStart \/ (\E s \in Sids : GcFile(s) \/ GcPeek(s)) \/ GcUnlink \/ GcEnd
    \/ Tick

Spec == Init /\ [][Next]_vars

Bounded == now <= MaxNow /\ nv <= MaxSaves

(* ------------------------------------------------------------------ properties *)
TypeOK ==
    /\ now \in Nat /\ nv \in Nat
    /\ \A s \in Sids : store[s].has => store[s].dl \in Deadlines
    /\ \A t \in Threads : th[t].pc \in {"idle", "called", "mid", "done"}

LoadCorrect ==
    \A t \in Threads : (th[t].pc = "done" /\ th[t].op = "load") => th[t].r \in th[t].cands

LiveKept  == LiveKeptP(store, last, removed, now)
HeldSound == HeldSoundP(store, last, removed)

IndexConsistent ==
    Backend = "memory" => tindex = { <<store[s].dl, s>> : s \in HeldOf(store) }

MemGcProgress ==
    [][ (Backend = "memory" /\ \E t \in Threads : th[t].pc = "called" /\ th'[t].pc = "done" /\ th[t].op \in {"save", "remove"}
                                                    /\ (th[t].op = "remove" => store[th[t].s].has)) =>
           LET t  == CHOOSE u \in Threads : th[u].pc = "called" /\ th'[u].pc = "done"
               s  == th[t].s
               st1 == IF th[t].op = "save" THEN [store EXCEPT ![s] = Entry(th[t].v, th[t].dl)] ELSE [store EXCEPT ![s] = NoEntry]
               E  == ExpiredOf(st1, now)
               gone == HeldOf(st1) \ HeldOf(store')
           IN /\ gone \in VictimSets(st1, now, GcBatch)
              /\ Cardinality(ExpiredOf(store', now)) = Max(0, Cardinality(E) - GcBatch)
      ]_vars

FileGcComplete ==
    [][ (gc.pc = "scan" /\ gc'.pc = "idle") =>
           \A s \in Sids : ~(gc.snap[s].has /\ gc.snap[s].dl < gc.n0 /\ store'[s] = gc.snap[s]) ]_vars

\* only an explicit remove, an overwrite or expiry makes a session disappear
OnlyExpiredVanish ==
    [][ \A s \in Sids : (store[s].has /\ ~store'[s].has) =>
            \/ store[s].dl < now
            \/ \E t \in Threads : th[t].pc = "called" /\ th'[t].pc = "done" /\ th[t].s = s /\ th[t].op \in {"remove", "save"} ]_vars
=============================================================================
