---- MODULE Cookie_TTrace_1790462770 ----
EXTENDS Cookie, Sequences, TLCExt, Toolbox, Naturals, TLC

_expression ==
    LET Cookie_TEExpression == INSTANCE Cookie_TEExpression
    IN Cookie_TEExpression!expression
----

_trace ==
    LET Cookie_TETrace == INSTANCE Cookie_TETrace
    IN Cookie_TETrace!trace
----

_inv ==
    ~(
        TLCGet("level") = Len(_TETrace)
        /\
        nder = (0)
        /\
        res = ([p |-> 2, dl |-> 0, cfg |-> 2, op |-> "save", ok |-> FALSE, cleared |-> FALSE, ck |-> [t |-> [iv |-> 1, body |-> [p |-> 2, dl |-> 0, iv0 |-> 1, dmg |-> 0], shape |-> "ok", mac |-> <<2, 1, [p |-> 2, dl |-> 0, iv0 |-> 1, dmg |-> 0], "ok">>], first |-> TRUE, enc |-> "canon"]])
        /\
        known = ({[t |-> [iv |-> 1, body |-> [p |-> 2, dl |-> 0, iv0 |-> 1, dmg |-> 0], shape |-> "ok", mac |-> <<2, 1, [p |-> 2, dl |-> 0, iv0 |-> 1, dmg |-> 0], "ok">>], first |-> TRUE, enc |-> "canon"]})
        /\
        now = (0)
        /\
        issued = (<<{}, {[p |-> 2, dl |-> 0, t |-> [iv |-> 1, body |-> [p |-> 2, dl |-> 0, iv0 |-> 1, dmg |-> 0], shape |-> "ok", mac |-> <<2, 1, [p |-> 2, dl |-> 0, iv0 |-> 1, dmg |-> 0], "ok">>], n |-> 1], [p |-> 2, dl |-> 0, t |-> [iv |-> 1, body |-> [p |-> 2, dl |-> 0, iv0 |-> 1, dmg |-> 0], shape |-> "ok", mac |-> <<2, 1, [p |-> 2, dl |-> 0, iv0 |-> 1, dmg |-> 0], "ok">>], n |-> 2]}>>)
        /\
        nsaves = (2)
    )
----

_init ==
    /\ now = _TETrace[1].now
    /\ issued = _TETrace[1].issued
    /\ res = _TETrace[1].res
    /\ nder = _TETrace[1].nder
    /\ nsaves = _TETrace[1].nsaves
    /\ known = _TETrace[1].known
----

_next ==
    /\ \E i,j \in DOMAIN _TETrace:
        /\ \/ /\ j = i + 1
              /\ i = TLCGet("level")
        /\ now  = _TETrace[i].now
        /\ now' = _TETrace[j].now
        /\ issued  = _TETrace[i].issued
        /\ issued' = _TETrace[j].issued
        /\ res  = _TETrace[i].res
        /\ res' = _TETrace[j].res
        /\ nder  = _TETrace[i].nder
        /\ nder' = _TETrace[j].nder
        /\ nsaves  = _TETrace[i].nsaves
        /\ nsaves' = _TETrace[j].nsaves
        /\ known  = _TETrace[i].known
        /\ known' = _TETrace[j].known

\* Uncomment the ASSUME below to write the states of the error trace
\* to the given file in Json format. Note that you can pass any tuple
\* to `JsonSerialize`. For example, a sub-sequence of _TETrace.
    \* ASSUME
    \*     LET J == INSTANCE Json
    \*         IN J!JsonSerialize("Cookie_TTrace_1790462770.json", _TETrace)

=============================================================================

 Note that you can extract this module `Cookie_TEExpression`
  to a dedicated file to reuse `expression` (the module in the 
  dedicated `Cookie_TEExpression.tla` file takes precedence 
  over the module `Cookie_TEExpression` below).

---- MODULE Cookie_TEExpression ----
EXTENDS Cookie, Sequences, TLCExt, Toolbox, Naturals, TLC

expression == 
    [
        \* To hide variables of the `Cookie` spec from the error trace,
        \* remove the variables below.  The trace will be written in the order
        \* of the fields of this record.
        now |-> now
        ,issued |-> issued
        ,res |-> res
        ,nder |-> nder
        ,nsaves |-> nsaves
        ,known |-> known
        
        \* Put additional constant-, state-, and action-level expressions here:
        \* ,_stateNumber |-> _TEPosition
        \* ,_nowUnchanged |-> now = now'
        
        \* Format the `now` variable as Json value.
        \* ,_nowJson |->
        \*     LET J == INSTANCE Json
        \*     IN J!ToJson(now)
        
        \* Lastly, you may build expressions over arbitrary sets of states by
        \* leveraging the _TETrace operator.  For example, this is how to
        \* count the number of times a spec variable changed up to the current
        \* state in the trace.
        \* ,_nowModCount |->
        \*     LET F[s \in DOMAIN _TETrace] ==
        \*         IF s = 1 THEN 0
        \*         ELSE IF _TETrace[s].now # _TETrace[s-1].now
        \*             THEN 1 + F[s-1] ELSE F[s-1]
        \*     IN F[_TEPosition - 1]
    ]

=============================================================================



Parsing and semantic processing can take forever if the trace below is long.
 In this case, it is advised to uncomment the module below to deserialize the
 trace from a generated binary file.

\*
\*---- MODULE Cookie_TETrace ----
\*EXTENDS Cookie, IOUtils, TLC
\*
\*trace == IODeserialize("Cookie_TTrace_1790462770.bin", TRUE)
\*
\*=============================================================================
\*

---- MODULE Cookie_TETrace ----
EXTENDS Cookie, TLC

trace == 
    <<
    ([nder |-> 0,res |-> [p |-> 0, dl |-> 0, cfg |-> 1, op |-> "none", ok |-> FALSE, cleared |-> FALSE, ck |-> [t |-> [iv |-> 0, body |-> [p |-> 0, dl |-> 0, iv0 |-> 0, dmg |-> 0], shape |-> "ok", mac |-> <<1, 0, [p |-> 0, dl |-> 0, iv0 |-> 0, dmg |-> 0], "ok">>], first |-> TRUE, enc |-> "canon"]],known |-> {},now |-> 0,issued |-> <<{}, {}>>,nsaves |-> 0]),
    ([nder |-> 0,res |-> [p |-> 2, dl |-> 0, cfg |-> 2, op |-> "save", ok |-> FALSE, cleared |-> FALSE, ck |-> [t |-> [iv |-> 1, body |-> [p |-> 2, dl |-> 0, iv0 |-> 1, dmg |-> 0], shape |-> "ok", mac |-> <<2, 1, [p |-> 2, dl |-> 0, iv0 |-> 1, dmg |-> 0], "ok">>], first |-> TRUE, enc |-> "canon"]],known |-> {[t |-> [iv |-> 1, body |-> [p |-> 2, dl |-> 0, iv0 |-> 1, dmg |-> 0], shape |-> "ok", mac |-> <<2, 1, [p |-> 2, dl |-> 0, iv0 |-> 1, dmg |-> 0], "ok">>], first |-> TRUE, enc |-> "canon"]},now |-> 0,issued |-> <<{}, {[p |-> 2, dl |-> 0, t |-> [iv |-> 1, body |-> [p |-> 2, dl |-> 0, iv0 |-> 1, dmg |-> 0], shape |-> "ok", mac |-> <<2, 1, [p |-> 2, dl |-> 0, iv0 |-> 1, dmg |-> 0], "ok">>], n |-> 1]}>>,nsaves |-> 1]),
    ([nder |-> 0,res |-> [p |-> 2, dl |-> 0, cfg |-> 2, op |-> "save", ok |-> FALSE, cleared |-> FALSE, ck |-> [t |-> [iv |-> 1, body |-> [p |-> 2, dl |-> 0, iv0 |-> 1, dmg |-> 0], shape |-> "ok", mac |-> <<2, 1, [p |-> 2, dl |-> 0, iv0 |-> 1, dmg |-> 0], "ok">>], first |-> TRUE, enc |-> "canon"]],known |-> {[t |-> [iv |-> 1, body |-> [p |-> 2, dl |-> 0, iv0 |-> 1, dmg |-> 0], shape |-> "ok", mac |-> <<2, 1, [p |-> 2, dl |-> 0, iv0 |-> 1, dmg |-> 0], "ok">>], first |-> TRUE, enc |-> "canon"]},now |-> 0,issued |-> <<{}, {[p |-> 2, dl |-> 0, t |-> [iv |-> 1, body |-> [p |-> 2, dl |-> 0, iv0 |-> 1, dmg |-> 0], shape |-> "ok", mac |-> <<2, 1, [p |-> 2, dl |-> 0, iv0 |-> 1, dmg |-> 0], "ok">>], n |-> 1], [p |-> 2, dl |-> 0, t |-> [iv |-> 1, body |-> [p |-> 2, dl |-> 0, iv0 |-> 1, dmg |-> 0], shape |-> "ok", mac |-> <<2, 1, [p |-> 2, dl |-> 0, iv0 |-> 1, dmg |-> 0], "ok">>], n |-> 2]}>>,nsaves |-> 2])
    >>
----


=============================================================================

---- CONFIG Cookie_TTrace_1790462770 ----
CONSTANTS
    Cfgs = { 1 , 2 }
    AesCfgs = { 2 }
    Pay = { 1 , 2 }
    Deadlines = { 0 , 1 , 3 }
    MaxNow = 2
    MaxSaves = 2
    MaxDerive = 2
    MacCoversIv = TRUE
    FreshIv = FALSE

INVARIANT
    _inv

CHECK_DEADLOCK
    \* CHECK_DEADLOCK off because of PROPERTY or INVARIANT above.
    FALSE

INIT
    _init

NEXT
    _next

CONSTANT
    _TETrace <- _trace

ALIAS
    _expression
=============================================================================
\* Generated on Sat Sep 26 22:46:12 UTC 2026