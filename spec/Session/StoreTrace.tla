----------------------------- MODULE StoreTrace -----------------------------
(* Leg B of G03, sequential histories.  harness/sessstore/store_drv.cpp (mode seq) drives one real back-end    *)
(* (memory / files / tcp client -> real in-process server -> memory|files) through save, load, remove, gc_job   *)
(* and clock advances and writes after every call what the back-end holds: "m" = [{s,v,dl,ip}] (map nodes or    *)
(* session files; for tcp the server side) and, for the memory storage, "ix" = [{dl,mp,g}] = its timeout index (g = server).   *)
(* A trace is accepted iff                                                                                      *)
(*  (a) every Load answers exactly AbsVal(s) of Store.tla (latest save, not removed, deadline >= now)           *)
(*  (b) after every call  LiveKeptP (no alive session is missing or altered)  and  HeldSoundP (nothing but the  *)
(*      latest, not removed save of a sid is held); the memory index mirrors the map (same size, every node's   *)
(*      timeout_ptr points at an index entry with the node's deadline that points back, index sorted);          *)
(*      memory: a save that leaves expired entries behind its own update removes at least one of them;          *)
(*      files: after gc_job() (and after the server's own gc thread had its period: SrvGc) no expired file is   *)
(*      left.                                                                                                   *)
(* Strict = TRUE adds the mechanism of the code as it is today (exact short_gc batch and victim order in save   *)
(* and remove, nothing else ever disappears except the file an unsuccessful load unlinks, interface flags):     *)
(* a rejection that only the strict layer makes is MODEL-DRIFT, not a violation.                                *)
EXTENDS Store, TraceBase

CONSTANT Strict
VARIABLES l, be
tvars == <<vars, l, be>>

Ev == TraceLog[l]
Is(name) == l <= NLines /\ Ev.e = name /\ l' = l + 1

M  == Ev.m
ViewSids == { M[i].s : i \in DOMAIN M }
ViewWF == Cardinality(ViewSids) = Len(M) /\ ViewSids \subseteq Sids
NewStore == [s \in Sids |-> IF s \in ViewSids
                            THEN LET i == CHOOSE j \in DOMAIN M : M[j].s = s IN Entry(M[i].v, M[i].dl)
                            ELSE NoEntry]

IndexOK ==
    be.mem => /\ Has(Ev, "ix")
              /\ Len(Ev.ix) = Len(M)
              /\ \A i \in DOMAIN M : /\ (M[i].ip + 1) \in DOMAIN Ev.ix
                                     /\ Ev.ix[M[i].ip + 1].mp = i - 1
                                     /\ Ev.ix[M[i].ip + 1].dl = M[i].dl
              /\ \A j \in 1..(Len(Ev.ix) - 1) : (Ev.ix[j].g = Ev.ix[j + 1].g => Ev.ix[j].dl <= Ev.ix[j + 1].dl)

\* st1 = what the back-end held before, with the call's own effect applied; (l1, r1, n1) = the new abstract state
Gone(st1) == HeldOf(st1) \ HeldOf(NewStore)

Common(l1, r1, n1, st1) ==
    /\ ViewWF
    /\ IndexOK
    /\ LiveKeptP(NewStore, l1, r1, n1)
    /\ HeldSoundP(NewStore, l1, r1)
    /\ Gone(st1) \subseteq ExpiredOf(st1, n1)           \* implied by the two above; kept as the literal wording of (b)
    /\ Strict => HeldOf(NewStore) \subseteq HeldOf(st1)
    /\ store' = NewStore
    /\ last' = l1 /\ removed' = r1 /\ now' = n1
    /\ UNCHANGED <<nv, tindex, th, gc, be>>

\* two memory servers (tcpmem2): every storage object runs short_gc over its own sessions only; place[s] = owner of s
Owner(s) == IF s \in DOMAIN be.place THEN be.place[s] ELSE -1
OwnPart(st, s) == [x \in Sids |-> IF Owner(x) = Owner(s) THEN st[x] ELSE NoEntry]

Quiet(st1) == Strict => (be.bggc \/ Gone(st1) = {})     \* nothing disappears in this call (a server gc thread excepted)

TReset ==
    /\ Is("Reset") /\ Ev.mode = "seq"
    /\ now' = 0
    /\ last' = [s \in Sids |-> NoEntry] /\ removed' = [s \in Sids |-> FALSE]
    /\ store' = [s \in Sids |-> NoEntry]
    /\ be' = [name |-> Ev.be, mem |-> Ev.mem, bggc |-> Ev.bggc, place |-> Ev.place]
    /\ Strict => \/ (Ev.be = "mem" /\ ~Ev.rgc /\ ~Ev.blk)
                 \/ (Ev.be = "file" /\ Ev.rgc /\ ~Ev.blk)
                 \/ (Ev.be = "fileflock" /\ Ev.rgc /\ Ev.blk)
                 \/ (Ev.be \in {"tcpmem", "tcpmem2", "tcpfile"} /\ ~Ev.rgc /\ Ev.blk)
    /\ UNCHANGED <<nv, tindex, th, gc>>

TSave ==
    /\ Is("Save")
    /\ LET s == Ev.s
           e == Entry(Ev.v, Ev.dl)
           st1 == [store EXCEPT ![s] = e]
       IN /\ s \in Sids
          /\ Common([last EXCEPT ![s] = e], [removed EXCEPT ![s] = FALSE], now, st1)
          /\ be.mem => (ExpiredOf(OwnPart(st1, s), now) # {} => Gone(st1) # {})
          /\ (Strict /\ be.mem) => Gone(st1) \in VictimSets(OwnPart(st1, s), now, GcBatch)
          /\ ~be.mem => Quiet(st1)

TLoad ==
    /\ Is("Load")
    /\ LET s == Ev.s
           r == AbsVal(s)
       IN /\ s \in Sids
          /\ Ev.hit = r.hit
          /\ Ev.hit => (Ev.v = r.v /\ Ev.dl = r.dl)
          /\ Common(last, removed, now, store)
          /\ Strict => (be.bggc \/ Gone(store) \subseteq (IF be.mem THEN {} ELSE {s}))

TRemove ==
    /\ Is("Remove")
    /\ LET s == Ev.s
           st1 == [store EXCEPT ![s] = NoEntry]
       IN /\ s \in Sids
          /\ Common(last, [removed EXCEPT ![s] = TRUE], now, st1)
          /\ (Strict /\ be.mem /\ store[s].has) => Gone(st1) \in VictimSets(OwnPart(st1, s), now, GcBatch)
          /\ ~(be.mem /\ store[s].has) => Quiet(st1)

TGc ==
    /\ Is("Gc")
    /\ Common(last, removed, now, store)
    /\ ~be.mem => ExpiredOf(NewStore, now) = {}
    /\ be.mem => Quiet(store)

TSrvGc ==      \* tcp -> files: the server's garbage_collector thread had (much more than) its period
    /\ Is("SrvGc")
    /\ Common(last, removed, now, store)
    /\ ExpiredOf(NewStore, now) = {}

TTick ==
    /\ Is("Tick") /\ Ev.d > 0
    /\ Common(last, removed, now + Ev.d, store)
    /\ Quiet(store)

TraceInit == Init /\ l = 1 /\ be = [name |-> "none", mem |-> FALSE, bggc |-> FALSE, place |-> <<>>]
TraceNext == TReset \/ TSave \/ TLoad \/ TRemove \/ TGc \/ TSrvGc \/ TTick
TraceSpec == TraceInit /\ [][TraceNext]_tvars
=============================================================================
