------------------------------ MODULE Archive ------------------------------
(***************************************************************************)
(* C19 - cppcms::archive and the archive_traits built on it.               *)
(*                                                                         *)
(* An archive is a byte sequence made of chunks  [len : u32 LE][payload];  *)
(* a reader walks it with a cursor `ptr' (0-based offset of the next       *)
(* chunk).  The module defines                                             *)
(*   - the chunk operations NextChunkSize / ReadString / ReadChunk(len)    *)
(*     with the SAFETY GUARD AS THE PROPERTY DEMANDS: a read succeeds only *)
(*     if  ptr + 4 + size <= Len(buffer)  (written with subtractions so    *)
(*     that no sum can wrap);                                              *)
(*   - Save(t, v) / Load(t, buf, ptr) for a type universe                  *)
(*        t ::= u8 | i32 | i64 | f64 | str | json | podvec<u8|i32|i64>     *)
(*            | seq<t> (vector, list) | set<t> | map<t,t> | pair<t,t>      *)
(*            | mmap<t,t> (std::multimap) | mset<t> (std::multiset; `by' =  *)
(*              0: ordered by the element, i: by field i of a struct)       *)
(*            | ptr<t> (null / value) | struct<t,...>                       *)
(*     (the wire format of cppcms/archive_traits.h);                       *)
(*   - two TLC-explorable machines over these operators (Leg D):           *)
(*       SpecV : every value of a bounded universe is saved, loaded back,  *)
(*               and every strict truncation of its archive is loaded too  *)
(*               (RoundTrip, TruncFails, LoadInBounds);                    *)
(*       SpecC : every archive of <= MaxChunks chunks with one length      *)
(*               field replaced by a boundary value and every truncation   *)
(*               is read by every sequence of chunk operations             *)
(*               (InBounds, DataIsSlice, FailClean).                       *)
(*                                                                         *)
(* Lengths >= 2^31 cannot be TLC integers; they are abstracted to BIG      *)
(* ("larger than any buffer considered"), which is exact for the guard     *)
(* because buffers stay far below 2^31 bytes.                              *)
(*                                                                         *)
(* GuardMode = "safe" is the specification.  GuardMode = "c717" is the     *)
(* comparison found in src/archive.cpp at the pinned commit                *)
(* (ptr + size >= size() rejects); it exists only for the self-test that   *)
(* shows the model sees that defect (InBounds is violated under it).       *)
(***************************************************************************)
EXTENDS Integers, Sequences, FiniteSets, TLC

CONSTANTS GuardMode,    \* "safe" | "c717"
          Depth,        \* Leg D (SpecV): type nesting depth 1 | 2
          Width,        \* Leg D (SpecV): container width bound
          Rich,         \* Leg D (SpecV): TRUE = pairs/structs/maps over all inner types
          TruncAll,     \* Leg D (SpecV): TRUE = also load every strict prefix of every archive
          MaxChunks,    \* Leg D (SpecC): chunks per archive
          ChunkLens     \* Leg D (SpecC): payload lengths offered

VARIABLES phase,        \* "v0" value chosen | "v1" loaded | "c" chunk machine
          ty, val,      \* SpecV: type and value
          buf, ptr,     \* the archive and the cursor (0-based)
          last          \* result of the last operation

vars == <<phase, ty, val, buf, ptr, last>>

---------------------------------------------------------------------------
(* bytes and integers *)
BIG   == 2147483647
Pow24 == 16777216
Outside == 256                  \* poison: "a byte that is not part of the buffer"

LE32(n) == <<n % 256, (n \div 256) % 256, (n \div 65536) % 256, n \div Pow24>>   \* 0 <= n < 2^31
LE64(n) == LE32(n) \o <<0, 0, 0, 0>>

\* unsigned 32-bit field at 0-based offset p; values >= 2^31 become BIG
U32At(b, p) == IF b[p + 4] >= 128 THEN BIG
               ELSE b[p + 1] + 256 * b[p + 2] + 65536 * b[p + 3] + Pow24 * b[p + 4]

\* size_t count (8 bytes LE) as written by archive_traits<size_t>
CountOf(d) == IF d[5] # 0 \/ d[6] # 0 \/ d[7] # 0 \/ d[8] # 0 THEN BIG ELSE U32At(d, 0)

I32Bytes(v) == LET w == IF v >= 0 THEN v ELSE (v + 2147483647) + 1
               IN <<w % 256, (w \div 256) % 256, (w \div 65536) % 256,
                    (w \div Pow24) + (IF v < 0 THEN 128 ELSE 0)>>
I32Of(b) == LET w == b[1] + 256 * b[2] + 65536 * b[3] + Pow24 * (b[4] % 128)
            IN IF b[4] >= 128 THEN (w - 2147483647) - 1 ELSE w

RECURSIVE Flatten(_)
Flatten(ss) == IF Len(ss) = 0 THEN <<>> ELSE Head(ss) \o Flatten(Tail(ss))

At(b, i) == IF i >= 1 /\ i <= Len(b) THEN b[i] ELSE Outside
Slice(b, off, n) == [i \in 1..n |-> At(b, off + i)]     \* n bytes from 0-based offset off

---------------------------------------------------------------------------
(* chunk layer *)

\* THE guard.  n = Len(buffer).
Fits(p, size, n) ==
    IF GuardMode = "safe"
    THEN n - p >= 4 /\ size <= (n - p) - 4
    ELSE p < n /\ n - p >= 4 /\ size < n - p

\* what the property calls "inside the archive"
InArchive(p, size, n) == n - p >= 4 /\ size <= (n - p) - 4

\* how far a read of `size' payload bytes at p reaches beyond a buffer of n bytes (0 = inside)
Over(p, size, n) == IF n - p >= 4 /\ size <= (n - p) - 4 THEN 0
                    ELSE IF size = BIG THEN BIG ELSE (p + 4 + size) - n

NextChunkSize(b, p) ==
    IF p >= Len(b) THEN [ok |-> FALSE, why |-> "eof", size |-> 0, over |-> 0]
    ELSE IF Len(b) - p < 4 THEN [ok |-> FALSE, why |-> "bounds", size |-> 0, over |-> (p + 4) - Len(b)]
    ELSE LET s == U32At(b, p)
         IN IF Fits(p, s, Len(b)) THEN [ok |-> TRUE, why |-> "", size |-> s, over |-> 0]
            ELSE [ok |-> FALSE, why |-> "bounds", size |-> s, over |-> Over(p, s, Len(b))]

ReadString(b, p) ==
    LET r == NextChunkSize(b, p)
    IN IF r.ok THEN [ok |-> TRUE, why |-> "", size |-> r.size, data |-> Slice(b, p + 4, r.size), np |-> p + 4 + r.size, over |-> 0]
       ELSE [ok |-> FALSE, why |-> r.why, size |-> r.size, data |-> <<>>, np |-> p, over |-> r.over]

ReadChunk(b, p, len) ==
    LET r == NextChunkSize(b, p)
    IN IF ~r.ok THEN [ok |-> FALSE, why |-> r.why, size |-> r.size, data |-> <<>>, np |-> p, over |-> r.over]
       ELSE IF r.size # len THEN [ok |-> FALSE, why |-> "format", size |-> r.size, data |-> <<>>, np |-> p, over |-> 0]
       ELSE [ok |-> TRUE, why |-> "", size |-> len, data |-> Slice(b, p + 4, len), np |-> p + 4 + len, over |-> 0]

Chunk(p) == LE32(Len(p)) \o p

---------------------------------------------------------------------------
(* value layer: Save *)
PodWidth(t) == CASE t.k = "u8" -> 1 [] t.k = "i32" -> 4 [] OTHER -> 8
PodBytes(t, v) == CASE t.k = "u8" -> <<v>> [] t.k = "i32" -> I32Bytes(v) [] OTHER -> v
PodOf(t, d) == CASE t.k = "u8" -> d[1] [] t.k = "i32" -> I32Of(d) [] OTHER -> d

RECURSIVE Save(_, _)
Save(t, v) ==
    CASE t.k \in {"u8", "i32", "i64", "f64"} -> Chunk(PodBytes(t, v))
      [] t.k \in {"str", "json"} -> Chunk(v)
      [] t.k = "podvec" -> Chunk(Flatten([i \in 1..Len(v) |-> PodBytes(t.t, v[i])]))
      [] t.k \in {"seq", "set", "mset"} ->
            Chunk(LE64(Len(v))) \o Flatten([i \in 1..Len(v) |-> Save(t.t, v[i])])
      [] t.k \in {"map", "mmap"} ->
            Chunk(LE64(Len(v))) \o Flatten([i \in 1..Len(v) |-> Save(t.a, v[i][1]) \o Save(t.b, v[i][2])])
      [] t.k = "pair" -> Save(t.a, v[1]) \o Save(t.b, v[2])
      [] t.k = "ptr" -> IF v.null THEN Chunk(<<1>>) ELSE Chunk(<<0>>) \o Save(t.t, v.v)
      [] t.k = "struct" -> Flatten([i \in 1..Len(t.fs) |-> Save(t.fs[i], v[i])])

---------------------------------------------------------------------------
(* value layer: Load.  Result [ok, why, v, ptr, over].                      *)
(* why: "eof"/"bounds" = the archive ends before the data the type needs;   *)
(*      "format" = a chunk has the wrong length for the type.               *)
Good(v, p)         == [ok |-> TRUE, why |-> "", v |-> v, np |-> p, over |-> 0]
Bad(why, p, over)  == [ok |-> FALSE, why |-> why, v |-> <<>>, np |-> p, over |-> over]

\* order of keys / set elements (std::less on int, unsigned char, std::string)
RECURSIVE BytesLess(_, _)
BytesLess(a, b) == IF Len(b) = 0 THEN FALSE
                   ELSE IF Len(a) = 0 THEN TRUE
                   ELSE IF a[1] # b[1] THEN a[1] < b[1]
                   ELSE BytesLess(Tail(a), Tail(b))
Less(t, a, b) == IF t.k = "str" THEN BytesLess(a, b) ELSE a < b

\* insert x into the sorted duplicate-free sequence s (std::set::insert: an equal element stays)
RECURSIVE SetInsert(_, _, _)
SetInsert(t, s, x) == IF Len(s) = 0 THEN <<x>>
                      ELSE IF s[1] = x THEN s
                      ELSE IF Less(t, x, s[1]) THEN <<x>> \o s
                      ELSE <<s[1]>> \o SetInsert(t, Tail(s), x)
\* std::map::insert(pair): an existing key keeps its value
RECURSIVE MapInsert(_, _, _)
MapInsert(t, s, kv) == IF Len(s) = 0 THEN <<kv>>
                       ELSE IF s[1][1] = kv[1] THEN s
                       ELSE IF Less(t, kv[1], s[1][1]) THEN <<kv>> \o s
                       ELSE <<s[1]>> \o MapInsert(t, Tail(s), kv)

\* std::multimap / std::multiset: an element goes behind every element whose key is not greater
\* (C++11 23.2.4: insert(value) puts it at the upper bound of its equivalence range), so a multi-container
\* is a SEQUENCE in key order, stable among equivalent keys; Save writes it in that order and Load must
\* reproduce it.  by = 0: the element is its own key, by = i: component i (pair: 1 = the key).
BagKey(by, x) == IF by = 0 THEN x ELSE x[by]
RECURSIVE BagInsert(_, _, _, _)
BagInsert(kt, by, s, x) == IF Len(s) = 0 THEN <<x>>
                           ELSE IF Less(kt, BagKey(by, x), BagKey(by, s[1])) THEN <<x>> \o s
                           ELSE <<s[1]>> \o BagInsert(kt, by, Tail(s), x)
RECURSIVE FoldBag(_, _, _, _, _)
FoldBag(kt, by, s, i, acc) == IF i > Len(s) THEN acc ELSE FoldBag(kt, by, s, i + 1, BagInsert(kt, by, acc, s[i]))
MsetKeyType(t) == IF t.by = 0 THEN t.t ELSE t.t.fs[t.by]

RECURSIVE Load(_, _, _), LoadN(_, _, _, _, _), LoadFields(_, _, _, _, _)

\* n elements of type t one after the other (n may be BIG: then the archive ends first)
LoadN(t, b, p, n, acc) ==
    IF n = 0 THEN Good(acc, p)
    ELSE LET r == Load(t, b, p)
         IN IF ~r.ok THEN r
            ELSE LoadN(t, b, r.np, n - 1, Append(acc, r.v))

LoadFields(fs, i, b, p, acc) ==
    IF i > Len(fs) THEN Good(acc, p)
    ELSE LET r == Load(fs[i], b, p)
         IN IF ~r.ok THEN r
            ELSE LoadFields(fs, i + 1, b, r.np, Append(acc, r.v))

RECURSIVE FoldSet(_, _, _, _), FoldMap(_, _, _, _)
FoldSet(t, s, i, acc) == IF i > Len(s) THEN acc ELSE FoldSet(t, s, i + 1, SetInsert(t, acc, s[i]))
FoldMap(t, s, i, acc) == IF i > Len(s) THEN acc ELSE FoldMap(t, s, i + 1, MapInsert(t, acc, s[i]))

Load(t, b, p) ==
    CASE t.k \in {"u8", "i32", "i64", "f64"} ->
            LET r == ReadChunk(b, p, PodWidth(t))
            IN IF r.ok THEN Good(PodOf(t, r.data), r.np) ELSE Bad(r.why, p, r.over)
      [] t.k \in {"str", "json"} ->
            LET r == ReadString(b, p)
            IN IF r.ok THEN Good(r.data, r.np) ELSE Bad(r.why, p, r.over)
      [] t.k = "podvec" ->
            LET s == NextChunkSize(b, p)
                w == PodWidth(t.t)
            IN IF ~s.ok THEN Bad(s.why, p, s.over)
               ELSE IF s.size % w # 0 THEN Bad("format", p, 0)
               ELSE LET d == Slice(b, p + 4, s.size)
                    IN Good([i \in 1..(s.size \div w) |-> PodOf(t.t, [j \in 1..w |-> d[(i - 1) * w + j]])], p + 4 + s.size)
      [] t.k \in {"seq", "set", "mset"} ->
            LET c == ReadChunk(b, p, 8)
            IN IF ~c.ok THEN Bad(c.why, p, c.over)
               ELSE LET r == LoadN(t.t, b, c.np, CountOf(c.data), <<>>)
                    IN IF ~r.ok THEN r
                       ELSE IF t.k = "seq" THEN r
                       ELSE IF t.k = "set" THEN Good(FoldSet(t.t, r.v, 1, <<>>), r.np)
                       ELSE Good(FoldBag(MsetKeyType(t), t.by, r.v, 1, <<>>), r.np)
      [] t.k \in {"map", "mmap"} ->
            LET c == ReadChunk(b, p, 8)
            IN IF ~c.ok THEN Bad(c.why, p, c.over)
               ELSE LET r == LoadN([k |-> "pair", a |-> t.a, b |-> t.b], b, c.np, CountOf(c.data), <<>>)
                    IN IF ~r.ok THEN r
                       ELSE IF t.k = "map" THEN Good(FoldMap(t.a, r.v, 1, <<>>), r.np)
                       ELSE Good(FoldBag(t.a, 1, r.v, 1, <<>>), r.np)
      [] t.k = "pair" -> LoadFields(<<t.a, t.b>>, 1, b, p, <<>>)
      [] t.k = "ptr" ->
            LET f == ReadChunk(b, p, 1)
            IN IF ~f.ok THEN Bad(f.why, p, f.over)
               ELSE IF f.data[1] # 0 THEN Good([null |-> TRUE], f.np)
               ELSE LET r == Load(t.t, b, f.np)
                    IN IF ~r.ok THEN r ELSE Good([null |-> FALSE, v |-> r.v], r.np)
      [] t.k = "struct" -> LoadFields(t.fs, 1, b, p, <<>>)

\* does the type contain a multi-container (order among equivalent keys matters)?
RECURSIVE HasBag(_)
HasBag(t) == CASE t.k \in {"mmap", "mset"} -> TRUE
               [] t.k \in {"podvec", "seq", "set", "ptr"} -> HasBag(t.t)
               [] t.k \in {"map", "pair"} -> HasBag(t.a) \/ HasBag(t.b)
               [] t.k = "struct" -> \E i \in 1..Len(t.fs) : HasBag(t.fs[i])
               [] OTHER -> FALSE

---------------------------------------------------------------------------
(* Leg D, machine V: the value universe *)
U8  == [k |-> "u8"]
I32 == [k |-> "i32"]
I64 == [k |-> "i64"]
STR == [k |-> "str"]
BaseT == {U8, I32, I64, STR}
KeyT  == {I32, STR}
PodT  == {U8, I32, I64}

\* constructors over the inner types S; pairs / structs / map values over P
Cons(S, P) ==
       [k : {"podvec"}, t : PodT]
  \cup [k : {"seq"}, t : S]
  \cup [k : {"set"}, t : KeyT]
  \cup [k : {"map"}, a : KeyT, b : P]
  \cup [k : {"mmap"}, a : KeyT, b : P]
  \cup [k : {"mset"}, t : KeyT, by : {0}]
  \cup { [k |-> "mset", t |-> [k |-> "struct", fs |-> <<I32, STR>>], by |-> 1] }
  \cup [k : {"pair"}, a : P, b : S]
  \cup [k : {"ptr"}, t : S]
  \cup { [k |-> "struct", fs |-> <<a, c>>] : a \in P, c \in S }
  \cup { [k |-> "struct", fs |-> <<a, c, a>>] : a \in {I32}, c \in S }

T1 == Cons(BaseT, BaseT)
T2 == Cons(BaseT \cup T1, IF Rich THEN BaseT \cup T1 ELSE BaseT)
Types == IF Depth = 1 THEN BaseT \cup T1 ELSE BaseT \cup T1 \cup T2

SeqsUpTo(S, n) == UNION { [1..m -> S] : m \in 0..n }

RECURSIVE SortSet(_, _)
SortSet(t, S) == IF S = {} THEN <<>>
                 ELSE LET m == CHOOSE x \in S : \A y \in S \ {x} : Less(t, x, y)
                      IN <<m>> \o SortSet(t, S \ {m})

RECURSIVE Vals(_)
Vals(t) ==
    CASE t.k = "u8"  -> {0, 255}
      [] t.k = "i32" -> {-2147483647 - 1, -1, 258}
      [] t.k = "i64" -> {<<0, 0, 0, 0, 0, 0, 0, 0>>, <<255, 254, 0, 0, 0, 0, 0, 128>>}
      [] t.k = "str" -> {<<>>, <<0>>, <<97, 0, 200>>}
      [] t.k = "podvec" -> SeqsUpTo(Vals(t.t), Width)
      [] t.k = "seq" -> SeqsUpTo(Vals(t.t), Width)
      [] t.k = "set" -> { SortSet(t.t, S) : S \in { X \in SUBSET Vals(t.t) : Cardinality(X) <= Width } }
      [] t.k = "map" -> UNION { { [i \in 1..Len(ks) |-> <<ks[i], f[i]>>] : f \in [1..Len(ks) -> Vals(t.b)] }
                                : ks \in { SortSet(t.a, S) : S \in { X \in SUBSET Vals(t.a) : Cardinality(X) <= Width } } }
      [] t.k = "mmap" -> { q \in SeqsUpTo({ <<x, y>> : x \in Vals(t.a), y \in Vals(t.b) }, Width) :
                               \A i \in 1..(Len(q) - 1) : ~Less(t.a, q[i + 1][1], q[i][1]) }
      [] t.k = "mset" -> { q \in SeqsUpTo(Vals(t.t), Width) :
                               \A i \in 1..(Len(q) - 1) : ~Less(MsetKeyType(t), BagKey(t.by, q[i + 1]), BagKey(t.by, q[i])) }
      [] t.k = "pair" -> { <<x, y>> : x \in Vals(t.a), y \in Vals(t.b) }
      [] t.k = "ptr" -> {[null |-> TRUE]} \cup { [null |-> FALSE, v |-> x] : x \in Vals(t.t) }
      [] t.k = "struct" -> IF Len(t.fs) = 2 THEN { <<x, y>> : x \in Vals(t.fs[1]), y \in Vals(t.fs[2]) }
                           ELSE { <<x, y, z>> : x \in Vals(t.fs[1]), y \in Vals(t.fs[2]), z \in Vals(t.fs[3]) }

NoLast == [op |-> "none", ok |-> TRUE, why |-> "", v |-> <<>>, np |-> 0, over |-> 0, at |-> 0, size |-> 0, data |-> <<>>]

InitV ==
    /\ phase = "v0"
    /\ ty \in Types
    /\ val \in Vals(ty)
    /\ buf = Save(ty, val)
    /\ ptr = 0
    /\ last = NoLast

\* load the archive as it is, or any strict prefix of it
LoadStep ==
    /\ phase = "v0"
    /\ \E cut \in (IF TruncAll THEN 0..Len(buf) ELSE {Len(buf)}) :
         LET b == SubSeq(buf, 1, cut)
             r == Load(ty, b, 0)
         IN /\ buf' = b
            /\ ptr' = r.np
            /\ last' = [NoLast EXCEPT !.op = "load", !.ok = r.ok, !.why = r.why, !.v = r.v, !.np = r.np, !.over = r.over]
    /\ phase' = "v1"
    /\ UNCHANGED <<ty, val>>

SpecV == InitV /\ [][LoadStep]_vars

Whole == buf = Save(ty, val)
RoundTrip    == (phase = "v1" /\ Whole) => (last.ok /\ last.v = val /\ ptr = Len(buf))
TruncFails   == (phase = "v1" /\ ~Whole) => (~last.ok /\ last.why \in {"eof", "bounds"})
LoadInBounds == (phase = "v1" /\ last.ok) => ptr <= Len(buf)

---------------------------------------------------------------------------
(* Leg D, machine C: mutated archives read chunk by chunk *)
Payload(i, n) == [j \in 1..n |-> 16 * i + j]

\* a valid archive is described by the sequence of its payload lengths
ValidArchives(n) == UNION { [1..m -> ChunkLens] : m \in 1..n }

RECURSIVE Render(_, _)
Render(lens, i) == IF i > Len(lens) THEN <<>> ELSE Chunk(Payload(i, lens[i])) \o Render(lens, i + 1)

RECURSIVE FieldOff(_, _)
FieldOff(lens, i) == IF i = 1 THEN 0 ELSE FieldOff(lens, i - 1) + 4 + lens[i - 1]

HUGE1 == <<255, 255, 255, 255>>      \* 2^32 - 1
HUGE4 == <<252, 255, 255, 255>>      \* 2^32 - 4
HALF  == <<0, 0, 0, 128>>            \* 2^31

\* replacement length fields for chunk i: exact +-0..4, remaining +-0..4, 0, huge values
Fields(lens, i) ==
    LET e == lens[i]
        r == Len(Render(lens, 1)) - FieldOff(lens, i) - 4
    IN { LE32(x) : x \in { y \in ({e + d : d \in -4..4} \cup {r + d : d \in -4..4} \cup {0}) : y >= 0 } }
       \cup {HUGE1, HUGE4, HALF}

Patch(b, off, f) == [i \in 1..Len(b) |-> IF i > off /\ i <= off + 4 THEN f[i - off] ELSE b[i]]

Mutated ==
    UNION { UNION { { SubSeq(Patch(Render(lens, 1), FieldOff(lens, i), f), 1, cut)
                      : cut \in 0..Len(Render(lens, 1)) }
                    : f \in Fields(lens, i) }
            : <<lens, i>> \in { <<a, j>> \in ValidArchives(MaxChunks) \X (1..MaxChunks) : j <= Len(a) } }

InitC ==
    /\ phase = "c"
    /\ buf \in Mutated
    /\ ptr = 0
    /\ ty = <<>> /\ val = <<>>
    /\ last = NoLast

DoSize ==
    LET r == NextChunkSize(buf, ptr)
    IN /\ last' = [NoLast EXCEPT !.op = "size", !.ok = r.ok, !.why = r.why, !.at = ptr, !.size = r.size, !.np = ptr]
       /\ ptr' = ptr
DoString ==
    LET r == ReadString(buf, ptr)
    IN /\ last' = [NoLast EXCEPT !.op = "str", !.ok = r.ok, !.why = r.why, !.at = ptr, !.size = r.size, !.data = r.data, !.np = r.np]
       /\ ptr' = r.np
DoChunk(len) ==
    LET r == ReadChunk(buf, ptr, len)
    IN /\ last' = [NoLast EXCEPT !.op = "chunk", !.ok = r.ok, !.why = r.why, !.at = ptr, !.size = r.size, !.data = r.data, !.np = r.np]
       /\ ptr' = r.np

NextC ==
    /\ phase = "c"
    /\ (DoSize \/ DoString \/ (\E len \in ChunkLens \cup {0, 4} : DoChunk(len)))
    /\ UNCHANGED <<phase, ty, val, buf>>

SpecC == InitC /\ [][NextC]_vars

\* every successful read lies inside the archive ...
InBounds == (phase = "c" /\ last.ok /\ last.op # "none") =>
                (last.at + 4 + last.size <= Len(buf) /\ ptr <= Len(buf))
\* ... and returns exactly the bytes of the buffer
DataIsSlice == (phase = "c" /\ last.ok /\ last.op \in {"str", "chunk"}) =>
                (last.data = SubSeq(buf, last.at + 5, last.at + 4 + last.size))
\* a failed read leaves the cursor where it was
FailClean == [][(phase = "c" /\ ~last'.ok) => ptr' = ptr]_vars
=============================================================================
