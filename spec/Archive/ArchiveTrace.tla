---------------------------- MODULE ArchiveTrace ----------------------------
(* Leg B for C19: every event recorded by harness/archive/archive_drv.cpp    *)
(* from the real cppcms::archive / archive_traits is judged against the      *)
(* operators of Archive.tla (GuardMode = "safe").                             *)
(*                                                                            *)
(* Function-style property: one independent judgement per event.  An event    *)
(* that breaks the property does not stop the validation (one defect would    *)
(* otherwise hide everything behind it): the action still matches, and TLC    *)
(* (classes starting with "drift-" are informational: behaviour that is       *)
(* laxer than the wire format but stays inside the archive)                   *)
(* prints  <<"FLAG", class, detail, line>>  which the check turns into a      *)
(* violation with signature class(+detail).  Unknown events / a cursor the    *)
(* specification cannot follow are ordinary rejections.                       *)
EXTENDS Archive, TraceBase

VARIABLE l
tvars == <<vars, l>>

Ev == TraceLog[l]
Is(name) == l <= NLines /\ Ev.e = name /\ l' = l + 1
Flag(class, detail) == PrintT(<<"FLAG", class, detail, l>>)
Judge(verdict, detail) == IF verdict = "ok" THEN TRUE ELSE Flag(verdict, detail)
Keep == UNCHANGED <<phase, ty, val, last>>

OverClass(o) == IF o >= 1 /\ o <= 3 THEN "le3" ELSE IF o = BIG THEN "huge" ELSE "gt3"

TReset == Is("Reset") /\ buf' = <<>> /\ ptr' = 0 /\ Keep

(* the bytes written for a value are exactly the wire format *)
TSave ==
    /\ Is("Save")
    /\ Judge(IF Ev.bytes = Save(Ev.type, Ev.value) THEN "ok" ELSE "save-format", Ev.type.k)
    /\ UNCHANGED <<buf, ptr>> /\ Keep

(* loading:                                                                              *)
(*  - the archive of a saved value loads back to that value (orig present);              *)
(*  - arbitrary bytes: success is legal only if no chunk had to reach beyond the buffer   *)
(*    (r.why = "format": the implementation was more lenient about a length than the      *)
(*    wire format - not a safety matter, nothing is demanded of the value);               *)
(*  - a refusal is illegal when the bytes are exactly the archive of a value;             *)
(*  - multimap / multiset are sequences (key order, insertion order among equivalent       *)
(*    keys): the loaded sequence must equal the saved one element by element and saving     *)
(*    it again must give the same bytes; for arbitrary bytes whose elements are not in      *)
(*    canonical order the order among equivalent keys is left to the container.             *)
LoadVerdict ==
    LET r == Load(Ev.type, Ev.bytes, 0)
    IN IF Has(Ev, "orig")
       THEN IF ~Ev.ok THEN <<"roundtrip-refused", Ev.type.k>>
            ELSE IF Ev.value # Ev.orig THEN <<"roundtrip-differs", Ev.type.k>>
            ELSE IF ~r.ok \/ r.v # Ev.orig THEN <<"roundtrip-spec", Ev.type.k>>
            ELSE IF Has(Ev, "resave") /\ Ev.resave # Ev.bytes THEN <<"roundtrip-resave", Ev.type.k>>
            ELSE <<"ok", "">>
       ELSE IF Ev.ok
            THEN IF r.ok THEN (IF r.v = Ev.value \/ (HasBag(Ev.type) /\ Save(Ev.type, r.v) # Ev.bytes) THEN <<"ok", "">>
                               ELSE <<"load-wrong-value", Ev.type.k>>)
                 ELSE IF r.why \in {"eof", "bounds"} THEN <<"overread", OverClass(r.over)>>
                 ELSE <<"ok", "">>
            ELSE IF r.ok /\ Save(Ev.type, r.v) = Ev.bytes THEN <<"load-refused-valid", Ev.type.k>>
                 ELSE <<"ok", "">>

TLoad ==
    /\ Is("Load")
    /\ LET v == LoadVerdict IN Judge(v[1], v[2])
    /\ UNCHANGED <<buf, ptr>> /\ Keep

(* chunk-level reads through the public API; the driver keeps a shadow cursor *)
TArch == Is("Arch") /\ buf' = Ev.bytes /\ ptr' = 0 /\ Keep

SpecRead == CASE Ev.op = "size"  -> LET r == NextChunkSize(buf, ptr) IN [ok |-> r.ok, size |-> r.size, data |-> <<>>, np |-> ptr, why |-> r.why]
              [] Ev.op = "str"   -> LET r == ReadString(buf, ptr) IN [ok |-> r.ok, size |-> r.size, data |-> r.data, np |-> r.np, why |-> r.why]
              [] Ev.op = "chunk" -> LET r == ReadChunk(buf, ptr, Ev.len) IN [ok |-> r.ok, size |-> r.size, data |-> r.data, np |-> r.np, why |-> r.why]

ReadVerdict ==
    LET r == SpecRead
    IN IF Ev.ok
       THEN IF ~InArchive(ptr, Ev.size, Len(buf)) THEN <<"overread", OverClass(Over(ptr, Ev.size, Len(buf)))>>
            ELSE IF ~r.ok THEN <<"drift-read-lenient", r.why>>      \* inside the archive but not the chunk asked for: lenient, not unsafe
            ELSE IF r.size # Ev.size THEN <<"read-wrong-size", Ev.op>>
            ELSE IF Ev.op # "size" /\ r.data # Ev.data THEN <<"read-wrong-data", Ev.op>>
            ELSE <<"ok", "">>
       ELSE IF r.ok THEN <<"read-refused-valid", Ev.op>> ELSE <<"ok", "">>

TRead ==
    /\ Is("Read")
    /\ Ev.ptr = ptr
    /\ LET v == ReadVerdict IN Judge(v[1], v[2])
    /\ ptr' = IF Ev.ok /\ Ev.op # "size" THEN (IF Ev.size = BIG THEN BIG ELSE ptr + 4 + Ev.size) ELSE ptr
    /\ buf' = buf /\ Keep

TEof ==
    /\ Is("Eof")
    /\ Ev.ptr = ptr
    /\ Judge(IF Ev.eof = (ptr >= Len(buf)) THEN "ok" ELSE "eof-wrong", "")
    /\ UNCHANGED <<buf, ptr>> /\ Keep

TDied == Is("Died") /\ Flag("died", Ev.why) /\ UNCHANGED <<buf, ptr>> /\ Keep

TraceInit == phase = "trace" /\ ty = <<>> /\ val = <<>> /\ buf = <<>> /\ ptr = 0 /\ last = NoLast /\ l = 1
TraceNext == TReset \/ TSave \/ TLoad \/ TArch \/ TRead \/ TEof \/ TDied
TraceSpec == TraceInit /\ [][TraceNext]_tvars
=============================================================================
