SPECIFICATION TraceSpec
CONSTANTS
  GuardMode = "safe"
  Depth = 1
  Width = 1
  Rich = FALSE
  TruncAll = FALSE
  MaxChunks = 1
  ChunkLens = {0}
  Ids = {0, 1, 2}
  MaxBuf = 0
POSTCONDITION TraceDone
CHECK_DEADLOCK FALSE
