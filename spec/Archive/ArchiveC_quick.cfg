SPECIFICATION SpecC
CONSTANTS
  GuardMode = "safe"
  Depth = 1
  Width = 1
  Rich = FALSE
  TruncAll = TRUE
  MaxChunks = 2
  ChunkLens = {0, 1, 3}
INVARIANTS InBounds DataIsSlice
PROPERTIES FailClean
CHECK_DEADLOCK FALSE
