SPECIFICATION SpecV
CONSTANTS
  GuardMode = "safe"
  Depth = 2
  Width = 1
  Rich = FALSE
  TruncAll = FALSE
  MaxChunks = 1
  ChunkLens = {0}
INVARIANTS RoundTrip TruncFails LoadInBounds
CHECK_DEADLOCK FALSE
