SPECIFICATION SpecC
CONSTANTS
  GuardMode = "safe"
  Depth = 1
  Width = 1
  Rich = FALSE
  TruncAll = TRUE
  MaxChunks = 3
  ChunkLens = {0, 1, 2, 5}
INVARIANTS InBounds DataIsSlice
PROPERTIES FailClean
CHECK_DEADLOCK FALSE
