SPECIFICATION ObjSpec
CONSTANTS
  GuardMode = "safe"
  Depth = 1
  Width = 1
  Rich = FALSE
  TruncAll = FALSE
  MaxChunks = 1
  ChunkLens = {0}
  Ids = {1, 2}
  MaxBuf = 16
INVARIANTS Rep ReadBack Rewinds
CHECK_DEADLOCK FALSE
