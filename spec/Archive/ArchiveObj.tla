----------------------------- MODULE ArchiveObj -----------------------------
(***************************************************************************)
(* C19 - the cppcms::archive OBJECT as a state machine.                    *)
(*                                                                         *)
(* An archive object is  [buf, mode, ptr]:  the buffer, the IO mode        *)
(* ("save" | "load") and the read position.  Operations (the public API):  *)
(*   save of a value   (a << v, a & v in save mode)  appends Save(t, v);   *)
(*                      the read position is not touched                   *)
(*   load of a value   (a >> v, a & v in load mode)  Load(t, buf, ptr):    *)
(*                      the value the buffer holds AT THE POSITION, the    *)
(*                      position moves behind it; archive_error exactly    *)
(*                      when the chunk(s) are missing / short / of the     *)
(*                      wrong length, position then at the offending chunk *)
(*   mode(m)           documented "Set IO mode, resets pointer"            *)
(*   str(bytes)        documented "sets mode to load_from_archive": new    *)
(*                      buffer, load mode, position 0                      *)
(*   str()             the buffer                                          *)
(*   reset()           position 0                                          *)
(*   eof()             position >= size                                    *)
(*   copy / assignment the whole state                                     *)
(*                                                                         *)
(* Leg D (ObjSpec): TLC runs every sequence of these operations on two     *)
(* objects over a small value set and a set of blobs (valid, truncated,    *)
(* short header).  A ghost variable keeps, per object, the list of items   *)
(* <<type, value>> the buffer was built from (+ a truncated tail):         *)
(*   Rep       buf = the items' archives one after the other (+ tail),     *)
(*             0 <= ptr <= Len(buf)                                        *)
(*   ReadBack  a load at the offset of item i of the same type returns     *)
(*             exactly that value and moves to item i+1; a load at the     *)
(*             end / at the truncated tail fails and does not move         *)
(*   Rewinds   mode(m), str(bytes), reset() leave the position at 0        *)
(* Leg B (ArchiveObjTrace.tla) replays recorded operation sequences of the *)
(* real object against the same operators at byte level.                   *)
(***************************************************************************)
EXTENDS Archive

CONSTANTS Ids,          \* object names
          MaxBuf        \* Leg D: bound on the buffer length

VARIABLES objs,         \* [Ids -> [buf, mode, ptr]]
          ghost,        \* Leg D: [Ids -> [items, tail]]
          olast         \* Leg D: the last operation and its result
ovars == <<objs, ghost, olast>>

Fresh == [buf |-> <<>>, mode |-> "save", ptr |-> 0]

(* the operations on one object state s *)
OSaveV(s, t, v) == [s EXCEPT !.buf = s.buf \o Save(t, v)]
OLoadV(s, t)    == LET r == Load(t, s.buf, s.ptr) IN [st |-> [s EXCEPT !.ptr = r.np], r |-> r]
OMode(s, m)     == [s EXCEPT !.mode = m, !.ptr = 0]
ORewind(s)      == [s EXCEPT !.ptr = 0]
OStrSet(s, b)   == [buf |-> b, mode |-> "load", ptr |-> 0]
OEof(s)         == s.ptr >= Len(s.buf)

---------------------------------------------------------------------------
(* Leg D *)
Item(t, v) == [t |-> t, v |-> v]
GBytes(g)  == Flatten([i \in 1..Len(g.items) |-> Save(g.items[i].t, g.items[i].v)]) \o g.tail
GOffset(g, i) == Len(Flatten([j \in 1..(i - 1) |-> Save(g.items[j].t, g.items[j].v)]))     \* offset of item i (i <= Len+1)

DTypes == {U8, STR}
DVals(t) == IF t.k = "u8" THEN {7} ELSE {<<>>, <<97, 98>>}
NoGhost == [items |-> <<>>, tail |-> <<>>]
Blobs == { NoGhost,
           [items |-> <<Item(U8, 7)>>, tail |-> <<>>],
           [items |-> <<Item(STR, <<97, 98>>), Item(U8, 7)>>, tail |-> <<>>],
           [items |-> <<Item(U8, 7)>>, tail |-> <<2, 0, 0, 0, 97>>],          \* last chunk claims 2 bytes, has 1
           [items |-> <<>>, tail |-> <<1, 0>>] }                               \* short header
NoOp == [op |-> "none", o |-> 0, t |-> U8, at |-> 0, r |-> Good(<<>>, 0)]

IdleArchive == UNCHANGED vars
ObjInit ==
    /\ phase = "obj" /\ ty = <<>> /\ val = <<>> /\ buf = <<>> /\ ptr = 0 /\ last = NoLast
    /\ objs = [o \in Ids |-> Fresh]
    /\ ghost = [o \in Ids |-> NoGhost]
    /\ olast = NoOp

DSave(o, t, v) ==
    /\ objs[o].mode = "save" /\ ghost[o].tail = <<>>
    /\ Len(objs[o].buf) + Len(Save(t, v)) <= MaxBuf
    /\ objs' = [objs EXCEPT ![o] = OSaveV(@, t, v)]
    /\ ghost' = [ghost EXCEPT ![o].items = Append(@, Item(t, v))]
    /\ olast' = [NoOp EXCEPT !.op = "save", !.o = o]
DLoad(o, t) ==
    /\ objs[o].mode = "load"
    /\ LET x == OLoadV(objs[o], t)
       IN /\ objs' = [objs EXCEPT ![o] = x.st]
          /\ olast' = [op |-> "load", o |-> o, t |-> t, at |-> objs[o].ptr, r |-> x.r]
    /\ UNCHANGED ghost
DMode(o, m) ==
    /\ objs' = [objs EXCEPT ![o] = OMode(@, m)]
    /\ olast' = [NoOp EXCEPT !.op = "mode", !.o = o] /\ UNCHANGED ghost
DRewind(o) ==
    /\ objs' = [objs EXCEPT ![o] = ORewind(@)]
    /\ olast' = [NoOp EXCEPT !.op = "reset", !.o = o] /\ UNCHANGED ghost
DStrSet(o, g) ==
    /\ objs' = [objs EXCEPT ![o] = OStrSet(@, GBytes(g))]
    /\ ghost' = [ghost EXCEPT ![o] = g]
    /\ olast' = [NoOp EXCEPT !.op = "strset", !.o = o]
DCopy(d, s) ==
    /\ d # s
    /\ objs' = [objs EXCEPT ![d] = objs[s]]
    /\ ghost' = [ghost EXCEPT ![d] = ghost[s]]
    /\ olast' = [NoOp EXCEPT !.op = "copy", !.o = d]

ObjNext ==
    /\ IdleArchive
    /\ \E o \in Ids :
         \/ \E t \in DTypes : (DLoad(o, t) \/ \E v \in DVals(t) : DSave(o, t, v))
         \/ \E m \in {"save", "load"} : DMode(o, m)
         \/ DRewind(o)
         \/ \E g \in Blobs : DStrSet(o, g)
         \/ \E s \in Ids : DCopy(o, s)
ObjSpec == ObjInit /\ [][ObjNext]_<<vars, ovars>>

Rep == \A o \in Ids : objs[o].buf = GBytes(ghost[o]) /\ objs[o].ptr >= 0 /\ objs[o].ptr <= Len(objs[o].buf)
ReadBack ==
    olast.op = "load" =>
        LET g == ghost[olast.o] n == Len(g.items)
        IN \A i \in 1..(n + 1) :
             GOffset(g, i) = olast.at =>
                IF i <= n /\ g.items[i].t = olast.t
                THEN olast.r.ok /\ olast.r.v = g.items[i].v /\ olast.r.np = GOffset(g, i + 1)
                ELSE IF i = n + 1 THEN ~olast.r.ok /\ olast.r.why \in {"eof", "bounds"} /\ olast.r.np = olast.at
                ELSE TRUE
Rewinds == olast.op \in {"mode", "reset", "strset"} => objs[olast.o].ptr = 0
=============================================================================
