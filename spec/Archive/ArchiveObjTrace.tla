-------------------------- MODULE ArchiveObjTrace --------------------------
(* Leg B for the archive object state machine (ArchiveObj.tla): recorded      *)
(* operation sequences on a few real cppcms::archive objects (several blobs    *)
(* through one object, re-reading after mode(load), interleaved save / load    *)
(* phases, reuse after an archive_error, copies) are replayed at byte level.   *)
(* Every load must return the value Load(type, buf, ptr) yields in the model   *)
(* state, fail exactly when the model says the chunk is missing / short /      *)
(* of the wrong length; eof(), mode() and str() must agree with the model.     *)
(* Violations are FLAGged (validation continues).  After a flagged load the    *)
(* position of that object is not trusted (known = FALSE: loads and eof() are  *)
(* not judged) until an operation that defines it: mode, str(bytes), reset,    *)
(* copy.  "drift-" = laxer than the wire format but inside the buffer.         *)
EXTENDS ArchiveObj, TraceBase

VARIABLES l, known
tvars == <<vars, ovars, l, known>>

Ev == TraceLog[l]
Is(name) == l <= NLines /\ Ev.e = name /\ l' = l + 1
Flag(class, detail) == PrintT(<<"FLAG", class, detail, l>>)
Judge(c, d) == IF c = "ok" THEN TRUE ELSE Flag(c, d)
Keep == UNCHANGED <<vars, ghost, olast>>
O == objs[Ev.o]
OverClassO(o) == IF o >= 1 /\ o <= 3 THEN "le3" ELSE IF o = BIG THEN "huge" ELSE "gt3"

TOReset ==
    /\ Is("Reset")
    /\ objs' = [o \in Ids |-> Fresh] /\ known' = [o \in Ids |-> TRUE] /\ Keep

TOSave ==
    /\ Is("OSave")
    /\ Judge(IF O.mode = "save" /\ Ev.mode = "save" THEN "ok" ELSE "obj-mode", "save")
    /\ objs' = [objs EXCEPT ![Ev.o] = OSaveV(@, Ev.type, Ev.value)]
    /\ UNCHANGED known /\ Keep

LoadJudgement ==
    LET x == OLoadV(O, Ev.type)
    IN IF O.mode # "load" \/ Ev.mode # "load" THEN <<"obj-mode", "load", FALSE>>
       ELSE IF ~known[Ev.o] THEN <<"ok", "", FALSE>>
       ELSE IF Ev.ok /\ x.r.ok THEN (IF Ev.value = x.r.v THEN <<"ok", "", TRUE>> ELSE <<"obj-load-wrong-value", Ev.type.k, FALSE>>)
       ELSE IF Ev.ok THEN (IF x.r.why = "format" THEN <<"drift-obj-load-lenient", Ev.type.k, FALSE>>
                           ELSE <<"obj-load-beyond-end", OverClassO(x.r.over), FALSE>>)
       ELSE IF x.r.ok THEN <<"obj-load-refused", Ev.type.k, FALSE>>
       ELSE <<"ok", "", TRUE>>
TOLoad ==
    /\ Is("OLoad")
    /\ LET j == LoadJudgement
       IN /\ Judge(j[1], j[2])
          /\ known' = [known EXCEPT ![Ev.o] = j[3]]
          /\ objs' = [objs EXCEPT ![Ev.o] = IF j[3] THEN OLoadV(O, Ev.type).st ELSE @]
    /\ Keep

TOMode ==
    /\ Is("OMode")
    /\ objs' = [objs EXCEPT ![Ev.o] = OMode(@, Ev.m)] /\ known' = [known EXCEPT ![Ev.o] = TRUE] /\ Keep
TORewind ==
    /\ Is("ORewind")
    /\ objs' = [objs EXCEPT ![Ev.o] = ORewind(@)] /\ known' = [known EXCEPT ![Ev.o] = TRUE] /\ Keep
TOStrSet ==
    /\ Is("OStrSet")
    /\ objs' = [objs EXCEPT ![Ev.o] = OStrSet(@, Ev.bytes)] /\ known' = [known EXCEPT ![Ev.o] = TRUE] /\ Keep
TOStrGet ==
    /\ Is("OStrGet")
    /\ Judge(IF Ev.bytes = O.buf THEN "ok" ELSE "obj-str", "")
    /\ Judge(IF Ev.mode = O.mode THEN "ok" ELSE "obj-mode", "getter")
    /\ UNCHANGED <<objs, known>> /\ Keep
TOEof ==
    /\ Is("OEof")
    /\ Judge(IF ~known[Ev.o] \/ Ev.eof = OEof(O) THEN "ok" ELSE "obj-eof", IF Ev.eof THEN "true" ELSE "false")
    /\ UNCHANGED <<objs, known>> /\ Keep
TOCopy ==
    /\ Is("OCopy")
    /\ objs' = [o \in Ids |-> IF o = Ev.d THEN objs[Ev.s]
                              ELSE IF o = Ev.s /\ Ev.how = "move" THEN Fresh ELSE objs[o]]
    /\ known' = [o \in Ids |-> IF o = Ev.d THEN known[Ev.s] ELSE IF o = Ev.s /\ Ev.how = "move" THEN TRUE ELSE known[o]]
    /\ Keep
TODied == Is("Died") /\ Flag("died", Ev.why) /\ UNCHANGED <<objs, known>> /\ Keep

TraceInit == ObjInit /\ l = 1 /\ known = [o \in Ids |-> TRUE]
TraceNext == TOReset \/ TOSave \/ TOLoad \/ TOMode \/ TORewind \/ TOStrSet \/ TOStrGet \/ TOEof \/ TOCopy \/ TODied
TraceSpec == TraceInit /\ [][TraceNext]_tvars
=============================================================================
