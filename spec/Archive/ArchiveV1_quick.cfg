SPECIFICATION SpecV
CONSTANTS
  GuardMode = "safe"
  Depth = 1
  Width = 2
  Rich = FALSE
  TruncAll = TRUE
  MaxChunks = 1
  ChunkLens = {0}
INVARIANTS RoundTrip TruncFails LoadInBounds
CHECK_DEADLOCK FALSE
