SPECIFICATION TraceSpec
CONSTANTS
  GuardMode = "safe"
  Depth = 1
  Width = 1
  Rich = FALSE
  TruncAll = TRUE
  MaxChunks = 1
  ChunkLens = {0}
POSTCONDITION TraceDone
CHECK_DEADLOCK FALSE
