------------------------------- MODULE XssNest -------------------------------
(***************************************************************************)
(* C04 - token level.  The input is already split into tokens; what is     *)
(* explored here is the part of the filter where "removing one piece       *)
(* changes the nesting of the rest": the stack algorithm of                *)
(* validate_nesting in XHTML mode (a mismatching closing tag invalidates   *)
(* both itself and the opening tag it was compared with; unclosed openers  *)
(* are invalid) and in HTML mode (a closing tag pops until it finds its    *)
(* opener, the popped openers become stand-alone tags; unclosed openers    *)
(* become stand-alone), the per-tag rule kinds {0 invalid, 1               *)
(* opening_and_closing, 2 stand_alone, 3 any_tag}, invalidation of the     *)
(* partner of a tag the rules reject, and the two filtering methods.       *)
(*                                                                         *)
(* Tokens (Alpha): 1 <a> 2 </a> 3 <a/> 4 <b> 5 </b> 6 <b/> 7 text          *)
(*   8 allowed entity 9 unknown entity 10 comment 11 stray '<' 12 stray    *)
(*   '>'; 13 = text produced by escaping an invalid token; 14 = <a ...>    *)
(*   opening tag whose attributes the rules reject.                        *)
(*                                                                         *)
(* Invariants (the property on the design): FilterValid, ValidUnchanged,   *)
(* FilterSafe (independent token-local judge), Idempotent, and - as an     *)
(* independent formulation of "passes validation" - Balanced (XHTML: tags  *)
(* of the output are properly nested) / HtmlClosed (HTML: every closing    *)
(* tag has an opener, no opening_and_closing tag stays open).              *)
(***************************************************************************)
EXTENDS Integers, Sequences, FiniteSets, TLC

CONSTANTS Alpha, MaxLen, KA, KB, Comments

VARIABLES s, xh, esc, ka, kb, cm,
          f, v          \* f = Filter(s), v = Validate(s): computed once per state by Next
vars == <<s, xh, esc, ka, kb, cm, f, v>>

IsOpen(x)  == x \in {1, 4, 14}
IsClose(x) == x \in {2, 5}
IsSelf(x)  == x \in {3, 6}
IsTag(x)   == x \in 1..6 \/ x = 14
NameOf(x)  == IF x <= 3 \/ x = 14 THEN 1 ELSE 2
Kind(x)    == IF NameOf(x) = 1 THEN ka ELSE kb
ToSet(q)   == { q[i] : i \in DOMAIN q }

(* ty: "open" "close" "self" "ocws" (opener demoted to stand-alone) "ok" (text, entity, comment...) "inv" *)
Part(x) == [x |-> x, pair |-> 0,
            ty |-> IF IsOpen(x) THEN "open" ELSE IF IsClose(x) THEN "close" ELSE IF IsSelf(x) THEN "self"
                   ELSE IF x \in {9, 11, 12} THEN "inv" ELSE "ok"]
Parts(q) == [k \in 1..Len(q) |-> Part(q[k])]

RECURSIVE Nest(_, _, _)
RECURSIVE HtmlClose(_, _, _)
HtmlClose(ps, i, st) ==
    IF st = <<>> THEN <<[ps EXCEPT ![i].ty = "inv"], st>>
    ELSE LET top == st[Len(st)]  st2 == SubSeq(st, 1, Len(st) - 1)
         IN IF NameOf(ps[top].x) = NameOf(ps[i].x)
            THEN <<[ps EXCEPT ![i].pair = top, ![top].pair = i], st2>>
            ELSE HtmlClose([ps EXCEPT ![top].ty = "ocws"], i, st2)
Nest(ps, i, st) ==
    IF i > Len(ps)
    THEN [k \in 1..Len(ps) |-> IF k \in ToSet(st) THEN [ps[k] EXCEPT !.ty = IF xh THEN "inv" ELSE "ocws"] ELSE ps[k]]
    ELSE IF ps[i].ty = "open" THEN Nest(ps, i + 1, Append(st, i))
    ELSE IF ps[i].ty = "close" THEN
        IF xh THEN
            IF st = <<>> THEN Nest([ps EXCEPT ![i].ty = "inv"], i + 1, st)
            ELSE LET top == st[Len(st)]  st2 == SubSeq(st, 1, Len(st) - 1)
                 IN IF NameOf(ps[top].x) = NameOf(ps[i].x)
                    THEN Nest([ps EXCEPT ![i].pair = top, ![top].pair = i], i + 1, st2)
                    ELSE Nest([ps EXCEPT ![i].ty = "inv", ![top].ty = "inv"], i + 1, st2)
        ELSE LET r == HtmlClose(ps, i, st) IN Nest(r[1], i + 1, r[2])
    ELSE Nest(ps, i + 1, st)

EntryOK(P) ==
    CASE P.ty = "inv" -> FALSE
      [] P.ty = "ok"  -> (P.x = 10 => cm)
      [] P.x = 14     -> FALSE              \* attributes rejected by the rules
      [] OTHER -> CASE Kind(P.x) = 0 -> FALSE
                    [] Kind(P.x) = 2 -> P.ty \in {"ocws", "self"}
                    [] Kind(P.x) = 1 -> P.ty \in {"open", "close"}
                    [] OTHER -> TRUE

Nested(q) == Nest(Parts(q), 1, <<>>)
Validate(q) == LET ps == Nested(q) IN \A k \in DOMAIN ps : EntryOK(ps[k])

RECURSIVE Emit(_, _, _)
Emit(ps, bad, k) ==
    IF k > Len(ps) THEN <<>>
    ELSE (IF k \in bad THEN (IF esc THEN <<13>> ELSE <<>>) ELSE <<ps[k].x>>) \o Emit(ps, bad, k + 1)

\* CONSTANT-level switch used by the self-test cfg: forget the partner of a rejected tag
CONSTANT PairInvalidation
Filter(q) ==
    LET ps   == Nested(q)
        bad0 == { k \in DOMAIN ps : ~EntryOK(ps[k]) }
        bad  == IF PairInvalidation THEN bad0 \cup { ps[k].pair : k \in { j \in bad0 : ps[j].pair # 0 } } ELSE bad0
    IN IF bad = {} THEN q ELSE Emit(ps, bad, 1)

(* ----- independent judges ----- *)
\* token-local: is this token, by itself, something the rules can allow in this form?
TokenAllowed(x) ==
    CASE x \in {7, 8, 13} -> TRUE
      [] x = 10 -> cm
      [] x \in {9, 11, 12, 14} -> FALSE
      [] IsSelf(x)  -> Kind(x) \in {2, 3}
      [] IsClose(x) -> Kind(x) \in {1, 3}
      [] OTHER      -> IF xh THEN Kind(x) \in {1, 3} ELSE Kind(x) # 0
DangerousTok(q) == \E k \in DOMAIN q : ~TokenAllowed(q[k])

RECURSIVE Bal(_, _)                 \* XHTML: properly nested
Bal(q, st) ==
    IF q = <<>> THEN st = <<>>
    ELSE LET x == Head(q) IN
         IF IsOpen(x) THEN Bal(Tail(q), Append(st, NameOf(x)))
         ELSE IF IsClose(x) THEN st # <<>> /\ st[Len(st)] = NameOf(x) /\ Bal(Tail(q), SubSeq(st, 1, Len(st) - 1))
         ELSE Bal(Tail(q), st)

RECURSIVE HClosed(_, _)             \* HTML: closers have openers; kind-1 openers do not stay open
HClosed(q, st) ==
    IF q = <<>> THEN \A k \in DOMAIN st : (IF st[k] = 1 THEN ka ELSE kb) # 1
    ELSE LET x == Head(q) IN
         IF IsOpen(x) THEN HClosed(Tail(q), Append(st, NameOf(x)))
         ELSE IF IsClose(x) THEN
              LET S == { k \in DOMAIN st : st[k] = NameOf(x) } IN
              /\ S # {}
              /\ LET m == CHOOSE k \in S : \A j \in S : j <= k IN
                 /\ \A j \in (m + 1)..Len(st) : (IF st[j] = 1 THEN ka ELSE kb) # 1
                 /\ HClosed(Tail(q), SubSeq(st, 1, m - 1))
         ELSE HClosed(Tail(q), st)

Init == /\ s = <<>> /\ xh \in BOOLEAN /\ esc \in BOOLEAN /\ ka \in KA /\ kb \in KB /\ cm \in Comments
        /\ f = <<>> /\ v = TRUE
Next == /\ Len(s) < MaxLen
        /\ \E x \in Alpha : s' = Append(s, x)
        /\ UNCHANGED <<xh, esc, ka, kb, cm>>
        /\ f' = Filter(s') /\ v' = Validate(s')
Spec == Init /\ [][Next]_vars

FilterValid    == Validate(f)
ValidUnchanged == v => f = s
FilterSafe     == ~DangerousTok(f)
Idempotent     == Filter(f) = f
Balanced       == xh => Bal(f, <<>>)
HtmlClosed     == ~xh => HClosed(f, <<>>)
=============================================================================
