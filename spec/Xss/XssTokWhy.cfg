SPECIFICATION WhySpec
POSTCONDITION TraceDone
CHECK_DEADLOCK FALSE
