----------------------------- MODULE XssTokTrace -----------------------------
(***************************************************************************)
(* Leg B for C04.  One trace line per call bundle on the real              *)
(* cppcms::xss API:                                                        *)
(*   Reset{rid, xhtml, comments, numeric, enc, repl, ents, tags}           *)
(*        - the rule set (as built through the public rules API) that the  *)
(*          following F events were run under;                             *)
(*   F{in, vi, vfr, vfe, or, vor, sr, oe, voe, se, rx}                     *)
(*        vi  = validate(in)                                               *)
(*        vfr / vfe = validate_and_filter_if_invalid(in, remove / escape)  *)
(*        or / oe   = filter(in, remove_invalid / escape_invalid)          *)
(*        vor / voe = validate(or / oe);  sr / se = (filter(o) = o)        *)
(*        rx  = verdicts of opaque validators on every quoted string       *)
(*        inlang (optional) = FALSE: a value known not to be in the        *)
(*              language of its attribute's expression                     *)
(* TraceSpec accepts an F line iff the property holds of it (judged by the *)
(* independent scanner Dangerous and WellFormed of XssTok).  DriftSpec      *)
(* accepts everything and prints a DRIFT line where the mechanism model of *)
(* XssTok predicts a different output (never a violation).                 *)
(***************************************************************************)
EXTENDS XssTok, TraceBase

VARIABLES l, rl           \* cursor; line number of the Reset line in force (0 = none yet)
tvars == <<l, rl>>

Ev == TraceLog[l]
Is(name) == l <= NLines /\ Ev.e = name /\ l' = l + 1

NoRules == [xhtml |-> TRUE, comments |-> FALSE, numeric |-> FALSE, enc |-> "none", repl |-> 0, ents |-> {}, tags |-> <<>>]

RulesOf(ev) == [xhtml |-> ev.xhtml, comments |-> ev.comments, numeric |-> ev.numeric, enc |-> ev.enc,
                repl |-> ev.repl, ents |-> SeqToSet(ev.ents), tags |-> ev.tags]
R == IF rl = 0 THEN NoRules ELSE RulesOf(TraceLog[rl])

TReset == Is("Reset") /\ rl' = l

X == SeqToSet(Ev.rx)
OutR == IF Has(Ev, "or") THEN Ev.or ELSE Ev.in     \* logged only when different from the input
OutE == IF Has(Ev, "oe") THEN Ev.oe ELSE Ev.in

OutOK(o, v, st) ==
    /\ v                                   \* the filter's output passes validation
    /\ st                                  \* filtering it again changes nothing
    /\ ~Dangerous(o, R, X)                 \* nothing that opens markup outside an allowed construct
    /\ WellFormed(o, R.enc)

\* inlang = FALSE: the driver built an attribute value that is one forbidden character away from the language
\* of its expression (or carries bytes the expression cannot match): such input must not validate
InLangOK == (Has(Ev, "inlang") /\ ~Ev.inlang) => ~Ev.vi
Accept ==
    /\ OutOK(OutR, Ev.vor, Ev.sr)
    /\ OutOK(OutE, Ev.voe, Ev.se)
    /\ Ev.vfr = Ev.vi /\ Ev.vfe = Ev.vi
    /\ (Ev.vi => OutR = Ev.in /\ OutE = Ev.in)
    /\ (Ev.vi => WellFormed(Ev.in, R.enc))
    /\ InLangOK

TF == Is("F") /\ Accept /\ UNCHANGED rl

(* E lines: charset sweep.  Reset{encname, iconv, ...} names the charset the rules were configured    *)
(* with; E{in, exp, cps, vi, vfr, vfe, or, oe, vor, voe, sr, se, xr, xe}: exp / xr / xe = "the text  *)
(* (input / remove output / escape output) converts strictly from that charset", decided by an        *)
(* independent oracle (iconv(3)); cps = its code points.  Property: validation accepts only          *)
(* well-formed text of the configured encoding and the filter's output is well-formed.               *)
AcceptE ==
    /\ Ev.vor /\ Ev.voe /\ Ev.sr /\ Ev.se
    /\ ~Dangerous(OutR, R, {}) /\ ~Dangerous(OutE, R, {})
    /\ Ev.vfr = Ev.vi /\ Ev.vfe = Ev.vi
    /\ (Ev.vi => OutR = Ev.in /\ OutE = Ev.in)
    /\ (Ev.vi => Ev.exp)
    /\ Ev.xr /\ Ev.xe
TE == Is("E") /\ AcceptE /\ UNCHANGED rl

TraceInit == l = 1 /\ rl = 0
TraceNext == TReset \/ TF \/ TE
TraceSpec == TraceInit /\ [][TraceNext]_tvars

(* ------------------- diagnosis of a rejected execution ------------------ *)
\* accepts everything; for each F line the property rejects prints which conjunct failed and,
\* for "dangerous", the reason code and byte position found by the scanner (see XssTok)
B2I(b) == IF b THEN 1 ELSE 0
WF ==
    /\ Is("F") /\ UNCHANGED rl
    /\ (Accept \/ PrintT(<<"WHY", l, Scan(OutR, 1, R, X), Scan(OutE, 1, R, X),
                             B2I(Ev.vor), B2I(Ev.voe), B2I(Ev.sr), B2I(Ev.se),
                             B2I(Ev.vfr = Ev.vi /\ Ev.vfe = Ev.vi),
                             B2I(Ev.vi => OutR = Ev.in /\ OutE = Ev.in),
                             B2I(Ev.vi => WellFormed(Ev.in, R.enc)),
                             B2I(WellFormed(OutR, R.enc) /\ WellFormed(OutE, R.enc)), B2I(InLangOK)>>))
WE ==
    /\ Is("E") /\ UNCHANGED rl
    /\ (AcceptE \/ PrintT(<<"WHYE", l, Scan(OutR, 1, R, {}), Scan(OutE, 1, R, {}),
                              B2I(Ev.vor), B2I(Ev.voe), B2I(Ev.sr), B2I(Ev.se),
                              B2I(Ev.vfr = Ev.vi /\ Ev.vfe = Ev.vi),
                              B2I(Ev.vi => OutR = Ev.in /\ OutE = Ev.in),
                              B2I(Ev.vi => Ev.exp), B2I(Ev.xr /\ Ev.xe)>>))
WhyNext == TReset \/ WF \/ WE
WhySpec == TraceInit /\ [][WhyNext]_tvars

(* ------------------------------- drift --------------------------------- *)
Cleaned(t) == IF WellFormedImpl(t, R.enc) THEN t ELSE EncFilter1(t, 1, R.enc, R.repl)
Comparable(t) == R.enc # "utf8" \/ WellFormedImpl(t, "utf8")
Report(what) == PrintT(<<"DRIFT", l, what>>)
DF ==
    /\ Is("F") /\ UNCHANGED rl
    /\ IF ~Comparable(Ev.in) THEN TRUE
       ELSE LET c  == Cleaned(Ev.in)
                ok == WellFormedImpl(Ev.in, R.enc)
                mv == ok /\ MValidate(Ev.in, R, X)
                mr == IF mv THEN Ev.in ELSE MFilter(c, R, X, FALSE)
                me == IF mv THEN Ev.in ELSE MFilter(c, R, X, TRUE)
            IN /\ (mv = Ev.vi \/ Report("validate"))
               /\ (mr = OutR \/ Report("remove"))
               /\ (me = OutE \/ Report("escape"))
\* charset sweep: the implementation is expected to accept exactly the text that the oracle converts,
\* whose characters are allowed in HTML (no C0 controls but TAB LF CR, no DEL, no C1) and whose markup is valid
HtmlSafe(cp) == cp \in {9, 10, 13} \/ (cp >= 32 /\ cp # 127 /\ ~(cp >= 128 /\ cp <= 159))
DE ==
    /\ Is("E") /\ UNCHANGED rl
    /\ LET mv == /\ Ev.exp
                  /\ \A k \in DOMAIN Ev.cps : HtmlSafe(Ev.cps[k])
                  /\ MValidate(Ev.in, [R EXCEPT !.enc = "none"], {})
       IN mv = Ev.vi \/ Report("charset-validate")
DriftNext == TReset \/ DF \/ DE
DriftSpec == TraceInit /\ [][DriftNext]_tvars
=============================================================================
