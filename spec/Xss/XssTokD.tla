------------------------------- MODULE XssTokD -------------------------------
(***************************************************************************)
(* Leg D for C04, character level: TLC enumerates every string of at most  *)
(* MaxLen fragments over the fragment alphabet Alpha (single markup bytes  *)
(* plus a few multi-byte fragments so that attributes and comments fit the *)
(* bound), in XHTML and HTML mode, remove and escape, for every assignment *)
(* of tag kinds in KA x KB, and checks that the design of the filter       *)
(* (mechanism layer of XssTok) satisfies the property:                     *)
(*   FilterValid, ValidUnchanged, FilterSafe (judged by the independent    *)
(*   lenient scanner), Idempotent, ValidIsSafe.                            *)
(***************************************************************************)
EXTENDS XssTok

CONSTANTS Alpha, MaxLen, KA, KB, Comments, Numeric

Frags == << <<60>>, <<62>>, <<38>>, <<59>>, <<47>>, <<97>>, <<98>>, <<32>>,       \* < > & ; / a b SP
            <<32,99,61,34>>, <<34>>, <<49>>, <<35>>,                              \* ' c="'  "  1  #
            <<60,33,45,45>>, <<45,45,62>>, <<45>>, <<120>>, <<61>>, <<39>>,       \* <!--  -->  -  x  =  '
            <<32,99,61,39>>, <<0>>, <<66>>,                                      \* ' c='' NUL B
            <<60,97>>, <<60,47,97,62>>, <<60,98,62>>, <<60,47,98,62>> >>          \* <a  </a>  <b>  </b>

VARIABLES s, xh, esc, ka, kb, cm, nu,
          t, f, v      \* t = text of s, f = MFilter(t), v = MValidate(t): computed once per state
vars == <<s, xh, esc, ka, kb, cm, nu, t, f, v>>

RECURSIVE Flat(_)
Flat(q) == IF q = <<>> THEN <<>> ELSE Frags[Head(q)] \o Flat(Tail(q))

NoAttr == <<>>
AttrC  == << [n |-> <<99>>, t |-> "int", sch |-> <<>>, set |-> <<>>, min |-> 0, alts |-> <<>>, id |-> 1] >>
Rules == [xhtml |-> xh, comments |-> cm, numeric |-> nu, enc |-> "none",
          ents |-> { <<97,109,112>>, <<108,116>>, <<103,116>>, <<113,117,111,116>>, <<97>> },
          tags |-> << [n |-> <<97>>, k |-> ka, attrs |-> AttrC], [n |-> <<98>>, k |-> kb, attrs |-> NoAttr] >>]

X0 == {}
Init == /\ s = <<>> /\ xh \in BOOLEAN /\ esc \in BOOLEAN /\ ka \in KA /\ kb \in KB
        /\ cm \in Comments /\ nu \in Numeric
        /\ t = <<>> /\ f = <<>> /\ v = TRUE
Next == /\ Len(s) < MaxLen
        /\ \E x \in Alpha : s' = Append(s, x)
        /\ UNCHANGED <<xh, esc, ka, kb, cm, nu>>
        /\ t' = Flat(s')
        /\ f' = MFilter(t', Rules, X0, esc)
        /\ v' = MValidate(t', Rules, X0)
Spec == Init /\ [][Next]_vars

FilterValid    == MValidate(f, Rules, X0)
ValidUnchanged == v => f = t
FilterSafe     == ~Dangerous(f, Rules, X0)
Idempotent     == MFilter(f, Rules, X0, esc) = f
ValidIsSafe    == v => ~Dangerous(t, Rules, X0)
=============================================================================
