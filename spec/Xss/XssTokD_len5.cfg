SPECIFICATION Spec
CONSTANTS
  Alpha = {1,2,3,4,5,6,7,8,9,10,11,12}
  MaxLen = 5
  KA = {3}
  KB = {1}
  Comments = {TRUE}
  Numeric = {TRUE}
INVARIANTS FilterValid ValidUnchanged FilterSafe Idempotent ValidIsSafe
CHECK_DEADLOCK FALSE
