SPECIFICATION Spec
CONSTANTS
  Alpha = {22,9,10,2,23,11,5,8,24,25,19,18}
  MaxLen = 5
  KA = {1,3}
  KB = {1,3}
  Comments = {TRUE}
  Numeric = {TRUE}
INVARIANTS FilterValid ValidUnchanged FilterSafe Idempotent ValidIsSafe
CHECK_DEADLOCK FALSE
