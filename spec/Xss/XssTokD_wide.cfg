SPECIFICATION Spec
CONSTANTS
  Alpha = {1,2,3,4,5,6,7,8,9,10,11,12,13,14,15,16,17,18,19,20,21}
  MaxLen = 4
  KA = {1,3}
  KB = {1}
  Comments = {TRUE,FALSE}
  Numeric = {TRUE}
INVARIANTS FilterValid ValidUnchanged FilterSafe Idempotent ValidIsSafe
CHECK_DEADLOCK FALSE
