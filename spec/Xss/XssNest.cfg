SPECIFICATION Spec
CONSTANTS
  Alpha = {1,2,3,4,5,7,8,9,11,14}
  MaxLen = 6
  KA = {3}
  KB = {1}
  Comments = {TRUE}
  PairInvalidation = TRUE
INVARIANTS FilterValid ValidUnchanged FilterSafe Idempotent Balanced HtmlClosed
CHECK_DEADLOCK FALSE
