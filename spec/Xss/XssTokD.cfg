SPECIFICATION Spec
CONSTANTS
  Alpha = {1,2,3,4,5,6,9,10,11}
  MaxLen = 6
  KA = {3}
  KB = {1}
  Comments = {TRUE}
  Numeric = {TRUE}
INVARIANTS FilterValid ValidUnchanged FilterSafe Idempotent ValidIsSafe
CHECK_DEADLOCK FALSE
