------------------------------- MODULE XssTok -------------------------------
(***************************************************************************)
(* C04 - character level.                                                  *)
(*                                                                         *)
(* Texts are sequences of bytes (0..255).  Two independent things live     *)
(* here:                                                                   *)
(*                                                                         *)
(* 1. PROPERTY LAYER - Dangerous(t, R, X): a deliberately browser-lenient  *)
(*    left-to-right scanner, written from the property statement and NOT   *)
(*    from src/xss.cpp.  Every '<', '>' and '&' of the text must lie       *)
(*    inside a construct the rule set R allows:                            *)
(*      - entity  &name;  with name in R.ents, or a numeric reference      *)
(*        (only if R.numeric) to a code point that is not a control;       *)
(*      - comment <!-- ... --> (only if R.comments) whose body has no      *)
(*        '<', '>', '&';                                                   *)
(*      - tag whose name (everything up to white space, '/' or '>', as a   *)
(*        browser reads it) is white-listed with a kind fitting its form,  *)
(*        whose attributes are white-listed for that tag, unique, values   *)
(*        quoted, free of '<' '>', '&' only as one of the fixed entities,  *)
(*        and satisfying the value predicate of the rule (boolean,         *)
(*        integer, URI whose browser-read scheme is white-listed, char-set *)
(*        / alternatives expressions evaluated here, opaque validators by  *)
(*        the verdict table X logged by the harness).                      *)
(*    The scanner is lenient where a browser is (white space around '=',   *)
(*    attributes glued to a closing quote, case of URI schemes, '--'       *)
(*    inside comments) so that it never depends on the strict grammar of   *)
(*    the implementation, and strict about everything else.                *)
(*    WellFormed(t, enc) is the RFC 3629 / code-page predicate.            *)
(*                                                                         *)
(* 2. MECHANISM LAYER - MValidate / MFilter: a model of the algorithm of   *)
(*    src/xss.cpp (split_to_parts, parse_html_tag, parse_properties,       *)
(*    parse_html_entity, validate_nesting, validate_entry_by_rules, pair   *)
(*    invalidation, remove / escape).  Leg D checks on all bounded strings *)
(*    that this design satisfies the property; Leg B compares it with the  *)
(*    implementation as MODEL-DRIFT only.                                  *)
(*                                                                         *)
(* Rule set R = [xhtml, comments, numeric : BOOLEAN, enc : STRING,         *)
(*   ents : set of byte strings,                                           *)
(*   tags : sequence of [n : bytes, k : 0..3 (invalid, opening_and_closing,*)
(*          stand_alone, any_tag), attrs : sequence of                     *)
(*          [n : bytes, t : "bool"|"int"|"uri"|"rel"|"abs"|"cset"|"alts"|  *)
(*           "opq", sch : seq of bytes (allowed schemes), set : bytes,     *)
(*           min : 0..1, alts : seq of bytes, id : Nat]]]                  *)
(* X = set of [id, v, ok] verdicts of opaque validators.                   *)
(***************************************************************************)
EXTENDS Integers, Sequences, FiniteSets, TLC

NONE == 256                       \* "no byte"
At(t, i) == IF i >= 1 /\ i <= Len(t) THEN t[i] ELSE NONE
ToSet(s) == { s[i] : i \in DOMAIN s }

IsWs(c)    == c = 32 \/ c = 9 \/ c = 10 \/ c = 13
IsDigit(c) == c >= 48 /\ c <= 57
IsHex(c)   == IsDigit(c) \/ (c >= 97 /\ c <= 102) \/ (c >= 65 /\ c <= 70)
IsAlpha(c) == (c >= 97 /\ c <= 122) \/ (c >= 65 /\ c <= 90)
IsAlnum(c) == IsAlpha(c) \/ IsDigit(c)
Lower(c)   == IF c >= 65 /\ c <= 90 THEN c + 32 ELSE c
LowerSeq(s) == [k \in 1..Len(s) |-> Lower(s[k])]
NameEq(a, b, exact) == IF exact THEN a = b ELSE Len(a) = Len(b) /\ LowerSeq(a) = LowerSeq(b)
DigitVal(c) == IF IsDigit(c) THEN c - 48 ELSE IF c >= 97 THEN c - 87 ELSE c - 55

RECURSIVE FindByte(_, _, _)          \* first index >= i holding byte c, 0 if none
FindByte(t, i, c) == IF i > Len(t) THEN 0 ELSE IF t[i] = c THEN i ELSE FindByte(t, i + 1, c)

RECURSIVE SkipWs(_, _)
SkipWs(t, i) == IF i <= Len(t) /\ IsWs(t[i]) THEN SkipWs(t, i + 1) ELSE i

MatchAt(t, i, s) == i + Len(s) - 1 <= Len(t) /\ \A k \in 1..Len(s) : t[i + k - 1] = s[k]

RECURSIVE NumVal(_, _, _, _, _)      \* saturating: stops growing beyond 0x10FFFF
NumVal(t, i, j, base, acc) ==
    IF i > j \/ acc > 1114111 THEN acc ELSE NumVal(t, i + 1, j, base, acc * base + DigitVal(t[i]))

\* "amp;" "lt;" "gt;" "quot;" "apos;" "#x27;" "#X27;" "#39;" - the only uses of '&' inside a value
FixedEnts == { <<97,109,112,59>>, <<108,116,59>>, <<103,116,59>>, <<113,117,111,116,59>>,
               <<97,112,111,115,59>>, <<35,120,50,55,59>>, <<35,88,50,55,59>>, <<35,51,57,59>> }

-----------------------------------------------------------------------------
(* ------------------------------ encodings ------------------------------ *)
RECURSIVE Utf8From(_, _)
Utf8From(t, i) ==
    IF i > Len(t) THEN TRUE
    ELSE LET c == t[i]  c1 == At(t, i + 1)  c2 == At(t, i + 2)  c3 == At(t, i + 3)
             Tr(x) == x >= 128 /\ x <= 191
         IN IF c <= 127 THEN Utf8From(t, i + 1)
            ELSE IF c >= 194 /\ c <= 223 THEN Tr(c1) /\ Utf8From(t, i + 2)
            ELSE IF c = 224 THEN c1 >= 160 /\ c1 <= 191 /\ Tr(c2) /\ Utf8From(t, i + 3)
            ELSE IF c = 237 THEN c1 >= 128 /\ c1 <= 159 /\ Tr(c2) /\ Utf8From(t, i + 3)
            ELSE IF c >= 225 /\ c <= 239 THEN Tr(c1) /\ Tr(c2) /\ Utf8From(t, i + 3)
            ELSE IF c = 240 THEN c1 >= 144 /\ c1 <= 191 /\ Tr(c2) /\ Tr(c3) /\ Utf8From(t, i + 4)
            ELSE IF c >= 241 /\ c <= 243 THEN Tr(c1) /\ Tr(c2) /\ Tr(c3) /\ Utf8From(t, i + 4)
            ELSE IF c = 244 THEN c1 >= 128 /\ c1 <= 143 /\ Tr(c2) /\ Tr(c3) /\ Utf8From(t, i + 4)
            ELSE FALSE

\* well-formed in the declared encoding (RFC 3629; windows-1252 has five unassigned bytes;
\* every byte is a character of ISO-8859-1; "none" declares nothing)
WellFormed(t, enc) ==
    IF enc = "utf8" THEN Utf8From(t, 1)
    ELSE IF enc = "cp1252" THEN \A i \in DOMAIN t : t[i] \notin {129, 141, 143, 144, 157}
    ELSE TRUE


\* what src/encoding.cpp accepts (stricter: also rejects control characters) - mechanism layer only
ImplByteOK(c, enc) ==
    IF c \in {9, 10, 13} THEN TRUE
    ELSE IF c < 32 \/ c = 127 THEN FALSE
    ELSE IF enc = "latin1" THEN ~(c >= 128 /\ c <= 159)
    ELSE IF enc = "cp1252" THEN c \notin {129, 141, 143, 144, 157}
    ELSE TRUE
WellFormedImpl(t, enc) ==
    IF enc = "none" THEN TRUE
    ELSE IF enc = "utf8" THEN /\ Utf8From(t, 1)
                              /\ \A i \in DOMAIN t : ImplByteOK(t[i], "utf8")
                              /\ \A i \in DOMAIN t : t[i] = 194 => At(t, i + 1) >= 160
    ELSE \A i \in DOMAIN t : ImplByteOK(t[i], enc)
\* validate_or_filter for the single-byte code pages: drop or replace each bad byte
RECURSIVE EncFilter1(_, _, _, _)
EncFilter1(t, i, enc, repl) ==
    IF i > Len(t) THEN <<>>
    ELSE (IF ImplByteOK(t[i], enc) THEN <<t[i]>> ELSE IF repl = 0 THEN <<>> ELSE <<repl>>) \o EncFilter1(t, i + 1, enc, repl)

-----------------------------------------------------------------------------
(* --------------------- value predicates (both layers) ------------------- *)
IsSchemeCh(c) == IsAlnum(c) \/ c = 43 \/ c = 45 \/ c = 46
\* what a browser takes for the scheme: bytes <= 0x20 are dropped (leading blanks / embedded
\* tab, CR, LF), then ALPHA *(ALPHA / DIGIT / + - .) ':' ; result lower-cased, <<>> = relative
BrowserScheme(v) ==
    LET w == SelectSeq(v, LAMBDA c : c > 32)
        S == { k \in 1..Len(w) : ~IsSchemeCh(w[k]) }
        e == IF S = {} THEN Len(w) + 1 ELSE CHOOSE k \in S : \A j \in S : k <= j
    IN IF Len(w) > 0 /\ IsAlpha(w[1]) /\ At(w, e) = 58 THEN LowerSeq(SubSeq(w, 1, e - 1)) ELSE <<>>

IntOK(v) == LET s == IF At(v, 1) = 45 THEN 2 ELSE 1
            IN s <= Len(v) /\ \A k \in s..Len(v) : IsDigit(v[k])

Verdict(X, id, v) == \E x \in X : x.id = id /\ x.v = v /\ x.ok

\* property-level predicate of a quoted value v for attribute rule a of name an
ValuePred(v, a, an, R, X) ==
    CASE a.t = "bool" -> NameEq(v, an, R.xhtml)
      [] a.t = "int"  -> IntOK(v)
      [] a.t = "uri"  -> LET s == BrowserScheme(v) IN s = <<>> \/ s \in ToSet(a.sch)
      [] a.t = "rel"  -> BrowserScheme(v) = <<>>
      [] a.t = "abs"  -> BrowserScheme(v) \in ToSet(a.sch)
      [] a.t = "cset" -> Len(v) >= a.min /\ \A k \in DOMAIN v : v[k] \in ToSet(a.set)
      [] a.t = "alts" -> v \in ToSet(a.alts)
      [] a.t = "opq"  -> Verdict(X, a.id, v)
      [] OTHER -> FALSE

-----------------------------------------------------------------------------
(* ------------------ PROPERTY LAYER: the lenient scanner ----------------- *)
CpOK(cp) == cp \in {9, 10, 13} \/ (cp >= 32 /\ cp <= 126) \/ (cp >= 160 /\ cp <= 1114111)

NumericRefOK(t, a, b) ==          \* t[a..b] = "#" digits | "#x" hexdigits
    /\ a <= b /\ t[a] = 35
    /\ LET hex == At(t, a + 1) \in {120, 88}
           ds  == IF hex THEN a + 2 ELSE a + 1
       IN /\ ds <= b
          /\ \A k \in ds..b : IF hex THEN IsHex(t[k]) ELSE IsDigit(t[k])
          /\ CpOK(NumVal(t, ds, b, IF hex THEN 16 ELSE 10, 0))

EntityEnd(t, i, R) ==             \* t[i] = '&'; index of the closing ';' or 0
    LET j == FindByte(t, i + 1, 59)
    IN IF j = 0 THEN 0
       ELSE IF SubSeq(t, i + 1, j - 1) \in R.ents THEN j
       ELSE IF R.numeric /\ NumericRefOK(t, i + 1, j - 1) THEN j
       ELSE 0

TagIdx(R, nm) == LET S == { k \in DOMAIN R.tags : NameEq(R.tags[k].n, nm, R.xhtml) }
                 IN IF S = {} THEN 0 ELSE CHOOSE k \in S : TRUE
AttrIdx(tag, nm, exact) == LET S == { k \in DOMAIN tag.attrs : NameEq(tag.attrs[k].n, nm, exact) }
                           IN IF S = {} THEN 0 ELSE CHOOSE k \in S : TRUE

RECURSIVE NameEnd(_, _)           \* a browser ends a tag name at white space, '/' or '>'
NameEnd(t, i) == IF i > Len(t) \/ IsWs(t[i]) \/ t[i] = 47 \/ t[i] = 62 THEN i ELSE NameEnd(t, i + 1)
RECURSIVE AttrNameEnd(_, _)       \* ... and an attribute name additionally at '='
AttrNameEnd(t, i) == IF i > Len(t) \/ IsWs(t[i]) \/ t[i] = 47 \/ t[i] = 62 \/ t[i] = 61 THEN i
                     ELSE AttrNameEnd(t, i + 1)

(* Scanner results: an index > 0 = the construct ends there; a value < 0 = -reason:          *)
(*  1 stray '>'   2 '&' that is not an allowed entity   3 comment not allowed / unterminated /   *)
(*  with markup inside   4 tag name not white-listed (or malformed tag)   5 tag form does not   *)
(*  fit its kind   6 attribute not white-listed for the tag / duplicated / malformed            *)
(*  7 value unquoted or unterminated   8 value contains '<' '>' or a bare '&'                   *)
(*  9 value fails its boolean / integer / expression predicate   10 URI scheme not allowed      *)
(*  11 relative reference where only absolute URIs are allowed                                  *)
ValueFail(t, a, b, attr, an, R, X) ==      \* 0 = fine, else reason
    IF \E j \in a..b : t[j] = 60 \/ t[j] = 62 THEN 8
    ELSE IF \E j \in a..b : t[j] = 38 /\ ~(\E s \in FixedEnts : j + Len(s) <= b /\ MatchAt(t, j + 1, s)) THEN 8
    ELSE LET v == SubSeq(t, a, b) IN
         IF attr.t \in {"uri", "rel", "abs"}
         THEN LET s == BrowserScheme(v) IN
              CASE attr.t = "uri" -> IF s = <<>> \/ s \in ToSet(attr.sch) THEN 0 ELSE 10
                [] attr.t = "rel" -> IF s = <<>> THEN 0 ELSE 10
                [] OTHER          -> IF s = <<>> THEN 11 ELSE IF s \in ToSet(attr.sch) THEN 0 ELSE 10
         ELSE IF ValuePred(v, attr, an, R, X) THEN 0 ELSE 9

RECURSIVE AttrsEnd(_, _, _, _, _, _)   \* index of the tag's '>' or -reason
AttrsEnd(t, q0, R, tag, seen, X) ==
    LET q == SkipWs(t, q0)
    IN IF At(t, q) = 62 THEN q
       ELSE IF At(t, q) = 47 /\ At(t, q + 1) = 62 THEN q + 1
       ELSE IF q > Len(t) THEN -4
       ELSE LET ne == AttrNameEnd(t, q)
                an == SubSeq(t, q, ne - 1)
                ai == AttrIdx(tag, an, R.xhtml)
            IN IF ne = q \/ ai = 0 \/ (\E s \in seen : NameEq(s, an, R.xhtml)) THEN -6
               ELSE LET a  == tag.attrs[ai]
                        q3 == SkipWs(t, ne)
                    IN IF At(t, q3) = 61
                       THEN LET q4 == SkipWs(t, q3 + 1)
                                qc == At(t, q4)
                                q5 == IF qc = 34 \/ qc = 39 THEN FindByte(t, q4 + 1, qc) ELSE 0
                            IN IF q5 = 0 THEN -7                      \* unquoted / unterminated value
                               ELSE LET f == ValueFail(t, q4 + 1, q5 - 1, a, an, R, X)
                                    IN IF f # 0 THEN -f
                                       ELSE AttrsEnd(t, q5 + 1, R, tag, seen \cup {an}, X)
                       ELSE IF a.t = "bool" THEN AttrsEnd(t, ne, R, tag, seen \cup {an}, X)
                       ELSE -9

TagEnd(t, i, R, X) ==             \* t[i] = '<' and not a comment opener
    LET closing == At(t, i + 1) = 47
        p  == IF closing THEN i + 2 ELSE i + 1
        ne == NameEnd(t, p)
        ti == TagIdx(R, SubSeq(t, p, ne - 1))
    IN IF ne = p \/ ti = 0 THEN -4
       ELSE LET tag == R.tags[ti]
            IN IF tag.k = 0 THEN -4
               ELSE IF closing
               THEN LET q == SkipWs(t, ne) IN IF At(t, q) # 62 THEN -4 ELSE IF tag.k \in {1, 3} THEN q ELSE -5
               ELSE LET e == AttrsEnd(t, ne, R, tag, {}, X)
                    IN IF e < 0 THEN e
                       ELSE IF t[e - 1] = 47 /\ e - 1 >= ne      \* "/>" form
                            THEN (IF tag.k \in {2, 3} THEN e ELSE -5)
                            ELSE (IF R.xhtml /\ tag.k = 2 THEN -5 ELSE e)

RECURSIVE FindCmtEnd(_, _)        \* first k >= i with t[k..k+2] = "-->", 0 if none
FindCmtEnd(t, i) == IF i + 2 > Len(t) THEN 0
                    ELSE IF t[i] = 45 /\ t[i + 1] = 45 /\ t[i + 2] = 62 THEN i ELSE FindCmtEnd(t, i + 1)

ConstructEnd(t, i, R, X) ==
    IF At(t, i + 1) = 33 /\ At(t, i + 2) = 45 /\ At(t, i + 3) = 45
    THEN LET k == FindCmtEnd(t, i + 4)
         IN IF k = 0 \/ ~R.comments THEN -3
            ELSE IF \E j \in (i + 4)..(k - 1) : t[j] \in {60, 62, 38} THEN -3
            ELSE k + 2
    ELSE TagEnd(t, i, R, X)

\* 0 = every '<' '>' '&' lies inside an allowed construct; else reason * 100000 + position
RECURSIVE Scan(_, _, _, _)
Scan(t, i, R, X) ==
    IF i > Len(t) THEN 0
    ELSE LET c == t[i]
         IN IF c = 62 THEN 100000 + i
            ELSE IF c = 38 THEN (LET e == EntityEnd(t, i, R) IN IF e > 0 THEN Scan(t, e + 1, R, X) ELSE 200000 + i)
            ELSE IF c = 60 THEN (LET e == ConstructEnd(t, i, R, X) IN IF e > 0 THEN Scan(t, e + 1, R, X) ELSE (-e) * 100000 + i)
            ELSE Scan(t, i + 1, R, X)

Dangerous(t, R, X) == Scan(t, 1, R, X) # 0

-----------------------------------------------------------------------------
(* --------------- MECHANISM LAYER: the algorithm of xss.cpp -------------- *)
(* Parts are records [b, e : 1-based inclusive byte range, ty, nb, ne : name range,      *)
(* props : seq of [nb, ne, vb, ve] (vb = 0: no value), pair : index or 0].                *)
(* ty: "inv" "txt" "ent" "num" "cmt" "tag"(unparsed) "open" "close" "self" "ocws".        *)
MkPart(b, e, ty) == [b |-> b, e |-> e, ty |-> ty, nb |-> 0, ne |-> 0, props |-> <<>>, pair |-> 0]

RECURSIVE FindDD(_, _)             \* first k >= i with t[k] = t[k+1] = '-', 0 if none
FindDD(t, i) == IF i + 1 > Len(t) THEN 0 ELSE IF t[i] = 45 /\ t[i + 1] = 45 THEN i ELSE FindDD(t, i + 1)
RECURSIVE TextEnd(_, _)            \* first index > i holding '<' '>' '&', or Len+1
TextEnd(t, i) == IF i > Len(t) \/ t[i] = 60 \/ t[i] = 62 \/ t[i] = 38 THEN i ELSE TextEnd(t, i + 1)

RECURSIVE SplitFrom(_, _)
SplitFrom(t, p) ==
    LET n == Len(t) IN
    IF p > n THEN <<>>
    ELSE LET c == t[p] IN
      IF c = 38 THEN
         LET e == FindByte(t, p + 1, 59)
         IN IF e = 0 THEN << MkPart(p, n, "inv") >> ELSE << MkPart(p, e, "ent") >> \o SplitFrom(t, e + 1)
      ELSE IF c = 60 THEN
         IF p + 4 <= n /\ t[p + 1] = 33 /\ t[p + 2] = 45 /\ t[p + 3] = 45
         THEN LET d == FindDD(t, p + 4)
              IN IF d # 0 /\ d + 2 <= n /\ t[d + 2] = 62
                 THEN << MkPart(p, d + 2, IF \E j \in (p + 4)..(d - 1) : t[j] \in {60, 62, 38}
                                          THEN "inv" ELSE "cmt") >> \o SplitFrom(t, d + 3)
                 ELSE << MkPart(p, n, "inv") >>
         ELSE LET e == FindByte(t, p + 1, 62)
              IN IF e = 0 THEN << MkPart(p, n, "inv") >> ELSE << MkPart(p, e, "tag") >> \o SplitFrom(t, e + 1)
      ELSE IF c = 62 THEN << MkPart(p, p, "inv") >> \o SplitFrom(t, p + 1)
      ELSE LET e == TextEnd(t, p + 1) IN << MkPart(p, e - 1, "txt") >> \o SplitFrom(t, e)

IsAlphaU(c) == IsAlpha(c) \/ c = 95          \* ascii_isalpha of xss.cpp accepts '_'
RECURSIVE AlnumEnd(_, _)
AlnumEnd(t, i) == IF i <= Len(t) /\ IsAlnum(t[i]) THEN AlnumEnd(t, i + 1) ELSE i

MValueCharsOK(t, a, b) ==          \* validate_property_value
    /\ \A j \in a..b : t[j] # 60 /\ t[j] # 62
    /\ \A j \in a..b : t[j] = 38 => \E s \in FixedEnts : j + Len(s) <= b /\ MatchAt(t, j + 1, s)

RECURSIVE MProps(_, _, _, _, _)    \* parse_properties over t[b..e-1]; <<ok, props>>
MProps(t, b, e, sp, acc) ==
    IF b >= e THEN <<TRUE, acc>>
    ELSE LET c == t[b] IN
      IF IsWs(c) THEN MProps(t, b + 1, e, TRUE, acc)
      ELSE IF ~sp \/ ~IsAlphaU(c) THEN <<FALSE, acc>>
      ELSE LET nb == AlnumEnd(t, b)        \* note: a leading '_' is followed by alnum only
               nb2 == IF nb = b THEN b ELSE nb
               pr == [nb |-> b, ne |-> nb2 - 1, vb |-> 0, ve |-> 0]
           IN IF IsWs(At(t, nb2)) THEN MProps(t, nb2 + 1, e, TRUE, Append(acc, pr))
              ELSE IF At(t, nb2) # 61 THEN <<FALSE, acc>>
              ELSE LET q == At(t, nb2 + 1)
                       v1 == nb2 + 2
                       qe == IF q = 34 \/ q = 39 THEN FindByte(t, v1, q) ELSE 0
                   IN IF qe = 0 \/ qe >= e THEN <<FALSE, acc>>
                      ELSE IF ~MValueCharsOK(t, v1, qe - 1) THEN <<FALSE, acc>>
                      ELSE MProps(t, qe + 1, e, FALSE, Append(acc, [pr EXCEPT !.vb = v1, !.ve = qe - 1]))

MParseEnt(t, P) ==                 \* parse_html_entity; P.b = '&', P.e = ';'
    LET b == P.b + 1  e == P.e IN
    IF e <= b THEN [P EXCEPT !.ty = "inv"]
    ELSE IF t[b] = 35 THEN
        LET hex == At(t, b + 1) \in {120, 88}
            ds  == IF hex THEN b + 2 ELSE b + 1
        IN IF ds >= e THEN [P EXCEPT !.ty = "inv"]
           ELSE IF \E k \in ds..(e - 1) : IF hex THEN ~IsHex(t[k]) ELSE ~IsDigit(t[k]) THEN [P EXCEPT !.ty = "inv"]
           ELSE LET cp == NumVal(t, ds, e - 1, IF hex THEN 16 ELSE 10, 0)
                IN IF cp > 1114111 \/ (cp >= 55296 /\ cp <= 56319) \/ cp = 65535 \/ cp = 65534
                      \/ (cp >= 127 /\ cp <= 159) \/ (cp < 32 /\ cp \notin {9, 10, 13})
                   THEN [P EXCEPT !.ty = "inv"] ELSE [P EXCEPT !.ty = "num"]
    ELSE IF \E k \in b..(e - 1) : ~IsAlnum(t[k]) THEN [P EXCEPT !.ty = "inv"]
    ELSE [P EXCEPT !.nb = b, !.ne = e - 1]

MParseTag(t, P) ==                 \* parse_html_tag; P.b = '<', P.e = '>'
    LET b == P.b + 1  e == P.e IN
    IF e <= b THEN [P EXCEPT !.ty = "inv"]
    ELSE IF t[b] = 47 THEN
        IF ~IsAlphaU(t[b + 1]) THEN [P EXCEPT !.ty = "inv"]
        ELSE LET re == AlnumEnd(t, b + 2)
                 q  == SkipWs(t, re)
             IN IF q # e THEN [P EXCEPT !.ty = "inv"] ELSE [P EXCEPT !.ty = "close", !.nb = b + 1, !.ne = re - 1]
    ELSE IF ~IsAlphaU(t[b]) THEN [P EXCEPT !.ty = "inv"]
    ELSE LET ne == AlnumEnd(t, b + 1)
             self == t[e - 1] = 47
             pe == IF self THEN e - 1 ELSE e
             r == MProps(t, ne, pe, TRUE, <<>>)
         IN IF ~r[1] THEN [P EXCEPT !.ty = "inv", !.nb = b, !.ne = ne - 1]
            ELSE [P EXCEPT !.ty = IF self THEN "self" ELSE "open", !.nb = b, !.ne = ne - 1, !.props = r[2]]

MParse(t, P) == IF P.ty = "ent" THEN MParseEnt(t, P) ELSE IF P.ty = "tag" THEN MParseTag(t, P) ELSE P
MParts(t) == LET s == SplitFrom(t, 1) IN [k \in 1..Len(s) |-> MParse(t, s[k])]

PName(t, P) == SubSeq(t, P.nb, P.ne)

(* validate_nesting: ps = parts, i = cursor, st = stack of indices (top = last) *)
RECURSIVE MNest(_, _, _, _, _)
RECURSIVE HtmlClose(_, _, _, _, _)
\* HTML closing tag: pop until a match; the popped ones become stand-alone ("ocws")
HtmlClose(t, ps, i, st, xh) ==
    IF st = <<>> THEN <<[ps EXCEPT ![i].ty = "inv"], st>>
    ELSE LET top == st[Len(st)]  st2 == SubSeq(st, 1, Len(st) - 1)
         IN IF NameEq(PName(t, ps[top]), PName(t, ps[i]), xh)
            THEN <<[ps EXCEPT ![i].pair = top, ![top].pair = i], st2>>
            ELSE HtmlClose(t, [ps EXCEPT ![top].ty = "ocws"], i, st2, xh)
MNest(t, ps, i, st, xh) ==
    IF i > Len(ps)
    THEN [k \in 1..Len(ps) |-> IF k \in ToSet(st) THEN [ps[k] EXCEPT !.ty = IF xh THEN "inv" ELSE "ocws"] ELSE ps[k]]
    ELSE IF ps[i].ty = "open" THEN MNest(t, ps, i + 1, Append(st, i), xh)
    ELSE IF ps[i].ty = "close" THEN
        IF xh THEN
            IF st = <<>> THEN MNest(t, [ps EXCEPT ![i].ty = "inv"], i + 1, st, xh)
            ELSE LET top == st[Len(st)]  st2 == SubSeq(st, 1, Len(st) - 1)
                 IN IF NameEq(PName(t, ps[top]), PName(t, ps[i]), TRUE)
                    THEN MNest(t, [ps EXCEPT ![i].pair = top, ![top].pair = i], i + 1, st2, xh)
                    ELSE MNest(t, [ps EXCEPT ![i].ty = "inv", ![top].ty = "inv"], i + 1, st2, xh)
        ELSE LET r == HtmlClose(t, ps, i, st, FALSE) IN MNest(t, r[1], i + 1, r[2], xh)
    ELSE MNest(t, ps, i + 1, st, xh)

\* simplified RFC 3986 acceptance used by the design model when no verdict is logged
UriChars == { 33, 36, 39, 40, 41, 42, 43, 44, 59, 61, 58, 47, 63, 35, 64, 45, 46, 95, 126, 37, 38 }
MUriOK(v, a) ==
    /\ \A k \in DOMAIN v : IsAlnum(v[k]) \/ v[k] \in UriChars
    /\ LET s == BrowserScheme(v)
       IN CASE a.t = "uri" -> s = <<>> \/ SubSeq(v, 1, Len(s)) \in ToSet(a.sch)
            [] a.t = "rel" -> s = <<>>
            [] OTHER       -> s # <<>> /\ SubSeq(v, 1, Len(s)) \in ToSet(a.sch)

HasVerdict(X, id, v) == \E x \in X : x.id = id /\ x.v = v
MValidator(v, a, X) ==
    IF a.t \in {"uri", "rel", "abs", "opq"} /\ HasVerdict(X, a.id, v) THEN Verdict(X, a.id, v)
    ELSE CASE a.t = "int"  -> IntOK(v)
           [] a.t = "cset" -> Len(v) >= a.min /\ \A k \in DOMAIN v : v[k] \in ToSet(a.set)
           [] a.t = "alts" -> v \in ToSet(a.alts)
           [] a.t \in {"uri", "rel", "abs"} -> MUriOK(v, a)
           [] OTHER -> FALSE

RECURSIVE MPropsOK(_, _, _, _, _, _, _)
MPropsOK(t, P, k, tag, seen, R, X) ==
    IF k > Len(P.props) THEN TRUE
    ELSE LET pr == P.props[k]
             pn == SubSeq(t, pr.nb, pr.ne)
             ai == AttrIdx(tag, pn, R.xhtml)
         IN /\ ~(\E s \in seen : NameEq(s, pn, R.xhtml))
            /\ ai # 0
            /\ LET a == tag.attrs[ai] IN
               IF pr.vb = 0 THEN ~R.xhtml /\ a.t = "bool"
               ELSE IF a.t = "bool" THEN R.xhtml /\ SubSeq(t, pr.vb, pr.ve) = pn
               ELSE MValidator(SubSeq(t, pr.vb, pr.ve), a, X)
            /\ MPropsOK(t, P, k + 1, tag, seen \cup {pn}, R, X)

MEntryOK(t, P, R, X) ==            \* validate_entry_by_rules
    CASE P.ty = "txt" -> TRUE
      [] P.ty = "ent" -> PName(t, P) \in R.ents
      [] P.ty = "cmt" -> R.comments
      [] P.ty = "num" -> R.numeric
      [] P.ty \in {"open", "close", "self", "ocws"} ->
            LET ti == TagIdx(R, PName(t, P)) IN
            /\ ti # 0
            /\ LET tag == R.tags[ti] IN
               /\ CASE tag.k = 0 -> FALSE
                    [] tag.k = 2 -> P.ty \in {"ocws", "self"}
                    [] tag.k = 1 -> P.ty \in {"open", "close"}
                    [] OTHER -> TRUE
               /\ (P.ty = "close" \/ MPropsOK(t, P, 1, tag, {}, R, X))
      [] OTHER -> FALSE

MNested(t, R) == LET ps == MParts(t) IN MNest(t, ps, 1, <<>>, R.xhtml)

MValidate(t, R, X) ==
    /\ WellFormedImpl(t, R.enc)
    /\ LET ps == MNested(t, R) IN \A k \in DOMAIN ps : ps[k].ty # "inv" /\ MEntryOK(t, ps[k], R, X)

EscByte(c) == CASE c = 60 -> <<38,108,116,59>> [] c = 62 -> <<38,103,116,59>>
                [] c = 38 -> <<38,97,109,112,59>> [] c = 34 -> <<38,113,117,111,116,59>> [] OTHER -> <<c>>
RECURSIVE EscRange(_, _, _)
EscRange(t, a, b) == IF a > b THEN <<>> ELSE EscByte(t[a]) \o EscRange(t, a + 1, b)

RECURSIVE MEmit(_, _, _, _, _)
MEmit(t, ps, bad, k, esc) ==
    IF k > Len(ps) THEN <<>>
    ELSE (IF k \in bad THEN (IF esc THEN EscRange(t, ps[k].b, ps[k].e) ELSE <<>>)
          ELSE SubSeq(t, ps[k].b, ps[k].e)) \o MEmit(t, ps, bad, k + 1, esc)

\* validate_and_filter_if_invalid on text that is well-formed in its encoding
MFilter(t, R, X, esc) ==
    LET ps   == MNested(t, R)
        bad0 == { k \in DOMAIN ps : ps[k].ty = "inv" \/ ~MEntryOK(t, ps[k], R, X) }
        bad  == bad0 \cup { ps[k].pair : k \in { j \in bad0 : ps[j].ty # "inv" /\ ps[j].pair # 0 } }
    IN IF bad = {} THEN t ELSE MEmit(t, ps, bad, 1, esc)

=============================================================================
