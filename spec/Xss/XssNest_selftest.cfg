SPECIFICATION Spec
CONSTANTS
  Alpha = {1,2,3,4,5,6,7,8,9,10,11,14}
  MaxLen = 3
  KA = {1,3}
  KB = {1,2}
  Comments = {TRUE,FALSE}
  PairInvalidation = FALSE
INVARIANTS FilterValid ValidUnchanged FilterSafe Idempotent Balanced HtmlClosed
CHECK_DEADLOCK FALSE
