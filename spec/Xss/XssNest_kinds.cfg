SPECIFICATION Spec
CONSTANTS
  Alpha = {1,2,3,4,5,6,7,8,9,10,11,14,12}
  MaxLen = 4
  KA = {0,1,2,3}
  KB = {1,2,3}
  Comments = {TRUE,FALSE}
  PairInvalidation = TRUE
INVARIANTS FilterValid ValidUnchanged FilterSafe Idempotent Balanced HtmlClosed
CHECK_DEADLOCK FALSE
