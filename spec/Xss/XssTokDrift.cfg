SPECIFICATION DriftSpec
POSTCONDITION TraceDone
CHECK_DEADLOCK FALSE
