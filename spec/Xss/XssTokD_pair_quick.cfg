SPECIFICATION Spec
CONSTANTS
  Alpha = {22,9,10,2,23,11,5}
  MaxLen = 5
  KA = {3}
  KB = {1}
  Comments = {TRUE}
  Numeric = {TRUE}
INVARIANTS FilterValid ValidUnchanged FilterSafe Idempotent ValidIsSafe
CHECK_DEADLOCK FALSE
