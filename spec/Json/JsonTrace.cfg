SPECIFICATION TraceSpec
CONSTANTS
  MaxDepth = 512
  MaxToks = 0
  TreeDepth = 0
  TreeWidth = 0
  RichScalars = FALSE
  ShortLimit = 120
  KeysLimit = 2000
POSTCONDITION TraceDone
CHECK_DEADLOCK FALSE
