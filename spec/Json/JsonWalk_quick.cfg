SPECIFICATION WalkSpec
CONSTANTS
  MaxDepth = 2
  MaxToks = 8
  TreeDepth = 1
  TreeWidth = 1
  RichScalars = FALSE
INVARIANTS Sound Untouched AcceptsOnlyLenient AcceptsAllWalked DepthBound
CHECK_DEADLOCK FALSE
