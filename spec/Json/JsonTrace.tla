------------------------------ MODULE JsonTrace ------------------------------
(* Leg B for C11: every call recorded by harness/json/json_drv.cpp against the *)
(* real cppcms::json is judged here.  Function-style: one independent          *)
(* judgement per event; an event that breaks the property is FLAGged           *)
(* (<<"FLAG", class, detail, line>>) and validation continues.                 *)
(*                                                                              *)
(* Parse{api,full,b,ok,t0,t1}   (a) ok => Sound(t1)                             *)
(*                              (b) b short and an RFC 8259 document with      *)
(*                                  unique keys, depth <= MaxDepth, numbers    *)
(*                                  in the plainly finite range                *)
(*                                  => ok /\ t1 = the tree it denotes          *)
(*                              (c) ~ok => t1 = t0                              *)
(* Nest{kind,d,b,ok,...}        b is checked to be the depth-d chain; ok iff   *)
(*                              d <= MaxDepth; depth, round trip, untouched    *)
(* Print{t,b,ok2,t2,ok3,t3}     (d) b short => b is an RFC 8259 document that  *)
(*                                  denotes t (numbers: the printed literal =  *)
(*                                  the value to 16 digits); the re-parse      *)
(*                                  gives t (numbers equal to 16 digits) and   *)
(*                                  the second round reproduces it exactly     *)
(* Build{ops,t,got}             an object built through operator[]: exactly the  *)
(*                              distinct keys, each with its last value, each  *)
(*                              retrievable (keys with embedded NUL, bytes >=  *)
(*                              0x80, prefixes of each other, long keys ...)   *)
(* Parse{..,look,lookobj}       every member of the parsed object retrievable  *)
(*                              by its own key with its own value              *)
(* Get{ty,n,ok,v}               (e) ok => v = n exactly (float: when n is a    *)
(*                                  float), never ok for inf / nan / non-      *)
(*                                  numbers                                     *)
(* Classes starting with "drift-" compare with the implementation-shaped       *)
(* model (ImplTokens + Parse): informational, never a violation.               *)
EXTENDS JsonParse, TraceBase

CONSTANTS ShortLimit,    \* documents up to this many bytes are tokenised and parsed in TLA+
          KeysLimit      \* the same for the adversarial-key documents of the driver (long keys)

VARIABLE l
tvars == <<pvars, l>>

Ev == TraceLog[l]
Is(name) == l <= NLines /\ Ev.e = name /\ l' = l + 1
Flag(class, detail) == PrintT(<<"FLAG", class, detail, l>>)
Judge(v) == IF v[1] = "ok" THEN TRUE ELSE Flag(v[1], v[2])
Keep == UNCHANGED pvars
OKV == <<"ok", "">>

---------------------------------------------------------------------------
(* decimal texts: canonical form [neg, d, e]  value = (-1)^neg * 0.d1d2... * 10^e, d without leading/trailing zeros *)
RECURSIVE DecVal(_, _, _)
DecVal(s, i, acc) == IF i > Len(s) THEN acc ELSE IF acc > 99999 THEN 999999 ELSE DecVal(s, i + 1, acc * 10 + (s[i] - 48))

RECURSIVE LeadZeros(_, _), TrailZeros(_, _)
LeadZeros(s, i) == IF i <= Len(s) /\ s[i] = 48 THEN LeadZeros(s, i + 1) ELSE i - 1          \* number of leading '0'
TrailZeros(s, i) == IF i >= 1 /\ s[i] = 48 THEN TrailZeros(s, i - 1) ELSE Len(s) - i        \* number of trailing '0'

NumCanon(s) ==
    LET neg == At(s, 1) = 45
        a == IF neg \/ At(s, 1) = 43 THEN 2 ELSE 1
        b == Digits(s, a)
        c == IF At(s, b) = 46 THEN Digits(s, b + 1) ELSE b
        hasE == At(s, c) \in {101, 69}
        eneg == At(s, c + 1) = 45
        e0 == IF hasE THEN (IF At(s, c + 1) \in {43, 45} THEN c + 2 ELSE c + 1) ELSE c
        e1 == IF hasE THEN Digits(s, e0) ELSE c
        ev == IF hasE THEN DecVal(SubSeq(s, e0, e1 - 1), 1, 0) ELSE 0
        ds == SubSeq(s, a, b - 1) \o (IF c > b THEN SubSeq(s, b + 1, c - 1) ELSE <<>>)
        z == LeadZeros(ds, 1)
        t == TrailZeros(ds, Len(ds))
        sig == IF z = Len(ds) THEN <<>> ELSE SubSeq(ds, z + 1, Len(ds) - t)
    IN [wf |-> e1 = Len(s) + 1 /\ Len(ds) > 0 /\ (hasE => e1 > e0),
        neg |-> neg /\ Len(sig) > 0, d |-> sig,
        e |-> IF Len(sig) = 0 THEN 0 ELSE ((b - a) - z) + (IF eneg THEN 0 - ev ELSE ev)]
SameNumber(x, y) == LET p == NumCanon(x) q == NumCanon(y) IN p.wf /\ q.wf /\ p.neg = q.neg /\ p.d = q.d /\ p.e = q.e
\* a literal whose value every conforming parser must reproduce digit for digit: <= 15 significant digits, plainly inside the double range
PlainLiteral(lit) == LET p == NumCanon(lit) IN p.wf /\ Len(p.d) <= 15 /\ p.e >= -290 /\ p.e <= 290
IsNumText(s) == IsDigit(At(s, 1)) \/ (At(s, 1) = 45 /\ IsDigit(At(s, 2)))       \* not inf / nan

---------------------------------------------------------------------------
(* trees logged by the driver *)
RECURSIVE NumbersFinite(_)
NumbersFinite(t) == CASE t.k = "num" -> IsNumText(t.n)
                      [] t.k = "arr" -> \A i \in 1..Len(t.a) : NumbersFinite(t.a[i])
                      [] t.k = "obj" -> \A i \in 1..Len(t.m) : NumbersFinite(t.m[i].v)
                      [] OTHER -> TRUE
RECURSIVE KindsKnown(_)
KindsKnown(t) == CASE t.k \in {"null", "true", "false", "num", "str"} -> TRUE
                   [] t.k = "arr" -> \A i \in 1..Len(t.a) : KindsKnown(t.a[i])
                   [] t.k = "obj" -> \A i \in 1..Len(t.m) : KindsKnown(t.m[i].v)
                   [] OTHER -> FALSE

SoundVerdict(t) ==
    IF ~KindsKnown(t) THEN <<"unsound", "undefined-member">>
    ELSE IF ~UniqueKeys(t) THEN <<"unsound", "duplicate-key">>
    ELSE IF ~StringsUtf8(t) THEN <<"unsound", "invalid-utf8">>
    ELSE IF Depth(t) > MaxDepth THEN <<"unsound", "too-deep">>
    ELSE IF ~NumbersFinite(t) THEN <<"unsound", "non-finite-number">>
    ELSE OKV

\* does the logged tree i equal the tree r denoted by a document (numbers through field f of the logged tree: "s" 15, "p" 16 digits)
RECURSIVE Denotes(_, _, _)
Denotes(i, r, f) ==
    IF i.k # r.k THEN FALSE
    ELSE CASE r.k = "num" -> IF f = "s" THEN (PlainLiteral(r.lit) => SameNumber(i.s, r.lit))
                             ELSE (SameNumber(i.p, r.lit) \/ SameNumber(i.n, r.lit) \/ SameNumber(i.s, r.lit))    \* the value to 16 (as the code prints), 17 or 15 digits
           [] r.k = "str" -> i.s = r.s
           [] r.k = "arr" -> Len(i.a) = Len(r.a) /\ \A j \in 1..Len(r.a) : Denotes(i.a[j], r.a[j], f)
           [] r.k = "obj" -> /\ Len(i.m) = Len(r.m)
                             /\ \A j \in 1..Len(r.m) : \E h \in 1..Len(i.m) : i.m[h].key = r.m[j].key /\ Denotes(i.m[h].v, r.m[j].v, f)
           [] OTHER -> TRUE

\* equality of two logged trees, numbers compared through field f ("p": to the printed precision, "n": exactly)
RECURSIVE SameTree(_, _, _)
SameTree(x, y, f) ==
    IF x.k # y.k THEN FALSE
    ELSE CASE x.k = "num" -> IF f = "p" THEN x.p = y.p ELSE x.n = y.n
           [] x.k = "str" -> x.s = y.s
           [] x.k = "arr" -> Len(x.a) = Len(y.a) /\ \A j \in 1..Len(x.a) : SameTree(x.a[j], y.a[j], f)
           [] x.k = "obj" -> Len(x.m) = Len(y.m) /\ \A j \in 1..Len(x.m) : x.m[j].key = y.m[j].key /\ SameTree(x.m[j].v, y.m[j].v, f)
           [] OTHER -> TRUE

\* exponents of all literals small enough for the drift comparison to be meaningful (no overflow to infinity)
AllPlainOrAny(ts) == \A j \in 1..Len(ts) : ts[j].t = "num" => LET p == NumCanon(ts[j].v) IN p.wf => (p.e <= 300 /\ p.e >= -300)

---------------------------------------------------------------------------
TReset == Is("Reset") /\ Keep

\* documents re-parsed in TLA+: the ordinary ones up to ShortLimit bytes, the adversarial-key documents (long keys) up to KeysLimit
Short == (Ev.cls = "short" /\ Len(Ev.b) <= ShortLimit) \/ (Ev.cls = "keys" /\ Len(Ev.b) <= KeysLimit)

\* members in the order the implementation iterates / prints them: the design (JsonRef!Norm, std::map<string_key>) says
\* strictly increasing byte-wise (unsigned).  The property only needs the keys to be distinct, so a different order is drift.
RECURSIVE Ordered(_)
Ordered(t) == CASE t.k = "arr" -> \A i \in 1..Len(t.a) : Ordered(t.a[i])
                [] t.k = "obj" -> /\ \A i \in 1..(Len(t.m) - 1) : BytesLess(t.m[i].key, t.m[i + 1].key)
                                  /\ \A i \in 1..Len(t.m) : Ordered(t.m[i].v)
                [] OTHER -> TRUE

\* every member of the object the driver looked into is retrievable by its own key with its own value, and nothing else is there:
\* look = <<[key, found, v]>> (one per key of the generated document), lookobj = that object as iterated
LookVerdict ==
    IF ~Has(Ev, "look") THEN OKV
    ELSE IF Len(Ev.lookobj.m) # Len(Ev.look) THEN <<"incomplete", "member-count">>
    ELSE IF \E i \in 1..Len(Ev.look) : ~Ev.look[i].found THEN <<"incomplete", "member-not-retrievable">>
    ELSE IF \E i \in 1..Len(Ev.look) : ~(\E j \in 1..Len(Ev.lookobj.m) : Ev.lookobj.m[j].key = Ev.look[i].key /\ Ev.lookobj.m[j].v = Ev.look[i].v)
         THEN <<"incomplete", "member-retrieved-other-value">>
    ELSE OKV

ParseVerdict ==
    LET s == IF Ev.ok THEN SoundVerdict(Ev.t1) ELSE OKV
    IN IF s # OKV THEN s
       ELSE IF ~Ev.ok /\ Ev.t1 # Ev.t0 THEN <<"touched", Ev.api>>
       ELSE IF ~Short THEN OKV
       ELSE LET ts == RefTokens(Ev.b)
                r == RefDoc(ts, FALSE)
                must == ~HasErr(ts) /\ r.ok /\ UniqueKeys(r.tree) /\ Depth(r.tree) <= MaxDepth
                        /\ (\A j \in 1..Len(ts) : ts[j].t = "num" => LET p == NumCanon(ts[j].v) IN p.e <= 290 /\ p.e >= -290)
            IN IF must /\ ~Ev.ok THEN <<"incomplete", "rejected-rfc-document">>
               ELSE IF must /\ ~Denotes(Ev.t1, r.tree, "s") THEN <<"incomplete", "different-tree">>
               ELSE IF must /\ Ev.api = "range" /\ Ev.full /\ Ev.used # Len(Ev.b) THEN <<"incomplete", "range-not-consumed">>
               ELSE IF must /\ LookVerdict # OKV THEN LookVerdict
               ELSE LET its == ImplTokens(Ev.b)
                        m == Parse(its, Ev.full)
                    IN IF AllPlainOrAny(its) /\ m.ok # Ev.ok THEN <<"drift-acceptance", IF Ev.ok THEN "code-accepts" ELSE "code-rejects">>
                       ELSE IF Ev.ok /\ ~Ordered(Ev.t1) THEN <<"drift-member-order", "parsed">>
                       ELSE OKV

TParse == Is("Parse") /\ Judge(ParseVerdict) /\ Keep

\* the chain documents of the driver, checked without recursion
Rep(unit, n) == [j \in 1..(n * Len(unit)) |-> unit[((j - 1) % Len(unit)) + 1]]
ChainDoc(kind, d) ==
    IF d = 0 THEN <<48>>
    ELSE IF kind = "arr" THEN Rep(<<91>>, d) \o Rep(<<93>>, d)
    ELSE IF kind = "obj" THEN Rep(<<123, 34, 97, 34, 58>>, d - 1) \o <<123, 125>> \o Rep(<<125>>, d - 1)
    ELSE LET open == [j \in 1..(d - 1) |-> IF j % 2 = 1 THEN <<91>> ELSE <<123, 34, 97, 34, 58>>]
             close == [j \in 1..(d - 1) |-> IF (d - j) % 2 = 1 THEN <<93>> ELSE <<125>>]
         IN CatAll(open) \o (IF d % 2 = 1 THEN <<91, 93>> ELSE <<123, 125>>) \o CatAll(close)

NestVerdict ==
    IF Ev.b # ChainDoc(Ev.kind, Ev.d) THEN <<"driver", "nest-document">>
    ELSE IF Ev.d <= MaxDepth /\ ~Ev.ok THEN <<"incomplete", "rejected-depth-within-bound">>
    ELSE IF Ev.d > MaxDepth /\ Ev.ok THEN <<"unsound", "too-deep">>
    ELSE IF Ev.ok /\ Ev.depth1 # Ev.d THEN <<"incomplete", "different-depth">>
    ELSE IF Ev.ok /\ ~(Ev.ok2 /\ Ev.same /\ Ev.depth2 = Ev.d) THEN <<"roundtrip", "deep">>
    ELSE IF ~Ev.ok /\ Ev.t1 # Ev.t0 THEN <<"touched", Ev.api>>
    ELSE OKV
TNest == Is("Nest") /\ Judge(NestVerdict) /\ Keep

PrintVerdict ==
    IF ~KindsKnown(Ev.t) \/ ~NumbersFinite(Ev.t) \/ ~StringsUtf8(Ev.t) THEN <<"driver", "print-domain">>
    ELSE IF ~Ev.ok2 THEN <<"roundtrip", "reparse-failed">>
    ELSE IF ~SameTree(Ev.t, Ev.t2, "p") THEN <<"roundtrip", "differs-" \o Ev.mode \o "-" \o Ev.loc>>
    ELSE IF ~Ev.ok3 \/ ~SameTree(Ev.t2, Ev.t3, "n") THEN <<"roundtrip", "second-round-" \o Ev.mode \o "-" \o Ev.loc>>
    ELSE IF ~Short THEN OKV
    ELSE LET ts == RefTokens(Ev.b)
             r == RefDoc(ts, FALSE)
         IN IF HasErr(ts) \/ ~r.ok THEN <<"roundtrip", "not-rfc8259-" \o Ev.mode \o "-" \o Ev.loc>>
            ELSE IF ~Denotes(Ev.t, r.tree, "p") THEN <<"roundtrip", "text-denotes-other-" \o Ev.mode \o "-" \o Ev.loc>>
            ELSE IF ~Ordered(Ev.t) THEN <<"drift-member-order", "printed">>
            ELSE OKV
TPrint == Is("Print") /\ Judge(PrintVerdict) /\ Keep

\* a tree built through the API: ops = <<[key, v]>> assignments  obj[key] = v  in order (keys may repeat: the last one wins);
\* the object must hold exactly the distinct keys, each with its last value, and got[i] = what obj[key_i] returns afterwards
LastFor(ops, key) == LET S == { i \in 1..Len(ops) : ops[i].key = key } IN ops[CHOOSE i \in S : \A j \in S : j <= i].v
IntOf(t) == IF t.k = "num" THEN t.s ELSE <<>>
RECURSIVE IntText(_)
IntText(n) == IF n < 10 THEN <<48 + n>> ELSE Append(IntText(n \div 10), 48 + (n % 10))
BuildVerdict ==
    LET ops == Ev.ops
        dk == { ops[i].key : i \in 1..Len(ops) }
        t == Ev.t
    IN IF t.k # "obj" THEN <<"build", "not-an-object">>
       ELSE IF Len(t.m) # Cardinality(dk) \/ ~UniqueKeys(t) THEN <<"build", "member-count">>
       ELSE IF \E k \in dk : ~(\E j \in 1..Len(t.m) : t.m[j].key = k /\ IntOf(t.m[j].v) = IntText(LastFor(ops, k))) THEN <<"build", "member-value">>
       ELSE IF \E i \in 1..Len(ops) : Ev.got[i] # LastFor(ops, ops[i].key) THEN <<"build", "member-retrieval">>
       ELSE IF ~Ordered(t) THEN <<"drift-member-order", "built">>
       ELSE OKV
TBuild == Is("Build") /\ Judge(BuildVerdict) /\ Keep

GetVerdict ==
    IF ~Ev.ok THEN OKV
    ELSE IF Ev.cls # "fin" THEN (IF Ev.ty \in {"f64"} \/ (Ev.ty = "f32" /\ Ev.cls = "nan") THEN OKV ELSE <<"get-inexact", Ev.ty \o "-" \o Ev.cls>>)
    ELSE IF Ev.ty = "f32" THEN (IF Ev.vcls # "fin" THEN <<"get-inexact", "f32-overflow">>
                                ELSE IF Ev.exact /\ ~SameNumber(Ev.v, Ev.n) THEN <<"get-inexact", "f32">> ELSE OKV)
    ELSE IF ~SameNumber(Ev.v, Ev.n) THEN <<"get-inexact", Ev.ty>>
    ELSE OKV
TGet == Is("Get") /\ Judge(GetVerdict) /\ Keep

TDied == Is("Died") /\ Flag("died", Ev.why) /\ Keep

TraceInit == mode = "trace" /\ hist = <<>> /\ cfg = InitCfg /\ full = TRUE /\ fin = FALSE /\ target = Sentinel /\ tree = Undef /\ l = 1
TraceNext == TReset \/ TParse \/ TNest \/ TPrint \/ TBuild \/ TGet \/ TDied
TraceSpec == TraceInit /\ [][TraceNext]_tvars
=============================================================================
