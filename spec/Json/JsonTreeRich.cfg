SPECIFICATION TreeSpec
CONSTANTS
  MaxDepth = 2
  MaxToks = 1
  TreeDepth = 1
  TreeWidth = 3
  RichScalars = TRUE
INVARIANTS Complete RoundTrip
CHECK_DEADLOCK FALSE
