----------------------------- MODULE JsonParse -----------------------------
(***************************************************************************)
(* C11 - the explicit-stack parser of src/json.cpp (parse_stream) as a     *)
(* machine over tokens, the writer (value::write_value / generic_append),  *)
(* and the properties Sound, Complete, Untouched, RoundTrip.               *)
(*                                                                         *)
(* Machine configuration  [st, stack, key, result]:                        *)
(*   st     one of the 9 states of the code                                *)
(*          "val"   object_or_array_or_value_expected (initial)            *)
(*          "okey"  object_key_or_close_expected                           *)
(*          "ocolon" / "oval" / "ocomma"  colon / value / close_or_comma   *)
(*          "aval"  array_value_or_close_expected,  "acomma"               *)
(*          "error" , "done"                                               *)
(*   stack  frames [ret, node, key]: the state to return to, the container *)
(*          under construction and the member name it will get in its      *)
(*          parent (the code keeps a pointer into the parent instead);     *)
(*          the parser gives up when more than MaxDepth frames are open    *)
(*   key    last object key read                                           *)
(*   result the finished value (moved into the target only on success)     *)
(*                                                                         *)
(* Leg D explores two machines:                                            *)
(*   WalkSpec  feeds every token sequence of <= MaxToks tokens over        *)
(*       { [ ] { } : , "a" "b" 1 true <err> } (extension stops at the      *)
(*       first error; `full' in {TRUE, FALSE}) and then finishes:          *)
(*       Sound, AcceptsOnlyLenient, Untouched, DepthBound.                 *)
(*   TreeSpec  takes every tree of depth <= TreeDepth, width <= TreeWidth  *)
(*       with unique keys in every member order:                           *)
(*       Complete  - the machine accepts its token sequence (= every RFC   *)
(*                   8259 document over these tokens) with the same tree   *)
(*                   iff its depth is within MaxDepth;                     *)
(*       RoundTrip - the writer's bytes (compact and readable) are an RFC  *)
(*                   8259 document that tokenises and parses back to the   *)
(*                   tree, by the reference and by the machine.            *)
(***************************************************************************)
EXTENDS JsonRef

CONSTANTS MaxDepth,     \* json_max_depth (512 in the code; small in Leg D)
          MaxToks,      \* WalkSpec: tokens per sequence
          TreeDepth, TreeWidth,   \* TreeSpec
          RichScalars   \* TreeSpec: TRUE = all scalar kinds and awkward strings at the leaves

VARIABLES mode,         \* "walk" | "tree" | "trace"
          hist,         \* walk: tokens fed so far
          cfg,          \* walk: machine configuration
          full,         \* walk: force_eof
          fin,          \* walk: finished (end of input seen)
          target,       \* the value the caller passed in
          tree          \* tree: the tree under test
pvars == <<mode, hist, cfg, full, fin, target, tree>>

Undef == [k |-> "undef"]
Sentinel == [k |-> "str", s |-> <<111, 108, 100>>]

---------------------------------------------------------------------------
(* the machine *)
InitCfg == [st |-> "val", stack |-> <<[ret |-> "done", node |-> Undef, key |-> <<>>]>>, key |-> <<>>, result |-> Undef]

IsScalarTok(t) == t.t \in {"str", "num", "true", "false", "null"}
ScalarOf(t) == CASE t.t = "str" -> [k |-> "str", s |-> t.v]
                 [] t.t = "num" -> [k |-> "num", lit |-> t.v]
                 [] OTHER -> [k |-> t.t]

Top(c) == c.stack[Len(c.stack)]
SetTopNode(c, n) == [c.stack EXCEPT ![Len(c.stack)].node = n]
Err(c) == [c EXCEPT !.st = "error"]

\* put the finished value v (member name k when the receiver is an object) into the container on top of stk
Deliver(stk, v, k) ==
    LET p == stk[Len(stk)]
    IN IF p.node.k = "arr" THEN [stk EXCEPT ![Len(stk)].node = Arr(Append(p.node.a, v))]
       ELSE [stk EXCEPT ![Len(stk)].node = Obj(MemInsert(p.node.m, [key |-> k, v |-> v]))]

\* the value on top of the stack is complete: state = top.first; pop
Close(c, v) ==
    LET f == Top(c)
        rest == SubSeq(c.stack, 1, Len(c.stack) - 1)
    IN IF Len(rest) = 0 THEN [c EXCEPT !.st = f.ret, !.stack = <<>>, !.result = v]
       ELSE [c EXCEPT !.st = f.ret, !.stack = Deliver(rest, v, f.key)]

Push(c, ret, node, st) == [c EXCEPT !.stack = Append(c.stack, [ret |-> ret, node |-> node, key |-> c.key]), !.st = st]

Step0(c, t) ==
    CASE c.st = "val" ->
            IF t.t = "[" THEN [c EXCEPT !.stack = SetTopNode(c, Arr(<<>>)), !.st = "aval"]
            ELSE IF t.t = "{" THEN [c EXCEPT !.stack = SetTopNode(c, Obj(<<>>)), !.st = "okey"]
            ELSE IF IsScalarTok(t) THEN Close(c, ScalarOf(t))
            ELSE Err(c)
      [] c.st = "okey" ->
            IF t.t = "}" THEN Close(c, Top(c).node)
            ELSE IF t.t = "str" THEN [c EXCEPT !.key = t.v, !.st = "ocolon"]
            ELSE Err(c)
      [] c.st = "ocolon" -> IF t.t = ":" THEN [c EXCEPT !.st = "oval"] ELSE Err(c)
      [] c.st = "oval" ->
            IF c.key \in Keys(Top(c).node) THEN Err(c)              \* duplicate member name
            ELSE IF IsScalarTok(t) THEN [c EXCEPT !.stack = Deliver(c.stack, ScalarOf(t), c.key), !.st = "ocomma"]
            ELSE IF t.t = "[" THEN Push(c, "ocomma", Arr(<<>>), "aval")
            ELSE IF t.t = "{" THEN Push(c, "ocomma", Obj(<<>>), "okey")
            ELSE Err(c)
      [] c.st = "ocomma" ->
            IF t.t = "," THEN [c EXCEPT !.st = "okey"]
            ELSE IF t.t = "}" THEN Close(c, Top(c).node)
            ELSE Err(c)
      [] c.st = "aval" ->
            IF t.t = "]" THEN Close(c, Top(c).node)
            ELSE IF IsScalarTok(t) THEN [c EXCEPT !.stack = Deliver(c.stack, ScalarOf(t), <<>>), !.st = "acomma"]
            ELSE IF t.t = "[" THEN Push(c, "acomma", Arr(<<>>), "aval")
            ELSE IF t.t = "{" THEN Push(c, "acomma", Obj(<<>>), "okey")
            ELSE Err(c)
      [] c.st = "acomma" ->
            IF t.t = "]" THEN Close(c, Top(c).node)
            ELSE IF t.t = "," THEN [c EXCEPT !.st = "aval"]
            ELSE Err(c)
      [] OTHER -> c

\* one iteration of the loop; the loop ends (without success) once more than MaxDepth frames are open
Step(c, t) == LET d == Step0(c, t) IN IF Len(d.stack) > MaxDepth THEN Err(d) ELSE d

EofTok == [t |-> "eof", v |-> <<>>]

\* feed tokens from index i until done / error / end of input; returns the configuration and the tokens consumed
RECURSIVE RunFrom(_, _, _)
RunFrom(c, ts, i) ==
    IF c.st \in {"done", "error"} THEN [c |-> c, used |-> i - 1]
    ELSE IF i > Len(ts) THEN [c |-> Step(c, EofTok), used |-> Len(ts)]
    ELSE RunFrom(Step(c, ts[i]), ts, i + 1)

\* parse_stream(tokens, force_eof)
Parse(ts, feof) ==
    LET r == RunFrom(InitCfg, ts, 1)
        ok == r.c.st = "done" /\ (feof => r.used = Len(ts))
    IN [ok |-> ok, tree |-> IF ok THEN r.c.result ELSE Undef, used |-> r.used]

---------------------------------------------------------------------------
(* the writer *)
HexDigit(n) == IF n < 10 THEN 48 + n ELSE 87 + n
EscByte(c) == CASE c = 34 -> <<92, 34>> [] c = 92 -> <<92, 92>> [] c = 8 -> <<92, 98>> [] c = 12 -> <<92, 102>>
                [] c = 10 -> <<92, 110>> [] c = 13 -> <<92, 114>> [] c = 9 -> <<92, 116>>
                [] c <= 31 -> <<92, 117, 48, 48, HexDigit(c \div 16), HexDigit(c % 16)>>
                [] OTHER -> <<c>>
RECURSIVE CatAll(_)
CatAll(ss) == IF Len(ss) = 0 THEN <<>> ELSE Head(ss) \o CatAll(Tail(ss))
WString(s) == <<34>> \o CatAll([i \in 1..Len(s) |-> EscByte(s[i])]) \o <<34>>

Pad(n) == [i \in 1..n |-> 9]
\* indent(out, c, tabs): bytes written and the new value of tabs (tabs < 0: compact)
Ind(c, tabs) ==
    IF tabs < 0 THEN [b |-> <<c>>, tabs |-> tabs]
    ELSE IF c \in {123, 91} THEN [b |-> <<c, 10>> \o Pad(tabs + 1), tabs |-> tabs + 1]
    ELSE IF c = 44 THEN [b |-> <<c, 10>> \o Pad(tabs), tabs |-> tabs]
    ELSE IF c = 58 THEN [b |-> <<32, 58, 9>>, tabs |-> tabs]
    ELSE [b |-> <<10>> \o Pad(tabs - 1) \o <<c, 10>> \o Pad(tabs - 1), tabs |-> tabs - 1]

RECURSIVE WValue(_, _), WJoin(_, _, _)
\* pieces joined by indent(',')
WJoin(ps, i, tabs) == IF i > Len(ps) THEN <<>>
                      ELSE ps[i] \o (IF i < Len(ps) THEN Ind(44, tabs).b ELSE <<>>) \o WJoin(ps, i + 1, tabs)
WValue(t, tabs) ==
    CASE t.k \in {"null", "true", "false"} ->
             (CASE t.k = "null" -> NULLW [] t.k = "true" -> TRUEW [] OTHER -> FALSEW)
      [] t.k = "num" -> t.lit
      [] t.k = "str" -> WString(t.s)
      [] t.k = "arr" ->
             LET o == Ind(91, tabs)
             IN o.b \o WJoin([i \in 1..Len(t.a) |-> WValue(t.a[i], o.tabs)], 1, o.tabs) \o Ind(93, o.tabs).b
      [] t.k = "obj" ->
             LET o == Ind(123, tabs)
             IN o.b \o WJoin([i \in 1..Len(t.m) |-> WString(t.m[i].key) \o Ind(58, o.tabs).b \o WValue(t.m[i].v, o.tabs)], 1, o.tabs)
                    \o Ind(125, o.tabs).b
Write(t, readable) == WValue(t, IF readable THEN 0 ELSE -1)

\* the token sequence of a tree (document order)
RECURSIVE ToksOf(_), ToksJoin(_, _)
ToksJoin(ps, i) == IF i > Len(ps) THEN <<>>
                   ELSE ps[i] \o (IF i < Len(ps) THEN <<Tok(",", <<>>)>> ELSE <<>>) \o ToksJoin(ps, i + 1)
ToksOf(t) ==
    CASE t.k \in {"null", "true", "false"} -> <<Tok(t.k, <<>>)>>
      [] t.k = "num" -> <<Tok("num", t.lit)>>
      [] t.k = "str" -> <<Tok("str", t.s)>>
      [] t.k = "arr" -> <<Tok("[", <<>>)>> \o ToksJoin([i \in 1..Len(t.a) |-> ToksOf(t.a[i])], 1) \o <<Tok("]", <<>>)>>
      [] t.k = "obj" -> <<Tok("{", <<>>)>>
                        \o ToksJoin([i \in 1..Len(t.m) |-> <<Tok("str", t.m[i].key), Tok(":", <<>>)>> \o ToksOf(t.m[i].v)], 1)
                        \o <<Tok("}", <<>>)>>

---------------------------------------------------------------------------
(* Leg D, machine 1: token walk *)
WalkAlphabet == { Tok("[", <<>>), Tok("]", <<>>), Tok("{", <<>>), Tok("}", <<>>), Tok(":", <<>>), Tok(",", <<>>),
                  Tok("str", <<97>>), Tok("str", <<98>>), Tok("num", <<49>>), Tok("true", <<>>), Tok("err", <<>>) }

WalkInit ==
    /\ mode = "walk" /\ hist = <<>> /\ cfg = InitCfg /\ full \in BOOLEAN /\ fin = FALSE
    /\ target = Sentinel /\ tree = Undef

\* the parser pulls the next token while it is neither done nor in error
Feed ==
    /\ ~fin /\ Len(hist) < MaxToks /\ cfg.st \notin {"done", "error"}
    /\ \E t \in WalkAlphabet : hist' = Append(hist, t) /\ cfg' = Step(cfg, t)
    /\ UNCHANGED <<mode, full, fin, target, tree>>
\* after `done' with force_eof one more token is pulled: it must be the end of input
FeedTrailing ==
    /\ ~fin /\ Len(hist) < MaxToks /\ cfg.st = "done" /\ full
    /\ \E t \in WalkAlphabet : hist' = Append(hist, t) /\ cfg' = [cfg EXCEPT !.st = "error"]
    /\ UNCHANGED <<mode, full, fin, target, tree>>
\* end of input (or, without force_eof, the caller simply stops after `done')
Finish ==
    /\ ~fin
    /\ LET c == IF cfg.st \in {"done", "error"} THEN cfg ELSE Step(cfg, EofTok)
       IN /\ cfg' = c
          /\ target' = IF c.st = "done" THEN c.result ELSE target      \* out.swap(result) only on success
    /\ fin' = TRUE
    /\ UNCHANGED <<mode, hist, full, tree>>

WalkNext == Feed \/ FeedTrailing \/ Finish
WalkSpec == WalkInit /\ [][WalkNext]_pvars

Accepted == fin /\ cfg.st = "done"
Sound == Accepted => /\ Defined(target) /\ UniqueKeys(target) /\ StringsUtf8(target)
                     /\ Depth(target) <= MaxDepth
Untouched == (fin /\ ~Accepted) => target = Sentinel
\* everything accepted is an RFC 8259 document up to the named leniency TrailingComma, with the tree it denotes
AcceptsOnlyLenient ==
    Accepted => LET r == RefDoc(hist, TRUE) IN r.ok /\ UniqueKeys(r.tree) /\ Norm(r.tree) = target
\* and conversely on the walked sequences: a lenient document with unique keys within the depth bound is accepted
AcceptsAllWalked ==
    (fin /\ mode = "walk") =>
        LET r == RefDoc(hist, TRUE) IN (r.ok /\ UniqueKeys(r.tree) /\ Depth(r.tree) <= MaxDepth) => Accepted
DepthBound == Len(cfg.stack) <= MaxDepth + 1

---------------------------------------------------------------------------
(* Leg D, machine 2: trees *)
SeqsUpTo(S, n) == UNION { [1..m -> S] : m \in 0..n }
InjSeqsUpTo(S, n) == { s \in SeqsUpTo(S, n) : \A i, j \in 1..Len(s) : i # j => s[i] # s[j] }

KeySet == {<<97>>, <<98>>, <<>>}
PlainScalars == { [k |-> "null"], [k |-> "str", s |-> <<97>>] }
AwkwardScalars == { [k |-> "true"], [k |-> "false"], [k |-> "num", lit |-> <<45, 49, 46, 53, 101, 43, 50>>],
                    [k |-> "str", s |-> <<>>], [k |-> "str", s |-> <<34, 92, 47>>], [k |-> "str", s |-> <<8, 12, 10, 13, 9, 0, 31>>],
                    [k |-> "str", s |-> <<127, 195, 169, 240, 159, 152, 128>>] }
Scalars == IF RichScalars THEN PlainScalars \cup AwkwardScalars ELSE PlainScalars

RECURSIVE TreesOf(_)
TreesOf(d) ==
    IF d = 0 THEN Scalars
    ELSE LET S == TreesOf(d - 1)
         IN S \cup { Arr(a) : a \in SeqsUpTo(S, TreeWidth) }
              \cup UNION { { Obj([i \in 1..Len(ks) |-> [key |-> ks[i], v |-> vs[i]]]) : vs \in [1..Len(ks) -> S] }
                           : ks \in InjSeqsUpTo(KeySet, TreeWidth) }

\* (the invariants are evaluated on the successor so that TLC's workers share the trees)
TreeInit ==
    /\ mode = "tree0" /\ tree \in TreesOf(TreeDepth)
    /\ hist = <<>> /\ cfg = InitCfg /\ full = TRUE /\ fin = FALSE /\ target = Sentinel
TreeCheck == mode = "tree0" /\ mode' = "tree" /\ UNCHANGED <<hist, cfg, full, fin, target, tree>>
TreeSpec == TreeInit /\ [][TreeCheck]_pvars

Complete ==
    mode = "tree" =>
        LET p == Parse(ToksOf(tree), TRUE)
            q == Parse(ToksOf(tree), FALSE)
        IN /\ RefDoc(ToksOf(tree), FALSE).ok                          \* it is an RFC 8259 document
           /\ (Depth(tree) <= MaxDepth) => (p.ok /\ p.tree = Norm(tree) /\ q.ok /\ q.tree = Norm(tree))
           /\ (Depth(tree) > MaxDepth) => (~p.ok /\ ~q.ok)

RoundTripOf(readable) ==
    LET b == Write(Norm(tree), readable)
        ts == RefTokens(b)
        r == RefDoc(ts, FALSE)
        p == Parse(ImplTokens(b), TRUE)
    IN /\ ~HasErr(ts) /\ r.ok /\ Norm(r.tree) = Norm(tree)
       /\ (Depth(tree) <= MaxDepth) => (p.ok /\ p.tree = Norm(tree))
RoundTrip == mode = "tree" => (RoundTripOf(FALSE) /\ RoundTripOf(TRUE))
=============================================================================
