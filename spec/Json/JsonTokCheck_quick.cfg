SPECIFICATION TokSpec
CONSTANTS
  MaxItems = 3
  MaxNum = 5
INVARIANTS StrSound StrComplete StrExact RefIsUtf8 NumInv
CHECK_DEADLOCK FALSE
