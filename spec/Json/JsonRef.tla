------------------------------ MODULE JsonRef ------------------------------
(***************************************************************************)
(* C11 - the RFC 8259 grammar as a recursive predicate over token          *)
(* sequences, and the tree a conforming document denotes.                  *)
(*                                                                         *)
(*   value = false / null / true / object / array / number / string        *)
(*   array = "[" [ value *( "," value ) ] "]"                              *)
(*   object = "{" [ member *( "," member ) ] "}"   member = string ":" value*)
(*                                                                         *)
(* RValue(ts, i, lenient) parses one value starting at token i and returns *)
(* [ok, tree, nxt].  lenient = TRUE additionally allows one trailing comma *)
(* before "]" / "}" (the named leniency TrailingComma of src/json.cpp); it *)
(* is used only to state exactly what the design accepts, never to demand  *)
(* acceptance.                                                             *)
(*                                                                         *)
(* Trees: [k |-> "null" | "true" | "false"], [k |-> "num", lit |-> bytes], *)
(* [k |-> "str", s |-> bytes], [k |-> "arr", a |-> <<tree...>>],           *)
(* [k |-> "obj", m |-> <<[key |-> bytes, v |-> tree]...>>] (document order;*)
(* Norm sorts members by key as std::map does).                            *)
(***************************************************************************)
EXTENDS JsonTok

RFail == [ok |-> FALSE, tree |-> [k |-> "null"], nxt |-> 0]
ROk(t, n) == [ok |-> TRUE, tree |-> t, nxt |-> n]
TT(ts, i) == IF i >= 1 /\ i <= Len(ts) THEN ts[i].t ELSE "eof"
Arr(a) == [k |-> "arr", a |-> a]
Obj(m) == [k |-> "obj", m |-> m]

RECURSIVE RValue(_, _, _), RArr(_, _, _, _), RObj(_, _, _, _)
RValue(ts, i, lenient) ==
    LET t == TT(ts, i)
    IN CASE t = "str" -> ROk([k |-> "str", s |-> ts[i].v], i + 1)
         [] t = "num" -> ROk([k |-> "num", lit |-> ts[i].v], i + 1)
         [] t \in {"true", "false", "null"} -> ROk([k |-> t], i + 1)
         [] t = "[" -> IF TT(ts, i + 1) = "]" THEN ROk(Arr(<<>>), i + 2) ELSE RArr(ts, i + 1, <<>>, lenient)
         [] t = "{" -> IF TT(ts, i + 1) = "}" THEN ROk(Obj(<<>>), i + 2) ELSE RObj(ts, i + 1, <<>>, lenient)
         [] OTHER -> RFail

RArr(ts, i, acc, lenient) ==
    LET r == RValue(ts, i, lenient)
    IN IF ~r.ok THEN RFail
       ELSE LET acc2 == Append(acc, r.tree)
                t == TT(ts, r.nxt)
            IN IF t = "]" THEN ROk(Arr(acc2), r.nxt + 1)
               ELSE IF t = "," THEN (IF lenient /\ TT(ts, r.nxt + 1) = "]" THEN ROk(Arr(acc2), r.nxt + 2)
                                     ELSE RArr(ts, r.nxt + 1, acc2, lenient))
               ELSE RFail

RObj(ts, i, acc, lenient) ==
    IF TT(ts, i) # "str" \/ TT(ts, i + 1) # ":" THEN RFail
    ELSE LET r == RValue(ts, i + 2, lenient)
         IN IF ~r.ok THEN RFail
            ELSE LET acc2 == Append(acc, [key |-> ts[i].v, v |-> r.tree])
                     t == TT(ts, r.nxt)
                 IN IF t = "}" THEN ROk(Obj(acc2), r.nxt + 1)
                    ELSE IF t = "," THEN (IF lenient /\ TT(ts, r.nxt + 1) = "}" THEN ROk(Obj(acc2), r.nxt + 2)
                                          ELSE RObj(ts, r.nxt + 1, acc2, lenient))
                    ELSE RFail

\* a whole document: exactly one value, nothing after it
RefDoc(ts, lenient) == LET r == RValue(ts, 1, lenient)
                       IN IF r.ok /\ r.nxt = Len(ts) + 1 THEN r ELSE RFail
\* a value followed by anything (load(..., full = false), operator>>)
RefPrefix(ts, lenient) == RValue(ts, 1, lenient)

---------------------------------------------------------------------------
(* properties of trees *)
Max(a, b) == IF a >= b THEN a ELSE b
RECURSIVE Depth(_), MaxOver(_, _)
MaxOver(s, i) == IF i > Len(s) THEN 0 ELSE Max(Depth(s[i]), MaxOver(s, i + 1))
Depth(t) == CASE t.k = "arr" -> 1 + MaxOver(t.a, 1)
              [] t.k = "obj" -> 1 + MaxOver([i \in 1..Len(t.m) |-> t.m[i].v], 1)
              [] OTHER -> 0

Keys(t) == { t.m[i].key : i \in 1..Len(t.m) }
RECURSIVE UniqueKeys(_)
UniqueKeys(t) == CASE t.k = "arr" -> \A i \in 1..Len(t.a) : UniqueKeys(t.a[i])
                   [] t.k = "obj" -> /\ Cardinality(Keys(t)) = Len(t.m)
                                     /\ \A i \in 1..Len(t.m) : UniqueKeys(t.m[i].v)
                   [] OTHER -> TRUE

RECURSIVE StringsUtf8(_)
StringsUtf8(t) == CASE t.k = "str" -> Utf8Valid(t.s)
                    [] t.k = "arr" -> \A i \in 1..Len(t.a) : StringsUtf8(t.a[i])
                    [] t.k = "obj" -> \A i \in 1..Len(t.m) : Utf8Valid(t.m[i].key) /\ StringsUtf8(t.m[i].v)
                    [] OTHER -> TRUE

RECURSIVE Defined(_)
Defined(t) == CASE t.k = "undef" -> FALSE
                [] t.k = "arr" -> \A i \in 1..Len(t.a) : Defined(t.a[i])
                [] t.k = "obj" -> \A i \in 1..Len(t.m) : Defined(t.m[i].v)
                [] OTHER -> TRUE

\* unsigned byte-wise order of keys
RECURSIVE BytesLess(_, _)
BytesLess(a, b) == IF Len(b) = 0 THEN FALSE
                   ELSE IF Len(a) = 0 THEN TRUE
                   ELSE IF a[1] # b[1] THEN a[1] < b[1]
                   ELSE BytesLess(Tail(a), Tail(b))

\* insert a member into a key-sorted member list; an existing key keeps its value
RECURSIVE MemInsert(_, _)
MemInsert(m, x) == IF Len(m) = 0 THEN <<x>>
                   ELSE IF m[1].key = x.key THEN m
                   ELSE IF BytesLess(x.key, m[1].key) THEN <<x>> \o m
                   ELSE <<m[1]>> \o MemInsert(Tail(m), x)
RECURSIVE Norm(_), NormMembers(_, _, _)
NormMembers(m, i, acc) == IF i > Len(m) THEN acc
                          ELSE NormMembers(m, i + 1, MemInsert(acc, [key |-> m[i].key, v |-> Norm(m[i].v)]))
Norm(t) == CASE t.k = "arr" -> Arr([i \in 1..Len(t.a) |-> Norm(t.a[i])])
             [] t.k = "obj" -> Obj(NormMembers(t.m, 1, <<>>))
             [] OTHER -> t
=============================================================================
