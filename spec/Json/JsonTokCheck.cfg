SPECIFICATION TokSpec
CONSTANTS
  MaxItems = 4
  MaxNum = 7
INVARIANTS StrSound StrComplete StrExact RefIsUtf8 NumInv
CHECK_DEADLOCK FALSE
