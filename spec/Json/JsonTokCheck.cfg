SPECIFICATION TokSpec
CONSTANTS
  MaxItems = 4
  MaxNum = 6
INVARIANTS StrSound StrComplete StrExact RefIsUtf8 NumInv
CHECK_DEADLOCK FALSE
