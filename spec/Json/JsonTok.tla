------------------------------ MODULE JsonTok ------------------------------
(***************************************************************************)
(* C11 - JSON tokenisation over bytes.                                     *)
(*                                                                         *)
(* Two tokenizers over the same byte classes:                              *)
(*   RefTokens(s)  - RFC 8259: ws = SP HT LF CR, the six structural        *)
(*       characters, true/false/null, number = [-] int [frac] [exp],       *)
(*       strings whose unescaped characters are well-formed UTF-8          *)
(*       (RFC 3629) >= U+0020, the nine escapes, \uXXXX; a \u escape that   *)
(*       is a surrogate must be the first half of a properly paired         *)
(*       \uD8xx\uDCxx (C11: "properly paired surrogate escapes").           *)
(*   ImplTokens(s) - the tokenizer of src/json.cpp as designed: escapes    *)
(*       decoded left to right with a "second surrogate expected" flag,    *)
(*       ONE UTF-8 validation of the decoded string at the end, numbers    *)
(*       by classic-locale stream extraction (named leniencies             *)
(*       LeadingZero, BareFraction "-.5", TrailingDot "1."), // comments   *)
(*       (LineComment).                                                    *)
(* A token is [t, v]: t in "[" "]" "{" "}" ":" "," "str" "num" "true"      *)
(* "false" "null" "err"; v = decoded bytes (str) or the literal (num).     *)
(*                                                                         *)
(* Leg D (JsonTokCheck.tla): for every string body made of <= MaxItems items    *)
(* (one item per class: plain, control, 2/3/4-byte characters, lone lead,  *)
(* lone trail, overlong, raw surrogate, every escape form, high / low      *)
(* surrogate escapes, short \u, bad escape, trailing backslash) the two    *)
(* string readers agree wherever the reference accepts (StrComplete), and  *)
(* whatever the implementation-shaped reader accepts is valid UTF-8        *)
(* (StrSound); the only strings it accepts beyond the reference are none   *)
(* (StrExact).  Same for number spellings (NumComplete).                   *)
(***************************************************************************)
EXTENDS Integers, Sequences, FiniteSets, TLC

---------------------------------------------------------------------------
(* byte classes *)
IsWs(c)    == c \in {32, 9, 10, 13}
IsDigit(c) == c >= 48 /\ c <= 57
IsHex(c)   == IsDigit(c) \/ (c >= 65 /\ c <= 70) \/ (c >= 97 /\ c <= 102)
HexVal(c)  == IF IsDigit(c) THEN c - 48 ELSE IF c >= 97 THEN c - 87 ELSE c - 55
IsTrail(c) == c >= 128 /\ c <= 191
Punct == {91, 93, 123, 125, 58, 44}
PunctName(c) == CASE c = 91 -> "[" [] c = 93 -> "]" [] c = 123 -> "{" [] c = 125 -> "}" [] c = 58 -> ":" [] OTHER -> ","

At(s, i) == IF i >= 1 /\ i <= Len(s) THEN s[i] ELSE -1      \* -1 = end of input

\* length of the well-formed UTF-8 sequence (RFC 3629, table 3-7 of Unicode) starting at s[i]; 0 = ill-formed
Utf8Len(s, i) ==
    LET c == At(s, i)  c1 == At(s, i + 1)  c2 == At(s, i + 2)  c3 == At(s, i + 3)
    IN IF c >= 0 /\ c <= 127 THEN 1
       ELSE IF c >= 194 /\ c <= 223 THEN (IF IsTrail(c1) THEN 2 ELSE 0)
       ELSE IF c = 224 THEN (IF c1 >= 160 /\ c1 <= 191 /\ IsTrail(c2) THEN 3 ELSE 0)
       ELSE IF (c >= 225 /\ c <= 236) \/ c = 238 \/ c = 239 THEN (IF IsTrail(c1) /\ IsTrail(c2) THEN 3 ELSE 0)
       ELSE IF c = 237 THEN (IF c1 >= 128 /\ c1 <= 159 /\ IsTrail(c2) THEN 3 ELSE 0)
       ELSE IF c = 240 THEN (IF c1 >= 144 /\ c1 <= 191 /\ IsTrail(c2) /\ IsTrail(c3) THEN 4 ELSE 0)
       ELSE IF c >= 241 /\ c <= 243 THEN (IF IsTrail(c1) /\ IsTrail(c2) /\ IsTrail(c3) THEN 4 ELSE 0)
       ELSE IF c = 244 THEN (IF c1 >= 128 /\ c1 <= 143 /\ IsTrail(c2) /\ IsTrail(c3) THEN 4 ELSE 0)
       ELSE 0

RECURSIVE Utf8From(_, _)
Utf8From(s, i) == IF i > Len(s) THEN TRUE
                  ELSE LET n == Utf8Len(s, i) IN IF n = 0 THEN FALSE ELSE Utf8From(s, i + n)
Utf8Valid(s) == Utf8From(s, 1)

\* UTF-8 encoding of a code point 0..10FFFF (surrogates encoded like any 3-byte value, as utf8::encode does)
Utf8Enc(u) ==
    IF u <= 127 THEN <<u>>
    ELSE IF u <= 2047 THEN <<192 + (u \div 64), 128 + (u % 64)>>
    ELSE IF u <= 65535 THEN <<224 + (u \div 4096), 128 + ((u \div 64) % 64), 128 + (u % 64)>>
    ELSE <<240 + (u \div 262144), 128 + ((u \div 4096) % 64), 128 + ((u \div 64) % 64), 128 + (u % 64)>>

IsHi(u) == u >= 55296 /\ u <= 56319      \* D800..DBFF
IsLo(u) == u >= 56320 /\ u <= 57343      \* DC00..DFFF
Combine(h, l) == 65536 + (h - 55296) * 1024 + (l - 56320)

Hex4Ok(s, i) == IsHex(At(s, i)) /\ IsHex(At(s, i + 1)) /\ IsHex(At(s, i + 2)) /\ IsHex(At(s, i + 3))
Hex4(s, i) == 4096 * HexVal(s[i]) + 256 * HexVal(s[i + 1]) + 16 * HexVal(s[i + 2]) + HexVal(s[i + 3])

SimpleEsc(c) == CASE c = 34 -> 34 [] c = 92 -> 92 [] c = 47 -> 47 [] c = 98 -> 8 [] c = 102 -> 12
                  [] c = 110 -> 10 [] c = 114 -> 13 [] c = 116 -> 9 [] OTHER -> -1

StrFail == [ok |-> FALSE, v |-> <<>>, nxt |-> 0]

---------------------------------------------------------------------------
(* RFC 8259 string, i = index just after the opening quote *)
RECURSIVE RefStr(_, _, _)
RefStr(s, i, acc) ==
    LET c == At(s, i)
    IN IF c = -1 THEN StrFail
       ELSE IF c = 34 THEN [ok |-> TRUE, v |-> acc, nxt |-> i + 1]
       ELSE IF c < 32 THEN StrFail
       ELSE IF c = 92 THEN
            LET d == At(s, i + 1)
            IN IF d = 117 THEN
                    IF ~Hex4Ok(s, i + 2) THEN StrFail
                    ELSE LET u == Hex4(s, i + 2)
                         IN IF IsLo(u) THEN StrFail
                            ELSE IF IsHi(u) THEN
                                 IF At(s, i + 6) = 92 /\ At(s, i + 7) = 117 /\ Hex4Ok(s, i + 8) /\ IsLo(Hex4(s, i + 8))
                                 THEN RefStr(s, i + 12, acc \o Utf8Enc(Combine(u, Hex4(s, i + 8))))
                                 ELSE StrFail
                            ELSE RefStr(s, i + 6, acc \o Utf8Enc(u))
               ELSE IF d >= 0 /\ SimpleEsc(d) >= 0 THEN RefStr(s, i + 2, Append(acc, SimpleEsc(d)))
               ELSE StrFail
       ELSE LET n == Utf8Len(s, i)
            IN IF n = 0 THEN StrFail ELSE RefStr(s, i + n, acc \o SubSeq(s, i, i + n - 1))

(* the string reader of src/json.cpp: decode with a surrogate flag, validate once at the end *)
RECURSIVE ImplStr(_, _, _, _)
ImplStr(s, i, acc, hi) ==        \* hi = pending first surrogate or -1
    LET c == At(s, i)
    IN IF c = -1 THEN StrFail
       ELSE IF hi >= 0 /\ c # 92 THEN StrFail
       ELSE IF c <= 31 THEN StrFail
       ELSE IF c = 34 THEN (IF Utf8Valid(acc) THEN [ok |-> TRUE, v |-> acc, nxt |-> i + 1] ELSE StrFail)
       ELSE IF c = 92 THEN
            LET d == At(s, i + 1)
            IN IF d = -1 THEN StrFail
               ELSE IF hi >= 0 /\ d # 117 THEN StrFail
               ELSE IF d = 117 THEN
                    IF ~Hex4Ok(s, i + 2) THEN StrFail
                    ELSE LET u == Hex4(s, i + 2)
                         IN IF hi >= 0 THEN (IF IsLo(u) THEN ImplStr(s, i + 6, acc \o Utf8Enc(Combine(hi, u)), -1) ELSE StrFail)
                            ELSE IF IsHi(u) THEN ImplStr(s, i + 6, acc, u)
                            ELSE ImplStr(s, i + 6, acc \o Utf8Enc(u), -1)
               ELSE IF SimpleEsc(d) >= 0 THEN ImplStr(s, i + 2, Append(acc, SimpleEsc(d)), -1)
               ELSE StrFail
       ELSE ImplStr(s, i + 1, Append(acc, c), hi)

---------------------------------------------------------------------------
(* numbers; i = index of the first character ('-' or a digit) *)
RECURSIVE Digits(_, _)
Digits(s, i) == IF IsDigit(At(s, i)) THEN Digits(s, i + 1) ELSE i      \* index after the digit run

\* RFC 8259:  [-] (0 | 1-9 digits) [. digits+] [(e|E) [+-] digits+] ; longest match.  0 = no number here
RefNumEnd(s, i) ==
    LET a == IF At(s, i) = 45 THEN i + 1 ELSE i
        b == IF At(s, a) = 48 THEN a + 1 ELSE IF IsDigit(At(s, a)) THEN Digits(s, a) ELSE 0
    IN IF b = 0 THEN 0
       ELSE LET c == IF At(s, b) = 46 /\ IsDigit(At(s, b + 1)) THEN Digits(s, b + 1) ELSE b
                d0 == IF At(s, c) \in {101, 69} THEN (IF At(s, c + 1) \in {43, 45} THEN c + 2 ELSE c + 1) ELSE 0
                d == IF d0 > 0 /\ IsDigit(At(s, d0)) THEN Digits(s, d0) ELSE c
            IN d

\* classic-locale num_get + strtod: what `stream >> double' consumes and whether it succeeds.
\* Accumulates [-] digits* [. digits*] [ (e|E) [+-] digits* ] ('e' only after a mantissa digit);
\* succeeds iff the mantissa has a digit and an exponent, when present, has a digit.
ImplNum(s, i) ==
    LET a == IF At(s, i) = 45 THEN i + 1 ELSE i
        b == Digits(s, a)
        c == IF At(s, b) = 46 THEN Digits(s, b + 1) ELSE b
        mant == (b > a) \/ (c > b + 1)
        hasE == mant /\ At(s, c) \in {101, 69}
        d0 == IF hasE THEN (IF At(s, c + 1) \in {43, 45} THEN c + 2 ELSE c + 1) ELSE c
        d == IF hasE THEN Digits(s, d0) ELSE c
    IN [ok |-> mant /\ (~hasE \/ d > d0), nxt |-> d]

---------------------------------------------------------------------------
(* whole-input tokenizers; stop at the first error token *)
Tok(t, v) == [t |-> t, v |-> v]
Word(s, i, w) == \A j \in 1..Len(w) : At(s, i + j - 1) = w[j]
TRUEW == <<116, 114, 117, 101>>  FALSEW == <<102, 97, 108, 115, 101>>  NULLW == <<110, 117, 108, 108>>

RECURSIVE SkipLine(_, _)
SkipLine(s, i) == IF At(s, i) = -1 THEN i ELSE IF s[i] = 10 THEN i + 1 ELSE SkipLine(s, i + 1)

RECURSIVE Tokens(_, _, _, _)
Tokens(s, i, acc, impl) ==
    LET c == At(s, i)
    IN IF c = -1 THEN acc
       ELSE IF IsWs(c) THEN Tokens(s, i + 1, acc, impl)
       ELSE IF c \in Punct THEN Tokens(s, i + 1, Append(acc, Tok(PunctName(c), <<>>)), impl)
       ELSE IF c = 34 THEN
            LET r == IF impl THEN ImplStr(s, i + 1, <<>>, -1) ELSE RefStr(s, i + 1, <<>>)
            IN IF r.ok THEN Tokens(s, r.nxt, Append(acc, Tok("str", r.v)), impl) ELSE Append(acc, Tok("err", <<>>))
       ELSE IF c = 116 THEN (IF Word(s, i, TRUEW) THEN Tokens(s, i + 4, Append(acc, Tok("true", <<>>)), impl) ELSE Append(acc, Tok("err", <<>>)))
       ELSE IF c = 102 THEN (IF Word(s, i, FALSEW) THEN Tokens(s, i + 5, Append(acc, Tok("false", <<>>)), impl) ELSE Append(acc, Tok("err", <<>>)))
       ELSE IF c = 110 THEN (IF Word(s, i, NULLW) THEN Tokens(s, i + 4, Append(acc, Tok("null", <<>>)), impl) ELSE Append(acc, Tok("err", <<>>)))
       ELSE IF c = 45 \/ IsDigit(c) THEN
            IF impl
            THEN LET r == ImplNum(s, i)
                 IN IF r.ok THEN Tokens(s, r.nxt, Append(acc, Tok("num", SubSeq(s, i, r.nxt - 1))), impl) ELSE Append(acc, Tok("err", <<>>))
            ELSE LET e == RefNumEnd(s, i)
                 IN IF e > 0 THEN Tokens(s, e, Append(acc, Tok("num", SubSeq(s, i, e - 1))), impl) ELSE Append(acc, Tok("err", <<>>))
       ELSE IF impl /\ c = 47 /\ At(s, i + 1) = 47 THEN Tokens(s, SkipLine(s, i + 2), acc, impl)
       ELSE Append(acc, Tok("err", <<>>))

RefTokens(s)  == Tokens(s, 1, <<>>, FALSE)
ImplTokens(s) == Tokens(s, 1, <<>>, TRUE)
HasErr(ts) == Len(ts) > 0 /\ ts[Len(ts)].t = "err"

=============================================================================
