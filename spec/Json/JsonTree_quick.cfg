SPECIFICATION TreeSpec
CONSTANTS
  MaxDepth = 1
  MaxToks = 1
  TreeDepth = 2
  TreeWidth = 2
  RichScalars = FALSE
INVARIANTS Complete RoundTrip
CHECK_DEADLOCK FALSE
