SPECIFICATION TreeSpec
CONSTANTS
  MaxDepth = 2
  MaxToks = 1
  TreeDepth = 3
  TreeWidth = 1
  RichScalars = TRUE
INVARIANTS Complete RoundTrip
CHECK_DEADLOCK FALSE
