---------------------------- MODULE JsonTokCheck ----------------------------
(* Leg D for the tokenizer layer of C11: TLC enumerates every string body of  *)
(* <= MaxItems items (one item per byte class / escape form) and every number *)
(* spelling of <= MaxNum characters and compares the two readers of JsonTok.  *)
EXTENDS JsonTok

CONSTANTS MaxItems,     \* items per string body
          MaxNum        \* characters per number spelling

VARIABLES body          \* sequence of item names
tokvars == <<body>>

---------------------------------------------------------------------------
(* Leg D: string bodies built from one item per class *)
ItemBytes(n) ==
    CASE n = "a"      -> <<97>>
      [] n = "del"    -> <<127>>
      [] n = "ctl"    -> <<31>>
      [] n = "nul"    -> <<0>>
      [] n = "c2"     -> <<195, 169>>                \* U+00E9
      [] n = "c3"     -> <<226, 130, 172>>           \* U+20AC
      [] n = "c4"     -> <<240, 159, 152, 128>>      \* U+1F600
      [] n = "max"    -> <<244, 143, 191, 191>>      \* U+10FFFF
      [] n = "lead"   -> <<195>>                     \* lead byte without trail
      [] n = "trail"  -> <<169>>                     \* stray continuation
      [] n = "over"   -> <<192, 175>>                \* overlong '/'
      [] n = "over3"  -> <<224, 159, 191>>           \* overlong 3-byte
      [] n = "rawsur" -> <<237, 160, 128>>           \* U+D800 encoded raw
      [] n = "big"    -> <<244, 144, 128, 128>>      \* > U+10FFFF
      [] n = "ff"     -> <<255>>
      [] n = "e-n"    -> <<92, 110>>
      [] n = "e-q"    -> <<92, 34>>
      [] n = "e-b"    -> <<92, 92>>
      [] n = "e-s"    -> <<92, 47>>
      [] n = "e-x"    -> <<92, 120>>                 \* not an escape
      [] n = "u41"    -> <<92, 117, 48, 48, 52, 49>>
      [] n = "u0"     -> <<92, 117, 48, 48, 48, 48>>
      [] n = "uE9"    -> <<92, 117, 48, 48, 69, 57>>
      [] n = "uFFFF"  -> <<92, 117, 102, 70, 102, 70>>
      [] n = "hi"     -> <<92, 117, 68, 56, 51, 100>>   \* \uD83d
      [] n = "hi2"    -> <<92, 117, 100, 98, 102, 102>> \* \udbff
      [] n = "lo"     -> <<92, 117, 68, 69, 48, 48>>    \* \uDE00
      [] n = "lo2"    -> <<92, 117, 100, 99, 48, 48>>   \* \udc00
      [] n = "ushort" -> <<92, 117, 49, 50>>
      [] n = "ubad"   -> <<92, 117, 48, 48, 103, 48>>
      [] n = "bs"     -> <<92>>                      \* backslash followed by whatever comes next
      [] n = "q"      -> <<34>>                      \* closes the string early

Items == {"a", "del", "ctl", "nul", "c2", "c3", "c4", "max", "lead", "trail", "over", "over3", "rawsur", "big", "ff",
          "e-n", "e-q", "e-b", "e-s", "e-x", "u41", "u0", "uE9", "uFFFF", "hi", "hi2", "lo", "lo2", "ushort", "ubad", "bs", "q"}

RECURSIVE Concat(_)
Concat(ss) == IF Len(ss) = 0 THEN <<>> ELSE Head(ss) \o Concat(Tail(ss))
BodyBytes == Concat([i \in 1..Len(body) |-> ItemBytes(body[i])]) \o <<34>>     \* body + closing quote

TokInit == body = <<>>
TokNext == Len(body) < MaxItems /\ \E n \in Items : body' = Append(body, n)
TokSpec == TokInit /\ [][TokNext]_tokvars

RS == RefStr(BodyBytes, 1, <<>>)
IS == ImplStr(BodyBytes, 1, <<>>, -1)
StrSound    == IS.ok => Utf8Valid(IS.v)
StrComplete == RS.ok => (IS.ok /\ IS.v = RS.v /\ IS.nxt = RS.nxt)
StrExact    == IS.ok => RS.ok                     \* the design has no string leniency
RefIsUtf8   == RS.ok => Utf8Valid(RS.v)

\* number spellings: every RFC number is read whole by the implementation-shaped scanner
NumAlphabet == {45, 48, 49, 46, 101, 69, 43}      \* - 0 1 . e E +
NumStrings(n) == UNION { [1..m -> NumAlphabet] : m \in 1..n }
NumComplete(n) == \A s \in NumStrings(n) :
                     (s[1] = 45 \/ IsDigit(s[1])) =>
                        LET e == RefNumEnd(s, 1) r == ImplNum(s, 1)
                        IN (e = Len(s) + 1) => (r.ok /\ r.nxt = e)
NumInv == (Len(body) = 0) => NumComplete(MaxNum)
=============================================================================
