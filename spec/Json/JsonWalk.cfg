SPECIFICATION WalkSpec
CONSTANTS
  MaxDepth = 3
  MaxToks = 11
  TreeDepth = 1
  TreeWidth = 1
  RichScalars = FALSE
INVARIANTS Sound Untouched AcceptsOnlyLenient AcceptsAllWalked DepthBound
CHECK_DEADLOCK FALSE
