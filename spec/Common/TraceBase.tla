------------------------------ MODULE TraceBase ------------------------------
(* Shared plumbing of every *Trace.tla module (Leg B).                          *)
(* The ND-JSON trace recorded from the real code is read from the file named    *)
(* by the environment variable TRACE.  A trace spec declares a cursor variable  *)
(* l (1-based position of the next unconsumed line), consumes exactly one line  *)
(* per step, and registers  POSTCONDITION TraceDone  which prints the length of *)
(* the longest matched prefix.  The runner (lib/vlib.py) accepts the trace iff  *)
(* that length equals the number of lines; otherwise line  matched+1  is the    *)
(* first event the specification cannot explain.                                *)
EXTENDS Naturals, Sequences, TLC, Json, IOUtils

TraceLog == ndJsonDeserialize(IOEnv.TRACE)
NLines  == Len(TraceLog)

\* fields that may be absent in an event
Has(ev, f) == f \in DOMAIN ev
Get(ev, f, dflt) == IF f \in DOMAIN ev THEN ev[f] ELSE dflt

\* a JSON array arrives as a TLA+ sequence (tuple); sets of its elements:
SeqToSet(s) == { s[i] : i \in DOMAIN s }

TraceDone ==
    PrintT("TRACE-MATCHED " \o ToString(TLCGet("stats").diameter - 1))
==============================================================================
