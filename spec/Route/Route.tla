------------------------------- MODULE Route -------------------------------
(***************************************************************************)
(* Leg D of C20.                                                           *)
(*                                                                         *)
(* (1) Dispatch mechanism (url_dispatcher::dispatch + option::matches +    *)
(*     booster::regex::match): a linear scan over the options of the       *)
(*     current application; each option is tested with a BACKTRACKING      *)
(*     matcher (greedy quantifiers, ordered alternation, anchored at the   *)
(*     start, "\z" and the span check at the end); a matching mount        *)
(*     descends into the child with the selected group as the new path.    *)
(*     The option list of a level is chosen when the level is entered, so  *)
(*     TLC explores every tree of the bounded family along every request.  *)
(*     Invariants: FirstMatch, NoPrefix, MatcherAgrees (the backtracking   *)
(*     matcher decides exactly the declarative whole-string language       *)
(*     RouteRef!Matches and yields its unique groups).                     *)
(* (2) MapThenRoute: chains root -> ... -> target of depth <= 3 whose      *)
(*     dispatcher regex and mapper template are derived from the SAME      *)
(*     abstract pattern; for every key form (relative, absolute, "..")     *)
(*     and parameters drawn from the group languages, routing the mapped   *)
(*     URL from the root reaches the target handler with those parameters  *)
(*     unless an earlier registration legitimately shadows it.             *)
(***************************************************************************)
EXTENDS RouteRef, TLC

CONSTANTS Quick,       \* TRUE: reduced family for the quick tier (3 methods, deeper levels <= 1 handler)
          MaxSeg,      \* request = at most MaxSeg segments
          MaxDepth,    \* nesting depth explored by the dispatch machine
          Mut          \* "none" | "search" | "reverse" | "icase" | "wrongparam" | "dollar" | "approot" | "lastwins" | "lastchar"  (seeded faults, self-test)
                       \*   "dollar": the internal end anchor is "$" (also matches before a final newline) instead of "\z";
                       \*   only the capture-less regex_match overload is affected (the other one re-checks the span)

VARIABLES mode, meth, path, depth, opts, idx, out, hit, taken
vars == <<mode, meth, path, depth, opts, idx, out, hit, taken>>

\* ------------------------------------------------------------ the bounded family
S(str) == str                                   \* strings are written as tuples of codes below
Slash == 47
L(s) == [k |-> "lit", s |-> s]
D == [k |-> "d"]   W == [k |-> "w"]   A == [k |-> "any"]   R == [k |-> "rest"]   OS == [k |-> "os"]
Alt(o) == [k |-> "alt", o |-> o]

sa  == <<47, 97>>          \* "/a"
sab == <<47, 97, 98>>      \* "/ab"
s1  == <<47, 49>>          \* "/1"
sm  == <<47, 45>>          \* "/-"
ss  == <<47>>              \* "/"
Segs == {sa, sab, s1, sm, ss}

RECURSIVE Strs(_)
Strs(n) == IF n = 0 THEN {<<>>} ELSE LET P == Strs(n - 1) IN P \cup { x \o g : x \in P, g \in Segs }
\* plus near-misses "word + newline" (a prefix-only match that a "$"-style end anchor would accept)
Requests == Strs(MaxSeg) \cup { x \o <<10>> : x \in Strs(MaxSeg - 1) }

GETb == <<71, 69, 84>>   POSTb == <<80, 79, 83, 84>>   getb == <<103, 101, 116>>   GETnl == <<71, 69, 84, 10>>
\* method filters: the abstract expression alt1|alt2|... (language = RouteRef!MethodOK) and the TEXT given to the
\* code, which decides from the text whether it is a plain verb (all characters A-Z: compared as a string) or a
\* regular expression (capture-less whole-string match)
RECURSIVE TextOf(_)
TextOf(p) == IF p = <<>> THEN <<>>
             ELSE (IF p[1].k = "lit" THEN p[1].s
                   ELSE <<40>> \o p[1].o[1] \o <<124>> \o p[1].o[2] \o <<41>>) \o TextOf(Tail(p))        \* ( a | b )
RECURSIVE JoinBar(_)
JoinBar(as) == IF Len(as) = 1 THEN TextOf(as[1]) ELSE TextOf(as[1]) \o <<124>> \o JoinBar(Tail(as))
MF(as) == [k |-> "re", alts |-> as, text |-> JoinBar(as)]
NoMeth == [k |-> "none"]
MGet   == MF(<< <<L(GETb)>> >>)                                           \* GET             plain verb
MAlt   == MF(<< <<Alt(<<GETb, POSTb>>)>> >>)                              \* (GET|POST)      ends in ")"
MBar   == MF(<< <<L(GETb)>>, <<L(POSTb)>> >>)                             \* GET|POST        ends in a letter
MMid   == MF(<< <<L(<<80>>), Alt(<<<<79, 83, 84>>, <<85, 84>>>>)>>, <<L(GETb)>> >>)   \* P(OST|UT)|GET
BarText == JoinBar(<< <<L(GETb)>>, <<L(POSTb)>> >>)
Methods == IF Quick THEN {GETb, getb, GETnl, BarText} ELSE {GETb, POSTb, getb, GETnl, BarText, <<>>}

HPats == << <<L(sa)>>,                       \* /a
            <<L(ss), D>>,                    \* /<digits>
            <<L(ss), W>>,                    \* /<word>
            <<L(sa), L(ss), D, OS>>,         \* /a/<digits>/?
            <<L(ss), Alt(<<<<97>>, <<97, 98>>>>), L(ss), A>>,   \* /<a or ab>/<any>
            <<A>> >>                          \* <any>
MPats == << <<L(sa), R>>,                     \* /a<optional "/" + anything, one group>
            <<L(ss), W, R>> >>                \* /<word><optional "/" + anything, one group>     child path = group 2

NGroups(p) == Cardinality({ i \in 1..Len(p) : p[i].k \in {"d", "w", "any", "alt", "rest"} })
Ident(n) == [i \in 1..n |-> i]
Rev(n) == [i \in 1..n |-> n + 1 - i]

\* handlers: every pattern without method filter; patterns 1 and 3 also for GET only (reversed group
\* selection), pattern 3 also for the method regex <GET or POST>; deeper levels: patterns 1..3 only
Handlers(d) ==
    LET mk(i, v, m) == [t |-> "h", id |-> i * 10 + v, pat |-> HPats[i], meth |-> m,
                        sel |-> IF v = 2 THEN Rev(NGroups(HPats[i])) ELSE Ident(NGroups(HPats[i]))]
    IN IF d = 1 THEN { mk(i, 1, NoMeth) : i \in 1..Len(HPats) } \cup { mk(1, 2, MGet), mk(3, 3, MAlt), mk(3, 4, MBar) }
                      \cup (IF Quick THEN {} ELSE { mk(3, 2, MGet), mk(3, 5, MMid) })
       ELSE { mk(i, 1, NoMeth) : i \in 1..3 }
Mounts(d) ==
    IF d >= MaxDepth THEN {}
    ELSE { [t |-> "m", child |-> 0, pat |-> MPats[i], sel |-> NGroups(MPats[i])] : i \in (IF d = 1 THEN 1..2 ELSE 1..1) }

\* option lists of a level: <= 2 handlers and <= 1 mount, the mount at any position
LevelLists(d) ==
    LET H == Handlers(d)
        HL == {<<>>} \cup { <<h>> : h \in H } \cup (IF Quick /\ d > 1 THEN {} ELSE { <<h1, h2>> : h1 \in H, h2 \in H })
    IN HL \cup UNION { { SubSeq(hl, 1, k) \o <<m>> \o SubSeq(hl, k + 1, Len(hl)) : m \in Mounts(d), k \in 0..Len(hl) } : hl \in HL }

\* ------------------------------------------------------------ mechanism: backtracking matcher
SetMax(X) == CHOOSE x \in X : \A y \in X : y <= x
Fail == [ok |-> FALSE, g |-> <<>>]

\* cap = TRUE: regex_match with captures (end anchor AND span check); FALSE: the capture-less overload (end anchor only)
EndOK(s, j, cap) == \/ j = Len(s) + 1
                    \/ Mut = "search"
                    \/ (Mut = "dollar" /\ ~cap /\ j = Len(s) /\ s[j] = 10)

RECURSIVE BT(_, _, _, _, _)
BT(p, i, s, j, cap) ==
    IF i > Len(p) THEN [ok |-> EndOK(s, j, cap), g |-> <<>>]
    ELSE LET e == p[i]
             n == Len(s)
         IN CASE e.k = "lit" -> IF OccAt(s, e.s, j) THEN BT(p, i + 1, s, j + Len(e.s), cap) ELSE Fail
              [] e.k \in {"d", "w", "any", "rest"} ->
                   LET Ks == IF e.k = "rest"
                             THEN {0} \cup { k \in 1..(n - j + 1) : s[j] = 47 /\ \A t \in j..(j + k - 1) : IsAny(s[t]) }
                             ELSE { k \in (IF e.k = "any" THEN 0 ELSE 1)..(n - j + 1) : \A t \in j..(j + k - 1) : Cls(e.k, s[t]) }
                       Good == { k \in Ks : BT(p, i + 1, s, j + k, cap).ok }
                   IN IF Good = {} THEN Fail
                      ELSE LET k == SetMax(Good)                                   \* greedy
                           IN [ok |-> TRUE, g |-> <<SubSeq(s, j, j + k - 1)>> \o BT(p, i + 1, s, j + k, cap).g]
              [] e.k = "alt" ->
                   LET Good == { q \in DOMAIN e.o : OccAt(s, e.o[q], j) /\ BT(p, i + 1, s, j + Len(e.o[q]), cap).ok }
                   IN IF Good = {} THEN Fail
                      ELSE LET q == CHOOSE x \in Good : \A y \in Good : x <= y     \* ordered alternation
                           IN [ok |-> TRUE, g |-> <<e.o[q]>> \o BT(p, i + 1, s, j + Len(e.o[q]), cap).g]
              [] e.k = "os" ->
                   IF j <= n /\ s[j] = 47 /\ BT(p, i + 1, s, j + 1, cap).ok THEN BT(p, i + 1, s, j + 1, cap) ELSE BT(p, i + 1, s, j, cap)

\* regex_match(path, m, expr): anchored at 1; the seeded fault "search" tries every start and drops "\z"
MechMatch(p, s) ==
    IF Mut = "search"
    THEN LET Good == { a \in 1..(Len(s) + 1) : BT(p, 1, s, a, TRUE).ok }
         IN IF Good = {} THEN Fail ELSE BT(p, 1, s, CHOOSE a \in Good : \A b \in Good : a <= b, TRUE)
    ELSE BT(p, 1, s, 1, TRUE)
MatchBool(p, s) == BT(p, 1, s, 1, FALSE).ok            \* capture-less regex_match

Upper(m) == [i \in 1..Len(m) |-> IF m[i] >= 97 /\ m[i] <= 122 THEN m[i] - 32 ELSE m[i]]
\* option::option(expr, method): a plain verb iff EVERY character is A-Z (seeded fault "lastchar": iff the LAST one is)
IsUp(c) == c >= 65 /\ c <= 90
PlainVerb(t) == IF Mut = "lastchar" THEN (t = <<>> \/ IsUp(t[Len(t)])) ELSE \A i \in 1..Len(t) : IsUp(t[i])
MechMethod(o) ==
    \/ o.t = "m" \/ o.meth.k = "none"
    \/ LET mm == IF Mut = "icase" THEN Upper(meth) ELSE meth
       IN IF PlainVerb(o.meth.text) THEN o.meth.text = mm
          ELSE \E i \in 1..Len(o.meth.alts) : MatchBool(o.meth.alts[i], meth)       \* (?:alt1|alt2|...) anchored, whole string

\* ------------------------------------------------------------ dispatch machine
NoHit == [id |-> 0, args |-> <<>>]
NoTaken == [has |-> FALSE, opts |-> <<>>, path |-> <<>>, i |-> 0]
\* the scan of one level as one step: the first option, in scan order, whose method filter passes
\* and whose pattern the backtracking matcher accepts (seeded fault "reverse": scanned from the end)
ScanFirst(os) ==
    LET OK == { i \in 1..Len(os) : MechMethod(os[i]) /\ MechMatch(os[i].pat, path).ok }
    IN IF OK = {} THEN 0
       ELSE IF Mut = "reverse" THEN CHOOSE i \in OK : \A j \in OK : j <= i
       ELSE CHOOSE i \in OK : \A j \in OK : i <= j

InitRoute ==
    /\ mode = "route"
    /\ meth \in Methods /\ path \in Requests /\ depth = 1
    /\ opts \in LevelLists(1) /\ idx = 0
    /\ out = "run" /\ hit = NoHit /\ taken = NoTaken

Try ==
    /\ mode = "route" /\ out = "run"
    /\ LET i == ScanFirst(opts)
       IN IF i = 0
          THEN out' = "nf" /\ taken' = NoTaken /\ UNCHANGED <<mode, meth, path, depth, opts, idx, hit>>
          ELSE LET o == opts[i]
                   r == MechMatch(o.pat, path)
               IN IF o.t = "h"
                  THEN /\ out' = "hit" /\ hit' = [id |-> o.id, args |-> Sel(path, r.g, o.sel)]
                       /\ taken' = [has |-> TRUE, opts |-> opts, path |-> path, i |-> i]
                       /\ UNCHANGED <<mode, meth, path, depth, opts, idx>>
                  ELSE /\ path' = r.g[o.sel] /\ depth' = depth + 1
                       /\ opts' \in LevelLists(depth + 1) /\ idx' = 0
                       /\ taken' = [has |-> TRUE, opts |-> opts, path |-> path, i |-> i]
                       /\ UNCHANGED <<mode, meth, out, hit>>

\* ------------------------------------------------------------ map-then-route chains
Tmpl(p) ==       \* mapper template of a pattern: literals kept, groups numbered in order
    LET RECURSIVE T(_, _)
        T(i, n) == IF i > Len(p) THEN <<>>
                   ELSE IF p[i].k = "lit" THEN <<[l |-> p[i].s]>> \o T(i + 1, n)
                   ELSE IF p[i].k = "os" THEN T(i + 1, n)
                   ELSE <<[p |-> n]>> \o T(i + 1, n + 1)
    IN T(1, 1)

Samples(e) ==
    CASE e.k = "d" -> {<<49>>, <<49, 50>>}
      [] e.k = "w" -> {<<97>>, <<97, 49>>}
      [] e.k = "any" -> {<<>>, <<97, 47, 49>>}
      [] e.k = "alt" -> { e.o[q] : q \in DOMAIN e.o }
      [] e.k = "rest" -> {<<>>, <<47, 97>>}

GroupEls(p) == SelectSeq(p, LAMBDA e : e.k \in {"d", "w", "any", "alt", "rest"})
RECURSIVE ParamLists(_)
ParamLists(ge) == IF ge = <<>> THEN {<<>>} ELSE { <<x>> \o r : x \in Samples(ge[1]), r \in ParamLists(Tail(ge)) }

\* mount pattern + template under the name "c": only the LAST group of the mount pattern is the
\* child's URL; chains use mount pattern 1 (one group)
MountT == <<[l |-> sa], [p |-> 1]>>
Shadows == {<<>>} \cup { <<[t |-> "h", id |-> 99, pat |-> HPats[i], meth |-> NoMeth, sel |-> <<>>]>> : i \in {1, 3, 6} }

\* dn nodes; node i+1 is reached through a mount of node i; the target handler lives in node dn.
\* wire[i] says how node i (i > 1) is wired into node i-1:
\*   "full"   add(app,name,url,regex,part): application + mapper + dispatcher hierarchy
\*   "nomap"  add(app,regex,part) only: no mapper link - node i is the top of its own mapper hierarchy
\*            (an unnamed front application above a named hierarchy); its root string is the mount path
\*   "noapp"  mapper().mount + dispatcher().mount without add(): no application-hierarchy link
RECURSIVE Path(_)
Path(n) == IF n = 0 THEN <<>> ELSE sa \o Path(n - 1)
Chain(dn, tgt, sel, shadow, wire) ==
    [i \in 1..dn |->
        [parent |-> i - 1,
         mparent |-> IF i > 1 /\ wire[i] # "nomap" THEN i - 1 ELSE 0,
         aparent |-> IF i > 1 /\ wire[i] # "noapp" THEN i - 1 ELSE 0,
         mroot |-> IF i > 1 /\ wire[i] = "nomap" THEN Path(i - 1) ELSE <<>>,
         mname |-> IF i > 1 /\ wire[i] # "nomap" THEN "c" ELSE "", mt |-> IF i > 1 /\ wire[i] # "nomap" THEN MountT ELSE <<>>,
         opts |-> (IF i = 1 THEN shadow ELSE <<>>) \o
                  (IF i < dn THEN <<[t |-> "m", child |-> i + 1, pat |-> MPats[1], sel |-> 1]>>
                   ELSE <<[t |-> "h", id |-> 7, pat |-> tgt, meth |-> NoMeth, sel |-> sel]>>),
         keys |-> IF i = dn THEN <<[key |-> "k", ar |-> NGroups(tgt), t |-> Tmpl(tgt)]>> ELSE <<>>]]

VARIABLE mcase
allvars == <<vars, mcase>>

\* keys that name the target (node dn, key "k") as seen from node app; top = top of dn's mapper hierarchy
Names(n) == [i \in 1..(n + 1) |-> IF i = n + 1 THEN "k" ELSE "c"]
KeyForms(dn, app, top) ==
    { [abs |-> TRUE,  comps |-> Names(dn - top)],
      [abs |-> FALSE, comps |-> Names(dn - app)],
      [abs |-> FALSE, comps |-> <<".">> \o Names(dn - app)] }
    \cup (IF app = dn /\ dn > top THEN { [abs |-> FALSE, comps |-> <<"..", "c", "k">>] } ELSE {})

Wires(dn) == IF dn = 1 THEN {<<"-">>}
             ELSE IF dn = 2 THEN { <<"-", a>> : a \in {"full", "nomap", "noapp"} }
             ELSE { <<"-", a, b>> : a \in {"full", "nomap", "noapp"}, b \in {"full", "nomap", "noapp"} }

\* (URLs of mounted children must start with "/": pattern 6 only at the root)
InitMap ==
    /\ mode = "map"
    /\ meth = GETb /\ path = <<>> /\ depth = 0 /\ opts = <<>> /\ idx = 0 /\ out = "done" /\ hit = NoHit /\ taken = NoTaken
    /\ \E dn \in 1..3 : \E pi \in (IF dn = 1 THEN 1..Len(HPats) ELSE 1..5) : \E rv \in BOOLEAN : \E sh \in Shadows : \E wire \in Wires(dn) :
         LET tgt == HPats[pi]
             sel == IF rv THEN Rev(NGroups(tgt)) ELSE Ident(NGroups(tgt))
             cf == Chain(dn, tgt, sel, sh, wire)
             top == RootOf(cf, dn)
         IN \E app \in top..dn : \E kf \in KeyForms(dn, app, top) : \E ps \in ParamLists(GroupEls(tgt)) :
              mcase = [cfg |-> cf, dn |-> dn, app |-> app, key |-> kf, params |-> ps, sel |-> sel]

\* the mapper mechanism: url_mapper::data::map - the child's URL is streamed into the parent's entry
\* registered under the child's name (one parameter); seeded fault: the parent gets the child's
\* first parameter instead of the child's URL
RECURSIVE MechClimb(_, _, _, _)
MechClimb(cfg, node, url, params) ==
    IF cfg[node].mparent = 0 THEN url
    ELSE MechClimb(cfg, cfg[node].mparent,
                   Fill(cfg[node].mt, <<IF Mut = "wrongparam" /\ params # <<>> THEN params[1] ELSE url>>), params)

\* url_mapper::topmost(): walks the mapper parents to the top.  Seeded fault "approot": one mapper hop,
\* then application::root() - the add()/attach() hierarchy - which differs as soon as a level is wired
\* without a mapper link ("nomap") or without add() ("noapp")
RECURSIVE AppRoot(_, _)
AppRoot(cfg, n) == IF cfg[n].aparent = 0 THEN n ELSE AppRoot(cfg, cfg[n].aparent)
MechTop(cfg, n) == IF Mut = "approot" THEN (IF cfg[n].mparent = 0 THEN n ELSE AppRoot(cfg, cfg[n].mparent)) ELSE RootOf(cfg, n)

MechMap(c) ==
    LET start == IF c.key.abs THEN MechTop(c.cfg, c.app) ELSE c.app
        w == Walk(c.cfg, start, c.key.comps, 1)
    IN IF ~w.ok THEN NoUrl
       ELSE LET ks == c.cfg[w.node].keys
                KS == { i \in 1..Len(ks) : ks[i].key = w.key /\ ks[i].ar = Len(c.params) }
            IN IF KS = {} THEN NoUrl
               ELSE [ok |-> TRUE, node |-> w.node, key |-> w.key,
                     url |-> MechClimb(c.cfg, w.node, Fill(ks[CHOOSE i \in KS : TRUE].t, c.params), c.params)]

\* walk the intended path of the URL: "reached" | "shadowed" | "broken"
RECURSIVE Intended(_, _, _, _)
Intended(cfg, node, s, want) ==
    LET os == cfg[node].opts
        me == CHOOSE i \in 1..Len(os) : (os[i].t = "m" \/ os[i].id = 7)
        f  == FirstOK(os, "GET", s)
    IN IF f = 0 THEN "broken"
       ELSE IF f < me THEN "shadowed"
       ELSE IF os[me].t = "h" THEN (IF Sel(s, Groups(os[me].pat, s), os[me].sel) = want THEN "reached" ELSE "broken")
       ELSE Intended(cfg, os[me].child, Groups(os[me].pat, s)[os[me].sel], want)

MapThenRoute ==
    mode = "map" =>
        LET c == mcase
            u == MechMap(c)
            want == Sel(<<>>, c.params, c.sel)
            full == c.cfg[RootOf(c.cfg, c.dn)].mroot \o u.url          \* the mapper top prepends its root string
        IN /\ u.ok /\ u.node = c.dn
           /\ u.url = MapUrl(c.cfg, c.app, c.key.abs, c.key.comps, c.params).url
           /\ Intended(c.cfg, 1, full, want) \in {"reached", "shadowed"}
           /\ (Intended(c.cfg, 1, full, want) = "reached" =>
                 Route(c.cfg, 1, "GET", full) = [hit |-> TRUE, app |-> c.dn, id |-> 7, args |-> want])

\* ------------------------------------------------------------ mount points (applications pool)
\* mount_point::match: host, the non-selected part and a selected part with group 0 go through the
\* capture-less regex_match; a selected part with a group through the one with captures
Nil == [nil |-> TRUE]
P(els) == [els |-> els]
hA == <<97, 46, 111>>  hAnl == <<97, 46, 111, 10>>  hB == <<98>>        \* "a.o"  "a.o\n"  "b"
PoolMps ==
    { [sel |-> sl, host |-> h, script |-> sc, path |-> pa, grp |-> g] :
        sl \in {"path", "script"}, h \in {Nil, P(<<W, L(<<46, 111>>)>>)},
        sc \in {Nil, P(<<L(sa)>>), P(<<L(ss), W>>)}, pa \in {Nil, P(<<L(sa), R>>), P(<<L(ss), W>>)}, g \in {0, 1} }
PoolStrs == {<<>>, sa, sa \o <<10>>, sa \o s1, sab, sa \o s1 \o <<10>>, sa \o <<13, 10>>}
MechMp(mp, h, sc, pa) ==
    LET selS == IF mp.sel = "path" THEN pa ELSE sc
        selP == IF mp.sel = "path" THEN mp.path ELSE mp.script
        othS == IF mp.sel = "path" THEN sc ELSE pa
        othP == IF mp.sel = "path" THEN mp.script ELSE mp.path
    IN IF ~Unset(mp.host) /\ ~MatchBool(mp.host.els, h) THEN [ok |-> FALSE, sel |-> <<>>]
       ELSE IF ~Unset(othP) /\ ~MatchBool(othP.els, othS) THEN [ok |-> FALSE, sel |-> <<>>]
       ELSE IF Unset(selP) THEN [ok |-> TRUE, sel |-> selS]
       ELSE IF mp.grp = 0 THEN [ok |-> MatchBool(selP.els, selS), sel |-> selS]
       ELSE LET r == MechMatch(selP.els, selS) IN [ok |-> r.ok, sel |-> IF r.ok THEN r.g[mp.grp] ELSE <<>>]

InitPool ==
    /\ mode = "pool"
    /\ meth = GETb /\ path = <<>> /\ depth = 0 /\ opts = <<>> /\ idx = 0 /\ out = "done" /\ hit = NoHit /\ taken = NoTaken
    /\ \E mp \in PoolMps : \E h \in {hA, hAnl, hB} : \E sc \in PoolStrs : \E pa \in PoolStrs :
          LET selP == IF mp.sel = "path" THEN mp.path ELSE mp.script
          IN mp.grp <= (IF Unset(selP) THEN 0 ELSE NGroups(selP.els)) /\ mcase = [mp |-> mp, h |-> h, s |-> sc, p |-> pa]

\* the two lists of the pool: get_application_specific_pool scans the pool mounts and returns at the first
\* match; otherwise it walks the legacy list to its end (purging destroyed applications on the way) and keeps
\* the FIRST match.  Seeded fault "lastwins": every later legacy match overwrites the result.
PM1 == [sel |-> "path", host |-> Nil, script |-> Nil, path |-> P(<<L(sa), R>>), grp |-> 1]            \* /a<rest>      -> rest
PM2 == [sel |-> "path", host |-> Nil, script |-> Nil, path |-> P(<<L(sa), L(s1), R>>), grp |-> 1]     \* /a/1<rest>    -> rest
PM3 == [sel |-> "path", host |-> Nil, script |-> Nil, path |-> Nil, grp |-> 0]                       \* catch-all     -> whole path
PM4 == [sel |-> "path", host |-> Nil, script |-> Nil, path |-> P(<<L(sa), R>>), grp |-> 0]            \* /a<rest>      -> whole path
PMs == {PM1, PM2, PM3, PM4}
RECURSIVE Lists(_, _)
Lists(Sx, n) == IF n = 0 THEN {<<>>} ELSE LET Lp == Lists(Sx, n - 1) IN Lp \cup { <<x>> \o l : x \in Sx, l \in { y \in Lp : Len(y) = n - 1 } }
PoolPaths == {<<>>, sa, sab, sa \o s1, sa \o s1 \o sa, sa \o sa}

MechLookup(entries, gone, h, sc, pa) ==
    LET RECURSIVE Scan(_, _, _)
        Scan(i, kind, res) ==
            IF i > Len(entries) THEN res
            ELSE LET e == entries[i]
                     r == MechMp(e.mp, h, sc, pa)
                 IN IF e.kind # kind \/ e.id \in gone \/ ~r.ok THEN Scan(i + 1, kind, res)
                    ELSE IF kind = "pool" THEN [id |-> e.id, url |-> r.sel]                           \* return at once
                    ELSE IF res.id = 0 \/ Mut = "lastwins" THEN Scan(i + 1, kind, [id |-> e.id, url |-> r.sel])
                    ELSE Scan(i + 1, kind, res)
        first == Scan(1, "pool", NoMount)
    IN IF first.id # 0 THEN first ELSE Scan(1, "legacy", NoMount)

InitPools ==
    /\ Mut \in {"none", "lastwins"}            \* (the other self-test configurations do not need these states)
    /\ mode = "pools"
    /\ meth = GETb /\ path = <<>> /\ depth = 0 /\ opts = <<>> /\ idx = 0 /\ out = "done" /\ hit = NoHit /\ taken = NoTaken
    /\ \E pl \in Lists(PMs, 1) : \E ll \in Lists(PMs, 3) : \E pa \in PoolPaths : \E pfirst \in BOOLEAN :
          LET ents == [i \in 1..(Len(pl) + Len(ll)) |->
                         \* registration order: pool mount first or last - only the order inside each list matters
                         IF pfirst THEN (IF i <= Len(pl) THEN [id |-> i, kind |-> "pool", mp |-> pl[i]]
                                         ELSE [id |-> i, kind |-> "legacy", mp |-> ll[i - Len(pl)]])
                         ELSE (IF i <= Len(ll) THEN [id |-> i, kind |-> "legacy", mp |-> ll[i]]
                               ELSE [id |-> i, kind |-> "pool", mp |-> pl[i - Len(ll)]])]
          IN \E gone \in SUBSET (1..Len(ents)) : mcase = [ents |-> ents, gone |-> gone, h |-> hB, s |-> <<>>, p |-> pa]

PoolFirst ==
    mode = "pools" =>
        MechLookup(mcase.ents, mcase.gone, mcase.h, mcase.s, mcase.p) = PoolLookup(mcase.ents, mcase.gone, mcase.h, mcase.s, mcase.p)

PoolWhole ==
    mode = "pool" =>
        LET c == mcase
            r == MechMp(c.mp, c.h, c.s, c.p)
        IN /\ r.ok <=> MpMatches(c.mp, c.h, c.s, c.p)
           /\ r.ok => r.sel = MpSelected(c.mp, c.s, c.p)

\* ------------------------------------------------------------ specification and properties
Init == (InitRoute /\ mcase = [cfg |-> <<>>]) \/ InitMap \/ InitPool \/ InitPools
Next == Try /\ UNCHANGED mcase
Spec == Init /\ [][Next]_allvars

FirstMatch ==
    /\ (mode = "route" /\ taken.has) =>
          /\ FirstOK(taken.opts, meth, taken.path) = taken.i
    /\ (mode = "route" /\ out = "hit") =>
          LET o == taken.opts[taken.i]
          IN hit = [id |-> o.id, args |-> Sel(taken.path, Groups(o.pat, taken.path), o.sel)]
    /\ (mode = "route" /\ out = "nf") => FirstOK(opts, meth, path) = 0

NoPrefix ==
    /\ (mode = "route" /\ taken.has) =>
          LET o == taken.opts[taken.i]
          IN /\ Matches(o.pat, taken.path) /\ ~PrefixOnly(o.pat, taken.path) /\ ~SubstrOnly(o.pat, taken.path)
             /\ (o.t = "h" => MethodOK(o.meth, meth))                 \* the method, too, is matched as a whole
    /\ (mode = "pool" /\ MechMp(mcase.mp, mcase.h, mcase.s, mcase.p).ok) =>
          MpMatches(mcase.mp, mcase.h, mcase.s, mcase.p)              \* host / script name / path info matched entirely

MatcherAgrees ==        \* evaluated once per level (when the level is entered)
    (mode = "route" /\ out = "run") =>
        \A i \in 1..Len(opts) :
            LET r == BT(opts[i].pat, 1, path, 1, TRUE)
                ms == MatchSet(opts[i].pat, path)
            IN /\ r.ok <=> ms # {}
               /\ Cardinality(ms) <= 1
               /\ r.ok => r.g \in ms
=============================================================================
