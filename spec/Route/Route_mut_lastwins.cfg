SPECIFICATION Spec
CONSTANTS
  Quick = TRUE
  MaxSeg = 1
  MaxDepth = 1
  Mut = "lastwins"
INVARIANTS PoolFirst
