SPECIFICATION Spec
CONSTANTS
  Quick = TRUE
  MaxSeg = 1
  MaxDepth = 2
  Mut = "lastchar"
INVARIANTS FirstMatch NoPrefix MatcherAgrees MapThenRoute PoolWhole PoolFirst
