SPECIFICATION Spec
CONSTANTS
  MaxSeg = 3
  MaxDepth = 3
  Mut = "none"
INVARIANTS FirstMatch NoPrefix MatcherAgrees MapThenRoute PoolWhole
