SPECIFICATION Spec
CONSTANTS
  MaxSeg = 4
  MaxDepth = 3
  Mut = "none"
INVARIANTS FirstMatch NoPrefix MatcherAgrees MapThenRoute
