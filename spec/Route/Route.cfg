SPECIFICATION Spec
CONSTANTS
  Quick = FALSE
  MaxSeg = 3
  MaxDepth = 3
  Mut = "none"
INVARIANTS FirstMatch NoPrefix MatcherAgrees MapThenRoute PoolWhole PoolFirst
