SPECIFICATION Spec
CONSTANTS
  Quick = TRUE
  MaxSeg = 1
  MaxDepth = 2
  Mut = "dollar"
INVARIANTS NoPrefix
