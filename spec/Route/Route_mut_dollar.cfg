SPECIFICATION Spec
CONSTANTS
  MaxSeg = 1
  MaxDepth = 2
  Mut = "dollar"
INVARIANTS NoPrefix
