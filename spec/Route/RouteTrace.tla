----------------------------- MODULE RouteTrace -----------------------------
(***************************************************************************)
(* Leg B of C20.  The configuration of the real application tree is logged *)
(* (patterns in the abstract syntax of RouteRef and as the regex text      *)
(* given to booster::regex); every dispatch / map / pool look-up observed  *)
(* on the real code must equal what RouteRef computes from it:             *)
(*   FirstMatch / NoPrefix  Req:  hits, 404  =  Route(cfg, root, m, p)      *)
(*   MapThenRoute           Map:  url = prefix + MapUrl(..); routing that  *)
(*                                url reaches the handler the key belongs  *)
(*                                to with the same parameters, or an       *)
(*                                earlier registration shadows it          *)
(*   mount points           PReq: the first registered matching mount of   *)
(*                                the pool list, else of the live legacy   *)
(*                                (application object) list; host / script *)
(*                                / path matched entirely; selected group  *)
(*                                handed on; unmounted / destroyed entries *)
(*                                (PGone) never change who wins            *)
(***************************************************************************)
EXTENDS RouteRef, TraceBase

VARIABLES l, cfg, prefix, mps, helpers, gone
tvars == <<l, cfg, prefix, mps, helpers, gone>>

Ev == TraceLog[l]
Is(name) == l <= NLines /\ Ev.e = name /\ l' = l + 1

\* JSON option -> RouteRef option (method set arrives as a sequence)
MethOf(m) == IF m.k = "none" THEN [k |-> "none"] ELSE [k |-> "re", alts |-> m.alts]     \* methods are byte strings (Ev.mb)
OptOf(o) == IF o.t = "h" THEN [t |-> "h", id |-> o.id, pat |-> o.pat, meth |-> MethOf(o.meth), sel |-> o.sel]
            ELSE [t |-> "m", child |-> o.child, pat |-> o.pat, sel |-> o.sel]
NodeOf(n) == [parent |-> n.parent, mparent |-> n.mparent, mroot |-> n.mroot, helpers |-> n.helpers, mname |-> n.mname, mt |-> n.mt,
              opts |-> [i \in 1..Len(n.opts) |-> OptOf(n.opts[i])], keys |-> n.keys]

Observed == IF Ev.hits = <<>> THEN NotFound
            ELSE [hit |-> TRUE, app |-> Ev.hits[1].app, id |-> Ev.hits[1].id, args |-> Ev.hits[1].args]

RouteOK(m, p) ==
    \/ RouteAmbiguous(cfg, 1, m, p)
    \/ LET r == Route(cfg, 1, m, p)
       IN /\ Len(Ev.hits) <= 1
          /\ Observed = r
          /\ (r.hit => Ev.st # 404) /\ (~r.hit => Ev.st = 404)

\* where the URL of (tapp, tid) was meant to go: "reached" | "shadowed" | "broken"
RECURSIVE IsAnc(_, _)
IsAnc(a, b) == a = b \/ (cfg[b].parent # 0 /\ IsAnc(a, cfg[b].parent))
RECURSIVE Intended(_, _, _, _, _, _)
Intended(node, s, tapp, tid, want, m) ==
    LET os == cfg[node].opts
        Me == IF node = tapp THEN { i \in 1..Len(os) : os[i].t = "h" /\ os[i].id = tid }
              ELSE { i \in 1..Len(os) : os[i].t = "m" /\ IsAnc(os[i].child, tapp) }
        f  == FirstOK(os, m, s)
    IN IF Me = {} \/ f = 0 THEN "broken"
       ELSE LET me == CHOOSE i \in Me : TRUE
            IN IF f < me THEN "shadowed"
               ELSE IF f > me THEN "broken"
               ELSE IF os[me].t = "h" THEN (IF Sel(s, Groups(os[me].pat, s), os[me].sel) = want THEN "reached" ELSE "broken")
               ELSE Intended(os[me].child, Groups(os[me].pat, s)[os[me].sel], tapp, tid, want, m)

\* keyword parameters ("key;name,..."): the first Len(kwn) actual parameters are bound to the names and
\* override the defaults set with set_value; the others are positional
MapOK ==
    LET nk == Len(Ev.kwn)
        pos == SubSeq(Ev.params, nk + 1, Len(Ev.params))
        hv == [i \in 1..nk |-> [n |-> Ev.kwn[i], v |-> Ev.params[i]]] \o cfg[RootOf(cfg, Ev.app)].helpers   \* defaults: top of the caller's mapper hierarchy
        u == IF nk > Len(Ev.params) THEN NoUrl ELSE MapUrlH(cfg, Ev.app, Ev.abs, Ev.comps, pos, hv)
    IN /\ Ev.ok = u.ok
       /\ u.ok =>
            LET full == cfg[RootOf(cfg, u.node)].mroot \o u.url            \* the mapper top prepends its root string
                rp == SubSeq(full, Len(prefix) + 1, Len(full))              \* path info seen by the root application
            IN
            /\ Ev.url = full
            /\ RouteOK(Ev.mb, rp)
            /\ (Ev.tapp # 0 /\ ~RouteAmbiguous(cfg, 1, Ev.mb, rp)) =>
                  /\ u.node = Ev.tapp
                  /\ (Ev.tid # 0 =>
                        LET h == CHOOSE o \in { cfg[Ev.tapp].opts[i] : i \in 1..Len(cfg[Ev.tapp].opts) } : o.t = "h" /\ o.id = Ev.tid
                            want == Sel(<<>>, Ev.full, h.sel)
                            w == Intended(1, rp, Ev.tapp, Ev.tid, want, Ev.mb)
                        IN /\ w \in {"reached", "shadowed"}
                           /\ (w = "reached" => Observed = [hit |-> TRUE, app |-> Ev.tapp, id |-> Ev.tid, args |-> want]))

\* mps = << [id, kind, mp] >> in registration order (PMount); gone = ids unmounted / destroyed (PGone)
PReqOK ==
    LET r == PoolLookup(mps, gone, Ev.h, Ev.s, Ev.p)
        live == SelectSeq(mps, LAMBDA e : e.id \notin gone)
        amb == \E i \in 1..Len(live) :
                  LET mp == live[i].mp
                      sp == IF mp.sel = "path" THEN mp.path ELSE mp.script
                  IN ~Unset(sp) /\ Ambiguous(sp.els, IF mp.sel = "path" THEN Ev.p ELSE Ev.s)
    IN amb \/ (Ev.idx = r.id /\ (r.id # 0 => Ev.matched = r.url))

TReset == Is("Reset") /\ cfg' = <<>> /\ prefix' = <<>> /\ mps' = <<>> /\ helpers' = <<>> /\ gone' = {}
TCfg   == Is("Cfg") /\ cfg' = [i \in 1..Len(Ev.nodes) |-> NodeOf(Ev.nodes[i])] /\ prefix' = Ev.prefix /\ helpers' = Ev.helpers /\ UNCHANGED <<mps, gone>>
TReq   == Is("Req") /\ RouteOK(Ev.mb, Ev.p) /\ UNCHANGED <<cfg, prefix, mps, helpers, gone>>
TMap   == Is("Map") /\ MapOK /\ UNCHANGED <<cfg, prefix, mps, helpers, gone>>
TPMount == Is("PMount") /\ mps' = Append(mps, [id |-> Ev.id, kind |-> Ev.kind, mp |-> Ev.mp]) /\ UNCHANGED <<cfg, prefix, helpers, gone>>
TPGone  == Is("PGone") /\ gone' = gone \cup {Ev.id} /\ UNCHANGED <<cfg, prefix, mps, helpers>>
TPReq  == Is("PReq") /\ PReqOK /\ UNCHANGED <<cfg, prefix, mps, helpers, gone>>

TraceInit == l = 1 /\ cfg = <<>> /\ prefix = <<>> /\ mps = <<>> /\ helpers = <<>> /\ gone = {}
TraceNext == TReset \/ TCfg \/ TReq \/ TMap \/ TPMount \/ TPGone \/ TPReq
TraceSpec == TraceInit /\ [][TraceNext]_tvars
=============================================================================
