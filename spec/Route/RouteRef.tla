------------------------------ MODULE RouteRef ------------------------------
(***************************************************************************)
(* Declarative reference for C20 (no variables; shared by the design model *)
(* Route.tla and the trace specification RouteTrace.tla).                  *)
(*                                                                         *)
(* Strings are sequences of bytes.  A pattern is a sequence of elements    *)
(*   [k |-> "lit", s |-> bytes]      the literal text                      *)
(*   [k |-> "d"]   <digits>      [k |-> "w"]   <word>      [k |-> "any"] <any>  *)
(*   [k |-> "alt", o |-> <<bytes, ...>>]    <x or y ...>                      *)
(*   [k |-> "os"]  /?  (optional trailing slash, no group)                 *)
(*   [k |-> "up"]  [A-Z]+   [k |-> "olit", s |-> bytes]  optional literal   *)
(*                 (both without group; used by method filters)            *)
(*   [k |-> "rest"] <optional "/" + anything, one group>  the rest of the path: empty or "/..."      *)
(* whose language is decidable by the split enumeration below.  Matching   *)
(* is WHOLE-STRING: M(p,1,s,1) is the set of capture lists of all ways to  *)
(* split the ENTIRE string s among the elements of p.  The families used   *)
(* by the drivers keep every group delimited by "/" literals, so the set   *)
(* has at most one element (checked: Ambiguous => the spec is silent).     *)
(***************************************************************************)
EXTENDS Integers, Sequences, FiniteSets

OccAt(s, d, i) ==
    /\ i >= 1
    /\ i + Len(d) - 1 <= Len(s)
    /\ \A j \in 1..Len(d) : s[i + j - 1] = d[j]

IsDigit(c) == c >= 48 /\ c <= 57
IsWord(c)  == IsDigit(c) \/ (c >= 65 /\ c <= 90) \/ (c >= 97 /\ c <= 122) \/ c = 95
IsAny(c)   == c # 10
Cls(k, c)  == IF k = "d" THEN IsDigit(c) ELSE IF k = "w" THEN IsWord(c) ELSE IsAny(c)

RECURSIVE M(_, _, _, _)
M(p, i, s, j) ==
    IF i > Len(p) THEN (IF j = Len(s) + 1 THEN {<<>>} ELSE {})
    ELSE LET e == p[i]
             n == Len(s)
         IN CASE e.k = "lit" ->
                   IF OccAt(s, e.s, j) THEN M(p, i + 1, s, j + Len(e.s)) ELSE {}
              [] e.k \in {"d", "w", "any"} ->
                   LET lo == IF e.k = "any" THEN 0 ELSE 1
                       Ks == { k \in lo..(n - j + 1) : \A t \in j..(j + k - 1) : Cls(e.k, s[t]) }
                   IN UNION { { <<SubSeq(s, j, j + k - 1)>> \o r : r \in M(p, i + 1, s, j + k) } : k \in Ks }
              [] e.k = "alt" ->
                   UNION { IF OccAt(s, e.o[q], j)
                           THEN { <<e.o[q]>> \o r : r \in M(p, i + 1, s, j + Len(e.o[q])) }
                           ELSE {} : q \in DOMAIN e.o }
              [] e.k = "up" ->          \* [A-Z]+   (no group)
                   UNION { M(p, i + 1, s, j + k) : k \in { k \in 1..(n - j + 1) : \A t \in j..(j + k - 1) : s[t] >= 65 /\ s[t] <= 90 } }
              [] e.k = "olit" ->        \* an optional literal, e.g. T?   (no group)
                   M(p, i + 1, s, j) \cup (IF OccAt(s, e.s, j) THEN M(p, i + 1, s, j + Len(e.s)) ELSE {})
              [] e.k = "os" ->
                   M(p, i + 1, s, j) \cup (IF j <= n /\ s[j] = 47 THEN M(p, i + 1, s, j + 1) ELSE {})
              [] e.k = "rest" ->
                   LET Ks == {0} \cup { k \in 1..(n - j + 1) : s[j] = 47 /\ \A t \in j..(j + k - 1) : IsAny(s[t]) }
                   IN UNION { { <<SubSeq(s, j, j + k - 1)>> \o r : r \in M(p, i + 1, s, j + k) } : k \in Ks }

MatchSet(p, s) == M(p, 1, s, 1)
Matches(p, s)  == MatchSet(p, s) # {}
Ambiguous(p, s) == Cardinality(MatchSet(p, s)) > 1
Groups(p, s)   == CHOOSE g \in MatchSet(p, s) : TRUE     \* only used when Matches

\* a proper prefix of s is in the language but s is not: must NOT be routed
PrefixOnly(p, s) == ~Matches(p, s) /\ \E n \in 0..(Len(s) - 1) : Matches(p, SubSeq(s, 1, n))
\* some substring is in the language but s is not
SubstrOnly(p, s) == ~Matches(p, s) /\ \E a \in 1..(Len(s) + 1) : \E b \in (a - 1)..Len(s) : Matches(p, SubSeq(s, a, b))

\* method filter: [k |-> "none"] or [k |-> "set", s |-> {methods}] (exact, case-sensitive, whole string)
\*                [k |-> "re", alts |-> << pattern, ... >>]: the filter is the regular expression alt1|alt2|...;
\*                the request method must be in its language (WHOLE string, case-sensitive)
MethodOK(f, m) == \/ f.k = "none"
                  \/ (f.k = "set" /\ m \in f.s)
                  \/ (f.k = "re" /\ \E i \in 1..Len(f.alts) : Matches(f.alts[i], m))

\* selection of groups: index 0 = the whole string
Sel(s, g, sel) == [i \in 1..Len(sel) |-> IF sel[i] = 0 THEN s ELSE g[sel[i]]]

(***************************************************************************)
(* Dispatcher.  cfg = sequence of nodes (applications); node =             *)
(*   [parent, opts = << [t |-> "h", id, pat, meth, sel] |                  *)
(*                      [t |-> "m", child, pat, sel (one index)] >>, ...]  *)
(* Route: scan the options in registration order; the first whose method   *)
(* filter passes and whose pattern matches the whole string wins; a mount  *)
(* hands the selected group to the child and the answer is the child's     *)
(* (no fall-back to later options of the parent); nothing matches => 404.  *)
(***************************************************************************)
OptOK(o, meth, s) == (o.t = "m" \/ MethodOK(o.meth, meth)) /\ Matches(o.pat, s)

FirstOK(opts, meth, s) ==
    LET S == { i \in 1..Len(opts) : OptOK(opts[i], meth, s) }
    IN IF S = {} THEN 0 ELSE CHOOSE i \in S : \A j \in S : i <= j

NotFound == [hit |-> FALSE, app |-> 0, id |-> 0, args |-> <<>>]

RECURSIVE Route(_, _, _, _)
Route(cfg, node, meth, s) ==
    LET opts == cfg[node].opts
        i == FirstOK(opts, meth, s)
    IN IF i = 0 THEN NotFound
       ELSE LET o == opts[i]
                g == Groups(o.pat, s)
            IN IF o.t = "h" THEN [hit |-> TRUE, app |-> node, id |-> o.id, args |-> Sel(s, g, o.sel)]
               ELSE Route(cfg, o.child, meth, Sel(s, g, <<o.sel>>)[1])

\* the routing decision involves an ambiguous match somewhere: the spec is silent
RECURSIVE RouteAmbiguous(_, _, _, _)
RouteAmbiguous(cfg, node, meth, s) ==
    LET opts == cfg[node].opts
        i == FirstOK(opts, meth, s)
    IN IF i = 0 THEN FALSE
       ELSE \/ Ambiguous(opts[i].pat, s)
            \/ (opts[i].t = "m" /\ RouteAmbiguous(cfg, opts[i].child, meth, Sel(s, Groups(opts[i].pat, s), <<opts[i].sel>>)[1]))

(***************************************************************************)
(* URL mapper.  node.keys = << [key, ar, t] >> (t = template: sequence of  *)
(* [l |-> bytes] / [p |-> index]); node.mname / node.mt = name and         *)
(* template (one parameter) under which the node is mounted in its parent. *)
(* Key resolution ("/abs", "..", children) and URL composition follow the  *)
(* MAPPER hierarchy node.mparent (built by url_mapper::mount), which need   *)
(* not coincide with the dispatcher tree (node.parent / opts[i].child) nor  *)
(* with the application hierarchy built by add()/attach(); the top of the  *)
(* mapper hierarchy prepends its own root string node.mroot.               *)
(* A key is given as [abs, comps]: "/a/b/k", "../k", "./k", "k".           *)
(***************************************************************************)
\* template items: [l |-> bytes] literal, [p |-> n] positional parameter, [h |-> name] named helper value;
\* hv = << [n |-> name, v |-> bytes] >>, the first entry of a name wins (keyword parameters precede defaults)
HelperVal(hv, name) ==
    LET S == { i \in 1..Len(hv) : hv[i].n = name }
    IN IF S = {} THEN <<>> ELSE hv[CHOOSE i \in S : \A j \in S : i <= j].v

RECURSIVE FillH(_, _, _)
FillH(t, params, hv) ==
    IF t = <<>> THEN <<>>
    ELSE (IF "l" \in DOMAIN t[1] THEN t[1].l
          ELSE IF "p" \in DOMAIN t[1] THEN params[t[1].p]
          ELSE HelperVal(hv, t[1].h)) \o FillH(Tail(t), params, hv)
Fill(t, params) == FillH(t, params, <<>>)

ChildrenNamed(cfg, node, name) == { c \in 1..Len(cfg) : cfg[c].mparent = node /\ cfg[c].mname = name }
NoKey == [ok |-> FALSE, node |-> 0, key |-> ""]

RECURSIVE Walk(_, _, _, _)
Walk(cfg, node, comps, i) ==
    LET c == comps[i]
        ch == ChildrenNamed(cfg, node, c)
    IN IF i = Len(comps)
       THEN IF c = "." THEN [ok |-> TRUE, node |-> node, key |-> ""]
            ELSE IF c = ".." THEN (IF cfg[node].mparent = 0 THEN NoKey ELSE [ok |-> TRUE, node |-> cfg[node].mparent, key |-> ""])
            ELSE IF ch # {} THEN [ok |-> TRUE, node |-> CHOOSE x \in ch : TRUE, key |-> ""]
            ELSE [ok |-> TRUE, node |-> node, key |-> c]
       ELSE IF c = "." THEN Walk(cfg, node, comps, i + 1)
            ELSE IF c = ".." THEN (IF cfg[node].mparent = 0 THEN NoKey ELSE Walk(cfg, cfg[node].mparent, comps, i + 1))
            ELSE IF ch # {} THEN Walk(cfg, CHOOSE x \in ch : TRUE, comps, i + 1)
            ELSE NoKey

RECURSIVE RootOf(_, _)
RootOf(cfg, node) == IF cfg[node].mparent = 0 THEN node ELSE RootOf(cfg, cfg[node].mparent)      \* top of the MAPPER hierarchy

RECURSIVE Climb(_, _, _)
Climb(cfg, node, url) ==
    IF cfg[node].mparent = 0 THEN url
    ELSE Climb(cfg, cfg[node].mparent, Fill(cfg[node].mt, <<url>>))

NoUrl == [ok |-> FALSE, url |-> <<>>, node |-> 0, key |-> ""]

\* [ok, url (without the root prefix), node, key]
MapUrlH(cfg, app, abs, comps, params, hv) ==
    LET start == IF abs THEN RootOf(cfg, app) ELSE app
        w == IF comps = <<>> THEN [ok |-> TRUE, node |-> start, key |-> ""] ELSE Walk(cfg, start, comps, 1)
    IN IF ~w.ok THEN NoUrl
       ELSE LET ks == cfg[w.node].keys
                S == { i \in 1..Len(ks) : ks[i].key = w.key /\ ks[i].ar = Len(params) }
            IN IF S = {} THEN NoUrl
               ELSE [ok |-> TRUE, node |-> w.node, key |-> w.key,
                     url |-> Climb(cfg, w.node, FillH(ks[CHOOSE i \in S : TRUE].t, params, hv))]
MapUrl(cfg, app, abs, comps, params) == MapUrlH(cfg, app, abs, comps, params, <<>>)

(***************************************************************************)
(* Mount points of the applications pool: ordered list of                  *)
(*   [sel |-> "path" | "script", host, script, path (patterns or           *)
(*    [k |-> "nil"] = unconstrained), grp]                                 *)
(* The first mount point all of whose patterns match the ENTIRE host /     *)
(* script name / path info wins; the selected part's group grp (0 = all)   *)
(* is handed on.                                                           *)
(***************************************************************************)
Unset(x) == "nil" \in DOMAIN x
MpMatches(mp, h, s, p) ==
    /\ (Unset(mp.host) \/ Matches(mp.host.els, h))
    /\ (Unset(mp.script) \/ Matches(mp.script.els, s))
    /\ (Unset(mp.path) \/ Matches(mp.path.els, p))

MpSelected(mp, s, p) ==
    LET str == IF mp.sel = "path" THEN p ELSE s
        pat == IF mp.sel = "path" THEN mp.path ELSE mp.script
    IN IF Unset(pat) \/ mp.grp = 0 THEN str ELSE Groups(pat.els, str)[mp.grp]

FirstMp(mps, h, s, p) ==
    LET S == { i \in 1..Len(mps) : MpMatches(mps[i], h, s, p) }
    IN IF S = {} THEN 0 ELSE CHOOSE i \in S : \A j \in S : i <= j

(***************************************************************************)
(* The applications pool keeps TWO lists in registration order: mounts of  *)
(* application pools / factories (kind "pool": synchronous or asynchronous *)
(* flags alike) and "legacy" asynchronous applications mounted as objects  *)
(* (kind "legacy").  entries = << [id, kind, mp] >> in registration order; *)
(* gone = ids unmounted (pool) or destroyed (legacy; such stale entries are *)
(* purged on the fly and never change who wins).  The first matching mount *)
(* of the pool list wins; only if none matches, the first matching live    *)
(* legacy mount; the URL handed to main() is that mount's selected group.  *)
(***************************************************************************)
NoMount == [id |-> 0, url |-> <<>>]
PoolLookup(entries, gone, h, s, p) ==
    LET P == SelectSeq(entries, LAMBDA e : e.kind = "pool" /\ e.id \notin gone)
        G == SelectSeq(entries, LAMBDA e : e.kind = "legacy" /\ e.id \notin gone)
        ip == FirstMp([i \in 1..Len(P) |-> P[i].mp], h, s, p)
        ig == FirstMp([i \in 1..Len(G) |-> G[i].mp], h, s, p)
    IN IF ip # 0 THEN [id |-> P[ip].id, url |-> MpSelected(P[ip].mp, s, p)]
       ELSE IF ig # 0 THEN [id |-> G[ig].id, url |-> MpSelected(G[ig].mp, s, p)]
       ELSE NoMount
=============================================================================
