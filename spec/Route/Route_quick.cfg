SPECIFICATION Spec
CONSTANTS
  Quick = TRUE
  MaxSeg = 2
  MaxDepth = 2
  Mut = "none"
INVARIANTS FirstMatch NoPrefix MatcherAgrees MapThenRoute PoolWhole PoolFirst
