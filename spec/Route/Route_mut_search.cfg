SPECIFICATION Spec
CONSTANTS
  MaxSeg = 1
  MaxDepth = 2
  Mut = "search"
INVARIANTS FirstMatch NoPrefix MatcherAgrees MapThenRoute PoolWhole
