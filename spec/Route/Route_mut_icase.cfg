SPECIFICATION Spec
CONSTANTS
  MaxSeg = 1
  MaxDepth = 2
  Mut = "icase"
INVARIANTS FirstMatch NoPrefix MatcherAgrees MapThenRoute PoolWhole
