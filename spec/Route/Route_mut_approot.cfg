SPECIFICATION Spec
CONSTANTS
  Quick = TRUE
  MaxSeg = 1
  MaxDepth = 1
  Mut = "approot"
INVARIANTS FirstMatch NoPrefix MatcherAgrees MapThenRoute PoolWhole PoolFirst
