SPECIFICATION LawSpec
CONSTANTS
  PermSet <- AllPerms
  MaxBlocks = 3
INVARIANTS RoundTrip EncDecAreCbc WrongIv Chaining Determines
