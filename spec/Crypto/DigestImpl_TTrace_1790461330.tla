---- MODULE DigestImpl_TTrace_1790461330 ----
EXTENDS DigestImpl, Sequences, TLCExt, Toolbox, Naturals, TLC

_expression ==
    LET DigestImpl_TEExpression == INSTANCE DigestImpl_TEExpression
    IN DigestImpl_TEExpression!expression
----

_trace ==
    LET DigestImpl_TETrace == INSTANCE DigestImpl_TETrace
    IN DigestImpl_TETrace!trace
----

_inv ==
    ~(
        TLCGet("level") = Len(_TETrace)
        /\
        nmsg = (4)
        /\
        st = ([chain |-> <<>>, buf |-> <<>>, count |-> 0])
        /\
        dres = ([o |-> 1, op |-> "readout", out |-> <<<<-1, 0, -2, -10>>>>, msg |-> <<>>, a |-> "toy"])
        /\
        npos = (0)
        /\
        kind = ("block")
        /\
        objs = (<<[live |-> TRUE, pending |-> <<>>, a |-> "toy"]>>)
    )
----

_init ==
    /\ nmsg = _TETrace[1].nmsg
    /\ kind = _TETrace[1].kind
    /\ npos = _TETrace[1].npos
    /\ st = _TETrace[1].st
    /\ objs = _TETrace[1].objs
    /\ dres = _TETrace[1].dres
----

_next ==
    /\ \E i,j \in DOMAIN _TETrace:
        /\ \/ /\ j = i + 1
              /\ i = TLCGet("level")
        /\ nmsg  = _TETrace[i].nmsg
        /\ nmsg' = _TETrace[j].nmsg
        /\ kind  = _TETrace[i].kind
        /\ kind' = _TETrace[j].kind
        /\ npos  = _TETrace[i].npos
        /\ npos' = _TETrace[j].npos
        /\ st  = _TETrace[i].st
        /\ st' = _TETrace[j].st
        /\ objs  = _TETrace[i].objs
        /\ objs' = _TETrace[j].objs
        /\ dres  = _TETrace[i].dres
        /\ dres' = _TETrace[j].dres

\* Uncomment the ASSUME below to write the states of the error trace
\* to the given file in Json format. Note that you can pass any tuple
\* to `JsonSerialize`. For example, a sub-sequence of _TETrace.
    \* ASSUME
    \*     LET J == INSTANCE Json
    \*         IN J!JsonSerialize("DigestImpl_TTrace_1790461330.json", _TETrace)

=============================================================================

 Note that you can extract this module `DigestImpl_TEExpression`
  to a dedicated file to reuse `expression` (the module in the 
  dedicated `DigestImpl_TEExpression.tla` file takes precedence 
  over the module `DigestImpl_TEExpression` below).

---- MODULE DigestImpl_TEExpression ----
EXTENDS DigestImpl, Sequences, TLCExt, Toolbox, Naturals, TLC

expression == 
    [
        \* To hide variables of the `DigestImpl` spec from the error trace,
        \* remove the variables below.  The trace will be written in the order
        \* of the fields of this record.
        nmsg |-> nmsg
        ,kind |-> kind
        ,npos |-> npos
        ,st |-> st
        ,objs |-> objs
        ,dres |-> dres
        
        \* Put additional constant-, state-, and action-level expressions here:
        \* ,_stateNumber |-> _TEPosition
        \* ,_nmsgUnchanged |-> nmsg = nmsg'
        
        \* Format the `nmsg` variable as Json value.
        \* ,_nmsgJson |->
        \*     LET J == INSTANCE Json
        \*     IN J!ToJson(nmsg)
        
        \* Lastly, you may build expressions over arbitrary sets of states by
        \* leveraging the _TETrace operator.  For example, this is how to
        \* count the number of times a spec variable changed up to the current
        \* state in the trace.
        \* ,_nmsgModCount |->
        \*     LET F[s \in DOMAIN _TETrace] ==
        \*         IF s = 1 THEN 0
        \*         ELSE IF _TETrace[s].nmsg # _TETrace[s-1].nmsg
        \*             THEN 1 + F[s-1] ELSE F[s-1]
        \*     IN F[_TEPosition - 1]
    ]

=============================================================================



Parsing and semantic processing can take forever if the trace below is long.
 In this case, it is advised to uncomment the module below to deserialize the
 trace from a generated binary file.

\*
\*---- MODULE DigestImpl_TETrace ----
\*EXTENDS DigestImpl, IOUtils, TLC
\*
\*trace == IODeserialize("DigestImpl_TTrace_1790461330.bin", TRUE)
\*
\*=============================================================================
\*

---- MODULE DigestImpl_TETrace ----
EXTENDS DigestImpl, TLC

trace == 
    <<
    ([nmsg |-> 0,st |-> [chain |-> <<>>, buf |-> <<>>, count |-> 0],dres |-> [o |-> 0, op |-> "none", out |-> <<>>, msg |-> <<>>, a |-> ""],npos |-> 0,kind |-> "block",objs |-> <<[live |-> FALSE, pending |-> <<>>, a |-> ""]>>]),
    ([nmsg |-> 1,st |-> [chain |-> <<>>, buf |-> <<>>, count |-> 0],dres |-> [o |-> 1, op |-> "new", out |-> <<>>, msg |-> <<>>, a |-> "toy"],npos |-> 0,kind |-> "block",objs |-> <<[live |-> TRUE, pending |-> <<>>, a |-> "toy"]>>]),
    ([nmsg |-> 1,st |-> [chain |-> <<>>, buf |-> <<101>>, count |-> 1],dres |-> [o |-> 1, op |-> "append", out |-> <<>>, msg |-> <<>>, a |-> "toy"],npos |-> 1,kind |-> "block",objs |-> <<[live |-> TRUE, pending |-> <<101>>, a |-> "toy"]>>]),
    ([nmsg |-> 2,st |-> [chain |-> <<>>, buf |-> <<>>, count |-> 0],dres |-> [o |-> 1, op |-> "readout", out |-> <<<<101, -1, -2, -11>>>>, msg |-> <<101>>, a |-> "toy"],npos |-> 0,kind |-> "block",objs |-> <<[live |-> TRUE, pending |-> <<>>, a |-> "toy"]>>]),
    ([nmsg |-> 3,st |-> [chain |-> <<>>, buf |-> <<>>, count |-> 0],dres |-> [o |-> 1, op |-> "readout", out |-> <<<<-1, 0, -2, -10>>>>, msg |-> <<>>, a |-> "toy"],npos |-> 0,kind |-> "block",objs |-> <<[live |-> TRUE, pending |-> <<>>, a |-> "toy"]>>]),
    ([nmsg |-> 4,st |-> [chain |-> <<>>, buf |-> <<>>, count |-> 0],dres |-> [o |-> 1, op |-> "readout", out |-> <<<<-1, 0, -2, -10>>>>, msg |-> <<>>, a |-> "toy"],npos |-> 0,kind |-> "block",objs |-> <<[live |-> TRUE, pending |-> <<>>, a |-> "toy"]>>])
    >>
----


=============================================================================

---- CONFIG DigestImpl_TTrace_1790461330 ----
CONSTANTS
    Objs = { 1 }
    MaxLen = 12
    MaxMsgs = 3
    Kinds = { "block" , "byte" }

INVARIANT
    _inv

CHECK_DEADLOCK
    \* CHECK_DEADLOCK off because of PROPERTY or INVARIANT above.
    FALSE

INIT
    _init

NEXT
    _next

CONSTANT
    _TETrace <- _trace

ALIAS
    _expression
=============================================================================
\* Generated on Sat Sep 26 22:22:11 UTC 2026