SPECIFICATION Spec
CONSTANTS
  PermSet <- AllPerms
  MaxBlocks = 3
INVARIANTS EncIsCbc DecIsCbc RoundTripObj
