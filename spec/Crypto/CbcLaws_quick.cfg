SPECIFICATION LawSpec
CONSTANTS
  PermSet <- SomePerms
  MaxBlocks = 3
INVARIANTS RoundTrip EncDecAreCbc WrongIv Chaining Determines
