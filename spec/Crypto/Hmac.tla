-------------------------------- MODULE Hmac --------------------------------
(***************************************************************************)
(* HMAC, DEFINED per RFC 2104 over the uninterpreted digest function:      *)
(*                                                                         *)
(*   K'   = H(K) if |K| > B else K, padded with zero bytes to B            *)
(*   HMAC = H( (K' xor opad) ++ H( (K' xor ipad) ++ text ) )               *)
(*   ipad = 0x36 repeated, opad = 0x5C repeated, B = block size of H       *)
(*                                                                         *)
(* The definition takes H, the byte-xor and the zero byte as parameters so *)
(* that the same text is used                                              *)
(*  - in Leg D with the free H over typed cells (this module, HSpec): the  *)
(*    mechanism of cppcms::crypto::hmac - two digest objects, md_ primed   *)
(*    with K' xor ipad and md_opad_ primed with K' xor opad in init(),     *)
(*    readout = inner read-out appended to md_opad_, outer read-out,       *)
(*    init() again - is explored for all key-length classes, chunkings and *)
(*    object reuse, invariant  HmacIsRfc2104;                              *)
(*  - in Leg B (CryptoTrace.tla) with H = the table of digests observed    *)
(*    from the implementation's own digest objects and Bitwise xor.        *)
(***************************************************************************)
EXTENDS Digest, Bitwise

IPAD == 54      \* 0x36
OPAD == 92      \* 0x5C

XorAll(Xr(_, _), s, c) == [i \in 1..Len(s) |-> Xr(s[i], c)]
ZeroPad(s, n, zero)   == s \o [i \in 1..(n - Len(s)) |-> zero]

HmacKeyLong(a, key) == Len(key) > Blk(a)
HmacKey(Hf(_, _), zero, a, key) ==
    ZeroPad(IF HmacKeyLong(a, key) THEN Hf(a, key) ELSE key, Blk(a), zero)
HmacInnerMsg(Hf(_, _), Xr(_, _), zero, a, key, msg) ==
    XorAll(Xr, HmacKey(Hf, zero, a, key), IPAD) \o msg
HmacOuterMsg(Hf(_, _), Xr(_, _), zero, a, key, msg) ==
    XorAll(Xr, HmacKey(Hf, zero, a, key), OPAD) \o Hf(a, HmacInnerMsg(Hf, Xr, zero, a, key, msg))
HMAC(Hf(_, _), Xr(_, _), zero, a, key, msg) ==
    Hf(a, HmacOuterMsg(Hf, Xr, zero, a, key, msg))

\* bytes as integers (Leg B)
XorByte(x, c) == x ^^ c

----------------------------------------------------------------------------
(* Leg D: typed cells.  <<"b", n>> is the byte n, <<"h", a, m, i>> the i-th *)
(* byte of the free digest of m, <<"x", cell, c>> a digest byte xor-ed with *)
(* a constant.  (The three kinds are tuples of different length, so TLC     *)
(* never compares a byte value with a term.)                                *)
Cell(n)       == <<"b", n>>
HFree(a, m)   == [i \in 1..Dsz(a) |-> <<"h", a, m, i>>]
XorCell(x, c) == IF x[1] = "b" THEN <<"b", x[2] ^^ c>> ELSE <<"x", x, c>>
ZeroCell      == Cell(0)

CONSTANTS KeyLens,    \* key lengths explored (cells)
          MaxHLen,    \* longest message
          MaxHMsgs    \* messages through the same hmac object

VARIABLES hm,         \* [a, key, md, mdo]: the two running digests as pending messages
          hres, hn, hpos
hvars == <<dvars, hm, hres, hn, hpos>>

NoHRes == [op |-> "none", msg |-> <<>>, out |-> <<>>]
HKeyOf(n) == [i \in 1..n |-> Cell(200 + i)]

\* hmac::init(): md_ and md_opad_ are whatever they are at that moment (empty when the
\* digests re-initialise on read-out); a long key goes through md_ first
HInitOf(a, key, md, mdo) ==
    LET long == Len(key) > Blk(a)
        kp   == ZeroPad(IF long THEN HFree(a, md \o key) ELSE key, Blk(a), ZeroCell)
        md1  == IF long THEN <<>> ELSE md
    IN [a |-> a, key |-> key, md |-> md1 \o XorAll(XorCell, kp, IPAD), mdo |-> mdo \o XorAll(XorCell, kp, OPAD)]

HInit ==
    /\ DInit /\ hres = NoHRes /\ hn = 0 /\ hpos = 0
    /\ hm = [a |-> "toy", key |-> <<>>, md |-> <<>>, mdo |-> <<>>]

HCreate ==
    /\ hn = 0
    /\ \E k \in KeyLens : hm' = HInitOf("toy", HKeyOf(k), <<>>, <<>>)
    /\ hn' = 1 /\ hpos' = 0 /\ hres' = [NoHRes EXCEPT !.op = "new"] /\ UNCHANGED dvars

HFeed(n) ==
    /\ hn \in 1..MaxHMsgs /\ hpos + n <= MaxHLen
    /\ LET data == [i \in 1..n |-> Cell(hn * 16 + hpos + i)]
       IN /\ hm' = [hm EXCEPT !.md = @ \o data]
          /\ hres' = [op |-> "append", msg |-> IF hres.op = "append" THEN hres.msg \o data ELSE data, out |-> <<>>]
    /\ hpos' = hpos + n /\ UNCHANGED <<dvars, hn>>

HRead ==
    /\ hn \in 1..MaxHMsgs
    /\ LET inner == HFree(hm.a, hm.md)                  \* md_->readout: md_ is reset
           out   == HFree(hm.a, hm.mdo \o inner)        \* md_opad_->append(inner); readout: reset
       IN /\ hres' = [op |-> "readout", msg |-> IF hres.op = "append" THEN hres.msg ELSE <<>>, out |-> out]
          /\ hm' = HInitOf(hm.a, hm.key, <<>>, <<>>)    \* init()
    /\ hn' = hn + 1 /\ hpos' = 0 /\ UNCHANGED dvars

HNext == HCreate \/ (\E n \in 0..MaxHLen : HFeed(n)) \/ HRead
HSpec == HInit /\ [][HNext]_hvars

HmacIsRfc2104 ==
    hres.op = "readout" => hres.out = HMAC(HFree, XorCell, ZeroCell, hm.a, hm.key, hres.msg)
\* the object is primed for the next message after construction and after every read-out
HmacReady ==
    hres.op \in {"new", "readout"} =>
        /\ hm.md  = XorAll(XorCell, HmacKey(HFree, ZeroCell, hm.a, hm.key), IPAD)
        /\ hm.mdo = XorAll(XorCell, HmacKey(HFree, ZeroCell, hm.a, hm.key), OPAD)
=============================================================================
