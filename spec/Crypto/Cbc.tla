--------------------------------- MODULE Cbc ---------------------------------
(***************************************************************************)
(* cppcms::crypto::cbc (C16): cipher-block chaining over an UNINTERPRETED  *)
(* block permutation E_k.                                                  *)
(*                                                                         *)
(*   c_1 = E(p_1 xor iv),  c_i = E(p_i xor c_(i-1))                        *)
(*                                                                         *)
(* IsCbc(Ek, Xb, iv, p, c) is that relation, with Ek(x, y) meaning         *)
(* "y = E(x)".  Because E is injective the SAME relation characterises     *)
(* decryption: p is the decryption of c under iv iff IsCbc(.., iv, p, c).  *)
(*                                                                         *)
(* Leg D (this module): blocks are 2-bit values, E ranges over the         *)
(* permutations in PermSet (all 24 in the thorough configuration).         *)
(*  LawSpec  - the algebra, for every E, iv, iv2 and all p of <= 3 blocks: *)
(*             Dec(iv, Enc(iv, p)) = p;  Enc/Dec satisfy IsCbc;  a wrong   *)
(*             IV damages exactly the first block (p_1 xor iv xor iv2) -   *)
(*             the fact session cookies rely on: the first block is a      *)
(*             throw-away and the IV is never transmitted;  encrypting in  *)
(*             two calls = encrypting the concatenation.                   *)
(*  Spec     - the object: set_iv sets both chains, set_nonce_iv makes     *)
(*             them arbitrary and independent, encrypt / decrypt advance   *)
(*             their own chain; invariants EncIsCbc / DecIsCbc relate all  *)
(*             data since the last set_iv to the relation above.           *)
(* Leg B (CryptoTrace.tla) uses IsCbc with 16-byte blocks and Ek = the     *)
(* table of single-block encryptions observed from the code and libcrypto. *)
(***************************************************************************)
EXTENDS Integers, Sequences, FiniteSets, TLC, Bitwise

IsCbcFrom(Ek(_, _), Xb(_, _), iv, p, c, from) ==
    /\ Len(c) = Len(p)
    /\ \A i \in from..Len(p) : Ek(Xb(p[i], IF i = 1 THEN iv ELSE c[i - 1]), c[i])
IsCbc(Ek(_, _), Xb(_, _), iv, p, c) == IsCbcFrom(Ek, Xb, iv, p, c, 1)

\* functional forms (E, D as operators)
CbcEnc(E(_), Xb(_, _), iv, p) ==
    LET c[i \in 0..Len(p)] == IF i = 0 THEN iv ELSE E(Xb(p[i], c[i - 1]))
    IN [i \in 1..Len(p) |-> c[i]]
CbcDec(D(_), Xb(_, _), iv, c) ==
    [i \in 1..Len(c) |-> Xb(D(c[i]), IF i = 1 THEN iv ELSE c[i - 1])]

LastOr(s, dflt) == IF Len(s) = 0 THEN dflt ELSE s[Len(s)]

----------------------------------------------------------------------------
CONSTANTS PermSet,     \* the block permutations explored
          MaxBlocks    \* blocks per direction between two set_iv

BlkVals == 0..3
\* a permutation is the tuple <<E(0), E(1), E(2), E(3)>>
AllPerms == { f \in [1..4 -> BlkVals] : \A x, y \in 1..4 : f[x] = f[y] => x = y }
SomePerms == { <<1, 2, 3, 0>>, <<0, 1, 2, 3>>, <<2, 0, 3, 1>>, <<1, 0, 2, 3>>, <<3, 2, 1, 0>>, <<0, 3, 1, 2>> }

SeqsUpTo(n) == UNION { [1..k -> BlkVals] : k \in 0..n }

VARIABLES perm,     \* E
          cb,       \* [ivE, ivD]: the two running chain values
          hE, hD    \* history since the last set_iv: [iv, p, c]
cvars == <<perm, cb, hE, hD>>

E(x)  == perm[x + 1]
D(y)  == (CHOOSE x \in BlkVals : perm[x + 1] = y)
Ek(x, y) == E(x) = y
Xb(x, y) == x ^^ y

CInit ==
    /\ perm \in PermSet
    /\ \E iv \in BlkVals : cb = [ivE |-> iv, ivD |-> iv] /\ hE = [iv |-> iv, p |-> <<>>, c |-> <<>>] /\ hD = [iv |-> iv, p |-> <<>>, c |-> <<>>]

SetIv(iv) ==
    /\ cb' = [ivE |-> iv, ivD |-> iv]
    /\ hE' = [iv |-> iv, p |-> <<>>, c |-> <<>>] /\ hD' = [iv |-> iv, p |-> <<>>, c |-> <<>>]
    /\ UNCHANGED perm
Nonce(iv1, iv2) ==
    /\ cb' = [ivE |-> iv1, ivD |-> iv2]
    /\ hE' = [iv |-> iv1, p |-> <<>>, c |-> <<>>] /\ hD' = [iv |-> iv2, p |-> <<>>, c |-> <<>>]
    /\ UNCHANGED perm
Encrypt(p) ==
    /\ Len(hE.p) + Len(p) <= MaxBlocks
    /\ LET c == CbcEnc(E, Xb, cb.ivE, p)
       IN /\ cb' = [cb EXCEPT !.ivE = LastOr(c, @)]
          /\ hE' = [hE EXCEPT !.p = @ \o p, !.c = @ \o c]
    /\ UNCHANGED <<perm, hD>>
Decrypt(c) ==
    /\ Len(hD.c) + Len(c) <= MaxBlocks
    /\ LET p == CbcDec(D, Xb, cb.ivD, c)
       IN /\ cb' = [cb EXCEPT !.ivD = LastOr(c, @)]
          /\ hD' = [hD EXCEPT !.p = @ \o p, !.c = @ \o c]
    /\ UNCHANGED <<perm, hE>>

CNext == \/ \E iv \in BlkVals : SetIv(iv)
         \/ \E iv1, iv2 \in BlkVals : Nonce(iv1, iv2)
         \/ \E p \in SeqsUpTo(2) : Encrypt(p)
         \/ \E c \in SeqsUpTo(2) : Decrypt(c)
Spec == CInit /\ [][CNext]_cvars

EncIsCbc == IsCbc(Ek, Xb, hE.iv, hE.p, hE.c)
DecIsCbc == IsCbc(Ek, Xb, hD.iv, hD.p, hD.c)
\* whatever went through encrypt since set_iv decrypts back when fed to decrypt from the same iv
RoundTripObj == (hE.iv = hD.iv /\ Len(hD.c) <= Len(hE.c) /\ hD.c = SubSeq(hE.c, 1, Len(hD.c)))
                    => hD.p = SubSeq(hE.p, 1, Len(hD.c))

\* ---- the algebra, per permutation -------------------------------------------
LawSpec == CInit /\ [][UNCHANGED cvars]_cvars
RoundTrip ==
    \A iv \in BlkVals : \A p \in SeqsUpTo(3) : CbcDec(D, Xb, iv, CbcEnc(E, Xb, iv, p)) = p
EncDecAreCbc ==
    \A iv \in BlkVals : \A p \in SeqsUpTo(3) :
        /\ IsCbc(Ek, Xb, iv, p, CbcEnc(E, Xb, iv, p))
        /\ IsCbc(Ek, Xb, iv, CbcDec(D, Xb, iv, p), p)
WrongIv ==
    \A iv, iv2 \in BlkVals : \A p \in SeqsUpTo(3) \ {<<>>} :
        CbcDec(D, Xb, iv2, CbcEnc(E, Xb, iv, p)) = <<(p[1] ^^ iv) ^^ iv2>> \o Tail(p)
Chaining ==
    \A iv \in BlkVals : \A p \in SeqsUpTo(3) : \A k \in 0..Len(p) :
        LET c1 == CbcEnc(E, Xb, iv, SubSeq(p, 1, k))
        IN CbcEnc(E, Xb, iv, p) = c1 \o CbcEnc(E, Xb, LastOr(c1, iv), SubSeq(p, k + 1, Len(p)))
\* IsCbc determines c from p and p from c (E is a permutation)
Determines ==
    \A iv \in BlkVals : \A p, c \in SeqsUpTo(2) :
        IsCbc(Ek, Xb, iv, p, c) <=> (Len(p) = Len(c) /\ c = CbcEnc(E, Xb, iv, p))
=============================================================================
