SPECIFICATION Spec
CONSTANTS
  PermSet <- SomePerms
  MaxBlocks = 2
INVARIANTS EncIsCbc DecIsCbc RoundTripObj
