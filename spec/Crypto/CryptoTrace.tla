----------------------------- MODULE CryptoTrace -----------------------------
(***************************************************************************)
(* Leg B of C16: a trace recorded from the real cppcms::crypto objects     *)
(* (harness/crypto/crypto_drv.cpp) is accepted iff it is a behaviour of    *)
(* Digest.tla / Hmac.tla / Cbc.tla with                                    *)
(*                                                                         *)
(*   H  = tab : the table of digests observed in this execution.  It is    *)
(*        seeded by libcrypto / libgcrypt on given bytes (Ref) and every   *)
(*        read-out of a cppcms digest object (New / Append / Readout) must *)
(*        hit it: the pending message is concatenated HERE, by             *)
(*        Digest!DAppend, from the bytes of that object's append calls,    *)
(*        and H[algorithm][pending] must be in the table and equal the     *)
(*        value read out.  An event that would make the table two-valued,  *)
(*        or contradicts a known answer of CryptoKat, is refused (HAgrees).*)
(*   E_k = etab : single-block encryptions (Blk), same discipline.         *)
(*                                                                         *)
(*   HReadout / HRef are accepted iff out = HMAC(tab-lookup, xor, ...) as  *)
(*   DEFINED in Hmac.tla.  The inner and outer messages are computed here  *)
(*   from the key and text bytes of the hmac object itself; the two (or    *)
(*   three) H values they need must already be in the table, i.e. must     *)
(*   have been produced by a digest object fed exactly those bytes.        *)
(*   CEnc / CDec are accepted iff the data satisfies Cbc!IsCbc w.r.t. etab *)
(*   and the chain value of that object (unknown after set_nonce_iv: the   *)
(*   first block is then unconstrained).                                   *)
(*                                                                         *)
(* Long messages (no bytes in the trace) are identified by a descriptor    *)
(* string; for them only single-valuedness across the three                *)
(* implementations + described known answers are decided (dtab).           *)
(***************************************************************************)
EXTENDS Hmac, Cbc, TraceBase

VARIABLES l,        \* cursor
          tab,      \* H on byte strings
          dtab,     \* H on described messages
          etab,     \* E: <<cipher, key, block>> -> block
          hobj,     \* hmac objects  [live, a, key, msg]
          cobj,     \* cbc objects   [live, a, key, eK, ivE, dK, ivD]
          katD, katR, katH   \* known answers exercised so far (survive Reset)

tvars == <<dvars, hm, hres, hn, hpos, perm, cb, hE, hD, l, tab, dtab, etab, hobj, cobj, katD, katR, katH>>
Unused == UNCHANGED <<hm, hres, hn, hpos, perm, cb, hE, hD>>

Ev == TraceLog[l]
Is(name) == l <= NLines /\ Ev.e = name /\ l' = l + 1

NoH == [live |-> FALSE, a |-> "", key |-> <<>>, msg |-> <<>>]
NoC == [live |-> FALSE, a |-> "", key |-> <<>>, eK |-> FALSE, ivE |-> <<>>, dK |-> FALSE, ivD |-> <<>>]

Sum(s) == LET f[i \in 0..Len(s)] == IF i = 0 THEN 0 ELSE f[i - 1] + s[i] IN f[Len(s)]

\* ---------------------------------------------------------------- digests
KeepD  == UNCHANGED <<objs, dres>>
KeepH  == UNCHANGED hobj
KeepC  == UNCHANGED <<cobj, etab>>
KeepK  == UNCHANGED <<katD, katR, katH>>

HitD(a, m) == { k \in DigestKAT : k.a = a /\ Len(k.m) = Len(m) /\ k.m = m }
HitR(a, d) == { k \in DescKAT : k.a = a /\ k.d = d }
HitH(a, key, m) == { k \in HmacKAT : k.a = a /\ Len(k.key) = Len(key) /\ Len(k.m) = Len(m) /\ k.key = key /\ k.m = m }

TReset ==
    /\ Is("Reset")
    /\ objs' = [o \in Objs |-> NoObj] /\ dres' = NoDRes
    /\ tab' = EmptyTab /\ dtab' = EmptyTab /\ etab' = EmptyTab
    /\ hobj' = [o \in Objs |-> NoH] /\ cobj' = [o \in Objs |-> NoC]
    /\ KeepK /\ Unused

\* what the object says about itself
TAlgo ==
    /\ Is("Algo")
    /\ Ev.a \in RealAlgs
    /\ (Ev.avail => (Ev.bs = Blk(Ev.a) /\ Ev.ds = Dsz(Ev.a)))     \* the sizes HMAC relies on
    /\ UNCHANGED <<tab, dtab>> /\ KeepD /\ KeepH /\ KeepC /\ KeepK /\ Unused

TNew ==
    /\ Is("New") /\ Ev.o \in Objs
    /\ DNew(Ev.o, Ev.a)
    /\ UNCHANGED <<tab, dtab>> /\ KeepH /\ KeepC /\ KeepK /\ Unused

TAppend ==
    /\ Is("Append") /\ Ev.o \in Objs /\ IsBytes(Ev.b)
    /\ DAppend(Ev.o, Ev.b)
    /\ UNCHANGED <<tab, dtab>> /\ KeepH /\ KeepC /\ KeepK /\ Unused

TReadout ==
    /\ Is("Readout") /\ Ev.o \in Objs /\ objs[Ev.o].live
    /\ LET a == objs[Ev.o].a
           m == objs[Ev.o].pending
       IN /\ HKnown(tab, a, m)                 \* the reference value for these very bytes is in the table
          /\ HAgrees(tab, a, m, Ev.out)
          /\ tab' = tab
          /\ katD' = katD \cup HitD(a, m)
    /\ DReadoutAs(Ev.o, Ev.out)
    /\ UNCHANGED <<dtab, katR, katH>> /\ KeepH /\ KeepC /\ Unused

\* libcrypto on the same bytes: "the standard"
TRef ==
    /\ Is("Ref") /\ IsBytes(Ev.m)
    /\ HAgrees(tab, Ev.a, Ev.m, Ev.out)
    /\ tab' = HLearn(tab, Ev.a, Ev.m, Ev.out)
    /\ UNCHANGED dtab /\ KeepD /\ KeepH /\ KeepC /\ KeepK /\ Unused

\* a described (long) message: impl in {"chunked", "fresh", "ref"}
TDigest ==
    /\ Is("Digest")
    /\ Ev.len >= 0 /\ Sum(Ev.chunks) = Ev.len
    /\ (Ev.impl \in {"ref", "gcry"} \/ <<Ev.a, Ev.d>> \in DOMAIN dtab)    \* the code is always compared with a reference
    /\ DAgrees(dtab, Ev.a, Ev.d, Ev.out)
    /\ dtab' = DLearn(dtab, Ev.a, Ev.d, Ev.out)
    /\ katR' = katR \cup HitR(Ev.a, Ev.d)
    /\ UNCHANGED <<tab, katD, katH>> /\ KeepD /\ KeepH /\ KeepC /\ Unused

\* ---------------------------------------------------------------- hmac
Hf(a, m) == tab[<<a, m>>]

\* out is HMAC(key, msg) per RFC 2104, every H value taken from tab
Rfc2104(a, key, msg, out) ==
    /\ a \in RealAlgs /\ IsBytes(key) /\ IsBytes(msg)
    /\ (HmacKeyLong(a, key) => HKnown(tab, a, key))
    /\ LET inner == HmacInnerMsg(Hf, XorByte, 0, a, key, msg)
       IN /\ HKnown(tab, a, inner)
          /\ LET outer == HmacOuterMsg(Hf, XorByte, 0, a, key, msg)
             IN /\ HKnown(tab, a, outer)
                /\ out = HMAC(Hf, XorByte, 0, a, key, msg)
    /\ \A k \in HitH(a, key, msg) : k.out = out

THNew ==
    /\ Is("HNew") /\ Ev.o \in Objs /\ Ev.a \in RealAlgs /\ IsBytes(Ev.key) /\ Ev.ds = Dsz(Ev.a)
    /\ hobj' = [hobj EXCEPT ![Ev.o] = [live |-> TRUE, a |-> Ev.a, key |-> Ev.key, msg |-> <<>>]]
    /\ UNCHANGED <<tab, dtab>> /\ KeepD /\ KeepC /\ KeepK /\ Unused

THAppend ==
    /\ Is("HAppend") /\ Ev.o \in Objs /\ hobj[Ev.o].live /\ IsBytes(Ev.b)
    /\ hobj' = [hobj EXCEPT ![Ev.o].msg = @ \o Ev.b]
    /\ UNCHANGED <<tab, dtab>> /\ KeepD /\ KeepC /\ KeepK /\ Unused

THReadout ==
    /\ Is("HReadout") /\ Ev.o \in Objs /\ hobj[Ev.o].live
    /\ Rfc2104(hobj[Ev.o].a, hobj[Ev.o].key, hobj[Ev.o].msg, Ev.out)
    /\ hobj' = [hobj EXCEPT ![Ev.o].msg = <<>>]          \* ready for the next message
    /\ katH' = katH \cup HitH(hobj[Ev.o].a, hobj[Ev.o].key, hobj[Ev.o].msg)
    /\ UNCHANGED <<tab, dtab, katD, katR>> /\ KeepD /\ KeepC /\ Unused

\* libcrypto's HMAC must satisfy the same definition (validates the definition itself)
THRef ==
    /\ Is("HRef")
    /\ Rfc2104(Ev.a, Ev.key, Ev.msg, Ev.out)
    /\ UNCHANGED <<tab, dtab>> /\ KeepD /\ KeepH /\ KeepC /\ KeepK /\ Unused

\* long text / key: only agreement with libcrypto is decided
THSum ==
    /\ Is("HSum") /\ Ev.a \in RealAlgs
    /\ Sum(Ev.chunks) = Ev.len
    /\ Len(Ev.out) = Dsz(Ev.a) /\ Ev.out = Ev.ref
    /\ UNCHANGED <<tab, dtab>> /\ KeepD /\ KeepH /\ KeepC /\ KeepK /\ Unused

\* ---------------------------------------------------------------- cbc
Ciphers == {"aes128", "aes192", "aes256"}
KeySize(c) == CASE c = "aes128" -> 16 [] c = "aes192" -> 24 [] c = "aes256" -> 32
IsBlock(x) == Len(x) = 16 /\ IsBytes(x)
Blocks16(s) == [i \in 1..(Len(s) \div 16) |-> SubSeq(s, (i - 1) * 16 + 1, i * 16)]
XorBlk(x, y) == [i \in 1..16 |-> x[i] ^^ y[i]]

TBlk ==
    /\ Is("Blk") /\ Ev.a \in Ciphers /\ Len(Ev.key) = KeySize(Ev.a) /\ IsBlock(Ev.x) /\ IsBlock(Ev.y)
    /\ LET k == <<Ev.a, Ev.key, Ev.x>>
       IN /\ (Ev.impl \in {"evp", "gcry"} \/ k \in DOMAIN etab)
          /\ (k \in DOMAIN etab => etab[k] = Ev.y)
          /\ etab' = IF k \in DOMAIN etab THEN etab ELSE (k :> Ev.y) @@ etab
    /\ UNCHANGED <<tab, dtab, cobj>> /\ KeepD /\ KeepH /\ KeepK /\ Unused

TCNew ==
    /\ Is("CNew") /\ Ev.o \in Objs /\ Ev.a \in Ciphers
    /\ Ev.ks = KeySize(Ev.a) /\ Ev.bs = 16
    /\ cobj' = [cobj EXCEPT ![Ev.o] = [NoC EXCEPT !.live = TRUE, !.a = Ev.a]]
    /\ UNCHANGED <<tab, dtab, etab>> /\ KeepD /\ KeepH /\ KeepK /\ Unused
TCKey ==
    /\ Is("CKey") /\ Ev.o \in Objs /\ cobj[Ev.o].live /\ Len(Ev.key) = KeySize(cobj[Ev.o].a)
    /\ cobj' = [cobj EXCEPT ![Ev.o].key = Ev.key]
    /\ UNCHANGED <<tab, dtab, etab>> /\ KeepD /\ KeepH /\ KeepK /\ Unused
TCIv ==
    /\ Is("CIv") /\ Ev.o \in Objs /\ cobj[Ev.o].live /\ IsBlock(Ev.iv)
    /\ cobj' = [cobj EXCEPT ![Ev.o].eK = TRUE, ![Ev.o].dK = TRUE, ![Ev.o].ivE = Ev.iv, ![Ev.o].ivD = Ev.iv]
    /\ UNCHANGED <<tab, dtab, etab>> /\ KeepD /\ KeepH /\ KeepK /\ Unused
TCNonce ==
    /\ Is("CNonce") /\ Ev.o \in Objs /\ cobj[Ev.o].live
    /\ cobj' = [cobj EXCEPT ![Ev.o].eK = FALSE, ![Ev.o].dK = FALSE]
    /\ UNCHANGED <<tab, dtab, etab>> /\ KeepD /\ KeepH /\ KeepK /\ Unused

EkOf(o, x, y) == LET k == <<cobj[o].a, cobj[o].key, x>> IN k \in DOMAIN etab /\ etab[k] = y

TCEnc ==
    /\ Is("CEnc") /\ Ev.o \in Objs /\ cobj[Ev.o].live /\ Len(cobj[Ev.o].key) > 0
    /\ IsBytes(Ev.in) /\ IsBytes(Ev.out) /\ Len(Ev.in) % 16 = 0 /\ Len(Ev.out) = Len(Ev.in)
    /\ LET o == Ev.o
           P == Blocks16(Ev.in)
           C == Blocks16(Ev.out)
           Eo(x, y) == EkOf(o, x, y)
       IN /\ IsCbcFrom(Eo, XorBlk, cobj[o].ivE, P, C, IF cobj[o].eK THEN 1 ELSE 2)
          /\ cobj' = IF Len(C) = 0 THEN cobj ELSE [cobj EXCEPT ![o].eK = TRUE, ![o].ivE = C[Len(C)]]
    /\ UNCHANGED <<tab, dtab, etab>> /\ KeepD /\ KeepH /\ KeepK /\ Unused

TCDec ==
    /\ Is("CDec") /\ Ev.o \in Objs /\ cobj[Ev.o].live /\ Len(cobj[Ev.o].key) > 0
    /\ IsBytes(Ev.in) /\ IsBytes(Ev.out) /\ Len(Ev.in) % 16 = 0 /\ Len(Ev.out) = Len(Ev.in)
    /\ LET o == Ev.o
           C == Blocks16(Ev.in)
           P == Blocks16(Ev.out)
           Eo(x, y) == EkOf(o, x, y)
       IN /\ IsCbcFrom(Eo, XorBlk, cobj[o].ivD, P, C, IF cobj[o].dK THEN 1 ELSE 2)
          /\ cobj' = IF Len(C) = 0 THEN cobj ELSE [cobj EXCEPT ![o].dK = TRUE, ![o].ivD = C[Len(C)]]
    /\ UNCHANGED <<tab, dtab, etab>> /\ KeepD /\ KeepH /\ KeepK /\ Unused

\* one-shot round trip on (possibly long) data: same object re-armed with the iv (back), a second
\* object (back2), libcrypto's EVP cipher on the same input (ref)
TCbc ==
    /\ Is("Cbc") /\ Ev.a \in Ciphers
    /\ Len(Ev.key) = KeySize(Ev.a) /\ IsBlock(Ev.iv)
    /\ Len(Ev.plain) % 16 = 0 /\ Len(Ev.cipher) = Len(Ev.plain)
    /\ Ev.back = Ev.plain /\ Ev.back2 = Ev.plain
    /\ Ev.cipher = Ev.ref
    /\ UNCHANGED <<tab, dtab, etab, cobj>> /\ KeepD /\ KeepH /\ KeepK /\ Unused

\* ---------------------------------------------------------------- keys
HexVal(c) == IF c \in 48..57 THEN c - 48 ELSE IF c \in 97..102 THEN c - 87 ELSE IF c \in 65..70 THEN c - 55 ELSE -1
IsHex(t) == Len(t) % 2 = 0 /\ \A i \in 1..Len(t) : HexVal(t[i]) >= 0
HexDec(t) == [i \in 1..(Len(t) \div 2) |-> HexVal(t[2 * i - 1]) * 16 + HexVal(t[2 * i])]
IsWs(c) == c \in {32, 10, 13, 9}
TrimLen(t) == LET S == { i \in 1..Len(t) : ~IsWs(t[i]) } IN IF S = {} THEN 0 ELSE CHOOSE i \in S : \A j \in S : j <= i
UntilNul(t) == LET S == { i \in 1..Len(t) : t[i] = 0 } IN IF S = {} THEN t ELSE SubSeq(t, 1, (CHOOSE i \in S : \A j \in S : i <= j) - 1)
KeyText(how, t) == CASE how = "file" -> SubSeq(t, 1, TrimLen(t))
                     [] how = "cstr" -> UntilNul(t)
                     [] OTHER -> t

\* a hexadecimal key either parses exactly or is refused
TKey ==
    /\ Is("Key")
    /\ LET t == KeyText(Ev.how, Ev.text)
       IN Ev.ok => (IsHex(t) /\ Ev.bytes = HexDec(t))
    /\ UNCHANGED <<tab, dtab>> /\ KeepD /\ KeepH /\ KeepC /\ KeepK /\ Unused

\* end of the known-answer file: every embedded vector must have been exercised
TEnd ==
    /\ Is("End")
    /\ (Ev.kat => (katD = DigestKAT /\ katH = HmacKAT /\ (Ev.rep => katR = DescKAT)))
    /\ UNCHANGED <<tab, dtab>> /\ KeepD /\ KeepH /\ KeepC /\ KeepK /\ Unused

TraceInit ==
    /\ DInit /\ l = 1
    /\ hm = [a |-> "toy", key |-> <<>>, md |-> <<>>, mdo |-> <<>>] /\ hres = NoHRes /\ hn = 0 /\ hpos = 0
    /\ perm = <<0, 1, 2, 3>> /\ cb = [ivE |-> 0, ivD |-> 0]
    /\ hE = [iv |-> 0, p |-> <<>>, c |-> <<>>] /\ hD = [iv |-> 0, p |-> <<>>, c |-> <<>>]
    /\ tab = EmptyTab /\ dtab = EmptyTab /\ etab = EmptyTab
    /\ hobj = [o \in Objs |-> NoH] /\ cobj = [o \in Objs |-> NoC]
    /\ katD = {} /\ katR = {} /\ katH = {}

TraceNext ==
    \/ TReset \/ TAlgo \/ TNew \/ TAppend \/ TReadout \/ TRef \/ TDigest
    \/ THNew \/ THAppend \/ THReadout \/ THRef \/ THSum
    \/ TBlk \/ TCNew \/ TCKey \/ TCIv \/ TCNonce \/ TCEnc \/ TCDec \/ TCbc
    \/ TKey \/ TEnd
TraceSpec == TraceInit /\ [][TraceNext]_tvars
=============================================================================
