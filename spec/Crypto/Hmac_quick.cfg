SPECIFICATION HSpec
CONSTANTS
  Objs = {1}
  KeyLens = {0, 3, 4, 5, 9}
  MaxHLen = 9
  MaxHMsgs = 3
INVARIANTS HmacIsRfc2104 HmacReady
