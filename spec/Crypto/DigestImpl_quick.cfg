SPECIFICATION Spec
CONSTANTS
  Objs = {1}
  MaxLen = 9
  MaxMsgs = 3
  Kinds = {"block", "byte"}
INVARIANTS ReadoutIsH Abstraction FreshAfterReadout PaddingCompletes
