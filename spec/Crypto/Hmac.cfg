SPECIFICATION HSpec
CONSTANTS
  Objs = {1}
  KeyLens = {0, 1, 3, 4, 5, 8, 9, 13}
  MaxHLen = 12
  MaxHMsgs = 3
INVARIANTS HmacIsRfc2104 HmacReady
