----------------------------- MODULE DigestImpl -----------------------------
(***************************************************************************)
(* Leg D for the digest object: the mechanism of the two bundled digests   *)
(* (block-wise buffering of src/md5.cpp, byte-wise buffering of            *)
(* private/sha1.h; a running chain value, a partial block, a byte count,   *)
(* padding + length field at read-out, re-initialisation) against the      *)
(* property layer Digest.tla.                                              *)
(*                                                                         *)
(* The compression function is a FREE symbol: the chain value is the list  *)
(* of blocks absorbed so far, so the digest *is* the padded message cut in *)
(* blocks.  TLC explores every way of appending a message of up to MaxLen  *)
(* cells in pieces (including empty pieces), a read-out at every point,    *)
(* and MaxMsgs messages through the same object, for the toy algorithm     *)
(* (block = 4 cells, length field = 2 cells: the padding fits into the     *)
(* current block iff length mod 4 < 2, the analogue of 55/56 mod 64).      *)
(*                                                                         *)
(*  ReadoutIsH  every read-out equals H(all cells appended since the       *)
(*              previous read-out) - independent of chunking and history   *)
(*  Abstraction chain ++ buffer is always the pending message of Digest    *)
(***************************************************************************)
EXTENDS Digest

CONSTANTS MaxLen,    \* longest message (cells)
          MaxMsgs,   \* messages fed through the same object
          Kinds      \* subset of {"block", "byte"}: which buffering code shape

VARIABLES st,        \* mechanism state [chain, buf, count]
          kind, nmsg, npos
ivars == <<dvars, st, kind, nmsg, npos>>

B    == Blk("toy")
LenF == 2
PadMark == -1
LenCells(n) == <<-2, -(10 + n)>>
Zeros(n) == [i \in 1..n |-> 0]

\* ---- the free Merkle-Damgard function --------------------------------------
PadOf(n) == <<PadMark>> \o Zeros((B - ((n + 1 + LenF) % B)) % B) \o LenCells(n)
Blocks(s) == [i \in 1..(Len(s) \div B) |-> SubSeq(s, (i - 1) * B + 1, i * B)]
HFreeMD(m) == Blocks(m \o PadOf(Len(m)))

\* ---- mechanism ---------------------------------------------------------------
S0 == [chain |-> <<>>, buf |-> <<>>, count |-> 0]

RECURSIVE FullBlocks(_, _, _)
FullBlocks(chain, data, n) ==      \* absorb n whole blocks from the front of data
    IF n = 0 THEN chain
    ELSE FullBlocks(Append(chain, SubSeq(data, 1, B)), SubSeq(data, B + 1, Len(data)), n - 1)

\* md5_append: top up a partial block, then whole blocks straight from the input, keep the tail
BlockWise(s, data) ==
    LET n    == Len(data)
        off  == Len(s.buf)
        copy == IF off = 0 THEN 0 ELSE IF off + n > B THEN B - off ELSE n
        buf1 == s.buf \o SubSeq(data, 1, copy)
    IN  IF n = 0 THEN s
        ELSE IF off > 0 /\ Len(buf1) < B THEN [s EXCEPT !.buf = buf1, !.count = @ + n]
        ELSE LET chain1 == IF off > 0 THEN Append(s.chain, buf1) ELSE s.chain
                 rest   == SubSeq(data, copy + 1, n)
                 k      == Len(rest) \div B
             IN [chain |-> FullBlocks(chain1, rest, k),
                 buf   |-> SubSeq(rest, k * B + 1, Len(rest)),
                 count |-> s.count + n]

\* sha1::process_byte
RECURSIVE ByteWise(_, _)
ByteWise(s, data) ==
    IF data = <<>> THEN s
    ELSE LET b1 == Append(s.buf, Head(data))
             s1 == IF Len(b1) = B
                   THEN [chain |-> Append(s.chain, b1), buf |-> <<>>, count |-> s.count + 1]
                   ELSE [s EXCEPT !.buf = b1, !.count = @ + 1]
         IN ByteWise(s1, Tail(data))

Absorb(s, data) == IF kind = "block" THEN BlockWise(s, data) ELSE ByteWise(s, data)

\* md5_finish: pad to B-LenF mod B with one append, then the saved length
FinishBlock(s) ==
    LET padlen == ((B - LenF - 1 - s.count) % B) + 1
        s1 == BlockWise(s, <<PadMark>> \o Zeros(padlen - 1))
    IN BlockWise(s1, LenCells(s.count))

\* sha1::get_digest: mark, then either fill this block and start another one, or fill to B-LenF
RECURSIVE ZeroUntil(_, _)
ZeroUntil(s, idx) == IF Len(s.buf) = idx THEN s ELSE ZeroUntil(ByteWise(s, <<0>>), idx)
FinishByte(s) ==
    LET n  == s.count
        s1 == ByteWise(s, <<PadMark>>)
        s2 == IF Len(s1.buf) > B - LenF THEN ZeroUntil(ZeroUntil(s1, 0), B - LenF) ELSE ZeroUntil(s1, B - LenF)
    IN ByteWise(s2, LenCells(n))

Finish(s) == IF kind = "block" THEN FinishBlock(s) ELSE FinishByte(s)

\* ---- behaviours --------------------------------------------------------------
O == CHOOSE o \in Objs : TRUE
Cells(k, from, n) == [i \in 1..n |-> k * 100 + from + i]

Init ==
    /\ DInit /\ st = S0 /\ kind \in Kinds /\ nmsg = 0 /\ npos = 0

Create ==
    /\ nmsg = 0
    /\ DNew(O, "toy") /\ st' = S0 /\ nmsg' = 1 /\ npos' = 0 /\ UNCHANGED kind

Feed(n) ==
    /\ nmsg \in 1..MaxMsgs /\ npos + n <= MaxLen
    /\ LET data == Cells(nmsg, npos, n)
       IN /\ DAppend(O, data)
          /\ st' = Absorb(st, data)
    /\ npos' = npos + n /\ UNCHANGED <<kind, nmsg>>

Read ==
    /\ nmsg \in 1..MaxMsgs
    /\ LET f == Finish(st)
       IN /\ f.buf = <<>>                      \* the padding always completes a block
          /\ DReadoutAs(O, f.chain)
    /\ st' = S0                                \* md5_init / sha1::reset after read-out
    /\ nmsg' = nmsg + 1 /\ npos' = 0 /\ UNCHANGED kind

Next == Create \/ (\E n \in 0..MaxLen : Feed(n)) \/ Read
Spec == Init /\ [][Next]_ivars

\* ---- properties --------------------------------------------------------------
RECURSIVE Flat(_)
Flat(ch) == IF ch = <<>> THEN <<>> ELSE Head(ch) \o Flat(Tail(ch))

ReadoutIsH  == dres.op = "readout" => dres.out = HFreeMD(dres.msg)
Abstraction == objs[O].live => (/\ Flat(st.chain) \o st.buf = objs[O].pending
                                /\ st.count = Len(objs[O].pending)
                                /\ Len(st.buf) < B)
FreshAfterReadout == dres.op = "readout" => (objs[O].pending = <<>> /\ st = S0)
PaddingCompletes == objs[O].live => Finish(st).buf = <<>>
=============================================================================
