SPECIFICATION TraceSpec
CONSTANTS
  Objs = {0,1,2,3,4,5,6,7,8,9,10,11,12,13,14,15}
  KeyLens = {0}
  MaxHLen = 0
  MaxHMsgs = 0
  PermSet = {}
  MaxBlocks = 0
POSTCONDITION TraceDone
CHECK_DEADLOCK FALSE
