------------------------------- MODULE Digest -------------------------------
(***************************************************************************)
(* Property layer of cppcms::crypto::message_digest (C16).                 *)
(*                                                                         *)
(* A digest object is (algorithm, pending message).  append(bytes)         *)
(* concatenates; readout returns H[algorithm][pending] and leaves the      *)
(* object ready for the next message (pending = <<>>).                     *)
(*                                                                         *)
(* H itself is UNINTERPRETED.  What the specification knows about it:      *)
(*  (i)  it is a function: the same (algorithm, message) has the same      *)
(*       digest whatever the chunking of the appends, the history of the   *)
(*       object, or the implementation that computed it;                   *)
(*  (ii) the known-answer constants of the standards (module CryptoKat:    *)
(*       RFC 1321, FIPS 180-4, RFC 2202 / 4231).                           *)
(* Leg D (DigestImpl.tla, Hmac.tla) instantiates H with a FREE symbol (a   *)
(* digest is the term that names its argument, so two digests are equal    *)
(* only if the messages are - the most discriminating interpretation; what *)
(* holds under it holds for every H).  Leg B (CryptoTrace.tla) builds H as *)
(* a table from the logged Digest events of the real code and of libcrypto *)
(* (HAgrees / HLearn below) and refuses any event that would make the      *)
(* table two-valued or contradict a known answer.                          *)
(***************************************************************************)
EXTENDS Integers, Sequences, FiniteSets, TLC, CryptoKat

CONSTANT Objs                 \* object identities (a finite set of integers)

Algs == {"md5", "sha1", "sha224", "sha256", "sha384", "sha512", "toy"}
RealAlgs == Algs \ {"toy"}
\* processing block size and digest size in bytes ("toy" is the Leg-D algorithm)
Blk(a) == CASE a \in {"sha384", "sha512"} -> 128
            [] a = "toy" -> 4
            [] OTHER -> 64
Dsz(a) == CASE a = "md5" -> 16 [] a = "sha1" -> 20 [] a = "sha224" -> 28 [] a = "sha256" -> 32
            [] a = "sha384" -> 48 [] a = "sha512" -> 64 [] a = "toy" -> 2

VARIABLES objs,   \* objs[o] = [live, a, pending]
          dres    \* the last operation and what it returned
dvars == <<objs, dres>>

NoObj  == [live |-> FALSE, a |-> "", pending |-> <<>>]
NoDRes == [op |-> "none", o |-> 0, a |-> "", msg |-> <<>>, out |-> <<>>]

DInit == objs = [o \in Objs |-> NoObj] /\ dres = NoDRes

\* create_by_name / md5() / sha1() / clone(): a new object has nothing pending
DNew(o, a) ==
    /\ a \in Algs
    /\ objs' = [objs EXCEPT ![o] = [live |-> TRUE, a |-> a, pending |-> <<>>]]
    /\ dres' = [NoDRes EXCEPT !.op = "new", !.o = o, !.a = a]

DAppend(o, bytes) ==
    /\ objs[o].live
    /\ objs' = [objs EXCEPT ![o].pending = @ \o bytes]
    /\ dres' = [NoDRes EXCEPT !.op = "append", !.o = o, !.a = objs[o].a]

\* readout returning `out': the caller of this action says what H is
\* (the free symbol in Leg D, the logged value - checked against the table - in Leg B)
DReadoutAs(o, out) ==
    /\ objs[o].live
    /\ objs' = [objs EXCEPT ![o].pending = <<>>]
    /\ dres' = [op |-> "readout", o |-> o, a |-> objs[o].a, msg |-> objs[o].pending, out |-> out]

----------------------------------------------------------------------------
(* H as a table learned from observations (Leg B).  tab is a function whose *)
(* domain is a set of pairs <<algorithm, message>> (message = tuple of      *)
(* bytes); dtab the same for messages that are only described ("rep:97:1000000"). *)
IsBytes(s) == \A i \in 1..Len(s) : s[i] \in 0..255

KatAgrees(a, m, out) ==
    \A k \in DigestKAT : (k.a = a /\ Len(k.m) = Len(m) /\ k.m = m) => k.out = out
DescKatAgrees(a, d, out) ==
    \A k \in DescKAT : (k.a = a /\ k.d = d) => k.out = out

HKnown(tab, a, m) == <<a, m>> \in DOMAIN tab
HAgrees(tab, a, m, out) ==
    /\ a \in RealAlgs
    /\ Len(out) = Dsz(a) /\ IsBytes(out)
    /\ (HKnown(tab, a, m) => tab[<<a, m>>] = out)      \* (i)  single-valued
    /\ KatAgrees(a, m, out)                            \* (ii) known answers
HLearn(tab, a, m, out) == IF HKnown(tab, a, m) THEN tab ELSE (<<a, m>> :> out) @@ tab

DAgrees(dtab, a, d, out) ==
    /\ a \in RealAlgs
    /\ Len(out) = Dsz(a) /\ IsBytes(out)
    /\ (<<a, d>> \in DOMAIN dtab => dtab[<<a, d>>] = out)
    /\ DescKatAgrees(a, d, out)
DLearn(dtab, a, d, out) == IF <<a, d>> \in DOMAIN dtab THEN dtab ELSE (<<a, d>> :> out) @@ dtab

EmptyTab == [x \in {} |-> <<>>]
=============================================================================
