#!/usr/bin/env python3
"""Generates CryptoKat.tla: the known-answer constants embedded in the C16 specification.

The hexadecimal values below are transcribed from the standards:
  RFC 1321 A.5 (MD5 test suite), FIPS 180-4 / NIST CSRC example values (SHA-1, SHA-224/256/384/512:
  "", "abc", the 448-bit (56 byte) and 896-bit (112 byte) messages, one million 'a'),
  RFC 2202 (HMAC-MD5, HMAC-SHA-1, cases 1-7), RFC 4231 (HMAC-SHA-224/256/384/512, cases 1-4, 6, 7).
TLA+ has no hex literals, hence the generator; run it after editing:  python3 gen_kat.py
hashlib is used ONLY as a typo guard for the transcription (the script refuses to write when a value
disagrees); the values are not derived from it.
"""
import hashlib, hmac, os, sys

M56 = b"abcdbcdecdefdefgefghfghighijhijkijkljklmklmnlmnomnopnopq"
M112 = (b"abcdefghbcdefghicdefghijdefghijkefghijklfghijklmghijklmn"
        b"hijklmnoijklmnopjklmnopqklmnopqrlmnopqrsmnopqrstnopqrstu")
AZ = b"abcdefghijklmnopqrstuvwxyz"
ALNUM = b"ABCDEFGHIJKLMNOPQRSTUVWXYZabcdefghijklmnopqrstuvwxyz0123456789"
DIG80 = b"1234567890" * 8

DIGEST = [
    # RFC 1321 A.5
    ("md5", b"", "d41d8cd98f00b204e9800998ecf8427e"),
    ("md5", b"a", "0cc175b9c0f1b6a831c399e269772661"),
    ("md5", b"abc", "900150983cd24fb0d6963f7d28e17f72"),
    ("md5", b"message digest", "f96b697d7cb7938d525a2f31aaf161d0"),
    ("md5", AZ, "c3fcd3d76192e4007dfb496cca67e13b"),
    ("md5", ALNUM, "d174ab98d277d9f5a5611c2c9f419d9f"),
    ("md5", DIG80, "57edf4a22be3c955ac49da2e2107b67a"),
    # FIPS 180-4 examples
    ("sha1", b"", "da39a3ee5e6b4b0d3255bfef95601890afd80709"),
    ("sha1", b"abc", "a9993e364706816aba3e25717850c26c9cd0d89d"),
    ("sha1", M56, "84983e441c3bd26ebaae4aa1f95129e5e54670f1"),
    ("sha1", M112, "a49b2446a02c645bf419f995b67091253a04a259"),
    ("sha224", b"", "d14a028c2a3a2bc9476102bb288234c415a2b01f828ea62ac5b3e42f"),
    ("sha224", b"abc", "23097d223405d8228642a477bda255b32aadbce4bda0b3f7e36c9da7"),
    ("sha224", M56, "75388b16512776cc5dba5da1fd890150b0c6455cb4f58b1952522525"),
    ("sha224", M112, "c97ca9a559850ce97a04a96def6d99a9e0e0e2ab14e6b8df265fc0b3"),
    ("sha256", b"", "e3b0c44298fc1c149afbf4c8996fb92427ae41e4649b934ca495991b7852b855"),
    ("sha256", b"abc", "ba7816bf8f01cfea414140de5dae2223b00361a396177a9cb410ff61f20015ad"),
    ("sha256", M56, "248d6a61d20638b8e5c026930c3e6039a33ce45964ff2167f6ecedd419db06c1"),
    ("sha256", M112, "cf5b16a778af8380036ce59e7b0492370b249b11e8f07a51afac45037afee9d1"),
    ("sha384", b"", "38b060a751ac96384cd9327eb1b1e36a21fdb71114be07434c0cc7bf63f6e1da274edebfe76f65fbd51ad2f14898b95b"),
    ("sha384", b"abc", "cb00753f45a35e8bb5a03d699ac65007272c32ab0eded1631a8b605a43ff5bed8086072ba1e7cc2358baeca134c825a7"),
    ("sha384", M56, "3391fdddfc8dc7393707a65b1b4709397cf8b1d162af05abfe8f450de5f36bc6b0455a8520bc4e6f5fe95b1fe3c8452b"),
    ("sha384", M112, "09330c33f71147e83d192fc782cd1b4753111b173b3b05d22fa08086e3b0f712fcc7c71a557e2db966c3e9fa91746039"),
    ("sha512", b"", "cf83e1357eefb8bdf1542850d66d8007d620e4050b5715dc83f4a921d36ce9ce47d0d13c5d85f2b0ff8318d2877eec2f63b931bd47417a81a538327af927da3e"),
    ("sha512", b"abc", "ddaf35a193617abacc417349ae20413112e6fa4e89a97ea20a9eeee64b55d39a2192992a274fc1a836ba3c23a3feebbd454d4423643ce80e2a9ac94fa54ca49f"),
    ("sha512", M56, "204a8fc6dda82f0a0ced7beb8e08a41657c16ef468b228a8279be331a703c33596fd15c13b1b07f9aa1d3bea57789ca031ad85c7a71dd70354ec631238ca3445"),
    ("sha512", M112, "8e959b75dae313da8cf4f72814fc143f8f7779c6eb9f7fa17299aeadb6889018501d289e4900f7e4331b99dec4b5433ac7d329eeb6dd26545e96e55b874be909"),
]

# messages described, not spelled out: "rep:<byte>:<count>"
DESC = [
    ("sha1", "rep:97:1000000", "34aa973cd4c4daa4f61eeb2bdbad27316534016f"),
    ("sha224", "rep:97:1000000", "20794655980c91d8bbb4c1ea97618a4bf03f42581948b2ee4ee7ad67"),
    ("sha256", "rep:97:1000000", "cdc76e5c9914fb9281a1c7e284d73e67f1809a48a497200e046d39ccc7112cd0"),
    ("sha384", "rep:97:1000000", "9d0e1809716474cb086e834e310a4a1ced149e9c00f248527972cec5704c2a5b07b8b3dc38ecc4ebae97ddd87f3d8985"),
    ("sha512", "rep:97:1000000", "e718483d0ce769644e2e42c7bc15b4638e1f98b13b2044285632a803afa973ebde0ff244877ea60a4cb0432ce577c31beb009c5c2c49aa2e4eadb217ad8cc09b"),
]

T6 = b"Test Using Larger Than Block-Size Key - Hash Key First"
T7 = b"Test Using Larger Than Block-Size Key and Larger Than One Block-Size Data"
T7b = (b"This is a test using a larger than block-size key and a larger than block-size data. "
       b"The key needs to be hashed before being used by the HMAC algorithm.")
JEFE = b"what do ya want for nothing?"
K25 = bytes(range(1, 26))

HMAC = [
    # RFC 2202 section 2 (HMAC-MD5)
    ("md5", b"\x0b" * 16, b"Hi There", "9294727a3638bb1c13f48ef8158bfc9d"),
    ("md5", b"Jefe", JEFE, "750c783e6ab0b503eaa86e310a5db738"),
    ("md5", b"\xaa" * 16, b"\xdd" * 50, "56be34521d144c88dbb8c733f0e8b3f6"),
    ("md5", K25, b"\xcd" * 50, "697eaf0aca3a3aea3a75164746ffaa79"),
    ("md5", b"\x0c" * 16, b"Test With Truncation", "56461ef2342edc00f9bab995690efd4c"),
    ("md5", b"\xaa" * 80, T6, "6b1ab7fe4bd7bf8f0b62e6ce61b9d0cd"),
    ("md5", b"\xaa" * 80, T7, "6f630fad67cda0ee1fb1f562db3aa53e"),
    # RFC 2202 section 3 (HMAC-SHA-1)
    ("sha1", b"\x0b" * 20, b"Hi There", "b617318655057264e28bc0b6fb378c8ef146be00"),
    ("sha1", b"Jefe", JEFE, "effcdf6ae5eb2fa2d27416d5f184df9c259a7c79"),
    ("sha1", b"\xaa" * 20, b"\xdd" * 50, "125d7342b9ac11cd91a39af48aa17b4f63f175d3"),
    ("sha1", K25, b"\xcd" * 50, "4c9007f4026250c6bc8414f9bf50c86c2d7235da"),
    ("sha1", b"\x0c" * 20, b"Test With Truncation", "4c1a03424b55e07fe7f27be1d58bb9324a9a5a04"),
    ("sha1", b"\xaa" * 80, T6, "aa4ae5e15272d00e95705637ce8a3b55ed402112"),
    ("sha1", b"\xaa" * 80, T7, "e8e99d0f45237d786d6bbaa7965c7808bbff1a91"),
]
RFC4231 = [
    (b"\x0b" * 20, b"Hi There", {
        "sha224": "896fb1128abbdf196832107cd49df33f47b4b1169912ba4f53684b22",
        "sha256": "b0344c61d8db38535ca8afceaf0bf12b881dc200c9833da726e9376c2e32cff7",
        "sha384": "afd03944d84895626b0825f4ab46907f15f9dadbe4101ec682aa034c7cebc59cfaea9ea9076ede7f4af152e8b2fa9cb6",
        "sha512": "87aa7cdea5ef619d4ff0b4241a1d6cb02379f4e2ce4ec2787ad0b30545e17cdedaa833b7d6b8a702038b274eaea3f4e4be9d914eeb61f1702e696c203a126854"}),
    (b"Jefe", JEFE, {
        "sha224": "a30e01098bc6dbbf45690f3a7e9e6d0f8bbea2a39e6148008fd05e44",
        "sha256": "5bdcc146bf60754e6a042426089575c75a003f089d2739839dec58b964ec3843",
        "sha384": "af45d2e376484031617f78d2b58a6b1b9c7ef464f5a01b47e42ec3736322445e8e2240ca5e69e2c78b3239ecfab21649",
        "sha512": "164b7a7bfcf819e2e395fbe73b56e0a387bd64222e831fd610270cd7ea2505549758bf75c05a994a6d034f65f8f0e6fdcaeab1a34d4a6b4b636e070a38bce737"}),
    (b"\xaa" * 20, b"\xdd" * 50, {
        "sha224": "7fb3cb3588c6c1f6ffa9694d7d6ad2649365b0c1f65d69d1ec8333ea",
        "sha256": "773ea91e36800e46854db8ebd09181a72959098b3ef8c122d9635514ced565fe",
        "sha384": "88062608d3e6ad8a0aa2ace014c8a86f0aa635d947ac9febe83ef4e55966144b2a5ab39dc13814b94e3ab6e101a34f27",
        "sha512": "fa73b0089d56a284efb0f0756c890be9b1b5dbdd8ee81a3655f83e33b2279d39bf3e848279a722c806b485a47e67c807b946a337bee8942674278859e13292fb"}),
    (K25, b"\xcd" * 50, {
        "sha224": "6c11506874013cac6a2abc1bb382627cec6a90d86efc012de7afec5a",
        "sha256": "82558a389a443c0ea4cc819899f2083a85f0faa3e578f8077a2e3ff46729665b",
        "sha384": "3e8a69b7783c25851933ab6290af6ca77a9981480850009cc5577c6e1f573b4e6801dd23c4a7d679ccf8a386c674cffb",
        "sha512": "b0ba465637458c6990e5a8c5f61d4af7e576d97ff94b872de76f8050361ee3dba91ca5c11aa25eb4d679275cc5788063a5f19741120c4f2de2adebeb10a298dd"}),
    (b"\xaa" * 131, T6, {
        "sha224": "95e9a0db962095adaebe9b2d6f0dbce2d499f112f2d2b7273fa6870e",
        "sha256": "60e431591ee0b67f0d8a26aacbf5b77f8e0bc6213728c5140546040f0ee37f54",
        "sha384": "4ece084485813e9088d2c63a041bc5b44f9ef1012a2b588f3cd11f05033ac4c60c2ef6ab4030fe8296248df163f44952",
        "sha512": "80b24263c7c1a3ebb71493c1dd7be8b49b46d1f41b4aeec1121b013783f8f3526b56d037e05f2598bd0fd2215d6a1e5295e64f73f63f0aec8b915a985d786598"}),
    (b"\xaa" * 131, T7b, {
        "sha224": "3a854166ac5d9f023f54d517d0b39dbd946770db9c2b95c9f6f565d1",
        "sha256": "9b09ffa71b942fcb27635fbcd5b0e944bfdc63644f0713938a7f51535c3a35e2",
        "sha384": "6617178e941f020d351e2f254e8fd32c602420feb0b8fb9adccebb82461e99c5a678cc31e799176d3860e6110c46523e",
        "sha512": "e37b6a775dc87dbaa4dfa9f96e5e3ffddebd71f8867289865df5a32d20cdc944b6022cac3c4982b10d5eeb55c3e4de15134676fb6de0446065c97440fa8c6a58"}),
]
for k, m, d in RFC4231:
    for a in ("sha224", "sha256", "sha384", "sha512"):
        HMAC.append((a, k, m, d[a]))


def seq(b):
    return "<<" + ",".join(str(x) for x in b) + ">>"


def main():
    bad = 0
    for a, m, h in DIGEST:
        if hashlib.new(a, m).hexdigest() != h:
            print("TYPO? digest", a, m[:20], h); bad += 1
    for a, d, h in DESC:
        _, byte, n = d.split(":")
        if hashlib.new(a, bytes([int(byte)]) * int(n)).hexdigest() != h:
            print("TYPO? desc", a, d); bad += 1
    for a, k, m, h in HMAC:
        if hmac.new(k, m, a).hexdigest() != h:
            print("TYPO? hmac", a, k[:8], m[:20]); bad += 1
    if bad:
        sys.exit(1)
    o = []
    o.append("------------------------------ MODULE CryptoKat ------------------------------")
    o.append("(* GENERATED by gen_kat.py - do not edit.  Known-answer constants of the standards: *)")
    o.append("(* RFC 1321 A.5, FIPS 180-4 examples, RFC 2202, RFC 4231 (byte strings as tuples).  *)")
    o.append("DigestKAT == {")
    o.append(",\n".join('  [a |-> "%s", m |-> %s,\n   out |-> %s]' % (a, seq(m), seq(bytes.fromhex(h))) for a, m, h in DIGEST))
    o.append("}")
    o.append("DescKAT == {")
    o.append(",\n".join('  [a |-> "%s", d |-> "%s",\n   out |-> %s]' % (a, d, seq(bytes.fromhex(h))) for a, d, h in DESC))
    o.append("}")
    o.append("HmacKAT == {")
    o.append(",\n".join('  [a |-> "%s", key |-> %s,\n   m |-> %s,\n   out |-> %s]' % (a, seq(k), seq(m), seq(bytes.fromhex(h))) for a, k, m, h in HMAC))
    o.append("}")
    o.append("==============================================================================")
    p = os.path.join(os.path.dirname(os.path.abspath(__file__)), "CryptoKat.tla")
    open(p, "w").write("\n".join(o) + "\n")
    # machine-readable copy for the harness (so that it drives exactly these inputs)
    with open(os.path.join(os.path.dirname(p), "kat_inputs.txt"), "w") as f:
        for a, m, h in DIGEST:
            f.write("D %s %s\n" % (a, m.hex() or "-"))
        for a, d, h in DESC:
            f.write("R %s %s\n" % (a, d))
        for a, k, m, h in HMAC:
            f.write("H %s %s %s\n" % (a, k.hex() or "-", m.hex() or "-"))
    print("wrote", p, len(DIGEST), len(DESC), len(HMAC))


if __name__ == "__main__":
    main()
