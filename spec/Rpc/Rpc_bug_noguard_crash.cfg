SPECIFICATION Spec
CONSTANTS
  BugNoGuard = TRUE
  BugNotifWrite = FALSE
  BugArity = FALSE
  BugIdLost = FALSE
  BugRole = FALSE
  Family = "script"
  MaxPar = 2
  Rich = FALSE
INVARIANTS NoCrash
CHECK_DEADLOCK FALSE
