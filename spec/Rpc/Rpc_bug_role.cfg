SPECIFICATION Spec
CONSTANTS
  BugNoGuard = FALSE
  BugNotifWrite = FALSE
  BugArity = FALSE
  BugIdLost = FALSE
  BugRole = TRUE
  Family = "shape"
  MaxPar = 2
  Rich = FALSE
INVARIANTS DispatchIff
CHECK_DEADLOCK FALSE
