SPECIFICATION Spec
CONSTANTS
  BugNoGuard = FALSE
  BugNotifWrite = TRUE
  BugArity = FALSE
  BugIdLost = FALSE
  BugRole = FALSE
  Family = "script"
  MaxPar = 2
  Rich = FALSE
INVARIANTS NotifSilent
CHECK_DEADLOCK FALSE
