SPECIFICATION Spec
CONSTANTS
  BugNoGuard = FALSE
  BugNotifWrite = FALSE
  BugArity = TRUE
  BugIdLost = FALSE
  BugRole = FALSE
  Family = "shape"
  MaxPar = 2
  Rich = FALSE
INVARIANTS DispatchIff
CHECK_DEADLOCK FALSE
