------------------------------ MODULE RpcTrace ------------------------------
(***************************************************************************)
(* Leg B of G05: every request recorded by harness/rpc/rpc_drv.cpp against *)
(* the real json_rpc_server (one "Call" event: the request, the registered *)
(* method, the handler program; the observed invocations, answer           *)
(* operations and the response) is judged against the run of the design    *)
(* (Rpc!RunF) for the same input.  Function style: an event that breaks a  *)
(* clause is FLAGged <<"FLAG", class, detail, line>> and validation goes   *)
(* on with the next event.                                                 *)
(*                                                                         *)
(*  died / hang          the process died (or never finished) in the call  *)
(*                       detail = mount-who-pattern (see Pattern)          *)
(*  spurious-dispatch    (c) a function ran although the request must not  *)
(*                       be dispatched            detail = why not         *)
(*  not-dispatched       (c) dispatchable request, function not invoked    *)
(*  multi-dispatch, wrong-function, wrong-args   (d)                       *)
(*  garbage              (a) bytes that are no complete JSON document      *)
(*  multi-answer         (a) more than one response document               *)
(*  notif-answered       (a) a notification (or undispatched notification) *)
(*                       got a body                                        *)
(*  bad-doc / id-mismatch / not-one-of   (b)                               *)
(*  missing-answer / wrong-answer / unexpected-answer   (a)(c) the document*)
(*                       is not the one the first effective answer gives   *)
(*  no-throw             (e) an answer on an answered / released /         *)
(*                       notification call did not throw                   *)
(*  spurious-throw       an answer that must succeed threw                 *)
(*  unreported           (c) a rejected request got no error indication    *)
(*  completion           response completed although the call was          *)
(*                       abandoned, not completed although answered, or    *)
(*                       completed twice                                   *)
(* Classes "drift-*" (exact error texts, status, content type of the       *)
(* rejections) are informational: stricter than the property.              *)
(***************************************************************************)
EXTENDS Rpc, TraceBase

CONSTANT Strict      \* TRUE: a flagged event is not accepted at all (used by the binding self-test), FALSE: flag and continue

VARIABLE l
tvars == <<c, l>>

Ev == TraceLog[l]
Is(name) == l <= NLines /\ Ev.e = name /\ l' = l + 1
Flag(class, detail) == PrintT(<<"FLAG", class, detail, l>>)
Judge(v) == LET r == v IN IF r[1] = "ok" THEN TRUE ELSE IF Strict THEN FALSE ELSE Flag(r[1], r[2])
OKV == <<"ok", "">>

SmdText == "{\"smd\":1}"

InOf(ev) == [app |-> ev.app, smd |-> ev.smd, http |-> ev.http, ct |-> ev.ct, bk |-> ev.bk, method |-> ev.method, params |-> ev.params,
             id |-> ev.id, mname |-> ev.mname, reg |-> ev.reg, script |-> ev.script]

Who(in) == IF Notif(in) THEN "notification" ELSE "call"

(* The failing input class of a flagged handler program: the operations the design executes, one letter each           *)
(*   a answer inside the handler   t throw   l release_call   b answer on the released call   d destruction   n no-op  *)
(* cut behind the first operation at which the design demands the guard: an answer that must throw, or a throw behind  *)
(* an answer (main must not add an error).  "!" = the design sees nothing special in the program.                      *)
Letter(o, in) == CASE o.op \in {"R", "Ro", "Rs", "E", "Eo"} -> "a"
                   [] o.op = "A" -> (IF Notif(in) THEN "n" ELSE "a")
                   [] o.op \in {"Tc", "Tb", "Ts"} -> "t"
                   [] o.op = "rel" -> "l"
                   [] o.op \in {"r", "ro", "e", "eo"} -> "b"
                   [] o.op = "drop" -> "d"
                   [] OTHER -> "x"
AnsweredBefore(ops, j, in) == \E i \in 1..(j - 1) : Letter(ops[i], in) \in {"a", "b"} /\ ~ops[i].threw
ReleasedBefore(ops, j) == \E i \in 1..(j - 1) : ops[i].op = "rel" /\ ~ops[i].threw
Offence(ops, j, in) == \/ (ops[j].threw /\ Letter(ops[j], in) \in {"a", "b"})
                       \/ (Letter(ops[j], in) = "t" /\ AnsweredBefore(ops, j, in) /\ ~ReleasedBefore(ops, j))
RECURSIVE Letters(_, _, _, _)
Letters(ops, j, k, in) == IF j > k THEN "" ELSE Letter(ops[j], in) \o Letters(ops, j + 1, k, in)
Pattern(in, m) ==
    LET off == {j \in 1..Len(m.ops) : Offence(m.ops, j, in)}
    IN in.app \o "-" \o Who(in) \o "-" \o
       (IF off = {} THEN Letters(m.ops, 1, Len(m.ops), in) \o "!"
        ELSE Letters(m.ops, 1, CHOOSE j \in off : \A i \in off : j <= i, in))

\* why the design does not dispatch
WhyNot(in) ==
    LET f == Front(in)
    IN IF f # "call" THEN f
       ELSE IF ~in.reg.has THEN "unregistered"
       ELSE IF ~RoleOK(in) THEN "role"
       ELSE IF ~ArityOK(in) THEN "arity"
       ELSE "conversion"

Threw(o) == o.threw # "none"
\* observed answer operations, without those the driver could not apply at all
ObsOps(ev) == SelectSeq(ev.ops, LAMBDA o : o.threw # "nocall" /\ o.threw # "skipped")

DocOK(d, x) ==          \* observed document d against the expected x
    IF ~d.ok \/ d.nk # 3 THEN <<"bad-doc", "shape">>
    ELSE IF d.id # x.id THEN <<"id-mismatch", IF x.fw THEN "framework-error" ELSE "handler-answer">>
    ELSE IF (d.error = Null) = (d.result = Null) THEN <<"not-one-of", IF x.fw THEN "framework-error" ELSE "handler-answer">>
    ELSE IF x.fw THEN (IF d.result # Null THEN <<"wrong-answer", "result-instead-of-error">>
                       ELSE IF d.error # x.error THEN <<"drift-error-text", x.error.s>>
                       ELSE OKV)
    ELSE IF d.error # x.error \/ d.result # x.result THEN <<"wrong-answer", "handler-value">>
    ELSE OKV

RECURSIVE OpsVerdict(_, _, _, _)
OpsVerdict(obs, exp, j, in) ==
    IF j > Len(exp) THEN (IF Len(obs) > Len(exp) THEN <<"extra-ops", in.app \o "-" \o Who(in) \o "-" \o Letters(exp, 1, Len(exp), in)>> ELSE OKV)
    ELSE IF j > Len(obs) THEN <<"missing-ops", in.app \o "-" \o Who(in) \o "-" \o Letters(exp, 1, j, in)>>
    ELSE IF obs[j].op # exp[j].op THEN <<"other-op", in.app \o "-" \o Who(in) \o "-" \o Letters(exp, 1, j, in)>>
    ELSE IF exp[j].threw /\ ~Threw(obs[j]) THEN <<"no-throw", in.app \o "-" \o Who(in) \o "-" \o Letters(exp, 1, j, in)>>
    ELSE IF ~exp[j].threw /\ Threw(obs[j]) THEN <<"spurious-throw", in.app \o "-" \o Who(in) \o "-" \o Letters(exp, 1, j, in)>>
    ELSE OpsVerdict(obs, exp, j + 1, in)

Verdict ==
    LET in == InOf(Ev)
        m == RunF(Start(in))
        sent == Sent(m)
        f == Front(in)
    IN IF Ev.died THEN <<IF Ev.hang THEN "hang" ELSE "died", Pattern(in, m)>>
       ELSE IF Ev.hang THEN <<"hang", Pattern(in, m)>>
       ELSE IF in.ct \notin (AcceptedCT \cup RejectedCT) THEN <<"driver", "unknown-content-type">>
       \* (c) (d)
       ELSE IF m.inv = <<>> /\ Ev.inv # <<>> THEN <<"spurious-dispatch", WhyNot(in)>>
       ELSE IF m.inv # <<>> /\ Ev.inv = <<>> THEN <<"not-dispatched", Who(in)>>
       ELSE IF Len(Ev.inv) > 1 THEN <<"multi-dispatch", Who(in)>>
       ELSE IF m.inv # <<>> /\ Ev.inv[1].name # m.inv[1].name THEN <<"wrong-function", Ev.inv[1].name>>
       ELSE IF m.inv # <<>> /\ Ev.inv[1].args # m.inv[1].args THEN <<"wrong-args", Who(in)>>
       ELSE IF f = "smd" THEN (IF Ev.body # SmdText THEN <<"smd", "body">> ELSE IF Ev.cmt # "application/json" THEN <<"drift-smd", "content-type">> ELSE OKV)
       \* (a) (b)
       ELSE IF Ev.junk THEN <<"garbage", Pattern(in, m)>>
       ELSE IF Len(Ev.docs) > 1 THEN <<"multi-answer", Pattern(in, m)>>
       ELSE IF f # "call" THEN
            (IF Ev.docs # <<>> THEN <<"unexpected-answer", f>>
             ELSE IF Ev.blen = 0 THEN <<"unreported", f>>
             ELSE IF Ev.weof + Ev.deof = 0 THEN <<"completion", "rejection-not-completed">>
             ELSE IF Ev.text # m.text THEN <<"drift-reject-text", f>>
             ELSE IF Ev.st # 200 \/ Ev.cmt # "text/plain" THEN <<"drift-reject-status", f>>
             ELSE OKV)
       ELSE IF Notif(in) /\ (Ev.docs # <<>> \/ Ev.blen # 0) THEN <<"notif-answered", Pattern(in, m)>>
       ELSE IF sent = <<>> /\ Ev.docs # <<>> THEN <<"unexpected-answer", IF m.inv = <<>> THEN WhyNot(in) ELSE Pattern(in, m)>>
       ELSE IF sent # <<>> /\ Ev.docs = <<>> THEN <<"missing-answer", IF m.inv = <<>> THEN WhyNot(in) ELSE Pattern(in, m)>>
       ELSE IF sent # <<>> /\ DocOK(Ev.docs[1], sent[1]) # OKV /\ DocOK(Ev.docs[1], sent[1])[1] # "drift-error-text" THEN DocOK(Ev.docs[1], sent[1])
       \* (e)
       ELSE IF OpsVerdict(ObsOps(Ev), m.ops, 1, in) # OKV THEN OpsVerdict(ObsOps(Ev), m.ops, 1, in)
       \* completion of the response
       ELSE IF Ev.weof > 1 \/ Ev.deof > 1 THEN <<"completion", "twice-" \o Pattern(in, m)>>
       ELSE IF m.completed > 0 /\ Ev.weof + Ev.deof = 0 THEN <<"completion", "never-" \o Pattern(in, m)>>
       ELSE IF m.completed = 0 /\ (Ev.weof + Ev.deof > 0 \/ Ev.blen > 0) THEN <<"completion", "abandoned-call-answered-" \o Pattern(in, m)>>
       ELSE IF sent # <<>> THEN DocOK(Ev.docs[1], sent[1])
       ELSE OKV

TCall == Is("Call") /\ Judge(Verdict) /\ UNCHANGED c
TReset == Is("Reset") /\ UNCHANGED c

TraceInit == c = Start(Base) /\ l = 1
TraceNext == TCall \/ TReset
TraceSpec == TraceInit /\ [][TraceNext]_tvars
=============================================================================
