SPECIFICATION TraceSpec
CONSTANTS
  BugNoGuard = FALSE
  BugNotifWrite = FALSE
  BugArity = FALSE
  BugIdLost = FALSE
  BugRole = FALSE
  Family = "none"
  MaxPar = 0
  Rich = FALSE
  Strict = TRUE
POSTCONDITION TraceDone
CHECK_DEADLOCK FALSE
