SPECIFICATION Spec
CONSTANTS
  BugNoGuard = FALSE
  BugNotifWrite = FALSE
  BugArity = FALSE
  BugIdLost = FALSE
  BugRole = FALSE
  Family = "all"
  MaxPar = 3
  Rich = TRUE
INVARIANTS TypeOK AtMostOnce NotifSilent AnsweredOnce IdEcho OneOfResultError DispatchIff NoEarlyDispatch NothingRunsUndispatched RejectedIsReported ArgsExact NoCrash
PROPERTIES SecondAnswerThrows
CHECK_DEADLOCK FALSE
