-------------------------------- MODULE Rpc --------------------------------
(***************************************************************************)
(* G05 (growth): JSON-RPC server dispatch - src/rpc_json.cpp,              *)
(* cppcms/rpc_json.h (json_rpc_server::main, json_call, the json_method    *)
(* binders).                                                               *)
(*                                                                         *)
(* One call is a small deterministic state machine; all non-determinism is *)
(* in the choice of the input (request shape, registered method, handler   *)
(* program).  The state is the record c; one action per step of the code:  *)
(*                                                                         *)
(*   Received --Receive--> Parsed --Lookup--> Dispatched --Invoke-->       *)
(*   InHandler --HandlerStep*--> Returned --MainReturn--> Done | Pending   *)
(*   Pending --LaterStep*--> Done                                          *)
(*                                                                         *)
(*   Receive      json_rpc_server::main entry + json_call::json_call: SMD  *)
(*                on GET, content type, request method, JSON, JSON-RPC     *)
(*                shape, notification iff "id":null                        *)
(*   Lookup       methods_.find + the two role checks                      *)
(*   Invoke       binderN::operator(): arity, conversion of every          *)
(*                parameter, the call of the registered function           *)
(*   HandlerStep  one operation of the handler program: return_result /    *)
(*                return_error (json_rpc_server), throw, release_call      *)
(*   MainReturn   the catch clauses of main + what context::dispatch does  *)
(*                when main returns (complete the response unless the      *)
(*                context was released)                                    *)
(*   LaterStep    json_call::return_result / return_error / destruction    *)
(*                of a released call                                       *)
(*                                                                         *)
(* The same step functions (RunF) are the reference the recorded calls of  *)
(* the real code are judged against in RpcTrace.tla.                       *)
(*                                                                         *)
(* Properties                                                              *)
(*  (a) AtMostOnce, NotifSilent, AnsweredOnce                              *)
(*  (b) IdEcho, OneOfResultError                                           *)
(*  (c) DispatchIff (the chain of guards = the declarative condition),     *)
(*      RejectedIsReported                                                 *)
(*  (d) ArgsExact                                                          *)
(*  (e) SecondAnswerThrows (action property), NoCrash; the named deviation *)
(*      Abandoned (released call destroyed without answer: the client      *)
(*      gets no response at all) is reachable - cfg Rpc_named_abandon.     *)
(* Seeded design bugs (CONSTANTS): BugNoGuard (no answered flag - the      *)
(* pinned code), BugNotifWrite (sync answer on a notification writes the   *)
(* start of a document before failing - the pinned code), BugArity (`<'    *)
(* instead of `!='), BugIdLost (error responses carry id null), BugRole    *)
(* (role not checked).                                                     *)
(***************************************************************************)
EXTENDS Integers, Sequences, FiniteSets, TLC

CONSTANTS BugNoGuard, BugNotifWrite, BugArity, BugIdLost, BugRole,
          Family,         \* which input family Init explores: "front" | "shape" | "script" | "all" | "none" (trace validation)
          MaxPar,         \* params arrays of up to this many elements
          Rich            \* TRUE: the larger alphabets of parameter values and signatures

VARIABLE c
vars == <<c>>

---------------------------------------------------------------------------
(* abstract JSON values: records with a kind field k *)
Null == [k |-> "null"]
Undef == [k |-> "undef"]
Num(n) == [k |-> "int", i |-> n]
Frac(n) == [k |-> "frac", i |-> n]          \* 1 = 1.5, 2 = -0.25
Big == [k |-> "big", i |-> 1]               \* 3000000000: above INT_MAX, below UINT_MAX
Str(s) == [k |-> "str", s |-> s]
Bool(b) == [k |-> "bool", b |-> b]
Arr(a) == [k |-> "arr", a |-> a]
Obj(m) == [k |-> "obj", m |-> m]
Field(v) == [has |-> TRUE, v |-> v]
NoField == [has |-> FALSE, v |-> Undef]

(* parameter types of the binders: i int, u unsigned, s std::string, b bool, d double, v json::value, a json::array,     *)
(* o json::object, I std::vector<int>.  The converted value is logged in the same abstract form, so conversion is the    *)
(* identity on convertible values.                                                                                        *)
Convertible(t, v) ==
    CASE t = "i" -> v.k = "int"
      [] t = "u" -> (v.k = "int" /\ v.i >= 0) \/ v.k = "big"
      [] t = "s" -> v.k = "str"
      [] t = "b" -> v.k = "bool"
      [] t = "d" -> v.k \in {"int", "frac", "big"}
      [] t = "v" -> v.k # "undef"
      [] t = "a" -> v.k = "arr"
      [] t = "o" -> v.k = "obj"
      [] t = "I" -> v.k = "arr" /\ (\A j \in 1..Len(v.a) : v.a[j].k = "int")
      [] OTHER -> FALSE

---------------------------------------------------------------------------
(* the request *)
AcceptedCT == {"application/json", "application/json; charset=UTF-8", "application/jsonrequest", "application/json-rpc", "Application/JSON"}
RejectedCT == {"text/plain", "", "application/xml", "text/json", "application/jsonx", "json", "application/x-json"}

Notif(in) == in.id.has /\ in.id.v.k = "null"          \* the only spelling of a notification: "id":null (an absent id is a protocol error)

Front(in) ==
    IF in.smd /\ in.http = "GET" THEN "smd"
    ELSE IF in.ct \notin AcceptedCT THEN "bad-ct"
    ELSE IF in.http # "POST" THEN "bad-http"
    ELSE IF in.bk \in {"malformed", "empty"} THEN "bad-json"
    ELSE IF in.bk # "obj" \/ ~in.method.has \/ in.method.v.k # "str" \/ ~in.params.has \/ in.params.v.k # "arr" \/ ~in.id.has THEN "bad-rpc"
    ELSE "call"

FrontText(f) == CASE f = "bad-ct" -> "Invalid content type" [] f = "bad-http" -> "Invalid request method" [] f = "bad-json" -> "Invalid JSON"
                  [] f = "bad-rpc" -> "Invalid JSON-RPC" [] OTHER -> ""

(* (c) the declarative condition under which the registered function is invoked *)
RoleOK(in) == CASE in.reg.role = "m" -> ~Notif(in) [] in.reg.role = "n" -> Notif(in) [] OTHER -> TRUE
ArityOK(in) == in.reg.raw \/ Len(in.params.v.a) = Len(in.reg.sig)
ConvOK(in) == in.reg.raw \/ (\A j \in 1..Len(in.reg.sig) : Convertible(in.reg.sig[j], in.params.v.a[j]))
CanDispatch(in) ==
    /\ Front(in) = "call"
    /\ in.reg.has
    /\ RoleOK(in)
    /\ ArityOK(in)
    /\ ConvOK(in)

---------------------------------------------------------------------------
(* responses *)
ResultDoc(in, v) == [id |-> in.id.v, error |-> Null, result |-> v, fw |-> FALSE]
ErrorDoc(in, v, fw) == [id |-> IF BugIdLost /\ fw THEN Null ELSE in.id.v, error |-> v, result |-> Null, fw |-> fw]

ObjVal == Obj(<<[key |-> "a", v |-> Arr(<<Num(1), Str("x")>>)]>>)
IsAnswerOp(op) == op \in {"R", "Ro", "Rs", "E", "Eo", "A"}
IsLaterOp(op) == op \in {"r", "ro", "e", "eo", "drop"}
IsThrowOp(op) == op \in {"Tc", "Tb", "Ts"}
\* the value the handler program passes at (1-based) position p
OpDoc(in, op, p) ==
    CASE op \in {"R", "r", "A"} -> ResultDoc(in, Num(100 + p - 1))
      [] op \in {"Ro", "ro"} -> ResultDoc(in, ObjVal)
      [] op = "Rs" -> ResultDoc(in, Str("res"))
      [] op \in {"E", "e"} -> ErrorDoc(in, Str("e" \o ToString(p - 1)), FALSE)
      [] OTHER -> ErrorDoc(in, ObjVal, FALSE)
ThrowText(op) == CASE op = "Tc" -> "custom failure" [] op = "Tb" -> "Invalid parameters" [] OTHER -> "Internal Service Error"

---------------------------------------------------------------------------
(* state of one call *)
Start(in) == [in |-> in, pc |-> "Received", cur |-> FALSE, released |-> FALSE, dropped |-> FALSE, answered |-> FALSE,
              docs |-> <<>>, garbage |-> FALSE, completed |-> 0, inv |-> <<>>, ops |-> <<>>, ip |-> 1, exc |-> "none",
              text |-> "", smdout |-> FALSE, crashed |-> FALSE]

With(s, f, v) == [s EXCEPT ![f] = v]

\* json_rpc_server::main up to and including json_call::json_call
ReceiveF(s) ==
    LET f == Front(s.in)
    IN IF f = "smd" THEN [s EXCEPT !.pc = "Done", !.completed = 1, !.smdout = TRUE]
       ELSE IF f # "call" THEN [s EXCEPT !.pc = "Done", !.completed = 1, !.text = FrontText(f)]
       ELSE [s EXCEPT !.pc = "Parsed", !.cur = TRUE]

\* an error answer of the framework itself: nothing for a notification
FwError(s, msg) ==
    IF Notif(s.in) THEN [s EXCEPT !.pc = "Done", !.completed = s.completed + 1]
    ELSE [s EXCEPT !.pc = "Done", !.completed = s.completed + 1, !.docs = Append(s.docs, ErrorDoc(s.in, Str(msg), TRUE)), !.answered = TRUE]

\* methods_.find and the role checks
LookupF(s) ==
    LET in == s.in
    IN IF ~in.reg.has THEN FwError(s, "Method not found")
       ELSE IF ~BugRole /\ in.reg.role = "n" /\ ~Notif(in) THEN FwError(s, "The request should be notification")
       ELSE IF ~BugRole /\ in.reg.role = "m" /\ Notif(in) THEN [s EXCEPT !.pc = "Done", !.completed = s.completed + 1]
       ELSE [s EXCEPT !.pc = "Dispatched"]

\* binderN::operator(): arity, conversions, call
ArityFails(in) == IF in.reg.raw THEN FALSE
                  ELSE IF BugArity THEN Len(in.params.v.a) < Len(in.reg.sig)
                  ELSE Len(in.params.v.a) # Len(in.reg.sig)
InvokeF(s) ==
    LET in == s.in
    IN IF ArityFails(in) THEN FwError(s, "Invalid parametres number")
       ELSE IF ~in.reg.raw /\ (\E j \in 1..Len(in.reg.sig) : ~Convertible(in.reg.sig[j], in.params.v.a[j])) THEN FwError(s, "Invalid parameters")
       ELSE [s EXCEPT !.pc = "InHandler",
                      !.inv = Append(s.inv, [name |-> in.mname,
                                             args |-> IF in.reg.raw THEN in.params.v.a ELSE SubSeq(in.params.v.a, 1, Len(in.reg.sig))])]

Noted(s, op, threw) == [s EXCEPT !.ops = Append(s.ops, [op |-> op, threw |-> threw]), !.ip = s.ip + 1]

\* return_result / return_error of json_rpc_server inside the handler
SyncAnswerF(s, op) ==
    IF ~s.cur THEN Noted(s, op, TRUE)                                                   \* check_call: the call was released
    ELSE IF Notif(s.in) THEN (IF BugNotifWrite THEN With(Noted(s, op, TRUE), "garbage", TRUE) ELSE Noted(s, op, TRUE))
    ELSE IF s.answered /\ ~BugNoGuard THEN Noted(s, op, TRUE)                           \* (e) the second answer throws
    ELSE [Noted(s, op, FALSE) EXCEPT !.docs = Append(s.docs, OpDoc(s.in, op, s.ip)), !.answered = TRUE]

HandlerStepF(s) ==
    IF s.ip > Len(s.in.script) \/ IsLaterOp(s.in.script[s.ip]) THEN [s EXCEPT !.pc = "Returned"]
    ELSE LET op == s.in.script[s.ip]
         IN IF op = "N" THEN [s EXCEPT !.ip = s.ip + 1]
            ELSE IF op = "A" THEN (IF Notif(s.in) THEN Noted(s, op, FALSE) ELSE SyncAnswerF(s, op))
            ELSE IF IsAnswerOp(op) THEN SyncAnswerF(s, op)
            ELSE IF IsThrowOp(op) THEN [Noted(s, op, TRUE) EXCEPT !.pc = "Returned", !.exc = op]
            ELSE IF op = "rel" THEN (IF ~s.cur THEN Noted(s, op, TRUE) ELSE [Noted(s, op, FALSE) EXCEPT !.cur = FALSE, !.released = TRUE])
            ELSE [s EXCEPT !.ip = s.ip + 1]

\* the catch clauses of main, then context::dispatch: complete the response unless the context went with the call
MainReturnF(s) ==
    LET t == IF s.exc # "none" /\ s.cur /\ ~Notif(s.in) /\ (~s.answered \/ BugNoGuard)
             THEN [s EXCEPT !.docs = Append(s.docs, ErrorDoc(s.in, Str(ThrowText(s.exc)), TRUE)), !.answered = TRUE]
             ELSE s
    IN IF t.released THEN [t EXCEPT !.pc = "Pending"]
       ELSE [t EXCEPT !.pc = "Done", !.completed = t.completed + 1]

\* json_call::return_result / return_error / ~json_call on the released call
LaterStepF(s) ==
    IF s.ip > Len(s.in.script) THEN [s EXCEPT !.pc = "Done", !.dropped = TRUE]
    ELSE LET op == s.in.script[s.ip]
         IN IF op = "drop" THEN [Noted(s, op, FALSE) EXCEPT !.dropped = TRUE]
            ELSE IF ~IsLaterOp(op) \/ s.dropped THEN [s EXCEPT !.ip = s.ip + 1]
            ELSE IF Notif(s.in) THEN Noted(s, op, TRUE)                                 \* check_not_notification
            ELSE IF s.answered /\ ~BugNoGuard THEN Noted(s, op, TRUE)                   \* (e)
            ELSE IF s.completed > 0 THEN With(Noted(s, op, FALSE), "crashed", TRUE)     \* the connection is gone already (only reachable with BugNoGuard)
            ELSE [Noted(s, op, FALSE) EXCEPT !.docs = Append(s.docs, OpDoc(s.in, op, s.ip)), !.answered = TRUE, !.completed = s.completed + 1]

StepF(s) ==
    CASE s.pc = "Received" -> ReceiveF(s)
      [] s.pc = "Parsed" -> LookupF(s)
      [] s.pc = "Dispatched" -> InvokeF(s)
      [] s.pc = "InHandler" -> HandlerStepF(s)
      [] s.pc = "Returned" -> MainReturnF(s)
      [] s.pc = "Pending" -> LaterStepF(s)
      [] OTHER -> s
RECURSIVE RunF(_)
RunF(s) == IF s.pc = "Done" THEN s ELSE RunF(StepF(s))

\* what reaches the client: nothing unless the response was completed
Sent(s) == IF s.completed > 0 THEN s.docs ELSE <<>>
Abandoned(s) == s.pc = "Done" /\ s.completed = 0

---------------------------------------------------------------------------
(* input families explored by TLC *)
Sigs == IF Rich THEN {<<>>, <<"i">>, <<"d">>, <<"s", "b">>, <<"a", "o">>, <<"u", "v", "I">>} ELSE {<<>>, <<"i">>, <<"s", "b">>, <<"u", "v", "I">>}
Roles == {"a", "m", "n"}
ParamVals == IF Rich THEN {Num(7), Num(-3), Frac(1), Big, Str("ab"), Bool(TRUE), Null, Arr(<<Num(1)>>), Arr(<<Str("x")>>), Obj(<<>>)}
             ELSE {Num(7), Num(-3), Str("ab"), Bool(TRUE), Null, Arr(<<Num(1)>>)}
IdFields == {NoField, Field(Null), Field(Num(1)), Field(Str("x")), Field(Obj(<<[key |-> "a", v |-> Num(1)]>>))}
RECURSIVE SeqsUpTo(_, _)
SeqsUpTo(S, n) == IF n = 0 THEN {<<>>} ELSE LET R == SeqsUpTo(S, n - 1) IN R \cup {Append(r, x) : r \in {q \in R : Len(q) = n - 1}, x \in S}
Regs == {[has |-> FALSE, sig |-> <<>>, role |-> "a", raw |-> FALSE]}
        \cup {[has |-> TRUE, sig |-> sg, role |-> r, raw |-> FALSE] : sg \in Sigs, r \in Roles}
        \cup {[has |-> TRUE, sig |-> <<>>, role |-> r, raw |-> TRUE] : r \in Roles}
GoodParams(sg) == [j \in 1..Len(sg) |-> CASE sg[j] = "i" -> Num(7) [] sg[j] = "s" -> Str("ab") [] sg[j] = "b" -> Bool(TRUE) [] sg[j] = "u" -> Big
                                          [] sg[j] = "I" -> Arr(<<Num(1), Num(2)>>) [] OTHER -> Null]
Base == [app |-> "sync", smd |-> FALSE, http |-> "POST", ct |-> "application/json", bk |-> "obj", method |-> Field(Str("m")), params |-> Field(Arr(<<>>)),
         id |-> Field(Num(1)), mname |-> "m", reg |-> [has |-> TRUE, sig |-> <<>>, role |-> "a", raw |-> FALSE], script |-> <<"A">>]

FrontInputs == {[Base EXCEPT !.smd = sm, !.http = h, !.ct = ct, !.bk = bk, !.id = idf] :
                  sm \in BOOLEAN, h \in {"POST", "GET", "PUT"}, ct \in {"application/json", "application/json-rpc", "text/plain", ""},
                  bk \in {"obj", "nonobj", "malformed", "empty"}, idf \in {NoField, Field(Null), Field(Num(1))}}
MethodFields == {NoField, Field(Num(5)), Field(Str("m"))}
ParamFields == {NoField, Field(Obj(<<>>)), Field(Null)} \cup {Field(Arr(a)) : a \in SeqsUpTo(ParamVals, MaxPar)}
ShapeInputs == {[Base EXCEPT !.method = mf, !.params = pf, !.id = idf, !.reg = rg, !.mname = IF mf.v.k = "str" THEN mf.v.s ELSE ""] :
                  mf \in MethodFields, pf \in ParamFields, idf \in IdFields, rg \in Regs}
Scripts == {<<"N">>, <<"A">>, <<"R">>, <<"E">>, <<"R", "R">>, <<"R", "E">>, <<"E", "R">>, <<"Tc">>, <<"Tb">>, <<"Ts">>, <<"R", "Ts">>, <<"E", "Tc">>,
            <<"rel", "r">>, <<"rel", "e">>, <<"rel", "r", "r">>, <<"rel", "r", "e">>, <<"rel", "drop">>, <<"rel">>, <<"rel", "R">>, <<"rel", "Ts", "r">>,
            <<"R", "rel", "r">>, <<"R", "rel", "drop">>, <<"rel", "rel", "r">>, <<"rel", "r", "drop">>, <<"Ro">>, <<"rel", "eo">>}
ScriptInputs == {[Base EXCEPT !.app = ap, !.params = Field(Arr(GoodParams(sg))), !.id = idf, !.reg = [has |-> TRUE, sig |-> sg, role |-> r, raw |-> FALSE], !.script = sc] :
                   ap \in {"sync", "async"}, sg \in {<<>>, <<"s", "b">>}, idf \in IdFields \ {NoField}, r \in Roles, sc \in Scripts}
Inputs == CASE Family = "front" -> FrontInputs [] Family = "shape" -> ShapeInputs [] Family = "script" -> ScriptInputs
            [] Family = "all" -> FrontInputs \cup ShapeInputs \cup ScriptInputs [] OTHER -> {Base}

---------------------------------------------------------------------------
Init == c \in {Start(in) : in \in Inputs}

Receive == c.pc = "Received" /\ c' = ReceiveF(c)
Lookup == c.pc = "Parsed" /\ c' = LookupF(c)
Invoke == c.pc = "Dispatched" /\ c' = InvokeF(c)
HandlerStep == c.pc = "InHandler" /\ c' = HandlerStepF(c)
MainReturn == c.pc = "Returned" /\ c' = MainReturnF(c)
LaterStep == c.pc = "Pending" /\ c' = LaterStepF(c)
Next == Receive \/ Lookup \/ Invoke \/ HandlerStep \/ MainReturn \/ LaterStep
Spec == Init /\ [][Next]_vars

---------------------------------------------------------------------------
PastInvoke == c.pc \in {"InHandler", "Returned", "Pending", "Done"}
IsCall == Front(c.in) = "call"

\* (a)
AtMostOnce == Len(c.docs) <= 1 /\ c.completed <= 1 /\ ~c.garbage
NotifSilent == (IsCall /\ Notif(c.in)) => (c.docs = <<>> /\ ~c.garbage)
\* a method call with an id that the framework itself turns down gets exactly one error; a dispatched one gets what the handler answered first
AnsweredOnce == (c.pc = "Done" /\ IsCall /\ ~Notif(c.in) /\ ~CanDispatch(c.in)) => (Len(Sent(c)) = 1 /\ Sent(c)[1].fw /\ Sent(c)[1].error # Null)
\* (b)
IdEcho == \A j \in 1..Len(c.docs) : c.docs[j].id = c.in.id.v
OneOfResultError == \A j \in 1..Len(c.docs) : (c.docs[j].error = Null) # (c.docs[j].result = Null)
\* (c)
DispatchIff == PastInvoke => ((c.inv # <<>>) <=> CanDispatch(c.in))
NoEarlyDispatch == ~PastInvoke => (c.inv = <<>> /\ c.ops = <<>>)
NothingRunsUndispatched == (c.inv = <<>>) => (c.ops = <<>>)
RejectedIsReported == (c.pc = "Done" /\ Front(c.in) \notin {"call", "smd"}) => (c.text # "" /\ c.docs = <<>> /\ c.inv = <<>> /\ c.completed = 1)
\* (d)
ArgsExact == (c.inv # <<>>) => (Len(c.inv) = 1 /\ c.inv[1].name = c.in.mname /\ c.inv[1].args = c.in.params.v.a)
\* (e)
NoCrash == ~c.crashed
SecondAnswerThrows ==
    [][(c.answered /\ c'.ops # c.ops /\ c'.ops[Len(c'.ops)].op \in {"R", "Ro", "Rs", "E", "Eo", "A", "r", "ro", "e", "eo"} /\ ~(c'.ops[Len(c'.ops)].op = "A" /\ Notif(c.in)))
         => (c'.docs = c.docs /\ c'.ops[Len(c'.ops)].threw)]_vars
\* the named deviation: not an invariant of the design - Rpc_named_abandon.cfg shows TLC reaching it
NeverAbandoned == ~Abandoned(c)
\* a call that is released and answered later is completed exactly by that answer
TypeOK == c.pc \in {"Received", "Parsed", "Dispatched", "InHandler", "Returned", "Pending", "Done"} /\ c.completed \in 0..2 /\ c.ip \in 1..8
=============================================================================
