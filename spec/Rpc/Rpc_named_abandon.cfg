SPECIFICATION Spec
CONSTANTS
  BugNoGuard = FALSE
  BugNotifWrite = FALSE
  BugArity = FALSE
  BugIdLost = FALSE
  BugRole = FALSE
  Family = "script"
  MaxPar = 2
  Rich = FALSE
INVARIANTS NeverAbandoned
CHECK_DEADLOCK FALSE
