SPECIFICATION Spec
CONSTANTS
  BugNoGuard = FALSE
  BugNotifWrite = FALSE
  BugArity = FALSE
  BugIdLost = TRUE
  BugRole = FALSE
  Family = "shape"
  MaxPar = 2
  Rich = FALSE
INVARIANTS IdEcho
CHECK_DEADLOCK FALSE
