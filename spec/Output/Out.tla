-------------------------------- MODULE Out --------------------------------
(***************************************************************************)
(* Property layer of the cppcms response path (C03).                       *)
(*                                                                         *)
(* The application puts bytes into the response stream; byte number i of   *)
(* the stream (0-based) has the unique id i, so the stream written so far  *)
(* is fully described by its length `written'.  What the peer has received *)
(* - after removing the protocol framing (Content-Length / chunked /       *)
(* close-delimited on HTTP, CGI block on SCGI, STDOUT records on FastCGI)  *)
(* and after inflating gzip - is a sequence of byte ids, kept as a list of *)
(* maximal runs <<first id, length>> (an id of -1 stands for a byte that   *)
(* is not payload at all).  A run list is a prefix of the written stream   *)
(* iff it is empty or the single run <<0, n>> with n <= written: anything  *)
(* duplicated, lost, reordered or foreign shows up as a second run.        *)
(*                                                                         *)
(* The layer says nothing about buffers, gather writes, pending output or  *)
(* how the framing is chosen - that is OutImpl.tla.                        *)
(***************************************************************************)
EXTENDS Integers, Sequences, FiniteSets, OutRuns

CONSTANTS MaxBytes,     \* Leg D: bound on the bytes an application writes
          Settable      \* Leg D: the <<name, value>> pairs an application may set

VARIABLES
    written,     \* Nat: length of the application's body stream
    set,         \* sequence of <<name, value>>: headers / cookies set by the application
    started,     \* the application has asked for the output stream (headers are fixed from now on)
    finalized,   \* the application is done with this response
    hdr,         \* [count |-> Nat, fields |-> Seq(<<name, value>>)]: header blocks the peer received
    wire,        \* run list: de-framed body the peer has received so far
    frame,       \* [closed |-> BOOLEAN, terms |-> Nat]: end of response as announced by the framing
    drained,     \* the server side has nothing left to send for this response
    copied       \* [has |-> BOOLEAN, runs |-> run list, same |-> BOOLEAN]: the page copy in the cache

vars == <<written, set, started, finalized, hdr, wire, frame, drained, copied>>

----------------------------------------------------------------------------
(* every header / cookie the application set is carried exactly once *)
Occurs(fields, p) == Cardinality({ i \in DOMAIN fields : fields[i] = p })
Carries(fields, s) == \A i \in DOMAIN s : Occurs(fields, s[i]) = 1

NoHdr   == [count |-> 0, fields |-> <<>>]
NoFrame == [closed |-> FALSE, terms |-> 0]
NoCopy  == [has |-> FALSE, runs |-> <<>>, same |-> FALSE]

Init ==
    /\ written = 0 /\ set = <<>> /\ started = FALSE /\ finalized = FALSE
    /\ hdr = NoHdr /\ wire = <<>> /\ frame = NoFrame /\ drained = FALSE /\ copied = NoCopy

----------------------------------------------------------------------------
(* The application *)
SetHeaderOK(p) == ~started /\ ~finalized /\ (\A i \in DOMAIN set : set[i] # p)
SetHeader(p) ==
    /\ SetHeaderOK(p)
    /\ set' = Append(set, p)
    /\ UNCHANGED <<written, started, finalized, hdr, wire, frame, drained, copied>>

WriteOK(n) == ~finalized /\ (n > 0 => ~frame.closed)   \* nothing is written once the peer has been told that the response is over
Write(n) ==
    /\ WriteOK(n)
    /\ written' = written + n /\ started' = TRUE
    /\ UNCHANGED <<set, finalized, hdr, wire, frame, drained, copied>>

(* flush, setbuf, asynchronous flush, buffering mode: invisible here except that output has begun *)
Other ==
    /\ started' = TRUE
    /\ UNCHANGED <<written, set, finalized, hdr, wire, frame, drained, copied>>

Finalize ==
    /\ finalized' = TRUE /\ started' = TRUE
    /\ UNCHANGED <<written, set, hdr, wire, frame, drained, copied>>

(* What the peer may observe next: h, w, f are the new values of hdr, wire, frame.     *)
(* This single predicate is the property: body a prefix of what was written, growing   *)
(* only; exactly one header block, in front of everything, carrying all that was set;  *)
(* the framing announces the end only when everything written has arrived (and nothing *)
(* is written afterwards, see Write), exactly once, and nothing follows it.            *)
DOK(h, w, f, wr, fin, st) ==
    /\ h.count \in {hdr.count, 1} /\ h.count <= 1
    /\ (h.count = 1 => st)
    /\ (hdr.count = 1 => h = hdr)
    /\ (h.count = 1 => Carries(h.fields, set))
    /\ ((w # <<>> \/ f.closed) => h.count = 1)
    /\ IsPrefixRuns(w, wr) /\ RunLen(w) >= RunLen(wire)
    /\ (f.closed => w = Whole(wr) /\ f.terms = 1)
    /\ (~f.closed => f.terms = 0)
    /\ (frame.closed => f = frame /\ w = wire)

DeliverOK(h, w, f) == DOK(h, w, f, written, finalized, started)

Deliver(h, w, f) ==
    /\ DeliverOK(h, w, f)
    /\ hdr' = h /\ wire' = w /\ frame' = f
    /\ UNCHANGED <<written, set, started, finalized, drained, copied>>

(* the server has sent everything it ever will (connection closed, or idle on a kept connection) *)
Drain ==
    /\ finalized /\ frame.closed
    /\ drained' = TRUE
    /\ UNCHANGED <<written, set, started, finalized, hdr, wire, frame, copied>>

(* the page is stored in the cache: byte-identical to the entity that is sent *)
StoreOK(c) == c.has /\ c.same /\ c.runs = Whole(written)
Store(c) ==
    /\ finalized /\ StoreOK(c)
    /\ copied' = c
    /\ UNCHANGED <<written, set, started, finalized, hdr, wire, frame, drained>>

FieldSeqs == { <<>> } \cup { <<p>> : p \in Settable } \cup { <<p, q>> : p \in Settable, q \in Settable }

Next ==
    \/ \E p \in Settable : SetHeader(p)
    \/ \E n \in 0..2 : (written + n <= MaxBytes /\ Write(n))
    \/ Other
    \/ Finalize
    \/ \E fs \in FieldSeqs, n \in 0..MaxBytes, c \in BOOLEAN, k \in 0..1 :
          Deliver([count |-> k, fields |-> fs], Whole(n), [closed |-> c, terms |-> IF c THEN 1 ELSE 0])
    \/ Drain
    \/ Store([has |-> TRUE, runs |-> Whole(written), same |-> TRUE])

Spec == Init /\ [][Next]_vars

----------------------------------------------------------------------------
(* The property, as state invariants *)
PrefixInv == IsPrefixRuns(wire, written)

OneHeader == /\ hdr.count <= 1
             /\ ((wire # <<>> \/ frame.closed) => hdr.count = 1)
             /\ (hdr.count = 1 => Carries(hdr.fields, set))

NoEarlyEnd == frame.closed => (wire = Whole(written) /\ frame.terms = 1)

Complete == (finalized /\ drained) => (wire = Whole(written) /\ frame.closed /\ frame.terms = 1 /\ hdr.count = 1)

CacheCopy == copied.has => (copied.same /\ copied.runs = Whole(written))

(* the same property in the form used for refinement checking by the mechanism layer:   *)
(* every step either leaves the observable state alone or is one of the actions above,  *)
(* with the new values read off the primed variables                                    *)
StepOK ==
    \/ UNCHANGED vars
    \/ /\ DOK(hdr', wire', frame', written', finalized', started')
       /\ written' >= written /\ (finalized => written' = written)
       /\ (written' > written => ~frame.closed)
       /\ (finalized => finalized') /\ (started => started')
       /\ (drained' /\ ~drained => finalized' /\ frame'.closed)
       /\ (drained => drained')
       /\ (copied' # copied => finalized' /\ copied'.has /\ copied'.same /\ copied'.runs = Whole(written'))
       /\ (set' # set => ~started /\ Len(set') = Len(set) + 1 /\ SubSeq(set', 1, Len(set)) = set)
StepSpec == [][StepOK]_vars

(* model value for Settable in the .cfg files *)
SettableSmall == { <<"x-a", "1">>, <<"set-cookie", "c=1">> }
=============================================================================
