------------------------------ MODULE OutRuns ------------------------------
(* Run lists: a sequence of byte ids written as maximal runs <<first id, length>>; *)
(* id -1 stands for a byte that is not payload.  Shared by Out and OutImpl.        *)
EXTENDS Integers, Sequences

(* run lists *)
RECURSIVE RunLen(_)
RunLen(w) == IF w = <<>> THEN 0 ELSE w[1][2] + RunLen(Tail(w))

Whole(n) == IF n = 0 THEN <<>> ELSE << <<0, n>> >>

IsPrefixRuns(w, n) == \/ w = <<>>
                      \/ (Len(w) = 1 /\ w[1][1] = 0 /\ w[1][2] >= 1 /\ w[1][2] <= n)

(* run list of a sequence of ids (used by the mechanism layer to map its wire) *)
RECURSIVE RunsOf(_)
RunsOf(s) ==
    IF s = <<>> THEN <<>>
    ELSE LET r == RunsOf(Tail(s))
             x == s[1]
         IN IF r # <<>> /\ x >= 0 /\ r[1][1] = x + 1
            THEN << <<x, r[1][2] + 1>> >> \o Tail(r)
            ELSE IF r # <<>> /\ x < 0 /\ r[1][1] < 0
            THEN << <<-1, r[1][2] + 1>> >> \o Tail(r)
            ELSE << <<x, 1>> >> \o r
=============================================================================
