------------------------------ MODULE OutImpl ------------------------------
(***************************************************************************)
(* Mechanism layer of the cppcms response path (C03), shaped like the code *)
(*                                                                         *)
(*   src/http_response.cpp   gzip_buf -> copy_buf -> basic_device          *)
(*                           (output_device | async_io_buf): pbase/pptr/   *)
(*                           epptr as a content sequence + buffer size,    *)
(*                           setbuf, overflow, xsputn, sync, close, flush  *)
(*   src/cgi_api.cpp         connection::write, nonblocking_write with the *)
(*                           pending_output_ bookkeeping, async_write and  *)
(*                           its re-arming handler, async_write_response   *)
(*   src/{http,scgi,fastcgi}_api.cpp   format_output                       *)
(*   booster stream_socket::writev     at most MaxIov gather entries       *)
(*                                                                         *)
(* The socket is an adversary: every write_some accepts any non-empty      *)
(* prefix of the (first MaxIov entries of the) gather list, or - on a      *)
(* non-blocking socket - reports would-block.  The application is any      *)
(* program of at most MaxOps operations.  Everything that reaches the peer *)
(* is a sequence of integer tokens:                                        *)
(*    1..90  body byte with that id      0  a byte that lost its content   *)
(*    96/97  gzip trailer / gzip header-or-sync bytes (inflate to nothing) *)
(*    98/99  the two halves of a raw-mode header block written by the app  *)
(*    100, 1000..1999   first / second half of the response header block;  *)
(*                      the second half carries the framing decision       *)
(*    2000+n chunk header of n bytes, 2999 CRLF, 2998 last-chunk marker    *)
(*    3000+10*len+pad  FastCGI STDOUT record header, 3999 padding byte,    *)
(*    3998 empty STDOUT record, 3997 3996 END_REQUEST header and body      *)
(* DeFrame (an independent decoder written against the protocols, not      *)
(* against format_output) maps the tokens the peer holds to the variables  *)
(* of Out.tla; TLC checks Out's invariants and Out!StepOK on every step.   *)
(*                                                                         *)
(* BugShrink / BugEofToggle switch on the two places where the code at the *)
(* pinned commit deviates from this design (async_io_buf::setbuf below the *)
(* buffered content; basic_device::write toggling eof_send_); the main     *)
(* configurations run with both FALSE, the *_asis configurations show that *)
(* TLC finds the counterexamples when they are TRUE.                       *)
(***************************************************************************)
EXTENDS Integers, Sequences, FiniteSets, TLC, OutRuns

CONSTANTS Variants,      \* set of [proto, http11, ka]
          Modes,         \* set of [dev, raw, gzip, cache, full0, decl]
          MaxOps, WriteSizes, BufSizes, InitBuf,
          MaxRec, PadMod, MaxIov, CCap,
          PostFinal,     \* may the program flush / setbuf after finalize()
          BugShrink, BugEofToggle,
          Mut            \* 0, or the number of a seeded fault (self-tests of the invariants, see OutImpl_mut*.cfg)

VARIABLES cfg, nops, appst, nw, rawleft, fin,
          zb, zopen, cb, cc, copen,
          d,             \* device: [bs, buf, final, eofs, full, shr, rawc]
          c,             \* connection + protocol state: [pend, hd, chunked, cl, outw, keep]
          todo, sending, infl, armed,
          wireT, eofT, stored

ivars == <<cfg, nops, appst, nw, rawleft, fin, zb, zopen, cb, cc, copen, d, c, todo, sending, infl, armed, wireT, eofT, stored>>

----------------------------------------------------------------------------
H1 == 100
H2(keep, chunked, cl) == 1000 + (IF keep THEN 500 ELSE 0) + (IF chunked THEN 0 ELSE IF cl = -1 THEN 1 ELSE cl + 2)
IsH2(t) == t >= 1000 /\ t < 2000
H2code(t) == (t - 1000) % 500
CH(n) == 2000 + n
CRLF == 2999
LAST == 2998
REC(len, pad) == 3000 + len * 10 + pad
PADT == 3999
SEND == 3998
ER1 == 3997
ER2 == 3996
R1 == 98
R2 == 99
ZM == 97
ZE == 96

Min(a, b) == IF a < b THEN a ELSE b
Drop(s, n) == SubSeq(s, n + 1, Len(s))
Take(s, n) == SubSeq(s, 1, Min(n, Len(s)))
RECURSIVE Flat(_)
Flat(es) == IF es = <<>> THEN <<>> ELSE es[1] \o Flat(Tail(es))
NonEmpty(es) == SelectSeq(es, LAMBDA e : e # <<>>)
Zeros(n) == [i \in 1..n |-> 0]
Ids(from, n) == [i \in 1..n |-> from + i]
(* drop n tokens from the front of a gather list *)
RECURSIVE Advance(_, _)
Advance(es, n) == IF n = 0 \/ es = <<>> THEN es
                  ELSE IF Len(es[1]) <= n THEN Advance(Tail(es), n - Len(es[1]))
                  ELSE << Drop(es[1], n) >> \o Tail(es)

----------------------------------------------------------------------------
(* format_output *)
Chunked(in, completed) ==
    LET n == Len(Flat(in)) IN
    LET last == IF Mut = 3 THEN <<LAST, LAST>> ELSE IF Mut = 6 THEN <<>> ELSE <<LAST>> IN
    IF n = 0 THEN (IF completed THEN NonEmpty(<< last >>) ELSE <<>>)
    ELSE << <<CH(n)>> >> \o in \o << (IF completed THEN <<CRLF>> \o last ELSE <<CRLF>>) >>

RECURSIVE Records(_)
Records(f) ==       \* f: flat content of the STDOUT stream to be sent now
    IF f = <<>> THEN <<>>
    ELSE IF Len(f) > MaxRec
         THEN << <<REC(MaxRec, 1)>>, Take(f, MaxRec), <<PADT>> >> \o Records(Drop(f, MaxRec))
         ELSE LET pad == (PadMod - (Len(f) % PadMod)) % PadMod
                  hpad == IF Mut = 4 /\ pad = 0 THEN PadMod ELSE pad        \* seeded: header announces padding that is not sent
              IN NonEmpty(<< <<REC(Len(f), hpad)>>, f, [i \in 1..pad |-> PADT] >>)

(* returns [c |-> new protocol state, out |-> gather list] *)
FmtOut(cn, in, completed) ==
    CASE cfg.proto = "scgi" ->
           IF cn.hd THEN [c |-> cn, out |-> in]
           ELSE [c |-> [cn EXCEPT !.hd = TRUE], out |-> << <<H1, H2(FALSE, FALSE, -1)>> >> \o in]
      [] cfg.proto = "fcgi" ->
           LET content == (IF cn.hd THEN <<>> ELSE <<H1, H2(FALSE, FALSE, -1)>>) \o Flat(in)
           IN [c |-> [cn EXCEPT !.hd = TRUE],
               out |-> Records(content) \o (IF completed THEN << <<SEND, ER1, ER2>> >> ELSE <<>>)]
      [] OTHER ->   \* http
           IF cn.hd
           THEN IF cn.chunked THEN [c |-> cn, out |-> Chunked(in, completed)]
                ELSE [c |-> [cn EXCEPT !.outw = @ + Len(Flat(in))], out |-> in]
           ELSE LET cl == IF cn.cl = -1 /\ (completed \/ Mut = 5) THEN Len(Flat(in)) ELSE cn.cl
                    keep == cfg.ka /\ (cl # -1 \/ cfg.http11)
                    chk == keep /\ cl = -1
                    hdr == << <<H1, H2(keep, chk, cl)>> >>
                IN [c |-> [cn EXCEPT !.hd = TRUE, !.cl = cl, !.keep = keep, !.chunked = chk,
                                     !.outw = IF chk THEN 0 ELSE Len(Flat(in))],
                    out |-> hdr \o (IF chk THEN Chunked(in, completed) ELSE in)]

(* connection::nonblocking_write: n = -1 would-block, else the number of tokens the socket took *)
NBOutput(cn, in, eof) == (IF cn.pend = <<>> THEN <<>> ELSE <<cn.pend>>) \o FmtOut(cn, in, eof).out
Offered(es) == Flat(SubSeq(es, 1, Min(MaxIov, Len(es))))
NBChoices(cn, in, eof) == LET o == NBOutput(cn, in, eof) IN IF o = <<>> THEN {-1} ELSE {-1} \cup (1..Len(Offered(o)))
NBWrite(cn, in, eof, n) ==
    LET f == FmtOut(cn, in, eof)
        output == (IF cn.pend = <<>> THEN <<>> ELSE <<cn.pend>>) \o f.out
        all == Flat(output)
    IN IF output = <<>> THEN [c |-> f.c, acc |-> <<>>]
       ELSE IF n = -1 THEN [c |-> [f.c EXCEPT !.pend = cn.pend \o Flat(f.out)], acc |-> <<>>]    \* append_pending(new_data)
       ELSE IF n = Len(all) THEN [c |-> [f.c EXCEPT !.pend = <<>>], acc |-> all]
       ELSE IF Mut = 1 THEN [c |-> [f.c EXCEPT !.pend = cn.pend \o Flat(f.out)], acc |-> Take(all, n)]
       ELSE IF Mut = 2 THEN [c |-> [f.c EXCEPT !.pend = Drop(Flat(f.out), IF n > Len(cn.pend) THEN n - Len(cn.pend) ELSE 0)], acc |-> Take(all, n)]
       ELSE [c |-> [f.c EXCEPT !.pend = Drop(all, n)], acc |-> Take(all, n)]                      \* swap; append_pending(output + n)

----------------------------------------------------------------------------
(* basic_device::write: the end-of-response flag, raw-mode header stripping, then the connection. *)
(* Returns [d, c, acc, snd, none]: acc = tokens accepted by the socket now (asynchronous device),  *)
(* snd = gather list a blocking write loop has to push (synchronous device).                       *)
LeadRaw(f) == IF f # <<>> /\ f[1] \in {R1, R2} THEN (IF Len(f) > 1 /\ f[2] \in {R1, R2} THEN 2 ELSE 1) ELSE 0

DevOut(dv, out) ==     \* [d, real, eof, go]
    LET sendEof == dv.final /\ ~dv.eofs
        d1 == [dv EXCEPT !.eofs = IF BugEofToggle THEN sendEof ELSE (dv.eofs \/ sendEof)]
        flat == Flat(out)
        lead == IF cfg.raw /\ d1.rawc < 2 THEN LeadRaw(flat) ELSE 0
        d2 == [d1 EXCEPT !.rawc = @ + lead]
        real == IF cfg.raw /\ d1.rawc < 2 THEN NonEmpty(<<Drop(flat, lead)>>) ELSE NonEmpty(out)
        go == ~cfg.raw \/ d2.rawc = 2 \/ sendEof
    IN [d |-> d2, real |-> real, eof |-> sendEof, go |-> go]

DevChoices(dv, cn, out) ==
    LET o == DevOut(dv, out) IN
    IF ~o.go \/ cfg.dev = "sync" THEN {-1} ELSE NBChoices(cn, o.real, o.eof)

DevWrite(dv, cn, out, n) ==
    LET o == DevOut(dv, out) IN
    IF ~o.go THEN [d |-> o.d, c |-> cn, acc |-> <<>>, snd |-> <<>>]
    ELSE IF cfg.dev = "sync"
         THEN LET f == FmtOut(cn, o.real, o.eof) IN [d |-> o.d, c |-> f.c, acc |-> <<>>, snd |-> NonEmpty(f.out)]
         ELSE LET r == NBWrite(cn, o.real, o.eof, n) IN [d |-> o.d, c |-> r.c, acc |-> r.acc, snd |-> <<>>]

----------------------------------------------------------------------------
(* The independent decoder *)
RECURSIVE DC(_)
DC(r) ==
    IF r = <<>> THEN [body |-> <<>>, terms |-> 0, bad |-> FALSE]
    ELSE IF r[1] = LAST
         THEN LET x == DC(Tail(r)) IN [body |-> x.body, terms |-> 1 + x.terms, bad |-> Len(r) > 1]
    ELSE IF r[1] > 2000 /\ r[1] < 2900
         THEN LET k == r[1] - 2000 IN
              IF Len(r) - 1 <= k THEN [body |-> Tail(r), terms |-> 0, bad |-> FALSE]
              ELSE IF r[k + 2] # CRLF THEN [body |-> SubSeq(r, 2, k + 1), terms |-> 0, bad |-> TRUE]
              ELSE LET x == DC(Drop(r, k + 2))
                   IN [body |-> SubSeq(r, 2, k + 1) \o x.body, terms |-> x.terms, bad |-> x.bad]
    ELSE [body |-> <<>>, terms |-> 0, bad |-> TRUE]

Entity(toks, eofSeen) ==
    LET n == Len(toks) IN
    IF n = 0 THEN [hc |-> 0, body |-> <<>>, terms |-> 0, bad |-> FALSE]
    ELSE IF toks[1] # H1 THEN [hc |-> 0, body |-> <<>>, terms |-> 0, bad |-> TRUE]
    ELSE IF n = 1 THEN [hc |-> 0, body |-> <<>>, terms |-> 0, bad |-> FALSE]
    ELSE IF ~IsH2(toks[2]) THEN [hc |-> 0, body |-> <<>>, terms |-> 0, bad |-> TRUE]
    ELSE LET code == H2code(toks[2])
             rest == Drop(toks, 2)
         IN IF code = 1 THEN [hc |-> 1, body |-> rest, terms |-> IF eofSeen THEN 1 ELSE 0, bad |-> FALSE]
            ELSE IF code = 0 THEN LET x == DC(rest) IN [hc |-> 1, body |-> x.body, terms |-> x.terms, bad |-> x.bad]
            ELSE LET cl == code - 2
                 IN [hc |-> 1, body |-> Take(rest, cl), terms |-> IF Len(rest) >= cl THEN 1 ELSE 0, bad |-> Len(rest) > cl]

(* FastCGI record layer, left to right: a = [content, ends, ereq, bad, unal] *)
RECURSIVE UW(_, _)
UW(r, a) ==
    IF r = <<>> \/ a.bad THEN a
    ELSE IF a.ereq > 0 THEN [a EXCEPT !.bad = TRUE]                                  \* anything after END_REQUEST
    ELSE IF r[1] = SEND THEN UW(Tail(r), [a EXCEPT !.ends = @ + 1])
    ELSE IF r[1] = ER1
         THEN IF Len(r) = 1 THEN a
              ELSE IF r[2] # ER2 THEN [a EXCEPT !.bad = TRUE]
              ELSE UW(Drop(r, 2), [a EXCEPT !.ereq = @ + 1, !.bad = (a.ends # 1)])
    ELSE IF r[1] >= 3000 /\ r[1] < 3990
         THEN LET len == (r[1] - 3000) \div 10
                  pad == (r[1] - 3000) % 10
                  a1 == [a EXCEPT !.unal = @ \/ ((len + pad) % PadMod # 0), !.bad = (a.ends > 0 \/ len = 0)]
                  avail == Len(r) - 1
              IN IF avail <= len THEN [a1 EXCEPT !.content = @ \o Tail(r)]
                 ELSE LET a2 == [a1 EXCEPT !.content = @ \o SubSeq(r, 2, len + 1)]
                          padsHere == Take(Drop(r, len + 1), pad)
                      IN IF \E i \in DOMAIN padsHere : padsHere[i] # PADT THEN [a2 EXCEPT !.bad = TRUE]
                         ELSE UW(Drop(r, len + 1 + Len(padsHere)), a2)
    ELSE [a EXCEPT !.bad = TRUE]

Inflate(body) == SelectSeq(body, LAMBDA t : t # ZM /\ t # ZE)
GzCount(body) == Cardinality({ i \in DOMAIN body : body[i] = ZE })

DeFrame ==
    LET e == IF cfg.proto = "fcgi"
             THEN LET u == UW(wireT, [content |-> <<>>, ends |-> 0, ereq |-> 0, bad |-> FALSE, unal |-> FALSE])
                      x == Entity(u.content, FALSE)
                  IN [hc |-> x.hc, body |-> x.body, terms |-> u.ereq, bad |-> x.bad \/ u.bad, unal |-> u.unal]
             ELSE LET x == Entity(wireT, eofT) IN [hc |-> x.hc, body |-> x.body, terms |-> x.terms, bad |-> x.bad, unal |-> FALSE]
        gzbad == cfg.gzip /\ (GzCount(e.body) > 1 \/ (e.terms >= 1 /\ (e.body = <<>> \/ e.body[Len(e.body)] # ZE))
                              \/ (\E i \in DOMAIN e.body : e.body[i] = ZE /\ i # Len(e.body)))
    IN [hc |-> e.hc, raw |-> e.body, body |-> IF cfg.gzip THEN Inflate(e.body) ELSE e.body,
        terms |-> e.terms, bad |-> e.bad \/ gzbad, unal |-> e.unal]

ToId(t) == IF t >= 1 /\ t <= 90 THEN t - 1 ELSE -1
IdSeq(s) == [i \in DOMAIN s |-> ToId(s[i])]

----------------------------------------------------------------------------
VariantsAll == { [proto |-> "scgi", http11 |-> FALSE, ka |-> FALSE],
                 [proto |-> "fcgi", http11 |-> FALSE, ka |-> FALSE], [proto |-> "fcgi", http11 |-> FALSE, ka |-> TRUE],
                 [proto |-> "http", http11 |-> FALSE, ka |-> FALSE], [proto |-> "http", http11 |-> FALSE, ka |-> TRUE],
                 [proto |-> "http", http11 |-> TRUE, ka |-> FALSE], [proto |-> "http", http11 |-> TRUE, ka |-> TRUE] }
VarScgi == { v \in VariantsAll : v.proto = "scgi" }
VarFcgi == { v \in VariantsAll : v.proto = "fcgi" }
VarHttp == { v \in VariantsAll : v.proto = "http" }
VarHttpKA == { v \in VariantsAll : v.proto = "http" /\ v.ka }
VarQuick == { v \in VariantsAll : v.ka = (v.proto # "scgi") /\ (v.proto = "http" => v.http11) }

Mode(dev, raw, gzip, cache, full0, decl) == [dev |-> dev, raw |-> raw, gzip |-> gzip, cache |-> cache, full0 |-> full0, decl |-> decl]
ModesSync  == { Mode("sync", FALSE, FALSE, FALSE, TRUE, -1) }
ModeSpace == [dev : {"sync", "async"}, raw : BOOLEAN, gzip : BOOLEAN, cache : BOOLEAN, full0 : BOOLEAN, decl : {-1, 2}]
LegalMode(m) == /\ (m.raw => (~m.gzip /\ ~m.cache /\ m.decl = -1))      \* raw: the application writes its own header block
                /\ (m.gzip => (m.dev = "sync" /\ m.decl = -1))          \* gzip only in io_mode normal
                /\ (m.dev = "sync" => m.full0)
ModesSyncX  == { m \in ModeSpace : m.dev = "sync" /\ LegalMode(m) }
ModesAsync  == { Mode("async", FALSE, FALSE, FALSE, f, -1) : f \in BOOLEAN }
ModesAsyncX == { m \in ModeSpace : m.dev = "async" /\ LegalMode(m) }
ModesAll    == { m \in ModeSpace : LegalMode(m) }

Init ==
    /\ cfg \in { v @@ m : v \in Variants, m \in Modes }
    /\ nops = 0 /\ appst = "run" /\ nw = 0 /\ rawleft = (IF cfg.raw THEN 2 ELSE 0) /\ fin = FALSE
    /\ zb = <<>> /\ zopen = cfg.gzip /\ cb = <<>> /\ cc = <<>> /\ copen = cfg.cache
    /\ d = [bs |-> InitBuf, buf |-> <<>>, final |-> FALSE, eofs |-> FALSE, full |-> (cfg.dev = "async" /\ cfg.full0), shr |-> -1, rawc |-> 0]
    /\ c = [pend |-> <<>>, hd |-> FALSE, chunked |-> FALSE, cl |-> cfg.decl, outw |-> 0, keep |-> FALSE]
    /\ todo = <<>> /\ sending = <<>> /\ infl = <<>> /\ armed = "none"
    /\ wireT = <<>> /\ eofT = FALSE /\ stored = FALSE

----------------------------------------------------------------------------
(* micro operations of the stream-buffer chain *)
M(k, v) == [k |-> k, v |-> v]
PutTo(stage, data) == M(stage \o "put", data)
First == IF cfg.gzip THEN "z" ELSE IF cfg.cache THEN "c" ELSE "d"
BelowZ == IF cfg.cache THEN "c" ELSE "d"
CloseChain == (IF cfg.gzip THEN <<M("zclose", <<>>)>> ELSE <<>>) \o (IF cfg.cache THEN <<M("cclose", <<>>)>> ELSE <<>>) \o <<M("dclose", <<>>)>>

Rest == Tail(todo)
Keep == IF cfg.proto = "http" THEN c.keep ELSE IF cfg.proto = "fcgi" THEN cfg.ka ELSE FALSE

AppUnch == UNCHANGED <<cfg, nops, nw, rawleft, fin>>
ZUnch == UNCHANGED <<zb, zopen>>
CUnch == UNCHANGED <<cb, cc, copen>>
AsyncUnch == UNCHANGED <<infl, armed>>
PeerUnch == UNCHANGED <<wireT, eofT>>

(* a device micro-operation that ends in basic_device::write(out) with the device record already updated to dv *)
WriteVia(dv, out) ==
    \E n \in DevChoices(dv, c, out) :
        LET r == DevWrite(dv, c, out, n) IN
        /\ d' = r.d /\ c' = r.c
        /\ wireT' = wireT \o r.acc
        /\ sending' = r.snd
        /\ todo' = Rest
        /\ UNCHANGED <<eofT, appst, stored>> /\ AppUnch /\ ZUnch /\ CUnch /\ AsyncUnch

NoWrite(dv) ==
    /\ d' = dv /\ todo' = Rest
    /\ UNCHANGED <<c, sending, appst, stored>> /\ AppUnch /\ ZUnch /\ CUnch /\ AsyncUnch /\ PeerUnch

Complete(kind) ==       \* the completion handler of async_write_response / the end of a synchronous response
    IF kind = "resume" THEN appst' = "run" /\ UNCHANGED eofT
    ELSE appst' = "closed" /\ eofT' = ~Keep

Micro ==
    /\ todo # <<>> /\ sending = <<>>
    /\ LET m == todo[1] IN
       CASE m.k = "zput" ->
              /\ AppUnch /\ CUnch /\ AsyncUnch /\ PeerUnch /\ UNCHANGED <<d, c, sending, appst, stored, zopen>>
              /\ IF ~zopen THEN todo' = Rest /\ zb' = zb
                 ELSE \/ (zb' = zb \o m.v /\ todo' = Rest)
                      \/ (zb \o m.v # <<>> /\ zb' = <<>> /\ todo' = <<PutTo(BelowZ, zb \o m.v)>> \o Rest)
         [] m.k = "zsync" ->
              /\ AppUnch /\ CUnch /\ AsyncUnch /\ PeerUnch /\ UNCHANGED <<d, c, sending, appst, stored, zopen>>
              /\ IF ~zopen THEN todo' = Rest /\ zb' = zb
                 ELSE zb' = <<>> /\ todo' = <<PutTo(BelowZ, zb \o <<ZM>>), M(BelowZ \o "sync", <<>>)>> \o Rest
         [] m.k = "zclose" ->
              /\ AppUnch /\ CUnch /\ AsyncUnch /\ PeerUnch /\ UNCHANGED <<d, c, sending, appst, stored>>
              /\ IF ~zopen THEN todo' = Rest /\ zb' = zb /\ zopen' = zopen
                 ELSE zb' = <<>> /\ zopen' = FALSE /\ todo' = <<PutTo(BelowZ, zb \o <<ZE>>)>> \o Rest
         [] m.k = "cput" ->
              /\ AppUnch /\ ZUnch /\ AsyncUnch /\ PeerUnch /\ UNCHANGED <<d, c, sending, appst, stored, copen>>
              /\ cc' = cc \o m.v
              /\ IF copen /\ Len(cb \o m.v) > CCap
                 THEN cb' = <<>> /\ todo' = <<PutTo("d", cb \o m.v)>> \o Rest
                 ELSE cb' = cb \o m.v /\ todo' = Rest
         [] m.k = "csync" ->
              /\ AppUnch /\ ZUnch /\ AsyncUnch /\ PeerUnch /\ UNCHANGED <<d, c, sending, appst, stored, copen, cc>>
              /\ cb' = <<>>
              /\ todo' = (IF copen /\ cb # <<>> THEN <<PutTo("d", cb)>> ELSE <<>>) \o (IF copen THEN <<M("dsync", <<>>)>> ELSE <<>>) \o Rest
         [] m.k = "cclose" ->
              /\ AppUnch /\ ZUnch /\ AsyncUnch /\ PeerUnch /\ UNCHANGED <<d, c, sending, appst, stored, cc>>
              /\ cb' = <<>> /\ copen' = FALSE
              /\ todo' = (IF copen /\ cb # <<>> THEN <<PutTo("d", cb)>> ELSE <<>>) \o Rest
         [] m.k = "dput" ->        \* xsputn
              IF d.full
              THEN IF d.shr >= 0
                   THEN NoWrite([d EXCEPT !.buf = Take(d.buf, d.shr) \o Zeros(Len(d.buf) - d.shr) \o m.v, !.shr = -1])
                   ELSE NoWrite([d EXCEPT !.buf = @ \o m.v])
              ELSE IF d.bs - Len(d.buf) >= Len(m.v) THEN NoWrite([d EXCEPT !.buf = @ \o m.v])
              ELSE WriteVia([d EXCEPT !.buf = <<>>], NonEmpty(<<d.buf, m.v>>))
         [] m.k = "dputc" ->       \* sputc -> overflow(c)
              IF d.full \/ Len(d.buf) < d.bs THEN NoWrite([d EXCEPT !.buf = @ \o m.v])
              ELSE WriteVia([d EXCEPT !.buf = <<>>], NonEmpty(<<d.buf, m.v>>))
         [] m.k = "dsync" ->       \* overflow(EOF)
              IF d.full THEN NoWrite(d)
              ELSE WriteVia([d EXCEPT !.buf = <<>>], NonEmpty(<<d.buf>>))
         [] m.k = "dsetbuf" ->
              LET k == m.v[1] IN
              IF d.full
              THEN IF BugShrink /\ Len(d.buf) > k
                   THEN (IF k = 0 THEN NoWrite([d EXCEPT !.bs = k, !.buf = Zeros(Len(d.buf))])
                         ELSE NoWrite([d EXCEPT !.bs = k, !.shr = k]))
                   ELSE NoWrite([d EXCEPT !.bs = k])
              ELSE IF Len(d.buf) > k THEN WriteVia([d EXCEPT !.bs = k, !.buf = <<>>], NonEmpty(<<d.buf>>))
              ELSE NoWrite([d EXCEPT !.bs = k])
         [] m.k = "dfull" ->       \* full_asynchronous_buffering(b)
              LET b == (m.v[1] = 1) IN
              IF d.full = b THEN NoWrite(d)
              ELSE IF b THEN NoWrite([d EXCEPT !.full = TRUE])
              ELSE IF Len(d.buf) > d.bs THEN WriteVia([d EXCEPT !.full = FALSE, !.shr = -1, !.buf = <<>>], NonEmpty(<<d.buf>>))
              ELSE NoWrite([d EXCEPT !.full = FALSE, !.shr = -1])
         [] m.k = "dclose" ->
              IF d.eofs THEN NoWrite(d)
              ELSE WriteVia([d EXCEPT !.final = TRUE, !.buf = <<>>], NonEmpty(<<d.buf>>))
         [] m.k = "dflusha" ->     \* response::flush_async_chunk
              WriteVia([d EXCEPT !.buf = <<>>], NonEmpty(<<d.buf>>))
         [] m.k = "acheck" ->      \* async_write_response after the flush: done, or async_write(empty)
              /\ AppUnch /\ ZUnch /\ CUnch /\ UNCHANGED <<d, sending, stored>>
              /\ todo' = Rest
              /\ IF c.pend = <<>>
                 THEN Complete(m.v[1]) /\ UNCHANGED <<c, wireT, infl, armed>>
                 ELSE \E n \in NBChoices(c, <<>>, FALSE) :
                        LET r == NBWrite(c, <<>>, FALSE, n) IN
                        /\ wireT' = wireT \o r.acc
                        /\ IF r.c.pend = <<>>
                           THEN c' = r.c /\ Complete(m.v[1]) /\ UNCHANGED <<infl, armed>>
                           ELSE /\ c' = [r.c EXCEPT !.pend = <<>>] /\ infl' = r.c.pend /\ armed' = m.v[1]
                                /\ UNCHANGED <<appst, eofT>>
         [] m.k = "store" ->
              /\ stored' = TRUE /\ todo' = Rest
              /\ AppUnch /\ ZUnch /\ CUnch /\ AsyncUnch /\ PeerUnch /\ UNCHANGED <<d, c, sending, appst>>
         [] m.k = "done" ->        \* synchronous completion: complete_response returns, the connection is dropped unless reusable
              /\ Complete("complete") /\ todo' = Rest
              /\ AppUnch /\ ZUnch /\ CUnch /\ AsyncUnch /\ UNCHANGED <<d, c, sending, stored, wireT>>

(* blocking write loop of connection::write / http::write_to_socket *)
SockSync ==
    /\ sending # <<>>
    /\ \E n \in 1..Len(Offered(sending)) :
         /\ wireT' = wireT \o Take(Flat(sending), n)
         /\ sending' = Advance(sending, n)
    /\ UNCHANGED <<cfg, nops, appst, nw, rawleft, fin, zb, zopen, cb, cc, copen, d, c, todo, infl, armed, eofT, stored>>

(* async_write_handler on a writeable socket *)
SockAsync ==
    /\ armed # "none" /\ todo = <<>>
    /\ \/ UNCHANGED ivars                                   \* would-block: re-armed
       \/ \E n \in 1..Len(infl) :
            /\ wireT' = wireT \o Take(infl, n)
            /\ infl' = Drop(infl, n)
            /\ IF n = Len(infl) THEN armed' = "none" /\ Complete(armed) ELSE UNCHANGED <<armed, appst, eofT>>
            /\ UNCHANGED <<cfg, nops, nw, rawleft, fin, zb, zopen, cb, cc, copen, d, c, todo, sending, stored>>

----------------------------------------------------------------------------
(* the application *)
CanOp == appst = "run" /\ todo = <<>> /\ sending = <<>> /\ nops < MaxOps
OpUnch == UNCHANGED <<cfg, zb, zopen, cb, cc, copen, d, c, sending, infl, armed, wireT, eofT, stored>>

StreamData(n) ==      \* the next n elements of the application's stream: raw header halves first, then body ids
    LET r == Min(n, rawleft)
    IN (IF r = 0 THEN <<>> ELSE IF rawleft = 2 THEN Take(<<R1, R2>>, r) ELSE <<R2>>) \o Ids(nw, n - r)

OpWrite(n, putc) ==
    /\ CanOp /\ ~fin
    /\ LET r == Min(n, rawleft) IN
       /\ (cfg.decl >= 0 => nw + (n - r) <= cfg.decl)
       /\ nw + (n - r) <= 12
       /\ nw' = nw + (n - r) /\ rawleft' = rawleft - r
    /\ todo' = << M(First \o (IF putc /\ First = "d" THEN "putc" ELSE "put"), StreamData(n)) >>
    /\ nops' = nops + 1
    /\ UNCHANGED <<appst, fin>> /\ OpUnch

OpFlush ==
    /\ CanOp /\ (fin => PostFinal)
    /\ todo' = << M(First \o "sync", <<>>) >>
    /\ nops' = nops + 1 /\ UNCHANGED <<appst, fin, nw, rawleft>> /\ OpUnch

OpSetBuf(k) ==
    /\ CanOp /\ (fin => PostFinal)
    /\ todo' = << M("dsetbuf", <<k>>) >>
    /\ nops' = nops + 1 /\ UNCHANGED <<appst, fin, nw, rawleft>> /\ OpUnch

OpFullBuf(b) ==
    /\ CanOp /\ ~fin /\ cfg.dev = "async"
    /\ todo' = << M("dfull", <<IF b THEN 1 ELSE 0>>) >>
    /\ nops' = nops + 1 /\ UNCHANGED <<appst, fin, nw, rawleft>> /\ OpUnch

OpFinalize ==
    /\ CanOp /\ ~fin /\ rawleft = 0 /\ (cfg.decl >= 0 => nw = cfg.decl)
    /\ fin' = TRUE /\ todo' = CloseChain
    /\ nops' = nops + 1 /\ UNCHANGED <<appst, nw, rawleft>> /\ OpUnch

OpAFlush ==
    /\ CanOp /\ cfg.dev = "async" /\ (fin => PostFinal)
    /\ appst' = "aflush"
    /\ todo' = << M("dflusha", <<>>), M("acheck", <<"resume">>) >>
    /\ nops' = nops + 1 /\ UNCHANGED <<fin, nw, rawleft>> /\ OpUnch

(* the program ends: [store_page] + complete_response / async_complete_response *)
OpEnd ==
    /\ appst = "run" /\ todo = <<>> /\ sending = <<>>
    /\ rawleft = 0 /\ (cfg.decl >= 0 => nw = cfg.decl)
    /\ appst' = "done" /\ fin' = TRUE
    /\ todo' = (IF fin THEN <<>> ELSE CloseChain) \o (IF cfg.cache THEN <<M("store", <<>>)>> ELSE <<>>)
               \o (IF cfg.dev = "async" THEN << M("dflusha", <<>>), M("acheck", <<"complete">>) >> ELSE << M("done", <<>>) >>)
    /\ UNCHANGED <<nops, nw, rawleft>> /\ OpUnch

Next ==
    \/ Micro
    \/ SockSync
    \/ SockAsync
    \/ \E n \in WriteSizes : OpWrite(n, FALSE)
    \/ OpWrite(1, TRUE)
    \/ OpFlush
    \/ \E k \in BufSizes : OpSetBuf(k)
    \/ \E b \in BOOLEAN : OpFullBuf(b)
    \/ OpFinalize
    \/ OpAFlush
    \/ OpEnd

Spec == Init /\ [][Next]_ivars

----------------------------------------------------------------------------
(* refinement mapping to the property layer *)
DF == DeFrame
MHdr == [count |-> DF.hc, fields |-> <<>>]
MWire == RunsOf(IdSeq(DF.body))
MFrame == [closed |-> DF.terms >= 1, terms |-> DF.terms]
O == INSTANCE Out WITH
        MaxBytes <- 12, Settable <- {},
        written <- nw, set <- <<>>, started <- (nops > 0 \/ appst # "run" \/ todo # <<>>),
        finalized <- fin,
        hdr <- MHdr, wire <- MWire, frame <- MFrame,
        drained <- (appst = "closed"),
        copied <- IF stored THEN [has |-> TRUE, runs |-> RunsOf(IdSeq(IF cfg.gzip THEN Inflate(cc) ELSE cc)),
                                  same |-> (appst = "closed" => cc = DF.raw)]
                  ELSE [has |-> FALSE, runs |-> <<>>, same |-> FALSE]

PrefixInv  == O!PrefixInv
OneHeader  == O!OneHeader
NoEarlyEnd == O!NoEarlyEnd
CompleteInv == O!Complete
CacheCopy  == O!CacheCopy
WellFramed == ~DF.bad
Aligned    == ~DF.unal
(* nothing is left behind once the server regards the response as complete *)
NothingLeft == appst = "closed" => (c.pend = <<>> /\ infl = <<>> /\ d.buf = <<>> /\ sending = <<>> /\ zb = <<>> /\ todo = <<>>)
(* the end-of-response marker is produced exactly once *)
(* once the framing has told the peer that the response is over the application cannot add to it *)
ClosedIsFinal == MFrame.closed => (fin \/ (cfg.decl >= 0 /\ nw = cfg.decl))
(* Step refinement of the property layer.  Not part of any .cfg: TLC's evaluation of the primed mapped   *)
(* expressions (DeFrame') as an implied action is impractically slow (measured: < 1 state/s).  The wire *)
(* is append-only by construction (every action sets wireT' = wireT \o ...), so the state invariants    *)
(* above already imply the monotonicity clauses of Out!StepOK.                                          *)
Refines == [][O!StepOK]_ivars
=============================================================================
