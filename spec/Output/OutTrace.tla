------------------------------ MODULE OutTrace ------------------------------
(* Leg B for C03: a trace recorded by harness/output/out_drv.cpp from the real  *)
(* front-ends is accepted iff it is a behaviour of Out.tla.                     *)
(*   App   - what the application did (logged before the bytes enter the stream)*)
(*   Sock  - what the interposed writev() offered / let through (environment)   *)
(*   Hdr   - the header block as parsed by the independent client-side decoder  *)
(*   Wire  - the de-framed (and inflated) body received so far, as runs of ids  *)
(*   Frame - how the response ended according to its framing (end of execution) *)
(*   Cache - the page copy found in the cache afterwards                        *)
EXTENDS Out, TraceBase

VARIABLES l, cfg
tvars == <<vars, l, cfg>>

Ev == TraceLog[l]
Is(name) == l <= NLines /\ Ev.e = name /\ l' = l + 1

Stutter == UNCHANGED <<vars, cfg>>

TReset ==
    /\ Is("Reset")
    /\ cfg' = [proto |-> Ev.proto, gz |-> Ev.gz, mode |-> Ev.mode, cache |-> Ev.cache]
    /\ written' = 0 /\ set' = <<>> /\ started' = FALSE /\ finalized' = FALSE
    /\ hdr' = NoHdr /\ wire' = <<>> /\ frame' = NoFrame /\ drained' = FALSE /\ copied' = NoCopy

TApp ==
    /\ Is("App") /\ UNCHANGED cfg
    /\ CASE Ev.op = "Header" -> SetHeader(<<Ev.name, Ev.value>>)
         [] Ev.op \in {"Write", "Put"} -> (Ev.off = written /\ Ev.n >= 0 /\ Write(Ev.n))
         [] Ev.op \in {"Finalize", "Done", "StorePage"} -> Finalize
         [] Ev.op \in {"FullBufOn", "FullBufOff", "CacheMiss"} -> UNCHANGED vars
         [] OTHER -> Other

TSock ==
    /\ Is("Sock") /\ Stutter
    /\ (Has(Ev, "accepted") => (Ev.accepted >= 0 /\ Ev.accepted <= Ev.offered))

THdr ==
    /\ Is("Hdr") /\ UNCHANGED cfg
    /\ Ev.count = 1 /\ Ev.lead = 0
    /\ Deliver([count |-> 1, fields |-> Ev.fields], wire, frame)

TWire ==
    /\ Is("Wire") /\ UNCHANGED cfg
    /\ Deliver(hdr, Ev.runs, frame)

TEof   == Is("Eof") /\ Stutter
TStall == Is("Stall") /\ Stutter
THang  == Is("Hang") /\ Stutter     \* judged by the check script: never a behaviour question

(* the end of the response as the peer's decoder saw it *)
FramingOK ==
    /\ Ev.closed /\ Ev.bad = "" /\ Ev.trail = 0 /\ Ev.lead = 0 /\ Ev.term = 1
    /\ Ev.kind \in {"cl", "chunked", "eof", "fcgi"}
    /\ (Ev.kind = "fcgi" <=> cfg.proto = "fcgi")
    /\ (Ev.kind = "fcgi" => (Ev.endreq = 1 /\ Ev.stdoutend = 1 /\ Ev.padok))
    /\ (Ev.kind = "chunked" => cfg.proto = "http11")
    /\ (cfg.proto = "scgi" => Ev.kind = "eof")
    /\ (Ev.keep => Ev.kind # "eof")
    /\ (~Ev.keep => Ev.eof)
    /\ (Ev.gzip => (cfg.gz /\ cfg.mode = "normal"))
    /\ Ev.gzend

TFrame ==
    /\ Is("Frame") /\ UNCHANGED cfg
    /\ FramingOK
    /\ DeliverOK(hdr, wire, [closed |-> TRUE, terms |-> 1])
    /\ frame' = [closed |-> TRUE, terms |-> 1]
    /\ drained' = TRUE
    /\ UNCHANGED <<written, set, started, finalized, hdr, wire, copied>>

TCache ==
    /\ Is("Cache") /\ UNCHANGED cfg
    /\ Ev.present /\ Ev.gzend
    /\ Store([has |-> TRUE, runs |-> Ev.runs, same |-> Ev.same])

TraceInit == Init /\ l = 1 /\ cfg = [proto |-> "none", gz |-> FALSE, mode |-> "none", cache |-> FALSE]
TraceNext == TReset \/ TApp \/ TSock \/ THdr \/ TWire \/ TEof \/ TStall \/ THang \/ TFrame \/ TCache
TraceSpec == TraceInit /\ [][TraceNext]_tvars
=============================================================================
