------------------------------ MODULE OutTrace ------------------------------
(* Leg B for C03: a trace recorded by harness/output/out_drv.cpp from the real  *)
(* front-ends is accepted iff it is a behaviour of Out.tla.                     *)
(*   App   - what the application did (logged before the bytes enter the stream)*)
(*   Sock  - what the interposed writev() offered / let through (environment)   *)
(*   Hdr   - the header block as parsed by the independent client-side decoder  *)
(*   Wire  - the de-framed (and inflated) body received so far, as runs of ids  *)
(*   Frame - how the response ended according to its framing (end of execution) *)
(*   Cache - the page copy found in the cache afterwards                        *)
(* An event that is not a step of Out does not stop the validation: TLC prints  *)
(*   <<"FLAG", event kind, line>>                                               *)
(* marks the execution as broken (its remaining events are skipped up to the    *)
(* next Reset) and goes on, so one run judges every execution of the file.  The *)
(* check script turns every flag into a rejected execution.                     *)
EXTENDS Out, TraceBase

VARIABLES l, cfg, broken
tvars == <<vars, l, cfg, broken>>

Ev == TraceLog[l]
Is(name) == l <= NLines /\ Ev.e = name /\ l' = l + 1

Stutter == UNCHANGED <<vars, cfg, broken>>
Break(kind) == /\ PrintT(<<"FLAG", kind, l>>)
               /\ broken' = TRUE /\ UNCHANGED <<vars, cfg>>
(* a step that must satisfy guard g and then performs act *)
Judge(kind, g, act) == IF broken THEN Stutter
                       ELSE IF g THEN act /\ UNCHANGED <<cfg, broken>>
                       ELSE Break(kind)

TReset ==
    /\ Is("Reset")
    /\ cfg' = [proto |-> Ev.proto, gz |-> Ev.gz, mode |-> Ev.mode, cache |-> Ev.cache]
    /\ broken' = FALSE
    /\ written' = 0 /\ set' = <<>> /\ started' = FALSE /\ finalized' = FALSE
    /\ hdr' = NoHdr /\ wire' = <<>> /\ frame' = NoFrame /\ drained' = FALSE /\ copied' = NoCopy

TApp ==
    /\ Is("App")
    /\ CASE Ev.op = "Header" -> Judge("App", SetHeaderOK(<<Ev.name, Ev.value>>), SetHeader(<<Ev.name, Ev.value>>))
         [] Ev.op \in {"Write", "Put"} -> Judge("App", Ev.off = written /\ Ev.n >= 0 /\ WriteOK(Ev.n), Write(Ev.n))
         [] Ev.op \in {"Finalize", "Done", "StorePage"} -> Judge("App", TRUE, Finalize)
         [] Ev.op \in {"FullBufOn", "FullBufOff", "CacheMiss"} -> Stutter
         [] OTHER -> Judge("App", TRUE, Other)

TSock ==
    /\ Is("Sock")
    /\ Judge("Sock", Has(Ev, "accepted") => (Ev.accepted >= 0 /\ Ev.accepted <= Ev.offered), UNCHANGED vars)

THdr ==
    /\ Is("Hdr")
    /\ LET h == [count |-> 1, fields |-> Ev.fields]
       IN Judge("Hdr", Ev.count = 1 /\ Ev.lead = 0 /\ DeliverOK(h, wire, frame), Deliver(h, wire, frame))

TWire ==
    /\ Is("Wire")
    /\ Judge("Wire", DeliverOK(hdr, Ev.runs, frame), Deliver(hdr, Ev.runs, frame))

TEof   == Is("Eof") /\ Stutter
TStall == Is("Stall") /\ Stutter
THang  == Is("Hang") /\ Stutter     \* judged by the check script: never a behaviour question
TDied  == Is("Died") /\ (IF broken THEN Stutter ELSE Break("Died"))   \* the library crashed while producing the response
TOver  == Is("Overrun") /\ (IF broken THEN Stutter ELSE Break("Overrun"))   \* unbounded output

(* the end of the response as the peer's decoder saw it *)
FramingOK ==
    /\ Ev.closed /\ Ev.bad = "" /\ Ev.trail = 0 /\ Ev.lead = 0 /\ Ev.term = 1
    /\ Ev.kind \in {"cl", "chunked", "eof", "fcgi"}
    /\ (Ev.kind = "fcgi" <=> cfg.proto = "fcgi")
    /\ (Ev.kind = "fcgi" => (Ev.endreq = 1 /\ Ev.stdoutend = 1 /\ Ev.padok))
    /\ Get(Ev, "badid", 0) = 0            \* every record carries the id of the request being answered
    /\ (Ev.kind = "chunked" => cfg.proto = "http11")
    /\ (cfg.proto = "scgi" => Ev.kind = "eof")
    /\ (Ev.keep => Ev.kind # "eof")
    /\ (~Ev.keep => Ev.eof)
    /\ (Ev.gzip => (cfg.gz /\ cfg.mode = "normal"))
    /\ Ev.gzend

EndFrame == [closed |-> TRUE, terms |-> 1]
TFrame ==
    /\ Is("Frame")
    /\ Judge("Frame", FramingOK /\ finalized /\ DeliverOK(hdr, wire, EndFrame),
             /\ frame' = EndFrame /\ drained' = TRUE
             /\ UNCHANGED <<written, set, started, finalized, hdr, wire, copied>>)

TCache ==
    /\ Is("Cache")
    /\ LET c == [has |-> TRUE, runs |-> Ev.runs, same |-> Ev.same]
       IN Judge("Cache", Ev.present /\ Ev.gzend /\ finalized /\ StoreOK(c), Store(c))

TraceInit == Init /\ l = 1 /\ cfg = [proto |-> "none", gz |-> FALSE, mode |-> "none", cache |-> FALSE] /\ broken = FALSE
TraceNext == TReset \/ TApp \/ TSock \/ THdr \/ TWire \/ TEof \/ TStall \/ THang \/ TDied \/ TOver \/ TFrame \/ TCache
TraceSpec == TraceInit /\ [][TraceNext]_tvars
=============================================================================
