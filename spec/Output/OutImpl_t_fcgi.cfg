SPECIFICATION Spec
CONSTANTS
  Variants <- VarFcgi
  Modes <- ModesAsyncX
  MaxOps = 5
  WriteSizes = {0,1,2,5}
  BufSizes = {0,2,4}
  InitBuf = 4
  MaxRec = 3
  PadMod = 2
  MaxIov = 3
  CCap = 2
  PostFinal = TRUE
  BugShrink = FALSE
  BugEofToggle = FALSE
  Mut = 0
INVARIANTS PrefixInv OneHeader NoEarlyEnd CompleteInv CacheCopy WellFramed Aligned NothingLeft ClosedIsFinal
CHECK_DEADLOCK FALSE
