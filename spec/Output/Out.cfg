SPECIFICATION Spec
CONSTANTS
  MaxBytes = 3
  Settable <- SettableSmall
INVARIANTS PrefixInv OneHeader NoEarlyEnd Complete CacheCopy
PROPERTY StepSpec
