SPECIFICATION TraceSpec
CONSTANTS
  MaxBytes = 0
  Settable <- SettableSmall
INVARIANTS PrefixInv OneHeader NoEarlyEnd Complete CacheCopy
POSTCONDITION TraceDone
CHECK_DEADLOCK FALSE
