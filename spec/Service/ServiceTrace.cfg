SPECIFICATION TraceSpec
CONSTANTS Conns = {} Ids = {}
INVARIANTS OneLivePerConn OwnerIsNewest
POSTCONDITION TraceDone
CHECK_DEADLOCK FALSE
