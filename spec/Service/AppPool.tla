------------------------------ MODULE AppPool ------------------------------
(***************************************************************************)
(* Growth beyond the listed properties (DESIGN.md 7, item 2):              *)
(* application_specific_pool policies of src/applications_pool.cpp.        *)
(*                                                                         *)
(* Synchronous pool of size N (_pool_policy): get() pops a pooled          *)
(* application or creates a new one; put() (called when the last           *)
(* reference to the application goes away) pushes it back, or deletes it   *)
(* when the pool is full.  Thread-specific policy: one application per     *)
(* thread.  Asynchronous policy: one shared application, never returned.   *)
(*                                                                         *)
(* Invariants: an application object is held by at most one request at a   *)
(* time (ExclusiveUse; not for the asynchronous policy, whose single       *)
(* instance is shared by design on the loop thread), the pool never holds  *)
(* more than N objects and never a deleted one (PoolSound), nothing leaks  *)
(* (every object is in use, pooled or deleted).                            *)
(*                                                                         *)
(* AsCoded = TRUE reproduces put() as written: `if(size_ >= apps_.size())  *)
(* delete app;` is not followed by a return, so the deleted pointer is      *)
(* still stored past the end.  TLC shows PoolSound then fails as soon as    *)
(* more than N applications are outstanding (MaxOut > N) - and holds while  *)
(* MaxOut <= N, which is what the framework guarantees by fetching          *)
(* synchronous applications inside the worker threads.                      *)
(***************************************************************************)
EXTENDS Integers, Sequences, FiniteSets

CONSTANTS N,          \* pool size (= worker threads)
          Users,      \* request contexts / threads
          MaxOut,     \* applications outstanding at once (<= N in the framework)
          MaxApps,    \* bound on objects ever created
          AsCoded

VARIABLES pool, status, holder, created
pvars == <<pool, status, holder, created>>

Apps == 1..MaxApps
Init == pool = <<>> /\ status = [a \in Apps |-> "none"] /\ holder = [u \in Users |-> 0] /\ created = 0

Outstanding == Cardinality({ u \in Users : holder[u] # 0 })

Get(u) ==
    /\ holder[u] = 0 /\ Outstanding < MaxOut
    /\ IF pool = <<>>
       THEN /\ created < MaxApps
            /\ created' = created + 1
            /\ status' = [status EXCEPT ![created + 1] = "inuse"]
            /\ holder' = [holder EXCEPT ![u] = created + 1]
            /\ pool' = pool
       ELSE /\ holder' = [holder EXCEPT ![u] = pool[Len(pool)]]
            /\ status' = [status EXCEPT ![pool[Len(pool)]] = IF @ = "pooled" THEN "inuse" ELSE "dangling-inuse"]
            /\ pool' = SubSeq(pool, 1, Len(pool) - 1)
            /\ created' = created

Put(u) ==
    /\ holder[u] # 0
    /\ holder' = [holder EXCEPT ![u] = 0]
    /\ created' = created
    /\ IF Len(pool) >= N
       THEN /\ status' = [status EXCEPT ![holder[u]] = "deleted"]
            /\ pool' = IF AsCoded THEN Append(pool, holder[u]) ELSE pool
       ELSE /\ status' = [status EXCEPT ![holder[u]] = "pooled"]
            /\ pool' = Append(pool, holder[u])

Next == \E u \in Users : Get(u) \/ Put(u)
Spec == Init /\ [][Next]_pvars

ExclusiveUse == \A u, v \in Users : (u # v /\ holder[u] # 0) => holder[u] # holder[v]
PoolSound == /\ Len(pool) <= N
             /\ \A i \in DOMAIN pool : status[pool[i]] = "pooled"
             /\ \A i, j \in DOMAIN pool : i # j => pool[i] # pool[j]
NoDangling == \A a \in Apps : status[a] # "dangling-inuse"
NoLeak == \A a \in Apps : a <= created =>
             \/ status[a] = "deleted"
             \/ (status[a] = "pooled" /\ \E i \in DOMAIN pool : pool[i] = a)
             \/ (status[a] = "inuse" /\ \E u \in Users : holder[u] = a)
=============================================================================
