---------------------------- MODULE ServiceTrace ----------------------------
(* Leg B of the growth check G02: hook events of http_context.cpp (CtxNew, Ready, Dispatch,  *)
(* AsyncComplete, Resp, CtxDel) and cgi_api.cpp (Prepare, Complete), ordered by the global     *)
(* sequence number, must be a behaviour of Service.tla.  Other hook events are skipped.        *)
EXTENDS Service, TraceBase
VARIABLE l
tvars == <<svars, l>>
Ev == TraceLog[l]
Is(name) == l <= NLines /\ Ev.e = name /\ l' = l + 1
Known == {"Reset", "CtxNew", "Prepare", "Complete", "Ready", "Dispatch", "AsyncComplete", "Resp", "CtxDel"}

TReset == Is("Reset") /\ st' = <<>> /\ conn' = <<>> /\ cur' = <<>> /\ prep' = <<>>
TNew == Is("CtxNew") /\ CtxNew(Ev.x, Ev.c)
TPrepare == Is("Prepare") /\ Prepare(Ev.c)
TComplete == Is("Complete") /\ Complete(Ev.c)
TReady == Is("Ready") /\ Ev.x \in DOMAIN st /\ Ready(Ev.x, Ev.err)
TDispatch == Is("Dispatch") /\ Dispatch(Ev.x)
TAsync == Is("AsyncComplete") /\ AsyncComplete(Ev.x)
TResp == Is("Resp") /\ Resp(Ev.x, Ev.reuse)
TDel == Is("CtxDel") /\ CtxDel(Ev.x)
TSkip == l <= NLines /\ Ev.e \notin Known /\ l' = l + 1 /\ UNCHANGED svars

TraceSpec == (SInit /\ l = 1) /\ [][TReset \/ TNew \/ TPrepare \/ TComplete \/ TReady \/ TDispatch \/ TAsync \/ TResp \/ TDel \/ TSkip]_tvars
=============================================================================
