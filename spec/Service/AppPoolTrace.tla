--------------------------- MODULE AppPoolTrace ---------------------------
(* Leg B of the growth check G01: New/Del (constructor / destructor of the    *)
(* application), Get/Rel (a user obtained / is about to drop the object).     *)
(* Accepted iff an object is never handed out while another user holds it,    *)
(* never after it was destroyed, the synchronous pool creates at most N       *)
(* objects while at most N are outstanding, and at End every object created   *)
(* has been destroyed (no leak).                                              *)
EXTENDS TraceBase, Integers, FiniteSets
VARIABLES l, st, held, n, mode
tvars == <<l, st, held, n, mode>>
Ev == TraceLog[l]
Is(name) == l <= NLines /\ Ev.e = name /\ l' = l + 1
Put(f, k, v) == [x \in DOMAIN f \cup {k} |-> IF x = k THEN v ELSE f[x]]

TReset == Is("Reset") /\ st' = <<>> /\ held' = <<>> /\ n' = Ev.n /\ mode' = Ev.mode
TNew == /\ Is("New") /\ Ev.a \notin DOMAIN st
        /\ st' = Put(st, Ev.a, "live") /\ UNCHANGED <<held, n, mode>>
        /\ (mode \in {"pool", "prepop"} => Cardinality(DOMAIN st) < n)       \* a pool of N never needs more than N objects
TGet == /\ Is("Get")
        /\ Ev.a \in DOMAIN st /\ st[Ev.a] = "live"
        /\ Ev.alive /\ ~Ev.clash
        /\ \A u \in DOMAIN held : held[u] # Ev.a                              \* exclusive use
        /\ held' = Put(held, Ev.u, Ev.a) /\ UNCHANGED <<st, n, mode>>
TRel == /\ Is("Rel")
        /\ Ev.u \in DOMAIN held /\ held[Ev.u] = Ev.a
        /\ held' = Put(held, Ev.u, 0) /\ UNCHANGED <<st, n, mode>>
TDel == /\ Is("Del")
        /\ Ev.a \in DOMAIN st /\ st[Ev.a] = "live"
        /\ \A u \in DOMAIN held : held[u] # Ev.a
        /\ st' = Put(st, Ev.a, "dead") /\ UNCHANGED <<held, n, mode>>
TIdle == Is("Idle") /\ Ev.created = Cardinality(DOMAIN st) /\ UNCHANGED <<st, held, n, mode>>
TEnd == Is("End") /\ (\A a \in DOMAIN st : st[a] = "dead") /\ UNCHANGED <<st, held, n, mode>>

TraceSpec == (l = 1 /\ st = <<>> /\ held = <<>> /\ n = 0 /\ mode = "")
             /\ [][TReset \/ TNew \/ TGet \/ TRel \/ TDel \/ TIdle \/ TEnd]_tvars
=============================================================================
