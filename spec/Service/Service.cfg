SPECIFICATION SSpec
CONSTANTS Conns = {1,2} Ids = {11,12,13}
INVARIANTS OneLivePerConn OwnerIsNewest
CHECK_DEADLOCK FALSE
