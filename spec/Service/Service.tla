------------------------------ MODULE Service ------------------------------
(***************************************************************************)
(* Growth beyond the listed properties (DESIGN.md 7, item 1): the request  *)
(* life-cycle of http::context over one connection.                        *)
(*                                                                         *)
(*   CtxNew -> Prepare -> Complete(ec) -> Ready(ok|err)                     *)
(*     ok : Dispatch (at most once; synchronous applications run on a pool  *)
(*          worker, asynchronous ones on the loop) -> [AsyncComplete] ->    *)
(*          Resp (exactly one) -> keep-alive: a NEW context for the same    *)
(*          connection, only after Resp said the connection is reusable     *)
(*     err: no dispatch, no response by the context                         *)
(*   CtxDel exactly once, never while the response is still owed.           *)
(*                                                                         *)
(* This module is the property layer used by ServiceTrace.tla (hook events  *)
(* of src/http_context.cpp and src/cgi_api.cpp) and, with SNext, a small    *)
(* design model of several connections / workers that TLC explores.         *)
(***************************************************************************)
EXTENDS Integers, FiniteSets, TLC

VARIABLES st,      \* context id -> state
          conn,    \* context id -> connection id
          cur,     \* connection id -> context that owns it (0 = none)
          prep     \* connection id -> "idle" | "preparing"

svars == <<st, conn, cur, prep>>
Put(f, k, v) == [x \in DOMAIN f \cup {k} |-> IF x = k THEN v ELSE f[x]]
St(x) == IF x \in DOMAIN st THEN st[x] ELSE "none"
Cur(c) == IF c \in DOMAIN cur THEN cur[c] ELSE 0
Prep(c) == IF c \in DOMAIN prep THEN prep[c] ELSE "idle"

SInit == st = <<>> /\ conn = <<>> /\ cur = <<>> /\ prep = <<>>

(* a connection is handed to a new context only when it is free or the previous request was answered and the
   connection declared reusable (keep-alive), or the previous context is gone *)
Free(c) == Cur(c) = 0 \/ St(Cur(c)) \in {"responded-reuse", "dead", "none"}

CtxNew(x, c) ==
    /\ St(x) \in {"none", "dead"}
    /\ Free(c)
    /\ st' = Put(st, x, "new") /\ conn' = Put(conn, x, c)
    /\ cur' = [k \in DOMAIN cur \cup {c} |-> IF k = c THEN x ELSE IF cur[k] = x THEN 0 ELSE cur[k]]   \* ids (addresses) are reused
    /\ UNCHANGED prep

Prepare(c) ==
    /\ Prep(c) = "idle" /\ Cur(c) # 0 /\ St(Cur(c)) = "new"
    /\ prep' = Put(prep, c, "preparing") /\ UNCHANGED <<st, conn, cur>>

Complete(c) ==            \* exactly one completion per prepared request
    /\ Prep(c) = "preparing"
    /\ prep' = Put(prep, c, "idle") /\ UNCHANGED <<st, conn, cur>>

Ready(x, err) ==
    /\ St(x) = "new" /\ Prep(conn[x]) = "idle"
    /\ st' = Put(st, x, IF err THEN "failed" ELSE "ready")
    /\ UNCHANGED <<conn, cur, prep>>

Dispatch(x) ==
    /\ St(x) = "ready"
    /\ st' = Put(st, x, "dispatched") /\ UNCHANGED <<conn, cur, prep>>

AsyncComplete(x) ==
    /\ St(x) \in {"dispatched", "ready"}
    /\ st' = Put(st, x, "completing") /\ UNCHANGED <<conn, cur, prep>>

Resp(x, reuse) ==         \* the one response of this request
    /\ St(x) \in {"ready", "dispatched", "completing"}
    /\ st' = Put(st, x, IF reuse THEN "responded-reuse" ELSE "responded")
    /\ UNCHANGED <<conn, cur, prep>>

CtxDel(x) ==              \* released exactly once, not while a dispatched request still owes its response
    /\ St(x) \in {"new", "failed", "ready", "responded", "responded-reuse"}
    /\ st' = Put(st, x, "dead") /\ UNCHANGED <<conn, cur, prep>>

---------------------------------------------------------------------------
(* design model: contexts are allocated from a finite pool of ids *)
CONSTANTS Conns, Ids
SNext ==
    \/ \E x \in Ids, c \in Conns : CtxNew(x, c)
    \/ \E c \in Conns : Prepare(c) \/ Complete(c)
    \/ \E x \in Ids, b \in BOOLEAN : Ready(x, b) \/ Resp(x, b)
    \/ \E x \in Ids : Dispatch(x) \/ AsyncComplete(x) \/ CtxDel(x)
SSpec == SInit /\ [][SNext]_svars

Live(x) == St(x) \in {"new", "ready", "dispatched", "completing"}
OneLivePerConn == \A x, y \in DOMAIN st : (x # y /\ Live(x) /\ Live(y)) => conn[x] # conn[y]
OwnerIsNewest == \A c \in DOMAIN cur : cur[c] = 0 \/ conn[cur[c]] = c
=============================================================================
