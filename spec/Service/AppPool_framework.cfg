SPECIFICATION Spec
CONSTANTS N = 2 Users = {1,2,3} MaxOut = 2 MaxApps = 5 AsCoded = TRUE
INVARIANTS ExclusiveUse PoolSound NoDangling NoLeak
CHECK_DEADLOCK FALSE
