------------------------------- MODULE Locks -------------------------------
(* Reader/writer locks of booster and cppcms (growth check G06).                    *)
(*                                                                                    *)
(* Property layer: a reader/writer lock - at any moment either one writer or any      *)
(* number of readers hold it (Excl); a thread releases only what it holds.            *)
(*                                                                                    *)
(* Mechanism layer, selected by Kind:                                                 *)
(*  "rw"   one rwlock word shared by every actor: booster::shared_mutex,              *)
(*         booster::recursive_shared_mutex (a thread may re-acquire the shared lock,  *)
(*         MaxDepth > 1), cppcms::impl::shared_mutex / impl::mutex with a process     *)
(*         shared pthread object in anonymous shared memory (what this platform uses) *)
(*  "fork" booster::fork_shared_mutex (and the fcntl fall-back of impl::shared_mutex):*)
(*         a pthread rwlock that only the threads of ONE process see, plus a POSIX    *)
(*         record lock (fcntl F_SETLKW) on a temporary file that is owned by the      *)
(*         PROCESS.  lock() = pthread lock, then file lock; unlock() = file unlock,   *)
(*         then pthread unlock - four separate steps, as in                           *)
(*         booster/lib/thread/src/pthread.cpp.                                        *)
(* The model shows (Locks_fork_bug.cfg) that with Kind = "fork", two threads in one   *)
(* process and shared mode in use, Excl is violated: the first reader thread that     *)
(* leaves drops the process's record lock while its sibling still reads, and another  *)
(* process gets the unique lock.  With one thread per process, or unique mode only    *)
(* (the only use inside cppcms: prefork_acceptor) the lock is correct.                *)
EXTENDS Naturals, FiniteSets, TLC

CONSTANTS Procs,      \* process ids
          Thr,        \* thread ids within a process
          Kind,       \* "rw" | "fork"
          Modes,      \* subset of {"r","w"}: lock modes the callers use
          MaxDepth    \* how often one thread may nest the shared lock (recursive_shared_mutex), 1 otherwise

Actor == Procs \X Thr
None  == <<0, 0>>
ProcOf(a) == a[1]

VARIABLES
    pc,      \* actor -> "idle" | "pr" | "pw" (pthread level taken, file lock pending)
             \*          | "hr" | "hw" (lock() returned: inside the critical section)
             \*          | "ur" | "uw" (unlock() running: file lock dropped, pthread lock still held)
    depth,   \* actor -> nesting depth of the shared lock (rw kind with MaxDepth > 1)
    prd,     \* pthread rwlock: lock instance -> set of actors holding it shared
    pwr,     \* pthread rwlock: lock instance -> actor holding it exclusively, or None
    fl       \* fork kind: process -> "none" | "r" | "w"   (record lock owned by the process)

vars == <<pc, depth, prd, pwr, fl>>

\* which pthread rwlock instance an actor uses: one for everybody ("rw": process shared object),
\* one per process ("fork": a plain rwlock, copied by fork())
Inst(a) == IF Kind = "fork" THEN ProcOf(a) ELSE 0
Insts   == IF Kind = "fork" THEN Procs ELSE {0}

Init ==
    /\ pc = [a \in Actor |-> "idle"]
    /\ depth = [a \in Actor |-> 0]
    /\ prd = [i \in Insts |-> {}]
    /\ pwr = [i \in Insts |-> None]
    /\ fl = [p \in Procs |-> "none"]

\* ------------------------------------------------------------------ pthread level
PAcqR(a) ==
    /\ "r" \in Modes
    /\ pc[a] = "idle"
    /\ pwr[Inst(a)] = None
    /\ prd' = [prd EXCEPT ![Inst(a)] = @ \cup {a}]
    /\ depth' = [depth EXCEPT ![a] = 1]
    /\ pc' = [pc EXCEPT ![a] = IF Kind = "fork" THEN "pr" ELSE "hr"]
    /\ UNCHANGED <<pwr, fl>>

\* recursive_shared_mutex: a thread that holds the shared lock takes it again
PAcqRAgain(a) ==
    /\ Kind = "rw"
    /\ pc[a] = "hr"
    /\ depth[a] < MaxDepth
    /\ depth' = [depth EXCEPT ![a] = @ + 1]
    /\ UNCHANGED <<pc, prd, pwr, fl>>

PAcqW(a) ==
    /\ "w" \in Modes
    /\ pc[a] = "idle"
    /\ pwr[Inst(a)] = None
    /\ prd[Inst(a)] = {}
    /\ pwr' = [pwr EXCEPT ![Inst(a)] = a]
    /\ pc' = [pc EXCEPT ![a] = IF Kind = "fork" THEN "pw" ELSE "hw"]
    /\ UNCHANGED <<prd, depth, fl>>

\* ------------------------------------------------------------------ record lock level (fork kind)
\* F_SETLKW F_RDLCK: granted when no OTHER process holds a write lock; the process then owns a read lock
FAcqR(a) ==
    /\ pc[a] = "pr"
    /\ \A q \in Procs \ {ProcOf(a)} : fl[q] # "w"
    /\ fl' = [fl EXCEPT ![ProcOf(a)] = "r"]
    /\ pc' = [pc EXCEPT ![a] = "hr"]
    /\ UNCHANGED <<prd, pwr, depth>>

\* F_SETLKW F_WRLCK: granted when no OTHER process holds any lock
FAcqW(a) ==
    /\ pc[a] = "pw"
    /\ \A q \in Procs \ {ProcOf(a)} : fl[q] = "none"
    /\ fl' = [fl EXCEPT ![ProcOf(a)] = "w"]
    /\ pc' = [pc EXCEPT ![a] = "hw"]
    /\ UNCHANGED <<prd, pwr, depth>>

\* unlock(), first half: F_UNLCK releases the record lock OF THE PROCESS, whatever its other threads think
FRel(a) ==
    /\ Kind = "fork"
    /\ pc[a] \in {"hr", "hw"}
    /\ fl' = [fl EXCEPT ![ProcOf(a)] = "none"]
    /\ pc' = [pc EXCEPT ![a] = IF pc[a] = "hr" THEN "ur" ELSE "uw"]
    /\ UNCHANGED <<prd, pwr, depth>>

\* unlock(), second half / the whole unlock() of the rw kind
PRel(a) ==
    /\ \/ Kind = "fork" /\ pc[a] \in {"ur", "uw"}
       \/ Kind = "rw" /\ pc[a] \in {"hr", "hw"}
    /\ IF pc[a] \in {"ur", "hr"}
         THEN IF depth[a] > 1
                THEN /\ depth' = [depth EXCEPT ![a] = @ - 1]
                     /\ UNCHANGED <<pc, prd, pwr>>
                ELSE /\ depth' = [depth EXCEPT ![a] = 0]
                     /\ prd' = [prd EXCEPT ![Inst(a)] = @ \ {a}]
                     /\ pc' = [pc EXCEPT ![a] = "idle"]
                     /\ UNCHANGED pwr
         ELSE /\ pwr' = [pwr EXCEPT ![Inst(a)] = None]
              /\ pc' = [pc EXCEPT ![a] = "idle"]
              /\ UNCHANGED <<prd, depth>>
    /\ UNCHANGED fl

Next == \E a \in Actor : PAcqR(a) \/ PAcqRAgain(a) \/ PAcqW(a) \/ FAcqR(a) \/ FAcqW(a) \/ FRel(a) \/ PRel(a)

Spec == Init /\ [][Next]_vars
FairSpec == Spec /\ \A a \in Actor : WF_vars(FAcqR(a)) /\ WF_vars(FAcqW(a)) /\ WF_vars(FRel(a)) /\ WF_vars(PRel(a))

\* ------------------------------------------------------------------ properties
HoldsR(a) == pc[a] = "hr"
HoldsW(a) == pc[a] = "hw"

TypeOK ==
    /\ pc \in [Actor -> {"idle", "pr", "pw", "hr", "hw", "ur", "uw"}]
    /\ depth \in [Actor -> 0..MaxDepth]
    /\ fl \in [Procs -> {"none", "r", "w"}]

\* the property: a writer excludes everybody else
Excl == \A a, b \in Actor : (a # b /\ HoldsW(a)) => ~(HoldsR(b) \/ HoldsW(b))

\* mechanism invariants of the pthread level (always true, both kinds)
PthreadExcl == \A i \in Insts : pwr[i] # None => prd[i] = {}

\* record locks of different processes are compatible (what the kernel guarantees)
FileExcl == \A p, q \in Procs : (p # q /\ fl[p] = "w") => fl[q] = "none"

\* fork kind: a thread inside its critical section is backed by a record lock of its process.
\* This is the invariant the design needs and does NOT have with >1 reader thread per process.
Backed == Kind = "fork" => \A a \in Actor : (HoldsR(a) => fl[ProcOf(a)] \in {"r", "w"}) /\ (HoldsW(a) => fl[ProcOf(a)] = "w")

\* nobody is stuck for ever inside lock()/unlock() once the others leave (checked with FairSpec)
Progress == \A a \in Actor : (pc[a] \in {"ur", "uw"}) ~> (pc[a] = "idle")
=============================================================================
