SPECIFICATION Spec
CONSTANTS
  Procs = {1,2}
  Thr = {1,2}
  Kind = "fork"
  Modes = {"r","w"}
  MaxDepth = 1
INVARIANTS Excl

