SPECIFICATION FairSpec
CONSTANTS
  Procs = {1,2,3}
  Thr = {1}
  Kind = "fork"
  Modes = {"r","w"}
  MaxDepth = 1
INVARIANTS TypeOK Excl PthreadExcl FileExcl Backed
PROPERTIES Progress
