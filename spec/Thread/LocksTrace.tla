----------------------------- MODULE LocksTrace -----------------------------
(* Leg B of G06: lock / unlock events recorded INSIDE the critical sections of the   *)
(* real booster / cppcms locks (after lock() returned, before unlock() is called),   *)
(* ordered by one atomic sequence counter in shared memory, must be a behaviour of   *)
(* the reader/writer lock: a writer is alone, a reader never overlaps a writer, a    *)
(* thread releases only what it holds, data written under the unique lock is never   *)
(* seen torn.  Failed try-locks are always accepted (they may fail spuriously).      *)
EXTENDS Naturals, Sequences, FiniteSets, TLC, TraceBase

VARIABLES l, rdepth, writer, maxdepth
tvars == <<l, rdepth, writer, maxdepth>>

Ev == TraceLog[l]
Is(name) == l <= NLines /\ Ev.e = name /\ l' = l + 1
Depth(a) == IF a \in DOMAIN rdepth THEN rdepth[a] ELSE 0
SetDepth(a, n) == [x \in DOMAIN rdepth \cup {a} |-> IF x = a THEN n ELSE rdepth[x]]
NoReaders == \A a \in DOMAIN rdepth : rdepth[a] = 0

TInit ==
    /\ l = 1
    /\ rdepth = <<>>
    /\ writer = 0
    /\ maxdepth = 1

TReset ==
    /\ Is("Reset")
    /\ rdepth' = <<>>
    /\ writer' = 0
    /\ maxdepth' = Ev.maxdepth

TAcqR ==
    /\ Is("Acq")
    /\ Ev.m = "r"
    /\ writer = 0
    /\ Depth(Ev.a) < maxdepth
    /\ rdepth' = SetDepth(Ev.a, Depth(Ev.a) + 1)
    /\ UNCHANGED <<writer, maxdepth>>

TAcqW ==
    /\ Is("Acq")
    /\ Ev.m = "w"
    /\ writer = 0
    /\ NoReaders
    /\ writer' = Ev.a
    /\ UNCHANGED <<rdepth, maxdepth>>

TRelR ==
    /\ Is("Rel")
    /\ Ev.m = "r"
    /\ Depth(Ev.a) > 0
    /\ rdepth' = SetDepth(Ev.a, Depth(Ev.a) - 1)
    /\ UNCHANGED <<writer, maxdepth>>

TRelW ==
    /\ Is("Rel")
    /\ Ev.m = "w"
    /\ writer = Ev.a
    /\ writer' = 0
    /\ UNCHANGED <<rdepth, maxdepth>>

\* the canary words read (shared mode) or written (unique mode) inside the critical section are consistent
TChk ==
    /\ Is("Chk")
    /\ Ev.ok = TRUE
    /\ (writer = Ev.a \/ Depth(Ev.a) > 0)
    /\ UNCHANGED <<rdepth, writer, maxdepth>>

TTryFail ==
    /\ Is("TryFail")
    /\ UNCHANGED <<rdepth, writer, maxdepth>>

TEnd ==
    /\ Is("End")
    /\ writer = 0
    /\ NoReaders
    /\ UNCHANGED <<rdepth, writer, maxdepth>>

TNext == TReset \/ TAcqR \/ TAcqW \/ TRelR \/ TRelW \/ TChk \/ TTryFail \/ TEnd
TraceSpec == TInit /\ [][TNext]_tvars
=============================================================================
