---------------------------- MODULE ForkLockProof ----------------------------
(* TLAPS proof, for ANY number of processes and threads, that                    *)
(* booster::fork_shared_mutex used in UNIQUE mode only (the way cppcms uses it:  *)
(* prefork_acceptor) gives mutual exclusion.  Same four steps as Thread/Locks.tla *)
(* (Kind = "fork", Modes = {"w"}): pthread write lock of the process, record      *)
(* lock of the process, record unlock, pthread unlock.                            *)
(* (Locks.tla + TLC show that the SHARED mode with two threads per process is not *)
(* exclusive; that is the known finding of G06.)   Check: tlapm ForkLockProof.tla *)
EXTENDS Naturals, TLAPS

CONSTANTS Procs, Thr, None
Actor == Procs \X Thr
ASSUME NoneNotActor == None \notin Actor
ProcOf(a) == a[1]

VARIABLES pc,    \* actor -> "idle" | "pw" | "hw" | "uw"
          pwr,   \* process -> actor holding the pthread lock of that process, or None
          fl     \* process -> "none" | "w"    record lock owned by the process
vars == <<pc, pwr, fl>>

Init ==
    /\ pc = [a \in Actor |-> "idle"]
    /\ pwr = [p \in Procs |-> None]
    /\ fl = [p \in Procs |-> "none"]

PAcqW(a) ==
    /\ pc[a] = "idle"
    /\ pwr[ProcOf(a)] = None
    /\ pwr' = [pwr EXCEPT ![ProcOf(a)] = a]
    /\ pc' = [pc EXCEPT ![a] = "pw"]
    /\ UNCHANGED fl

FAcqW(a) ==
    /\ pc[a] = "pw"
    /\ \A q \in Procs \ {ProcOf(a)} : fl[q] = "none"
    /\ fl' = [fl EXCEPT ![ProcOf(a)] = "w"]
    /\ pc' = [pc EXCEPT ![a] = "hw"]
    /\ UNCHANGED pwr

FRel(a) ==
    /\ pc[a] = "hw"
    /\ fl' = [fl EXCEPT ![ProcOf(a)] = "none"]
    /\ pc' = [pc EXCEPT ![a] = "uw"]
    /\ UNCHANGED pwr

PRel(a) ==
    /\ pc[a] = "uw"
    /\ pwr' = [pwr EXCEPT ![ProcOf(a)] = None]
    /\ pc' = [pc EXCEPT ![a] = "idle"]
    /\ UNCHANGED fl

Next == \E a \in Actor : PAcqW(a) \/ FAcqW(a) \/ FRel(a) \/ PRel(a)
Spec == Init /\ [][Next]_vars

Excl == \A a, b \in Actor : (pc[a] = "hw" /\ pc[b] = "hw") => a = b

IndInv ==
    /\ pc \in [Actor -> {"idle", "pw", "hw", "uw"}]
    /\ pwr \in [Procs -> Actor \cup {None}]
    /\ fl \in [Procs -> {"none", "w"}]
    /\ \A a \in Actor : pc[a] # "idle" => pwr[ProcOf(a)] = a       \* whoever is past the pthread lock owns it
    /\ \A a \in Actor : pc[a] = "hw" => fl[ProcOf(a)] = "w"        \* Backed
    /\ \A p, q \in Procs : (fl[p] = "w" /\ fl[q] = "w") => p = q    \* what the kernel guarantees, kept by FAcqW's guard

LEMMA ProcOfType == \A a \in Actor : ProcOf(a) \in Procs
  BY DEF Actor, ProcOf

LEMMA InitInv == Init => IndInv
  BY ProcOfType DEF Init, IndInv

LEMMA InvExcl == IndInv => Excl
<1> SUFFICES ASSUME IndInv, NEW a \in Actor, NEW b \in Actor, pc[a] = "hw", pc[b] = "hw" PROVE a = b
  BY DEF Excl
<1>1. fl[ProcOf(a)] = "w" /\ fl[ProcOf(b)] = "w"
  BY DEF IndInv
<1>2. ProcOf(a) = ProcOf(b)
  BY <1>1, ProcOfType DEF IndInv
<1>3. pwr[ProcOf(a)] = a /\ pwr[ProcOf(b)] = b
  BY DEF IndInv
<1>. QED BY <1>2, <1>3

LEMMA StepInv == IndInv /\ [Next]_vars => IndInv'
<1> SUFFICES ASSUME IndInv, [Next]_vars PROVE IndInv'
  OBVIOUS
<1> USE ProcOfType, NoneNotActor
<1>1. ASSUME NEW a \in Actor, PAcqW(a) PROVE IndInv'
  BY <1>1 DEF PAcqW, IndInv
<1>2. ASSUME NEW a \in Actor, FAcqW(a) PROVE IndInv'
  BY <1>2 DEF FAcqW, IndInv
<1>3. ASSUME NEW a \in Actor, FRel(a) PROVE IndInv'
  BY <1>3 DEF FRel, IndInv
<1>4. ASSUME NEW a \in Actor, PRel(a) PROVE IndInv'
  BY <1>4 DEF PRel, IndInv
<1>5. CASE UNCHANGED vars
  BY <1>5 DEF vars, IndInv
<1>. QED BY <1>1, <1>2, <1>3, <1>4, <1>5 DEF Next

THEOREM Safety == Spec => []Excl
<1>1. Spec => []IndInv
  BY InitInv, StepInv, PTL DEF Spec
<1>. QED BY <1>1, InvExcl, PTL
=============================================================================
