SPECIFICATION FairSpec
CONSTANTS
  Procs = {1,2,3}
  Thr = {1,2}
  Kind = "rw"
  Modes = {"r","w"}
  MaxDepth = 3
INVARIANTS TypeOK Excl PthreadExcl
PROPERTIES Progress
