SPECIFICATION TraceSpec
POSTCONDITION TraceDone
CHECK_DEADLOCK FALSE
