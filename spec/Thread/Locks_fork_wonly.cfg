SPECIFICATION FairSpec
CONSTANTS
  Procs = {1,2}
  Thr = {1,2}
  Kind = "fork"
  Modes = {"w"}
  MaxDepth = 1
INVARIANTS TypeOK Excl PthreadExcl FileExcl Backed
PROPERTIES Progress
