SPECIFICATION FairSpec
CONSTANTS
  Procs = {1,2}
  Thr = {1,2}
  Kind = "rw"
  Modes = {"r","w"}
  MaxDepth = 2
INVARIANTS TypeOK Excl PthreadExcl
PROPERTIES Progress
