SPECIFICATION Spec
CONSTANTS
  NormBug = FALSE
  RootCheck = TRUE
  Segs = {22,23,1,4,5,3,9,18}
  MaxLen = 4
  Cfgs = {0,1,2,3,4,5,6,7}
INVARIANTS InsideInv NoEscape
CHECK_DEADLOCK FALSE
