SPECIFICATION Spec
CONSTANTS
  NormBug = TRUE
  RootCheck = TRUE
  Segs = {19,20,21,4,2,5}
  MaxLen = 5
  Cfgs = {4,5}
INVARIANTS NoEscape
CHECK_DEADLOCK FALSE
