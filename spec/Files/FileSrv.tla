------------------------------- MODULE FileSrv -------------------------------
(***************************************************************************)
(* C13 - the built-in file server never serves anything outside its        *)
(* document roots.                                                         *)
(*                                                                         *)
(* Names are byte strings (tuples of 0..255), paths are sequences of       *)
(* names.  A file system is a sequence of nodes                            *)
(*   [p : absolute path, k : "dir" | "reg" | "lnk" | "oth", m : marker     *)
(*    (unique per regular file, 0 otherwise), t : link target (absolute)]  *)
(* rooted at the sandbox directory <<>>.  A configuration is               *)
(*   [root : path, check : BOOLEAN (check_symlink), listing : BOOLEAN,     *)
(*    index : name, aliases : sequence of [url : path, target : path]].    *)
(*                                                                         *)
(* PROPERTY LAYER (what Leg B judges replies of the real server with, and  *)
(* what Leg D checks the mechanism model against):                         *)
(*   Inside  - a served file is a regular file that lies inside the        *)
(*             document root or inside the target of an alias that         *)
(*             prefixes the request path after "", "." and ".." are        *)
(*             resolved; with check_symlink "inside" is physical (all      *)
(*             links followed), without it "inside" means reachable from   *)
(*             that directory downwards (links followed by the OS).        *)
(*   ListingRules - a listing is produced only when enabled, for a         *)
(*             directory that is inside in the same sense, shows only      *)
(*             children of that directory, no dot-files, names escaped.    *)
(*                                                                         *)
(* MECHANISM LAYER: normalize_path, alias match on whole components,       *)
(* realpath + component-wise prefix test, S_IFDIR / S_IFREG decisions,     *)
(* redirect, index, listing - Serve(fs, cfg, path).  With NormBug = TRUE   *)
(* Normalize reproduces src/internal_file_server.cpp::normalize_path byte  *)
(* for byte (including its merging of "/a/b/../c" into "/ac"); with FALSE  *)
(* it is the intended lexical normalisation.                               *)
(***************************************************************************)
EXTENDS Integers, Sequences, FiniteSets, TLC

CONSTANTS NormBug,      \* TRUE only in the self-test: the segment-merging normalisation of old versions
          RootCheck     \* FALSE only in the self-test: drop the "realpath stays under the root" test

ToSet(s) == { s[i] : i \in DOMAIN s }
Last(s) == s[Len(s)]
Front(s) == SubSeq(s, 1, Len(s) - 1)
IsPrefix(a, b) == Len(a) <= Len(b) /\ SubSeq(b, 1, Len(a)) = a

DOT == <<46>>
DOTDOT == <<46, 46>>
EMPTY == <<>>
IsDotName(n) == Len(n) > 0 /\ n[1] = 46

(* ------------------------------ file system ----------------------------- *)
Exists(fs, p) == \E k \in DOMAIN fs : fs[k].p = p
Node(fs, p) == fs[CHOOSE k \in DOMAIN fs : fs[k].p = p]
KindOf(fs, p) == IF p = <<>> THEN "dir" ELSE IF Exists(fs, p) THEN Node(fs, p).k ELSE "none"
Children(fs, d) == { k \in DOMAIN fs : Len(fs[k].p) = Len(d) + 1 /\ IsPrefix(d, fs[k].p) }

NoPath == [ok |-> FALSE, p |-> <<>>]
\* realpath(3): cur = canonical directory reached so far, rest = components still to walk
RECURSIVE Real(_, _, _, _)
Real(fs, cur, rest, fuel) ==
    IF rest = <<>> THEN [ok |-> TRUE, p |-> cur]
    ELSE LET c == Head(rest)  r == Tail(rest) IN
         IF c = EMPTY \/ c = DOT THEN Real(fs, cur, r, fuel)
         ELSE IF c = DOTDOT THEN Real(fs, IF cur = <<>> THEN cur ELSE Front(cur), r, fuel)
         ELSE LET np == Append(cur, c)  k == KindOf(fs, np) IN
              IF k = "none" THEN NoPath
              ELSE IF k = "lnk" THEN (IF fuel = 0 THEN NoPath ELSE Real(fs, <<>>, Node(fs, np).t \o r, fuel - 1))
              ELSE IF k = "dir" THEN Real(fs, np, r, fuel)
              ELSE IF r = <<>> THEN [ok |-> TRUE, p |-> np] ELSE NoPath      \* ENOTDIR
RealPath(fs, p) == Real(fs, <<>>, p, 8)

\* directories reachable from d going down only, the OS following links (check_symlink off)
RECURSIVE ReachDirs(_, _, _)
ReachDirs(fs, S, n) ==
    LET step == S \cup { r.p : r \in { RealPath(fs, fs[k].p) : k \in UNION { Children(fs, d) : d \in S } } \ {NoPath} }
        dirs == { p \in step : KindOf(fs, p) = "dir" }
    IN IF n = 0 \/ dirs = S THEN dirs ELSE ReachDirs(fs, dirs, n - 1)

\* "inside directory dir": the set of directories and of markers that count as inside
InsideDirs(fs, dir, check) ==
    LET rd == RealPath(fs, dir) IN
    IF ~rd.ok THEN {}
    ELSE IF check THEN { rd.p } \cup { fs[k].p : k \in { j \in DOMAIN fs : fs[j].k = "dir" /\ IsPrefix(rd.p, fs[j].p) } }
    ELSE ReachDirs(fs, { rd.p }, 6)
InsideMarkers(fs, dir, check) ==
    LET D == InsideDirs(fs, dir, check)
        direct == { fs[k].m : k \in { j \in DOMAIN fs : fs[j].k = "reg" /\ Front(fs[j].p) \in D } }
        vialnk == IF check THEN {}
                  ELSE { Node(fs, r.p).m : r \in { x \in { RealPath(fs, fs[k].p) : k \in { j \in DOMAIN fs : fs[j].k = "lnk" /\ Front(fs[j].p) \in D } } :
                                                   x.ok /\ KindOf(fs, x.p) = "reg" } }
    IN direct \cup vialnk

(* --------------------------- request paths ------------------------------ *)
RECURSIVE SplitFrom(_, _, _)       \* split bytes on '/'
SplitFrom(b, i, acc) ==
    IF i > Len(b) THEN <<acc>>
    ELSE IF b[i] = 47 THEN <<acc>> \o SplitFrom(b, i + 1, <<>>)
    ELSE SplitFrom(b, i + 1, Append(acc, b[i]))
Split(b) == SplitFrom(b, 1, <<>>)

RECURSIVE Resolve(_, _)            \* property-level: resolve "", "." and ".." (never above the top)
Resolve(segs, acc) ==
    IF segs = <<>> THEN acc
    ELSE LET c == Head(segs) IN
         Resolve(Tail(segs), IF c = EMPTY \/ c = DOT THEN acc
                             ELSE IF c = DOTDOT THEN (IF acc = <<>> THEN acc ELSE Front(acc))
                             ELSE Append(acc, c))
Resolved(b) == Resolve(Split(b), <<>>)

(* ---- property layer ---- *)
Roots(cfg, b) == { cfg.root } \cup { cfg.aliases[k].target : k \in { j \in DOMAIN cfg.aliases : IsPrefix(cfg.aliases[j].url, Resolved(b)) } }
AllowedMarkers(fs, cfg, b) == UNION { InsideMarkers(fs, r, cfg.check) : r \in Roots(cfg, b) }
AllowedDirs(fs, cfg, b)    == UNION { InsideDirs(fs, r, cfg.check) : r \in Roots(cfg, b) }
\* markers of every alias target - used only to tell a mis-selected alias from a real escape
AnyRootMarkers(fs, cfg) == UNION { InsideMarkers(fs, r, cfg.check) : r \in { cfg.root } \cup { cfg.aliases[k].target : k \in DOMAIN cfg.aliases } }

Inside(fs, cfg, b, m) == m \in AllowedMarkers(fs, cfg, b)

EscName(n) ==                      \* HTML escaping of a name (util::escape)
    LET E(c) == CASE c = 60 -> <<38,108,116,59>> [] c = 62 -> <<38,103,116,59>> [] c = 38 -> <<38,97,109,112,59>>
                  [] c = 34 -> <<38,113,117,111,116,59>> [] c = 39 -> <<38,35,51,57,59>> [] OTHER -> <<c>>
        F[i \in 0..Len(n)] == IF i = 0 THEN <<>> ELSE F[i - 1] \o E(n[i])
    IN F[Len(n)]
NoRawMarkup(t) == \A i \in DOMAIN t : t[i] \notin {60, 62, 34, 39}
\* rows = sequence of anchor texts as they appear in the page (escaped, directories with a trailing '/')
RowOK(fs, d, t) ==
    /\ NoRawMarkup(t)
    /\ \E k \in Children(fs, d) :
         LET nm == Last(fs[k].p) IN
         /\ ~IsDotName(nm)
         /\ (t = EscName(nm) \/ t = EscName(nm) \o <<47>>)
ListingRules(fs, cfg, b, rows, h1) ==
    /\ cfg.listing
    /\ NoRawMarkup(h1)
    /\ \E d \in AllowedDirs(fs, cfg, b) : \A i \in DOMAIN rows : RowOK(fs, d, rows[i])

(* ---- mechanism layer ---- *)
\* normalize_path of the implementation, byte level.  After a ".." the output position steps back
\* over the trailing separator and the last segment and stays BEHIND the parent's separator
\* ("/a/b/" -> "/a/").  NormBug = TRUE is the normalisation before commit fd4e774, which stopped ON
\* that separator ("/a/b/" -> "/a") so that the next segment was glued to the parent ("/a/b/../c" ->
\* "/ac"); it is kept for the self-test that re-detects the defect.
RECURSIVE DropToSlash(_)           \* while(out > min) { out--; if(*out == '/') { out++; break; } }
DropToSlash(buf) == IF Len(buf) <= 1 THEN buf
                    ELSE IF Last(buf) = 47 THEN (IF NormBug THEN Front(buf) ELSE buf)
                    ELSE DropToSlash(Front(buf))
RECURSIVE NormCode(_, _, _)
NormCode(segs, i, buf) ==
    IF i > Len(segs) THEN (IF Len(buf) > 1 /\ Last(buf) = 47 THEN Front(buf) ELSE buf)
    ELSE LET c == segs[i] IN
         IF c = EMPTY \/ c = DOT THEN NormCode(segs, i + 1, buf)
         ELSE IF c = DOTDOT THEN NormCode(segs, i + 1, DropToSlash(IF Len(buf) > 1 THEN Front(buf) ELSE buf))
         ELSE NormCode(segs, i + 1, buf \o c \o (IF i < Len(segs) THEN <<47>> ELSE <<>>))
Normalize(b) ==                    \* sequence of names of the normalised path
    LET b1 == IF b = <<>> \/ b[1] # 47 THEN <<47>> \o b ELSE b
        segs == Split(SubSeq(b1, 2, Len(b1)))
    IN Resolve(Split(NormCode(segs, 1, <<47>>)), <<>>)

\* check_in_document_root: [ok, p (file system path the server will stat / open)]
Locate(fs, cfg, b) ==
    LET n == Normalize(b)
        A == { k \in DOMAIN cfg.aliases : IsPrefix(cfg.aliases[k].url, n) }
        a == IF A = {} THEN 0 ELSE CHOOSE k \in A : \A j \in A : k <= j
        root == IF a = 0 THEN cfg.root ELSE cfg.aliases[a].target
        rest == IF a = 0 THEN n ELSE SubSeq(n, Len(cfg.aliases[a].url) + 1, Len(n))
        real == RealPath(fs, root \o rest)
        rr   == RealPath(fs, root)
    IN IF cfg.check THEN (IF real.ok /\ rr.ok /\ (IsPrefix(rr.p, real.p) \/ ~RootCheck) THEN real ELSE NoPath)
       ELSE real                   \* no check: stat()/open() of root + path follow links by themselves

Reply(kind, m, d) == [kind |-> kind, m |-> m, d |-> d]
Serve(fs, cfg, b) ==
    LET loc == Locate(fs, cfg, b) IN
    IF ~loc.ok THEN Reply("404", 0, <<>>)
    ELSE LET k == KindOf(fs, loc.p)
             slash == b # <<>> /\ Last(b) = 47
         IN IF k = "dir" \/ k = "oth" THEN         \* a socket has the S_IFDIR bit set in st_mode
                LET ix == IF k = "dir" THEN Locate(fs, cfg, b \o <<47>> \o cfg.index) ELSE NoPath
                    have == ix.ok /\ KindOf(fs, ix.p) = "reg"
                IN IF b # <<>> /\ ~slash /\ (have \/ cfg.listing) THEN Reply("redirect", 0, <<>>)
                   ELSE IF have THEN Reply("file", Node(fs, ix.p).m, <<>>)
                   ELSE IF cfg.listing /\ k = "dir" THEN Reply("list", 0, loc.p)
                   ELSE Reply("404", 0, <<>>)
            ELSE IF k = "reg" THEN Reply("file", Node(fs, loc.p).m, <<>>)
            ELSE Reply("404", 0, <<>>)

\* the mechanism satisfies the property
ServeInside(fs, cfg, b) ==
    LET r == Serve(fs, cfg, b) IN
    /\ (r.kind = "file" => Inside(fs, cfg, b, r.m))
    /\ (r.kind = "list" => cfg.listing /\ r.d \in AllowedDirs(fs, cfg, b))
=============================================================================
