------------------------------- MODULE FileSrv -------------------------------
(***************************************************************************)
(* C13 - the built-in file server never serves anything outside its        *)
(* document roots.                                                         *)
(*                                                                         *)
(* Names are byte strings (tuples of 0..255), paths are sequences of       *)
(* names.  A file system is a sequence of nodes                            *)
(*   [p : absolute path, k : "dir" | "reg" | "lnk" | "oth", m : marker     *)
(*    (unique per regular file, 0 otherwise), t : link target (absolute)]  *)
(* rooted at the sandbox directory <<>>.  A configuration is               *)
(*   [root : path, check : BOOLEAN (check_symlink), listing : BOOLEAN,     *)
(*    index : name, aliases : sequence of [url : path, target : path]].    *)
(*                                                                         *)
(* PROPERTY LAYER (what Leg B judges replies of the real server with, and  *)
(* what Leg D checks the mechanism model against):                         *)
(*   Inside  - a served file is a regular file that lies inside the        *)
(*             document root or inside the target of an alias that         *)
(*             prefixes the request path after "", "." and ".." are        *)
(*             resolved; with check_symlink "inside" is physical (all      *)
(*             links followed), without it "inside" means reachable from   *)
(*             that directory downwards (links followed by the OS).        *)
(*   Listing rules - a listing is produced only when enabled, for a        *)
(*             directory that is inside in the same sense; the page, read  *)
(*             the way a browser reads it (ReadPage), consists of the      *)
(*             fixed template only, and every anchor names exactly one     *)
(*             visible child: href percent-decoded = text entity-decoded   *)
(*             = name (AnchorsOf); no dot-files.                           *)
(*                                                                         *)
(* MECHANISM LAYER: normalize_path, alias match on whole components,       *)
(* realpath + component-wise prefix test, S_IFDIR / S_IFREG decisions,     *)
(* redirect, index, listing - Serve(fs, cfg, path).  With NormBug = TRUE   *)
(* Normalize reproduces src/internal_file_server.cpp::normalize_path byte  *)
(* for byte (including its merging of "/a/b/../c" into "/ac"); with FALSE  *)
(* it is the intended lexical normalisation.                               *)
(***************************************************************************)
EXTENDS Integers, Sequences, FiniteSets, TLC

CONSTANTS NormBug,      \* TRUE only in the self-test: the segment-merging normalisation of old versions
          RootCheck     \* FALSE only in the self-test: drop the "realpath stays under the root" test

ToSet(s) == { s[i] : i \in DOMAIN s }
Last(s) == s[Len(s)]
Front(s) == SubSeq(s, 1, Len(s) - 1)
IsPrefix(a, b) == Len(a) <= Len(b) /\ SubSeq(b, 1, Len(a)) = a

DOT == <<46>>
DOTDOT == <<46, 46>>
EMPTY == <<>>
IsDotName(n) == Len(n) > 0 /\ n[1] = 46

(* ------------------------------ file system ----------------------------- *)
Exists(fs, p) == \E k \in DOMAIN fs : fs[k].p = p
Node(fs, p) == fs[CHOOSE k \in DOMAIN fs : fs[k].p = p]
KindOf(fs, p) == IF p = <<>> THEN "dir" ELSE IF Exists(fs, p) THEN Node(fs, p).k ELSE "none"
Children(fs, d) == { k \in DOMAIN fs : Len(fs[k].p) = Len(d) + 1 /\ IsPrefix(d, fs[k].p) }

NoPath == [ok |-> FALSE, p |-> <<>>]
\* realpath(3): cur = canonical directory reached so far, rest = components still to walk
RECURSIVE Real(_, _, _, _)
Real(fs, cur, rest, fuel) ==
    IF rest = <<>> THEN [ok |-> TRUE, p |-> cur]
    ELSE LET c == Head(rest)  r == Tail(rest) IN
         IF c = EMPTY \/ c = DOT THEN Real(fs, cur, r, fuel)
         ELSE IF c = DOTDOT THEN Real(fs, IF cur = <<>> THEN cur ELSE Front(cur), r, fuel)
         ELSE LET np == Append(cur, c)  k == KindOf(fs, np) IN
              IF k = "none" THEN NoPath
              ELSE IF k = "lnk" THEN (IF fuel = 0 THEN NoPath ELSE Real(fs, <<>>, Node(fs, np).t \o r, fuel - 1))
              ELSE IF k = "dir" THEN Real(fs, np, r, fuel)
              ELSE IF r = <<>> THEN [ok |-> TRUE, p |-> np] ELSE NoPath      \* ENOTDIR
RealPath(fs, p) == Real(fs, <<>>, p, 8)

\* directories reachable from d going down only, the OS following links (check_symlink off)
RECURSIVE ReachDirs(_, _, _)
ReachDirs(fs, S, n) ==
    LET step == S \cup { r.p : r \in { RealPath(fs, fs[k].p) : k \in UNION { Children(fs, d) : d \in S } } \ {NoPath} }
        dirs == { p \in step : KindOf(fs, p) = "dir" }
    IN IF n = 0 \/ dirs = S THEN dirs ELSE ReachDirs(fs, dirs, n - 1)

\* "inside directory dir": the set of directories and of markers that count as inside
InsideDirs(fs, dir, check) ==
    LET rd == RealPath(fs, dir) IN
    IF ~rd.ok THEN {}
    ELSE IF check THEN { rd.p } \cup { fs[k].p : k \in { j \in DOMAIN fs : fs[j].k = "dir" /\ IsPrefix(rd.p, fs[j].p) } }
    ELSE ReachDirs(fs, { rd.p }, 6)
InsideMarkers(fs, dir, check) ==
    LET D == InsideDirs(fs, dir, check)
        direct == { fs[k].m : k \in { j \in DOMAIN fs : fs[j].k = "reg" /\ Front(fs[j].p) \in D } }
        vialnk == IF check THEN {}
                  ELSE { Node(fs, r.p).m : r \in { x \in { RealPath(fs, fs[k].p) : k \in { j \in DOMAIN fs : fs[j].k = "lnk" /\ Front(fs[j].p) \in D } } :
                                                   x.ok /\ KindOf(fs, x.p) = "reg" } }
    IN direct \cup vialnk

(* --------------------------- request paths ------------------------------ *)
RECURSIVE SplitFrom(_, _, _)       \* split bytes on '/'
SplitFrom(b, i, acc) ==
    IF i > Len(b) THEN <<acc>>
    ELSE IF b[i] = 47 THEN <<acc>> \o SplitFrom(b, i + 1, <<>>)
    ELSE SplitFrom(b, i + 1, Append(acc, b[i]))
Split(b) == SplitFrom(b, 1, <<>>)

RECURSIVE Resolve(_, _)            \* property-level: resolve "", "." and ".." (never above the top)
Resolve(segs, acc) ==
    IF segs = <<>> THEN acc
    ELSE LET c == Head(segs) IN
         Resolve(Tail(segs), IF c = EMPTY \/ c = DOT THEN acc
                             ELSE IF c = DOTDOT THEN (IF acc = <<>> THEN acc ELSE Front(acc))
                             ELSE Append(acc, c))
Resolved(b) == Resolve(Split(b), <<>>)

(* ---- property layer ---- *)
Roots(cfg, b) == { cfg.root } \cup { cfg.aliases[k].target : k \in { j \in DOMAIN cfg.aliases : IsPrefix(cfg.aliases[j].url, Resolved(b)) } }
AllowedMarkers(fs, cfg, b) == UNION { InsideMarkers(fs, r, cfg.check) : r \in Roots(cfg, b) }
AllowedDirs(fs, cfg, b)    == UNION { InsideDirs(fs, r, cfg.check) : r \in Roots(cfg, b) }
\* markers of every alias target - used only to tell a mis-selected alias from a real escape
AnyRootMarkers(fs, cfg) == UNION { InsideMarkers(fs, r, cfg.check) : r \in { cfg.root } \cup { cfg.aliases[k].target : k \in DOMAIN cfg.aliases } }

Inside(fs, cfg, b, m) == m \in AllowedMarkers(fs, cfg, b)

(* ---- listing pages, read the way a browser reads them ----                                   *)
(* A tag ends at '>', an attribute value at the matching quote character (or, unquoted, at white *)
(* space / '>'); names are case-insensitive.  ReadPage returns [ok, anchors]: ok = every tag is   *)
(* one of the fixed template with only the template's attributes (so nothing was injected by a   *)
(* name or by the request path), anchors = sequence of [h : raw href value, t : raw text].       *)
AtB(t, i) == IF i >= 1 /\ i <= Len(t) THEN t[i] ELSE 256
IsWsB(c) == c \in {32, 9, 10, 13, 12}
LowerB(s) == [k \in 1..Len(s) |-> IF s[k] >= 65 /\ s[k] <= 90 THEN s[k] + 32 ELSE s[k]]
RECURSIVE FindB(_, _, _)
FindB(t, i, c) == IF i > Len(t) THEN 0 ELSE IF t[i] = c THEN i ELSE FindB(t, i + 1, c)
RECURSIVE SkipWsB(_, _)
SkipWsB(t, i) == IF i <= Len(t) /\ IsWsB(t[i]) THEN SkipWsB(t, i + 1) ELSE i
RECURSIVE NameEndB(_, _, _)        \* a name ends at white space, '/', '>' (attribute names also at '=')
NameEndB(t, i, eq) == IF i > Len(t) \/ IsWsB(t[i]) \/ t[i] = 47 \/ t[i] = 62 \/ (eq /\ t[i] = 61) THEN i ELSE NameEndB(t, i + 1, eq)
RECURSIVE UnqEndB(_, _)            \* an unquoted value ends at white space or '>'
UnqEndB(t, i) == IF i > Len(t) \/ IsWsB(t[i]) \/ t[i] = 62 THEN i ELSE UnqEndB(t, i + 1)

\* attributes of a start tag: [e : index of its '>' (0 = never closed), names, vals (parallel; <<>> when no value)]
RECURSIVE TagAttrs(_, _, _)
TagAttrs(t, i, acc) ==
    LET q == SkipWsB(t, i) IN
    IF q > Len(t) THEN [acc EXCEPT !.e = 0]
    ELSE IF t[q] = 62 THEN [acc EXCEPT !.e = q]
    ELSE IF t[q] = 47 THEN TagAttrs(t, q + 1, acc)
    ELSE LET ne == IF t[q] = 61 THEN NameEndB(t, q + 1, TRUE) ELSE NameEndB(t, q, TRUE)
             nm == LowerB(SubSeq(t, q, ne - 1))
             q2 == SkipWsB(t, ne)
         IN IF AtB(t, q2) # 61 THEN TagAttrs(t, ne, [acc EXCEPT !.names = Append(@, nm), !.vals = Append(@, <<>>)])
            ELSE LET q3 == SkipWsB(t, q2 + 1)  c == AtB(t, q3) IN
                 IF c = 34 \/ c = 39
                 THEN LET qe == FindB(t, q3 + 1, c) IN
                      IF qe = 0 THEN [acc EXCEPT !.e = 0]
                      ELSE TagAttrs(t, qe + 1, [acc EXCEPT !.names = Append(@, nm), !.vals = Append(@, SubSeq(t, q3 + 1, qe - 1))])
                 ELSE LET ve == UnqEndB(t, q3) IN
                      TagAttrs(t, ve, [acc EXCEPT !.names = Append(@, nm), !.vals = Append(@, SubSeq(t, q3, ve - 1))])

nA == <<97>>  nTd == <<116,100>>  nHref == <<104,114,101,102>>  nWidth == <<119,105,100,116,104>>
TemplateNames == { <<104,116,109,108>>, <<104,101,97,100>>, <<116,105,116,108,101>>, <<98,111,100,121>>, <<104,49>>,
                   <<116,97,98,108,101>>, <<116,104,101,97,100>>, <<116,98,111,100,121>>, <<116,114>>, nTd,
                   <<99,111,100,101>>, nA, <<115,116,114,111,110,103>>, <<112>> }
\* html head title body h1 table thead tbody tr td code a strong p
TemplateTag(nm, names) ==
    /\ nm \in TemplateNames
    /\ IF nm = nA THEN names = <<nHref>> ELSE IF nm = nTd THEN names \in { <<>>, <<nWidth>> } ELSE names = <<>>

NoPage == [ok |-> TRUE, anchors |-> <<>>]
RECURSIVE ReadPage(_, _, _)
ReadPage(t, i, acc) ==
    LET p == FindB(t, i, 60) IN
    IF p = 0 THEN acc
    ELSE IF AtB(t, p + 1) = 33 THEN                         \* <!DOCTYPE ...>
         (LET e == FindB(t, p, 62) IN IF e = 0 THEN [acc EXCEPT !.ok = FALSE] ELSE ReadPage(t, e + 1, acc))
    ELSE IF AtB(t, p + 1) = 47 THEN                         \* end tag
         (LET e == FindB(t, p, 62) IN
          IF e = 0 \/ LowerB(SubSeq(t, p + 2, e - 1)) \notin TemplateNames THEN [acc EXCEPT !.ok = FALSE]
          ELSE ReadPage(t, e + 1, acc))
    ELSE LET ne == NameEndB(t, p + 1, FALSE)
             nm == LowerB(SubSeq(t, p + 1, ne - 1))
             a  == TagAttrs(t, ne, [e |-> 0, names |-> <<>>, vals |-> <<>>])
         IN IF a.e = 0 \/ ~TemplateTag(nm, a.names) THEN [acc EXCEPT !.ok = FALSE]
            ELSE IF nm = nA THEN                            \* anchor: its text runs to the next tag, which must be </a>
                 (LET c == FindB(t, a.e + 1, 60) IN
                  IF c = 0 \/ LowerB(SubSeq(t, c, c + 3)) # <<60,47,97,62>> THEN [acc EXCEPT !.ok = FALSE]
                  ELSE ReadPage(t, c + 4, [acc EXCEPT !.anchors = Append(@, [h |-> a.vals[1], t |-> SubSeq(t, a.e + 1, c - 1)])]))
            ELSE ReadPage(t, a.e + 1, acc)

HexB(c) == IF c >= 48 /\ c <= 57 THEN c - 48 ELSE IF c >= 97 /\ c <= 102 THEN c - 87 ELSE IF c >= 65 /\ c <= 70 THEN c - 55 ELSE 99
PctDec(h) ==                       \* what the browser requests for this href
    LET D[i \in 1..(Len(h) + 1)] ==
            IF i > Len(h) THEN <<>>
            ELSE IF h[i] = 37 /\ i + 2 <= Len(h) /\ HexB(h[i + 1]) # 99 /\ HexB(h[i + 2]) # 99
                 THEN <<HexB(h[i + 1]) * 16 + HexB(h[i + 2])>> \o D[i + 3]
                 ELSE <<h[i]>> \o D[i + 1]
    IN D[1]
Ents == << [n |-> <<108,116,59>>, c |-> 60], [n |-> <<103,116,59>>, c |-> 62], [n |-> <<97,109,112,59>>, c |-> 38],
           [n |-> <<113,117,111,116,59>>, c |-> 34], [n |-> <<97,112,111,115,59>>, c |-> 39], [n |-> <<35,51,57,59>>, c |-> 39],
           [n |-> <<35,120,50,55,59>>, c |-> 39], [n |-> <<35,51,52,59>>, c |-> 34], [n |-> <<35,54,48,59>>, c |-> 60],
           [n |-> <<35,54,50,59>>, c |-> 62], [n |-> <<35,51,56,59>>, c |-> 38] >>
EntDec(t) ==                       \* the text the browser shows
    LET M(i) == { k \in DOMAIN Ents : i + Len(Ents[k].n) <= Len(t) /\ SubSeq(t, i + 1, i + Len(Ents[k].n)) = Ents[k].n }
        D[i \in 1..(Len(t) + 1)] ==
            IF i > Len(t) THEN <<>>
            ELSE IF t[i] = 38 /\ M(i) # {} THEN (LET k == CHOOSE k \in M(i) : TRUE IN <<Ents[k].c>> \o D[i + Len(Ents[k].n) + 1])
            ELSE <<t[i]>> \o D[i + 1]
    IN D[1]

UpRow(a) == PctDec(a.h) = <<46,46,47>> /\ a.t = <<46,46>>
\* anchors of a listing of directory d: each one names exactly one visible child, href and text agree, no child twice
AnchorsOf(fs, d, anchors) ==
    LET rows == SelectSeq(anchors, LAMBDA a : ~UpRow(a)) IN
    /\ Len(anchors) - Len(rows) <= 1
    /\ \A i \in DOMAIN rows :
          /\ PctDec(rows[i].h) = EntDec(rows[i].t)
          /\ \E k \in Children(fs, d) : LET nm == Last(fs[k].p) IN ~IsDotName(nm) /\ PctDec(rows[i].h) \in { nm, nm \o <<47>> }
    /\ \A i, j \in DOMAIN rows : i # j => PctDec(rows[i].h) # PctDec(rows[j].h)
\* what the implementation is expected to list (drift only): visible children that stat() finds
ExpectedRows(fs, d) ==
    { r \in { LET x == RealPath(fs, fs[k].p) IN
               IF ~x.ok THEN <<>>
               ELSE IF KindOf(fs, x.p) \in {"dir", "oth"} THEN Last(fs[k].p) \o <<47>>
               ELSE IF KindOf(fs, x.p) = "reg" THEN Last(fs[k].p) ELSE <<>>
               : k \in { j \in Children(fs, d) : ~IsDotName(Last(fs[j].p)) } } : r # <<>> }
RowsOf(anchors) == { PctDec(anchors[i].h) : i \in { j \in DOMAIN anchors : ~UpRow(anchors[j]) } }

(* ---- mechanism layer ---- *)
\* normalize_path of the implementation, byte level.  After a ".." the output position steps back
\* over the trailing separator and the last segment and stays BEHIND the parent's separator
\* ("/a/b/" -> "/a/").  NormBug = TRUE is the normalisation before commit fd4e774, which stopped ON
\* that separator ("/a/b/" -> "/a") so that the next segment was glued to the parent ("/a/b/../c" ->
\* "/ac"); it is kept for the self-test that re-detects the defect.
RECURSIVE DropToSlash(_)           \* while(out > min) { out--; if(*out == '/') { out++; break; } }
DropToSlash(buf) == IF Len(buf) <= 1 THEN buf
                    ELSE IF Last(buf) = 47 THEN (IF NormBug THEN Front(buf) ELSE buf)
                    ELSE DropToSlash(Front(buf))
RECURSIVE NormCode(_, _, _)
NormCode(segs, i, buf) ==
    IF i > Len(segs) THEN (IF Len(buf) > 1 /\ Last(buf) = 47 THEN Front(buf) ELSE buf)
    ELSE LET c == segs[i] IN
         IF c = EMPTY \/ c = DOT THEN NormCode(segs, i + 1, buf)
         ELSE IF c = DOTDOT THEN NormCode(segs, i + 1, DropToSlash(IF Len(buf) > 1 THEN Front(buf) ELSE buf))
         ELSE NormCode(segs, i + 1, buf \o c \o (IF i < Len(segs) THEN <<47>> ELSE <<>>))
Normalize(b) ==                    \* sequence of names of the normalised path
    LET b1 == IF b = <<>> \/ b[1] # 47 THEN <<47>> \o b ELSE b
        segs == Split(SubSeq(b1, 2, Len(b1)))
    IN Resolve(Split(NormCode(segs, 1, <<47>>)), <<>>)

\* check_in_document_root: [ok, p (file system path the server will stat / open)]
Locate(fs, cfg, b) ==
    LET n == Normalize(b)
        A == { k \in DOMAIN cfg.aliases : IsPrefix(cfg.aliases[k].url, n) }
        a == IF A = {} THEN 0 ELSE CHOOSE k \in A : \A j \in A : k <= j
        root == IF a = 0 THEN cfg.root ELSE cfg.aliases[a].target
        rest == IF a = 0 THEN n ELSE SubSeq(n, Len(cfg.aliases[a].url) + 1, Len(n))
        real == RealPath(fs, root \o rest)
        rr   == RealPath(fs, root)
    IN IF cfg.check THEN (IF real.ok /\ rr.ok /\ (IsPrefix(rr.p, real.p) \/ ~RootCheck) THEN real ELSE NoPath)
       ELSE real                   \* no check: stat()/open() of root + path follow links by themselves

Reply(kind, m, d) == [kind |-> kind, m |-> m, d |-> d]
Serve(fs, cfg, b) ==
    LET loc == Locate(fs, cfg, b) IN
    IF ~loc.ok THEN Reply("404", 0, <<>>)
    ELSE LET k == KindOf(fs, loc.p)
             slash == b # <<>> /\ Last(b) = 47
         IN IF k = "dir" \/ k = "oth" THEN         \* a socket has the S_IFDIR bit set in st_mode
                LET ix == IF k = "dir" THEN Locate(fs, cfg, b \o <<47>> \o cfg.index) ELSE NoPath
                    have == ix.ok /\ KindOf(fs, ix.p) = "reg"
                IN IF b # <<>> /\ ~slash /\ (have \/ cfg.listing) THEN Reply("redirect", 0, <<>>)
                   ELSE IF have THEN Reply("file", Node(fs, ix.p).m, <<>>)
                   ELSE IF cfg.listing /\ k = "dir" THEN Reply("list", 0, loc.p)
                   ELSE Reply("404", 0, <<>>)
            ELSE IF k = "reg" THEN Reply("file", Node(fs, loc.p).m, <<>>)
            ELSE Reply("404", 0, <<>>)

\* the mechanism satisfies the property
ServeInside(fs, cfg, b) ==
    LET r == Serve(fs, cfg, b) IN
    /\ (r.kind = "file" => Inside(fs, cfg, b, r.m))
    /\ (r.kind = "list" => cfg.listing /\ r.d \in AllowedDirs(fs, cfg, b))
=============================================================================
