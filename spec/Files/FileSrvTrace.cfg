SPECIFICATION TraceSpec
CONSTANTS
  NormBug = FALSE
  RootCheck = TRUE
POSTCONDITION TraceDone
CHECK_DEADLOCK FALSE
