SPECIFICATION Spec
CONSTANTS
  NormBug = FALSE
  RootCheck = FALSE
  Segs = {1,2,3,4,5,6,7,8,9,10,11,12}
  MaxLen = 2
  Cfgs = {1,5}
INVARIANTS InsideInv NoEscape
CHECK_DEADLOCK FALSE
