SPECIFICATION Spec
CONSTANTS
  NormBug = FALSE
  RootCheck = TRUE
  Segs = {19,20,21,4,2,5}
  MaxLen = 5
  Cfgs = {4,5}
INVARIANTS InsideInv NoEscape
CHECK_DEADLOCK FALSE
