SPECIFICATION Spec
CONSTANTS
  NormBug = FALSE
  RootCheck = TRUE
  Segs = {1,2,3,4,5,6,7,8,9,10,11,12}
  MaxLen = 4
  Cfgs = {0,1,2,3,4,5,6,7}
INVARIANTS InsideInv NoEscape
CHECK_DEADLOCK FALSE
