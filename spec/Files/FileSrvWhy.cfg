SPECIFICATION WhySpec
CONSTANTS
  NormBug = FALSE
  RootCheck = TRUE
POSTCONDITION TraceDone
CHECK_DEADLOCK FALSE
