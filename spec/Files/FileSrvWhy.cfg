SPECIFICATION WhySpec
CONSTANTS
  NormBug = TRUE
  RootCheck = TRUE
POSTCONDITION TraceDone
CHECK_DEADLOCK FALSE
