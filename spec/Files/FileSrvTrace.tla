----------------------------- MODULE FileSrvTrace -----------------------------
(***************************************************************************)
(* Leg B for C13.  Trace lines recorded from the real                      *)
(* cppcms::impl::file_server running over the on-disk sandbox:             *)
(*   Reset{cfg, c : configuration, fs : the tree the harness planted}      *)
(*   Get{raw : request path as sent (percent-encoded spelling),            *)
(*       p   : path handed to file_server::main (after util::urldecode,     *)
(*             cut at NUL as the HTTP front end does),                     *)
(*       st, kind : "404" | "redirect" | "file" | "list" | "other",        *)
(*       m   : marker found in the body (file),                            *)
(*       head, tb : the listing page as returned, cut at "<tbody>"; tb is  *)
(*             logged once per Reset block and referred to by bo = offset  *)
(*             (from the Reset line) of the line that carries it}          *)
(* TraceSpec accepts a Get line iff the reply is one the property allows   *)
(* (Inside / ListingRules of FileSrv.tla).  WhySpec classifies rejected    *)
(* lines; DriftSpec compares the reply predicted by the mechanism model    *)
(* (Serve) and reports differences as MODEL-DRIFT only.                    *)
(***************************************************************************)
EXTENDS FileSrv, TraceBase

VARIABLES l, rl, ins,     \* cursor; line of the Reset in force; per-root "inside" sets computed at Reset
          lst             \* verdicts on the listing tables seen in this block: offset -> [ok, sub, eq]
tvars == <<l, rl, ins, lst>>

Ev == TraceLog[l]
Is(name) == l <= NLines /\ Ev.e = name /\ l' = l + 1
cfg == TraceLog[rl].c
fs  == TraceLog[rl].fs

InsOf(f, c) == [rootM |-> InsideMarkers(f, c.root, c.check), rootD |-> InsideDirs(f, c.root, c.check),
                alM |-> [k \in DOMAIN c.aliases |-> InsideMarkers(f, c.aliases[k].target, c.check)],
                alD |-> [k \in DOMAIN c.aliases |-> InsideDirs(f, c.aliases[k].target, c.check)]]
TReset == Is("Reset") /\ rl' = l /\ ins' = InsOf(Ev.fs, Ev.c) /\ lst' = <<>>

Sel(b) == { k \in DOMAIN cfg.aliases : IsPrefix(cfg.aliases[k].url, Resolved(b)) }
OkMarkers(b) == ins.rootM \cup UNION { ins.alM[k] : k \in Sel(b) }
OkDirs(b)    == ins.rootD \cup UNION { ins.alD[k] : k \in Sel(b) }
AnyMarkers   == ins.rootM \cup UNION { ins.alM[k] : k \in DOMAIN cfg.aliases }

\* a listing table, read as a browser reads it: template only? which directories can it be a listing of?
AllDirs == { <<>> } \cup { fs[k].p : k \in { j \in DOMAIN fs : fs[j].k = "dir" } }
Judge(tb) == LET pg == ReadPage(tb, 1, NoPage) IN
             [ok  |-> pg.ok,
              sub |-> { d \in AllDirs : AnchorsOf(fs, d, pg.anchors) },             \* property: anchors name visible children
              eq  |-> { d \in AllDirs : RowsOf(pg.anchors) = ExpectedRows(fs, d) }] \* mechanism: exactly the expected rows
NoVerdict == [ok |-> FALSE, sub |-> {}, eq |-> {}]
Verdict == IF Ev.kind # "list" THEN NoVerdict
           ELSE IF Has(Ev, "tb") THEN Judge(Ev.tb)
           ELSE IF Ev.bo \in DOMAIN lst THEN lst[Ev.bo] ELSE NoVerdict
HeadOK == LET pg == ReadPage(Ev.head, 1, NoPage) IN pg.ok /\ pg.anchors = <<>>

ListOK(b, v) ==
    /\ cfg.listing
    /\ HeadOK /\ v.ok
    /\ v.sub \cap OkDirs(b) # {}

Accept ==
    CASE Ev.kind = "404" -> TRUE
      [] Ev.kind = "redirect" -> TRUE
      [] Ev.kind = "file" -> Ev.m \in OkMarkers(Ev.p)
      [] Ev.kind = "list" -> ListOK(Ev.p, Verdict)
      [] OTHER -> FALSE

Remember == lst' = IF Ev.kind = "list" /\ Has(Ev, "tb") THEN (Ev.bo :> Judge(Ev.tb)) @@ lst ELSE lst
TGet == Is("Get") /\ Accept /\ Remember /\ UNCHANGED <<rl, ins>>
TraceInit == l = 1 /\ rl = 0 /\ ins = <<>> /\ lst = <<>>
TraceNext == TReset \/ TGet
TraceSpec == TraceInit /\ [][TraceNext]_tvars

(* ---- diagnosis: 1 file from outside every root, 2 file of a root/alias the path does not select, *)
(* 3 listing although disabled, 4 listing of a directory that is not inside, 5 listing page is not  *)
(* the template with one well-formed anchor per visible child (dot-file shown, name not escaped,    *)
(* attribute / tag injected by a name, href and text disagree), 6 unrecognised 200 reply            *)
Why ==
    CASE Ev.kind = "file" -> IF Ev.m \in AnyMarkers THEN 2 ELSE 1
      [] Ev.kind = "list" -> IF ~cfg.listing THEN 3
                             ELSE IF ~HeadOK \/ ~Verdict.ok \/ Verdict.sub = {} THEN 5
                             ELSE 4
      [] OTHER -> 6
WGet == Is("Get") /\ Remember /\ UNCHANGED <<rl, ins>> /\ (Accept \/ PrintT(<<"WHY", l, Why>>))
WhySpec == TraceInit /\ [][TReset \/ WGet]_tvars

(* ---- drift: the mechanism model's prediction ---- *)
Decode(raw) ==                     \* util::urldecode + C-string cut, as the HTTP front end
    LET Hex(c) == IF c >= 48 /\ c <= 57 THEN c - 48 ELSE IF c >= 97 /\ c <= 102 THEN c - 87 ELSE IF c >= 65 /\ c <= 70 THEN c - 55 ELSE 99
        D[i \in 1..(Len(raw) + 1)] ==
            IF i > Len(raw) THEN <<>>
            ELSE IF raw[i] = 43 THEN <<32>> \o D[i + 1]
            ELSE IF raw[i] = 37 THEN
                 (IF i + 2 <= Len(raw) /\ Hex(raw[i + 1]) # 99 /\ Hex(raw[i + 2]) # 99
                  THEN (IF Hex(raw[i + 1]) * 16 + Hex(raw[i + 2]) = 0 THEN <<>>      \* NUL ends the C string
                        ELSE <<Hex(raw[i + 1]) * 16 + Hex(raw[i + 2])>> \o D[i + 3])
                  ELSE D[i + 1])
            ELSE <<raw[i]>> \o D[i + 1]
    IN D[1]
Report(what) == PrintT(<<"DRIFT", l, what>>)
DGet ==
    /\ Is("Get") /\ Remember /\ UNCHANGED <<rl, ins>>
    /\ LET r == Serve(fs, cfg, Ev.p) IN
       /\ (Decode(Ev.raw) = Ev.p \/ Report("decode"))
       /\ (r.kind = Ev.kind \/ Report("kind"))
       /\ (~(r.kind = "file" /\ Ev.kind = "file") \/ r.m = Ev.m \/ Report("file"))
       /\ (~(r.kind = "list" /\ Ev.kind = "list") \/ r.d \in Verdict.eq \/ Report("listing"))
DriftSpec == TraceInit /\ [][TReset \/ DGet]_tvars
=============================================================================
