---- MODULE Utf8Trace_TTrace_1790461628 ----
EXTENDS Sequences, TLCExt, Utf8Trace, Toolbox, Naturals, TLC

_expression ==
    LET Utf8Trace_TEExpression == INSTANCE Utf8Trace_TEExpression
    IN Utf8Trace_TEExpression!expression
----

_trace ==
    LET Utf8Trace_TETrace == INSTANCE Utf8Trace_TETrace
    IN Utf8Trace_TETrace!trace
----

_inv ==
    ~(
        TLCGet("level") = Len(_TETrace)
        /\
        p = (<<>>)
        /\
        tabcp = ("")
        /\
        tab = (<<>>)
        /\
        l = (379)
    )
----

_init ==
    /\ tab = _TETrace[1].tab
    /\ l = _TETrace[1].l
    /\ p = _TETrace[1].p
    /\ tabcp = _TETrace[1].tabcp
----

_next ==
    /\ \E i,j \in DOMAIN _TETrace:
        /\ \/ /\ j = i + 1
              /\ i = TLCGet("level")
        /\ tab  = _TETrace[i].tab
        /\ tab' = _TETrace[j].tab
        /\ l  = _TETrace[i].l
        /\ l' = _TETrace[j].l
        /\ p  = _TETrace[i].p
        /\ p' = _TETrace[j].p
        /\ tabcp  = _TETrace[i].tabcp
        /\ tabcp' = _TETrace[j].tabcp

\* Uncomment the ASSUME below to write the states of the error trace
\* to the given file in Json format. Note that you can pass any tuple
\* to `JsonSerialize`. For example, a sub-sequence of _TETrace.
    \* ASSUME
    \*     LET J == INSTANCE Json
    \*         IN J!JsonSerialize("Utf8Trace_TTrace_1790461628.json", _TETrace)

=============================================================================

 Note that you can extract this module `Utf8Trace_TEExpression`
  to a dedicated file to reuse `expression` (the module in the 
  dedicated `Utf8Trace_TEExpression.tla` file takes precedence 
  over the module `Utf8Trace_TEExpression` below).

---- MODULE Utf8Trace_TEExpression ----
EXTENDS Sequences, TLCExt, Utf8Trace, Toolbox, Naturals, TLC

expression == 
    [
        \* To hide variables of the `Utf8Trace` spec from the error trace,
        \* remove the variables below.  The trace will be written in the order
        \* of the fields of this record.
        tab |-> tab
        ,l |-> l
        ,p |-> p
        ,tabcp |-> tabcp
        
        \* Put additional constant-, state-, and action-level expressions here:
        \* ,_stateNumber |-> _TEPosition
        \* ,_tabUnchanged |-> tab = tab'
        
        \* Format the `tab` variable as Json value.
        \* ,_tabJson |->
        \*     LET J == INSTANCE Json
        \*     IN J!ToJson(tab)
        
        \* Lastly, you may build expressions over arbitrary sets of states by
        \* leveraging the _TETrace operator.  For example, this is how to
        \* count the number of times a spec variable changed up to the current
        \* state in the trace.
        \* ,_tabModCount |->
        \*     LET F[s \in DOMAIN _TETrace] ==
        \*         IF s = 1 THEN 0
        \*         ELSE IF _TETrace[s].tab # _TETrace[s-1].tab
        \*             THEN 1 + F[s-1] ELSE F[s-1]
        \*     IN F[_TEPosition - 1]
    ]

=============================================================================



Parsing and semantic processing can take forever if the trace below is long.
 In this case, it is advised to uncomment the module below to deserialize the
 trace from a generated binary file.

\*
\*---- MODULE Utf8Trace_TETrace ----
\*EXTENDS IOUtils, Utf8Trace, TLC
\*
\*trace == IODeserialize("Utf8Trace_TTrace_1790461628.bin", TRUE)
\*
\*=============================================================================
\*

---- MODULE Utf8Trace_TETrace ----
EXTENDS Utf8Trace, TLC

trace == 
    <<
    ([p |-> <<>>,tabcp |-> "",tab |-> <<>>,l |-> 1]),
    ([p |-> <<>>,tabcp |-> "",tab |-> <<>>,l |-> 2]),
    ([p |-> <<>>,tabcp |-> "",tab |-> <<>>,l |-> 3]),
    ([p |-> <<>>,tabcp |-> "",tab |-> <<>>,l |-> 4]),
    ([p |-> <<>>,tabcp |-> "",tab |-> <<>>,l |-> 5]),
    ([p |-> <<>>,tabcp |-> "",tab |-> <<>>,l |-> 6]),
    ([p |-> <<>>,tabcp |-> "",tab |-> <<>>,l |-> 7]),
    ([p |-> <<>>,tabcp |-> "",tab |-> <<>>,l |-> 8]),
    ([p |-> <<>>,tabcp |-> "",tab |-> <<>>,l |-> 9]),
    ([p |-> <<>>,tabcp |-> "",tab |-> <<>>,l |-> 10]),
    ([p |-> <<>>,tabcp |-> "",tab |-> <<>>,l |-> 11]),
    ([p |-> <<>>,tabcp |-> "",tab |-> <<>>,l |-> 12]),
    ([p |-> <<>>,tabcp |-> "",tab |-> <<>>,l |-> 13]),
    ([p |-> <<>>,tabcp |-> "",tab |-> <<>>,l |-> 14]),
    ([p |-> <<>>,tabcp |-> "",tab |-> <<>>,l |-> 15]),
    ([p |-> <<>>,tabcp |-> "",tab |-> <<>>,l |-> 16]),
    ([p |-> <<>>,tabcp |-> "",tab |-> <<>>,l |-> 17]),
    ([p |-> <<>>,tabcp |-> "",tab |-> <<>>,l |-> 18]),
    ([p |-> <<>>,tabcp |-> "",tab |-> <<>>,l |-> 19]),
    ([p |-> <<>>,tabcp |-> "",tab |-> <<>>,l |-> 20]),
    ([p |-> <<>>,tabcp |-> "",tab |-> <<>>,l |-> 21]),
    ([p |-> <<>>,tabcp |-> "",tab |-> <<>>,l |-> 22]),
    ([p |-> <<>>,tabcp |-> "",tab |-> <<>>,l |-> 23]),
    ([p |-> <<>>,tabcp |-> "",tab |-> <<>>,l |-> 24]),
    ([p |-> <<>>,tabcp |-> "",tab |-> <<>>,l |-> 25]),
    ([p |-> <<>>,tabcp |-> "",tab |-> <<>>,l |-> 26]),
    ([p |-> <<>>,tabcp |-> "",tab |-> <<>>,l |-> 27]),
    ([p |-> <<>>,tabcp |-> "",tab |-> <<>>,l |-> 28]),
    ([p |-> <<>>,tabcp |-> "",tab |-> <<>>,l |-> 29]),
    ([p |-> <<>>,tabcp |-> "",tab |-> <<>>,l |-> 30]),
    ([p |-> <<>>,tabcp |-> "",tab |-> <<>>,l |-> 31]),
    ([p |-> <<>>,tabcp |-> "",tab |-> <<>>,l |-> 32]),
    ([p |-> <<>>,tabcp |-> "",tab |-> <<>>,l |-> 33]),
    ([p |-> <<>>,tabcp |-> "",tab |-> <<>>,l |-> 34]),
    ([p |-> <<>>,tabcp |-> "",tab |-> <<>>,l |-> 35]),
    ([p |-> <<>>,tabcp |-> "",tab |-> <<>>,l |-> 36]),
    ([p |-> <<>>,tabcp |-> "",tab |-> <<>>,l |-> 37]),
    ([p |-> <<>>,tabcp |-> "",tab |-> <<>>,l |-> 38]),
    ([p |-> <<>>,tabcp |-> "",tab |-> <<>>,l |-> 39]),
    ([p |-> <<>>,tabcp |-> "",tab |-> <<>>,l |-> 40]),
    ([p |-> <<>>,tabcp |-> "",tab |-> <<>>,l |-> 41]),
    ([p |-> <<>>,tabcp |-> "",tab |-> <<>>,l |-> 42]),
    ([p |-> <<>>,tabcp |-> "",tab |-> <<>>,l |-> 43]),
    ([p |-> <<>>,tabcp |-> "",tab |-> <<>>,l |-> 44]),
    ([p |-> <<>>,tabcp |-> "",tab |-> <<>>,l |-> 45]),
    ([p |-> <<>>,tabcp |-> "",tab |-> <<>>,l |-> 46]),
    ([p |-> <<>>,tabcp |-> "",tab |-> <<>>,l |-> 47]),
    ([p |-> <<>>,tabcp |-> "",tab |-> <<>>,l |-> 48]),
    ([p |-> <<>>,tabcp |-> "",tab |-> <<>>,l |-> 49]),
    ([p |-> <<>>,tabcp |-> "",tab |-> <<>>,l |-> 50]),
    ([p |-> <<>>,tabcp |-> "",tab |-> <<>>,l |-> 51]),
    ([p |-> <<>>,tabcp |-> "",tab |-> <<>>,l |-> 52]),
    ([p |-> <<>>,tabcp |-> "",tab |-> <<>>,l |-> 53]),
    ([p |-> <<>>,tabcp |-> "",tab |-> <<>>,l |-> 54]),
    ([p |-> <<>>,tabcp |-> "",tab |-> <<>>,l |-> 55]),
    ([p |-> <<>>,tabcp |-> "",tab |-> <<>>,l |-> 56]),
    ([p |-> <<>>,tabcp |-> "",tab |-> <<>>,l |-> 57]),
    ([p |-> <<>>,tabcp |-> "",tab |-> <<>>,l |-> 58]),
    ([p |-> <<>>,tabcp |-> "",tab |-> <<>>,l |-> 59]),
    ([p |-> <<>>,tabcp |-> "",tab |-> <<>>,l |-> 60]),
    ([p |-> <<>>,tabcp |-> "",tab |-> <<>>,l |-> 61]),
    ([p |-> <<>>,tabcp |-> "",tab |-> <<>>,l |-> 62]),
    ([p |-> <<>>,tabcp |-> "",tab |-> <<>>,l |-> 63]),
    ([p |-> <<>>,tabcp |-> "",tab |-> <<>>,l |-> 64]),
    ([p |-> <<>>,tabcp |-> "",tab |-> <<>>,l |-> 65]),
    ([p |-> <<>>,tabcp |-> "",tab |-> <<>>,l |-> 66]),
    ([p |-> <<>>,tabcp |-> "",tab |-> <<>>,l |-> 67]),
    ([p |-> <<>>,tabcp |-> "",tab |-> <<>>,l |-> 68]),
    ([p |-> <<>>,tabcp |-> "",tab |-> <<>>,l |-> 69]),
    ([p |-> <<>>,tabcp |-> "",tab |-> <<>>,l |-> 70]),
    ([p |-> <<>>,tabcp |-> "",tab |-> <<>>,l |-> 71]),
    ([p |-> <<>>,tabcp |-> "",tab |-> <<>>,l |-> 72]),
    ([p |-> <<>>,tabcp |-> "",tab |-> <<>>,l |-> 73]),
    ([p |-> <<>>,tabcp |-> "",tab |-> <<>>,l |-> 74]),
    ([p |-> <<>>,tabcp |-> "",tab |-> <<>>,l |-> 75]),
    ([p |-> <<>>,tabcp |-> "",tab |-> <<>>,l |-> 76]),
    ([p |-> <<>>,tabcp |-> "",tab |-> <<>>,l |-> 77]),
    ([p |-> <<>>,tabcp |-> "",tab |-> <<>>,l |-> 78]),
    ([p |-> <<>>,tabcp |-> "",tab |-> <<>>,l |-> 79]),
    ([p |-> <<>>,tabcp |-> "",tab |-> <<>>,l |-> 80]),
    ([p |-> <<>>,tabcp |-> "",tab |-> <<>>,l |-> 81]),
    ([p |-> <<>>,tabcp |-> "",tab |-> <<>>,l |-> 82]),
    ([p |-> <<>>,tabcp |-> "",tab |-> <<>>,l |-> 83]),
    ([p |-> <<>>,tabcp |-> "",tab |-> <<>>,l |-> 84]),
    ([p |-> <<>>,tabcp |-> "",tab |-> <<>>,l |-> 85]),
    ([p |-> <<>>,tabcp |-> "",tab |-> <<>>,l |-> 86]),
    ([p |-> <<>>,tabcp |-> "",tab |-> <<>>,l |-> 87]),
    ([p |-> <<>>,tabcp |-> "",tab |-> <<>>,l |-> 88]),
    ([p |-> <<>>,tabcp |-> "",tab |-> <<>>,l |-> 89]),
    ([p |-> <<>>,tabcp |-> "",tab |-> <<>>,l |-> 90]),
    ([p |-> <<>>,tabcp |-> "",tab |-> <<>>,l |-> 91]),
    ([p |-> <<>>,tabcp |-> "",tab |-> <<>>,l |-> 92]),
    ([p |-> <<>>,tabcp |-> "",tab |-> <<>>,l |-> 93]),
    ([p |-> <<>>,tabcp |-> "",tab |-> <<>>,l |-> 94]),
    ([p |-> <<>>,tabcp |-> "",tab |-> <<>>,l |-> 95]),
    ([p |-> <<>>,tabcp |-> "",tab |-> <<>>,l |-> 96]),
    ([p |-> <<>>,tabcp |-> "",tab |-> <<>>,l |-> 97]),
    ([p |-> <<>>,tabcp |-> "",tab |-> <<>>,l |-> 98]),
    ([p |-> <<>>,tabcp |-> "",tab |-> <<>>,l |-> 99]),
    ([p |-> <<>>,tabcp |-> "",tab |-> <<>>,l |-> 100]),
    ([p |-> <<>>,tabcp |-> "",tab |-> <<>>,l |-> 101]),
    ([p |-> <<>>,tabcp |-> "",tab |-> <<>>,l |-> 102]),
    ([p |-> <<>>,tabcp |-> "",tab |-> <<>>,l |-> 103]),
    ([p |-> <<>>,tabcp |-> "",tab |-> <<>>,l |-> 104]),
    ([p |-> <<>>,tabcp |-> "",tab |-> <<>>,l |-> 105]),
    ([p |-> <<>>,tabcp |-> "",tab |-> <<>>,l |-> 106]),
    ([p |-> <<>>,tabcp |-> "",tab |-> <<>>,l |-> 107]),
    ([p |-> <<>>,tabcp |-> "",tab |-> <<>>,l |-> 108]),
    ([p |-> <<>>,tabcp |-> "",tab |-> <<>>,l |-> 109]),
    ([p |-> <<>>,tabcp |-> "",tab |-> <<>>,l |-> 110]),
    ([p |-> <<>>,tabcp |-> "",tab |-> <<>>,l |-> 111]),
    ([p |-> <<>>,tabcp |-> "",tab |-> <<>>,l |-> 112]),
    ([p |-> <<>>,tabcp |-> "",tab |-> <<>>,l |-> 113]),
    ([p |-> <<>>,tabcp |-> "",tab |-> <<>>,l |-> 114]),
    ([p |-> <<>>,tabcp |-> "",tab |-> <<>>,l |-> 115]),
    ([p |-> <<>>,tabcp |-> "",tab |-> <<>>,l |-> 116]),
    ([p |-> <<>>,tabcp |-> "",tab |-> <<>>,l |-> 117]),
    ([p |-> <<>>,tabcp |-> "",tab |-> <<>>,l |-> 118]),
    ([p |-> <<>>,tabcp |-> "",tab |-> <<>>,l |-> 119]),
    ([p |-> <<>>,tabcp |-> "",tab |-> <<>>,l |-> 120]),
    ([p |-> <<>>,tabcp |-> "",tab |-> <<>>,l |-> 121]),
    ([p |-> <<>>,tabcp |-> "",tab |-> <<>>,l |-> 122]),
    ([p |-> <<>>,tabcp |-> "",tab |-> <<>>,l |-> 123]),
    ([p |-> <<>>,tabcp |-> "",tab |-> <<>>,l |-> 124]),
    ([p |-> <<>>,tabcp |-> "",tab |-> <<>>,l |-> 125]),
    ([p |-> <<>>,tabcp |-> "",tab |-> <<>>,l |-> 126]),
    ([p |-> <<>>,tabcp |-> "",tab |-> <<>>,l |-> 127]),
    ([p |-> <<>>,tabcp |-> "",tab |-> <<>>,l |-> 128]),
    ([p |-> <<>>,tabcp |-> "",tab |-> <<>>,l |-> 129]),
    ([p |-> <<>>,tabcp |-> "",tab |-> <<>>,l |-> 130]),
    ([p |-> <<>>,tabcp |-> "",tab |-> <<>>,l |-> 131]),
    ([p |-> <<>>,tabcp |-> "",tab |-> <<>>,l |-> 132]),
    ([p |-> <<>>,tabcp |-> "",tab |-> <<>>,l |-> 133]),
    ([p |-> <<>>,tabcp |-> "",tab |-> <<>>,l |-> 134]),
    ([p |-> <<>>,tabcp |-> "",tab |-> <<>>,l |-> 135]),
    ([p |-> <<>>,tabcp |-> "",tab |-> <<>>,l |-> 136]),
    ([p |-> <<>>,tabcp |-> "",tab |-> <<>>,l |-> 137]),
    ([p |-> <<>>,tabcp |-> "",tab |-> <<>>,l |-> 138]),
    ([p |-> <<>>,tabcp |-> "",tab |-> <<>>,l |-> 139]),
    ([p |-> <<>>,tabcp |-> "",tab |-> <<>>,l |-> 140]),
    ([p |-> <<>>,tabcp |-> "",tab |-> <<>>,l |-> 141]),
    ([p |-> <<>>,tabcp |-> "",tab |-> <<>>,l |-> 142]),
    ([p |-> <<>>,tabcp |-> "",tab |-> <<>>,l |-> 143]),
    ([p |-> <<>>,tabcp |-> "",tab |-> <<>>,l |-> 144]),
    ([p |-> <<>>,tabcp |-> "",tab |-> <<>>,l |-> 145]),
    ([p |-> <<>>,tabcp |-> "",tab |-> <<>>,l |-> 146]),
    ([p |-> <<>>,tabcp |-> "",tab |-> <<>>,l |-> 147]),
    ([p |-> <<>>,tabcp |-> "",tab |-> <<>>,l |-> 148]),
    ([p |-> <<>>,tabcp |-> "",tab |-> <<>>,l |-> 149]),
    ([p |-> <<>>,tabcp |-> "",tab |-> <<>>,l |-> 150]),
    ([p |-> <<>>,tabcp |-> "",tab |-> <<>>,l |-> 151]),
    ([p |-> <<>>,tabcp |-> "",tab |-> <<>>,l |-> 152]),
    ([p |-> <<>>,tabcp |-> "",tab |-> <<>>,l |-> 153]),
    ([p |-> <<>>,tabcp |-> "",tab |-> <<>>,l |-> 154]),
    ([p |-> <<>>,tabcp |-> "",tab |-> <<>>,l |-> 155]),
    ([p |-> <<>>,tabcp |-> "",tab |-> <<>>,l |-> 156]),
    ([p |-> <<>>,tabcp |-> "",tab |-> <<>>,l |-> 157]),
    ([p |-> <<>>,tabcp |-> "",tab |-> <<>>,l |-> 158]),
    ([p |-> <<>>,tabcp |-> "",tab |-> <<>>,l |-> 159]),
    ([p |-> <<>>,tabcp |-> "",tab |-> <<>>,l |-> 160]),
    ([p |-> <<>>,tabcp |-> "",tab |-> <<>>,l |-> 161]),
    ([p |-> <<>>,tabcp |-> "",tab |-> <<>>,l |-> 162]),
    ([p |-> <<>>,tabcp |-> "",tab |-> <<>>,l |-> 163]),
    ([p |-> <<>>,tabcp |-> "",tab |-> <<>>,l |-> 164]),
    ([p |-> <<>>,tabcp |-> "",tab |-> <<>>,l |-> 165]),
    ([p |-> <<>>,tabcp |-> "",tab |-> <<>>,l |-> 166]),
    ([p |-> <<>>,tabcp |-> "",tab |-> <<>>,l |-> 167]),
    ([p |-> <<>>,tabcp |-> "",tab |-> <<>>,l |-> 168]),
    ([p |-> <<>>,tabcp |-> "",tab |-> <<>>,l |-> 169]),
    ([p |-> <<>>,tabcp |-> "",tab |-> <<>>,l |-> 170]),
    ([p |-> <<>>,tabcp |-> "",tab |-> <<>>,l |-> 171]),
    ([p |-> <<>>,tabcp |-> "",tab |-> <<>>,l |-> 172]),
    ([p |-> <<>>,tabcp |-> "",tab |-> <<>>,l |-> 173]),
    ([p |-> <<>>,tabcp |-> "",tab |-> <<>>,l |-> 174]),
    ([p |-> <<>>,tabcp |-> "",tab |-> <<>>,l |-> 175]),
    ([p |-> <<>>,tabcp |-> "",tab |-> <<>>,l |-> 176]),
    ([p |-> <<>>,tabcp |-> "",tab |-> <<>>,l |-> 177]),
    ([p |-> <<>>,tabcp |-> "",tab |-> <<>>,l |-> 178]),
    ([p |-> <<>>,tabcp |-> "",tab |-> <<>>,l |-> 179]),
    ([p |-> <<>>,tabcp |-> "",tab |-> <<>>,l |-> 180]),
    ([p |-> <<>>,tabcp |-> "",tab |-> <<>>,l |-> 181]),
    ([p |-> <<>>,tabcp |-> "",tab |-> <<>>,l |-> 182]),
    ([p |-> <<>>,tabcp |-> "",tab |-> <<>>,l |-> 183]),
    ([p |-> <<>>,tabcp |-> "",tab |-> <<>>,l |-> 184]),
    ([p |-> <<>>,tabcp |-> "",tab |-> <<>>,l |-> 185]),
    ([p |-> <<>>,tabcp |-> "",tab |-> <<>>,l |-> 186]),
    ([p |-> <<>>,tabcp |-> "",tab |-> <<>>,l |-> 187]),
    ([p |-> <<>>,tabcp |-> "",tab |-> <<>>,l |-> 188]),
    ([p |-> <<>>,tabcp |-> "",tab |-> <<>>,l |-> 189]),
    ([p |-> <<>>,tabcp |-> "",tab |-> <<>>,l |-> 190]),
    ([p |-> <<>>,tabcp |-> "",tab |-> <<>>,l |-> 191]),
    ([p |-> <<>>,tabcp |-> "",tab |-> <<>>,l |-> 192]),
    ([p |-> <<>>,tabcp |-> "",tab |-> <<>>,l |-> 193]),
    ([p |-> <<>>,tabcp |-> "",tab |-> <<>>,l |-> 194]),
    ([p |-> <<>>,tabcp |-> "",tab |-> <<>>,l |-> 195]),
    ([p |-> <<>>,tabcp |-> "",tab |-> <<>>,l |-> 196]),
    ([p |-> <<>>,tabcp |-> "",tab |-> <<>>,l |-> 197]),
    ([p |-> <<>>,tabcp |-> "",tab |-> <<>>,l |-> 198]),
    ([p |-> <<>>,tabcp |-> "",tab |-> <<>>,l |-> 199]),
    ([p |-> <<>>,tabcp |-> "",tab |-> <<>>,l |-> 200]),
    ([p |-> <<>>,tabcp |-> "",tab |-> <<>>,l |-> 201]),
    ([p |-> <<>>,tabcp |-> "",tab |-> <<>>,l |-> 202]),
    ([p |-> <<>>,tabcp |-> "",tab |-> <<>>,l |-> 203]),
    ([p |-> <<>>,tabcp |-> "",tab |-> <<>>,l |-> 204]),
    ([p |-> <<>>,tabcp |-> "",tab |-> <<>>,l |-> 205]),
    ([p |-> <<>>,tabcp |-> "",tab |-> <<>>,l |-> 206]),
    ([p |-> <<>>,tabcp |-> "",tab |-> <<>>,l |-> 207]),
    ([p |-> <<>>,tabcp |-> "",tab |-> <<>>,l |-> 208]),
    ([p |-> <<>>,tabcp |-> "",tab |-> <<>>,l |-> 209]),
    ([p |-> <<>>,tabcp |-> "",tab |-> <<>>,l |-> 210]),
    ([p |-> <<>>,tabcp |-> "",tab |-> <<>>,l |-> 211]),
    ([p |-> <<>>,tabcp |-> "",tab |-> <<>>,l |-> 212]),
    ([p |-> <<>>,tabcp |-> "",tab |-> <<>>,l |-> 213]),
    ([p |-> <<>>,tabcp |-> "",tab |-> <<>>,l |-> 214]),
    ([p |-> <<>>,tabcp |-> "",tab |-> <<>>,l |-> 215]),
    ([p |-> <<>>,tabcp |-> "",tab |-> <<>>,l |-> 216]),
    ([p |-> <<>>,tabcp |-> "",tab |-> <<>>,l |-> 217]),
    ([p |-> <<>>,tabcp |-> "",tab |-> <<>>,l |-> 218]),
    ([p |-> <<>>,tabcp |-> "",tab |-> <<>>,l |-> 219]),
    ([p |-> <<>>,tabcp |-> "",tab |-> <<>>,l |-> 220]),
    ([p |-> <<>>,tabcp |-> "",tab |-> <<>>,l |-> 221]),
    ([p |-> <<>>,tabcp |-> "",tab |-> <<>>,l |-> 222]),
    ([p |-> <<>>,tabcp |-> "",tab |-> <<>>,l |-> 223]),
    ([p |-> <<>>,tabcp |-> "",tab |-> <<>>,l |-> 224]),
    ([p |-> <<>>,tabcp |-> "",tab |-> <<>>,l |-> 225]),
    ([p |-> <<>>,tabcp |-> "",tab |-> <<>>,l |-> 226]),
    ([p |-> <<>>,tabcp |-> "",tab |-> <<>>,l |-> 227]),
    ([p |-> <<>>,tabcp |-> "",tab |-> <<>>,l |-> 228]),
    ([p |-> <<>>,tabcp |-> "",tab |-> <<>>,l |-> 229]),
    ([p |-> <<>>,tabcp |-> "",tab |-> <<>>,l |-> 230]),
    ([p |-> <<>>,tabcp |-> "",tab |-> <<>>,l |-> 231]),
    ([p |-> <<>>,tabcp |-> "",tab |-> <<>>,l |-> 232]),
    ([p |-> <<>>,tabcp |-> "",tab |-> <<>>,l |-> 233]),
    ([p |-> <<>>,tabcp |-> "",tab |-> <<>>,l |-> 234]),
    ([p |-> <<>>,tabcp |-> "",tab |-> <<>>,l |-> 235]),
    ([p |-> <<>>,tabcp |-> "",tab |-> <<>>,l |-> 236]),
    ([p |-> <<>>,tabcp |-> "",tab |-> <<>>,l |-> 237]),
    ([p |-> <<>>,tabcp |-> "",tab |-> <<>>,l |-> 238]),
    ([p |-> <<>>,tabcp |-> "",tab |-> <<>>,l |-> 239]),
    ([p |-> <<>>,tabcp |-> "",tab |-> <<>>,l |-> 240]),
    ([p |-> <<>>,tabcp |-> "",tab |-> <<>>,l |-> 241]),
    ([p |-> <<>>,tabcp |-> "",tab |-> <<>>,l |-> 242]),
    ([p |-> <<>>,tabcp |-> "",tab |-> <<>>,l |-> 243]),
    ([p |-> <<>>,tabcp |-> "",tab |-> <<>>,l |-> 244]),
    ([p |-> <<>>,tabcp |-> "",tab |-> <<>>,l |-> 245]),
    ([p |-> <<>>,tabcp |-> "",tab |-> <<>>,l |-> 246]),
    ([p |-> <<>>,tabcp |-> "",tab |-> <<>>,l |-> 247]),
    ([p |-> <<>>,tabcp |-> "",tab |-> <<>>,l |-> 248]),
    ([p |-> <<>>,tabcp |-> "",tab |-> <<>>,l |-> 249]),
    ([p |-> <<>>,tabcp |-> "",tab |-> <<>>,l |-> 250]),
    ([p |-> <<>>,tabcp |-> "",tab |-> <<>>,l |-> 251]),
    ([p |-> <<>>,tabcp |-> "",tab |-> <<>>,l |-> 252]),
    ([p |-> <<>>,tabcp |-> "",tab |-> <<>>,l |-> 253]),
    ([p |-> <<>>,tabcp |-> "",tab |-> <<>>,l |-> 254]),
    ([p |-> <<>>,tabcp |-> "",tab |-> <<>>,l |-> 255]),
    ([p |-> <<>>,tabcp |-> "",tab |-> <<>>,l |-> 256]),
    ([p |-> <<>>,tabcp |-> "",tab |-> <<>>,l |-> 257]),
    ([p |-> <<>>,tabcp |-> "",tab |-> <<>>,l |-> 258]),
    ([p |-> <<>>,tabcp |-> "",tab |-> <<>>,l |-> 259]),
    ([p |-> <<>>,tabcp |-> "",tab |-> <<>>,l |-> 260]),
    ([p |-> <<>>,tabcp |-> "",tab |-> <<>>,l |-> 261]),
    ([p |-> <<>>,tabcp |-> "",tab |-> <<>>,l |-> 262]),
    ([p |-> <<>>,tabcp |-> "",tab |-> <<>>,l |-> 263]),
    ([p |-> <<>>,tabcp |-> "",tab |-> <<>>,l |-> 264]),
    ([p |-> <<>>,tabcp |-> "",tab |-> <<>>,l |-> 265]),
    ([p |-> <<>>,tabcp |-> "",tab |-> <<>>,l |-> 266]),
    ([p |-> <<>>,tabcp |-> "",tab |-> <<>>,l |-> 267]),
    ([p |-> <<>>,tabcp |-> "",tab |-> <<>>,l |-> 268]),
    ([p |-> <<>>,tabcp |-> "",tab |-> <<>>,l |-> 269]),
    ([p |-> <<>>,tabcp |-> "",tab |-> <<>>,l |-> 270]),
    ([p |-> <<>>,tabcp |-> "",tab |-> <<>>,l |-> 271]),
    ([p |-> <<>>,tabcp |-> "",tab |-> <<>>,l |-> 272]),
    ([p |-> <<>>,tabcp |-> "",tab |-> <<>>,l |-> 273]),
    ([p |-> <<>>,tabcp |-> "",tab |-> <<>>,l |-> 274]),
    ([p |-> <<>>,tabcp |-> "",tab |-> <<>>,l |-> 275]),
    ([p |-> <<>>,tabcp |-> "",tab |-> <<>>,l |-> 276]),
    ([p |-> <<>>,tabcp |-> "",tab |-> <<>>,l |-> 277]),
    ([p |-> <<>>,tabcp |-> "",tab |-> <<>>,l |-> 278]),
    ([p |-> <<>>,tabcp |-> "",tab |-> <<>>,l |-> 279]),
    ([p |-> <<>>,tabcp |-> "",tab |-> <<>>,l |-> 280]),
    ([p |-> <<>>,tabcp |-> "",tab |-> <<>>,l |-> 281]),
    ([p |-> <<>>,tabcp |-> "",tab |-> <<>>,l |-> 282]),
    ([p |-> <<>>,tabcp |-> "",tab |-> <<>>,l |-> 283]),
    ([p |-> <<>>,tabcp |-> "",tab |-> <<>>,l |-> 284]),
    ([p |-> <<>>,tabcp |-> "",tab |-> <<>>,l |-> 285]),
    ([p |-> <<>>,tabcp |-> "",tab |-> <<>>,l |-> 286]),
    ([p |-> <<>>,tabcp |-> "",tab |-> <<>>,l |-> 287]),
    ([p |-> <<>>,tabcp |-> "",tab |-> <<>>,l |-> 288]),
    ([p |-> <<>>,tabcp |-> "",tab |-> <<>>,l |-> 289]),
    ([p |-> <<>>,tabcp |-> "",tab |-> <<>>,l |-> 290]),
    ([p |-> <<>>,tabcp |-> "",tab |-> <<>>,l |-> 291]),
    ([p |-> <<>>,tabcp |-> "",tab |-> <<>>,l |-> 292]),
    ([p |-> <<>>,tabcp |-> "",tab |-> <<>>,l |-> 293]),
    ([p |-> <<>>,tabcp |-> "",tab |-> <<>>,l |-> 294]),
    ([p |-> <<>>,tabcp |-> "",tab |-> <<>>,l |-> 295]),
    ([p |-> <<>>,tabcp |-> "",tab |-> <<>>,l |-> 296]),
    ([p |-> <<>>,tabcp |-> "",tab |-> <<>>,l |-> 297]),
    ([p |-> <<>>,tabcp |-> "",tab |-> <<>>,l |-> 298]),
    ([p |-> <<>>,tabcp |-> "",tab |-> <<>>,l |-> 299]),
    ([p |-> <<>>,tabcp |-> "",tab |-> <<>>,l |-> 300]),
    ([p |-> <<>>,tabcp |-> "",tab |-> <<>>,l |-> 301]),
    ([p |-> <<>>,tabcp |-> "",tab |-> <<>>,l |-> 302]),
    ([p |-> <<>>,tabcp |-> "",tab |-> <<>>,l |-> 303]),
    ([p |-> <<>>,tabcp |-> "",tab |-> <<>>,l |-> 304]),
    ([p |-> <<>>,tabcp |-> "",tab |-> <<>>,l |-> 305]),
    ([p |-> <<>>,tabcp |-> "",tab |-> <<>>,l |-> 306]),
    ([p |-> <<>>,tabcp |-> "",tab |-> <<>>,l |-> 307]),
    ([p |-> <<>>,tabcp |-> "",tab |-> <<>>,l |-> 308]),
    ([p |-> <<>>,tabcp |-> "",tab |-> <<>>,l |-> 309]),
    ([p |-> <<>>,tabcp |-> "",tab |-> <<>>,l |-> 310]),
    ([p |-> <<>>,tabcp |-> "",tab |-> <<>>,l |-> 311]),
    ([p |-> <<>>,tabcp |-> "",tab |-> <<>>,l |-> 312]),
    ([p |-> <<>>,tabcp |-> "",tab |-> <<>>,l |-> 313]),
    ([p |-> <<>>,tabcp |-> "",tab |-> <<>>,l |-> 314]),
    ([p |-> <<>>,tabcp |-> "",tab |-> <<>>,l |-> 315]),
    ([p |-> <<>>,tabcp |-> "",tab |-> <<>>,l |-> 316]),
    ([p |-> <<>>,tabcp |-> "",tab |-> <<>>,l |-> 317]),
    ([p |-> <<>>,tabcp |-> "",tab |-> <<>>,l |-> 318]),
    ([p |-> <<>>,tabcp |-> "",tab |-> <<>>,l |-> 319]),
    ([p |-> <<>>,tabcp |-> "",tab |-> <<>>,l |-> 320]),
    ([p |-> <<>>,tabcp |-> "",tab |-> <<>>,l |-> 321]),
    ([p |-> <<>>,tabcp |-> "",tab |-> <<>>,l |-> 322]),
    ([p |-> <<>>,tabcp |-> "",tab |-> <<>>,l |-> 323]),
    ([p |-> <<>>,tabcp |-> "",tab |-> <<>>,l |-> 324]),
    ([p |-> <<>>,tabcp |-> "",tab |-> <<>>,l |-> 325]),
    ([p |-> <<>>,tabcp |-> "",tab |-> <<>>,l |-> 326]),
    ([p |-> <<>>,tabcp |-> "",tab |-> <<>>,l |-> 327]),
    ([p |-> <<>>,tabcp |-> "",tab |-> <<>>,l |-> 328]),
    ([p |-> <<>>,tabcp |-> "",tab |-> <<>>,l |-> 329]),
    ([p |-> <<>>,tabcp |-> "",tab |-> <<>>,l |-> 330]),
    ([p |-> <<>>,tabcp |-> "",tab |-> <<>>,l |-> 331]),
    ([p |-> <<>>,tabcp |-> "",tab |-> <<>>,l |-> 332]),
    ([p |-> <<>>,tabcp |-> "",tab |-> <<>>,l |-> 333]),
    ([p |-> <<>>,tabcp |-> "",tab |-> <<>>,l |-> 334]),
    ([p |-> <<>>,tabcp |-> "",tab |-> <<>>,l |-> 335]),
    ([p |-> <<>>,tabcp |-> "",tab |-> <<>>,l |-> 336]),
    ([p |-> <<>>,tabcp |-> "",tab |-> <<>>,l |-> 337]),
    ([p |-> <<>>,tabcp |-> "",tab |-> <<>>,l |-> 338]),
    ([p |-> <<>>,tabcp |-> "",tab |-> <<>>,l |-> 339]),
    ([p |-> <<>>,tabcp |-> "",tab |-> <<>>,l |-> 340]),
    ([p |-> <<>>,tabcp |-> "",tab |-> <<>>,l |-> 341]),
    ([p |-> <<>>,tabcp |-> "",tab |-> <<>>,l |-> 342]),
    ([p |-> <<>>,tabcp |-> "",tab |-> <<>>,l |-> 343]),
    ([p |-> <<>>,tabcp |-> "",tab |-> <<>>,l |-> 344]),
    ([p |-> <<>>,tabcp |-> "",tab |-> <<>>,l |-> 345]),
    ([p |-> <<>>,tabcp |-> "",tab |-> <<>>,l |-> 346]),
    ([p |-> <<>>,tabcp |-> "",tab |-> <<>>,l |-> 347]),
    ([p |-> <<>>,tabcp |-> "",tab |-> <<>>,l |-> 348]),
    ([p |-> <<>>,tabcp |-> "",tab |-> <<>>,l |-> 349]),
    ([p |-> <<>>,tabcp |-> "",tab |-> <<>>,l |-> 350]),
    ([p |-> <<>>,tabcp |-> "",tab |-> <<>>,l |-> 351]),
    ([p |-> <<>>,tabcp |-> "",tab |-> <<>>,l |-> 352]),
    ([p |-> <<>>,tabcp |-> "",tab |-> <<>>,l |-> 353]),
    ([p |-> <<>>,tabcp |-> "",tab |-> <<>>,l |-> 354]),
    ([p |-> <<>>,tabcp |-> "",tab |-> <<>>,l |-> 355]),
    ([p |-> <<>>,tabcp |-> "",tab |-> <<>>,l |-> 356]),
    ([p |-> <<>>,tabcp |-> "",tab |-> <<>>,l |-> 357]),
    ([p |-> <<>>,tabcp |-> "",tab |-> <<>>,l |-> 358]),
    ([p |-> <<>>,tabcp |-> "",tab |-> <<>>,l |-> 359]),
    ([p |-> <<>>,tabcp |-> "",tab |-> <<>>,l |-> 360]),
    ([p |-> <<>>,tabcp |-> "",tab |-> <<>>,l |-> 361]),
    ([p |-> <<>>,tabcp |-> "",tab |-> <<>>,l |-> 362]),
    ([p |-> <<>>,tabcp |-> "",tab |-> <<>>,l |-> 363]),
    ([p |-> <<>>,tabcp |-> "",tab |-> <<>>,l |-> 364]),
    ([p |-> <<>>,tabcp |-> "",tab |-> <<>>,l |-> 365]),
    ([p |-> <<>>,tabcp |-> "",tab |-> <<>>,l |-> 366]),
    ([p |-> <<>>,tabcp |-> "",tab |-> <<>>,l |-> 367]),
    ([p |-> <<>>,tabcp |-> "",tab |-> <<>>,l |-> 368]),
    ([p |-> <<>>,tabcp |-> "",tab |-> <<>>,l |-> 369]),
    ([p |-> <<>>,tabcp |-> "",tab |-> <<>>,l |-> 370]),
    ([p |-> <<>>,tabcp |-> "",tab |-> <<>>,l |-> 371]),
    ([p |-> <<>>,tabcp |-> "",tab |-> <<>>,l |-> 372]),
    ([p |-> <<>>,tabcp |-> "",tab |-> <<>>,l |-> 373]),
    ([p |-> <<>>,tabcp |-> "",tab |-> <<>>,l |-> 374]),
    ([p |-> <<>>,tabcp |-> "",tab |-> <<>>,l |-> 375]),
    ([p |-> <<>>,tabcp |-> "",tab |-> <<>>,l |-> 376]),
    ([p |-> <<>>,tabcp |-> "",tab |-> <<>>,l |-> 377]),
    ([p |-> <<>>,tabcp |-> "",tab |-> <<>>,l |-> 378]),
    ([p |-> <<>>,tabcp |-> "",tab |-> <<>>,l |-> 379])
    >>
----


=============================================================================

---- CONFIG Utf8Trace_TTrace_1790461628 ----
CONSTANTS
    RepKind = "lohi"
    FilterAlpha = { }
    FilterMax = 3
    Strict = TRUE

INVARIANT
    _inv

CHECK_DEADLOCK
    \* CHECK_DEADLOCK off because of PROPERTY or INVARIANT above.
    FALSE

INIT
    _init

NEXT
    _next

CONSTANT
    _TETrace <- _trace

ALIAS
    _expression
=============================================================================
\* Generated on Sat Sep 26 22:27:10 UTC 2026