----------------------------- MODULE CodecTrace -----------------------------
(* Leg B for C15: every call recorded by harness/text/codec_drv.cpp from the  *)
(* real escape / URL / base64url code must satisfy the predicates of          *)
(* Codec.tla.                                                                 *)
(*   Strict = FALSE : property layer (a rejection is a VIOLATION)             *)
(*   Strict = TRUE  : additionally output == the mechanism function           *)
(*                    (a rejection is MODEL-DRIFT)                            *)
(* Event "Call": one input, "r" = the results of the functions it was given   *)
(* to, grouped by identical outcome:                                          *)
(*   fns   names of the functions (all of one family)                         *)
(*   out   bytes produced / received by the sink / found in the buffer        *)
(*   sink  "none" | "cap" (accepts cap bytes, then fails) | "short"           *)
(*   cap   capacity of the sink or of the caller's buffer, -1 = unlimited     *)
(*   fail  the function reported failure (return value / stream state)        *)
(*   ret   bytes written as reported (pointer forms), 1/0 for b64dec_str      *)
(*   size  what encoded_size / decoded_size reported for this input, or -2    *)
(*   canary  guard bytes around the caller's buffer intact                    *)
EXTENDS Codec, TraceBase

CONSTANTS Strict,
          Explain     \* TRUE: a Call event that is not acceptable is skipped and its line printed (used to name the failing function)
VARIABLE l
tvars == <<p, l>>

Ev == TraceLog[l]
Is(name) == l <= NLines /\ Ev.e = name /\ l' = l + 1 /\ UNCHANGED p

FamOf == [ escape_str |-> "esc", escape_sb |-> "esc", escape_os |-> "esc", filter_escape |-> "esc",
           widget_text |-> "esc", widget_textarea |-> "esc",
           urlencode_str |-> "urlenc", urlencode_sb |-> "urlenc", urlencode_os |-> "urlenc", filter_urlencode |-> "urlenc",
           urldecode_str |-> "urldec", urldecode_ptr |-> "urldec",
           b64enc_str |-> "b64enc", b64enc_ptr |-> "b64enc", b64enc_os |-> "b64enc", filter_b64 |-> "b64enc",
           b64dec_str |-> "b64dec", b64dec_ptr |-> "b64decptr",
           filter_jsescape |-> "jsesc" ]

\* encoders: acceptable in full iff no failure reported; a truncating sink never got more than it accepts
EncJudge(in, r, Ok(_, _), F(_)) ==
    /\ r.fail = ~Ok(in, r.out)
    /\ (r.cap >= 0 => Len(r.out) <= r.cap)
    /\ r.canary
    /\ (Strict /\ r.sink = "none" => r.out = F(in))
    /\ (Strict /\ r.sink = "cap" => r.out = Take(F(in), r.cap))

\* b64url::decode(string, string&): ret = 1 (true) / 0
B64DecStr(in, ret, out) ==
    LET ds == DecSize(Len(in)) IN
    /\ (B64Canonical(in) => ret = 1 /\ out = B64Dec(in))     \* inverts every encoder output
    /\ (ret = 1 => Len(out) = ds)                             \* size as reported
    /\ (Strict => ret = (IF ds >= 0 THEN 1 ELSE 0))
    /\ (Strict /\ ds >= 0 => out = B64Dec(in))

Judge(in, r) ==
    LET fam == FamOf[r.fns[1]] IN
    /\ \A i \in 1..Len(r.fns) : r.fns[i] \in DOMAIN FamOf /\ FamOf[r.fns[i]] = fam
    /\ CASE fam = "esc"    -> EncJudge(in, r, EscOk, Escape)
         [] fam = "urlenc" -> EncJudge(in, r, UrlEncOk, UrlEncode)
         [] fam = "b64enc" -> /\ EncJudge(in, r, B64EncOk, B64Enc)
                              /\ (r.size # -2 => r.size = EncSize(Len(in)))
                              /\ (r.ret # -2 => r.ret = Len(r.out))
         [] fam = "jsesc"  -> (Strict => ~r.fail /\ r.out = JsEscape(in))   \* no demand at the property layer
         [] fam = "urldec" -> /\ (UrlPlain(in) => r.out = UrlDecode(in))
                              /\ (Strict => r.out = UrlDecode(in))
         [] fam = "b64dec" -> /\ B64DecStr(in, r.ret, r.out)
                              /\ (r.size # -2 => r.size = DecSize(Len(in)))
         [] fam = "b64decptr" ->
                              LET ds == DecSize(Len(in))
                                  buf == IF ds >= 0 THEN ds ELSE (Len(in) \div 4) * 3 IN   \* what a caller can provide
                              /\ r.cap = buf
                              /\ r.canary /\ r.ret <= buf          \* nothing outside the caller's buffer
                              /\ r.size = ds                         \* decoded_size as reported
                              /\ (ds >= 0 => r.ret = ds)
                              /\ (B64Canonical(in) => r.out = B64Dec(in))
                              /\ (Strict /\ ds >= 0 => r.out = B64Dec(in))

\* "Range": the (begin,end) forms on sub-ranges of larger buffers (adversarial neighbouring bytes, ranges ending /
\* starting at an inaccessible page) together with the std::string forms on a copy of exactly the range.  Every
\* result is judged by the range content alone (Judge), and the forms of one function must agree (RangeLocal):
\* the output depends on [begin,end) only.
Base == [ escape_str |-> "escape", escape_sb |-> "escape", escape_os |-> "escape",
          urlencode_str |-> "urlencode", urlencode_sb |-> "urlencode", urlencode_os |-> "urlencode",
          urldecode_str |-> "urldecode", urldecode_ptr |-> "urldecode",
          b64enc_str |-> "b64enc", b64enc_ptr |-> "b64enc", b64enc_os |-> "b64enc",
          b64dec_str |-> "b64dec", b64dec_ptr |-> "b64dec" ]
Bases(g) == { Base[g.fns[i]] : i \in { k \in 1..Len(g.fns) : g.fns[k] \in DOMAIN Base } }
\* b64url::decode(string) refuses a length of 1 mod 4, the pointer form decodes the complete blocks
Usable(g) == g.sink = "none" /\ ~g.fail /\ ~(g.fns[1] = "b64dec_str" /\ g.ret # 1)
RangeLocal(r) ==
    \A i \in 1..Len(r) : \A j \in 1..Len(r) :
        (i < j /\ Usable(r[i]) /\ Usable(r[j]) /\ Bases(r[i]) \cap Bases(r[j]) # {}) => r[i].out = r[j].out

\* "Widget": a form widget rendered with the placeholder ph in one slot (tmpl) and with each test string in that
\* slot (cases).  The rendering must be the template with every occurrence of the placeholder replaced by ONE text
\* X that is an acceptable escaping of the string (no markup, no bare &, un-escapes to the string); mechanism
\* layer: X = Escape(string).  Slots that are raw by design (id, name, attributes_string) are not driven.
OccOf(t, ph) == { i \in 1..(Len(t) - Len(ph) + 1) : HasAt(t, i, ph) }
Subst(t, ph, occ, X) ==
    CatMap(LAMBDA i : IF i \in occ THEN X
                      ELSE IF \E j \in occ : j < i /\ i < j + Len(ph) THEN <<>>
                      ELSE <<t[i]>>, Len(t))
WidgetCase(t, ph, occ, in, out) ==
    LET n == Cardinality(occ)
        k == CHOOSE i \in occ : \A j \in occ : i <= j
        total == Len(out) - Len(t) + n * Len(ph)          \* n * Len(X)
        lx == total \div n
        X == SubSeq(out, k, k + lx - 1) IN
    /\ total >= 0 /\ total % n = 0 /\ k + lx - 1 <= Len(out)
    /\ EscOk(in, X)
    /\ out = Subst(t, ph, occ, X)
    /\ (Strict => X = Escape(in))
WidgetOk ==
    LET occ == OccOf(Ev.tmpl, Ev.ph) IN
    /\ occ # {}
    /\ \A c \in 1..Len(Ev.cases) : WidgetCase(Ev.tmpl, Ev.ph, occ, Ev.cases[c].in, Ev.cases[c].out)
TWidget == Is("Widget") /\ WidgetOk

TReset == Is("Reset")
CallOk == \A i \in 1..Len(Ev.r) : Judge(Ev.in, Ev.r[i])
TCall  == Is("Call") /\ CallOk
TRange == Is("Range") /\ CallOk /\ RangeLocal(Ev.r)
TExplain == /\ Explain
            /\ (Is("Call") /\ ~CallOk) \/ (Is("Range") /\ ~(CallOk /\ RangeLocal(Ev.r))) \/ (Is("Widget") /\ ~WidgetOk)
            /\ PrintT(<<"EXPLAIN-REJECT", l>>)

\* encode with the real encoder, decode the result with the real decoder
TRound ==
    /\ Is("Round")
    /\ Ev.ok /\ Ev.out = Ev.in
    /\ CASE Ev.fam = "url" -> UrlEncOk(Ev.in, Ev.mid)
         [] Ev.fam = "b64" -> B64EncOk(Ev.in, Ev.mid)

TSizes == Is("Sizes") /\ Ev.enc = EncSize(Ev.n) /\ Ev.dec = DecSize(Ev.n)

\* "Row": a prefix extended by every byte c, through the std::string form of every function
\* (arrays indexed by c + 1; the driver logs a complete Call event for every input on which another
\* form behaves differently); rt_* = the real decoder applied to the real encoder's output
EncAccept(in, out, Ok(_, _), F(_)) == Ok(in, out) /\ (Strict => out = F(in))
TRow ==
    /\ Is("Row")
    /\ \A c \in 0..255 :
          LET s == Append(Ev.pre, c)
              k == c + 1 IN
          /\ (Ev.all =>
                 /\ EncAccept(s, Ev.esc[k], EscOk, Escape)
                 /\ EncAccept(s, Ev.urlenc[k], UrlEncOk, UrlEncode)
                 /\ (UrlPlain(s) => Ev.urldec[k] = UrlDecode(s))
                 /\ (Strict => Ev.urldec[k] = UrlDecode(s))
                 /\ Ev.rt_url[k] = s
                 /\ B64DecStr(s, Ev.b64dec_ok[k], Ev.b64dec[k]))     \* s itself as text for the decoder
          /\ EncAccept(s, Ev.b64enc[k], B64EncOk, B64Enc)
          /\ Ev.rt_b64_ok[k] = 1 /\ Ev.rt_b64[k] = s

TraceInit == Init /\ l = 1
TraceNext == TReset \/ TCall \/ TWidget \/ TRange \/ TExplain \/ TRound \/ TSizes \/ TRow
TraceSpec == TraceInit /\ [][TraceNext]_tvars
=============================================================================
