-------------------------------- MODULE Codec --------------------------------
(* C15 - HTML escaping neutralises all markup; URL and base64url codecs are   *)
(* exact inverses; reported sizes are exact.                                  *)
(*                                                                            *)
(* Mechanism layer (the functions the code computes, src/util.cpp,            *)
(* src/base64.cpp):  Escape, UrlEncode, UrlDecode (malformed % dropped, '+'   *)
(* -> space), B64Enc, B64Dec (lenient: foreign characters count as 0),        *)
(* EncSize, DecSize.                                                          *)
(* Property layer (what the statement demands of ANY implementation):         *)
(*   EscOk(in,out)    out has no < > " ' nor bare &, and un-escapes to in      *)
(*   UrlEncOk(in,out) out in (unreserved | %HH)*, and URL-decodes to in        *)
(*   B64EncOk(in,out) out in the URL-safe alphabet, unpadded, of the exact     *)
(*                    size, and decodes to in                                 *)
(*   decoders         invert every encoder output; sizes exact; nothing is     *)
(*                    written outside the caller's buffer                     *)
(* Leg D checks that the mechanism functions satisfy the property predicates, *)
(* that truncated outputs never do (so "failure iff truncated" is decidable   *)
(* from the output), and the size arithmetic.                                 *)
EXTENDS Integers, Sequences, FiniteSets, TLC, SequencesExt

CONSTANTS Alpha,     \* bytes from which Leg D builds strings
          MaxLen,    \* their maximal length
          MaxSize    \* size formulas are checked for 0..MaxSize

VARIABLE p

Byte == 0..255
Take(s, n) == SubSeq(s, 1, IF n < Len(s) THEN n ELSE Len(s))
Idx(s) == [i \in 1..Len(s) |-> i]
\* concatenation of f(1) .. f(n), iteratively (FoldLeft has a Java override)
CatMap(f(_), n) == FoldLeft(LAMBDA acc, i : acc \o f(i), <<>>, [i \in 1..n |-> i])

-----------------------------------------------------------------------------
(* 1. HTML escaping                                                          *)
LowerHexJs == <<48, 49, 50, 51, 52, 53, 54, 55, 56, 57, 97, 98, 99, 100, 101, 102>>
AMP == 38  LT == 60  GT == 62  QUOT == 34  APOS == 39  SEMI == 59  HASH == 35

EscByte(b) ==
    CASE b = LT   -> <<38, 108, 116, 59>>               \* &lt;
      [] b = GT   -> <<38, 103, 116, 59>>               \* &gt;
      [] b = AMP  -> <<38, 97, 109, 112, 59>>           \* &amp;
      [] b = QUOT -> <<38, 113, 117, 111, 116, 59>>     \* &quot;
      [] b = APOS -> <<38, 35, 51, 57, 59>>             \* &#39;
      [] OTHER    -> <<b>>
Escape(s) == CatMap(LAMBDA i : EscByte(s[i]), Len(s))

\* does t carry w at position i ?
HasAt(t, i, w) == i + Len(w) - 1 <= Len(t) /\ \A k \in 1..Len(w) : t[i + k - 1] = w[k]

\* character references an un-escaper understands: the five above, &apos; and &#x27; &#34; &#60; ...
Entities ==
    { <<<<38, 108, 116, 59>>, LT>>, <<<<38, 103, 116, 59>>, GT>>, <<<<38, 97, 109, 112, 59>>, AMP>>,
      <<<<38, 113, 117, 111, 116, 59>>, QUOT>>, <<<<38, 35, 51, 57, 59>>, APOS>>,
      <<<<38, 97, 112, 111, 115, 59>>, APOS>>,                       \* &apos;
      <<<<38, 35, 120, 50, 55, 59>>, APOS>>,                         \* &#x27;
      <<<<38, 35, 51, 52, 59>>, QUOT>>, <<<<38, 35, 120, 50, 50, 59>>, QUOT>>,   \* &#34; &#x22;
      <<<<38, 35, 54, 48, 59>>, LT>>, <<<<38, 35, 120, 51, 99, 59>>, LT>>,       \* &#60; &#x3c;
      <<<<38, 35, 54, 50, 59>>, GT>>, <<<<38, 35, 120, 51, 101, 59>>, GT>>,      \* &#62; &#x3e;
      <<<<38, 35, 51, 56, 59>>, AMP>>, <<<<38, 35, 120, 50, 54, 59>>, AMP>> }    \* &#38; &#x26;
EntAt(t, i) == { e \in Entities : HasAt(t, i, e[1]) }
EntLen(t, i) == IF t[i] # AMP \/ EntAt(t, i) = {} THEN 0 ELSE Len((CHOOSE e \in EntAt(t, i) : TRUE)[1])
EntVal(t, i) == (CHOOSE e \in EntAt(t, i) : TRUE)[2]
\* position i lies inside a reference that started earlier (references contain no '&')
Covered(t, i) == \E j \in (IF i > 7 THEN i - 7 ELSE 1)..(i - 1) : t[j] = AMP /\ EntLen(t, j) > i - j
Unescape(t) ==
    CatMap(LAMBDA i : IF Covered(t, i) THEN <<>>
                      ELSE IF EntLen(t, i) > 0 THEN <<EntVal(t, i)>> ELSE <<t[i]>>, Len(t))

NoMarkup(t) == \A i \in 1..Len(t) :
                  /\ t[i] \notin {LT, GT, QUOT, APOS}
                  /\ (t[i] = AMP => EntLen(t, i) > 0)
EscOk(in, out) == NoMarkup(out) /\ Unescape(out) = in

\* JavaScript string escaping (filters::jsescape) - not part of C15's statement, mechanism layer only
JsEscByte(b) ==
    CASE b = 34 -> <<92, 34>> [] b = 92 -> <<92, 92>> [] b = 8 -> <<92, 98>> [] b = 12 -> <<92, 102>>
      [] b = 10 -> <<92, 110>> [] b = 13 -> <<92, 114>> [] b = 9 -> <<92, 116>>
      [] b = 39 \/ (b <= 31 /\ b \notin {8, 9, 10, 12, 13}) ->
             <<92, 117, 48, 48, LowerHexJs[b \div 16 + 1], LowerHexJs[(b % 16) + 1]>>
      [] OTHER -> <<b>>
JsEscape(s) == CatMap(LAMBDA i : JsEscByte(s[i]), Len(s))

-----------------------------------------------------------------------------
(* 2. URL encoding                                                           *)
IsAlnum(b) == b \in 48..57 \/ b \in 65..90 \/ b \in 97..122
Unreserved(b) == IsAlnum(b) \/ b \in {45, 95, 46, 126}          \* - _ . ~
IsHex(b) == b \in 48..57 \/ b \in 65..70 \/ b \in 97..102
HexVal(b) == IF b \in 48..57 THEN b - 48 ELSE IF b \in 65..70 THEN b - 55 ELSE b - 87
LowerHex == <<48, 49, 50, 51, 52, 53, 54, 55, 56, 57, 97, 98, 99, 100, 101, 102>>
PCT == 37  PLUS == 43

UrlEncByte(b) == IF Unreserved(b) THEN <<b>> ELSE <<PCT, LowerHex[b \div 16 + 1], LowerHex[(b % 16) + 1]>>
UrlEncode(s) == CatMap(LAMBDA i : UrlEncByte(s[i]), Len(s))

\* a % followed by two hex digits (hex digits are not %, so escapes never overlap)
IsEsc(t, i) == t[i] = PCT /\ i + 2 <= Len(t) /\ IsHex(t[i + 1]) /\ IsHex(t[i + 2])
InEsc(t, i) == (i >= 2 /\ IsEsc(t, i - 1)) \/ (i >= 3 /\ IsEsc(t, i - 2))
UrlDecode(t) ==
    CatMap(LAMBDA i : IF InEsc(t, i) THEN <<>>
                      ELSE IF IsEsc(t, i) THEN <<HexVal(t[i + 1]) * 16 + HexVal(t[i + 2])>>
                      ELSE IF t[i] = PCT THEN <<>>                   \* malformed escape: dropped (as the code does)
                      ELSE IF t[i] = PLUS THEN <<32>>
                      ELSE <<t[i]>>, Len(t))
\* the same, written as the sequential scan of util::urldecode (reference for Leg D)
RECURSIVE UrlDecodeScan(_, _)
UrlDecodeScan(t, i) ==
    IF i > Len(t) THEN <<>>
    ELSE IF t[i] = PLUS THEN <<32>> \o UrlDecodeScan(t, i + 1)
    ELSE IF t[i] = PCT THEN
         IF Len(t) - i + 1 >= 3 /\ IsHex(t[i + 1]) /\ IsHex(t[i + 2])
         THEN <<HexVal(t[i + 1]) * 16 + HexVal(t[i + 2])>> \o UrlDecodeScan(t, i + 3)
         ELSE UrlDecodeScan(t, i + 1)
    ELSE <<t[i]>> \o UrlDecodeScan(t, i + 1)

UrlText(t) == \A i \in 1..Len(t) : Unreserved(t[i]) \/ IsEsc(t, i) \/ InEsc(t, i)
UrlEncOk(in, out) == UrlText(out) /\ UrlDecode(out) = in
\* decoder input on which the statement fixes the answer: well-formed escapes, no '+'
UrlPlain(t) == \A i \in 1..Len(t) : t[i] # PLUS /\ (t[i] = PCT => IsEsc(t, i))

-----------------------------------------------------------------------------
(* 3. base64url, unpadded                                                    *)
B64Alphabet == <<65, 66, 67, 68, 69, 70, 71, 72, 73, 74, 75, 76, 77, 78, 79, 80, 81, 82, 83, 84, 85, 86, 87, 88, 89, 90,
                 97, 98, 99, 100, 101, 102, 103, 104, 105, 106, 107, 108, 109, 110, 111, 112, 113, 114, 115, 116, 117,
                 118, 119, 120, 121, 122, 48, 49, 50, 51, 52, 53, 54, 55, 56, 57, 45, 95>>
InB64(c) == IsAlnum(c) \/ c = 45 \/ c = 95
\* value of a character; foreign characters count as 0 (the decoder is lenient)
B64Val(c) == IF c \in 65..90 THEN c - 65 ELSE IF c \in 97..122 THEN c - 71 ELSE IF c \in 48..57 THEN c + 4
             ELSE IF c = 45 THEN 62 ELSE IF c = 95 THEN 63 ELSE 0

EncSize(n) == (n \div 3) * 4 + (CASE n % 3 = 0 -> 0 [] n % 3 = 1 -> 2 [] n % 3 = 2 -> 3)
DecSize(m) == IF m % 4 = 1 THEN -1 ELSE (m \div 4) * 3 + (CASE m % 4 = 0 -> 0 [] m % 4 = 2 -> 1 [] m % 4 = 3 -> 2)

At(s, i) == IF i <= Len(s) THEN s[i] ELSE 0
B64Enc(s) ==
    [k \in 1..EncSize(Len(s)) |->
        LET q == (k - 1) \div 4
            r == (k - 1) % 4
            b0 == At(s, 3 * q + 1)  b1 == At(s, 3 * q + 2)  b2 == At(s, 3 * q + 3)
            six == CASE r = 0 -> b0 \div 4
                     [] r = 1 -> (b0 % 4) * 16 + (b1 \div 16)
                     [] r = 2 -> (b1 % 16) * 4 + (b2 \div 64)
                     [] r = 3 -> b2 % 64
        IN B64Alphabet[six + 1]]
\* n bytes decoded from t (n is DecSize(Len(t)) when that is defined)
B64DecN(t, n) ==
    [k \in 1..n |->
        LET q == (k - 1) \div 3
            r == (k - 1) % 3
            v0 == B64Val(At(t, 4 * q + 1))  v1 == B64Val(At(t, 4 * q + 2))
            v2 == B64Val(At(t, 4 * q + 3))  v3 == B64Val(At(t, 4 * q + 4))
        IN CASE r = 0 -> v0 * 4 + (v1 \div 16)
             [] r = 1 -> (v1 % 16) * 16 + (v2 \div 4)
             [] r = 2 -> (v2 % 4) * 64 + v3]
B64Dec(t) == B64DecN(t, DecSize(Len(t)))
B64Text(t) == \A i \in 1..Len(t) : InB64(t[i])
B64EncOk(in, out) == B64Text(out) /\ Len(out) = EncSize(Len(in)) /\ DecSize(Len(out)) = Len(in) /\ B64Dec(out) = in
\* decoder input on which the statement fixes the answer: an output of the encoder
B64Canonical(t) == B64Text(t) /\ DecSize(Len(t)) >= 0 /\ B64Enc(B64Dec(t)) = t

-----------------------------------------------------------------------------
(* 4. Leg D: all strings over Alpha up to MaxLen                             *)
Init == p = <<>>
Next == \/ (Len(p) < MaxLen /\ \E b \in Alpha : p' = Append(p, b))
        \/ (Len(p) = MaxLen /\ UNCHANGED p)
Spec == Init /\ [][Next]_p

ProperPrefixes(t) == { Take(t, k) : k \in 0..(Len(t) - 1) }

EscLaws ==
    LET e == Escape(p) IN
    /\ EscOk(p, e)
    /\ \A i \in 1..Len(e) : e[i] \notin {LT, GT, QUOT, APOS}
    /\ Len(e) >= Len(p) /\ Len(e) <= 6 * Len(p)
    /\ \A t \in ProperPrefixes(e) : ~EscOk(p, t)          \* a truncated output is never acceptable
UrlLaws ==
    LET e == UrlEncode(p) IN
    /\ UrlEncOk(p, e)
    /\ UrlPlain(e)
    /\ UrlDecode(p) = UrlDecodeScan(p, 1)                  \* positional form == sequential scan of the code
    /\ Len(e) >= Len(p) /\ Len(e) <= 3 * Len(p)
    /\ \A t \in ProperPrefixes(e) : ~UrlEncOk(p, t)
\* p repeated to length n
Cycle(s, n) == [i \in 1..n |-> s[((i - 1) % Len(s)) + 1]]
B64Law(s) ==
    LET e == B64Enc(s) IN
    /\ B64EncOk(s, e)
    /\ B64Canonical(e)
    /\ \A i \in 1..Len(e) : e[i] # 61                      \* no padding
    /\ \A t \in ProperPrefixes(e) : ~B64EncOk(s, t)
B64Laws ==
    /\ B64Law(p)
    /\ (Len(p) = 3 => \A n \in 4..12 : B64Law(Cycle(p, n)))
    \* the lenient decoder on arbitrary text: size as reported
    /\ (DecSize(Len(p)) >= 0 => Len(B64Dec(p)) = DecSize(Len(p)))

SizeLaws ==
    Len(p) = 0 =>
      /\ \A n \in 0..MaxSize :
            /\ EncSize(n) % 4 # 1
            /\ DecSize(EncSize(n)) = n
            /\ 3 * EncSize(n) >= 4 * n /\ 3 * EncSize(n) <= 4 * n + 2
      /\ \A m \in 0..MaxSize : (m % 4 # 1) => (DecSize(m) >= 0 /\ EncSize(DecSize(m)) = m)
      /\ \A c \in Byte : InB64(c) => B64Alphabet[B64Val(c) + 1] = c
      /\ \A v \in 0..63 : B64Val(B64Alphabet[v + 1]) = v /\ InB64(B64Alphabet[v + 1])
      /\ Len(B64Alphabet) = 64
=============================================================================
