SPECIFICATION TraceSpec
CONSTANTS
  RepKind = "lohi"
  FilterAlpha = {}
  FilterMax = 3
  Strict = FALSE
POSTCONDITION TraceDone
CHECK_DEADLOCK FALSE
