----------------------------- MODULE Utf8Trace -----------------------------
(* Leg B for C14: every event recorded by harness/text/utf8_drv.cpp from the *)
(* real validators must satisfy the predicates of Utf8.tla.                  *)
(*   Strict = FALSE : property layer (a rejection is a VIOLATION)            *)
(*   Strict = TRUE  : additionally the mechanism layer - exact code-page     *)
(*                    tables, exact filter output (a rejection is MODEL-DRIFT)*)
EXTENDS Utf8, TraceBase

CONSTANT Strict
VARIABLES l, tab, tabcp
tvars == <<p, l, tab, tabcp>>

Ev == TraceLog[l]
Is(name) == l <= NLines /\ Ev.e = name /\ l' = l + 1
Keep == UNCHANGED <<p, tab, tabcp>>

TReset == Is("Reset") /\ tab' = <<>> /\ tabcp' = "" /\ UNCHANGED p

\* ---- one call of utf8::next / utf_traits<char>::decode on a sequence of <= 4 bytes
TNext ==
    /\ Is("Next") /\ Keep
    /\ LET s == Ev.in
           n == LenAt(s, 1, Ev.html) IN
       /\ Len(s) <= 4
       /\ Ev.ok = (n > 0)
       /\ (n > 0 => (Ev.n = n /\ Ev.cp = CPAt(s, 1, n)))
       \* the verdict the harness looked up in the exported table for this input
       /\ Ev.tn = n
       /\ (n > 0 => (Ev.tlo <= CPAt(s, 1, n) /\ CPAt(s, 1, n) <= Ev.thi))

\* ---- summary of an exhaustive sweep against the table: no mismatch, full count
Pow256(k) == CASE k = 1 -> <<0, 256>> [] k = 2 -> <<1, 0>> [] k = 3 -> <<256, 0>> [] k = 4 -> <<65536, 0>>
TSweep ==
    /\ Is("Sweep") /\ Keep
    /\ Ev.mism = 0
    /\ Ev.len \in 1..4
    /\ (Ev.kind = "all" => <<Ev.n_hi, Ev.n_lo>> = Pow256(Ev.len))
    /\ (Ev.n_hi > 0 \/ Ev.n_lo > 0)

\* ---- whole-string validators and counters
TStr ==
    /\ Is("Str") /\ Keep
    /\ LET c == Count(Ev.in, Ev.html) IN
       /\ Ev.ok = (c >= 0)
       /\ (Ev.ok /\ Ev.hascount => Ev.count = c)

\* ---- validate_or_filter, UTF-8
TFilter ==
    /\ Is("Filter") /\ Keep
    /\ LET v == Valid(Ev.in, TRUE) IN
       /\ Ev.ret = v
       /\ (v => ~Ev.touched)
       /\ (~v /\ SaneRepl(Ev.repl) => Valid(Ev.out, TRUE))
       /\ (Strict /\ ~v => Ev.out = Filter(Ev.in, Ev.repl))

\* ---- single-byte code pages
Bytes(s) == { s[i] : i \in 1..Len(s) }
CpKnown == Ev.cp \in CPNames
StrictCp == Strict /\ CodePages[Ev.cp].via = "table"
TCpTable ==
    /\ Is("CpTable") /\ CpKnown /\ UNCHANGED p
    /\ Len(Ev.single) = 256 /\ Len(Ev.cnt) = 256
    /\ \A b \in Byte :
          /\ (CPMust(b) => Ev.single[b + 1] = 1)
          /\ (CPMustNot(Ev.cp, b) => Ev.single[b + 1] = 0)
          /\ (Ev.single[b + 1] = 1 => Ev.cnt[b + 1] = 1)
          /\ (StrictCp => (Ev.single[b + 1] = 1) = CPAccepts(Ev.cp, b))
    /\ tab' = Ev.single /\ tabcp' = Ev.cp

\* each byte is judged on its own: <<a, b>> is valid iff a is and b is
TCpRow ==
    /\ Is("CpRow") /\ Keep
    /\ Ev.cp = tabcp /\ Len(Ev.pair) = 256 /\ Ev.a \in Byte
    /\ \A b \in Byte :
          /\ (Ev.pair[b + 1] = 1) = (tab[Ev.a + 1] = 1 /\ tab[b + 1] = 1)
          /\ (Ev.pair[b + 1] = 1 => Ev.cnt[b + 1] = 2)

TStrCp ==
    /\ Is("StrCp") /\ CpKnown /\ Keep
    /\ LET B == Bytes(Ev.in) IN
       /\ ((\E b \in B : CPMustNot(Ev.cp, b)) => ~Ev.ok)
       /\ ((\A b \in B : CPMust(b)) => Ev.ok)
       /\ (Ev.ok => Ev.count = Len(Ev.in))
       /\ (StrictCp => Ev.ok = (\A b \in B : CPAccepts(Ev.cp, b)))

FilterCpOut(s, cp, r) ==
    LET F[i \in 0..Len(s)] ==
          IF i = 0 THEN <<>>
          ELSE IF CPAccepts(cp, s[i]) THEN Append(F[i - 1], s[i])
          ELSE IF r = 0 THEN F[i - 1] ELSE Append(F[i - 1], r)
    IN F[Len(s)]
TFilterCp ==
    /\ Is("FilterCp") /\ CpKnown /\ Keep
    /\ LET B == Bytes(Ev.in)
           O == Bytes(Ev.out) IN
       /\ ((\E b \in B : CPMustNot(Ev.cp, b)) => ~Ev.ret)
       /\ ((\A b \in B : CPMust(b)) => Ev.ret)
       /\ (Ev.ret => ~Ev.touched)
       /\ (~Ev.ret /\ SaneRepl(Ev.repl) => \A b \in O : ~CPMustNot(Ev.cp, b))
       /\ (~Ev.ret => Len(Ev.out) <= Len(Ev.in))
       /\ (StrictCp => Ev.ret = (\A b \in B : CPAccepts(Ev.cp, b)))
       /\ (StrictCp /\ ~Ev.ret => Ev.out = FilterCpOut(Ev.in, Ev.cp, Ev.repl))

TraceInit == Init /\ l = 1 /\ tab = <<>> /\ tabcp = ""
TraceNext == TReset \/ TNext \/ TSweep \/ TStr \/ TFilter \/ TCpTable \/ TCpRow \/ TStrCp \/ TFilterCp
TraceSpec == TraceInit /\ [][TraceNext]_tvars
=============================================================================
