SPECIFICATION TraceSpec
CONSTANTS
  Alpha = {}
  MaxLen = 0
  MaxSize = 0
  Explain = FALSE
  Strict = FALSE
POSTCONDITION TraceDone
CHECK_DEADLOCK FALSE
