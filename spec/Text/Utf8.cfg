SPECIFICATION Spec
CONSTANTS
  RepKind = "five"
  FilterAlpha = {0, 9, 32, 127, 128, 143, 144, 159, 160, 191, 194, 224, 237, 240, 244}
  FilterMax = 5
INVARIANTS StaticLaws AllSeqLaws FilterLaws
