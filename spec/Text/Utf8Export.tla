----------------------------- MODULE Utf8Export -----------------------------
(* Writes the specification's verdict for every sequence of byte classes of   *)
(* length 1..4 (JSON, file named by env TABLE_OUT).  The C14 harness replays  *)
(* every concrete byte sequence against this table; it has no other notion of *)
(* validity.                                                                  *)
(*   classes[b+1]  class (1..nclass) of byte b                                *)
(*   weights[n][i] weight of byte i in the scalar value of an n-byte character *)
(*   table[idx+1]  <<n, nh, lo, hi>> for the class sequence c1 c2 c3 c4       *)
(*                 (0 = absent), idx = ((c1*N1 + c2)*N1 + c3)*N1 + c4,        *)
(*                 N1 = nclass+1:                                             *)
(*                 n  = length of the well-formed character the sequence      *)
(*                      starts with (0: none), nh = the same in HTML-safe     *)
(*                      mode, lo..hi = bounds of its scalar value             *)
EXTENDS Utf8, Json, IOUtils

N1 == NClass + 1
Digits(idx) == << idx \div (N1 * N1 * N1), (idx \div (N1 * N1)) % N1, (idx \div N1) % N1, idx % N1 >>
SeqLen(d) == IF d[1] = 0 THEN 0 ELSE IF d[2] = 0 THEN 1 ELSE IF d[3] = 0 THEN 2 ELSE IF d[4] = 0 THEN 3 ELSE 4
WellFormedIdx(d) == \A i \in 1..4 : (i > SeqLen(d)) => d[i] = 0

Entry(idx) ==
    LET d == Digits(idx)
        k == SeqLen(d) IN
    IF k = 0 \/ ~WellFormedIdx(d) THEN <<0, 0, 0, 0>>
    ELSE LET lo == [i \in 1..k |-> ClassLo[d[i]]]
             hi == [i \in 1..k |-> ClassHi(d[i])]
             n  == LenAt(lo, 1, FALSE)
             nh == LenAt(lo, 1, TRUE) IN
         IF n = 0 THEN <<0, 0, 0, 0>>
         ELSE <<n, nh, CPAt(lo, 1, n), CPAt(hi, 1, n)>>

Table == [ nclass  |-> NClass,
           classes |-> [b \in 1..256 |-> ClassOf(b - 1)],
           weights |-> [n \in 1..4 |-> [i \in 1..4 |-> IF i <= n THEN W(n, i) ELSE 0]],
           table   |-> [i \in 1..(N1 * N1 * N1 * N1) |-> Entry(i - 1)] ]

ASSUME JsonSerialize(IOEnv.TABLE_OUT, Table)

\* nothing to explore here
ESpec == Init /\ [][FALSE]_p
=============================================================================
