SPECIFICATION TraceSpec
CONSTANTS
  RepKind = "lohi"
  FilterAlpha = {}
  FilterMax = 3
  Strict = TRUE
POSTCONDITION TraceDone
CHECK_DEADLOCK FALSE
