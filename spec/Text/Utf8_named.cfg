SPECIFICATION Spec
CONSTANTS
  RepKind = "lohi"
  FilterAlpha = {0, 9, 32, 127, 128, 143, 144, 159, 160, 191, 194, 224, 237, 240, 244}
  FilterMax = 3
INVARIANTS StaticLaws PrefixFree DfaMatchesAbnf AbnfIsRfcTable HtmlByteLevel ClassInvariant CountLaws FilterLaws
