SPECIFICATION Spec
CONSTANTS
  Alpha = {0, 32, 34, 35, 37, 38, 39, 43, 45, 46, 47, 53, 59, 60, 61, 62, 65, 95, 102, 122, 126, 128, 251, 255}
  MaxLen = 4
  MaxSize = 4096
INVARIANTS EscLaws UrlLaws B64Laws SizeLaws
