SPECIFICATION ESpec
CONSTANTS
  RepKind = "lohi"
  FilterAlpha = {}
  FilterMax = 3
