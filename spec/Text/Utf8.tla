-------------------------------- MODULE Utf8 --------------------------------
(* C14 - text validators accept exactly the well-formed strings of their     *)
(* encoding.                                                                 *)
(*                                                                           *)
(* Property layer                                                            *)
(*   IsCharAt / LenAt / Count / Valid : RFC 3629 section 4 (ABNF) as a        *)
(*       predicate over byte sequences, the HTML-safe restriction, the       *)
(*       number of code points;                                              *)
(*   CPMust / CPMustNot : what every single-byte code-page validator owes.   *)
(* Mechanism layer (what Leg D proves equivalent / conforming)               *)
(*   Dfa      : the decoder of private/utf_iterator.h (utf8::next) and of    *)
(*              booster/locale/utf.h (utf_traits<char>::decode);             *)
(*   Filter   : validate_or_filter_utf8;                                     *)
(*   CPAccepts: the exact per-code-page tables.                              *)
(* ClassLo is the byte partition on whose boundaries all of them depend;     *)
(* Utf8Export.tla writes the verdict of the ABNF for every sequence of byte  *)
(* classes of length <= 4, the harness replays every concrete byte sequence  *)
(* against it (Leg B).                                                       *)
EXTENDS Integers, Sequences, FiniteSets, TLC

CONSTANTS RepKind,       \* "lohi" | "five" : representatives per byte class explored by Leg D
          FilterAlpha,   \* bytes from which Leg D builds the strings of the Filter laws
          FilterMax      \* maximal length of those strings (3..5)

VARIABLE p               \* Leg D: a prefix of <= 3 representative bytes

Byte == 0..255

-----------------------------------------------------------------------------
(* 1. RFC 3629.  The grammar looks at a byte only through these ranges.      *)
Rg == [ ascii  |-> 0..127,     \* UTF8-1
        tail   |-> 128..191,   \* UTF8-tail
        lead2  |-> 194..223,   \* C2-DF
        e0     |-> {224},      e0t |-> 160..191,
        lead3a |-> 225..236,   \* E1-EC
        ed     |-> {237},      edt |-> 128..159,
        lead3b |-> 238..239,   \* EE-EF
        f0     |-> {240},      f0t |-> 144..191,
        lead4  |-> 241..243,   \* F1-F3
        f4     |-> {244},      f4t |-> 128..143,
        \* HTML-safe restriction, byte level
        c0bad  |-> (0..31) \ {9, 10, 13},
        ws     |-> {9, 10, 13},
        del    |-> {127},
        c2     |-> {194},      c1t |-> 128..159 ]

IsTail(b) == b \in Rg.tail

\* s[i..i+n-1] is one UTF8-char of the ABNF (caller guarantees i+n-1 <= Len(s))
IsCharAt(s, i, n) ==
    \/ (n = 1 /\ s[i] \in Rg.ascii)
    \/ (n = 2 /\ s[i] \in Rg.lead2 /\ IsTail(s[i+1]))
    \/ (n = 3 /\ IsTail(s[i+2]) /\
          (\/ (s[i] \in Rg.e0 /\ s[i+1] \in Rg.e0t)
           \/ (s[i] \in Rg.lead3a /\ IsTail(s[i+1]))
           \/ (s[i] \in Rg.ed /\ s[i+1] \in Rg.edt)
           \/ (s[i] \in Rg.lead3b /\ IsTail(s[i+1]))))
    \/ (n = 4 /\ IsTail(s[i+2]) /\ IsTail(s[i+3]) /\
          (\/ (s[i] \in Rg.f0 /\ s[i+1] \in Rg.f0t)
           \/ (s[i] \in Rg.lead4 /\ IsTail(s[i+1]))
           \/ (s[i] \in Rg.f4 /\ s[i+1] \in Rg.f4t)))

IsChar(s) == Len(s) \in 1..4 /\ IsCharAt(s, 1, Len(s))

\* the scalar value such a character denotes (RFC 3629 section 3)
CPAt(s, i, n) ==
    CASE n = 1 -> s[i]
      [] n = 2 -> (s[i] - 192) * 64 + (s[i+1] - 128)
      [] n = 3 -> (s[i] - 224) * 4096 + (s[i+1] - 128) * 64 + (s[i+2] - 128)
      [] n = 4 -> (s[i] - 240) * 262144 + (s[i+1] - 128) * 4096 + (s[i+2] - 128) * 64 + (s[i+3] - 128)

Scalar(v) == v >= 0 /\ v <= 1114111 /\ ~(55296 <= v /\ v <= 57343)

\* the encoding table of RFC 3629 section 3
Enc(v) ==
    IF v <= 127 THEN <<v>>
    ELSE IF v <= 2047 THEN <<192 + v \div 64, 128 + (v % 64)>>
    ELSE IF v <= 65535 THEN <<224 + v \div 4096, 128 + ((v \div 64) % 64), 128 + (v % 64)>>
    ELSE <<240 + v \div 262144, 128 + ((v \div 4096) % 64), 128 + ((v \div 64) % 64), 128 + (v % 64)>>

\* HTML-safe: no C0 control except HT LF CR, no DEL, no C1 (U+0080..U+009F)
HtmlSafe(v) == ~(v \in 0..31 /\ v \notin {9, 10, 13}) /\ v # 127 /\ ~(v \in 128..159)

\* the same restriction seen on bytes
HtmlSafeAt(s, i, n) ==
    /\ ~(n = 1 /\ (s[i] \in Rg.c0bad \/ s[i] \in Rg.del))
    /\ ~(n = 2 /\ s[i] \in Rg.c2 /\ s[i+1] \in Rg.c1t)

Min(a, b) == IF a < b THEN a ELSE b

\* lengths n such that s[i..] starts with a well-formed (and, if html, HTML-safe) character
CharLens(s, i, html) ==
    { n \in 1..Min(4, Len(s) - i + 1) : IsCharAt(s, i, n) /\ (html => HtmlSafe(CPAt(s, i, n))) }

\* length of the character s[i..] starts with; 0 = none (ill-formed, truncated or not HTML-safe).
\* (The smallest matching length; PrefixFree below shows that at most one length matches.)
CharOk(s, i, n, html) == IsCharAt(s, i, n) /\ (html => HtmlSafe(CPAt(s, i, n)))
LenAt(s, i, html) ==
    LET a == Len(s) - i + 1 IN
    IF a >= 1 /\ CharOk(s, i, 1, html) THEN 1
    ELSE IF a >= 2 /\ CharOk(s, i, 2, html) THEN 2
    ELSE IF a >= 3 /\ CharOk(s, i, 3, html) THEN 3
    ELSE IF a >= 4 /\ CharOk(s, i, 4, html) THEN 4
    ELSE 0

\* number of code points of s[i..], or -1 if it is not a sequence of characters
RECURSIVE CountFrom(_, _, _)
CountFrom(s, i, html) ==
    IF i > Len(s) THEN 0
    ELSE LET n == LenAt(s, i, html) IN
         IF n = 0 THEN -1
         ELSE LET r == CountFrom(s, i + n, html) IN IF r < 0 THEN -1 ELSE r + 1

Count(s, html) == CountFrom(s, 1, html)
Valid(s, html) == Count(s, html) >= 0

-----------------------------------------------------------------------------
(* 2. The decoder as written in utf_iterator.h / booster utf.h.              *)
TrailLength(c) ==
    IF c < 128 THEN 0 ELSE IF c < 194 THEN -1 ELSE IF c < 224 THEN 1
    ELSE IF c < 240 THEN 2 ELSE IF c <= 244 THEN 3 ELSE -1

Width(v) == IF v <= 127 THEN 1 ELSE IF v <= 2047 THEN 2 ELSE IF v <= 65535 THEN 3 ELSE 4
IsTrailBits(c) == (c \div 64) = 2                        \* (c & 0xC0) == 0x80
Pow2(k) == CASE k = 3 -> 8 [] k = 4 -> 16 [] k = 5 -> 32

Ill(n, inc) == [ok |-> FALSE, n |-> n, cp |-> 0, inc |-> inc]
Good(n, v)  == [ok |-> TRUE, n |-> n, cp |-> v, inc |-> FALSE]

\* reads trail bytes k..t (k-th trail is s[1+k]); c = bits so far
RECURSIVE DfaTrail(_, _, _, _, _)
DfaTrail(s, k, t, c, html) ==
    IF k > t THEN
        IF ~(c <= 1114111 /\ ~(55296 <= c /\ c <= 57343)) THEN Ill(t + 1, FALSE)
        ELSE IF Width(c) # t + 1 THEN Ill(t + 1, FALSE)
        ELSE IF html /\ c < 160 THEN Ill(t + 1, FALSE)
        ELSE Good(t + 1, c)
    ELSE IF Len(s) < 1 + k THEN Ill(k, TRUE)             \* p == e
    ELSE IF ~IsTrailBits(s[1 + k]) THEN Ill(k + 1, FALSE)
    ELSE DfaTrail(s, k + 1, t, c * 64 + (s[1 + k] % 64), html)

\* utf8::next(p, e, html) applied to the whole of s; booster's decode = Dfa(s, FALSE)
Dfa(s, html) ==
    IF Len(s) = 0 THEN Ill(0, TRUE)
    ELSE LET lead == s[1]
             t == TrailLength(lead) IN
         IF t < 0 THEN Ill(1, FALSE)
         ELSE IF t = 0 THEN
              IF ~html \/ (lead >= 32 /\ lead # 127) \/ lead = 9 \/ lead = 10 \/ lead = 13
              THEN Good(1, lead) ELSE Ill(1, FALSE)
         ELSE DfaTrail(s, 1, t, lead % Pow2(6 - t), html)

-----------------------------------------------------------------------------
(* 3. Filtering (validate_or_filter_utf8): keep HTML-safe characters, replace *)
(* a well-formed but unsafe character, or else a single byte, by r (r = 0:   *)
(* drop it).                                                                 *)
RECURSIVE FilterFrom(_, _, _)
FilterFrom(s, i, r) ==
    IF i > Len(s) THEN <<>>
    ELSE LET n == LenAt(s, i, TRUE) IN
         IF n > 0 THEN SubSeq(s, i, i + n - 1) \o FilterFrom(s, i + n, r)
         ELSE LET m == LenAt(s, i, FALSE)
                  skip == IF m > 0 THEN m ELSE 1 IN
              (IF r = 0 THEN <<>> ELSE <<r>>) \o FilterFrom(s, i + skip, r)

Filter(s, r) == FilterFrom(s, 1, r)
SaneRepl(r) == r = 0 \/ (r \in 0..127 /\ HtmlSafe(r))

-----------------------------------------------------------------------------
(* 4. Single-byte code pages.                                                *)
CodePages ==
  LET iso(u)  == [fam |-> "iso", undef |-> u, via |-> "table"]
      win(u)  == [fam |-> "win", undef |-> u, via |-> "table"]
      \* windows-1254 is not registered in validators_set: encoding::valid converts it with
      \* iconv/ICU and validates the UTF-8 result, so the mechanism layer says nothing about it
      conv(u) == [fam |-> "win", undef |-> u, via |-> "conv"]
      w1250 == {129, 131, 136, 144, 152}
      w1251 == {152}
      w1252 == {129, 141, 143, 144, 157}
      w1253 == {129, 136, 138, 140, 141, 142, 143, 144, 152, 154, 156, 157, 158, 159, 170, 210, 255}
      w1254 == {129, 141, 142, 143, 144, 157, 158}
      w1255 == {129, 138, 140, 141, 142, 143, 144, 154, 156, 157, 158, 159, 202} \cup (217..223) \cup {251, 252, 255}
      w1256 == {}
      w1257 == {129, 131, 136, 138, 140, 144, 152, 154, 156, 159, 161, 165}
      w1258 == {129, 138, 141, 142, 143, 144, 154, 157, 158}
      i3  == {165, 174, 190, 195, 208, 227, 240}
      i6  == (161..163) \cup (165..171) \cup (174..186) \cup (188..190) \cup {192} \cup (219..223) \cup (243..255)
      i7  == {174, 210, 255}
      i8  == {161, 251, 252, 255} \cup (191..222)
      i11 == (219..222) \cup (252..255)
  IN
  [ latin1 |-> iso({}), iso88591 |-> iso({}), iso88592 |-> iso({}), iso88594 |-> iso({}),
    iso88595 |-> iso({}), iso88599 |-> iso({}), iso885910 |-> iso({}), iso885913 |-> iso({}),
    iso885914 |-> iso({}), iso885915 |-> iso({}), iso885916 |-> iso({}),
    iso88593 |-> iso(i3), iso88596 |-> iso(i6), iso88597 |-> iso(i7), iso88598 |-> iso(i8),
    iso885911 |-> iso(i11),
    windows1250 |-> win(w1250), windows1251 |-> win(w1251), windows1252 |-> win(w1252),
    windows1253 |-> win(w1253), windows1254 |-> conv(w1254), windows1255 |-> win(w1255),
    windows1256 |-> win(w1256), windows1257 |-> win(w1257), windows1258 |-> win(w1258),
    cp1250 |-> win(w1250), cp1251 |-> win(w1251), cp1252 |-> win(w1252), cp1253 |-> win(w1253),
    cp1254 |-> conv(w1254), cp1255 |-> win(w1255), cp1256 |-> win(w1256), cp1257 |-> win(w1257),
    cp1258 |-> win(w1258),
    koi8r |-> [fam |-> "koi", undef |-> {}, via |-> "table"], koi8u |-> [fam |-> "koi", undef |-> {}, via |-> "table"],
    ascii |-> [fam |-> "ascii", undef |-> 127..255, via |-> "table"],
    usascii |-> [fam |-> "ascii", undef |-> 127..255, via |-> "table"] ]

CPNames == DOMAIN CodePages

\* property layer: what the statement demands of every single-byte validator
CPMust(b)        == b \in 32..126                                   \* printable ASCII is accepted
CPMustNot(cp, b) == \/ (b \in 0..31 /\ b \notin {9, 10, 13})        \* C0 (HT LF CR: the HTML-safe exemption)
                    \/ b = 127
                    \/ (CodePages[cp].fam = "iso" /\ b \in 128..159) \* C1 in the ISO-8859 family
\* mechanism layer: the exact tables of private/encoding_validators.h
CPAccepts(cp, b) == \/ b \in {9, 10, 13}
                    \/ (b >= 32 /\ ~CPMustNot(cp, b) /\ b \notin CodePages[cp].undef)

CPTablesConform ==
    \A cp \in CPNames : \A b \in Byte :
        /\ (CPMust(b) => CPAccepts(cp, b))
        /\ (CPMustNot(cp, b) => ~CPAccepts(cp, b))

-----------------------------------------------------------------------------
(* 5. The byte partition.                                                    *)
ClassLo == <<0, 9, 11, 13, 14, 32, 127, 128, 144, 160, 192, 194, 195, 224, 225, 237, 238, 240, 241, 244, 245>>
NClass == Len(ClassLo)
ClassHi(k) == IF k = NClass THEN 255 ELSE ClassLo[k + 1] - 1
ClassOf(b) == CHOOSE k \in 1..NClass : ClassLo[k] <= b /\ b <= ClassHi(k)
ClassSet(k) == ClassLo[k]..ClassHi(k)

\* every range used by the grammar, the restriction and the decoder is a union of classes
Thresholds == { 0..127, 0..193, 0..223, 0..239, 0..244, 0..31, {9, 10, 13}, {127} }
Congruent(R) == \A k \in 1..NClass : ClassSet(k) \subseteq R \/ ClassSet(k) \cap R = {}
ClassCongruence ==
    /\ \A f \in DOMAIN Rg : Congruent(Rg[f])
    /\ \A R \in Thresholds : Congruent(R)

Reps(k) ==
    LET lo == ClassLo[k]
        hi == ClassHi(k) IN
    IF RepKind = "lohi" THEN {lo, hi}
    ELSE {lo, hi, (lo + hi) \div 2, Min(lo + 1, hi), IF hi - 1 < lo THEN lo ELSE hi - 1}
AllReps == UNION { Reps(k) : k \in 1..NClass }
\* lower bound of the class of b, as a decision tree (StaticLaws: LoByte(b) = ClassLo[ClassOf(b)])
LoByte(b) ==
    IF b < 128 THEN
        IF b < 14 THEN (IF b < 9 THEN 0 ELSE IF b < 11 THEN 9 ELSE IF b < 13 THEN 11 ELSE 13)
        ELSE (IF b < 32 THEN 14 ELSE IF b < 127 THEN 32 ELSE 127)
    ELSE IF b < 194 THEN (IF b < 144 THEN 128 ELSE IF b < 160 THEN 144 ELSE IF b < 192 THEN 160 ELSE 192)
    ELSE IF b < 238 THEN (IF b < 195 THEN 194 ELSE IF b < 224 THEN 195 ELSE IF b < 225 THEN 224 ELSE IF b < 237 THEN 225 ELSE 237)
    ELSE (IF b < 240 THEN 238 ELSE IF b < 241 THEN 240 ELSE IF b < 244 THEN 241 ELSE IF b < 245 THEN 244 ELSE 245)
LoOf(s) == [i \in 1..Len(s) |-> LoByte(s[i])]

\* the scalar value is affine in the bytes: weight of byte i of an n-byte character
W(n, i) == CASE n - i = 0 -> 1 [] n - i = 1 -> 64 [] n - i = 2 -> 4096 [] n - i = 3 -> 262144
Affine(s, lo, n) ==
    LET D(i) == IF i <= n THEN (s[i] - lo[i]) * W(n, i) ELSE 0 IN
    CPAt(s, 1, n) = CPAt(lo, 1, n) + D(1) + D(2) + D(3) + D(4)

-----------------------------------------------------------------------------
(* 6. Leg D: all sequences of <= 4 representative bytes.  A state holds the  *)
(* first three bytes; the invariants quantify over the fourth.               *)
Init == p = <<>>
Next == \/ (Len(p) < 3 /\ \E b \in AllReps : p' = Append(p, b))
        \/ (Len(p) = 3 /\ UNCHANGED p)
Spec == Init /\ [][Next]_p

Here == IF Len(p) < 3 THEN {p} ELSE {p} \cup { Append(p, b) : b \in AllReps }

\* the characters of the ABNF are prefix-free: at most one length matches
PrefixFree == \A s \in Here : \A h \in BOOLEAN : Cardinality(CharLens(s, 1, h)) <= 1

\* decoder == grammar: same verdict, same length, same value
DfaOk(s, h) ==
    LET d == Dfa(s, h)
        n == LenAt(s, 1, h) IN
    /\ d.ok = (n > 0)
    /\ (d.ok => (d.n = n /\ d.cp = CPAt(s, 1, n)))
    /\ (d.inc => (~d.ok /\ d.n = Len(s)))
    /\ d.n <= Len(s)
DfaMatchesAbnf == \A s \in Here : DfaOk(s, FALSE) /\ DfaOk(s, TRUE)

\* the ABNF is exactly "the RFC's encoding of a scalar value" (hence shortest form, no surrogates)
AbnfIsRfcTable ==
    \A s \in Here :
        Len(s) \in 1..4 =>
            LET v == CPAt(s, 1, Len(s)) IN
            IsChar(s) = (Scalar(v) /\ Enc(v) = s)

\* HTML-safety of the value == the byte-level restriction
HtmlByteLevel ==
    \A s \in Here : \A n \in CharLens(s, 1, FALSE) : HtmlSafe(CPAt(s, 1, n)) = HtmlSafeAt(s, 1, n)

\* the verdict depends on the classes only; values are monotone between the class bounds
ClassInvariant ==
    \A s \in Here : \A h \in BOOLEAN :
        LET n == LenAt(s, 1, h)
            lo == LoOf(s) IN
        /\ LenAt(lo, 1, h) = n
        /\ (n > 0 => CPAt(lo, 1, n) <= CPAt(s, 1, n) /\ Affine(s, lo, n))

\* whole-string validity and count on these short strings
CountLaws ==
    \A s \in Here : \A h \in BOOLEAN :
        /\ (Valid(s, TRUE) => Valid(s, FALSE) /\ Count(s, TRUE) = Count(s, FALSE))
        /\ (Valid(s, h) => Count(s, h) <= Len(s) /\ 4 * Count(s, h) >= Len(s))
        /\ (IsChar(s) => Count(s, FALSE) = 1)

\* Filter laws on all strings over FilterAlpha up to FilterMax
\* (states whose prefix lies in FilterAlpha^3 carry the strings of length 3..FilterMax)
FSuffixes ==
    LET A == FilterAlpha
        S1 == { <<a>> : a \in A }
        S2 == { <<a, b>> : a \in A, b \in A } IN
    {<<>>} \cup (IF FilterMax >= 4 THEN S1 ELSE {}) \cup (IF FilterMax >= 5 THEN S2 ELSE {})
FHere == IF \E i \in 1..Len(p) : p[i] \notin FilterAlpha THEN {}
         ELSE IF Len(p) < 3 THEN {p} ELSE { p \o t : t \in FSuffixes }
FilterLaws ==
    \A s \in FHere : \A r \in {0, 63, 32} :
        LET f == Filter(s, r) IN
        /\ Valid(f, TRUE)
        /\ (Valid(s, TRUE) => f = s)
        /\ (~Valid(s, TRUE) /\ r = 0 => Len(f) < Len(s))
        /\ Len(f) <= Len(s)
        /\ Filter(f, r) = f

\* all per-sequence laws in one pass (the named invariants above are used to name a failure)
SeqLawsH(s, h, n, c, lo) ==
    LET d == Dfa(s, h) IN
    /\ d.ok = (n > 0)
    /\ (d.ok => (d.n = n /\ d.cp = CPAt(s, 1, n)))
    /\ (d.inc => (~d.ok /\ d.n = Len(s)))
    /\ d.n <= Len(s)
    /\ LenAt(lo, 1, h) = n
    /\ (c >= 0 => c <= Len(s) /\ 4 * c >= Len(s))
SeqLaws(s) ==
    LET C  == CharLens(s, 1, FALSE)
        nF == LenAt(s, 1, FALSE)
        nT == LenAt(s, 1, TRUE)
        cF == Count(s, FALSE)
        cT == Count(s, TRUE)
        lo == LoOf(s) IN
    /\ Cardinality(C) <= 1
    /\ (nF > 0) = (C # {})
    /\ CharLens(s, 1, TRUE) = { n \in C : HtmlSafe(CPAt(s, 1, n)) }
    /\ nT = (IF nF > 0 /\ HtmlSafe(CPAt(s, 1, nF)) THEN nF ELSE 0)
    /\ SeqLawsH(s, FALSE, nF, cF, lo)
    /\ SeqLawsH(s, TRUE, nT, cT, lo)
    /\ (nF > 0 => CPAt(lo, 1, nF) <= CPAt(s, 1, nF) /\ Affine(s, lo, nF))
    /\ (cT >= 0 => cF = cT)
    /\ (nF = Len(s) /\ nF > 0 => cF = 1)
    /\ (Len(s) \in 1..4 => LET v == CPAt(s, 1, Len(s)) IN IsChar(s) = (Scalar(v) /\ Enc(v) = s))
    /\ (\A n \in C : HtmlSafe(CPAt(s, 1, n)) = HtmlSafeAt(s, 1, n))
AllSeqLaws == \A s \in Here : SeqLaws(s)

\* constant-level laws, evaluated once (in the initial state)
StaticLaws == Len(p) = 0 => (/\ ClassCongruence /\ CPTablesConform /\ FilterAlpha \subseteq AllReps
                           /\ \A b \in Byte : LoByte(b) = ClassLo[ClassOf(b)])
=============================================================================
