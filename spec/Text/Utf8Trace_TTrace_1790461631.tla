---- MODULE Utf8Trace_TTrace_1790461631 ----
EXTENDS Sequences, TLCExt, Utf8Trace, Toolbox, Naturals, TLC

_expression ==
    LET Utf8Trace_TEExpression == INSTANCE Utf8Trace_TEExpression
    IN Utf8Trace_TEExpression!expression
----

_trace ==
    LET Utf8Trace_TETrace == INSTANCE Utf8Trace_TETrace
    IN Utf8Trace_TETrace!trace
----

_inv ==
    ~(
        TLCGet("level") = Len(_TETrace)
        /\
        p = (<<>>)
        /\
        tabcp = ("")
        /\
        tab = (<<>>)
        /\
        l = (2)
    )
----

_init ==
    /\ tab = _TETrace[1].tab
    /\ l = _TETrace[1].l
    /\ p = _TETrace[1].p
    /\ tabcp = _TETrace[1].tabcp
----

_next ==
    /\ \E i,j \in DOMAIN _TETrace:
        /\ \/ /\ j = i + 1
              /\ i = TLCGet("level")
        /\ tab  = _TETrace[i].tab
        /\ tab' = _TETrace[j].tab
        /\ l  = _TETrace[i].l
        /\ l' = _TETrace[j].l
        /\ p  = _TETrace[i].p
        /\ p' = _TETrace[j].p
        /\ tabcp  = _TETrace[i].tabcp
        /\ tabcp' = _TETrace[j].tabcp

\* Uncomment the ASSUME below to write the states of the error trace
\* to the given file in Json format. Note that you can pass any tuple
\* to `JsonSerialize`. For example, a sub-sequence of _TETrace.
    \* ASSUME
    \*     LET J == INSTANCE Json
    \*         IN J!JsonSerialize("Utf8Trace_TTrace_1790461631.json", _TETrace)

=============================================================================

 Note that you can extract this module `Utf8Trace_TEExpression`
  to a dedicated file to reuse `expression` (the module in the 
  dedicated `Utf8Trace_TEExpression.tla` file takes precedence 
  over the module `Utf8Trace_TEExpression` below).

---- MODULE Utf8Trace_TEExpression ----
EXTENDS Sequences, TLCExt, Utf8Trace, Toolbox, Naturals, TLC

expression == 
    [
        \* To hide variables of the `Utf8Trace` spec from the error trace,
        \* remove the variables below.  The trace will be written in the order
        \* of the fields of this record.
        tab |-> tab
        ,l |-> l
        ,p |-> p
        ,tabcp |-> tabcp
        
        \* Put additional constant-, state-, and action-level expressions here:
        \* ,_stateNumber |-> _TEPosition
        \* ,_tabUnchanged |-> tab = tab'
        
        \* Format the `tab` variable as Json value.
        \* ,_tabJson |->
        \*     LET J == INSTANCE Json
        \*     IN J!ToJson(tab)
        
        \* Lastly, you may build expressions over arbitrary sets of states by
        \* leveraging the _TETrace operator.  For example, this is how to
        \* count the number of times a spec variable changed up to the current
        \* state in the trace.
        \* ,_tabModCount |->
        \*     LET F[s \in DOMAIN _TETrace] ==
        \*         IF s = 1 THEN 0
        \*         ELSE IF _TETrace[s].tab # _TETrace[s-1].tab
        \*             THEN 1 + F[s-1] ELSE F[s-1]
        \*     IN F[_TEPosition - 1]
    ]

=============================================================================



Parsing and semantic processing can take forever if the trace below is long.
 In this case, it is advised to uncomment the module below to deserialize the
 trace from a generated binary file.

\*
\*---- MODULE Utf8Trace_TETrace ----
\*EXTENDS IOUtils, Utf8Trace, TLC
\*
\*trace == IODeserialize("Utf8Trace_TTrace_1790461631.bin", TRUE)
\*
\*=============================================================================
\*

---- MODULE Utf8Trace_TETrace ----
EXTENDS Utf8Trace, TLC

trace == 
    <<
    ([p |-> <<>>,tabcp |-> "",tab |-> <<>>,l |-> 1]),
    ([p |-> <<>>,tabcp |-> "",tab |-> <<>>,l |-> 2])
    >>
----


=============================================================================

---- CONFIG Utf8Trace_TTrace_1790461631 ----
CONSTANTS
    RepKind = "lohi"
    FilterAlpha = { }
    FilterMax = 3
    Strict = TRUE

INVARIANT
    _inv

CHECK_DEADLOCK
    \* CHECK_DEADLOCK off because of PROPERTY or INVARIANT above.
    FALSE

INIT
    _init

NEXT
    _next

CONSTANT
    _TETrace <- _trace

ALIAS
    _expression
=============================================================================
\* Generated on Sat Sep 26 22:27:12 UTC 2026