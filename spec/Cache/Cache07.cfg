\* thorough: 3 names, every trigger set, limits 0..2  (8.0 M distinct states, ~9 min on 16 cores)
SPECIFICATION Spec
CONSTANTS
  Names = {1,2,3}
  Limits = {0,1,2}
  Deadlines = {0,1,2}
  TrigSets = {{},{3},{2,3},{1,2,3}}
  MaxNow = 3
  MaxStores = 3
  Shared = FALSE
CONSTRAINT Bounded
INVARIANTS NeverStale LiveIsFound HeldNotDead NoLimitKeepsAll

