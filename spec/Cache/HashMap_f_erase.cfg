SPECIFICATION Spec
CONSTANTS
  Keys = {0,1,2,3,4}
  Vals = {1}
  MaxNB = 3
  Fault = "erase_last_stale"
INVARIANTS IterExact FindCorrect ResultOK
