------------------------------ MODULE StringMap ------------------------------
(* G07 (growth), second table: private/string_map.h - the open-addressing      *)
(* table behind every CGI variable of a request (getenv(name), the http_*()    *)
(* accessors, CONTENT_LENGTH) in all three front-ends (C01).  As coded:         *)
(*   tab    size slots (64, doubling), a slot holds a key or is empty           *)
(*   nxt    per occupied slot the slot inserted before it; first = the most     *)
(*          recently inserted slot: iteration = the chain first, nxt[first] ..  *)
(*   Add(k) total*2 >= size -> a table of twice the size is filled by walking   *)
(*          the chain (so the insertion order of the old entries is REVERSED),  *)
(*          then insert: pos = hash % size, linear probing WITH wrap-around     *)
(*   Get(k) the same probe sequence; stops at the key or at an empty slot       *)
(* Keys carry their hash (hv): Leg D uses hash = key, Leg B logs the hash the   *)
(* code computed (mod 65536: the slot of every table up to that size).          *)
(* Names are distinct (C01's domain: distinct header names).                    *)
(* PROPERTY layer: GetCorrect - a lookup BY NAME finds exactly the names that   *)
(* were added; IterExact - the enumeration yields each of them exactly once.    *)
(* Mechanism invariants: HalfFull (why the probe terminates), ChainOK,          *)
(* ProbeReach (every key is reachable from its home slot through occupied       *)
(* slots, modulo size).  Fault seeds a design bug.                              *)
EXTENDS Integers, Sequences, FiniteSets, TLC
CONSTANTS Keys, InitSize, MaxTotal, Fault
VARIABLES tab, nxt, first, total, size, hv, res
vars == <<tab, nxt, first, total, size, hv, res>>
No == -1
EmptyTab(n) == [i \in 0..(n - 1) |-> No]

\* insert(d, e, first): probe from the home slot, wrapping around
RECURSIVE Probe(_, _, _, _)
Probe(t, n, pos, steps) ==           \* first empty slot at or after pos (cyclically); No if a fault makes the walk leave the table
    IF steps > n THEN No
    ELSE IF t[pos] = No THEN pos
    ELSE IF Fault = "insert_nowrap" /\ pos + 1 = n THEN No
    ELSE Probe(t, n, (pos + 1) % n, steps + 1)

\* get(key): probe until the key or an empty slot
RECURSIVE Look(_, _, _, _, _)
Look(t, n, pos, k, steps) ==
    IF steps > n THEN No
    ELSE IF t[pos] = No THEN No
    ELSE IF t[pos] = k THEN pos
    ELSE IF Fault = "get_nowrap" /\ pos + 1 = n THEN No
    ELSE Look(t, n, (pos + 1) % n, k, steps + 1)

Chain(f, nx) ==                       \* the slots in iteration order
    LET RECURSIVE C(_, _)
        C(p, acc) == IF p = No \/ Len(acc) > Cardinality(DOMAIN nx) THEN acc ELSE C(nx[p], Append(acc, p))
    IN C(f, <<>>)

\* one insert into (t, nx, f) of key k with hash h, table size n
Ins(t, nx, f, n, k, h) ==
    LET p == Probe(t, n, h % n, 0)
    IN [t |-> [t EXCEPT ![p] = k], nx |-> [nx EXCEPT ![p] = f], f |-> p]

RECURSIVE Refill(_, _, _, _, _)
Refill(slots, old, st, n, h) ==       \* slots: the old chain; st: the new (t, nx, f)
    IF slots = <<>> THEN st
    ELSE LET k == old[Head(slots)] IN Refill(Tail(slots), old, Ins(st.t, st.nx, st.f, n, k, h[k]), n, h)

Init == /\ size = InitSize /\ tab = EmptyTab(InitSize) /\ nxt = EmptyTab(InitSize)
        /\ first = No /\ total = 0 /\ hv = <<>> /\ res = [op |-> "init"]

Add(k, h) ==
    /\ k \notin DOMAIN hv /\ total < MaxTotal
    /\ LET h1 == [x \in DOMAIN hv \cup {k} |-> IF x = k THEN h ELSE hv[x]]
           grow == total * 2 >= size
           n1 == IF grow THEN size * 2 ELSE size
           st0 == IF grow THEN Refill(Chain(first, nxt), tab, [t |-> EmptyTab(n1), nx |-> EmptyTab(n1), f |-> No], n1, h1)
                  ELSE [t |-> tab, nx |-> nxt, f |-> first]
           st1 == Ins(st0.t, st0.nx, st0.f, n1, k, h)
       IN /\ size' = n1 /\ tab' = st1.t /\ nxt' = st1.nx /\ first' = st1.f /\ hv' = h1
    /\ total' = total + 1
    /\ res' = [op |-> "add", k |-> k]

Get(k, h) ==
    /\ LET p == Look(tab, size, h % size, k, 0)
       IN res' = [op |-> "get", k |-> k, got |-> (p # No), exp |-> (k \in DOMAIN hv)]
    /\ UNCHANGED <<tab, nxt, first, total, size, hv>>

Clear ==
    /\ size' = InitSize /\ tab' = EmptyTab(InitSize) /\ nxt' = EmptyTab(InitSize)
    /\ first' = No /\ total' = 0 /\ hv' = <<>> /\ res' = [op |-> "clear"]

Next == \/ \E k \in Keys : Add(k, k)
        \/ \E k \in Keys : Get(k, k)
        \/ Clear
Spec == Init /\ [][Next]_vars
-----------------------------------------------------------------------------
Present == { tab[i] : i \in 0..(size - 1) } \ {No}
IterKeys == LET c == Chain(first, nxt) IN [i \in 1..Len(c) |-> tab[c[i]]]

GetCorrect == \A k \in Keys :
    LET h == IF k \in DOMAIN hv THEN hv[k] ELSE k
    IN (Look(tab, size, h % size, k, 0) # No) <=> (k \in DOMAIN hv)
ResultOK == res.op = "get" => res.got = res.exp
IterExact ==
    /\ Len(IterKeys) = total
    /\ \A i, j \in 1..Len(IterKeys) : i # j => IterKeys[i] # IterKeys[j]
    /\ { IterKeys[i] : i \in 1..Len(IterKeys) } = DOMAIN hv
HalfFull == total * 2 <= size /\ Cardinality(Present) = total
ProbeReach == \A i \in 0..(size - 1) : tab[i] # No =>
    LET home == hv[tab[i]] % size
        d == (i - home + size) % size
    IN \A j \in 0..d : tab[(home + j) % size] # No
=============================================================================
