SPECIFICATION TraceSpec
CONSTANTS
  Names = {"n1","n2","n3","n4","n5","n6","n7","n8","aq","ba","cQ","dA","e1"}
  Limits = {0}
  Deadlines = {0}
  TrigSets = {{}}
  MaxNow = 0
  MaxStores = 0
  Shared = FALSE
INVARIANTS NeverStale HeldNotDead Bound OrderInv
POSTCONDITION TraceDone
CHECK_DEADLOCK FALSE
