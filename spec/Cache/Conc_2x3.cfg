SPECIFICATION CSpec
CONSTANTS
  Names = {1,2}
  Limits = {0,1}
  Deadlines = {0}
  TrigSets = {{},{2}}
  MaxNow = 0
  MaxStores = 6
  Shared = FALSE
  Threads = {1,2}
  OpsPerThread = 3
  BugCopyAfterUnlock = FALSE
  BugNoLruMutex = FALSE
  BugReadLockRemove = FALSE
INVARIANTS Excl LruWellFormed MutExcl Lin NoTorn SeqOK NoDeadlock

CHECK_DEADLOCK FALSE
