---------------------------- MODULE FrontTrace ----------------------------
(* Leg B for C07's second sentence.  Only the history variables of Front.tla  *)
(* (store, used, usedr, depsOf) are used; the sets the real cache_interface   *)
(* attached (sts / pts / set, read back from the back-end by the harness) are *)
(* taken from the log and must CONTAIN every dependency (Dep).  Equality with *)
(* the mechanism prediction (ptrig / rec) is not demanded here.               *)
EXTENDS Front, TraceBase

VARIABLE l
tvars == <<fvars, l>>
Ev == TraceLog[l]
Is(name) == l <= NLines /\ Ev.e = name /\ l' = l + 1
S(x) == SeqToSet(x)
Pg(key) == "_U:" \o key
Mech == UNCHANGED <<ptrig, rec, nv>>

TReset == /\ Is("Reset")
          /\ store' = [k \in Keys |-> Nothing] /\ used' = {} /\ usedr' = [r \in Recs |-> {}]
          /\ active' = {} /\ depsOf' = [k \in Keys |-> {}] /\ res' = NoRes /\ Mech
TNewReq == /\ Is("NewReq") /\ used' = {} /\ active' = {} /\ res' = NoRes
           /\ UNCHANGED <<store, usedr, depsOf>> /\ Mech
TAddTrig == /\ Is("AddTrig") /\ DependOn({Ev.t}) /\ res' = NoRes
            /\ UNCHANGED <<store, active, depsOf>> /\ Mech
TFFetch ==
    /\ Is("FFetch")
    /\ Ev.hit = store[Ev.k].has
    /\ Ev.hit => Ev.v = store[Ev.k].v
    /\ IF Ev.hit /\ ~Ev.notrig THEN DependOn(store[Ev.k].ts) ELSE UNCHANGED <<used, usedr>>
    /\ res' = NoRes /\ UNCHANGED <<store, active, depsOf>> /\ Mech
TFStore ==
    /\ Is("FStore")
    /\ S(Ev.ts) \cup {Ev.k} \subseteq S(Ev.sts)           \* attached = given triggers + own key
    /\ store' = [store EXCEPT ![Ev.k] = [has |-> TRUE, v |-> Ev.v, ts |-> S(Ev.sts)]]
    /\ depsOf' = [depsOf EXCEPT ![Ev.k] = S(Ev.ts) \cup {Ev.k}]
    /\ IF Ev.notrig THEN UNCHANGED <<used, usedr>> ELSE DependOn(S(Ev.ts) \cup {Ev.k})
    /\ res' = NoRes /\ UNCHANGED active /\ Mech
TOpen == /\ Is("Open") /\ Ev.r \notin active /\ active' = active \cup {Ev.r}
         /\ usedr' = [usedr EXCEPT ![Ev.r] = {}] /\ res' = NoRes
         /\ UNCHANGED <<store, used, depsOf>> /\ Mech
TDrop == /\ Is("Drop") /\ active' = active \ {Ev.r} /\ res' = NoRes
         /\ UNCHANGED <<store, used, usedr, depsOf>> /\ Mech
TDetachStore ==
    /\ Is("DetachStore")
    /\ Ev.r \in active
    /\ usedr[Ev.r] \subseteq S(Ev.set)                      \* Dep for the recorder's scope
    /\ S(Ev.set) \cup {Ev.k} \subseteq S(Ev.sts)
    /\ active' = active \ {Ev.r}
    /\ store' = [store EXCEPT ![Ev.k] = [has |-> TRUE, v |-> Ev.v, ts |-> S(Ev.sts)]]
    /\ depsOf' = [depsOf EXCEPT ![Ev.k] = usedr[Ev.r]]
    /\ used' = used \cup S(Ev.set) \cup {Ev.k}
    /\ usedr' = [q \in Recs |-> IF q \in active \ {Ev.r} THEN usedr[q] \cup S(Ev.set) \cup {Ev.k} ELSE usedr[q]]
    /\ res' = NoRes /\ Mech
TFetchPage ==
    /\ Is("FetchPage")
    /\ Ev.hit = store[Pg(Ev.key)].has
    /\ Ev.hit => Ev.v = store[Pg(Ev.key)].v
    /\ res' = NoRes /\ UNCHANGED <<store, active, used, usedr, depsOf>> /\ Mech
TStorePage ==
    /\ Is("StorePage")
    /\ Ev.has /\ Ev.bv = Ev.v                                \* the page is in the cache, with the body written
    /\ used \cup {Ev.key} \subseteq S(Ev.pts)                \* Dep for the page
    /\ store' = [store EXCEPT ![Pg(Ev.key)] = [has |-> TRUE, v |-> Ev.v, ts |-> S(Ev.pts)]]
    /\ depsOf' = [depsOf EXCEPT ![Pg(Ev.key)] = used \cup {Ev.key}]
    /\ DependOn({Ev.key})
    /\ res' = NoRes /\ UNCHANGED active /\ Mech
TRise ==
    /\ Is("Rise")
    /\ store' = [k \in Keys |-> IF store[k].has /\ Ev.t \in store[k].ts THEN Nothing ELSE store[k]]
    /\ res' = NoRes /\ UNCHANGED <<active, used, usedr, depsOf>> /\ Mech

TraceInit == FInit /\ l = 1
TraceNext == TReset \/ TNewReq \/ TAddTrig \/ TFFetch \/ TFStore \/ TOpen \/ TDrop \/ TDetachStore
             \/ TFetchPage \/ TStorePage \/ TRise
TraceSpec == TraceInit /\ [][TraceNext]_tvars
=============================================================================
