\* thorough: limits 1..3, 4 stores (4.4 M distinct states, ~6 min)
SPECIFICATION Spec
CONSTANTS
  Names = {1,2,3}
  Limits = {1,2,3}
  Deadlines = {0,1,2}
  TrigSets = {{},{3},{2,3}}
  MaxNow = 2
  MaxStores = 4
  Shared = FALSE
CONSTRAINT Bounded
INVARIANTS Bound OrderInv HeldNotDead
PROPERTIES EvictRule OnlyStoreEvicts
