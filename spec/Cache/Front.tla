------------------------------- MODULE Front -------------------------------
(***************************************************************************)
(* cache_interface (src/cache_interface.cpp) on top of an unlimited back-  *)
(* end: the trigger set of the page under construction (ptrig), nested     *)
(* triggers_recorder objects (rec), and what C07 demands of them:          *)
(*                                                                         *)
(*   Dep: every trigger the page (or the scope of a recorder) came to      *)
(*        depend on - added explicitly, attached to something it stored,   *)
(*        or inherited from an entry it fetched - is in the set attached   *)
(*        when the page is stored (resp. returned by detach()), so that    *)
(*        raising it invalidates the page / the frame stored with it.      *)
(*                                                                         *)
(* `used' / `usedr' are history variables collecting those dependencies    *)
(* independently of the mechanism variables ptrig / rec.                   *)
(***************************************************************************)
EXTENDS Integers, FiniteSets

CONSTANTS Names,      \* frame keys and trigger names
          Pages,      \* page keys (disjoint from Names)
          Recs,       \* recorder ids
          MaxV

VARIABLES store,      \* back-end: key -> [has, v, ts]
          ptrig, rec, active, used, usedr, depsOf, nv, res

fvars == <<store, ptrig, rec, active, used, usedr, depsOf, nv, res>>
Keys == Names \cup Pages
Nothing == [has |-> FALSE, v |-> 0, ts |-> {}]
NoRes == [op |-> "none", hit |-> FALSE, v |-> 0, set |-> {}]

FInit ==
    /\ store = [k \in Keys |-> Nothing]
    /\ ptrig = {} /\ rec = [r \in Recs |-> {}] /\ active = {}
    /\ used = {} /\ usedr = [r \in Recs |-> {}]
    /\ depsOf = [k \in Keys |-> {}]
    /\ nv = 0 /\ res = NoRes

(* add_trigger for a set of names: page set and every live recorder *)
AddAll(S) ==
    /\ ptrig' = ptrig \cup S
    /\ rec' = [r \in Recs |-> IF r \in active THEN rec[r] \cup S ELSE rec[r]]
DependOn(S) ==
    /\ used' = used \cup S
    /\ usedr' = [r \in Recs |-> IF r \in active THEN usedr[r] \cup S ELSE usedr[r]]

AddTrigger(t) ==
    /\ AddAll({t}) /\ DependOn({t})
    /\ res' = NoRes
    /\ UNCHANGED <<store, active, depsOf, nv>>

Fetch(k, notrig) ==
    /\ IF store[k].has
       THEN /\ res' = [op |-> "fetch", hit |-> TRUE, v |-> store[k].v, set |-> store[k].ts]
            /\ IF notrig THEN UNCHANGED <<ptrig, rec, used, usedr>>
                         ELSE AddAll(store[k].ts) /\ DependOn(store[k].ts)
       ELSE /\ res' = [NoRes EXCEPT !.op = "fetch"]
            /\ UNCHANGED <<ptrig, rec, used, usedr>>
    /\ UNCHANGED <<store, active, depsOf, nv>>

(* store(key, data, triggers, notriggers): the back-end attaches the key as its own trigger *)
StoreFrame(k, ts, notrig) ==
    /\ nv' = nv + 1
    /\ store' = [store EXCEPT ![k] = [has |-> TRUE, v |-> nv + 1, ts |-> ts \cup {k}]]
    /\ depsOf' = [depsOf EXCEPT ![k] = {}]
    /\ IF notrig THEN UNCHANGED <<ptrig, rec, used, usedr>>
                 ELSE AddAll(ts \cup {k}) /\ DependOn(ts \cup {k})
    /\ res' = [NoRes EXCEPT !.op = "store"]
    /\ UNCHANGED active

(* the application's idiom for a frame built from other frames:                   *)
(*   triggers_recorder r(cache()); ... build ...; store_frame(key, frame, r.detach()) *)
Open(r) ==
    /\ r \notin active
    /\ active' = active \cup {r}
    /\ rec' = [rec EXCEPT ![r] = {}] /\ usedr' = [usedr EXCEPT ![r] = {}]
    /\ res' = NoRes
    /\ UNCHANGED <<store, ptrig, used, depsOf, nv>>

DetachStore(r, k) ==      \* detach() then store_frame(k, ..., that set)
    /\ r \in active
    /\ active' = active \ {r}
    /\ nv' = nv + 1
    /\ store' = [store EXCEPT ![k] = [has |-> TRUE, v |-> nv + 1, ts |-> rec[r] \cup {k}]]
    /\ depsOf' = [depsOf EXCEPT ![k] = usedr[r]]
    /\ res' = [NoRes EXCEPT !.op = "detach", !.set = rec[r]]
    \* the store itself registers the frame's triggers with the page and the recorders still open
    /\ ptrig' = ptrig \cup rec[r] \cup {k}
    /\ rec' = [q \in Recs |-> IF q \in active \ {r} THEN rec[q] \cup rec[r] \cup {k} ELSE rec[q]]
    /\ used' = used \cup rec[r] \cup {k}
    /\ usedr' = [q \in Recs |-> IF q \in active \ {r} THEN usedr[q] \cup rec[r] \cup {k} ELSE usedr[q]]

StorePage(pg, key) ==     \* store_page(key): add_trigger(key); store("_U:"+key, copied body, triggers_)
    /\ nv' = nv + 1
    /\ store' = [store EXCEPT ![pg] = [has |-> TRUE, v |-> nv + 1, ts |-> ptrig \cup {key, pg}]]
    /\ depsOf' = [depsOf EXCEPT ![pg] = used \cup {key}]
    /\ AddAll({key}) /\ DependOn({key})
    /\ res' = [NoRes EXCEPT !.op = "store_page"]
    /\ UNCHANGED active

Rise(t) ==
    /\ store' = [k \in Keys |-> IF store[k].has /\ t \in store[k].ts THEN Nothing ELSE store[k]]
    /\ res' = NoRes
    /\ UNCHANGED <<ptrig, rec, active, used, usedr, depsOf, nv>>

NewRequest ==             \* a new context: cache_interface::reset() / fresh object, recorders gone
    /\ ptrig' = {} /\ used' = {} /\ active' = {}
    /\ res' = NoRes
    /\ UNCHANGED <<store, rec, usedr, depsOf, nv>>

PageOf(k) == CHOOSE pg \in Pages : TRUE

FNext ==
    \/ \E t \in Names : AddTrigger(t)
    \/ \E k \in Names, b \in BOOLEAN : Fetch(k, b)
    \/ \E k \in Names, ts \in SUBSET Names, b \in BOOLEAN : StoreFrame(k, ts, b)
    \/ \E r \in Recs : Open(r)
    \/ \E r \in Recs, k \in Names : DetachStore(r, k)
    \/ \E pg \in Pages, k \in Names : StorePage(pg, k)
    \/ \E t \in Names : Rise(t)
    \/ NewRequest

FSpec == FInit /\ [][FNext]_fvars
FBounded == nv <= MaxV

---------------------------------------------------------------------------
(* C07, second sentence *)
Dep == \A k \in Keys : store[k].has => depsOf[k] \subseteq store[k].ts

MechanismMatchesHistory ==      \* the mechanism variables never lag behind the dependencies
    /\ used \subseteq ptrig
    /\ \A r \in active : usedr[r] \subseteq rec[r]
=============================================================================
