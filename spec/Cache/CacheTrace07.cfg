SPECIFICATION TraceSpec
CONSTANTS
  Names = {1,2,3,4,5,6,7,8,9,10,11,12,13,14,15,16}
  Limits = {0}
  Deadlines = {0}
  TrigSets = {{}}
  MaxNow = 0
  MaxStores = 0
  Shared = FALSE
INVARIANTS NeverStale LiveIsFound
POSTCONDITION TraceDone
CHECK_DEADLOCK FALSE
