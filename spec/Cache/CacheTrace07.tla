--------------------------- MODULE CacheTrace07 ---------------------------
(* Leg B for C07 alone.  Only the history variables of Cache.tla (last,     *)
(* dead, now, limit) are used, so that nothing about *which* entry a limited *)
(* cache evicts is demanded here (that is C08, CacheTrace.tla):             *)
(*   - a hit must return exactly the most recent store of that key, which    *)
(*     must be neither invalidated (removed / cleared / risen / evicted)     *)
(*     nor expired;                                                          *)
(*   - a miss on a live, valid entry is legal only when a limit is in play,  *)
(*     and then the entry counts as evicted from there on (it can never be   *)
(*     found again before the next store).                                   *)
EXTENDS Cache, TraceBase

VARIABLES l, shared      \* shared: process-shared back-end - memory is a limit in play too
tvars == <<vars, l, shared>>

Ev == TraceLog[l]
Is(name) == l <= NLines /\ Ev.e = name /\ l' = l + 1
Keep == UNCHANGED <<present, order, nv>>

TReset ==
    /\ Is("Reset")
    /\ now' = 0 /\ limit' = Ev.limit
    /\ last' = [k \in Names |-> NoEntry]
    /\ dead' = [k \in Names |-> FALSE]
    /\ res' = [NoRes EXCEPT !.op = "reset"] /\ Keep
    /\ shared' = (Ev.backend = "process")

TStore ==
    /\ Is("Store")
    /\ last' = [last EXCEPT ![Ev.k] = [has |-> TRUE, v |-> Ev.v, ts |-> SeqToSet(Ev.ts) \cup {Ev.k}, dl |-> Ev.dl]]
    /\ dead' = [dead EXCEPT ![Ev.k] = FALSE]
    /\ res' = [NoRes EXCEPT !.op = "store", !.k = Ev.k]
    /\ UNCHANGED <<now, limit, shared>> /\ Keep

Valid(k) == last[k].has /\ ~dead[k] /\ last[k].dl >= now

TFetchHit ==
    /\ Is("Fetch") /\ Ev.hit
    /\ Valid(Ev.k)
    /\ Ev.v = last[Ev.k].v /\ SeqToSet(Ev.ts) = last[Ev.k].ts /\ Ev.dl = last[Ev.k].dl /\ ~Ev.bad
    /\ res' = [op |-> "fetch", k |-> Ev.k, hit |-> TRUE, v |-> Ev.v, ts |-> SeqToSet(Ev.ts), dl |-> Ev.dl]
    /\ UNCHANGED <<now, limit, last, dead, shared>> /\ Keep

TFetchMiss ==
    /\ Is("Fetch") /\ ~Ev.hit
    /\ (Valid(Ev.k) => (limit > 0 \/ shared))      \* a store the segment cannot hold is dropped: legal miss
    /\ dead' = IF Valid(Ev.k) THEN [dead EXCEPT ![Ev.k] = TRUE] ELSE dead
    /\ res' = [NoRes EXCEPT !.op = "fetch", !.k = Ev.k]
    /\ UNCHANGED <<now, limit, last, shared>> /\ Keep

THist(a) == /\ dead' = a /\ UNCHANGED <<now, limit, last, shared>> /\ Keep

TRise   == /\ Is("Rise")
           /\ THist([j \in Names |-> dead[j] \/ (last[j].has /\ Ev.t \in last[j].ts)])
           /\ res' = [NoRes EXCEPT !.op = "rise", !.k = Ev.t]
TRemove == /\ Is("Remove")
           /\ THist([dead EXCEPT ![Ev.k] = TRUE])
           /\ res' = [NoRes EXCEPT !.op = "remove", !.k = Ev.k]
TClear  == /\ Is("Clear")
           /\ THist([j \in Names |-> TRUE])
           /\ res' = [NoRes EXCEPT !.op = "clear"]
TTick   == /\ Is("Tick")
           /\ now' = now + Ev.d /\ res' = NoRes
           /\ UNCHANGED <<limit, last, dead, shared>> /\ Keep

TraceInit == Init /\ l = 1 /\ shared = FALSE
TraceNext == TReset \/ TStore \/ TFetchHit \/ TFetchMiss \/ TRise \/ TRemove \/ TClear \/ TTick
TraceSpec == TraceInit /\ [][TraceNext]_tvars
=============================================================================
