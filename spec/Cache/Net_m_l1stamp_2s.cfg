SPECIFICATION Spec
CONSTANTS
  Clients = {0,1}
  L1Confs = {{0,1}}
  NSrvs = {2}
  Keys = {0,1}
  Trigs = {9}
  RiseNames = {9}
  TrigSets = {{}}
  Deadlines = {5}
  MaxNow = 0
  MaxOps = 3
  MaxTotal = 6
  OpKinds = {"store","fetch"}
  EvictL1 = FALSE
  Restarts = 0
  Mut = "l1stamp"
INVARIANTS NoStale
CHECK_DEADLOCK FALSE
