SPECIFICATION Spec
CONSTANTS
  Keys = {0,1,2,3,4}
  Vals = {1,2}
  MaxNB = 3
  Fault = "none"
INVARIANTS TypeOK IterExact BucketInv FindCorrect ResultOK LoadBounded
