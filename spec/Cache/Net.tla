-------------------------------- MODULE Net --------------------------------
(***************************************************************************)
(* C10 - networked cache with a node-local first level cache (L1).        *)
(*                                                                         *)
(* Servers 0..ns-1, each an abstract cache as in Cache.tla (per name the   *)
(* stored value, its trigger set - own key included -, its deadline; live  *)
(* iff deadline >= now; rise(t) drops every entry linked to t; clear drops *)
(* all) plus its own generation counter genc[s], which stamps every store  *)
(* and is never reset.  Clients, some with an L1 that keeps value,         *)
(* triggers, deadline and the *server's* generation.  place[k] = the       *)
(* server that owns key k (the same on every client).                      *)
(*                                                                         *)
(* A client operation is a small program; each line below is ONE atomic    *)
(* step, and steps of different clients interleave freely:                 *)
(*   fetch k : Begin, L1Lookup, SrvFetch (reply no_data | uptodate | data),*)
(*             [L1Update store | remove], Return                           *)
(*   store   : Begin, L1Remove, SrvStore, Return                           *)
(*   rise t  : Begin, L1Rise, SrvRise on every server (any order), Return  *)
(*   clear   : Begin, L1Clear, SrvClear on every server, Return            *)
(* (clients without L1 skip the L1 steps).  In addition the clock may tick *)
(* and an L1 may evict any entry at any time (limited L1).                 *)
(*                                                                         *)
(* The step effects are written as functions on a state record (S) so that *)
(* the trace specifications can compose them: an operation-level event of  *)
(* a sequential run is the composition Begin;...;Return (Run), a hook      *)
(* level event of a threaded run is one single step.                       *)
(*                                                                         *)
(* Mut names deliberately broken variants used as self-tests of the        *)
(* invariants ("none" = the design).                                       *)
(***************************************************************************)
EXTENDS Integers, Sequences, FiniteSets, TLC

CONSTANTS Clients,      \* set of client ids (integers)
          L1Confs,      \* set of sets of clients: which clients have an L1 (Init explores each)
          NSrvs,        \* set of server counts explored by Init (1..3)
          Keys,         \* key names (integers)
          Trigs,        \* pure trigger names (integers, disjoint from Keys)
          RiseNames,    \* names offered to rise (subset of Keys \cup Trigs)
          TrigSets,     \* trigger sets offered to store
          Deadlines,    \* deadlines offered to store
          MaxNow,       \* the clock ticks up to this value
          MaxOps,       \* operations per client
          MaxTotal,     \* operations altogether
          OpKinds,      \* subset of {"store","fetch","rise","clear"}
          EvictL1,      \* BOOLEAN: may an L1 drop entries spontaneously
          Restarts,     \* how often a server may restart (loses contents AND generation counter); 0 in C10
          Mut           \* "none" | "l1hit" | "genreset" | "nopurge" | "nostoreinv" | "union" | "emptykeep" | "l1stamp"

VARIABLES conf,     \* [l1 |-> set of clients that have an L1, ns |-> number of servers]
          place,    \* key -> server
          srv,      \* srv[s][n]  : entry
          genc,     \* genc[s]    : next generation of server s
          l1,       \* l1[c][n]   : entry (gen = the server's generation)
          l1c,      \* l1c[c]     : the L1's OWN store counter - unused by the design (every L1 entry carries the
                    \*               server's stamp); only the broken variant Mut = "l1stamp" stamps with it
          pc,       \* pc[c]      : the running operation of client c
          now,
          nv,       \* value ids handed out so far
          genlog,   \* history: every <<server, gen, key, v, ts, dl>> ever stamped
          killed,   \* history: value ids replaced / invalidated by an operation that has RETURNED
          done      \* done[c] = operations completed by c

vars == <<conf, place, srv, genc, l1, l1c, pc, now, nv, genlog, killed, done>>

Names   == Keys \cup Trigs
AllSrv  == 0..(CHOOSE m \in NSrvs : \A x \in NSrvs : x <= m) - 1
Servers == 0..(conf.ns - 1)

(* Value ids: in the design every store writes a new id; ids divisible by 3 stand *)
(* for the EMPTY string (a hit that carries no bytes - not a miss: `has' tells   *)
(* them apart).  In traces the harness logs 0 for the empty string.              *)
IsEmpty(v) == v % 3 = 0

NoEntry == [has |-> FALSE, v |-> 0, ts |-> {}, dl |-> 0, gen |-> 0]
Live(e, t)  == e.has /\ e.dl >= t
LiveE(e, t) == IF Live(e, t) THEN e ELSE NoEntry

Idle == [st |-> "idle", op |-> "none", k |-> 0, v |-> 0, ts |-> {}, dl |-> 0,
         cond |-> FALSE, g |-> 0, l1e |-> NoEntry, rem |-> {}, rep |-> "none",
         res |-> NoEntry, wit |-> NoEntry, kills |-> {}, forbid |-> {}]

S == [conf |-> conf, place |-> place, srv |-> srv, genc |-> genc, l1 |-> l1, pc |-> pc,
      now |-> now, nv |-> nv, genlog |-> genlog, killed |-> killed, done |-> done,
      l1c |-> l1c]

Set(T) ==
    /\ conf' = T.conf /\ place' = T.place /\ srv' = T.srv /\ genc' = T.genc /\ l1' = T.l1
    /\ pc' = T.pc /\ now' = T.now /\ nv' = T.nv /\ genlog' = T.genlog /\ killed' = T.killed
    /\ done' = T.done /\ l1c' = T.l1c

HasL1(T, c) == c \in T.conf.l1

---------------------------------------------------------------------------
(* Begin: o = [op, k, v, ts, dl]  (k is the trigger name for rise)          *)
BeginF(T, c, o) ==
    [T EXCEPT !.pc[c] = [Idle EXCEPT
        !.st = IF HasL1(T, c) THEN "l1" ELSE "rpc",
        !.op = o.op, !.k = o.k, !.v = o.v, !.ts = o.ts, !.dl = o.dl,
        !.rem = IF o.op \in {"fetch", "store"} THEN {T.place[o.k]} ELSE 0..(T.conf.ns - 1),
        !.forbid = IF o.op = "fetch" THEN T.killed ELSE {}]]

(* The L1 step of the running operation of c                                *)
L1F(T, c) ==
    LET p == T.pc[c]
        L == T.l1[c]
    IN CASE p.op = "fetch" ->
              LET e == L[p.k]
                  hit == Live(e, T.now)
              IN IF hit /\ Mut = "l1hit"
                 THEN \* broken: serve the L1 hit without asking the server
                      [T EXCEPT !.pc[c] = [p EXCEPT !.st = "ret", !.res = e, !.rem = {},
                                           !.wit = LiveE(T.srv[T.place[p.k]][p.k], T.now)]]
                 ELSE [T EXCEPT !.pc[c] = [p EXCEPT !.st = "rpc", !.cond = hit,
                                           !.g = IF hit THEN e.gen ELSE 0,
                                           !.l1e = IF hit THEN e ELSE NoEntry]]
         [] p.op = "store" ->
              [T EXCEPT !.pc[c] = [p EXCEPT !.st = "rpc"],
                        !.l1[c] = IF Mut = "nostoreinv" THEN L ELSE [L EXCEPT ![p.k] = NoEntry]]
         [] p.op = "rise" ->
              [T EXCEPT !.pc[c] = [p EXCEPT !.st = "rpc"],
                        !.l1[c] = [n \in Keys |-> IF L[n].has /\ p.k \in L[n].ts THEN NoEntry ELSE L[n]]]
         [] p.op = "clear" ->
              [T EXCEPT !.pc[c] = [p EXCEPT !.st = "rpc"],
                        !.l1[c] = [n \in Keys |-> NoEntry]]

AfterSrv(T, c, p, s) ==  \* broadcast bookkeeping for store / rise / clear
    LET r == p.rem \ {s}
    IN [p EXCEPT !.rem = r, !.st = IF r = {} THEN "ret" ELSE "rpc"]

(* The step server s takes for the running operation of c (under its lock)  *)
SrvF(T, c, s) ==
    LET p == T.pc[c]
        M == T.srv[s]
    IN CASE p.op = "fetch" ->
              LET e   == M[p.k]
                  lv  == Live(e, T.now)
                  rep == IF ~lv THEN "no_data"
                         ELSE IF p.cond /\ e.gen = p.g THEN "uptodate" ELSE "data"
                  dat == IF Mut = "union" /\ p.cond THEN [e EXCEPT !.ts = e.ts \cup p.l1e.ts]
                         ELSE IF Mut = "emptykeep" /\ p.cond /\ IsEmpty(e.v)
                              THEN [e EXCEPT !.v = p.l1e.v]   \* broken: an empty reply leaves the L1 copy in the buffer
                              ELSE e
                  res == IF rep = "uptodate" THEN p.l1e ELSE IF rep = "data" THEN dat ELSE NoEntry
                  upd == /\ HasL1(T, c)
                         /\ \/ rep = "data"
                            \/ (rep = "no_data" /\ p.cond /\ Mut # "nopurge")
              IN [T EXCEPT !.pc[c] = [p EXCEPT !.st = IF upd THEN "upd" ELSE "ret", !.rep = rep,
                                      !.res = res, !.wit = LiveE(e, T.now), !.rem = {}]]
         [] p.op = "store" ->
              LET g == T.genc[s]
                  e == [has |-> TRUE, v |-> p.v, ts |-> p.ts \cup {p.k}, dl |-> p.dl, gen |-> g]
              IN [T EXCEPT !.srv[s] = [M EXCEPT ![p.k] = e],
                           !.genc[s] = g + 1,
                           !.genlog = @ \cup {<<s, g, p.k, p.v, e.ts, p.dl>>},
                           !.pc[c] = [AfterSrv(T, c, p, s) EXCEPT
                                        !.kills = IF M[p.k].has THEN p.kills \cup {M[p.k].v} ELSE p.kills]]
         [] p.op = "rise" ->
              LET hitn == {n \in Keys : M[n].has /\ p.k \in M[n].ts}
              IN [T EXCEPT !.srv[s] = [n \in Keys |-> IF n \in hitn THEN NoEntry ELSE M[n]],
                           !.pc[c] = [AfterSrv(T, c, p, s) EXCEPT !.kills = p.kills \cup {M[n].v : n \in hitn}]]
         [] p.op = "clear" ->
              [T EXCEPT !.srv[s] = [n \in Keys |-> NoEntry],
                        !.genc[s] = IF Mut = "genreset" THEN 0 ELSE @,
                        !.pc[c] = [AfterSrv(T, c, p, s) EXCEPT
                                     !.kills = p.kills \cup {M[n].v : n \in {m \in Keys : M[m].has}}]]

(* L1 update after a fetch reply                                             *)
UpdF(T, c) ==
    LET p == T.pc[c]
        \* broken variant "l1stamp": the first local copy of a key (L1 miss, then data from the server) is
        \* stamped with the L1's own counter, which runs independently of every server's counter
        loc == Mut = "l1stamp" /\ p.rep = "data" /\ ~p.cond
    IN [T EXCEPT !.pc[c] = [p EXCEPT !.st = "ret"],
                 !.l1[c] = [@ EXCEPT ![p.k] = IF p.rep = "data"
                                              THEN (IF loc THEN [p.res EXCEPT !.gen = T.l1c[c]] ELSE p.res)
                                              ELSE NoEntry],
                 !.l1c[c] = IF loc THEN @ + 1 ELSE @]

RetF(T, c) ==
    [T EXCEPT !.pc[c] = Idle, !.killed = @ \cup T.pc[c].kills, !.done[c] = @ + 1]

(* One step of c; sv = the server to use when the step is a server step      *)
StepF(T, c, sv) ==
    CASE T.pc[c].st = "l1"  -> L1F(T, c)
      [] T.pc[c].st = "rpc" -> SrvF(T, c, sv)
      [] T.pc[c].st = "upd" -> UpdF(T, c)
      [] T.pc[c].st = "ret" -> RetF(T, c)

(* Run the operation of c to completion with no other client interleaved     *)
RECURSIVE Run(_, _)
Run(T, c) ==
    IF T.pc[c].st = "idle" THEN T
    ELSE IF T.pc[c].st = "ret" THEN RetF(T, c)
    ELSE Run(StepF(T, c, IF T.pc[c].st = "rpc" THEN CHOOSE s \in T.pc[c].rem : TRUE ELSE 0), c)
(* ... and up to the state just before Return (where the result sits in pc)  *)
RECURSIVE RunToRet(_, _)
RunToRet(T, c) ==
    IF T.pc[c].st \in {"idle", "ret"} THEN T
    ELSE RunToRet(StepF(T, c, IF T.pc[c].st = "rpc" THEN CHOOSE s \in T.pc[c].rem : TRUE ELSE 0), c)

---------------------------------------------------------------------------
Init ==
    /\ conf \in [l1 : L1Confs, ns : NSrvs]
    /\ place = [k \in Keys |-> k % conf.ns]
    /\ srv = [s \in AllSrv |-> [n \in Keys |-> NoEntry]]
    /\ genc = [s \in AllSrv |-> 0]
    /\ l1 = [c \in Clients |-> [n \in Keys |-> NoEntry]]
    /\ pc = [c \in Clients |-> Idle]
    /\ now = 0 /\ nv = 0 /\ genlog = {} /\ killed = {}
    /\ done = [c \in Clients |-> 0]
    /\ l1c = [c \in Clients |-> 0]

Ops == [op : {"store"} \cap OpKinds, k : Keys, v : {nv + 1}, ts : TrigSets, dl : Deadlines]
  \cup [op : {"fetch"} \cap OpKinds, k : Keys, v : {0}, ts : {{}}, dl : {0}]
  \cup [op : {"rise"} \cap OpKinds, k : RiseNames, v : {0}, ts : {{}}, dl : {0}]
  \cup [op : {"clear"} \cap OpKinds, k : {0}, v : {0}, ts : {{}}, dl : {0}]

RECURSIVE SumDone(_)
SumDone(C) == IF C = {} THEN 0 ELSE LET c == CHOOSE x \in C : TRUE IN done[c] + SumDone(C \ {c})
Started == SumDone(Clients) + Cardinality({c \in Clients : pc[c].st # "idle"})

Begin(c) ==
    /\ pc[c].st = "idle" /\ done[c] < MaxOps
    /\ Started < MaxTotal
    /\ \E o \in Ops : Set([BeginF(S, c, o) EXCEPT !.nv = IF o.op = "store" THEN nv + 1 ELSE nv])

Step(c) ==
    /\ pc[c].st \in {"l1", "upd", "ret"}
    /\ Set(StepF(S, c, 0))

SrvStep(c) ==
    /\ pc[c].st = "rpc"
    /\ \E s \in pc[c].rem : Set(SrvF(S, c, s))

Tick ==
    /\ now < MaxNow
    /\ now' = now + 1
    /\ UNCHANGED <<conf, place, srv, genc, l1, l1c, pc, nv, genlog, killed, done>>

Evict(c) ==
    /\ EvictL1 /\ c \in conf.l1
    /\ \E n \in Keys :
          /\ l1[c][n].has
          /\ l1' = [l1 EXCEPT ![c][n] = NoEntry]
    /\ UNCHANGED <<conf, place, srv, genc, l1c, pc, now, nv, genlog, killed, done>>

(* Outside C10's quantifier (kept to show what the handshake relies on): a    *)
(* restarted server starts stamping from 0 again.                              *)
Restart(s) ==
    /\ Cardinality({a \in genlog : a[2] = -1}) < Restarts
    /\ srv' = [srv EXCEPT ![s] = [n \in Keys |-> NoEntry]]
    /\ genc' = [genc EXCEPT ![s] = 0]
    /\ genlog' = genlog \cup {<<s, -1, Cardinality(genlog), 0, {}, 0>>}
    /\ UNCHANGED <<conf, place, l1, l1c, pc, now, nv, killed, done>>

Next ==
    \/ \E c \in Clients : Begin(c) \/ Step(c) \/ SrvStep(c) \/ Evict(c)
    \/ Tick
    \/ \E s \in Servers : Restart(s)

Spec == Init /\ [][Next]_vars

---------------------------------------------------------------------------
Returning(c) == pc[c].st = "ret" /\ pc[c].op = "fetch"

(* A fetch returns exactly what the owning server held, live, at that fetch's *)
(* own server step: hit iff live there, and then that value.                  *)
Coherent ==
    \A c \in Clients : Returning(c) =>
        /\ pc[c].res.has = pc[c].wit.has
        /\ pc[c].res.has => pc[c].res.v = pc[c].wit.v

(* The wording of C10: once a store / rise / clear has returned, no fetch that *)
(* starts afterwards returns a value that operation replaced or invalidated.  *)
NoStale ==
    \A c \in Clients : (Returning(c) /\ pc[c].res.has) => pc[c].res.v \notin pc[c].forbid

(* A (server, generation) stamp names one (key, value, triggers, deadline)     *)
(* forever, and whatever an L1 holds under a stamp is what was stamped.        *)
GenUnique ==
    /\ \A a, b \in genlog : (a[1] = b[1] /\ a[2] = b[2]) => a = b
    /\ \A c \in Clients, n \in Keys :
          l1[c][n].has => \E a \in genlog : /\ a[1] = place[n] /\ a[2] = l1[c][n].gen
                                             /\ a[3] = n /\ a[4] = l1[c][n].v

(* Value, trigger set and deadline delivered (and kept in L1) = stored.        *)
Wire ==
    /\ \A c \in Clients : (Returning(c) /\ pc[c].res.has) =>
          /\ pc[c].res.ts = pc[c].wit.ts
          /\ pc[c].res.dl = pc[c].wit.dl
          /\ pc[c].k \in pc[c].res.ts
    /\ \A c \in Clients, n \in Keys :
          l1[c][n].has => <<place[n], l1[c][n].gen, n, l1[c][n].v, l1[c][n].ts, l1[c][n].dl>> \in genlog

(* Keys never move, each key's entry lives on its own server only.             *)
Placement ==
    \A s \in AllSrv, n \in Keys : srv[s][n].has => place[n] = s

TypeOK ==
    /\ \A c \in Clients : pc[c].st \in {"idle", "l1", "rpc", "upd", "ret"}
    /\ \A c \in Clients : c \notin conf.l1 => \A n \in Keys : ~l1[c][n].has
=============================================================================
