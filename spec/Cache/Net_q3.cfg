SPECIFICATION Spec
CONSTANTS
  Clients = {0,1,2}
  L1Confs = {{0,1},{0,1,2}}
  NSrvs = {2}
  Keys = {0,1}
  Trigs = {9}
  RiseNames = {9}
  TrigSets = {{9}}
  Deadlines = {5}
  MaxNow = 0
  MaxOps = 2
  MaxTotal = 3
  OpKinds = {"store","fetch","rise","clear"}
  EvictL1 = FALSE
  Restarts = 0
  Mut = "none"
INVARIANTS TypeOK Coherent NoStale GenUnique Wire Placement
CHECK_DEADLOCK FALSE
