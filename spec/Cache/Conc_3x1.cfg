SPECIFICATION CFair
CONSTANTS
  Names = {1,2}
  Limits = {0,1}
  Deadlines = {0}
  TrigSets = {{},{2}}
  MaxNow = 0
  MaxStores = 4
  Shared = FALSE
  Threads = {1,2,3}
  OpsPerThread = 1
  BugCopyAfterUnlock = FALSE
  BugNoLruMutex = FALSE
  BugReadLockRemove = FALSE
INVARIANTS Excl LruWellFormed MutExcl Lin NoTorn SeqOK NoDeadlock
PROPERTIES Termination
CHECK_DEADLOCK FALSE
