SPECIFICATION Spec
CONSTANTS
  Names = {1,2,3}
  Limits = {1,2,3}
  Deadlines = {0,2}
  TrigSets = {{},{3}}
  MaxNow = 1
  MaxStores = 4
  Shared = FALSE
CONSTRAINT Bounded
INVARIANTS Bound OrderInv HeldNotDead
PROPERTIES EvictRule OnlyStoreEvicts
