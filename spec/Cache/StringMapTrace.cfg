SPECIFICATION TraceSpec
CONSTANTS
  Keys = {}
  InitSize = 64
  MaxTotal = 100000
  Fault = "none"
INVARIANTS ResultOK IterExact HalfFull ProbeReach
POSTCONDITION TraceDone
CHECK_DEADLOCK FALSE
