SPECIFICATION Spec
CONSTANTS
  Names = {1,2,3}
  Limits = {0,1,2}
  Deadlines = {0,2}
  TrigSets = {{},{3}}
  MaxNow = 1
  MaxStores = 3
CONSTRAINT Bounded
INVARIANTS IndexInv GenUnique
PROPERTIES Refines
