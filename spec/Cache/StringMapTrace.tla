--------------------------- MODULE StringMapTrace ---------------------------
(* Leg B for the string_map part of G07: harness/cache/strmap_drv.cpp adds    *)
(* distinct names to the real cppcms::impl::string_map (names chosen, with the *)
(* code's own calc_hash, to collide in the last slots of the 64-, 128- and     *)
(* 256-entry tables, plus random ones), looks names up and enumerates:         *)
(*   Add{k,h}   Get{k,h,found,val}   Iter{ord}   Clear                         *)
(* k = the driver's number of the name, h = calc_hash(name) mod 65536, val =   *)
(* the number the returned value spells (-1: none).  The event must be the     *)
(* step StringMap.tla takes: a lookup by name finds exactly what was added,    *)
(* with its own value; the enumeration is the chain of the model (STRICT=1)    *)
(* or any arrangement of the same names (STRICT=0, property layer).            *)
EXTENDS StringMap, TraceBase
VARIABLES l
tvars == <<vars, l>>
Ev == TraceLog[l]
Is(name) == l <= NLines /\ Ev.e = name /\ l' = l + 1
Strict == IOEnv.STRICT = "1"
SetOfSeq(s) == { s[i] : i \in 1..Len(s) }

TReset == Is("Reset") /\ Clear
TAdd == Is("Add") /\ Add(Ev.k, Ev.h)
TGet == /\ Is("Get") /\ Get(Ev.k, Ev.h)
        /\ Ev.found = res'.exp
        /\ Ev.val = (IF res'.exp THEN Ev.k ELSE -1)
TIter == /\ Is("Iter") /\ UNCHANGED vars
         /\ IF Strict THEN Ev.ord = IterKeys
            ELSE Len(Ev.ord) = total /\ SetOfSeq(Ev.ord) = DOMAIN hv
TClear == Is("Clear") /\ Clear
TraceSpec == (Init /\ l = 1) /\ [][TReset \/ TAdd \/ TGet \/ TIter \/ TClear]_tvars
=============================================================================
