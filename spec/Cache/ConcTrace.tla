----------------------------- MODULE ConcTrace -----------------------------
(* Leg B for C09.  The trace merges, by the global in-lock sequence number,  *)
(*   Inv / Ret   - emitted by the harness threads around each public call     *)
(*   Lock/Unlock - emitted by the hooks right after acquiring / before        *)
(*                 releasing the shared ("rd"), exclusive ("wr") and LRU lock *)
(*   Lin         - emitted by the hooks inside the critical section           *)
(* It is accepted iff the lock events respect the design's exclusion rules,   *)
(* the Lin events in sequence order form a behaviour of the sequential cache  *)
(* (strict layer, Cache.tla), each thread's events are Inv < Lin < Ret, and   *)
(* every Ret carries exactly the result of its own Lin.                       *)
EXTENDS Cache, TraceBase

VARIABLES l, rd, wr, lruOwner, pend, lastgen
tvars == <<vars, l, rd, wr, lruOwner, pend, lastgen>>

Ev == TraceLog[l]
Is(name) == l <= NLines /\ Ev.e = name /\ l' = l + 1
Idle == [phase |-> "idle", op |-> "none", k |-> "", v |-> 0, ts |-> {}, dl |-> 0, r |-> NoRes]
Same == UNCHANGED vars

TReset ==
    /\ Is("Reset")
    /\ now' = 0 /\ limit' = Ev.limit
    /\ last' = [k \in Names |-> NoEntry] /\ dead' = [k \in Names |-> FALSE]
    /\ present' = {} /\ order' = <<>> /\ res' = [NoRes EXCEPT !.op = "reset"] /\ nv' = 0
    /\ rd' = {} /\ wr' = -1 /\ lruOwner' = -1
    /\ pend' = [t \in 0..63 |-> Idle]
    /\ lastgen' = [k \in Names |-> -1]

TInv ==
    /\ Is("Inv")
    /\ pend[Ev.tid].phase = "idle"
    /\ pend' = [pend EXCEPT ![Ev.tid] = [phase |-> "invoked", op |-> Ev.op, k |-> Get(Ev, "k", ""),
                                          v |-> Get(Ev, "v", 0), ts |-> SeqToSet(Get(Ev, "ts", <<>>)),
                                          dl |-> Get(Ev, "dl", 0), r |-> NoRes]]
    /\ Same /\ UNCHANGED <<rd, wr, lruOwner, lastgen>>

TLock ==
    /\ Is("Lock")
    /\ \/ (Ev.m = "rd" /\ wr = -1 /\ rd' = rd \cup {Ev.tid} /\ UNCHANGED <<wr, lruOwner>>)
       \/ (Ev.m = "wr" /\ wr = -1 /\ rd = {} /\ wr' = Ev.tid /\ UNCHANGED <<rd, lruOwner>>)
       \/ (Ev.m = "lru" /\ lruOwner = -1 /\ Ev.tid \in rd /\ lruOwner' = Ev.tid /\ UNCHANGED <<rd, wr>>)
    /\ Same /\ UNCHANGED <<pend, lastgen>>

TUnlock ==
    /\ Is("Unlock")
    /\ \/ (Ev.m = "rd" /\ Ev.tid \in rd /\ lruOwner # Ev.tid /\ rd' = rd \ {Ev.tid} /\ UNCHANGED <<wr, lruOwner>>)
       \/ (Ev.m = "wr" /\ wr = Ev.tid /\ wr' = -1 /\ UNCHANGED <<rd, lruOwner>>)
       \/ (Ev.m = "lru" /\ lruOwner = Ev.tid /\ lruOwner' = -1 /\ UNCHANGED <<rd, wr>>)
    /\ Same /\ UNCHANGED <<pend, lastgen>>

P == pend[Ev.tid]
Linearized(r) == pend' = [pend EXCEPT ![Ev.tid] = [@ EXCEPT !.phase = "linearized", !.r = r]]

TLinFetch ==
    /\ Is("Lin") /\ Ev.op = "fetch"
    /\ P.phase = "invoked" /\ P.op = "fetch" /\ P.k = Ev.k
    /\ Ev.tid \in rd
    /\ Ev.hit => lruOwner = Ev.tid            \* the recency update is made under the LRU mutex
    /\ Fetch(Ev.k) /\ res'.hit = Ev.hit
    /\ Ev.hit => Ev.gen = lastgen[Ev.k]       \* the entry found is the one the latest store created
    /\ Linearized(res')
    /\ UNCHANGED <<rd, wr, lruOwner, lastgen>>

TLinStore ==
    /\ Is("Lin") /\ Ev.op = "store"
    /\ P.phase = "invoked" /\ P.op = "store" /\ P.k = Ev.k
    /\ wr = Ev.tid
    /\ Store(Ev.k, P.v, P.ts, P.dl) /\ nv' = nv
    /\ \A k \in Names : Ev.gen > lastgen[k]   \* generations are never reused
    /\ lastgen' = [lastgen EXCEPT ![Ev.k] = Ev.gen]
    /\ Linearized(res')
    /\ UNCHANGED <<rd, wr, lruOwner>>

TLinMut ==
    /\ Is("Lin") /\ Ev.op \in {"rise", "remove", "clear"}
    /\ P.phase = "invoked" /\ P.op = Ev.op /\ (Ev.op # "clear" => P.k = Ev.k)
    /\ wr = Ev.tid
    /\ \/ (Ev.op = "rise" /\ Rise(Ev.k))
       \/ (Ev.op = "remove" /\ Remove(Ev.k))
       \/ (Ev.op = "clear" /\ Clear)
    /\ Linearized(res')
    /\ UNCHANGED <<rd, wr, lruOwner, lastgen>>

TLinStats ==
    /\ Is("Lin") /\ Ev.op = "stats"
    /\ P.phase = "invoked" /\ P.op = "stats"
    /\ Ev.tid \in rd
    /\ Ev.keys = StatKeys /\ Ev.trigs = StatTrigs
    /\ Linearized([NoRes EXCEPT !.op = "stats", !.v = Ev.keys, !.dl = Ev.trigs])
    /\ Same /\ UNCHANGED <<rd, wr, lruOwner, lastgen>>

TRet ==
    /\ Is("Ret")
    /\ P.phase = "linearized"
    /\ Ev.tid \notin rd /\ wr # Ev.tid        \* all locks released before the call returns
    /\ \/ (P.op = "fetch" /\ Ev.hit = P.r.hit
           /\ (Ev.hit => Ev.v = P.r.v /\ SeqToSet(Ev.ts) = P.r.ts /\ Ev.dl = P.r.dl))
       \/ (P.op = "stats" /\ Ev.keys = P.r.v /\ Ev.trigs = P.r.dl)
       \/ P.op \in {"store", "rise", "remove", "clear"}
    /\ pend' = [pend EXCEPT ![Ev.tid] = Idle]
    /\ Same /\ UNCHANGED <<rd, wr, lruOwner, lastgen>>

TEnd ==      \* every operation completed and every lock is free
    /\ Is("End")
    /\ \A t \in 0..63 : pend[t].phase = "idle"
    /\ rd = {} /\ wr = -1 /\ lruOwner = -1
    /\ Same /\ UNCHANGED <<rd, wr, lruOwner, pend, lastgen>>

TraceInit == /\ Init /\ l = 1 /\ rd = {} /\ wr = -1 /\ lruOwner = -1
             /\ pend = [t \in 0..63 |-> Idle] /\ lastgen = [k \in Names |-> -1]
TraceNext == TReset \/ TInv \/ TLock \/ TUnlock \/ TLinFetch \/ TLinStore \/ TLinMut \/ TLinStats \/ TRet \/ TEnd
TraceSpec == TraceInit /\ [][TraceNext]_tvars
=============================================================================
