SPECIFICATION BSpec
CONSTANTS Size = 46 MinBits = 1 MaxBits = 5 MaxLive = 4
INVARIANTS NoOverlap Tiling Aligned NoFreeBuddies Refill
