------------------------------- MODULE Buddy -------------------------------
(***************************************************************************)
(* private/buddy_allocator.h - the allocator behind the process-shared     *)
(* cache (C08: "memory of removed entries is released; the cache can be    *)
(* filled, emptied and refilled indefinitely").                            *)
(* The arena of Size units is cut into top-level chunks by the binary      *)
(* decomposition of Size (largest first, none smaller than 2^MinBits).     *)
(* A block is [off, bits, free].  Alloc(bits) takes a free block of the    *)
(* smallest available order >= bits and splits it down, keeping the lower  *)
(* half; Free coalesces with the XOR buddy while that is free, of equal    *)
(* order and inside the arena.                                             *)
(* Invariants: Tiling (blocks partition every top-level chunk), NoOverlap, *)
(* NoFreeBuddies (two free buddies of equal order never coexist) and       *)
(* Refill (nothing allocated => the initial free lists).                   *)
(***************************************************************************)
EXTENDS Integers, FiniteSets, Sequences

CONSTANTS Size, MinBits, MaxBits, MaxLive

VARIABLES blocks, lastop
bvars == <<blocks, lastop>>

Pow(b) == 2 ^ b

RECURSIVE Chunks(_, _, _)
Chunks(off, rem, b) ==      \* binary decomposition, largest first
    IF b < MinBits THEN {}
    ELSE IF Pow(b) <= rem THEN {[off |-> off, bits |-> b, free |-> TRUE]} \cup Chunks(off + Pow(b), rem - Pow(b), b - 1)
         ELSE Chunks(off, rem, b - 1)

Initial == Chunks(0, Size, MaxBits)
BInit == blocks = Initial /\ lastop = "init"

Covered == LET RECURSIVE Sum(_)
               Sum(S) == IF S = {} THEN 0 ELSE LET x == CHOOSE y \in S : TRUE IN Pow(x.bits) + Sum(S \ {x})
           IN Sum(Initial)

FreeOrders(b) == { x.bits : x \in { y \in blocks : y.free /\ y.bits >= b } }

RECURSIVE Split(_, _)
Split(blk, b) ==            \* split blk down to order b; result: set of blocks, the lowest one in use
    IF blk.bits = b THEN {[blk EXCEPT !.free = FALSE]}
    ELSE Split([off |-> blk.off, bits |-> blk.bits - 1, free |-> TRUE], b)
         \cup {[off |-> blk.off + Pow(blk.bits - 1), bits |-> blk.bits - 1, free |-> TRUE]}

Alloc(b, off) ==            \* off = address returned
    /\ FreeOrders(b) # {}
    /\ LET m == CHOOSE o \in FreeOrders(b) : \A p \in FreeOrders(b) : o <= p
       IN \E blk \in blocks :
            /\ blk.free /\ blk.bits = m /\ blk.off = off
            /\ blocks' = (blocks \ {blk}) \cup Split(blk, b)
    /\ lastop' = "alloc"

AllocFails(b) == FreeOrders(b) = {} /\ UNCHANGED blocks /\ lastop' = "fail"

InSameChunk(a, b, bits) == \E c \in Initial : c.off <= a /\ a < c.off + Pow(c.bits) /\ c.off <= b /\ b < c.off + Pow(c.bits) /\ bits < c.bits

RECURSIVE Coalesce(_, _)
Coalesce(S, blk) ==         \* blk: block being freed (not in S)
    LET boff == IF (blk.off \div Pow(blk.bits)) % 2 = 0 THEN blk.off + Pow(blk.bits) ELSE blk.off - Pow(blk.bits)
        bud  == [off |-> boff, bits |-> blk.bits, free |-> TRUE]
    IN IF boff + Pow(blk.bits) <= Covered /\ boff >= 0 /\ bud \in S /\ InSameChunk(blk.off, boff, blk.bits)
       THEN Coalesce(S \ {bud}, [off |-> IF boff < blk.off THEN boff ELSE blk.off, bits |-> blk.bits + 1, free |-> TRUE])
       ELSE S \cup {[blk EXCEPT !.free = TRUE]}

Free(off) ==
    /\ \E blk \in blocks :
         /\ ~blk.free /\ blk.off = off
         /\ blocks' = Coalesce(blocks \ {blk}, blk)
    /\ lastop' = "free"

Live == { x \in blocks : ~x.free }

BNext ==
    \/ \E b \in MinBits..MaxBits : (Cardinality(Live) < MaxLive /\ \E off \in 0..Size : Alloc(b, off))
    \/ \E b \in MinBits..MaxBits : AllocFails(b)
    \/ \E x \in Live : Free(x.off)
BSpec == BInit /\ [][BNext]_bvars

---------------------------------------------------------------------------
NoOverlap == \A x, y \in blocks : x # y => (x.off + Pow(x.bits) <= y.off \/ y.off + Pow(y.bits) <= x.off)
Tiling == LET RECURSIVE Sum(_)
              Sum(S) == IF S = {} THEN 0 ELSE LET x == CHOOSE y \in S : TRUE IN Pow(x.bits) + Sum(S \ {x})
          IN Sum(blocks) = Covered
Aligned == \A x \in blocks : x.off % Pow(x.bits) = 0 /\ x.bits >= MinBits
NoFreeBuddies ==
    \A x, y \in blocks : (x.free /\ y.free /\ x # y /\ x.bits = y.bits /\ InSameChunk(x.off, y.off, x.bits))
        => ~( (x.off \div Pow(x.bits)) \div 2 = (y.off \div Pow(y.bits)) \div 2 )
Refill == Live = {} => blocks = Initial
=============================================================================
