SPECIFICATION TraceSpec
CONSTANTS
  Names = {"n1","n2","n3","n4","n5","n6"}
  Pages = {"_U:n1","_U:n2","_U:n3","_U:n4","_U:n5","_U:n6"}
  Recs = {1,2,3,4,5,6,7,8,9,10,11,12,13,14,15,16,17,18,19,20,21,22,23,24,25,26,27,28,29,30}
  MaxV = 0
INVARIANT Dep
POSTCONDITION TraceDone
CHECK_DEADLOCK FALSE
