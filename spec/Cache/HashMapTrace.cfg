SPECIFICATION TraceSpec
CONSTANTS
  Keys = {0,1,2,3,4,5,6,7,8,9,10,11,12,13,14,15,16,17,18,19,20,21,22,23,24,25,26,27,28,29,30,31,32,33,34,35,36,37,38,39}
  Vals = {0}
  MaxNB = 1
  Fault = "none"
INVARIANTS IterExact BucketInv FindCorrect ResultOK LoadBounded
POSTCONDITION TraceDone
CHECK_DEADLOCK FALSE
