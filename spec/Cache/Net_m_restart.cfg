SPECIFICATION Spec
CONSTANTS
  Clients = {0,1}
  L1Confs = {{0,1}}
  NSrvs = {1}
  Keys = {0}
  Trigs = {9}
  RiseNames = {9}
  TrigSets = {{}}
  Deadlines = {5}
  MaxNow = 0
  MaxOps = 2
  MaxTotal = 4
  OpKinds = {"store","fetch"}
  EvictL1 = FALSE
  Restarts = 1
  Mut = "none"
INVARIANTS Coherent
CHECK_DEADLOCK FALSE
