SPECIFICATION TraceSpec
CONSTANTS Size = 4000 MinBits = 5 MaxBits = 20 MaxLive = 0
INVARIANTS NoOverlap Aligned Refill
POSTCONDITION TraceDone
CHECK_DEADLOCK FALSE
