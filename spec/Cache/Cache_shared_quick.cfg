SPECIFICATION Spec
CONSTANTS
  Names = {1,2,3}
  Limits = {0,2}
  Deadlines = {0,2}
  TrigSets = {{},{3}}
  MaxNow = 1
  MaxStores = 3
  Shared = TRUE
CONSTRAINT Bounded
INVARIANTS NeverStale HeldNotDead Bound OrderInv NoLimitKeepsAll LiveIsFound
PROPERTIES EvictOrder OnlyStoreEvicts
