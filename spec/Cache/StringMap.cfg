SPECIFICATION Spec
CONSTANTS
  Keys = {0,1,2,3,4,5,6,7}
  InitSize = 2
  MaxTotal = 6
  Fault = "none"
INVARIANTS GetCorrect ResultOK IterExact HalfFull ProbeReach
