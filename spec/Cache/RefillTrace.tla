---------------------------- MODULE RefillTrace ----------------------------
(* C08, "memory of removed entries is released (a process-shared cache can  *)
(* be filled, emptied and refilled indefinitely)": the harness fills the     *)
(* shared-memory cache beyond its capacity, empties it (clear / rise of all  *)
(* triggers), and repeats.  Accepted iff after every emptying the cache      *)
(* reports 0 keys and 0 triggers, every fill holds exactly the entries it    *)
(* reports, and the number that fits never drops below the first cycle's.    *)
EXTENDS TraceBase, Integers
VARIABLES l, first
Ev == TraceLog[l]
Is(name) == l <= NLines /\ Ev.e = name /\ l' = l + 1
TReset == Is("Reset") /\ first' = -1
TFill == /\ Is("Fill")
         /\ Ev.keys = Ev.found /\ Ev.keys > 0 /\ Ev.trigs = 2 * Ev.keys
         /\ (first >= 0 => Ev.keys >= first)
         /\ first' = IF first < 0 THEN Ev.keys ELSE first
TEmptied == Is("Emptied") /\ Ev.keys = 0 /\ Ev.trigs = 0 /\ UNCHANGED first
\* a long stream of distinct keys through a cache of <limit> entries, no clear(): always exactly <limit> live entries
\* (the last <limit> stored keys), with exactly their triggers - evicted entries leave nothing behind that eats memory
TStream == /\ Is("Stream")
           /\ (Ev.i >= Ev.limit => (Ev.keys = Ev.limit /\ Ev.hits = Ev.limit /\ Ev.trigs = Ev.want_trigs
                                  /\ Ev.minkeys = Ev.limit /\ Ev.badtrigs = 0))   \* ... after EVERY store of the block
           /\ UNCHANGED first
TraceSpec == (l = 1 /\ first = -1) /\ [][TReset \/ TFill \/ TEmptied \/ TStream]_<<l, first>>
=============================================================================
