------------------------------ MODULE HashMap ------------------------------
(* G07 (growth) - private/hash_map.h, the hash table under the cache's primary  *)
(* index (cache_storage.cpp), the in-memory session store and string_map.       *)
(* MECHANISM as coded: ONE doubly linked list of all nodes (iteration order)    *)
(* plus a vector of nb buckets, each a pair <<first,last>> of nodes delimiting  *)
(* a CONTIGUOUS segment of that list - all nodes whose hash % nb is the bucket  *)
(* index.  Keys are unique, so a node is named by its key; H(k) = k (the        *)
(* harness instantiates the template with the identity hash, collisions come    *)
(* from the modulus).  One action per public member function:                   *)
(*   Insert(k,v)  rehash_if_needed (size+1 >= nb -> rehash((1+size)*2), ALSO    *)
(*                when k turns out to be present), find_in_range, then          *)
(*                insert_after(range.last) or push_back                         *)
(*   Erase(k)     fix the bucket's first/last, unlink; returns the list         *)
(*                successor                                                     *)
(*   Find(k)      walk from range.first along the list up to range.last         *)
(*   Clear        both branches of clear() (wipe the vector / wipe only the     *)
(*                buckets of the nodes met)                                     *)
(*   Rehash(n)    the public rehash(n): re-thread the old list, in order, into  *)
(*                a fresh table                                                 *)
(* PROPERTY layer: the table is a finite map.  val is the abstract map; every   *)
(* result carries next to what the mechanism computed (got) what the abstract   *)
(* map prescribes (exp); ResultOK says they agree, FindCorrect that a lookup    *)
(* of EVERY key is right in every reachable state, BucketInv is the mechanism   *)
(* invariant that makes it so (segments contiguous and correctly delimited),    *)
(* IterExact that iteration yields each present key exactly once.               *)
(* Fault # "none" seeds a design bug (non-vacuity of the invariants).           *)
EXTENDS Integers, Sequences, FiniteSets, TLC
CONSTANTS Keys, Vals, MaxNB, Fault
VARIABLES list, nb, rng, val, res
vars == <<list, nb, rng, val, res>>

No == -1
Dangling == -2
Bk(k, n) == k % n
SetOf(s) == { s[i] : i \in 1..Len(s) }
Pos(s, k) == CHOOSE i \in 1..Len(s) : s[i] = k
NextOf(s, k) == LET i == Pos(s, k) IN IF i = Len(s) THEN No ELSE s[i + 1]
PrevOf(s, k) == LET i == Pos(s, k) IN IF i = 1 THEN No ELSE s[i - 1]
InsertAfter(s, p, a) == LET i == Pos(s, a) IN SubSeq(s, 1, i) \o <<p>> \o SubSeq(s, i + 1, Len(s))
Remove(s, k) == LET i == Pos(s, k) IN SubSeq(s, 1, i - 1) \o SubSeq(s, i + 1, Len(s))
EmptyRng(n) == [i \in 0..(n - 1) |-> <<No, No>>]
Put(f, k, v) == [x \in DOMAIN f \cup {k} |-> IF x = k THEN v ELSE f[x]]
Drop(f, k) == [x \in DOMAIN f \ {k} |-> f[x]]

\* find_in_range: for(p=r.first;p!=0;p=p->next) { if(p->key==k) return p; if(p==r.second) return 0; } return 0;
RECURSIVE Walk(_, _, _, _)
Walk(s, p, last, k) ==
    IF p = No THEN No
    ELSE IF p \notin SetOf(s) THEN Dangling          \* a bucket that still points at a destroyed node
    ELSE IF p = k THEN k
    ELSE IF p = last THEN No
    ELSE Walk(s, NextOf(s, p), last, k)
FindIn(s, r, k) == Walk(s, r[1], r[2], k)

\* rehash(n): pop the old list front to back, thread each node behind its new bucket's last node
RECURSIVE Reh(_, _, _, _)
Reh(src, dst, rr, n) ==
    IF src = <<>> THEN <<dst, rr>>
    ELSE LET p == Head(src)
             b == Bk(p, n)
         IN IF rr[b][1] = No \/ Fault = "rehash_pushback"
            THEN Reh(Tail(src), Append(dst, p), [rr EXCEPT ![b] = <<IF rr[b][1] = No THEN p ELSE rr[b][1], p>>], n)
            ELSE Reh(Tail(src), InsertAfter(dst, p, rr[b][2]), [rr EXCEPT ![b] = <<rr[b][1], p>>], n)
DoRehash(s, n) == Reh(s, <<>>, EmptyRng(n), n)

Init == list = <<>> /\ nb = 0 /\ rng = <<>> /\ val = <<>> /\ res = [op |-> "init"]

Insert(k, v) ==
    LET need == Len(list) + 1 >= nb
        n1 == IF need THEN (1 + Len(list)) * 2 ELSE nb
        st == IF need THEN DoRehash(list, n1) ELSE <<list, rng>>
        l1 == st[1]
        r1 == st[2]
        b == Bk(k, n1)
        f == FindIn(l1, r1[b], k)
    IN /\ nb' = n1
       /\ IF f # No
          THEN /\ list' = l1 /\ rng' = r1 /\ val' = val
               /\ res' = [op |-> "ins", k |-> k, got |-> <<FALSE, val[k]>>,
                          exp |-> <<k \notin DOMAIN val, IF k \in DOMAIN val THEN val[k] ELSE v>>]
          ELSE /\ list' = IF r1[b][2] = No \/ Fault = "insert_pushback" \/ r1[b][2] \notin SetOf(l1)
                         THEN Append(l1, k) ELSE InsertAfter(l1, k, r1[b][2])
               /\ rng' = [r1 EXCEPT ![b] = IF r1[b][2] = No THEN <<k, k>> ELSE <<r1[b][1], k>>]
               /\ val' = Put(val, k, v)
               /\ res' = [op |-> "ins", k |-> k,
                          got |-> <<IF r1[b][2] # No /\ r1[b][2] \notin SetOf(l1) THEN FALSE ELSE TRUE, v>>,   \* FALSE: the code would dereference a destroyed node here
                          exp |-> <<k \notin DOMAIN val, IF k \in DOMAIN val THEN val[k] ELSE v>>]

\* erase(iterator): the caller holds an iterator to a present node
Erase(k) ==
    /\ k \in SetOf(list)
    /\ LET b == Bk(k, nb)
           r == rng[b]
       IN /\ rng' = [rng EXCEPT ![b] =
                       IF r[1] = r[2] THEN <<No, No>>
                       ELSE IF r[1] = k THEN <<NextOf(list, k), r[2]>>
                       ELSE IF r[2] = k THEN (IF Fault = "erase_last_stale" THEN r ELSE <<r[1], PrevOf(list, k)>>)
                       ELSE r]
          /\ list' = Remove(list, k)
          /\ val' = Drop(val, k)
          /\ res' = [op |-> "erase", k |-> k, got |-> NextOf(list, k), exp |-> NextOf(list, k)]
    /\ UNCHANGED nb

Find(k) ==
    /\ LET f == IF nb = 0 THEN No ELSE FindIn(list, rng[Bk(k, nb)], k)
       IN res' = [op |-> "find", k |-> k,
                  got |-> <<f # No, IF f # No THEN val[f] ELSE 0>>,
                  exp |-> <<k \in DOMAIN val, IF k \in DOMAIN val THEN val[k] ELSE 0>>]
    /\ UNCHANGED <<list, nb, rng, val>>

Clear ==
    /\ list' = <<>> /\ val' = <<>>
    /\ rng' = IF Len(list) \div 4 >= nb
              THEN EmptyRng(nb)                                              \* wipe the whole vector
              ELSE [i \in 0..(nb - 1) |->                                    \* wipe the buckets of the nodes met
                      IF \E j \in 1..Len(list) : Bk(list[j], nb) = i
                         /\ ~(Fault = "clear_skips_first" /\ j = 1) THEN <<No, No>> ELSE rng[i]]
    /\ res' = [op |-> "clear", got |-> 0, exp |-> 0]
    /\ UNCHANGED nb

Rehash(n) ==
    /\ LET st == DoRehash(list, n) IN list' = st[1] /\ rng' = st[2]
    /\ nb' = n
    /\ res' = [op |-> "rehash", got |-> n, exp |-> n]
    /\ UNCHANGED val

Next ==
    \/ \E k \in Keys, v \in Vals : Insert(k, v)
    \/ \E k \in Keys : Erase(k)
    \/ \E k \in Keys : Find(k)
    \/ Clear
    \/ \E n \in 1..MaxNB : Rehash(n)
Spec == Init /\ [][Next]_vars

-----------------------------------------------------------------------------
TypeOK ==
    /\ list \in Seq(Keys) /\ nb \in Nat
    /\ DOMAIN rng = 0..(nb - 1)
    /\ \A i \in DOMAIN rng : rng[i] \in (Keys \cup {No}) \X (Keys \cup {No})
    /\ DOMAIN val \subseteq Keys /\ \A k \in DOMAIN val : val[k] \in Vals

\* iteration (begin .. end) yields every present key exactly once
IterExact ==
    /\ \A i, j \in 1..Len(list) : i # j => list[i] # list[j]
    /\ SetOf(list) = DOMAIN val

\* every bucket delimits exactly the (contiguous) run of its own keys
BucketInv ==
    /\ (nb = 0 => list = <<>>)
    /\ \A b \in 0..(nb - 1) :
         LET idx == { i \in 1..Len(list) : Bk(list[i], nb) = b }
         IN IF idx = {} THEN rng[b] = <<No, No>>
            ELSE LET lo == CHOOSE i \in idx : \A j \in idx : i <= j
                     hi == CHOOSE i \in idx : \A j \in idx : i >= j
                 IN /\ hi - lo + 1 = Cardinality(idx)
                    /\ rng[b] = <<list[lo], list[hi]>>

\* a lookup of any key is right in every reachable state
FindCorrect ==
    \A k \in Keys :
        LET f == IF nb = 0 THEN No ELSE FindIn(list, rng[Bk(k, nb)], k)
        IN (f # No) <=> (k \in DOMAIN val)

\* what the mechanism answered is what the abstract map prescribes
ResultOK == res.op = "init" \/ res.got = res.exp

\* the automatic growth keeps the table strictly larger than the population
\* (only an explicit rehash(n) may undercut it)
LoadBounded == res.op = "ins" => Len(list) < nb
=============================================================================
