----------------------------- MODULE NetTrace -----------------------------
(* Leg B for C10, sequential drivers (harness/netcache/netcache_drv.cpp,    *)
(* modes exh / rand / script / wire).  One trace line = one completed       *)
(* operation of one client against the real tcp_cache_service /             *)
(* tcp_cache_factory objects; the line is accepted iff it is the            *)
(* composition Begin; L1 step; server step(s); L1 update; Return of Net.tla *)
(* (no other client interleaved) and                                        *)
(*   - a fetch returned exactly the result Net computes (hit, value id,     *)
(*     trigger set, deadline),                                              *)
(*   - the live entries found by looking into every server's backing cache  *)
(*     are exactly Net's (so each key sits on its one server, whichever     *)
(*     client stored it),                                                   *)
(*   - generations stamped by a server strictly increase,                   *)
(*   - Strict only (mechanism layer): the acting client's L1 holds exactly  *)
(*     Net's L1 entries, generations equal Net's.                           *)
(* With Strict = FALSE the clients are treated as having no L1 (by Leg D a  *)
(* client with L1 returns the same results as one without): that is the     *)
(* property layer, used to decide whether a Strict rejection is a           *)
(* violation or only drift of the mechanism model.                          *)
(*                                                                          *)
(* Named deviations (accepted, but reported through a DEVIATION line that   *)
(* checks/C10.py turns into a violation): see UnionDev, KeyNulDev.          *)
EXTENDS Net, TraceBase

CONSTANT Strict

VARIABLES l, maxg, lim
tvars == <<vars, l, maxg, lim>>

Ev == TraceLog[l]
Is(name) == l <= NLines /\ Ev.e = name /\ l' = l + 1

Deviation(sig) == PrintT("DEVIATION " \o sig \o " line " \o ToString(l))

EmptyState(cf, pl) ==
    [conf |-> cf, place |-> pl,
     srv |-> [s \in AllSrv |-> [n \in Keys |-> NoEntry]],
     genc |-> [s \in AllSrv |-> 0],
     l1 |-> [c \in Clients |-> [n \in Keys |-> NoEntry]],
     pc |-> [c \in Clients |-> Idle],
     now |-> 0, nv |-> 0, genlog |-> {}, killed |-> {},
     done |-> [c \in Clients |-> 0],
     l1c |-> [c \in Clients |-> 0]]

TReset ==
    /\ Is("Reset")
    /\ Set(EmptyState([l1 |-> IF Strict THEN SeqToSet(Ev.l1) ELSE {}, ns |-> Ev.ns],
                      [k \in Keys |-> IF k <= Len(Ev.place) THEN Ev.place[k] ELSE 0]))
    /\ maxg' = [s \in AllSrv |-> -1]
    /\ lim' = Ev.l1lim

---------------------------------------------------------------------------
RECURSIVE RunSrv(_, _)
RunSrv(T, c) == IF T.pc[c].st = "rpc"
                THEN RunSrv(SrvF(T, c, CHOOSE s \in T.pc[c].rem : TRUE), c)
                ELSE T
ToReply(T, c, o) == LET A == BeginF(T, c, o)
                        B == IF A.pc[c].st = "l1" THEN L1F(A, c) ELSE A
                    IN RunSrv(B, c)
Finish(T, c) == RetF(IF T.pc[c].st = "upd" THEN UpdF(T, c) ELSE T, c)

\* observations --------------------------------------------------------------
ObsSet(seq) == { [s |-> Get(x, "s", 0), k |-> x.k, v |-> x.v, ts |-> SeqToSet(x.ts), dl |-> x.dl]
                 : x \in SeqToSet(seq) }
NoBad(seq) == \A x \in SeqToSet(seq) : ~x.bad
ModelSrv(T) == { [s |-> x[1], k |-> x[2], v |-> T.srv[x[1]][x[2]].v, ts |-> T.srv[x[1]][x[2]].ts,
                  dl |-> T.srv[x[1]][x[2]].dl]
                 : x \in { y \in AllSrv \X Keys : Live(T.srv[y[1]][y[2]], T.now) } }
ModelL1(T, c) == { [s |-> 0, k |-> n, v |-> T.l1[c][n].v, ts |-> T.l1[c][n].ts, dl |-> T.l1[c][n].dl]
                   : n \in { m \in Keys : Live(T.l1[c][m], T.now) } }

SrvOK(T) ==
    /\ NoBad(Ev.so)
    /\ ObsSet(Ev.so) = ModelSrv(T)
    /\ Strict => \A x \in SeqToSet(Ev.so) : x.g = T.srv[x.s][x.k].gen

L1OK(T, c) ==
    (Strict /\ c \in T.conf.l1) =>
        /\ NoBad(Ev.lo)
        /\ ObsSet(Ev.lo) = ModelL1(T, c)
        /\ \A x \in SeqToSet(Ev.lo) : x.g = T.l1[c][x.k].gen

\* generations a server hands out strictly increase (observable when the stored entry is live)
GenOK(o) ==
    LET mine == { x \in SeqToSet(Ev.so) : x.k = o.k }
    IN IF o.op = "store" /\ mine # {}
       THEN LET x == CHOOSE y \in mine : TRUE
            IN /\ x.g > maxg[x.s]
               /\ maxg' = [maxg EXCEPT ![x.s] = x.g]
       ELSE maxg' = maxg

\* a limited L1 may have dropped any entries except the one just stored
Evictions(T, c, o) ==
    IF lim > 0 /\ c \in T.conf.l1
    THEN { [T EXCEPT !.l1[c] = [n \in Keys |-> IF n \in E THEN NoEntry ELSE T.l1[c][n]]]
           : E \in SUBSET { n \in Keys : T.l1[c][n].has /\ n # o.k } }
    ELSE { T }

ResultIs(r) ==
    /\ Ev.hit = r.has
    /\ Ev.hit => /\ Ev.rv = r.v
                 /\ SeqToSet(Ev.rts) = r.ts
                 /\ Ev.rdl = r.dl
                 /\ ~Ev.bad
                 /\ Strict => Ev.rg = r.gen

(* F6: tcp_cache::fetch adds the triggers of the reply to the set the L1     *)
(* lookup had already filled; the union is returned and re-stored in L1.    *)
UnionDev(p) ==
    /\ p.op = "fetch" /\ p.rep = "data" /\ p.cond
    /\ ~(p.l1e.ts \subseteq p.res.ts)
    /\ Ev.hit /\ Ev.rv = p.res.v /\ Ev.rdl = p.res.dl /\ ~Ev.bad
    /\ SeqToSet(Ev.rts) = p.res.ts \cup p.l1e.ts

TOp ==
    /\ Is("Op")
    /\ LET c == Ev.c
           o == [op |-> Ev.op, k |-> Ev.k, v |-> Get(Ev, "v", 0),
                 ts |-> SeqToSet(Get(Ev, "ts", <<>>)), dl |-> Get(Ev, "dl", 0)]
           R == ToReply(S, c, o)
           p == R.pc[c]
       IN \/ /\ o.op = "fetch" => ResultIs(p.res)
             /\ \E T \in Evictions(Finish(R, c), c, o) :
                   Set(T) /\ SrvOK(T) /\ L1OK(T, c)
             /\ GenOK(o)
          \/ /\ UnionDev(p)
             /\ LET Ru == [R EXCEPT !.pc[c].res.ts = p.res.ts \cup p.l1e.ts]
                IN \E T \in Evictions(Finish(Ru, c), c, o) :
                      Set(T) /\ SrvOK(T) /\ L1OK(T, c)
             /\ GenOK(o)
             /\ Deviation("l1-refetch-trigger-union")
    /\ lim' = lim

TTick ==
    /\ Is("Tick")
    /\ Set([S EXCEPT !.now = now + Ev.d])
    /\ SrvOK([S EXCEPT !.now = now + Ev.d])
    /\ UNCHANGED <<maxg, lim>>

---------------------------------------------------------------------------
(* Wire format: one independent event per case (function style).            *)
(* Byte strings are sequences of 0..255, or <<-1, len, fingerprint, 8 first, *)
(* 8 last bytes>> when longer than 48 bytes.                                 *)
WireRound(f, E) ==
    /\ f.hit = Ev.live
    /\ f.hit => /\ f.v = Ev.v
                /\ f.dl = Ev.dl
                /\ SeqToSet(f.ts) = E
                /\ f.geq

WireBase ==
    /\ Ev.live => (Ev.w >= 0 /\ Ev.w < Ev.ns)          \* on exactly one server
    /\ (Ev.wprev >= 0 /\ Ev.w >= 0) => Ev.w = Ev.wprev    \* the same key always on the same server
    /\ Ev.live = Ev.shit
    /\ Ev.shit => (Ev.sv = Ev.v /\ Ev.sdl = Ev.dl)

(* A key that contains a NUL byte: the server sends the key back as one of   *)
(* its own triggers, NUL-terminated, and the client cuts it at the NUL.      *)
KeyNulDev(f) ==
    /\ \E i \in DOMAIN Ev.k : Ev.k[i] = 0
    /\ f.hit /\ Ev.live /\ f.v = Ev.v /\ f.dl = Ev.dl /\ f.geq
    /\ SeqToSet(Ev.ts) \subseteq SeqToSet(f.ts)
    /\ SeqToSet(f.ts) # SeqToSet(Ev.ts) \cup {Ev.k}

TWire ==
    /\ Is("Wire")
    /\ LET E == SeqToSet(Ev.ts) \cup {Ev.k}
       IN /\ WireBase
          /\ Ev.shit => SeqToSet(Ev.sts) = E
          /\ \/ \A i \in DOMAIN Ev.f : WireRound(Ev.f[i], E)
             \/ /\ \E i \in DOMAIN Ev.f : KeyNulDev(Ev.f[i])
                /\ \A i \in DOMAIN Ev.f : WireRound(Ev.f[i], E) \/ KeyNulDev(Ev.f[i])
                /\ Deviation("wire-key-nul-trigger-split")
    /\ UNCHANGED <<vars, maxg, lim>>

TraceInit == Init /\ l = 1 /\ maxg = [s \in AllSrv |-> -1] /\ lim = 0
TraceNext == TReset \/ TOp \/ TTick \/ TWire
TraceSpec == TraceInit /\ [][TraceNext]_tvars
=============================================================================
