SPECIFICATION Spec
CONSTANTS
  Keys = {0,1,2,3,4}
  Vals = {1}
  MaxNB = 3
  Fault = "clear_skips_first"
INVARIANTS IterExact FindCorrect ResultOK
