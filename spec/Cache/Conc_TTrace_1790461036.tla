---- MODULE Conc_TTrace_1790461036 ----
EXTENDS Conc, Sequences, TLCExt, Toolbox, Naturals, TLC

_expression ==
    LET Conc_TEExpression == INSTANCE Conc_TEExpression
    IN Conc_TEExpression!expression
----

_trace ==
    LET Conc_TETrace == INSTANCE Conc_TETrace
    IN Conc_TETrace!trace
----

_inv ==
    ~(
        TLCGet("level") = Len(_TETrace)
        /\
        cur = (<<[op |-> "fetch", k |-> 1, ts |-> {}, dl |-> 0], [op |-> "remove", k |-> 1, ts |-> {}, dl |-> 0]>>)
        /\
        res = ([op |-> "remove", k |-> 1, ts |-> {}, dl |-> 0, hit |-> FALSE, v |-> 0])
        /\
        last = (<<[ts |-> {1}, dl |-> 0, v |-> 1, has |-> TRUE], [ts |-> {}, dl |-> 0, v |-> 0, has |-> FALSE]>>)
        /\
        nv = (1)
        /\
        linres = (<<[op |-> "fetch", k |-> 1, ts |-> {1}, dl |-> 0, hit |-> TRUE, v |-> 1], [op |-> "remove", k |-> 1, ts |-> {}, dl |-> 0, hit |-> FALSE, v |-> 0]>>)
        /\
        dead = (<<TRUE, FALSE>>)
        /\
        done = (<<1, 0>>)
        /\
        retres = (<<[op |-> "fetch", k |-> 1, ts |-> {}, dl |-> 0, hit |-> TRUE, v |-> -1], [op |-> "remove", k |-> 1, ts |-> {}, dl |-> 0, hit |-> FALSE, v |-> 0]>>)
        /\
        lruMid = (0)
        /\
        rd = ({2})
        /\
        pc = (<<"ret", "copied">>)
        /\
        now = (0)
        /\
        limit = (0)
        /\
        lruOwner = (0)
        /\
        wr = (0)
        /\
        present = ({})
        /\
        order = (<<>>)
    )
----

_init ==
    /\ done = _TETrace[1].done
    /\ cur = _TETrace[1].cur
    /\ nv = _TETrace[1].nv
    /\ now = _TETrace[1].now
    /\ present = _TETrace[1].present
    /\ pc = _TETrace[1].pc
    /\ linres = _TETrace[1].linres
    /\ retres = _TETrace[1].retres
    /\ rd = _TETrace[1].rd
    /\ res = _TETrace[1].res
    /\ last = _TETrace[1].last
    /\ dead = _TETrace[1].dead
    /\ lruOwner = _TETrace[1].lruOwner
    /\ lruMid = _TETrace[1].lruMid
    /\ wr = _TETrace[1].wr
    /\ order = _TETrace[1].order
    /\ limit = _TETrace[1].limit
----

_next ==
    /\ \E i,j \in DOMAIN _TETrace:
        /\ \/ /\ j = i + 1
              /\ i = TLCGet("level")
        /\ done  = _TETrace[i].done
        /\ done' = _TETrace[j].done
        /\ cur  = _TETrace[i].cur
        /\ cur' = _TETrace[j].cur
        /\ nv  = _TETrace[i].nv
        /\ nv' = _TETrace[j].nv
        /\ now  = _TETrace[i].now
        /\ now' = _TETrace[j].now
        /\ present  = _TETrace[i].present
        /\ present' = _TETrace[j].present
        /\ pc  = _TETrace[i].pc
        /\ pc' = _TETrace[j].pc
        /\ linres  = _TETrace[i].linres
        /\ linres' = _TETrace[j].linres
        /\ retres  = _TETrace[i].retres
        /\ retres' = _TETrace[j].retres
        /\ rd  = _TETrace[i].rd
        /\ rd' = _TETrace[j].rd
        /\ res  = _TETrace[i].res
        /\ res' = _TETrace[j].res
        /\ last  = _TETrace[i].last
        /\ last' = _TETrace[j].last
        /\ dead  = _TETrace[i].dead
        /\ dead' = _TETrace[j].dead
        /\ lruOwner  = _TETrace[i].lruOwner
        /\ lruOwner' = _TETrace[j].lruOwner
        /\ lruMid  = _TETrace[i].lruMid
        /\ lruMid' = _TETrace[j].lruMid
        /\ wr  = _TETrace[i].wr
        /\ wr' = _TETrace[j].wr
        /\ order  = _TETrace[i].order
        /\ order' = _TETrace[j].order
        /\ limit  = _TETrace[i].limit
        /\ limit' = _TETrace[j].limit

\* Uncomment the ASSUME below to write the states of the error trace
\* to the given file in Json format. Note that you can pass any tuple
\* to `JsonSerialize`. For example, a sub-sequence of _TETrace.
    \* ASSUME
    \*     LET J == INSTANCE Json
    \*         IN J!JsonSerialize("Conc_TTrace_1790461036.json", _TETrace)

=============================================================================

 Note that you can extract this module `Conc_TEExpression`
  to a dedicated file to reuse `expression` (the module in the 
  dedicated `Conc_TEExpression.tla` file takes precedence 
  over the module `Conc_TEExpression` below).

---- MODULE Conc_TEExpression ----
EXTENDS Conc, Sequences, TLCExt, Toolbox, Naturals, TLC

expression == 
    [
        \* To hide variables of the `Conc` spec from the error trace,
        \* remove the variables below.  The trace will be written in the order
        \* of the fields of this record.
        done |-> done
        ,cur |-> cur
        ,nv |-> nv
        ,now |-> now
        ,present |-> present
        ,pc |-> pc
        ,linres |-> linres
        ,retres |-> retres
        ,rd |-> rd
        ,res |-> res
        ,last |-> last
        ,dead |-> dead
        ,lruOwner |-> lruOwner
        ,lruMid |-> lruMid
        ,wr |-> wr
        ,order |-> order
        ,limit |-> limit
        
        \* Put additional constant-, state-, and action-level expressions here:
        \* ,_stateNumber |-> _TEPosition
        \* ,_doneUnchanged |-> done = done'
        
        \* Format the `done` variable as Json value.
        \* ,_doneJson |->
        \*     LET J == INSTANCE Json
        \*     IN J!ToJson(done)
        
        \* Lastly, you may build expressions over arbitrary sets of states by
        \* leveraging the _TETrace operator.  For example, this is how to
        \* count the number of times a spec variable changed up to the current
        \* state in the trace.
        \* ,_doneModCount |->
        \*     LET F[s \in DOMAIN _TETrace] ==
        \*         IF s = 1 THEN 0
        \*         ELSE IF _TETrace[s].done # _TETrace[s-1].done
        \*             THEN 1 + F[s-1] ELSE F[s-1]
        \*     IN F[_TEPosition - 1]
    ]

=============================================================================



Parsing and semantic processing can take forever if the trace below is long.
 In this case, it is advised to uncomment the module below to deserialize the
 trace from a generated binary file.

\*
\*---- MODULE Conc_TETrace ----
\*EXTENDS Conc, IOUtils, TLC
\*
\*trace == IODeserialize("Conc_TTrace_1790461036.bin", TRUE)
\*
\*=============================================================================
\*

---- MODULE Conc_TETrace ----
EXTENDS Conc, TLC

trace == 
    <<
    ([cur |-> <<[op |-> "none", k |-> 0, ts |-> {}, dl |-> 0], [op |-> "none", k |-> 0, ts |-> {}, dl |-> 0]>>,res |-> [op |-> "none", k |-> 0, ts |-> {}, dl |-> 0, hit |-> FALSE, v |-> 0],last |-> <<[ts |-> {}, dl |-> 0, v |-> 0, has |-> FALSE], [ts |-> {}, dl |-> 0, v |-> 0, has |-> FALSE]>>,nv |-> 0,linres |-> <<[op |-> "none", k |-> 0, ts |-> {}, dl |-> 0, hit |-> FALSE, v |-> 0], [op |-> "none", k |-> 0, ts |-> {}, dl |-> 0, hit |-> FALSE, v |-> 0]>>,dead |-> <<FALSE, FALSE>>,done |-> <<0, 0>>,retres |-> <<[op |-> "none", k |-> 0, ts |-> {}, dl |-> 0, hit |-> FALSE, v |-> 0], [op |-> "none", k |-> 0, ts |-> {}, dl |-> 0, hit |-> FALSE, v |-> 0]>>,lruMid |-> 0,rd |-> {},pc |-> <<"idle", "idle">>,now |-> 0,limit |-> 0,lruOwner |-> 0,wr |-> 0,present |-> {},order |-> <<>>]),
    ([cur |-> <<[op |-> "store", k |-> 1, ts |-> {}, dl |-> 0], [op |-> "none", k |-> 0, ts |-> {}, dl |-> 0]>>,res |-> [op |-> "none", k |-> 0, ts |-> {}, dl |-> 0, hit |-> FALSE, v |-> 0],last |-> <<[ts |-> {}, dl |-> 0, v |-> 0, has |-> FALSE], [ts |-> {}, dl |-> 0, v |-> 0, has |-> FALSE]>>,nv |-> 0,linres |-> <<[op |-> "none", k |-> 0, ts |-> {}, dl |-> 0, hit |-> FALSE, v |-> 0], [op |-> "none", k |-> 0, ts |-> {}, dl |-> 0, hit |-> FALSE, v |-> 0]>>,dead |-> <<FALSE, FALSE>>,done |-> <<0, 0>>,retres |-> <<[op |-> "none", k |-> 0, ts |-> {}, dl |-> 0, hit |-> FALSE, v |-> 0], [op |-> "none", k |-> 0, ts |-> {}, dl |-> 0, hit |-> FALSE, v |-> 0]>>,lruMid |-> 0,rd |-> {},pc |-> <<"inv", "idle">>,now |-> 0,limit |-> 0,lruOwner |-> 0,wr |-> 0,present |-> {},order |-> <<>>]),
    ([cur |-> <<[op |-> "store", k |-> 1, ts |-> {}, dl |-> 0], [op |-> "none", k |-> 0, ts |-> {}, dl |-> 0]>>,res |-> [op |-> "none", k |-> 0, ts |-> {}, dl |-> 0, hit |-> FALSE, v |-> 0],last |-> <<[ts |-> {}, dl |-> 0, v |-> 0, has |-> FALSE], [ts |-> {}, dl |-> 0, v |-> 0, has |-> FALSE]>>,nv |-> 0,linres |-> <<[op |-> "none", k |-> 0, ts |-> {}, dl |-> 0, hit |-> FALSE, v |-> 0], [op |-> "none", k |-> 0, ts |-> {}, dl |-> 0, hit |-> FALSE, v |-> 0]>>,dead |-> <<FALSE, FALSE>>,done |-> <<0, 0>>,retres |-> <<[op |-> "none", k |-> 0, ts |-> {}, dl |-> 0, hit |-> FALSE, v |-> 0], [op |-> "none", k |-> 0, ts |-> {}, dl |-> 0, hit |-> FALSE, v |-> 0]>>,lruMid |-> 0,rd |-> {},pc |-> <<"wrheld", "idle">>,now |-> 0,limit |-> 0,lruOwner |-> 0,wr |-> 1,present |-> {},order |-> <<>>]),
    ([cur |-> <<[op |-> "store", k |-> 1, ts |-> {}, dl |-> 0], [op |-> "none", k |-> 0, ts |-> {}, dl |-> 0]>>,res |-> [op |-> "store", k |-> 1, ts |-> {}, dl |-> 0, hit |-> FALSE, v |-> 0],last |-> <<[ts |-> {1}, dl |-> 0, v |-> 1, has |-> TRUE], [ts |-> {}, dl |-> 0, v |-> 0, has |-> FALSE]>>,nv |-> 1,linres |-> <<[op |-> "store", k |-> 1, ts |-> {}, dl |-> 0, hit |-> FALSE, v |-> 0], [op |-> "none", k |-> 0, ts |-> {}, dl |-> 0, hit |-> FALSE, v |-> 0]>>,dead |-> <<FALSE, FALSE>>,done |-> <<0, 0>>,retres |-> <<[op |-> "store", k |-> 1, ts |-> {}, dl |-> 0, hit |-> FALSE, v |-> 0], [op |-> "none", k |-> 0, ts |-> {}, dl |-> 0, hit |-> FALSE, v |-> 0]>>,lruMid |-> 0,rd |-> {},pc |-> <<"applied", "idle">>,now |-> 0,limit |-> 0,lruOwner |-> 0,wr |-> 1,present |-> {1},order |-> <<1>>]),
    ([cur |-> <<[op |-> "store", k |-> 1, ts |-> {}, dl |-> 0], [op |-> "none", k |-> 0, ts |-> {}, dl |-> 0]>>,res |-> [op |-> "store", k |-> 1, ts |-> {}, dl |-> 0, hit |-> FALSE, v |-> 0],last |-> <<[ts |-> {1}, dl |-> 0, v |-> 1, has |-> TRUE], [ts |-> {}, dl |-> 0, v |-> 0, has |-> FALSE]>>,nv |-> 1,linres |-> <<[op |-> "store", k |-> 1, ts |-> {}, dl |-> 0, hit |-> FALSE, v |-> 0], [op |-> "none", k |-> 0, ts |-> {}, dl |-> 0, hit |-> FALSE, v |-> 0]>>,dead |-> <<FALSE, FALSE>>,done |-> <<0, 0>>,retres |-> <<[op |-> "store", k |-> 1, ts |-> {}, dl |-> 0, hit |-> FALSE, v |-> 0], [op |-> "none", k |-> 0, ts |-> {}, dl |-> 0, hit |-> FALSE, v |-> 0]>>,lruMid |-> 0,rd |-> {},pc |-> <<"ret", "idle">>,now |-> 0,limit |-> 0,lruOwner |-> 0,wr |-> 0,present |-> {1},order |-> <<1>>]),
    ([cur |-> <<[op |-> "store", k |-> 1, ts |-> {}, dl |-> 0], [op |-> "none", k |-> 0, ts |-> {}, dl |-> 0]>>,res |-> [op |-> "store", k |-> 1, ts |-> {}, dl |-> 0, hit |-> FALSE, v |-> 0],last |-> <<[ts |-> {1}, dl |-> 0, v |-> 1, has |-> TRUE], [ts |-> {}, dl |-> 0, v |-> 0, has |-> FALSE]>>,nv |-> 1,linres |-> <<[op |-> "store", k |-> 1, ts |-> {}, dl |-> 0, hit |-> FALSE, v |-> 0], [op |-> "none", k |-> 0, ts |-> {}, dl |-> 0, hit |-> FALSE, v |-> 0]>>,dead |-> <<FALSE, FALSE>>,done |-> <<1, 0>>,retres |-> <<[op |-> "store", k |-> 1, ts |-> {}, dl |-> 0, hit |-> FALSE, v |-> 0], [op |-> "none", k |-> 0, ts |-> {}, dl |-> 0, hit |-> FALSE, v |-> 0]>>,lruMid |-> 0,rd |-> {},pc |-> <<"idle", "idle">>,now |-> 0,limit |-> 0,lruOwner |-> 0,wr |-> 0,present |-> {1},order |-> <<1>>]),
    ([cur |-> <<[op |-> "fetch", k |-> 1, ts |-> {}, dl |-> 0], [op |-> "none", k |-> 0, ts |-> {}, dl |-> 0]>>,res |-> [op |-> "store", k |-> 1, ts |-> {}, dl |-> 0, hit |-> FALSE, v |-> 0],last |-> <<[ts |-> {1}, dl |-> 0, v |-> 1, has |-> TRUE], [ts |-> {}, dl |-> 0, v |-> 0, has |-> FALSE]>>,nv |-> 1,linres |-> <<[op |-> "none", k |-> 0, ts |-> {}, dl |-> 0, hit |-> FALSE, v |-> 0], [op |-> "none", k |-> 0, ts |-> {}, dl |-> 0, hit |-> FALSE, v |-> 0]>>,dead |-> <<FALSE, FALSE>>,done |-> <<1, 0>>,retres |-> <<[op |-> "none", k |-> 0, ts |-> {}, dl |-> 0, hit |-> FALSE, v |-> 0], [op |-> "none", k |-> 0, ts |-> {}, dl |-> 0, hit |-> FALSE, v |-> 0]>>,lruMid |-> 0,rd |-> {},pc |-> <<"inv", "idle">>,now |-> 0,limit |-> 0,lruOwner |-> 0,wr |-> 0,present |-> {1},order |-> <<1>>]),
    ([cur |-> <<[op |-> "fetch", k |-> 1, ts |-> {}, dl |-> 0], [op |-> "none", k |-> 0, ts |-> {}, dl |-> 0]>>,res |-> [op |-> "store", k |-> 1, ts |-> {}, dl |-> 0, hit |-> FALSE, v |-> 0],last |-> <<[ts |-> {1}, dl |-> 0, v |-> 1, has |-> TRUE], [ts |-> {}, dl |-> 0, v |-> 0, has |-> FALSE]>>,nv |-> 1,linres |-> <<[op |-> "none", k |-> 0, ts |-> {}, dl |-> 0, hit |-> FALSE, v |-> 0], [op |-> "none", k |-> 0, ts |-> {}, dl |-> 0, hit |-> FALSE, v |-> 0]>>,dead |-> <<FALSE, FALSE>>,done |-> <<1, 0>>,retres |-> <<[op |-> "none", k |-> 0, ts |-> {}, dl |-> 0, hit |-> FALSE, v |-> 0], [op |-> "none", k |-> 0, ts |-> {}, dl |-> 0, hit |-> FALSE, v |-> 0]>>,lruMid |-> 0,rd |-> {1},pc |-> <<"rdheld", "idle">>,now |-> 0,limit |-> 0,lruOwner |-> 0,wr |-> 0,present |-> {1},order |-> <<1>>]),
    ([cur |-> <<[op |-> "fetch", k |-> 1, ts |-> {}, dl |-> 0], [op |-> "none", k |-> 0, ts |-> {}, dl |-> 0]>>,res |-> [op |-> "store", k |-> 1, ts |-> {}, dl |-> 0, hit |-> FALSE, v |-> 0],last |-> <<[ts |-> {1}, dl |-> 0, v |-> 1, has |-> TRUE], [ts |-> {}, dl |-> 0, v |-> 0, has |-> FALSE]>>,nv |-> 1,linres |-> <<[op |-> "none", k |-> 0, ts |-> {}, dl |-> 0, hit |-> FALSE, v |-> 0], [op |-> "none", k |-> 0, ts |-> {}, dl |-> 0, hit |-> FALSE, v |-> 0]>>,dead |-> <<FALSE, FALSE>>,done |-> <<1, 0>>,retres |-> <<[op |-> "none", k |-> 0, ts |-> {}, dl |-> 0, hit |-> FALSE, v |-> 0], [op |-> "none", k |-> 0, ts |-> {}, dl |-> 0, hit |-> FALSE, v |-> 0]>>,lruMid |-> 0,rd |-> {1},pc |-> <<"found", "idle">>,now |-> 0,limit |-> 0,lruOwner |-> 0,wr |-> 0,present |-> {1},order |-> <<1>>]),
    ([cur |-> <<[op |-> "fetch", k |-> 1, ts |-> {}, dl |-> 0], [op |-> "none", k |-> 0, ts |-> {}, dl |-> 0]>>,res |-> [op |-> "store", k |-> 1, ts |-> {}, dl |-> 0, hit |-> FALSE, v |-> 0],last |-> <<[ts |-> {1}, dl |-> 0, v |-> 1, has |-> TRUE], [ts |-> {}, dl |-> 0, v |-> 0, has |-> FALSE]>>,nv |-> 1,linres |-> <<[op |-> "none", k |-> 0, ts |-> {}, dl |-> 0, hit |-> FALSE, v |-> 0], [op |-> "none", k |-> 0, ts |-> {}, dl |-> 0, hit |-> FALSE, v |-> 0]>>,dead |-> <<FALSE, FALSE>>,done |-> <<1, 0>>,retres |-> <<[op |-> "none", k |-> 0, ts |-> {}, dl |-> 0, hit |-> FALSE, v |-> 0], [op |-> "none", k |-> 0, ts |-> {}, dl |-> 0, hit |-> FALSE, v |-> 0]>>,lruMid |-> 0,rd |-> {1},pc |-> <<"lruheld", "idle">>,now |-> 0,limit |-> 0,lruOwner |-> 1,wr |-> 0,present |-> {1},order |-> <<1>>]),
    ([cur |-> <<[op |-> "fetch", k |-> 1, ts |-> {}, dl |-> 0], [op |-> "none", k |-> 0, ts |-> {}, dl |-> 0]>>,res |-> [op |-> "store", k |-> 1, ts |-> {}, dl |-> 0, hit |-> FALSE, v |-> 0],last |-> <<[ts |-> {1}, dl |-> 0, v |-> 1, has |-> TRUE], [ts |-> {}, dl |-> 0, v |-> 0, has |-> FALSE]>>,nv |-> 1,linres |-> <<[op |-> "none", k |-> 0, ts |-> {}, dl |-> 0, hit |-> FALSE, v |-> 0], [op |-> "none", k |-> 0, ts |-> {}, dl |-> 0, hit |-> FALSE, v |-> 0]>>,dead |-> <<FALSE, FALSE>>,done |-> <<1, 0>>,retres |-> <<[op |-> "none", k |-> 0, ts |-> {}, dl |-> 0, hit |-> FALSE, v |-> 0], [op |-> "none", k |-> 0, ts |-> {}, dl |-> 0, hit |-> FALSE, v |-> 0]>>,lruMid |-> 1,rd |-> {1},pc |-> <<"lruerased", "idle">>,now |-> 0,limit |-> 0,lruOwner |-> 1,wr |-> 0,present |-> {1},order |-> <<1>>]),
    ([cur |-> <<[op |-> "fetch", k |-> 1, ts |-> {}, dl |-> 0], [op |-> "none", k |-> 0, ts |-> {}, dl |-> 0]>>,res |-> [op |-> "fetch", k |-> 1, ts |-> {1}, dl |-> 0, hit |-> TRUE, v |-> 1],last |-> <<[ts |-> {1}, dl |-> 0, v |-> 1, has |-> TRUE], [ts |-> {}, dl |-> 0, v |-> 0, has |-> FALSE]>>,nv |-> 1,linres |-> <<[op |-> "fetch", k |-> 1, ts |-> {1}, dl |-> 0, hit |-> TRUE, v |-> 1], [op |-> "none", k |-> 0, ts |-> {}, dl |-> 0, hit |-> FALSE, v |-> 0]>>,dead |-> <<FALSE, FALSE>>,done |-> <<1, 0>>,retres |-> <<[op |-> "none", k |-> 0, ts |-> {}, dl |-> 0, hit |-> FALSE, v |-> 0], [op |-> "none", k |-> 0, ts |-> {}, dl |-> 0, hit |-> FALSE, v |-> 0]>>,lruMid |-> 0,rd |-> {1},pc |-> <<"lrudone", "idle">>,now |-> 0,limit |-> 0,lruOwner |-> 1,wr |-> 0,present |-> {1},order |-> <<1>>]),
    ([cur |-> <<[op |-> "fetch", k |-> 1, ts |-> {}, dl |-> 0], [op |-> "none", k |-> 0, ts |-> {}, dl |-> 0]>>,res |-> [op |-> "fetch", k |-> 1, ts |-> {1}, dl |-> 0, hit |-> TRUE, v |-> 1],last |-> <<[ts |-> {1}, dl |-> 0, v |-> 1, has |-> TRUE], [ts |-> {}, dl |-> 0, v |-> 0, has |-> FALSE]>>,nv |-> 1,linres |-> <<[op |-> "fetch", k |-> 1, ts |-> {1}, dl |-> 0, hit |-> TRUE, v |-> 1], [op |-> "none", k |-> 0, ts |-> {}, dl |-> 0, hit |-> FALSE, v |-> 0]>>,dead |-> <<FALSE, FALSE>>,done |-> <<1, 0>>,retres |-> <<[op |-> "none", k |-> 0, ts |-> {}, dl |-> 0, hit |-> FALSE, v |-> 0], [op |-> "none", k |-> 0, ts |-> {}, dl |-> 0, hit |-> FALSE, v |-> 0]>>,lruMid |-> 0,rd |-> {1},pc |-> <<"tocopy", "idle">>,now |-> 0,limit |-> 0,lruOwner |-> 0,wr |-> 0,present |-> {1},order |-> <<1>>]),
    ([cur |-> <<[op |-> "fetch", k |-> 1, ts |-> {}, dl |-> 0], [op |-> "remove", k |-> 1, ts |-> {}, dl |-> 0]>>,res |-> [op |-> "fetch", k |-> 1, ts |-> {1}, dl |-> 0, hit |-> TRUE, v |-> 1],last |-> <<[ts |-> {1}, dl |-> 0, v |-> 1, has |-> TRUE], [ts |-> {}, dl |-> 0, v |-> 0, has |-> FALSE]>>,nv |-> 1,linres |-> <<[op |-> "fetch", k |-> 1, ts |-> {1}, dl |-> 0, hit |-> TRUE, v |-> 1], [op |-> "none", k |-> 0, ts |-> {}, dl |-> 0, hit |-> FALSE, v |-> 0]>>,dead |-> <<FALSE, FALSE>>,done |-> <<1, 0>>,retres |-> <<[op |-> "none", k |-> 0, ts |-> {}, dl |-> 0, hit |-> FALSE, v |-> 0], [op |-> "none", k |-> 0, ts |-> {}, dl |-> 0, hit |-> FALSE, v |-> 0]>>,lruMid |-> 0,rd |-> {1},pc |-> <<"tocopy", "inv">>,now |-> 0,limit |-> 0,lruOwner |-> 0,wr |-> 0,present |-> {1},order |-> <<1>>]),
    ([cur |-> <<[op |-> "fetch", k |-> 1, ts |-> {}, dl |-> 0], [op |-> "remove", k |-> 1, ts |-> {}, dl |-> 0]>>,res |-> [op |-> "fetch", k |-> 1, ts |-> {1}, dl |-> 0, hit |-> TRUE, v |-> 1],last |-> <<[ts |-> {1}, dl |-> 0, v |-> 1, has |-> TRUE], [ts |-> {}, dl |-> 0, v |-> 0, has |-> FALSE]>>,nv |-> 1,linres |-> <<[op |-> "fetch", k |-> 1, ts |-> {1}, dl |-> 0, hit |-> TRUE, v |-> 1], [op |-> "none", k |-> 0, ts |-> {}, dl |-> 0, hit |-> FALSE, v |-> 0]>>,dead |-> <<FALSE, FALSE>>,done |-> <<1, 0>>,retres |-> <<[op |-> "none", k |-> 0, ts |-> {}, dl |-> 0, hit |-> FALSE, v |-> 0], [op |-> "none", k |-> 0, ts |-> {}, dl |-> 0, hit |-> FALSE, v |-> 0]>>,lruMid |-> 0,rd |-> {1, 2},pc |-> <<"tocopy", "rdheld">>,now |-> 0,limit |-> 0,lruOwner |-> 0,wr |-> 0,present |-> {1},order |-> <<1>>]),
    ([cur |-> <<[op |-> "fetch", k |-> 1, ts |-> {}, dl |-> 0], [op |-> "remove", k |-> 1, ts |-> {}, dl |-> 0]>>,res |-> [op |-> "remove", k |-> 1, ts |-> {}, dl |-> 0, hit |-> FALSE, v |-> 0],last |-> <<[ts |-> {1}, dl |-> 0, v |-> 1, has |-> TRUE], [ts |-> {}, dl |-> 0, v |-> 0, has |-> FALSE]>>,nv |-> 1,linres |-> <<[op |-> "fetch", k |-> 1, ts |-> {1}, dl |-> 0, hit |-> TRUE, v |-> 1], [op |-> "remove", k |-> 1, ts |-> {}, dl |-> 0, hit |-> FALSE, v |-> 0]>>,dead |-> <<TRUE, FALSE>>,done |-> <<1, 0>>,retres |-> <<[op |-> "none", k |-> 0, ts |-> {}, dl |-> 0, hit |-> FALSE, v |-> 0], [op |-> "remove", k |-> 1, ts |-> {}, dl |-> 0, hit |-> FALSE, v |-> 0]>>,lruMid |-> 0,rd |-> {1, 2},pc |-> <<"tocopy", "copied">>,now |-> 0,limit |-> 0,lruOwner |-> 0,wr |-> 0,present |-> {},order |-> <<>>]),
    ([cur |-> <<[op |-> "fetch", k |-> 1, ts |-> {}, dl |-> 0], [op |-> "remove", k |-> 1, ts |-> {}, dl |-> 0]>>,res |-> [op |-> "remove", k |-> 1, ts |-> {}, dl |-> 0, hit |-> FALSE, v |-> 0],last |-> <<[ts |-> {1}, dl |-> 0, v |-> 1, has |-> TRUE], [ts |-> {}, dl |-> 0, v |-> 0, has |-> FALSE]>>,nv |-> 1,linres |-> <<[op |-> "fetch", k |-> 1, ts |-> {1}, dl |-> 0, hit |-> TRUE, v |-> 1], [op |-> "remove", k |-> 1, ts |-> {}, dl |-> 0, hit |-> FALSE, v |-> 0]>>,dead |-> <<TRUE, FALSE>>,done |-> <<1, 0>>,retres |-> <<[op |-> "fetch", k |-> 1, ts |-> {}, dl |-> 0, hit |-> TRUE, v |-> -1], [op |-> "remove", k |-> 1, ts |-> {}, dl |-> 0, hit |-> FALSE, v |-> 0]>>,lruMid |-> 0,rd |-> {1, 2},pc |-> <<"copied", "copied">>,now |-> 0,limit |-> 0,lruOwner |-> 0,wr |-> 0,present |-> {},order |-> <<>>]),
    ([cur |-> <<[op |-> "fetch", k |-> 1, ts |-> {}, dl |-> 0], [op |-> "remove", k |-> 1, ts |-> {}, dl |-> 0]>>,res |-> [op |-> "remove", k |-> 1, ts |-> {}, dl |-> 0, hit |-> FALSE, v |-> 0],last |-> <<[ts |-> {1}, dl |-> 0, v |-> 1, has |-> TRUE], [ts |-> {}, dl |-> 0, v |-> 0, has |-> FALSE]>>,nv |-> 1,linres |-> <<[op |-> "fetch", k |-> 1, ts |-> {1}, dl |-> 0, hit |-> TRUE, v |-> 1], [op |-> "remove", k |-> 1, ts |-> {}, dl |-> 0, hit |-> FALSE, v |-> 0]>>,dead |-> <<TRUE, FALSE>>,done |-> <<1, 0>>,retres |-> <<[op |-> "fetch", k |-> 1, ts |-> {}, dl |-> 0, hit |-> TRUE, v |-> -1], [op |-> "remove", k |-> 1, ts |-> {}, dl |-> 0, hit |-> FALSE, v |-> 0]>>,lruMid |-> 0,rd |-> {2},pc |-> <<"ret", "copied">>,now |-> 0,limit |-> 0,lruOwner |-> 0,wr |-> 0,present |-> {},order |-> <<>>])
    >>
----


=============================================================================

---- CONFIG Conc_TTrace_1790461036 ----
CONSTANTS
    Names = { 1 , 2 }
    Limits = { 0 , 1 }
    Deadlines = { 0 }
    TrigSets = { { } , { 2 } }
    MaxNow = 0
    MaxStores = 4
    Threads = { 1 , 2 }
    OpsPerThread = 2
    BugCopyAfterUnlock = FALSE
    BugNoLruMutex = FALSE
    BugReadLockRemove = TRUE

INVARIANT
    _inv

CHECK_DEADLOCK
    \* CHECK_DEADLOCK off because of PROPERTY or INVARIANT above.
    FALSE

INIT
    _init

NEXT
    _next

CONSTANT
    _TETrace <- _trace

ALIAS
    _expression
=============================================================================
\* Generated on Sat Sep 26 22:17:20 UTC 2026