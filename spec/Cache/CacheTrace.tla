---------------------------- MODULE CacheTrace ----------------------------
(* Leg B for C07/C08: an ND-JSON trace recorded from the real cache         *)
(* (harness/cache/cache_drv.cpp) is accepted iff it is a behaviour of the  *)
(* property layer Cache.tla: every fetch result and every stats() pair is  *)
(* the one the specification computes from the history.                    *)
EXTENDS Cache, TraceBase

VARIABLES l, memsize, pressure     \* pressure: process-shared cache driven with values comparable to the segment size
tvars == <<vars, l, memsize, pressure>>

Ev == TraceLog[l]
Is(name) == l <= NLines /\ Ev.e = name /\ l' = l + 1

SumTrigP(P, L) == LET RECURSIVE S(_)
                      S(X) == IF X = {} THEN 0
                              ELSE LET k == CHOOSE x \in X : TRUE
                                   IN Cardinality(L[k].ts) + S(X \ {k})
                  IN S(P)

StatsOK == /\ Ev.sk = Cardinality(present')
           /\ Ev.st = SumTrigP(present', last')

TReset ==
    /\ Is("Reset")
    /\ now' = 0 /\ limit' = Ev.limit
    /\ last' = [k \in Names |-> NoEntry]
    /\ dead' = [k \in Names |-> FALSE]
    /\ present' = {} /\ order' = <<>> /\ res' = [NoRes EXCEPT !.op = "reset"] /\ nv' = 0
    /\ pressure' = FALSE /\ memsize' = 0

TPressure == Is("Pressure") /\ pressure' = TRUE /\ memsize' = Get(Ev, "mem", 0) /\ UNCHANGED vars

\* Search heuristic, not a judgement: with VERIF_STRICT set in the environment only those victim sets are tried whose
\* expired members are taken in deadline order (what the timeout index of the code does).  A trace rejected in this mode
\* is validated again without it (any expired victim is legal) before anything is reported - see checks/C08.py.
StrictExpired == "VERIF_STRICT" \in DOMAIN IOEnv
PrefixOK(P0) ==
    LET gone == P0 \ present'
    IN \A e \in gone : (last[e].dl < now) => (\A j \in P0 : (last[j].dl < last[e].dl) => j \in gone)

\* A store may be dropped / clear the cache only if its value is big: the make-room loop of the code guarantees a free
\* chunk of segment/10 before the entry is linked, so a value below segment/40 always fits (DESIGN 9.2).  Traces without
\* sizes (thread-shared cache) never use the pressure actions.
MayDrop == ~(Has(Ev, "size") /\ memsize > 0) \/ Ev.size * 40 > memsize

TStore ==
    /\ Is("Store")
    /\ IF pressure THEN StoreUnderPressure(Ev.k, Ev.v, SeqToSet(Ev.ts), Ev.dl, MayDrop)
                   ELSE Store(Ev.k, Ev.v, SeqToSet(Ev.ts), Ev.dl)
    /\ nv' = nv /\ pressure' = pressure /\ memsize' = memsize
    /\ StatsOK
    /\ (StrictExpired => PrefixOK(present \ {Ev.k}))

TFetch ==
    /\ Is("Fetch")
    /\ Fetch(Ev.k)
    /\ res'.hit = Ev.hit
    /\ Ev.hit => /\ res'.v = Ev.v
                 /\ res'.ts = SeqToSet(Ev.ts)
                 /\ res'.dl = Ev.dl
                 /\ ~Ev.bad
    /\ StatsOK /\ pressure' = pressure /\ memsize' = memsize

TRise   == Is("Rise")   /\ Rise(Ev.t)   /\ StatsOK /\ pressure' = pressure /\ memsize' = memsize
TRemove == Is("Remove") /\ Remove(Ev.k) /\ StatsOK /\ pressure' = pressure /\ memsize' = memsize
TClear  == Is("Clear")  /\ Clear        /\ StatsOK /\ pressure' = pressure /\ memsize' = memsize
TTick   == Is("Tick")   /\ Tick(Ev.d) /\ nv' = nv /\ StatsOK /\ pressure' = pressure /\ memsize' = memsize

TraceInit == Init /\ l = 1 /\ pressure = FALSE /\ memsize = 0
TraceNext == TReset \/ TPressure \/ TStore \/ TFetch \/ TRise \/ TRemove \/ TClear \/ TTick
TraceSpec == TraceInit /\ [][TraceNext]_tvars
=============================================================================
