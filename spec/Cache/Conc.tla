-------------------------------- MODULE Conc --------------------------------
(***************************************************************************)
(* C09 - concurrent use of the thread-shared cache.                        *)
(* Threads run cache operations as small programs at the granularity of    *)
(* the locking steps in src/cache_storage.cpp:                             *)
(*   fetch   : Invoke, AcquireRd, Find, [AcquireLru, LruUpdate, ReleaseLru, *)
(*             Copy], ReleaseRd, Return                                     *)
(*   mutator : Invoke, AcquireWr, Apply, ReleaseWr, Return                  *)
(* The shared mutex admits many readers or one writer; the LRU list is      *)
(* protected by its own mutex taken inside the read lock.  The abstract     *)
(* sequential cache (Cache.tla) is advanced at exactly one step of every    *)
(* operation (its linearization point, inside the lock); TLC checks that    *)
(* what each call returns is what was computed there (Lin), that the lock   *)
(* discipline excludes conflicting access (Excl), that no value is torn or  *)
(* foreign (NoTorn) and - under weak fairness - that every operation        *)
(* completes.  Constants name seeded design bugs used to show the checks    *)
(* are not vacuous.                                                         *)
(***************************************************************************)
EXTENDS Cache

CONSTANTS Threads, OpsPerThread,
          BugCopyAfterUnlock,   \* fetch copies the value after releasing the read lock
          BugNoLruMutex,        \* the LRU list is updated without its mutex (two-step update)
          BugReadLockRemove     \* remove takes only the read lock

VARIABLES pc, cur, done, rd, wr, lruOwner, linres, retres, lruMid

cvars == <<pc, cur, done, rd, wr, lruOwner, linres, retres, lruMid>>
allvars == <<vars, cvars>>

NoOp == [op |-> "none", k |-> 0, ts |-> {}, dl |-> 0]
Ops == [op : {"fetch"}, k : Names, ts : {{}}, dl : {0}]
       \cup [op : {"store"}, k : Names, ts : TrigSets, dl : Deadlines]
       \cup [op : {"rise", "remove"}, k : Names, ts : {{}}, dl : {0}]
       \cup [op : {"clear"}, k : {0}, ts : {{}}, dl : {0}]

CInit ==
    /\ Init
    /\ pc = [t \in Threads |-> "idle"]
    /\ cur = [t \in Threads |-> NoOp]
    /\ done = [t \in Threads |-> 0]
    /\ rd = {} /\ wr = 0 /\ lruOwner = 0
    /\ linres = [t \in Threads |-> NoRes]
    /\ retres = [t \in Threads |-> NoRes]
    /\ lruMid = 0

Same == UNCHANGED vars
SetPc(t, p) == pc' = [pc EXCEPT ![t] = p]

Invoke(t) ==
    /\ pc[t] = "idle" /\ done[t] < OpsPerThread
    /\ \E o \in Ops : cur' = [cur EXCEPT ![t] = o]
    /\ SetPc(t, "inv")
    /\ linres' = [linres EXCEPT ![t] = NoRes] /\ retres' = [retres EXCEPT ![t] = NoRes]
    /\ Same /\ UNCHANGED <<done, rd, wr, lruOwner, lruMid>>

IsReader(o) == o.op = "fetch" \/ (BugReadLockRemove /\ o.op = "remove")

AcquireRd(t) ==
    /\ pc[t] = "inv" /\ IsReader(cur[t]) /\ wr = 0
    /\ rd' = rd \cup {t} /\ SetPc(t, "rdheld")
    /\ Same /\ UNCHANGED <<cur, done, wr, lruOwner, linres, retres, lruMid>>

AcquireWr(t) ==
    /\ pc[t] = "inv" /\ ~IsReader(cur[t]) /\ wr = 0 /\ rd = {}
    /\ wr' = t /\ SetPc(t, "wrheld")
    /\ Same /\ UNCHANGED <<cur, done, rd, lruOwner, linres, retres, lruMid>>

(* fetch, miss: linearizes at the lookup *)
FindMiss(t) ==
    /\ pc[t] = "rdheld" /\ cur[t].op = "fetch"
    /\ ~(cur[t].k \in present /\ last[cur[t].k].dl >= now)
    /\ Fetch(cur[t].k) /\ nv' = nv
    /\ linres' = [linres EXCEPT ![t] = res'] /\ retres' = [retres EXCEPT ![t] = res']
    /\ SetPc(t, "copied")
    /\ UNCHANGED <<cur, done, rd, wr, lruOwner, lruMid>>

FindHit(t) ==
    /\ pc[t] = "rdheld" /\ cur[t].op = "fetch"
    /\ cur[t].k \in present /\ last[cur[t].k].dl >= now
    /\ SetPc(t, "found")
    /\ Same /\ UNCHANGED <<cur, done, rd, wr, lruOwner, linres, retres, lruMid>>

AcquireLru(t) ==
    /\ pc[t] = "found" /\ (BugNoLruMutex \/ lruOwner = 0)
    /\ lruOwner' = IF BugNoLruMutex THEN lruOwner ELSE t
    /\ SetPc(t, "lruheld")
    /\ Same /\ UNCHANGED <<cur, done, rd, wr, linres, retres, lruMid>>

(* the list update is erase + push_front: two pointer-level steps; lruMid names the thread that
   has erased its node but not yet re-inserted it *)
LruErase(t) ==
    /\ pc[t] = "lruheld"
    /\ lruMid' = t
    /\ SetPc(t, "lruerased")
    /\ Same /\ UNCHANGED <<cur, done, rd, wr, lruOwner, linres, retres>>

LruPush(t) ==
    /\ pc[t] = "lruerased"
    /\ Fetch(cur[t].k) /\ nv' = nv                 \* linearization point of a hit
    /\ linres' = [linres EXCEPT ![t] = res']
    /\ lruMid' = IF lruMid = t THEN 0 ELSE lruMid
    /\ SetPc(t, "lrudone")
    /\ UNCHANGED <<cur, done, rd, wr, lruOwner, retres>>

ReleaseLru(t) ==
    /\ pc[t] = "lrudone"
    /\ lruOwner' = IF lruOwner = t THEN 0 ELSE lruOwner
    /\ SetPc(t, IF BugCopyAfterUnlock THEN "copied" ELSE "tocopy")
    /\ Same /\ UNCHANGED <<cur, done, rd, wr, linres, retres, lruMid>>

ReadNow(k) ==   \* what a copy of the entry taken *now* yields
    IF k \in present
    THEN [op |-> "fetch", k |-> k, hit |-> TRUE, v |-> last[k].v, ts |-> last[k].ts, dl |-> last[k].dl]
    ELSE [op |-> "fetch", k |-> k, hit |-> TRUE, v |-> -1, ts |-> {}, dl |-> 0]     \* dangling: torn value

Copy(t) ==
    /\ pc[t] = "tocopy" /\ t \in rd
    /\ retres' = [retres EXCEPT ![t] = ReadNow(cur[t].k)]
    /\ SetPc(t, "copied")
    /\ Same /\ UNCHANGED <<cur, done, rd, wr, lruOwner, linres, lruMid>>

ReleaseRd(t) ==
    /\ pc[t] = "copied" /\ t \in rd
    /\ rd' = rd \ {t}
    /\ SetPc(t, IF BugCopyAfterUnlock /\ linres[t].hit THEN "latecopy" ELSE "ret")
    /\ Same /\ UNCHANGED <<cur, done, wr, lruOwner, linres, retres, lruMid>>

LateCopy(t) ==
    /\ pc[t] = "latecopy"
    /\ retres' = [retres EXCEPT ![t] = ReadNow(cur[t].k)]
    /\ SetPc(t, "ret")
    /\ Same /\ UNCHANGED <<cur, done, rd, wr, lruOwner, linres, lruMid>>

(* remove under the read lock only (seeded bug) *)
BugRemove(t) ==
    /\ pc[t] = "rdheld" /\ cur[t].op = "remove"
    /\ Remove(cur[t].k)
    /\ linres' = [linres EXCEPT ![t] = res'] /\ retres' = [retres EXCEPT ![t] = res']
    /\ SetPc(t, "copied")
    /\ UNCHANGED <<cur, done, rd, wr, lruOwner, lruMid>>

Apply(t) ==
    /\ pc[t] = "wrheld"
    /\ LET o == cur[t] IN
         \/ (o.op = "store" /\ nv' = nv + 1 /\ Store(o.k, nv + 1, o.ts, o.dl))
         \/ (o.op = "rise" /\ Rise(o.k))
         \/ (o.op = "remove" /\ Remove(o.k))
         \/ (o.op = "clear" /\ Clear)
    /\ linres' = [linres EXCEPT ![t] = res'] /\ retres' = [retres EXCEPT ![t] = res']
    /\ SetPc(t, "applied")
    /\ UNCHANGED <<cur, done, rd, wr, lruOwner, lruMid>>

ReleaseWr(t) ==
    /\ pc[t] = "applied" /\ wr' = 0 /\ SetPc(t, "ret")
    /\ Same /\ UNCHANGED <<cur, done, rd, lruOwner, linres, retres, lruMid>>

Return(t) ==
    /\ pc[t] = "ret"
    /\ done' = [done EXCEPT ![t] = @ + 1]
    /\ SetPc(t, "idle")
    /\ Same /\ UNCHANGED <<cur, rd, wr, lruOwner, linres, retres, lruMid>>

Step(t) == \/ Invoke(t) \/ AcquireRd(t) \/ AcquireWr(t) \/ FindMiss(t) \/ FindHit(t)
           \/ AcquireLru(t) \/ LruErase(t) \/ LruPush(t) \/ ReleaseLru(t) \/ Copy(t)
           \/ ReleaseRd(t) \/ LateCopy(t) \/ BugRemove(t) \/ Apply(t) \/ ReleaseWr(t) \/ Return(t)

CNext == \E t \in Threads : Step(t)
CSpec == CInit /\ [][CNext]_allvars
CFair == CSpec /\ \A t \in Threads : WF_allvars(Step(t))

CBounded == nv <= MaxStores

---------------------------------------------------------------------------
Excl ==
    /\ (wr # 0 => rd = {})
    /\ \A t \in Threads : pc[t] \in {"lruheld", "lruerased", "lrudone"} => (BugNoLruMutex \/ lruOwner = t)

(* the LRU list is never touched by two threads at once: while one thread is between erase
   and push_front no other thread is inside the update *)
LruWellFormed ==
    \A t, u \in Threads : (t # u /\ pc[t] = "lruerased") => pc[u] \notin {"lruerased"}

(* mutation only under the exclusive lock *)
MutExcl == \A t \in Threads : (pc[t] = "applied") => (wr = t /\ rd = {})

(* linearizability: the value handed back is the one computed at the linearization point *)
Lin == \A t \in Threads : pc[t] = "ret" => retres[t] = linres[t]

NoTorn == \A t \in Threads : (pc[t] = "ret" /\ retres[t].op = "fetch" /\ retres[t].hit) => retres[t].v # -1

(* the sequential properties hold at every linearization point *)
SeqOK == NeverStale /\ HeldNotDead /\ Bound /\ OrderInv

AllDone == \A t \in Threads : pc[t] = "idle" /\ done[t] = OpsPerThread
Termination == <>AllDone
NoDeadlock == (\A t \in Threads : ~ENABLED Step(t)) => AllDone
=============================================================================
