SPECIFICATION Spec
CONSTANTS
  Keys = {0,1,2,3,4,5,6}
  Vals = {1}
  MaxNB = 4
  Fault = "none"
INVARIANTS TypeOK IterExact BucketInv FindCorrect ResultOK LoadBounded
