SPECIFICATION FSpec
CONSTANTS Names = {1,2} Pages = {11} Recs = {21,22} MaxV = 3
CONSTRAINT FBounded
INVARIANTS Dep MechanismMatchesHistory
