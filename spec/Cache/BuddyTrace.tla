---------------------------- MODULE BuddyTrace ----------------------------
(* Leg B for the allocator: malloc/free calls on the real buddy_allocator     *)
(* (offsets relative to its arena) must be a behaviour of Buddy.tla: a block  *)
(* handed out is a free block of the smallest sufficient order starting at    *)
(* that offset, a refusal happens only when no free block is large enough,    *)
(* and freeing everything restores the initial free lists (Refill).           *)
EXTENDS Buddy, TraceBase

VARIABLES l, size
tvars == <<bvars, l, size>>
Ev == TraceLog[l]
Is(name) == l <= NLines /\ Ev.e = name /\ l' = l + 1

RECURSIVE ChunksT(_, _, _)
ChunksT(off, rem, b) ==
    IF b < MinBits THEN {}
    ELSE IF Pow(b) <= rem THEN {[off |-> off, bits |-> b, free |-> TRUE]} \cup ChunksT(off + Pow(b), rem - Pow(b), b - 1)
         ELSE ChunksT(off, rem, b - 1)

BitsFor(req) == LET n == ((req + 15) \div 16 + 1) * 16
                IN CHOOSE b \in 0..30 : Pow(b) >= n /\ (b = 0 \/ Pow(b - 1) < n)

TReset == /\ Is("Reset") /\ Ev.size = Size
          /\ blocks' = Initial /\ lastop' = "init" /\ size' = Ev.size
TAlloc == /\ Is("Alloc")
          /\ IF Ev.ok THEN Alloc(BitsFor(Ev.req), Ev.off) ELSE AllocFails(BitsFor(Ev.req))
          /\ UNCHANGED size
TFree  == Is("Free") /\ Free(Ev.off) /\ UNCHANGED size
RECURSIVE FreeBytes(_)
FreeBytes(S) == IF S = {} THEN 0 ELSE LET x == CHOOSE y \in S : TRUE IN (IF x.free THEN Pow(x.bits) - 16 ELSE 0) + FreeBytes(S \ {x})
TStat  == /\ Is("Stat")
          /\ Ev.total = FreeBytes(blocks)
          /\ UNCHANGED <<bvars, size>>

TraceInit == BInit /\ l = 1 /\ size = 0
TraceNext == TReset \/ TAlloc \/ TFree \/ TStat
TraceSpec == TraceInit /\ [][TraceNext]_tvars
=============================================================================
