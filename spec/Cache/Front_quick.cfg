SPECIFICATION FSpec
CONSTANTS Names = {1,2} Pages = {11} Recs = {21,22} MaxV = 2
CONSTRAINT FBounded
INVARIANTS Dep MechanismMatchesHistory
