SPECIFICATION HookSpec
CONSTANTS
  Clients = {0,1,2}
  L1Confs = {{}}
  NSrvs = {3}
  Keys = {1,2,3,4,5,6}
  Trigs = {17,18,19,20}
  RiseNames = {}
  TrigSets = {{}}
  Deadlines = {0}
  MaxNow = 0
  MaxOps = 0
  MaxTotal = 0
  OpKinds = {}
  EvictL1 = FALSE
  Restarts = 0
  Mut = "none"
  Strict = TRUE
INVARIANTS TypeOK GenUnique Placement
POSTCONDITION TraceDone
CHECK_DEADLOCK FALSE
