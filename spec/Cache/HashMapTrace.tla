--------------------------- MODULE HashMapTrace ---------------------------
(* Leg B for G07: every call the driver (harness/cache/hashmap_drv.cpp) makes   *)
(* on the real cppcms::impl::hash_map<int,int,identity_hash> is one event with  *)
(* its arguments, its result and the iteration order (begin..end) afterwards:   *)
(*   Ins{k,v,ok,cur,ord}  Find{k,found,v}  Erase{k,next,ord}  Clear{ord}        *)
(*   Rehash{n,ord}                                                              *)
(* The event must be the step the mechanism model HashMap.tla takes: same       *)
(* result (which ResultOK ties to the abstract map), same population, and -     *)
(* with STRICT=1 - the very same list order (bucket segments threaded exactly   *)
(* as coded); with STRICT=0 only the population is compared, which is the       *)
(* property layer (a finite map whose iteration yields each key once).  The     *)
(* invariants of HashMap.tla are evaluated in every state of the replay.        *)
EXTENDS HashMap, TraceBase
VARIABLES l, po                    \* po: the iteration order the driver observed after the previous call
tvars == <<vars, l, po>>
Ev == TraceLog[l]
Is(name) == l <= NLines /\ Ev.e = name /\ l' = l + 1
Strict == IOEnv.STRICT = "1"
OrdOK(o, s) == IF Strict THEN o = s ELSE Len(o) = Len(s) /\ SeqToSet(o) = SetOf(s)

TReset == Is("Reset") /\ list' = <<>> /\ nb' = 0 /\ rng' = <<>> /\ val' = <<>> /\ res' = [op |-> "init"] /\ po' = <<>>
TIns == /\ Is("Ins") /\ Insert(Ev.k, Ev.v)
        /\ res'.got = <<Ev.ok, Ev.cur>> /\ OrdOK(Ev.ord, list') /\ po' = Ev.ord
TFind == /\ Is("Find") /\ Find(Ev.k)
         /\ res'.got = <<Ev.found, Ev.v>> /\ po' = po
\* erase(iterator) returns the iterator that followed the erased node: in the mechanism layer the model's successor,
\* in the property layer the successor in the order the driver saw before the call (whatever that order was)
TErase == /\ Is("Erase") /\ Erase(Ev.k)
          /\ (IF Strict THEN res'.got = Ev.next ELSE Ev.k \in SetOf(po) /\ Ev.next = NextOf(po, Ev.k))
          /\ OrdOK(Ev.ord, list') /\ po' = Ev.ord
TClear == Is("Clear") /\ Clear /\ Ev.ord = <<>> /\ po' = <<>>
TRehash == Is("Rehash") /\ Rehash(Ev.n) /\ OrdOK(Ev.ord, list') /\ po' = Ev.ord

TraceSpec == (Init /\ l = 1 /\ po = <<>>)
             /\ [][TReset \/ TIns \/ TFind \/ TErase \/ TClear \/ TRehash]_tvars
=============================================================================
