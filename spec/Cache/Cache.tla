------------------------------- MODULE Cache -------------------------------
(***************************************************************************)
(* Property layer of the cppcms in-memory cache (C07, C08).                *)
(*                                                                         *)
(* Abstract state: per name k the most recent store (last[k]) and whether  *)
(* it has been invalidated since (dead[k]) - both pure *history* variables *)
(* whose update rules are the wording of C07 - plus the set of entries the *)
(* cache still holds (present) and their recency order (order), which is   *)
(* what the limit / eviction rule of C08 talks about.  Keys and triggers   *)
(* share one name space (a key is always its own trigger; rise(k) with a   *)
(* key name is legal).                                                     *)
(*                                                                         *)
(* The layer is non-deterministic exactly where the property is silent:    *)
(* which of several *expired* entries is evicted.                          *)
(***************************************************************************)
EXTENDS Integers, Sequences, FiniteSets

CONSTANTS Names,        \* finite set of integers: key / trigger names
          Limits,       \* set of limits explored by Init (0 = unlimited)
          Deadlines,    \* deadlines offered to Store, relative like `now'
          TrigSets,     \* trigger sets offered to Store (subsets of Names)
          MaxNow,       \* clock bound (state constraint)
          MaxStores,    \* bound on value ids (state constraint)
          Shared        \* TRUE: process-shared back-end under memory pressure - Next also takes the named deviations

VARIABLES now, limit, last, dead, present, order, res, nv

vars == <<now, limit, last, dead, present, order, res, nv>>

NoEntry == [has |-> FALSE, v |-> 0, ts |-> {}, dl |-> 0]
NoRes   == [op |-> "none", k |-> 0, hit |-> FALSE, v |-> 0, ts |-> {}, dl |-> 0]

Without(s, k) == SelectSeq(s, LAMBDA x : x # k)
SeqSet(s) == { s[i] : i \in DOMAIN s }

RECURSIVE SumTrig(_)
SumTrig(S) == IF S = {} THEN 0
              ELSE LET k == CHOOSE x \in S : TRUE
                   IN Cardinality(last[k].ts) + SumTrig(S \ {k})

StatKeys  == Cardinality(present)
StatTrigs == SumTrig(present)

Init ==
    /\ now = 0
    /\ limit \in Limits
    /\ last = [k \in Names |-> NoEntry]
    /\ dead = [k \in Names |-> FALSE]
    /\ present = {}
    /\ order = <<>>
    /\ res = NoRes
    /\ nv = 0

ExpiredIn(P) == { k \in P : last[k].dl < now }

(* Room is made *before* inserting: while the cache is full, drop an expired   *)
(* entry if there is one (any - ties are free at this layer), otherwise the    *)
(* least recently used one.  Returns the set of possible <<present, order>>.   *)
RECURSIVE Evictions(_, _)
Evictions(P, O) ==
    IF limit = 0 \/ Cardinality(P) < limit THEN { <<P, O>> }
    ELSE IF ExpiredIn(P) # {}
         THEN UNION { Evictions(P \ {k}, Without(O, k)) : k \in ExpiredIn(P) }
         ELSE LET k == O[Len(O)] IN Evictions(P \ {k}, Without(O, k))

Store(k, v, ts, dl) ==
    LET P0 == present \ {k}
        O0 == Without(order, k)
    IN \E po \in Evictions(P0, O0) :
        /\ present' = po[1] \cup {k}
        /\ order' = <<k>> \o po[2]
        /\ last' = [last EXCEPT ![k] = [has |-> TRUE, v |-> v, ts |-> ts \cup {k}, dl |-> dl]]
        /\ dead' = [j \in Names |-> IF j = k THEN FALSE
                                     ELSE IF j \in P0 \ po[1] THEN TRUE ELSE dead[j]]
        /\ res' = [NoRes EXCEPT !.op = "store", !.k = k]
        /\ UNCHANGED <<now, limit>>

(* Shared-memory deviations, named (DESIGN.md 3/C08): while memory is short a store keeps evicting beyond what  *)
(* the limit requires - each further victim still chosen by the rule (an expired entry first, else the least    *)
(* recently used) -, a value that cannot be allocated is dropped (the key's old entry is gone), and an          *)
(* allocation failure inside the critical section empties the cache.                                            *)
\* every <<present, order>> reachable by further evictions: any subset of the expired entries (while expired entries exist
\* any of them may be the next victim), and once ALL expired ones are gone the least recently used ones, from the tail.
\* (Written without recursion: enumerating eviction ORDERS is factorial in the number of expired entries.)
WithoutSet(O, S) == LET Keep(x) == x \notin S IN SelectSeq(O, Keep)
EvictMore(P, O) ==
    LET E  == ExpiredIn(P)
        A  == { <<P \ S, WithoutSet(O, S)>> : S \in SUBSET E }
        O1 == WithoutSet(O, E)
        B  == { << {O1[i] : i \in 1..(Len(O1) - n)}, SubSeq(O1, 1, Len(O1) - n) >> : n \in 1..Len(O1) }
    IN { po \in A \cup B : limit = 0 \/ Cardinality(po[1]) < limit }

\* mayDrop: the value is big enough for its allocation to fail although room was made (the trace spec binds it to the logged
\* value size: a value below 1/40 of the segment always fits after the make-room loop guaranteed a free chunk of 1/10)
StoreUnderPressure(k, v, ts, dl, mayDrop) ==
    LET P0 == present \ {k}
        O0 == Without(order, k)
        newlast == [last EXCEPT ![k] = [has |-> TRUE, v |-> v, ts |-> ts \cup {k}, dl |-> dl]]
    IN /\ last' = newlast
       /\ res' = [NoRes EXCEPT !.op = "store", !.k = k]
       /\ UNCHANGED <<now, limit>>
       /\ \/ \E po \in EvictMore(P0, O0) :                       \* stored, possibly after extra evictions
                /\ present' = po[1] \cup {k} /\ order' = <<k>> \o po[2]
                /\ dead' = [j \in Names |-> IF j = k THEN FALSE ELSE IF j \in P0 \ po[1] THEN TRUE ELSE dead[j]]
          \/ /\ mayDrop
             /\ present' = P0 /\ order' = O0                       \* StoreDropped
             /\ dead' = [dead EXCEPT ![k] = TRUE]
          \/ \E po \in EvictMore(P0, O0) :                       \* evictions first, then the value still did not fit
                /\ mayDrop
                /\ present' = po[1] /\ order' = po[2]
                /\ dead' = [j \in Names |-> IF j = k \/ j \in P0 \ po[1] THEN TRUE ELSE dead[j]]
          \/ /\ mayDrop
             /\ present' = {} /\ order' = <<>>                     \* StoreClearedAll
             /\ dead' = [j \in Names |-> TRUE]

Fetch(k) ==
    /\ IF k \in present /\ last[k].dl >= now
       THEN /\ res' = [op |-> "fetch", k |-> k, hit |-> TRUE, v |-> last[k].v,
                       ts |-> last[k].ts, dl |-> last[k].dl]
            /\ order' = <<k>> \o Without(order, k)
       ELSE /\ res' = [NoRes EXCEPT !.op = "fetch", !.k = k]
            /\ order' = order
    /\ UNCHANGED <<now, limit, last, dead, present, nv>>

Rise(t) ==
    /\ dead' = [j \in Names |-> dead[j] \/ (last[j].has /\ t \in last[j].ts)]
    /\ present' = { j \in present : t \notin last[j].ts }
    /\ order' = SelectSeq(order, LAMBDA j : t \notin last[j].ts)
    /\ res' = [NoRes EXCEPT !.op = "rise", !.k = t]
    /\ UNCHANGED <<now, limit, last, nv>>

Remove(k) ==
    /\ dead' = [dead EXCEPT ![k] = TRUE]
    /\ present' = present \ {k}
    /\ order' = Without(order, k)
    /\ res' = [NoRes EXCEPT !.op = "remove", !.k = k]
    /\ UNCHANGED <<now, limit, last, nv>>

Clear ==
    /\ dead' = [j \in Names |-> TRUE]
    /\ present' = {}
    /\ order' = <<>>
    /\ res' = [NoRes EXCEPT !.op = "clear"]
    /\ UNCHANGED <<now, limit, last, nv>>

Tick(d) ==
    /\ now' = now + d
    /\ res' = NoRes
    /\ UNCHANGED <<limit, last, dead, present, order, nv>>

Next ==
    \/ \E k \in Names, ts \in TrigSets, dl \in Deadlines :
          /\ nv' = nv + 1
          /\ Store(k, nv + 1, ts, dl)
    \/ (Shared /\ \E k \in Names, ts \in TrigSets, dl \in Deadlines :
          /\ nv' = nv + 1
          /\ \E md \in BOOLEAN : StoreUnderPressure(k, nv + 1, ts, dl, md))
    \/ \E k \in Names : Fetch(k)
    \/ \E t \in Names : Rise(t)
    \/ \E k \in Names : Remove(k)
    \/ Clear
    \/ (Tick(1) /\ UNCHANGED nv)

Spec == Init /\ [][Next]_vars

Bounded == now <= MaxNow /\ nv <= MaxStores

---------------------------------------------------------------------------
(* C07 *)
NeverStale ==
    (res.op = "fetch" /\ res.hit) =>
        /\ last[res.k].has
        /\ ~dead[res.k]
        /\ last[res.k].dl >= now
        /\ res.v = last[res.k].v /\ res.ts = last[res.k].ts /\ res.dl = last[res.k].dl
        /\ res.k \in res.ts

LiveIsFound ==     \* "when no size limit is in play a live entry is always found"
    (res.op = "fetch" /\ ~res.hit /\ limit = 0) =>
        (~last[res.k].has \/ dead[res.k] \/ last[res.k].dl < now)

HeldNotDead == \A k \in present : last[k].has /\ ~dead[k]

NoLimitKeepsAll == limit = 0 => present = { k \in Names : last[k].has /\ ~dead[k] }

(* C08 *)
Bound == limit > 0 => Cardinality(present) <= limit

OrderInv == /\ SeqSet(order) = present
            /\ Len(order) = Cardinality(present)

(* Eviction rule as an action property, stated independently of Evictions():  *)
(* a store drops, besides the old entry of its own key, at most one entry,    *)
(* only when the cache is full, and that entry is expired - or nothing held   *)
(* is expired and it is the least recently used.                              *)
EvictRule ==
    [][ res'.op = "store" =>
          LET k  == res'.k
              P0 == present \ {k}
              O0 == Without(order, k)
              V  == P0 \ present'
          IN /\ Cardinality(V) <= 1
             /\ V # {} => /\ limit > 0 /\ Cardinality(P0) >= limit
             /\ \A j \in V : \/ last[j].dl < now
                              \/ (ExpiredIn(P0) = {} /\ j = O0[Len(O0)])
             /\ (limit > 0 /\ Cardinality(P0) >= limit) => V # {}
      ]_vars

(* generalisation of EvictRule to several victims in one store (memory pressure): every expired entry goes  *)
(* before any live one, and the live victims are the least recently used ones, in order.                    *)
LiveTail(O, m) == { O[i] : i \in (Len(O) - m + 1)..Len(O) }
EvictOrder ==
    [][ res'.op = "store" =>
          LET k  == res'.k
              P0 == present \ {k}
              O0 == Without(order, k)
              V  == P0 \ (present' \ {k})
              VL == { j \in V : ~(last[j].dl < now) }
              OL == SelectSeq(O0, LAMBDA j : ~(last[j].dl < now))
          IN /\ (VL # {} => ExpiredIn(P0) \subseteq V)
             /\ VL = LiveTail(OL, Cardinality(VL))
      ]_vars

OnlyStoreEvicts ==
    [][ res'.op \in {"fetch", "none"} => present' = present ]_vars
=============================================================================
