SPECIFICATION Spec
CONSTANTS
  Names = {1,2,3}
  Limits = {0,1,2}
  Deadlines = {0,2}
  TrigSets = {{},{3},{2,3}}
  MaxNow = 2
  MaxStores = 3
  Shared = FALSE
CONSTRAINT Bounded
INVARIANTS NeverStale LiveIsFound HeldNotDead NoLimitKeepsAll Bound OrderInv
PROPERTIES EvictRule OnlyStoreEvicts
