--------------------------- MODULE NetHookTrace ---------------------------
(* Leg B for C10, threaded driver (netcache_drv thr): 2-3 client threads     *)
(* run concurrently; every line is ONE atomic step of Net.tla, ordered by    *)
(* the global sequence number of booster/verif_trace.h:                      *)
(*   Inv / Ret   - emitted by the client thread around the call              *)
(*   L1{c,...}   - the Lin event of cache_storage.cpp inside client c's L1   *)
(*                 object (under that cache's lock)                          *)
(*   Srv{s,...}  - the Lin event inside server s's backing cache (under its  *)
(*                 lock): the server step of *some* client whose request is  *)
(*                 outstanding there - TLC picks any that fits               *)
(* (lib/netcache.py attributes Lin events to cache objects through the       *)
(* enclosing Lock/Unlock events and the Obj lines of the harness).           *)
(* Accepted iff the sequence is a behaviour of Net: each fetch has one       *)
(* server step, returns what that step yields, L1 steps are the ones Net     *)
(* prescribes (Strict), generations strictly increase.                       *)
EXTENDS NetTrace

OpOf == [op |-> Ev.op, k |-> Ev.k, v |-> Get(Ev, "v", 0),
         ts |-> SeqToSet(Get(Ev, "ts", <<>>)), dl |-> Get(Ev, "dl", 0)]

HReset ==
    /\ TReset

HInv ==
    /\ Is("Inv")
    /\ pc[Ev.c].st = "idle"
    /\ Set(BeginF(S, Ev.c, OpOf))
    /\ UNCHANGED <<maxg, lim>>

\* the L1 event the next step of c must produce
L1Lookup(c, p) ==
    /\ p.st = "l1"
    /\ \/ /\ p.op = "fetch" /\ Ev.op = "fetch" /\ Ev.k = p.k
          /\ Ev.hit = Live(l1[c][p.k], now)
          /\ Ev.hit => Ev.g = l1[c][p.k].gen
       \/ (p.op = "store" /\ Ev.op = "remove" /\ Ev.k = p.k)
       \/ (p.op = "rise" /\ Ev.op = "rise" /\ Ev.k = p.k)
       \/ (p.op = "clear" /\ Ev.op = "clear")
    /\ Set(L1F(S, c))

L1Update(c, p) ==
    /\ p.st = "upd"
    /\ \/ (p.rep = "data" /\ Ev.op = "store" /\ Ev.k = p.k /\ Ev.g = p.res.gen)
       \/ (p.rep = "no_data" /\ Ev.op = "remove" /\ Ev.k = p.k)
    /\ Set(UpdF(S, c))

HL1 ==
    /\ Is("L1")
    /\ IF Strict
       THEN L1Lookup(Ev.c, pc[Ev.c]) \/ L1Update(Ev.c, pc[Ev.c])
       ELSE UNCHANGED vars
    /\ UNCHANGED <<maxg, lim>>

HSrv ==
    /\ Is("Srv")
    /\ \E c \in Clients :
          LET p == pc[c]
              s == Ev.s
              T == SrvF(S, c, s)
              q == T.pc[c]
          IN /\ p.st = "rpc" /\ s \in p.rem /\ p.op = Ev.op
             /\ Ev.op # "clear" => Ev.k = p.k
             /\ \/ /\ Ev.op = "fetch"
                   /\ Ev.hit = q.wit.has
                   /\ (Strict /\ Ev.hit) => Ev.g = q.wit.gen
                   /\ maxg' = maxg
                   /\ \/ Set(T)
                      \/ /\ q.rep = "data" /\ p.cond /\ ~(p.l1e.ts \subseteq q.res.ts)   \* F6 branch, see HRet
                         /\ Set([T EXCEPT !.pc[c].res.ts = q.res.ts \cup p.l1e.ts])
                \/ /\ Ev.op = "store"
                   /\ Ev.g > maxg[s]
                   /\ Strict => Ev.g = genc[s]
                   /\ maxg' = [maxg EXCEPT ![s] = Ev.g]
                   /\ Set(T)
                \/ /\ Ev.op \in {"rise", "clear"}
                   /\ maxg' = maxg
                   /\ Set(T)
    /\ lim' = lim

HRet ==
    /\ Is("Ret")
    /\ LET c == Ev.c
           p == pc[c]
       IN /\ p.st = "ret" /\ p.op = Ev.op
          /\ p.op = "fetch" => ResultIs(p.res)
          /\ Set(RetF(S, c))
          /\ (p.op = "fetch" /\ p.rep = "data" /\ p.res.ts # p.wit.ts)
                => Deviation("l1-refetch-trigger-union")
    /\ UNCHANGED <<maxg, lim>>

HEnd ==
    /\ Is("End")
    /\ \A c \in Clients : pc[c].st = "idle"
    /\ UNCHANGED <<vars, maxg, lim>>

HookNext == HReset \/ HInv \/ HL1 \/ HSrv \/ HRet \/ HEnd
HookSpec == TraceInit /\ [][HookNext]_tvars
=============================================================================
