----------------------------- MODULE CacheImpl -----------------------------
(***************************************************************************)
(* Mechanism layer of mem_cache<> (src/cache_storage.cpp): the four        *)
(* indexes that describe the same set of entries -                          *)
(*   primary   : key -> container (value, generation)                       *)
(*   trigList  : trigger -> list of keys (push_front on add_trigger)        *)
(*   entTrigs  : per entry, the list of its trigger links (push_back)       *)
(*   timeoutIx : multimap deadline -> key (sorted, equal keys in insertion  *)
(*               order), lru : list of keys, front = most recent            *)
(* plus the counters size / trigCount / generation.  One action per public  *)
(* operation (each is one critical section under the exclusive or shared    *)
(* lock; the locking itself is Conc.tla).  TLC checks IndexInv and that     *)
(* every step refines the property layer Cache.tla.                         *)
(***************************************************************************)
EXTENDS Integers, Sequences, FiniteSets

CONSTANTS Names, Limits, Deadlines, TrigSets, MaxNow, MaxStores

VARIABLES now, limit, last, dead, res, nv,                 \* as in Cache.tla (history / observation)
          primary, trigList, entTrigs, timeoutIx, lru, size, trigCount, generation

hvars == <<now, limit, last, dead, res, nv>>
ivars == <<primary, trigList, entTrigs, timeoutIx, lru, size, trigCount, generation>>
vars  == <<hvars, ivars>>

Absent == [has |-> FALSE, v |-> 0, gen |-> 0, dl |-> 0]
NoEntry == [has |-> FALSE, v |-> 0, ts |-> {}, dl |-> 0]
NoRes   == [op |-> "none", k |-> 0, hit |-> FALSE, v |-> 0, ts |-> {}, dl |-> 0]

Without(s, k) == SelectSeq(s, LAMBDA x : x # k)
SeqSet(s) == { s[i] : i \in DOMAIN s }
Held == { k \in Names : primary[k].has }

\* ascending sequence of a finite set of integers (std::set<std::string> iteration order)
RECURSIVE SortSeq(_)
SortSeq(S) == IF S = {} THEN <<>>
              ELSE LET m == CHOOSE x \in S : \A y \in S : x <= y
                   IN <<m>> \o SortSeq(S \ {m})

\* multimap insert: after all elements with key <= dl
InsertTimeout(ix, dl, k) ==
    LET n == Cardinality({ i \in DOMAIN ix : ix[i][1] <= dl })
    IN SubSeq(ix, 1, n) \o << <<dl, k>> >> \o SubSeq(ix, n + 1, Len(ix))

Init ==
    /\ now = 0 /\ limit \in Limits
    /\ last = [k \in Names |-> NoEntry] /\ dead = [k \in Names |-> FALSE]
    /\ res = NoRes /\ nv = 0
    /\ primary = [k \in Names |-> Absent]
    /\ trigList = [t \in Names |-> <<>>]
    /\ entTrigs = [k \in Names |-> <<>>]
    /\ timeoutIx = <<>> /\ lru = <<>>
    /\ size = 0 /\ trigCount = 0 /\ generation = 0

(* delete_node as a function on a record of the index variables *)
St == [primary |-> primary, trigList |-> trigList, entTrigs |-> entTrigs,
       timeoutIx |-> timeoutIx, lru |-> lru, size |-> size, trigCount |-> trigCount]

DeleteNode(s, k) ==
    [ primary   |-> [s.primary EXCEPT ![k] = Absent],
      trigList  |-> [t \in Names |-> IF t \in SeqSet(s.entTrigs[k]) THEN Without(s.trigList[t], k) ELSE s.trigList[t]],
      entTrigs  |-> [s.entTrigs EXCEPT ![k] = <<>>],
      timeoutIx |-> SelectSeq(s.timeoutIx, LAMBDA e : e[2] # k),
      lru       |-> Without(s.lru, k),
      size      |-> s.size - 1,
      trigCount |-> s.trigCount - Len(s.entTrigs[k]) ]

RECURSIVE DeleteAll(_, _)
DeleteAll(s, ks) == IF ks = <<>> THEN s ELSE DeleteAll(DeleteNode(s, Head(ks)), Tail(ks))

RECURSIVE CheckLimits(_)
CheckLimits(s) ==
    IF s.size > 0 /\ limit > 0 /\ s.size >= limit
    THEN IF s.timeoutIx # <<>> /\ s.timeoutIx[1][1] < now
         THEN CheckLimits(DeleteNode(s, s.timeoutIx[1][2]))
         ELSE IF s.lru # <<>> THEN CheckLimits(DeleteNode(s, s.lru[Len(s.lru)])) ELSE s
    ELSE s

RECURSIVE AddTriggers(_, _, _)
AddTriggers(s, k, ts) ==          \* ts: sequence of trigger names, in add_trigger order
    IF ts = <<>> THEN s
    ELSE LET t == Head(ts)
             s1 == [s EXCEPT !.trigList[t] = <<k>> \o @,
                             !.entTrigs[k] = Append(@, t),
                             !.trigCount = @ + 1]
         IN AddTriggers(s1, k, Tail(ts))

Commit(s) ==
    /\ primary' = s.primary /\ trigList' = s.trigList /\ entTrigs' = s.entTrigs
    /\ timeoutIx' = s.timeoutIx /\ lru' = s.lru /\ size' = s.size /\ trigCount' = s.trigCount

Store(k, v, ts, dl) ==
    LET s0 == IF primary[k].has THEN DeleteNode(St, k) ELSE St
        s1 == CheckLimits(s0)
        s2 == [s1 EXCEPT !.primary[k] = [has |-> TRUE, v |-> v, gen |-> generation, dl |-> dl],
                         !.size = @ + 1,
                         !.lru = <<k>> \o @,
                         !.timeoutIx = InsertTimeout(@, dl, k)]
        order == (IF k \in ts THEN <<>> ELSE <<k>>) \o SortSeq(ts)
        s3 == AddTriggers(s2, k, order)
        evicted == { j \in Names : s0.primary[j].has /\ ~s1.primary[j].has }
    IN /\ Commit(s3)
       /\ generation' = generation + 1
       /\ last' = [last EXCEPT ![k] = [has |-> TRUE, v |-> v, ts |-> ts \cup {k}, dl |-> dl]]
       /\ dead' = [j \in Names |-> IF j = k THEN FALSE ELSE IF j \in evicted THEN TRUE ELSE dead[j]]
       /\ res' = [NoRes EXCEPT !.op = "store", !.k = k]
       /\ UNCHANGED <<now, limit>>

Fetch(k) ==
    /\ IF primary[k].has /\ ~(primary[k].dl < now)
       THEN /\ res' = [op |-> "fetch", k |-> k, hit |-> TRUE, v |-> primary[k].v,
                       ts |-> SeqSet(entTrigs[k]), dl |-> primary[k].dl]
            /\ lru' = <<k>> \o Without(lru, k)
       ELSE /\ res' = [NoRes EXCEPT !.op = "fetch", !.k = k]
            /\ lru' = lru
    /\ UNCHANGED <<now, limit, last, dead, nv, primary, trigList, entTrigs, timeoutIx, size, trigCount, generation>>

Rise(t) ==
    /\ Commit(DeleteAll(St, trigList[t]))        \* kill_list is a copy taken before deleting
    /\ dead' = [j \in Names |-> dead[j] \/ (last[j].has /\ t \in last[j].ts)]
    /\ res' = [NoRes EXCEPT !.op = "rise", !.k = t]
    /\ UNCHANGED <<now, limit, last, nv, generation>>

Remove(k) ==
    /\ Commit(IF primary[k].has THEN DeleteNode(St, k) ELSE St)
    /\ dead' = [dead EXCEPT ![k] = TRUE]
    /\ res' = [NoRes EXCEPT !.op = "remove", !.k = k]
    /\ UNCHANGED <<now, limit, last, nv, generation>>

Clear ==
    /\ primary' = [k \in Names |-> Absent] /\ trigList' = [t \in Names |-> <<>>]
    /\ entTrigs' = [k \in Names |-> <<>>] /\ timeoutIx' = <<>> /\ lru' = <<>>
    /\ size' = 0 /\ trigCount' = 0
    /\ dead' = [j \in Names |-> TRUE]
    /\ res' = [NoRes EXCEPT !.op = "clear"]
    /\ UNCHANGED <<now, limit, last, nv, generation>>       \* generation is NOT reset (C10 relies on it)

Tick(d) == /\ now' = now + d /\ res' = NoRes
           /\ UNCHANGED <<limit, last, dead, nv, ivars>>

Next ==
    \/ \E k \in Names, ts \in TrigSets, dl \in Deadlines : nv' = nv + 1 /\ Store(k, nv + 1, ts, dl)
    \/ \E k \in Names : Fetch(k)
    \/ \E t \in Names : Rise(t)
    \/ \E k \in Names : Remove(k)
    \/ Clear
    \/ (Tick(1) /\ UNCHANGED nv)

Spec == Init /\ [][Next]_vars
Bounded == now <= MaxNow /\ nv <= MaxStores

---------------------------------------------------------------------------
RECURSIVE SumLen(_, _)
SumLen(f, S) == IF S = {} THEN 0 ELSE LET x == CHOOSE y \in S : TRUE IN Len(f[x]) + SumLen(f, S \ {x})
NoDup(s) == \A i, j \in DOMAIN s : i # j => s[i] # s[j]

IndexInv ==
    /\ SeqSet(lru) = Held /\ NoDup(lru) /\ Len(lru) = size /\ size = Cardinality(Held)
    /\ { e[2] : e \in SeqSet(timeoutIx) } = Held /\ Len(timeoutIx) = size
    /\ \A i \in DOMAIN timeoutIx : timeoutIx[i][1] = primary[timeoutIx[i][2]].dl
    /\ \A i, j \in DOMAIN timeoutIx : i < j => timeoutIx[i][1] <= timeoutIx[j][1]
    /\ \A k \in Names : ~primary[k].has => entTrigs[k] = <<>>
    /\ \A k \in Held : NoDup(entTrigs[k]) /\ k \in SeqSet(entTrigs[k])
    /\ \A k \in Held : \A t \in SeqSet(entTrigs[k]) : k \in SeqSet(trigList[t])
    /\ \A t \in Names : NoDup(trigList[t]) /\ \A k \in SeqSet(trigList[t]) : k \in Held /\ t \in SeqSet(entTrigs[k])
    /\ trigCount = SumLen(entTrigs, Names) /\ trigCount = SumLen(trigList, Names)
    /\ \A k \in Held : last[k].has /\ primary[k].v = last[k].v /\ primary[k].dl = last[k].dl
                       /\ SeqSet(entTrigs[k]) = last[k].ts

GenUnique == \A j, k \in Held : j # k => primary[j].gen # primary[k].gen

Abs == INSTANCE Cache WITH present <- Held, order <- lru, Shared <- FALSE
Refines == Abs!Spec
=============================================================================
