------------------------------- MODULE Bytes -------------------------------
(* Byte strings are sequences of 0..255.  Non-recursive helpers (TLC evaluates  *)
(* SelectSeq and function constructors iteratively, so multi-kilobyte strings   *)
(* do not stress the evaluation stack) and the byte-string constants used by    *)
(* the request specifications.                                                  *)
EXTENDS Naturals, Sequences, FiniteSets, TLC

CR == 13  LF == 10  SP == 32  HT == 9  NUL == 0
COLON == 58  COMMA == 44  SEMI == 59  EQ == 61  AMP == 38  QM == 63  PCT == 37  PLUS == 43
DQUOTE == 34  BSLASH == 92  LPAR == 40  RPAR == 41  SLASH == 47  MINUS == 45  USCORE == 95  DOLLAR == 36

S_HTTP_ == <<72,84,84,80,95>>
S_CONTENT_LENGTH == <<67,79,78,84,69,78,84,95,76,69,78,71,84,72>>
S_CONTENT_TYPE == <<67,79,78,84,69,78,84,95,84,89,80,69>>
S_REQUEST_METHOD == <<82,69,81,85,69,83,84,95,77,69,84,72,79,68>>
S_SCRIPT_NAME == <<83,67,82,73,80,84,95,78,65,77,69>>
S_PATH_INFO == <<80,65,84,72,95,73,78,70,79>>
S_QUERY_STRING == <<81,85,69,82,89,95,83,84,82,73,78,71>>
S_SERVER_PROTOCOL == <<83,69,82,86,69,82,95,80,82,79,84,79,67,79,76>>
S_HTTP_COOKIE == <<72,84,84,80,95,67,79,79,75,73,69>>
S_FORM == <<97,112,112,108,105,99,97,116,105,111,110,47,120,45,119,119,119,45,102,111,114,109,45,117,114,108,101,110,99,111,100,101,100>>
S_Content_Type == <<67,111,110,116,101,110,116,45,84,121,112,101>>
S_Content_Length == <<67,111,110,116,101,110,116,45,76,101,110,103,116,104>>
S_Cookie == <<67,111,111,107,105,101>>
S_GET == <<71,69,84>>
S_POST == <<80,79,83,84>>
S_HTTP10 == <<72,84,84,80,47,49,46,48>>
S_HTTP11 == <<72,84,84,80,47,49,46,49>>
S_GATEWAY_INTERFACE == <<71,65,84,69,87,65,89,95,73,78,84,69,82,70,65,67,69>>
S_CGI10 == <<67,71,73,47,49,46,48>>
S_REMOTE_ADDR == <<82,69,77,79,84,69,95,65,68,68,82>>
S_REMOTE_HOST == <<82,69,77,79,84,69,95,72,79,83,84>>
S_SERVER_NAME == <<83,69,82,86,69,82,95,78,65,77,69>>
S_SERVER_PORT == <<83,69,82,86,69,82,95,80,79,82,84>>
S_SERVER_SOFTWARE == <<83,69,82,86,69,82,95,83,79,70,84,87,65,82,69>>
S_LOOPBACK == <<49,50,55,46,48,46,48,46,49>>                  \* "127.0.0.1"

Min(a, b) == IF a < b THEN a ELSE b
Max(a, b) == IF a > b THEN a ELSE b

IsDigit(c) == c \in 48..57
IsHex(c)   == c \in 48..57 \/ c \in 65..70 \/ c \in 97..102
HexVal(c)  == IF c \in 48..57 THEN c - 48 ELSE IF c \in 65..70 THEN c - 55 ELSE c - 87
IsBlank(c) == c = SP \/ c = HT
Upper(c)   == IF c \in 97..122 THEN c - 32 ELSE c
Lower(c)   == IF c \in 65..90 THEN c + 32 ELSE c

Indices(s) == [i \in 1..Len(s) |-> i]
\* ascending positions of s that satisfy P
Where(s, P(_)) == SelectSeq(Indices(s), P)
Map(s, F(_)) == [i \in 1..Len(s) |-> F(s[i])]
Drop(s, n) == SubSeq(s, n + 1, Len(s))
Take(s, n) == SubSeq(s, 1, n)
StartsWith(s, p) == Len(s) >= Len(p) /\ SubSeq(s, 1, Len(p)) = p
MatchAt(s, i, p) == i + Len(p) - 1 <= Len(s) /\ SubSeq(s, i, i + Len(p) - 1) = p
ToSet(s) == { s[i] : i \in DOMAIN s }

\* position of the first occurrence of byte c at or after position from; Len(s)+1 if none
FirstOf(s, c, from) == LET w == Where(s, LAMBDA i : i >= from /\ s[i] = c)
                       IN IF w = <<>> THEN Len(s) + 1 ELSE w[1]
FirstMatch(s, p, from) == LET w == Where(s, LAMBDA i : i >= from /\ MatchAt(s, i, p))
                          IN IF w = <<>> THEN Len(s) + 1 ELSE w[1]

\* split s at every occurrence of byte c (k separators give k+1 pieces, possibly empty)
Split(s, c) ==
    LET w == Where(s, LAMBDA i : s[i] = c)
        n == Len(w)
    IN [k \in 1..(n + 1) |-> SubSeq(s, (IF k = 1 THEN 1 ELSE w[k - 1] + 1), (IF k = n + 1 THEN Len(s) ELSE w[k] - 1))]

TrimL(s) == LET w == Where(s, LAMBDA i : ~IsBlank(s[i])) IN IF w = <<>> THEN <<>> ELSE Drop(s, w[1] - 1)
TrimR(s) == LET w == Where(s, LAMBDA i : ~IsBlank(s[i])) IN IF w = <<>> THEN <<>> ELSE Take(s, w[Len(w)])
Trim(s)  == TrimL(TrimR(s))

\* x occurs in s as a contiguous block
IsSubstr(x, s) == x = <<>> \/ \E i \in 1..(Len(s) - Len(x) + 1) : SubSeq(s, i, i + Len(x) - 1) = x

\* decimal digits of a natural number
RECURSIVE Dec(_)
Dec(n) == IF n < 10 THEN <<48 + n>> ELSE Dec(n \div 10) \o <<48 + (n % 10)>>
\* value of a string of decimal digits (no sign); -1 if it is not one (or would not fit)
RECURSIVE DecValR(_, _, _)
DecValR(s, i, acc) == IF i > Len(s) THEN acc
                      ELSE IF ~IsDigit(s[i]) \/ acc > 100000000 THEN 0 - 1
                      ELSE DecValR(s, i + 1, acc * 10 + (s[i] - 48))
DecVal(s) == IF s = <<>> THEN 0 - 1 ELSE DecValR(s, 1, 0)

\* concatenation of a sequence of byte strings
RECURSIVE Concat(_)
Concat(ss) == IF ss = <<>> THEN <<>> ELSE ss[1] \o Concat(Tail(ss))

\* urldecode as implemented by cppcms::util::urldecode: '+' is a blank, %XX with two hex digits is
\* the byte XX, a '%' that is not followed by two hex digits is dropped
UrlDecode(s) ==
    LET n == Len(s)
        Esc(i) == i >= 1 /\ i + 2 <= n /\ s[i] = PCT /\ IsHex(s[i + 1]) /\ IsHex(s[i + 2])
        Vis(i) == ~Esc(i - 1) /\ ~Esc(i - 2) /\ (s[i] # PCT \/ Esc(i))
        w == Where(s, Vis)
    IN [k \in 1..Len(w) |-> LET i == w[k]
                            IN IF Esc(i) THEN 16 * HexVal(s[i + 1]) + HexVal(s[i + 2])
                               ELSE IF s[i] = PLUS THEN SP ELSE s[i]]
=============================================================================
