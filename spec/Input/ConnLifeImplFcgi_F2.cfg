SPECIFICATION Spec
CONSTANTS
  Proto = "fcgi"
  MaxLen = 4
  FixF1 = TRUE
  FixF2 = FALSE
  FixF3 = TRUE
  Filter = TRUE
INVARIANTS AtMostOnce
CHECK_DEADLOCK FALSE
