SPECIFICATION Spec
CONSTANTS
  Proto = "fcgi"
  Level = 2
  MaxChain = 1
  Pads = {0,1,2,3,4,5,6,7}
  Caps = {16384}
  MaxRead = 4
INVARIANTS SegInv NotStuck CrossInv
CHECK_DEADLOCK FALSE
