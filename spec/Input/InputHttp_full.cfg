SPECIFICATION Spec
CONSTANTS
  Proto = "http"
  Level = 2
  MaxChain = 2
  Pads = {0}
  Caps = {16384}
  MaxRead = 6
INVARIANTS SegInv NotStuck CrossInv
CHECK_DEADLOCK FALSE
