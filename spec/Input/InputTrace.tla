----------------------------- MODULE InputTrace -----------------------------
(* Leg B of C01.  A trace recorded by harness/input/input_drv.cpp (mode c01)  *)
(* is accepted iff                                                            *)
(*   - for every Req line the logged wire bytes, decoded by the declarative   *)
(*     decoder of that front-end, are exactly the logged abstract request     *)
(*     (binds the wire format),                                               *)
(*   - every observation the echo application made - for every segmentation   *)
(*     of the byte stream, every request of a keep-alive chain - equals       *)
(*     Reference(abstract request), and                                       *)
(*   - observations of one abstract request are identical on all front-ends.  *)
(* An Obs line lists all cut patterns that led to one byte-identical echo      *)
(* reply (loss-free compression done by the driver).                          *)
EXTENDS FcgiIn, HttpIn, TraceBase

\* http.script_names of the harness' service configuration
Scripts == << <<47,115,121,110,99>>, <<47,97,115,121,110,99>>, <<47,102,105,108,116>>,
             <<47,114,97,119,102>>, <<47,109,112,102>> >>                      \* /sync /async /filt /rawf /mpf

VARIABLES l, exp, seen
tvars == <<l, exp, seen>>

Ev == TraceLog[l]
Is(name) == l <= NLines /\ Ev.e = name /\ l' = l + 1

AbsOf(e) == [m |-> e.m, script |-> e.script, path |-> e.path, hasq |-> e.hasq, q |-> e.q, ver |-> e.ver,
             hdrs |-> e.hdrs, hasct |-> e.hasct, ct |-> e.ct, hascl |-> e.hascl, body |-> e.body, extra |-> e.extra]

\* the server-side variables are derived by the embedded HTTP server, sent by the gateway otherwise
WireOK(e, x) ==
    CASE e.proto = "http" -> LET d == HttpDecode(e.wire, Scripts)
                             IN d.ok /\ d.n = Len(e.wire) /\ d.env \cup KVSet(e.extra) = x.env /\ d.body = x.body
      [] e.proto = "scgi" -> LET d == ScgiDecode(e.wire)
                             IN d.ok /\ d.n = Len(e.wire) /\ PairKeysDistinct(SubSeq(e.wire, FirstOf(e.wire, COLON, 1) + 1, Len(e.wire) - Len(x.body) - 1))
                                /\ d.env = x.env /\ d.body = x.body
      [] e.proto = "fcgi" -> LET d == FcgiDecode(e.wire)
                             IN d.ok /\ d.env = x.env /\ d.body = x.body

TReset ==
    /\ Is("Reset")
    /\ exp' = <<>>
    /\ seen' = seen

TReq ==
    /\ Is("Req")
    /\ LET r == AbsOf(Ev)
           x == Reference(r)
       IN /\ WellFormed(r)
          /\ (Ev.haswire => WireOK(Ev, x))
          /\ exp' = (IF Ev.i = 1 THEN <<x>> ELSE Append(exp, x))
          \* the same abstract request (same id) must have been logged with the same content before
          /\ (IF seen.id = Ev.id /\ Ev.i = 1 THEN seen.x = x /\ seen' = seen
              ELSE IF Ev.i = 1 THEN seen' = [id |-> Ev.id, x |-> x, has |-> FALSE, o |-> <<>>]
              ELSE seen' = seen)

\* the part of an observation all front-ends must agree on (everything but the status line)
Core(o) == [m |-> o.m, s |-> o.s, p |-> o.p, q |-> o.q, env |-> KVSet(o.env), get |-> o.get, post |-> o.post,
            ck |-> KVSet(o.ck), body |-> o.body]

TObs ==
    /\ Is("Obs")
    /\ Len(Ev.o) = Len(exp)
    /\ \A i \in DOMAIN exp : Matches(Ev.o[i], exp[i])                     \* SegInv
    /\ exp' = exp
    /\ (IF Len(exp) = 1 /\ seen.has THEN Core(Ev.o[1]) = seen.o /\ seen' = seen   \* CrossInv
        ELSE IF Len(exp) = 1 THEN seen' = [seen EXCEPT !.has = TRUE, !.o = Core(Ev.o[1])]
        ELSE seen' = seen)

TraceInit == l = 1 /\ exp = <<>> /\ seen = [id |-> 0 - 1, x |-> <<>>, has |-> FALSE, o |-> <<>>]
TraceNext == TReset \/ TReq \/ TObs
TraceSpec == TraceInit /\ [][TraceNext]_tvars
=============================================================================
