SPECIFICATION Spec
CONSTANTS
  PageSize = 8
  MaxAlloc = 7
  MaxPages = 4
  ClearKeepsLast = FALSE
INVARIANTS TypeOK InBounds HeadRegular
