SPECIFICATION TraceSpec
INVARIANTS TypeOK AtMostOnce Contained
CHECK_DEADLOCK FALSE
