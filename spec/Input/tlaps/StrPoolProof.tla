---------------------------- MODULE StrPoolProof ----------------------------
(* TLAPS proof that the repaired string_pool never believes it has more room  *)
(* than the current page really has - for every page size, every allocation    *)
(* size and any number of pages (TLC: <= 4 pages, sizes <= 7; Apalache: <= 5   *)
(* pages in the pre-state).  Check with:  tlapm StrPoolProof.tla               *)
EXTENDS Naturals, Sequences, TLAPS

CONSTANT PageSize
ASSUME PageSizeNat == PageSize \in Nat

VARIABLES pages, used, free
vars == <<pages, used, free>>

Init == pages = <<PageSize>> /\ used = 0 /\ free = PageSize

IsBig(n) == n * 2 > PageSize

AllocBig(n) ==
    /\ IsBig(n)
    /\ pages' = <<Head(pages), n>> \o Tail(pages)
    /\ UNCHANGED <<used, free>>

AllocSmall(n) ==
    /\ ~IsBig(n)
    /\ IF n > free
         THEN /\ pages' = <<PageSize>> \o pages
              /\ used' = n
              /\ free' = PageSize - n
         ELSE /\ pages' = pages
              /\ used' = used + n
              /\ free' = free - n

\* clear() after the repair: keeps the head page
Clear ==
    /\ pages' = <<Head(pages)>>
    /\ used' = 0
    /\ free' = PageSize

Next == Clear \/ \E n \in Nat \ {0} : AllocBig(n) \/ AllocSmall(n)
Spec == Init /\ [][Next]_vars

InBounds == used + free <= Head(pages)

IndInv ==
    /\ pages \in Seq(Nat)
    /\ Len(pages) >= 1
    /\ Head(pages) = PageSize
    /\ used \in Nat /\ free \in Nat
    /\ used + free = PageSize

LEMMA InitInv == Init => IndInv
  BY PageSizeNat DEF Init, IndInv

LEMMA StepInv == IndInv /\ [Next]_vars => IndInv'
<1> SUFFICES ASSUME IndInv, [Next]_vars PROVE IndInv'
  OBVIOUS
<1>1. CASE Clear
  BY <1>1, PageSizeNat DEF Clear, IndInv
<1>2. ASSUME NEW n \in Nat \ {0}, AllocBig(n) PROVE IndInv'
  <2>1. pages' = <<Head(pages), n>> \o Tail(pages) /\ used' = used /\ free' = free
    BY <1>2 DEF AllocBig
  <2>2. <<Head(pages), n>> \in Seq(Nat) /\ Tail(pages) \in Seq(Nat)
    BY PageSizeNat DEF IndInv
  <2>3. pages' \in Seq(Nat) /\ Len(pages') >= 1 /\ Head(pages') = Head(pages)
    BY <2>1, <2>2
  <2>. QED BY <2>1, <2>3 DEF IndInv
<1>3. ASSUME NEW n \in Nat \ {0}, AllocSmall(n) PROVE IndInv'
  <2>1. CASE n > free
    <3>1. pages' = <<PageSize>> \o pages /\ used' = n /\ free' = PageSize - n
      BY <1>3, <2>1 DEF AllocSmall
    <3>2. n * 2 <= PageSize
      BY <1>3, PageSizeNat DEF AllocSmall, IsBig
    <3>3. n <= PageSize
      BY <3>2, PageSizeNat
    <3>4. pages' \in Seq(Nat) /\ Len(pages') >= 1 /\ Head(pages') = PageSize
      BY <3>1, PageSizeNat DEF IndInv
    <3>. QED BY <3>1, <3>3, <3>4, PageSizeNat DEF IndInv
  <2>2. CASE ~(n > free)
    <3>1. pages' = pages /\ used' = used + n /\ free' = free - n
      BY <1>3, <2>2 DEF AllocSmall
    <3>. QED BY <3>1, <2>2, PageSizeNat DEF IndInv
  <2>. QED BY <2>1, <2>2
<1>4. CASE UNCHANGED vars
  BY <1>4 DEF vars, IndInv
<1>. QED BY <1>1, <1>2, <1>3, <1>4 DEF Next

LEMMA InvBounds == IndInv => InBounds
  BY DEF IndInv, InBounds

THEOREM Safety == Spec => []InBounds
<1>1. Spec => []IndInv
  BY InitInv, StepInv, PTL DEF Spec
<1>. QED BY <1>1, InvBounds, PTL
=============================================================================
