SPECIFICATION TraceSpec
CONSTANTS
  PageSize = 2048
  MaxAlloc = 100000
  MaxPages = 100000
  ClearKeepsLast = FALSE
POSTCONDITION TraceDone
CHECK_DEADLOCK FALSE
