SPECIFICATION Spec
CONSTANTS
  PageSize = 8
  MaxAlloc = 7
  MaxPages = 4
  ClearKeepsLast = TRUE
INVARIANTS TypeOK InBounds HeadRegular
