SPECIFICATION Spec
CONSTANTS
  Proto = "fcgi"
  MaxLen = 3
  FixF1 = TRUE
  FixF2 = TRUE
  FixF3 = FALSE
  Filter = TRUE
INVARIANTS Answered
CHECK_DEADLOCK FALSE
