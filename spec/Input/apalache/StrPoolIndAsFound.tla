---------------------------- MODULE StrPoolIndAsFound ----------------------------
(* Unbounded check of StrPool's safety with Apalache: IndInv is inductive   *)
(* for the repaired clear() (keeps the head page) for ANY number of pages   *)
(* and ANY allocation sizes - TLC only explores pages <= 4, sizes <= 7.     *)
(*   apalache-mc check --init=Init    --inv=IndInv --length=0 StrPoolInd.tla *)
(*   apalache-mc check --init=IndInit --inv=IndInv --length=1 StrPoolInd.tla *)
(* With KeepLast = TRUE (clear() as it was found) the second run fails.      *)
EXTENDS Integers, Sequences, Apalache

CONSTANTS
    \* @type: Int;
    PageSize,
    \* @type: Bool;
    KeepLast

VARIABLES
    \* @type: Seq(Int);
    pages,
    \* @type: Int;
    used,
    \* @type: Int;
    free

ConstInit == PageSize \in 2..4096 /\ KeepLast \in {TRUE}

Init == pages = <<PageSize>> /\ used = 0 /\ free = PageSize

IsBig(n) == n * 2 > PageSize

AllocBig(n) ==
    /\ IsBig(n)
    /\ pages' = <<Head(pages), n>> \o Tail(pages)
    /\ UNCHANGED <<used, free>>

AllocSmall(n) ==
    /\ ~IsBig(n)
    /\ IF n > free
         THEN /\ pages' = <<PageSize>> \o pages
              /\ used' = n
              /\ free' = PageSize - n
         ELSE /\ pages' = pages
              /\ used' = used + n
              /\ free' = free - n

Clear ==
    /\ pages' = IF KeepLast THEN <<pages[Len(pages)]>> ELSE <<Head(pages)>>
    /\ used' = 0
    /\ free' = PageSize

Next == Clear \/ \E n \in 1..100000 : AllocBig(n) \/ AllocSmall(n)

InBounds == used + free <= Head(pages)

IndInv ==
    /\ Len(pages) >= 1
    /\ \A i \in DOMAIN pages : pages[i] >= 1 /\ pages[i] <= 100000
    /\ Head(pages) = PageSize
    /\ used >= 0 /\ free >= 0
    /\ used + free = PageSize

\* pre-state generator for the inductive step: ANY state with at most 5 pages (of any sizes) that satisfies IndInv
IndInit ==
    /\ pages = Gen(5)
    /\ used = Gen(1)
    /\ free = Gen(1)
    /\ IndInv
=============================================================================
