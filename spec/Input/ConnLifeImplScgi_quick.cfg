SPECIFICATION Spec
CONSTANTS
  Proto = "scgi"
  MaxLen = 6
  FixF1 = TRUE
  FixF2 = TRUE
  FixF3 = TRUE
  Filter = TRUE
INVARIANTS AtMostOnce Contained Answered Served
CHECK_DEADLOCK FALSE
