---- MODULE ConnLifeImpl_TTrace_1790468124 ----
EXTENDS Sequences, TLCExt, Toolbox, Naturals, TLC, ConnLifeImpl

_expression ==
    LET ConnLifeImpl_TEExpression == INSTANCE ConnLifeImpl_TEExpression
    IN ConnLifeImpl_TEExpression!expression
----

_trace ==
    LET ConnLifeImpl_TETrace == INSTANCE ConnLifeImpl_TETrace
    IN ConnLifeImpl_TETrace!trace
----

_inv ==
    ~(
        TLCGet("level") = Len(_TETrace)
        /\
        su = (1)
        /\
        garbage = (FALSE)
        /\
        cl = ("neg")
        /\
        rid = (0)
        /\
        cyc = (1)
        /\
        got = (0)
        /\
        hist = (<<[t |-> "RL"], [c |-> "neg", t |-> "CL"], [t |-> "END"]>>)
        /\
        loopAlive = (FALSE)
        /\
        s = ("dead")
        /\
        closed = (TRUE)
        /\
        hc = (0)
        /\
        reply = ("none")
        /\
        ec = (0)
    )
----

_init ==
    /\ rid = _TETrace[1].rid
    /\ cyc = _TETrace[1].cyc
    /\ su = _TETrace[1].su
    /\ loopAlive = _TETrace[1].loopAlive
    /\ hc = _TETrace[1].hc
    /\ garbage = _TETrace[1].garbage
    /\ reply = _TETrace[1].reply
    /\ closed = _TETrace[1].closed
    /\ s = _TETrace[1].s
    /\ cl = _TETrace[1].cl
    /\ hist = _TETrace[1].hist
    /\ got = _TETrace[1].got
    /\ ec = _TETrace[1].ec
----

_next ==
    /\ \E i,j \in DOMAIN _TETrace:
        /\ \/ /\ j = i + 1
              /\ i = TLCGet("level")
        /\ rid  = _TETrace[i].rid
        /\ rid' = _TETrace[j].rid
        /\ cyc  = _TETrace[i].cyc
        /\ cyc' = _TETrace[j].cyc
        /\ su  = _TETrace[i].su
        /\ su' = _TETrace[j].su
        /\ loopAlive  = _TETrace[i].loopAlive
        /\ loopAlive' = _TETrace[j].loopAlive
        /\ hc  = _TETrace[i].hc
        /\ hc' = _TETrace[j].hc
        /\ garbage  = _TETrace[i].garbage
        /\ garbage' = _TETrace[j].garbage
        /\ reply  = _TETrace[i].reply
        /\ reply' = _TETrace[j].reply
        /\ closed  = _TETrace[i].closed
        /\ closed' = _TETrace[j].closed
        /\ s  = _TETrace[i].s
        /\ s' = _TETrace[j].s
        /\ cl  = _TETrace[i].cl
        /\ cl' = _TETrace[j].cl
        /\ hist  = _TETrace[i].hist
        /\ hist' = _TETrace[j].hist
        /\ got  = _TETrace[i].got
        /\ got' = _TETrace[j].got
        /\ ec  = _TETrace[i].ec
        /\ ec' = _TETrace[j].ec

\* Uncomment the ASSUME below to write the states of the error trace
\* to the given file in Json format. Note that you can pass any tuple
\* to `JsonSerialize`. For example, a sub-sequence of _TETrace.
    \* ASSUME
    \*     LET J == INSTANCE Json
    \*         IN J!JsonSerialize("ConnLifeImpl_TTrace_1790468124.json", _TETrace)

=============================================================================

 Note that you can extract this module `ConnLifeImpl_TEExpression`
  to a dedicated file to reuse `expression` (the module in the 
  dedicated `ConnLifeImpl_TEExpression.tla` file takes precedence 
  over the module `ConnLifeImpl_TEExpression` below).

---- MODULE ConnLifeImpl_TEExpression ----
EXTENDS Sequences, TLCExt, Toolbox, Naturals, TLC, ConnLifeImpl

expression == 
    [
        \* To hide variables of the `ConnLifeImpl` spec from the error trace,
        \* remove the variables below.  The trace will be written in the order
        \* of the fields of this record.
        rid |-> rid
        ,cyc |-> cyc
        ,su |-> su
        ,loopAlive |-> loopAlive
        ,hc |-> hc
        ,garbage |-> garbage
        ,reply |-> reply
        ,closed |-> closed
        ,s |-> s
        ,cl |-> cl
        ,hist |-> hist
        ,got |-> got
        ,ec |-> ec
        
        \* Put additional constant-, state-, and action-level expressions here:
        \* ,_stateNumber |-> _TEPosition
        \* ,_ridUnchanged |-> rid = rid'
        
        \* Format the `rid` variable as Json value.
        \* ,_ridJson |->
        \*     LET J == INSTANCE Json
        \*     IN J!ToJson(rid)
        
        \* Lastly, you may build expressions over arbitrary sets of states by
        \* leveraging the _TETrace operator.  For example, this is how to
        \* count the number of times a spec variable changed up to the current
        \* state in the trace.
        \* ,_ridModCount |->
        \*     LET F[s \in DOMAIN _TETrace] ==
        \*         IF s = 1 THEN 0
        \*         ELSE IF _TETrace[s].rid # _TETrace[s-1].rid
        \*             THEN 1 + F[s-1] ELSE F[s-1]
        \*     IN F[_TEPosition - 1]
    ]

=============================================================================



Parsing and semantic processing can take forever if the trace below is long.
 In this case, it is advised to uncomment the module below to deserialize the
 trace from a generated binary file.

\*
\*---- MODULE ConnLifeImpl_TETrace ----
\*EXTENDS IOUtils, TLC, ConnLifeImpl
\*
\*trace == IODeserialize("ConnLifeImpl_TTrace_1790468124.bin", TRUE)
\*
\*=============================================================================
\*

---- MODULE ConnLifeImpl_TETrace ----
EXTENDS TLC, ConnLifeImpl

trace == 
    <<
    ([su |-> 0,garbage |-> FALSE,cl |-> "zero",rid |-> 0,cyc |-> 0,got |-> 0,hist |-> <<>>,loopAlive |-> TRUE,s |-> "rl",closed |-> FALSE,hc |-> 0,reply |-> "none",ec |-> 0]),
    ([su |-> 0,garbage |-> FALSE,cl |-> "zero",rid |-> 0,cyc |-> 0,got |-> 0,hist |-> <<[t |-> "RL"]>>,loopAlive |-> TRUE,s |-> "hdrs",closed |-> FALSE,hc |-> 0,reply |-> "none",ec |-> 0]),
    ([su |-> 0,garbage |-> FALSE,cl |-> "neg",rid |-> 0,cyc |-> 0,got |-> 0,hist |-> <<[t |-> "RL"], [c |-> "neg", t |-> "CL"]>>,loopAlive |-> TRUE,s |-> "hdrs",closed |-> FALSE,hc |-> 0,reply |-> "none",ec |-> 0]),
    ([su |-> 1,garbage |-> FALSE,cl |-> "neg",rid |-> 0,cyc |-> 1,got |-> 0,hist |-> <<[t |-> "RL"], [c |-> "neg", t |-> "CL"], [t |-> "END"]>>,loopAlive |-> FALSE,s |-> "dead",closed |-> TRUE,hc |-> 0,reply |-> "none",ec |-> 0])
    >>
----


=============================================================================

---- CONFIG ConnLifeImpl_TTrace_1790468124 ----
CONSTANTS
    Proto = "http"
    MaxLen = 5
    FixF1 = FALSE
    FixF2 = TRUE
    FixF3 = TRUE
    Filter = TRUE

INVARIANT
    _inv

CHECK_DEADLOCK
    \* CHECK_DEADLOCK off because of PROPERTY or INVARIANT above.
    FALSE

INIT
    _init

NEXT
    _next

CONSTANT
    _TETrace <- _trace

ALIAS
    _expression
=============================================================================
\* Generated on Sun Sep 27 00:15:52 UTC 2026