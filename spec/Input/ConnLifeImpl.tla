---------------------------- MODULE ConnLifeImpl ----------------------------
(* Mechanism layer of C02: the error paths of the three front-ends at token    *)
(* level.  The peer sends any sequence of at most MaxLen tokens (a token is a  *)
(* class of byte strings that the parsers distinguish: a request line that is  *)
(* fine / has no version / has a bad method, a Content-Length of each class,   *)
(* a FastCGI record of each type / id / role ...) and may close after any of   *)
(* them.  The front-end reacts as src/{http,scgi,fastcgi}_api.cpp and          *)
(* src/cgi_api.cpp / http_request.cpp do.  History variables record what the   *)
(* property layer (ConnLife) talks about.                                      *)
(*                                                                            *)
(* FixF1/FixF2/FixF3 = TRUE model the behaviour the design requires; FALSE     *)
(* models the code as it was found (DESIGN.md section 6):                      *)
(*   F1 a negative declared length sizes a buffer and the exception escapes    *)
(*      the event loop;  F2 no return after an error completion in the PARAMS  *)
(*      phase;  F3 FCGI_GET_VALUES falls through / the unknown-role reply is   *)
(*      written through an empty buffer.                                       *)
EXTENDS Naturals, Sequences, FiniteSets

CONSTANTS Proto, MaxLen, FixF1, FixF2, FixF3, Filter   \* Filter: the application installs a content filter

VARIABLES s,          \* protocol state of the connection
          hist,       \* tokens consumed so far
          cl, got,    \* declared content length class / body units read
          rid,        \* FastCGI request id
          garbage,    \* FastCGI: PARAMS content that does not parse
          cyc, hc, ec, su, loopAlive, reply, closed
vars == <<s, hist, cl, got, rid, garbage, cyc, hc, ec, su, loopAlive, reply, closed>>

Lengths == {"neg", "zero", "one", "two", "over", "nonnum"}
Need(c) == CASE c = "one" -> 1 [] c = "two" -> 2 [] OTHER -> 0

HttpTokens == {[t |-> x] : x \in {"RL", "RLBAD", "RLM", "HDR", "HDRBAD", "BIG", "JUNK", "END", "B"}} \cup {[t |-> "CL", c |-> c] : c \in Lengths}
ScgiTokens == {[t |-> "PFX", k |-> k] : k \in {"ok", "short", "long", "bad", "huge"}}
              \cup {[t |-> "BLOCK", c |-> c, comma |-> b] : c \in Lengths, b \in BOOLEAN} \cup {[t |-> "B"]}
FcgiTokens == {[t |-> x] : x \in {"BEGIN", "BEGINROLE", "BEGINSIZE", "BADVER", "GETV", "OTHER", "PARAMSX", "PARAMSBIG"}}
              \cup {[t |-> "PARAMS", c |-> c, id |-> i] : c \in Lengths \ {"nonnum", "two"}, i \in 1..2}
              \cup {[t |-> x, id |-> i] : x \in {"PARAMS0", "STDIN", "STDIN0"}, i \in 1..2}
Tokens == CASE Proto = "http" -> HttpTokens [] Proto = "scgi" -> ScgiTokens [] Proto = "fcgi" -> FcgiTokens

Init == /\ s = (CASE Proto = "http" -> "rl" [] Proto = "scgi" -> "first" [] Proto = "fcgi" -> "start")
        /\ hist = <<>> /\ cl = "zero" /\ got = 0 /\ rid = 0 /\ garbage = FALSE
        /\ cyc = 0 /\ hc = 0 /\ ec = 0 /\ su = 0 /\ loopAlive = TRUE /\ reply = "none" /\ closed = FALSE

\* ------------------------------------------------------------------ shared: what happens after a completion
\* the completion handler is called with an error: the connection is torn down (HTTP may have written a 400 first)
CompleteErr(rep) ==
    /\ cyc' = cyc + 1 /\ s' = "dead" /\ closed' = TRUE
    /\ reply' = (IF reply = "none" THEN rep ELSE reply)
    /\ UNCHANGED <<hc, ec, su, loopAlive, cl, got, rid, garbage>>

\* the completion handler is called with success: on_headers_ready / on_content_start decide
CompleteOkN(c, extra) ==
    /\ cyc' = cyc + 1 + extra
    /\ CASE c = "neg" ->      \* request::on_content_start sizes the buffer with the declared length
              IF FixF1 THEN /\ reply' = (IF reply = "none" THEN "err" ELSE reply) /\ s' = "dead" /\ closed' = TRUE
                            /\ UNCHANGED <<hc, ec, su, loopAlive>>
              ELSE /\ loopAlive' = FALSE /\ s' = "dead" /\ closed' = TRUE /\ su' = (IF Filter THEN su + 1 ELSE su)
                   /\ UNCHANGED <<hc, ec, reply>>
         [] c = "over" ->     \* 413, written once; a filter that was installed is told
              /\ reply' = (IF reply = "none" THEN "err" ELSE reply) /\ s' = "dead" /\ closed' = TRUE
              /\ su' = (IF Filter THEN su + 1 ELSE su) /\ ec' = (IF Filter THEN ec + 1 ELSE ec)
              /\ UNCHANGED <<hc, loopAlive>>
         [] c \in {"zero", "nonnum"} ->   \* no body: dispatched at once
              /\ hc' = hc + 1 /\ reply' = (IF reply = "none" THEN "200" ELSE reply) /\ s' = "dead" /\ closed' = TRUE
              /\ UNCHANGED <<ec, su, loopAlive>>
         [] OTHER ->
              /\ s' = "body" /\ su' = (IF Filter THEN su + 1 ELSE su)
              /\ UNCHANGED <<hc, ec, loopAlive, reply, closed>>
    /\ UNCHANGED <<got, rid, garbage>>
CompleteOk(c) == CompleteOkN(c, 0)

BodyUnit ==   \* one unit of content arrives
    /\ got' = got + 1
    /\ IF got + 1 = Need(cl)
       THEN /\ hc' = hc + 1 /\ reply' = (IF reply = "none" THEN "200" ELSE reply) /\ s' = "dead" /\ closed' = TRUE
       ELSE UNCHANGED <<hc, reply, s, closed>>
    /\ UNCHANGED <<cyc, ec, su, loopAlive, cl, rid, garbage>>
BodyFail ==   \* read error / protocol violation while the content is read: set_error, on_error of the filter
    /\ ec' = (IF su > 0 THEN ec + 1 ELSE ec) /\ s' = "dead" /\ closed' = TRUE
    /\ reply' = (IF reply = "none" THEN "closed" ELSE reply)
    /\ UNCHANGED <<cyc, hc, su, loopAlive, cl, got, rid, garbage>>
Stay == UNCHANGED <<s, cl, got, rid, garbage, cyc, hc, ec, su, loopAlive, reply, closed>>

\* ------------------------------------------------------------------ HTTP
Http(tok) ==
    CASE s = "rl" ->
           (CASE tok.t = "RL"  -> s' = "hdrs" /\ UNCHANGED <<cl, got, rid, garbage, cyc, hc, ec, su, loopAlive, reply, closed>>
              [] tok.t = "RLM" -> s' = "hdrsm" /\ UNCHANGED <<cl, got, rid, garbage, cyc, hc, ec, su, loopAlive, reply, closed>>
              [] tok.t = "END" -> CompleteErr("err")              \* empty request line: 400, then the error completion
              [] OTHER -> CompleteErr("closed"))
      [] s \in {"hdrs", "hdrsm"} ->
           (CASE tok.t = "HDR" -> Stay
              [] tok.t = "CL" -> cl' = tok.c /\ UNCHANGED <<s, got, rid, garbage, cyc, hc, ec, su, loopAlive, reply, closed>>
              [] tok.t = "END" -> IF s = "hdrsm" THEN CompleteErr("err") ELSE /\ CompleteOk(cl) /\ cl' = cl
              [] OTHER -> CompleteErr("closed"))
      [] s = "body" -> BodyUnit
      [] OTHER -> Stay
HttpValid(h) == \* RL HDR/CL* END body
    /\ Len(h) >= 2 /\ h[1].t = "RL"
    /\ \E e \in 2..Len(h) :
         /\ h[e].t = "END" /\ \A i \in 2..(e - 1) : h[i].t \in {"HDR", "CL"}
         /\ LET cls == { i \in 2..(e - 1) : h[i].t = "CL" }
                c == IF cls = {} THEN "zero" ELSE h[CHOOSE i \in cls : \A j \in cls : j <= i].c
            IN c \in {"zero", "one", "two", "nonnum"} /\ Len(h) - e >= Need(c)

\* ------------------------------------------------------------------ SCGI
Scgi(tok) ==
    CASE s = "first" ->
           (CASE tok.t = "PFX" /\ tok.k \in {"ok", "short", "long"} ->
                     s' = (IF tok.k = "ok" THEN "rest" ELSE "restlie") /\ UNCHANGED <<cl, got, rid, garbage, cyc, hc, ec, su, loopAlive, reply, closed>>
              [] OTHER -> CompleteErr("closed"))
      [] s \in {"rest", "restlie"} ->
           (CASE tok.t = "BLOCK" /\ tok.comma /\ s = "rest" -> /\ CompleteOk(tok.c) /\ cl' = tok.c
              [] OTHER -> CompleteErr("closed"))                   \* the byte where the ',' must be is something else
      [] s = "body" -> BodyUnit
      [] OTHER -> Stay
ScgiValid(h) == /\ Len(h) >= 2 /\ h[1].t = "PFX" /\ h[1].k = "ok" /\ h[2].t = "BLOCK" /\ h[2].comma
                /\ h[2].c \in {"zero", "one", "two", "nonnum"} /\ Len(h) - 2 >= Need(h[2].c)

\* ------------------------------------------------------------------ FastCGI
U(x) == UNCHANGED x
Fcgi(tok) ==
    CASE s = "start" ->
           (CASE tok.t = "BADVER" -> CompleteErr("closed")
              [] tok.t = "GETV" ->
                    IF FixF3 THEN Stay                             \* GET_VALUES_RESULT is written, then the next record is read
                    ELSE /\ cyc' = cyc + 1                         \* falls through: protocol_violation now, and the handler stays armed
                         /\ U(<<s, cl, got, rid, garbage, hc, ec, su, loopAlive, reply, closed>>)
              [] tok.t = "BEGINSIZE" -> CompleteErr("closed")
              [] tok.t = "BEGINROLE" ->                             \* END_REQUEST(unknown role), then the next record is read
                    /\ reply' = (IF reply # "none" THEN reply ELSE IF FixF3 THEN "err" ELSE "badframe")
                    /\ U(<<s, cl, got, rid, garbage, cyc, hc, ec, su, loopAlive, closed>>)
              [] tok.t = "BEGIN" -> s' = "params" /\ rid' = 1 /\ cl' = "zero" /\ U(<<got, garbage, cyc, hc, ec, su, loopAlive, reply, closed>>)
              [] OTHER -> Stay)                                     \* records of other types are skipped
      [] s = "params" ->
           LET isp == tok.t \in {"PARAMS", "PARAMS0", "PARAMSX", "PARAMSBIG"} /\ (tok.t \in {"PARAMSX", "PARAMSBIG"} \/ tok.id = rid)
           IN IF ~isp /\ FixF2 THEN CompleteErr("closed")
              ELSE IF ~isp /\ tok.t \in {"PARAMS0", "STDIN0", "OTHER"}
                   THEN \* as found: error completion, no return; the empty record then ends the PARAMS phase
                        (IF cl \in {"zero", "neg", "nonnum"}
                         THEN /\ cyc' = cyc + 1 /\ s' = "stdin0" /\ U(<<cl, got, rid, garbage, hc, ec, su, loopAlive, reply, closed>>)
                         ELSE /\ CompleteOkN(cl, 1) /\ cl' = cl)
              ELSE IF ~isp THEN \* as found: error completion, no return; the content is accumulated as if it were PARAMS
                        /\ cyc' = cyc + 1 /\ garbage' = TRUE /\ U(<<s, cl, got, rid, hc, ec, su, loopAlive, reply, closed>>)
              ELSE (CASE tok.t = "PARAMS" -> cl' = tok.c /\ U(<<s, got, rid, garbage, cyc, hc, ec, su, loopAlive, reply, closed>>)
                     [] tok.t = "PARAMSX" -> garbage' = TRUE /\ U(<<s, cl, got, rid, cyc, hc, ec, su, loopAlive, reply, closed>>)
                     [] tok.t = "PARAMSBIG" -> CompleteErr("closed")
                     [] tok.t = "PARAMS0" ->
                          IF garbage /\ FixF2 THEN CompleteErr("closed")          \* parse_pairs() failed
                          ELSE IF cl \in {"zero", "neg", "nonnum"} THEN s' = "stdin0" /\ U(<<cl, got, rid, garbage, cyc, hc, ec, su, loopAlive, reply, closed>>)
                          ELSE /\ CompleteOk(cl) /\ cl' = cl)
      [] s = "stdin0" ->
           IF tok.t = "STDIN0" THEN /\ CompleteOk(cl) /\ cl' = cl ELSE CompleteErr("closed")
      [] s = "body" ->
           IF tok.t = "STDIN" /\ tok.id = rid /\ got < Need(cl) THEN
                (IF got + 1 = Need(cl) THEN /\ got' = got + 1 /\ s' = "stdineof" /\ U(<<cl, rid, garbage, cyc, hc, ec, su, loopAlive, reply, closed>>)
                 ELSE /\ got' = got + 1 /\ U(<<s, cl, rid, garbage, cyc, hc, ec, su, loopAlive, reply, closed>>))
           ELSE BodyFail
      [] s = "stdineof" ->
           IF tok.t = "STDIN0" /\ tok.id = rid
           THEN /\ hc' = hc + 1 /\ reply' = (IF reply = "none" THEN "200" ELSE reply) /\ s' = "dead" /\ closed' = TRUE
                /\ U(<<cyc, ec, su, loopAlive, cl, got, rid, garbage>>)
           ELSE BodyFail
      [] OTHER -> Stay
FcgiValid(h) ==
    \E b \in 1..Len(h) :
      /\ h[b].t = "BEGIN" /\ \A i \in 1..(b - 1) : h[i].t \in {"GETV", "OTHER", "PARAMS", "PARAMS0", "PARAMSX", "PARAMSBIG", "STDIN", "STDIN0"}
      /\ \E e \in (b + 1)..Len(h) :
           /\ h[e].t = "PARAMS0" /\ h[e].id = 1 /\ \A i \in (b + 1)..(e - 1) : h[i].t = "PARAMS" /\ h[i].id = 1
           /\ LET c == IF e = b + 1 THEN "zero" ELSE h[e - 1].c
              IN /\ c \in {"zero", "one"}
                 /\ Len(h) >= e + Need(c) + 1
                 /\ \A i \in (e + 1)..(e + Need(c)) : h[i].t = "STDIN" /\ h[i].id = 1
                 /\ h[e + Need(c) + 1].t = "STDIN0" /\ (Need(c) = 0 \/ h[e + Need(c) + 1].id = 1)

\* ------------------------------------------------------------------ the connection
Recv(tok) ==
    /\ ~closed /\ loopAlive /\ Len(hist) < MaxLen
    /\ hist' = Append(hist, tok)
    /\ CASE Proto = "http" -> Http(tok) [] Proto = "scgi" -> Scgi(tok) [] Proto = "fcgi" -> Fcgi(tok)
PeerClose ==    \* end of input: whoever still reads sees an error
    /\ ~closed /\ loopAlive
    /\ hist' = hist
    /\ IF s \in {"body", "stdineof"} THEN BodyFail ELSE CompleteErr("closed")
Next == (\E tok \in Tokens : Recv(tok)) \/ PeerClose
Spec == Init /\ [][Next]_vars

Valid(h) == CASE Proto = "http" -> HttpValid(h) [] Proto = "scgi" -> ScgiValid(h) [] Proto = "fcgi" -> FcgiValid(h)

AtMostOnce == cyc <= 1 /\ hc + ec <= 1 /\ su <= 1
Contained == loopAlive
\* a 200 is only ever the answer to a well-formed conversation; replies are well-framed; a closed connection was answered
Answered == /\ (reply = "200" => Valid(hist))
            /\ reply # "badframe"
            /\ (closed /\ loopAlive => reply # "none")
\* a well-formed conversation that was read completely is served
Served == (closed /\ loopAlive /\ Valid(hist) /\ reply # "200") => FALSE
=============================================================================
