------------------------------ MODULE StrPool ------------------------------
(* cppcms::impl::string_pool (private/string_map.h): the page allocator that holds  *)
(* the CGI environment strings of one connection (HTTP, SCGI, FastCGI front-ends).  *)
(* It is cleared and reused for every request of a keep-alive connection.           *)
(*                                                                                  *)
(* pages   list of page capacities, head first.  add_page() pushes a regular page   *)
(*         (PageSize) at the head and makes it current; an allocation of n bytes    *)
(*         with 2n > PageSize gets a page of exactly n bytes linked AFTER the head. *)
(* used    bytes handed out from the current (head) page                            *)
(* free    what the code believes is left in the current page (free_space_)         *)
(*                                                                                  *)
(* Property (memory safety, C02 / C01): every string handed out lies inside the     *)
(* block it was carved from:  used + free <= capacity of the head page  (InBounds). *)
(* Clear as found in the code keeps the LAST page of the list; when the list is     *)
(* <regular, big> that is the big page, whose capacity is below PageSize, and the   *)
(* next request's strings are written past its end.  ClearKeepHead is the repair.   *)
EXTENDS Naturals, Sequences

CONSTANTS PageSize, MaxAlloc, MaxPages,
          ClearKeepsLast   \* TRUE: clear() as found (keeps the last page); FALSE: keeps the head page

VARIABLES pages, used, free, lastop
vars == <<pages, used, free, lastop>>

Init ==
    /\ pages = <<PageSize>>
    /\ used = 0
    /\ free = PageSize
    /\ lastop = "init"

IsBig(n) == n * 2 > PageSize

\* allocate_space(n), big branch: own page linked after the head, current page untouched
AllocBig(n) ==
    /\ IsBig(n)
    /\ Len(pages) < MaxPages
    /\ pages' = <<Head(pages), n>> \o Tail(pages)
    /\ UNCHANGED <<used, free>>
    /\ lastop' = "big"

\* allocate_space(n), small branch: a fresh regular page when the current one is (believed to be) full
AllocSmall(n) ==
    /\ ~IsBig(n)
    /\ IF n > free
         THEN /\ Len(pages) < MaxPages
              /\ pages' = <<PageSize>> \o pages
              /\ used' = n
              /\ free' = PageSize - n
         ELSE /\ pages' = pages
              /\ used' = used + n
              /\ free' = free - n
    /\ lastop' = "small"

Clear ==
    /\ pages' = IF ClearKeepsLast THEN <<pages[Len(pages)]>> ELSE <<Head(pages)>>
    /\ used' = 0
    /\ free' = PageSize
    /\ lastop' = "clear"

Next == Clear \/ \E n \in 1..MaxAlloc : AllocBig(n) \/ AllocSmall(n)
Spec == Init /\ [][Next]_vars

TypeOK == pages \in Seq(1..(MaxAlloc + PageSize)) /\ Len(pages) >= 1 /\ used \in Nat /\ free \in Nat
InBounds == used + free <= Head(pages)
HeadRegular == Head(pages) = PageSize
=============================================================================
