SPECIFICATION Spec
CONSTANTS
  Proto = "http"
  Level = 1
  MaxChain = 2
  Pads = {0}
  Caps = {16384}
  MaxRead = 0
INVARIANTS SegInv NotStuck CrossInv
CHECK_DEADLOCK FALSE
