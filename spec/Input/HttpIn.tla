------------------------------- MODULE HttpIn -------------------------------
(* The embedded HTTP front-end (src/http_api.cpp, private/http_parser.h).     *)
(*  - HttpDecode: declarative decoder of the wire format (request line,       *)
(*    header block with LWS folding, header name -> CGI variable, SCRIPT_NAME  *)
(*    / PATH_INFO split, %XX decoding of the path, Content-Length body).      *)
(*  - HttpEncode: canonical encoder of an abstract request (Leg D).           *)
(*  - Mechanism layer: the nine-state incremental header parser with its      *)
(*    unget stack, the read-ahead buffer shared with the body reader and the  *)
(*    keep-alive re-arm, one HFeed per socket read.                           *)
EXTENDS Request

S_CRLF == <<CR, LF>>
S_CRLFCRLF == <<CR, LF, CR, LF>>

IsSeparator(c) == c \in {40,41,60,62,64,44,59,58,92,34,47,91,93,63,61,123,125,32,9}
IsTokenChar(c) == c >= 32 /\ c <= 126 /\ ~IsSeparator(c)
IsToken(s) == s # <<>> /\ \A i \in DOMAIN s : IsTokenChar(s[i])

\* ------------------------------------------------------------------ declarative decoder
SplitCRLF(s) ==
    LET w == Where(s, LAMBDA i : MatchAt(s, i, S_CRLF))
        n == Len(w)
    IN [k \in 1..(n + 1) |-> SubSeq(s, (IF k = 1 THEN 1 ELSE w[k - 1] + 2), (IF k = n + 1 THEN Len(s) ELSE w[k] - 1))]

\* LWS folding: a CR LF that is followed by a blank is not a line end
Unfold(s) ==
    LET n == Len(s)
        F(i) == i >= 1 /\ i + 2 <= n /\ s[i] = CR /\ s[i + 1] = LF /\ IsBlank(s[i + 2])
        w == Where(s, LAMBDA i : ~F(i) /\ ~F(i - 1))
    IN [k \in 1..Len(w) |-> s[w[k]]]

\* SCRIPT_NAME / PATH_INFO split of the (still escaped) path against the configured script names
ScriptOf(rawpath, scripts) ==
    LET w == { i \in DOMAIN scripts : /\ StartsWith(rawpath, scripts[i])
                                       /\ (Len(rawpath) = Len(scripts[i]) \/ rawpath[Len(scripts[i]) + 1] = SLASH) }
    IN IF w = {} THEN <<>> ELSE scripts[CHOOSE i \in w : \A j \in w : i <= j]

HdrName(line) == LET t == TrimL(line) IN TrimR(Take(t, FirstOf(t, COLON, 1) - 1))
HdrValue(line) == LET t == TrimL(line) IN TrimL(Drop(t, FirstOf(t, COLON, 1)))
HdrLineOK(line) == FirstOf(TrimL(line), COLON, 1) <= Len(TrimL(line)) /\ IsToken(HdrName(line))

\* CGI variables of one header line
HdrVar(line) == LET n == Canon(HdrName(line))
                IN <<(IF n = S_CONTENT_LENGTH \/ n = S_CONTENT_TYPE THEN n ELSE S_HTTP_ \o n), HdrValue(line)>>

\* variables derived from request line + headers (without the server-side ones)
HttpEnvOf(rl, hlines, scripts) ==
    LET sp1 == FirstOf(rl, SP, 1)
        sp2 == FirstOf(rl, SP, sp1 + 1)
        uri == SubSeq(rl, sp1 + 1, sp2 - 1)
        qp  == FirstOf(uri, QM, 1)
        raw == Take(uri, qp - 1)
        sc  == ScriptOf(raw, scripts)
    IN {<<S_REQUEST_METHOD, Take(rl, sp1 - 1)>>, <<S_SERVER_PROTOCOL, Drop(rl, sp2)>>,
        <<S_PATH_INFO, UrlDecode(Drop(raw, Len(sc)))>>}
       \cup (IF sc # <<>> THEN {<<S_SCRIPT_NAME, sc>>} ELSE {})
       \cup (IF qp <= Len(uri) THEN {<<S_QUERY_STRING, Drop(uri, qp)>>} ELSE {})
       \cup { HdrVar(hlines[i]) : i \in DOMAIN hlines }

ReqLineOK(rl) == LET sp1 == FirstOf(rl, SP, 1)  sp2 == FirstOf(rl, SP, sp1 + 1)
                 IN sp2 <= Len(rl) /\ IsToken(Take(rl, sp1 - 1)) /\ sp1 + 1 <= Len(rl) /\ rl[sp1 + 1] = SLASH

EnvGet(env, k, dflt) == IF \E x \in env : x[1] = k THEN (CHOOSE x \in env : x[1] = k)[2] ELSE dflt

\* decode one request from the front of w: [ok, env, body, n (bytes consumed)]
HttpDecode(w, scripts) ==
    LET he == FirstMatch(w, S_CRLFCRLF, 1)
        bad == [ok |-> FALSE, env |-> {}, body |-> <<>>, n |-> 0]
    IN IF he > Len(w) THEN bad
       ELSE LET lines == SplitCRLF(Unfold(Take(w, he - 1)))
                rl == lines[1]
                hl == Tail(lines)
                NoBareCRLF(x) == \A j \in DOMAIN x : x[j] # CR /\ x[j] # LF
            IN IF ~ReqLineOK(rl) \/ (\E i \in DOMAIN hl : ~HdrLineOK(hl[i])) \/ (\E i \in DOMAIN lines : ~NoBareCRLF(lines[i])) THEN bad
               ELSE LET env == HttpEnvOf(rl, hl, scripts)
                        cls == EnvGet(env, S_CONTENT_LENGTH, <<48>>)
                        cl == DecVal(cls)
                    IN IF cl < 0 \/ he + 3 + cl > Len(w) THEN bad
                       ELSE [ok |-> TRUE, env |-> env, body |-> SubSeq(w, he + 4, he + 3 + cl), n |-> he + 3 + cl]

\* ------------------------------------------------------------------ canonical encoder (Leg D)
HexDigit(n) == IF n < 10 THEN 48 + n ELSE 55 + n
EncPath(p) == Concat([i \in 1..Len(p) |->
                 IF p[i] \in {PCT, PLUS, QM, SP} \/ p[i] >= 127 \/ p[i] < 33
                 THEN <<PCT, HexDigit(p[i] \div 16), HexDigit(p[i] % 16)>>
                 ELSE <<p[i]>>])
\* fold: replace every inner blank of a value by CR LF blank
FoldValue(v) == Concat([i \in 1..Len(v) |-> IF IsBlank(v[i]) /\ i > 1 /\ i < Len(v) THEN <<CR, LF, v[i]>> ELSE <<v[i]>>])
HttpEncode(r, fold) ==
    r.m \o <<SP>> \o r.script \o EncPath(r.path) \o (IF r.hasq THEN <<QM>> \o r.q ELSE <<>>) \o <<SP>> \o r.ver \o S_CRLF
    \o Concat([i \in 1..Len(r.hdrs) |-> r.hdrs[i].k \o <<COLON>> \o (IF fold THEN FoldValue(r.hdrs[i].v) ELSE r.hdrs[i].v) \o S_CRLF])
    \o (IF r.hasct THEN S_Content_Type \o <<COLON, SP>> \o r.ct \o S_CRLF ELSE <<>>)
    \o (IF r.hascl THEN S_Content_Length \o <<COLON>> \o Dec(Len(r.body)) \o S_CRLF ELSE <<>>)
    \o S_CRLF \o r.body

\* ------------------------------------------------------------------ mechanism layer
\* parser object of private/http_parser.h together with the buffer it shares with the connection
PInit == [state |-> "idle", hdr |-> <<>>, buf |-> <<>>, ptr |-> 0, ungot |-> <<>>, brk |-> 0]

Getc(p) == IF p.ungot # <<>> THEN [c |-> p.ungot[Len(p.ungot)], p |-> [p EXCEPT !.ungot = Take(@, Len(@) - 1)]]
           ELSE IF p.ptr < Len(p.buf) THEN [c |-> p.buf[p.ptr + 1], p |-> [p EXCEPT !.ptr = @ + 1]]
           ELSE [c |-> 0 - 1, p |-> [p EXCEPT !.buf = <<>>, !.ptr = 0]]
Ungetc(p, c) == IF p.ptr > 0 THEN [p EXCEPT !.ptr = @ - 1] ELSE [p EXCEPT !.ungot = Append(@, c)]

\* parser::step(): [p, r] with r in {"more","hdr","end","err"}
RECURSIVE PStep(_)
PStep(p0) ==
    LET g == Getc(p0)  c == g.c  p == g.p
        Add(q) == [q EXCEPT !.hdr = Append(@, c)]
    IN IF c < 0 THEN [p |-> p, r |-> "more"]
       ELSE CASE p.state = "idle" ->
                   PStep([p EXCEPT !.hdr = <<c>>,
                                   !.state = (IF c = CR THEN "last_lf" ELSE IF c = DQUOTE THEN "quote"
                                              ELSE IF c = LPAR THEN "bracket" ELSE "input"),
                                   !.brk = (IF c = LPAR THEN @ + 1 ELSE @)])
              [] p.state = "last_lf" ->
                   IF c # LF THEN [p |-> p, r |-> "err"] ELSE [p |-> [p EXCEPT !.hdr = <<>>], r |-> "end"]
              [] p.state = "lf" ->
                   IF c # LF THEN [p |-> p, r |-> "err"] ELSE PStep(Add([p EXCEPT !.state = "sp_or_other"]))
              [] p.state = "sp_or_other" ->
                   IF IsBlank(c) THEN PStep([p EXCEPT !.hdr = Append(Take(@, Len(@) - 2), c), !.state = "input"])
                   ELSE [p |-> [Ungetc(p, c) EXCEPT !.hdr = Take(@, Len(@) - 2), !.state = "idle"], r |-> "hdr"]
              [] p.state = "input" ->
                   PStep(Add([p EXCEPT !.state = (IF c = CR THEN "lf" ELSE IF c = DQUOTE THEN "quote"
                                                  ELSE IF c = LPAR THEN "bracket" ELSE "input"),
                                       !.brk = (IF c = LPAR THEN @ + 1 ELSE @)]))
              [] p.state = "quote" ->
                   PStep(Add([p EXCEPT !.state = (IF c = DQUOTE THEN "input" ELSE IF c = BSLASH THEN "pass_quote" ELSE "quote")]))
              [] p.state = "pass_quote" ->
                   IF c >= 127 THEN [p |-> p, r |-> "err"] ELSE PStep(Add([p EXCEPT !.state = "quote"]))
              [] p.state = "bracket" ->
                   PStep(Add([p EXCEPT !.brk = (IF c = RPAR THEN @ - 1 ELSE @),
                                       !.state = (IF c = RPAR /\ p.brk = 1 THEN "input"
                                                  ELSE IF c = BSLASH THEN "pass_bracket" ELSE "bracket")]))
              [] p.state = "pass_bracket" ->
                   IF c >= 127 THEN [p |-> p, r |-> "err"] ELSE PStep(Add([p EXCEPT !.state = "bracket"]))

\* connection state.  phase: "hdr" (needs a read to go on), "body", "done" (request complete), "err"
HInit == [p |-> PInit, phase |-> "hdr", first |-> FALSE, rl |-> <<>>, hl |-> <<>>, total |-> 0,
          cl |-> 0, body |-> <<>>]

HdrCap == 16384

\* the loop of http::some_headers_data_read after the buffer has been (re)filled
RECURSIVE HLoop(_, _)
HLoop(st, scripts) ==
    LET s == PStep(st.p)
        st1 == [st EXCEPT !.p = s.p]
    IN CASE s.r = "more" -> IF st.total > HdrCap THEN [st1 EXCEPT !.phase = "err"] ELSE st1
         [] s.r = "err" -> [st1 EXCEPT !.phase = "err"]
         [] s.r = "hdr" ->
              IF ~st.first
              THEN (IF FirstOf(s.p.hdr, SP, FirstOf(s.p.hdr, SP, 1) + 1) > Len(s.p.hdr) THEN [st1 EXCEPT !.phase = "err"]
                    ELSE HLoop([st1 EXCEPT !.first = TRUE, !.rl = s.p.hdr], scripts))
              ELSE (IF ~HdrLineOK(s.p.hdr) THEN [st1 EXCEPT !.phase = "err"]
                    ELSE HLoop([st1 EXCEPT !.hl = Append(@, s.p.hdr)], scripts))
         [] s.r = "end" ->
              IF ~st.first \/ ~ReqLineOK(st.rl) THEN [st1 EXCEPT !.phase = "err"]
              ELSE LET cls == EnvGet(HttpEnvOf(st.rl, st.hl, scripts), S_CONTENT_LENGTH, <<48>>)
                       cl == IF DecVal(cls) < 0 THEN 0 ELSE DecVal(cls)
                   IN [st1 EXCEPT !.cl = cl, !.phase = (IF cl > 0 THEN "body" ELSE "done")]

\* http::async_read_some while bytes are left in the shared buffer: they are served first
HDrain(st) ==
    IF st.phase # "body" \/ st.p.ptr >= Len(st.p.buf) THEN st
    ELSE LET avail == Len(st.p.buf) - st.p.ptr
             want == st.cl - Len(st.body)
             n == Min(avail, want)
             b == st.body \o SubSeq(st.p.buf, st.p.ptr + 1, st.p.ptr + n)
             np == IF st.p.ptr + n = Len(st.p.buf) THEN [st.p EXCEPT !.buf = <<>>, !.ptr = 0] ELSE [st.p EXCEPT !.ptr = @ + n]
         IN [st EXCEPT !.body = b, !.p = np, !.phase = (IF Len(b) = st.cl THEN "done" ELSE "body")]

\* (model only) forget consumed bytes except the last one, which ungetc may step back to
PNorm(p) == IF p.ptr > 1 THEN [p EXCEPT !.buf = Drop(@, p.ptr - 1), !.ptr = 1] ELSE p
HNorm(st) == [st EXCEPT !.p = PNorm(@)]

\* how many bytes the next socket read may take (0: the connection does not read now)
HWant(st) == IF st.phase = "hdr" THEN HdrCap ELSE IF st.phase = "body" THEN st.cl - Len(st.body) ELSE 0

\* one socket read delivering chunk (1 <= Len(chunk) <= HWant(st))
HFeed(st, chunk, scripts) ==
    IF st.phase = "hdr"
    THEN HNorm(HDrain(HLoop([st EXCEPT !.p = [@ EXCEPT !.buf = chunk, !.ptr = 0], !.total = @ + Len(chunk)], scripts)))
    ELSE LET b == st.body \o chunk IN [st EXCEPT !.body = b, !.phase = (IF Len(b) = st.cl THEN "done" ELSE "body")]

\* keep-alive re-arm (http::reset_all keeps the unread bytes of the shared buffer)
HRearm(st, scripts) ==
    LET fresh == [HInit EXCEPT !.p = [PInit EXCEPT !.buf = st.p.buf, !.ptr = st.p.ptr]]
    IN IF st.p.ptr < Len(st.p.buf)
       THEN HNorm(HDrain(HLoop([fresh EXCEPT !.total = Len(st.p.buf) - st.p.ptr], scripts)))
       ELSE fresh

\* what the connection hands to the application once phase = "done"
HResult(st, scripts) == [env |-> HttpEnvOf(st.rl, st.hl, scripts), body |-> st.body]
=============================================================================
