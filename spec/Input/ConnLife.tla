------------------------------ MODULE ConnLife ------------------------------
(* Property layer of C02: the life of one accepted connection as the peer,    *)
(* the application and (with the proposed hooks) the completion handler see   *)
(* it, the event loop that must survive it, and the probe that follows it.    *)
(*                                                                            *)
(* phase: Idle (no connection) -> ReadHdr -> ReadBody -> Dispatch/Respond ->  *)
(*        (keep-alive: ReadHdr ...) | Failed (error completion / upload error)*)
(*        -> Closed (reply or close seen by the peer) -> Idle after the probe *)
(* Every action is one observable event; the guards are the property:        *)
(*   AtMostOnce  per request one completion of the header phase, at most one  *)
(*               of {handler call, on_error notification}                     *)
(*   Contained   the loop never dies (there is no action for a Died event)    *)
(*   Answered    the peer sees a reply or a close, never silence; bytes that  *)
(*               are not a request end in an error status / error record /    *)
(*               close, and the reply is well-framed                          *)
(*   ProbeOK     the next connection is served with the reference observation *)
EXTENDS Naturals

VARIABLES phase,      \* "Idle","ReadHdr","ReadBody","Respond","Failed","Closed"
          hooks,      \* completion events are part of the trace
          label,      \* "bad" | "ok" | "any"
          nreq,       \* upper bound of requests the peer's bytes can contain
          prepared,   \* Prepare seen for the current cycle
          cyc,        \* completions of the header phase in the current cycle
          hc, ec, su, \* handler calls / on_error calls / filter installations in the current cycle
          served,     \* requests handed to the application on this connection
          loopAlive
cvars == <<phase, hooks, label, nreq, prepared, cyc, hc, ec, su, served, loopAlive>>

TypeOK == /\ phase \in {"Idle", "ReadHdr", "ReadBody", "Respond", "Failed", "Closed"}
          /\ cyc \in 0..1 /\ hc \in 0..1 /\ ec \in 0..1 /\ su \in 0..1
AtMostOnce == cyc <= 1 /\ hc + ec <= 1 /\ su <= 1 /\ served <= nreq
Contained == loopAlive

CInit == /\ phase = "Idle" /\ hooks = FALSE /\ label = "any" /\ nreq = 0 /\ prepared = FALSE
         /\ cyc = 0 /\ hc = 0 /\ ec = 0 /\ su = 0 /\ served = 0 /\ loopAlive = TRUE

Conn(lbl, n, hk) ==
    /\ phase = "Idle" /\ loopAlive
    /\ phase' = "ReadHdr" /\ label' = lbl /\ nreq' = n /\ hooks' = hk
    /\ prepared' = FALSE /\ cyc' = 0 /\ hc' = 0 /\ ec' = 0 /\ su' = 0 /\ served' = 0
    /\ UNCHANGED loopAlive

\* a new request cycle: the first one, or the re-arm of a kept-alive connection after a served request
Prepare ==
    /\ hooks
    /\ \/ phase = "ReadHdr" /\ ~prepared
       \/ phase = "Respond"
    /\ phase' = "ReadHdr" /\ prepared' = TRUE /\ cyc' = 0 /\ hc' = 0 /\ ec' = 0 /\ su' = 0
    /\ UNCHANGED <<hooks, label, nreq, served, loopAlive>>

\* the protocol's completion handler is called: exactly once per cycle, and an error is final
Complete(err) ==
    /\ hooks /\ phase = "ReadHdr" /\ prepared /\ cyc = 0
    /\ cyc' = 1 /\ phase' = (IF err THEN "Failed" ELSE "ReadBody")
    /\ UNCHANGED <<hooks, label, nreq, prepared, hc, ec, su, served, loopAlive>>

\* without hooks the completion is silent: application events may follow ReadHdr directly, and a
\* kept-alive connection starts its next cycle silently
Silent == ~hooks /\ phase \in {"ReadHdr", "ReadBody"}
SilentNext == ~hooks /\ phase = "Respond" /\ served < nreq
InBody == phase = "ReadBody" \/ Silent

Setup ==
    /\ \/ InBody /\ su = 0 /\ hc = 0 /\ ec = 0 /\ su' = 1 /\ UNCHANGED <<hc, ec>>
       \/ SilentNext /\ su' = 1 /\ hc' = 0 /\ ec' = 0
    /\ phase' = "ReadBody"
    /\ UNCHANGED <<hooks, label, nreq, prepared, cyc, served, loopAlive>>

Handler ==
    /\ \/ InBody /\ hc = 0 /\ ec = 0 /\ UNCHANGED su
       \/ SilentNext /\ su' = 0
    /\ served < nreq
    /\ hc' = 1 /\ ec' = 0 /\ served' = served + 1 /\ phase' = "Respond"
    /\ UNCHANGED <<hooks, label, nreq, prepared, cyc, loopAlive>>

OnError ==
    /\ InBody /\ hc = 0 /\ ec = 0 /\ su = 1          \* only a request that installed a filter is notified
    /\ ec' = 1 /\ phase' = "Failed"
    /\ UNCHANGED <<hooks, label, nreq, prepared, cyc, hc, su, served, loopAlive>>

\* what the peer saw at the end.  kind: "status" (last reply has this status), "end" (FastCGI END_REQUEST
\* without output, protocol status pstatus), "closed", "reset", "reset-by-peer" (the peer itself reset), "open"
ErrorAnswer(kind, status, pstatus, nrep) ==
    \/ kind \in {"closed", "reset", "reset-by-peer"}
    \/ kind = "end" /\ pstatus # 0
    \/ kind = "status" /\ (nrep < nreq \/ status >= 400)          \* nreq - 1 well-formed requests may precede the bad one
Reply(kind, status, pstatus, nrep, frame) ==
    /\ phase \in {"ReadHdr", "ReadBody", "Respond", "Failed"}
    /\ kind # "open"                                             \* Answered: never silence
    /\ frame                                                     \* the reply itself is well-framed
    /\ (label = "bad" => ErrorAnswer(kind, status, pstatus, nrep))
    /\ (label = "ok" => kind = "status" /\ status = 200 /\ nrep = nreq /\ served = nreq)
    /\ phase' = "Closed"
    /\ UNCHANGED <<hooks, label, nreq, prepared, cyc, hc, ec, su, served, loopAlive>>

Probe(ok) ==
    /\ phase = "Closed" /\ loopAlive /\ ok
    /\ phase' = "Idle"
    /\ UNCHANGED <<hooks, label, nreq, prepared, cyc, hc, ec, su, served, loopAlive>>

CNext == \/ \E lbl \in {"bad", "ok", "any"}, n \in 1..2, hk \in BOOLEAN : Conn(lbl, n, hk)
         \/ Prepare \/ Complete(TRUE) \/ Complete(FALSE) \/ Setup \/ Handler \/ OnError
         \/ \E k \in {"status", "end", "closed", "reset", "open"}, s \in {200, 400}, p \in 0..1, n \in 0..2 : Reply(k, s, p, n, TRUE)
         \/ Probe(TRUE)
CSpec == CInit /\ [][CNext]_cvars
\* a "bad" connection never ends with the application having answered 200 as the last word
=============================================================================
