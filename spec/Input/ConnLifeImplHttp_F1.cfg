SPECIFICATION Spec
CONSTANTS
  Proto = "http"
  MaxLen = 5
  FixF1 = FALSE
  FixF2 = TRUE
  FixF3 = TRUE
  Filter = TRUE
INVARIANTS Contained
CHECK_DEADLOCK FALSE
