------------------------------ MODULE Request ------------------------------
(* Protocol-independent abstract request and Reference(req): the observation  *)
(* the application must make, defined declaratively (no parser state, no      *)
(* notion of reads).                                                          *)
(*                                                                            *)
(* An abstract request is a record                                            *)
(*   m, script, path, q, ver, ct, body : byte strings;  hasq, hasct, hascl    *)
(*   hdrs  : sequence of [k |-> header name as on an HTTP wire, v |-> value]  *)
(*   extra : sequence of [k, v] CGI variables that belong to the server side  *)
(*           (a gateway sends them; the embedded HTTP server derives them)    *)
(* path is the *decoded* PATH_INFO, q the *raw* query string.                 *)
(* Well-formedness assumed by Reference (guaranteed by the encoders/drivers): *)
(* distinct header names, no NUL/CR/LF in header values, balanced quotes and  *)
(* comments in header values, form strings k=v(&k=v)* with non-empty k and    *)
(* valid %XX escapes, cookies token=(token|quoted-string) separated by ';'.   *)
EXTENDS Bytes

KV(k, v) == [k |-> k, v |-> v]
KVSet(s) == { <<s[i].k, s[i].v>> : i \in DOMAIN s }

\* header name -> CGI variable name (upper case, '-' -> '_')
Canon(n) == Map(n, LAMBDA c : IF c = MINUS THEN USCORE ELSE Upper(c))
HttpVar(n) == S_HTTP_ \o Canon(n)

\* --------------------------------------------------------------- forms
FormPieces(s) == LET p == Split(s, AMP)
                 IN IF Len(p) >= 1 /\ p[Len(p)] = <<>> THEN Take(p, Len(p) - 1) ELSE p
PieceOK(p) == LET e == FirstOf(p, EQ, 1) IN e > 1 /\ e <= Len(p)
FormOK(s) == \A i \in DOMAIN FormPieces(s) : PieceOK(FormPieces(s)[i])
\* decoded (name, value) pairs in the order of the text; a text that is not a form yields no fields
FormPairs(s) ==
    LET ps == FormPieces(s)
    IN IF s = <<>> \/ ~FormOK(s) THEN <<>>
       ELSE [i \in 1..Len(ps) |-> LET e == FirstOf(ps[i], EQ, 1)
                                  IN KV(UrlDecode(Take(ps[i], e - 1)), UrlDecode(Drop(ps[i], e)))]

\* media type of a Content-Type value: up to ';', trimmed, lower case
MediaType(ct) == Map(Trim(Take(ct, FirstOf(ct, SEMI, 1) - 1)), Lower)
IsForm(ct) == MediaType(ct) = S_FORM

\* --------------------------------------------------------------- cookies
\* split at ';' and ',' that are outside quoted strings
RECURSIVE CkSplit(_, _, _, _, _, _)
CkSplit(s, i, inq, esc, cur, acc) ==
    IF i > Len(s) THEN Append(acc, cur)
    ELSE LET c == s[i] IN
         IF esc THEN CkSplit(s, i + 1, inq, FALSE, Append(cur, c), acc)
         ELSE IF inq THEN CkSplit(s, i + 1, c # DQUOTE, c = BSLASH, Append(cur, c), acc)
         ELSE IF c = SEMI \/ c = COMMA THEN CkSplit(s, i + 1, FALSE, FALSE, <<>>, Append(acc, cur))
         ELSE CkSplit(s, i + 1, c = DQUOTE, FALSE, Append(cur, c), acc)
RECURSIVE Unq(_, _, _)
Unq(s, i, acc) == IF i > Len(s) \/ s[i] = DQUOTE THEN acc
                  ELSE IF s[i] = BSLASH /\ i < Len(s) THEN Unq(s, i + 2, Append(acc, s[i + 1]))
                  ELSE Unq(s, i + 1, Append(acc, s[i]))
CkValue(v) == IF v # <<>> /\ v[1] = DQUOTE THEN Unq(v, 2, <<>>) ELSE v
CkPair(p) == LET t == Trim(p)  e == FirstOf(t, EQ, 1)
             IN KV(TrimR(Take(t, e - 1)), CkValue(TrimL(Drop(t, e))))
\* name -> value (first occurrence of a name wins; "$..." attributes are not cookies)
Cookies(h) ==
    LET ps == SelectSeq(CkSplit(h, 1, FALSE, FALSE, <<>>, <<>>), LAMBDA p : Trim(p) # <<>>)
        cs == [i \in 1..Len(ps) |-> CkPair(ps[i])]
    IN { <<cs[i].k, cs[i].v>> : i \in { j \in DOMAIN cs : /\ cs[j].k # <<>>
                                                          /\ cs[j].k[1] # DOLLAR
                                                          /\ \A j2 \in 1..(j - 1) : cs[j2].k # cs[j].k } }

\* --------------------------------------------------------------- the reference observation
HdrVars(r) == { <<HttpVar(r.hdrs[i].k), r.hdrs[i].v>> : i \in DOMAIN r.hdrs }
CoreEnv(r) ==
    {<<S_REQUEST_METHOD, r.m>>, <<S_PATH_INFO, r.path>>, <<S_SERVER_PROTOCOL, r.ver>>}
    \cup (IF r.script # <<>> THEN {<<S_SCRIPT_NAME, r.script>>} ELSE {})
    \cup (IF r.hasq THEN {<<S_QUERY_STRING, r.q>>} ELSE {})
    \cup (IF r.hasct THEN {<<S_CONTENT_TYPE, r.ct>>} ELSE {})
    \cup (IF r.hascl THEN {<<S_CONTENT_LENGTH, Dec(Len(r.body))>>} ELSE {})
    \cup HdrVars(r)

CookieHeader(r) == LET w == { i \in DOMAIN r.hdrs : Canon(r.hdrs[i].k) = Canon(S_Cookie) }
                   IN IF w = {} THEN <<>> ELSE r.hdrs[CHOOSE i \in w : TRUE].v

WellFormed(r) ==
    /\ \A i, j \in DOMAIN r.hdrs : i # j => Canon(r.hdrs[i].k) # Canon(r.hdrs[j].k)
    /\ (r.body # <<>> => r.hascl)
    /\ (r.hasq => r.q = <<>> \/ FormOK(r.q))

Reference(r) ==
    [ env  |-> CoreEnv(r) \cup KVSet(r.extra),
      m    |-> r.m,  s |-> r.script,  p |-> r.path,  q |-> (IF r.hasq THEN r.q ELSE <<>>),
      get  |-> (IF r.hasq THEN FormPairs(r.q) ELSE <<>>),
      post |-> (IF r.hasct /\ IsForm(r.ct) THEN FormPairs(r.body) ELSE <<>>),
      ck   |-> Cookies(CookieHeader(r)),
      body |-> r.body ]

\* --------------------------------------------------------------- comparing an observation with it
\* form fields arrive from a multimap: ordered by name, equal names in order of appearance
SameForm(o, ref) ==
    /\ Len(o) = Len(ref)
    /\ \A key \in { ref[i].k : i \in DOMAIN ref } \cup { o[i].k : i \in DOMAIN o } :
          SelectSeq(o, LAMBDA x : x.k = key) = SelectSeq(ref, LAMBDA x : x.k = key)

\* o: observation record as logged by the echo application (status, ok, m, s, p, q, env, get, post, ck, body)
Matches(o, x) ==
    /\ o.status = 200 /\ o.ok
    /\ o.m = x.m /\ o.s = x.s /\ o.p = x.p /\ o.q = x.q
    /\ Len(o.env) = Cardinality(x.env) /\ KVSet(o.env) = x.env
    /\ SameForm(o.get, x.get)
    /\ SameForm(o.post, x.post)
    /\ Len(o.ck) = Cardinality(x.ck) /\ KVSet(o.ck) = x.ck
    /\ o.body = x.body

\* what the three front-ends have to agree on
Cross(x) == x
=============================================================================
