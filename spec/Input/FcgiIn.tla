------------------------------- MODULE FcgiIn -------------------------------
(* The FastCGI front-end (src/fastcgi_api.cpp).                               *)
(*  - Records: 8-byte header (version, type, request id, content length,      *)
(*    padding length, reserved), content, padding.  A request is              *)
(*    BEGIN_REQUEST(role, flags), PARAMS* (name/value pairs with 1- or 4-byte *)
(*    lengths, split over records anywhere), empty PARAMS, STDIN*, empty      *)
(*    STDIN.  FcgiDecode / FcgiEncode define that format declaratively.       *)
(*  - Mechanism layer: the record reader on top of the read-ahead cache       *)
(*    (cache_, cache_start_, cache_end_ with memmove compaction), PARAMS      *)
(*    reassembly, STDIN reassembly against CONTENT_LENGTH; one FFeed per      *)
(*    socket read.                                                            *)
EXTENDS ScgiIn

T_BEGIN == 1  T_ABORT == 2  T_END == 3  T_PARAMS == 4  T_STDIN == 5  T_STDOUT == 6
T_STDERR == 7  T_DATA == 8  T_GET_VALUES == 9  T_GET_VALUES_RESULT == 10  T_UNKNOWN == 11
ROLE_RESPONDER == 1

FcgiBad == [ok |-> FALSE, env |-> {}, body |-> <<>>, n |-> 0]

\* all records of w: sequence of [ver, type, rid, c (content)] ; <<"bad">> marks a malformed tail
RECURSIVE Recs(_, _, _)
Recs(w, at, acc) ==
    IF at > Len(w) THEN acc
    ELSE IF at + 7 > Len(w) THEN Append(acc, [ver |-> 0, type |-> 0, rid |-> 0, c |-> <<>>])
    ELSE LET cl == w[at + 4] * 256 + w[at + 5]
             pl == w[at + 6]
         IN IF at + 7 + cl + pl > Len(w) THEN Append(acc, [ver |-> 0, type |-> 0, rid |-> 0, c |-> <<>>])
            ELSE Recs(w, at + 8 + cl + pl,
                      Append(acc, [ver |-> w[at], type |-> w[at + 1], rid |-> w[at + 2] * 256 + w[at + 3],
                                   c |-> SubSeq(w, at + 8, at + 7 + cl)]))

\* name-value pairs: length < 128 in one byte, otherwise four bytes with the top bit set
LenAt(s, i) == IF i > Len(s) THEN [ok |-> FALSE, v |-> 0, n |-> 0]
               ELSE IF s[i] < 128 THEN [ok |-> TRUE, v |-> s[i], n |-> 1]
               ELSE IF i + 3 > Len(s) \/ s[i] % 128 >= 64 THEN [ok |-> FALSE, v |-> 0, n |-> 0]   \* (>= 2^30 never fits; keeps TLC's 32-bit integers safe)
               ELSE [ok |-> TRUE, v |-> ((s[i] % 128) * 16777216) + s[i + 1] * 65536 + s[i + 2] * 256 + s[i + 3], n |-> 4]
\* [ok, ps]: the pairs in order; ok = FALSE if a length runs past the end (pairs before it are kept)
RECURSIVE NvPairs(_, _, _)
NvPairs(s, i, acc) ==
    IF i > Len(s) THEN [ok |-> TRUE, ps |-> acc]
    ELSE LET a == LenAt(s, i)
             b == LenAt(s, i + a.n)
         IN IF ~a.ok \/ ~b.ok THEN [ok |-> FALSE, ps |-> acc]
            ELSE LET p == i + a.n + b.n IN
                 IF p - 1 + a.v + b.v > Len(s) THEN [ok |-> FALSE, ps |-> acc]
                 ELSE NvPairs(s, p + a.v + b.v, Append(acc, KV(SubSeq(s, p, p + a.v - 1), SubSeq(s, p + a.v, p + a.v + b.v - 1))))

FcgiDecode(w) ==
    LET rs == Recs(w, 1, <<>>)
        n == Len(rs)
    IN IF n < 4 \/ \E i \in 1..n : rs[i].ver # 1 THEN FcgiBad
       ELSE LET b == rs[1]
                pe == Where(rs, LAMBDA i : i > 1 /\ rs[i].c = <<>>)       \* empty records
            IN IF b.type # T_BEGIN \/ Len(b.c) # 8 \/ b.c[1] * 256 + b.c[2] # ROLE_RESPONDER \/ Len(pe) # 2 \/ pe[2] # n THEN FcgiBad
               ELSE IF \E i \in 2..pe[1] : rs[i].type # T_PARAMS \/ rs[i].rid # b.rid THEN FcgiBad
               ELSE IF \E i \in (pe[1] + 1)..n : rs[i].type # T_STDIN \/ rs[i].rid # b.rid THEN FcgiBad
               ELSE LET ps == NvPairs(Concat([i \in 1..(pe[1] - 2) |-> rs[i + 1].c]), 1, <<>>)
                        body == Concat([i \in 1..(n - pe[1] - 1) |-> rs[pe[1] + i].c])
                        env == KVSet(ps.ps)
                        cl == DecVal(EnvGetS(env, S_CONTENT_LENGTH, <<48>>))
                    IN IF ~ps.ok \/ Len(ps.ps) # Cardinality(env) \/ cl # Len(body) THEN FcgiBad
                       ELSE [ok |-> TRUE, env |-> env, body |-> body, n |-> Len(w)]

\* ------------------------------------------------------------------ encoder (Leg D)
Rec(type, rid, c, pad) == <<1, type, rid \div 256, rid % 256, Len(c) \div 256, Len(c) % 256, pad, 0>> \o c \o [i \in 1..pad |-> 165]
NvLen(n, four) == IF n < 128 /\ ~four THEN <<n>> ELSE <<128 + (n \div 16777216), (n \div 65536) % 256, (n \div 256) % 256, n % 256>>
NvEncode(v, four) == Concat([i \in 1..Len(v) |-> NvLen(Len(v[i].k), four) \o NvLen(Len(v[i].v), four) \o v[i].k \o v[i].v])
\* cut a stream at the given ascending positions into records, then the empty terminator
Pieces(s, cuts) == [k \in 1..(Len(cuts) + 1) |-> SubSeq(s, (IF k = 1 THEN 1 ELSE cuts[k - 1] + 1), (IF k = Len(cuts) + 1 THEN Len(s) ELSE cuts[k]))]
Stream(type, rid, s, cuts, pad) ==
    LET ps == SelectSeq(Pieces(s, cuts), LAMBDA p : p # <<>>)
    IN Concat([k \in 1..Len(ps) |-> Rec(type, rid, ps[k], pad)]) \o Rec(type, rid, <<>>, pad)
FcgiEncode(r, rid, four, pcuts, scuts, pad) ==
    Rec(T_BEGIN, rid, <<0, ROLE_RESPONDER, 0, 0, 0, 0, 0, 0>>, pad)
    \o Stream(T_PARAMS, rid, NvEncode(CgiVars(r), four), pcuts, pad)
    \o Stream(T_STDIN, rid, r.body, scuts, pad)

\* ------------------------------------------------------------------ mechanism layer
\* cache: the bytes cache_[0 .. cache_end_), start: cache_start_; stage "hdr" / "cont": waiting for a record
\* header / for content+padding; after: which handler receives the completed record
FInit == [phase |-> "run", cache |-> <<>>, start |-> 0, stage |-> "hdr", h |-> [ver |-> 0, type |-> 0, rid |-> 0, cl |-> 0, pl |-> 0],
          rec |-> <<>>, after |-> "start", rid |-> 0, env |-> {}, envok |-> TRUE, cl |-> 0, body |-> <<>>]
ParamsCap == 16384

FNeed(st) == IF st.stage = "hdr" THEN 8 ELSE st.h.cl + st.h.pl
FAvail(st) == Len(st.cache) - st.start

\* a complete record (header in st.h, accumulated content in st.rec) reaches its handler
FRecord(st) ==
    CASE st.after = "start" ->
           IF st.h.ver # 1 THEN [st EXCEPT !.phase = "err"]
           ELSE IF st.h.type # T_BEGIN THEN [st EXCEPT !.rec = <<>>]                  \* other record types are skipped
           ELSE IF Len(st.rec) # 8 \/ st.rec[1] * 256 + st.rec[2] # ROLE_RESPONDER THEN [st EXCEPT !.phase = "err"]
           ELSE [st EXCEPT !.rid = st.h.rid, !.rec = <<>>, !.after = "params"]
      [] st.after = "params" ->
           IF st.h.type # T_PARAMS \/ st.h.rid # st.rid THEN [st EXCEPT !.phase = "err"]
           ELSE IF st.h.cl # 0 THEN (IF Len(st.rec) < ParamsCap THEN st ELSE [st EXCEPT !.phase = "err"])
           ELSE LET ps == NvPairs(st.rec, 1, <<>>)
                    env == KVSet(ps.ps)
                    cls == EnvGetS(env, S_CONTENT_LENGTH, <<48>>)
                    cl == IF DecVal(cls) < 0 THEN 0 ELSE DecVal(cls)
                IN [st EXCEPT !.env = env, !.envok = ps.ok, !.rec = <<>>, !.cl = cl,
                              !.after = (IF cl = 0 THEN "stdin_eof" ELSE "stdin_data")]
      [] st.after = "stdin_data" ->
           IF st.h.type # T_STDIN \/ st.h.rid # st.rid \/ st.h.cl = 0 \/ Len(st.body) + Len(st.rec) > st.cl THEN [st EXCEPT !.phase = "err"]
           ELSE LET b == st.body \o st.rec
                IN [st EXCEPT !.body = b, !.rec = <<>>, !.after = (IF Len(b) = st.cl THEN "stdin_eof" ELSE "stdin_data")]
      [] st.after = "stdin_eof" ->
           IF st.h.type # T_STDIN \/ st.h.cl # 0 THEN [st EXCEPT !.phase = "err"]
           ELSE [st EXCEPT !.phase = "done"]

\* consume what the cache holds (fastcgi::async_read_from_socket served from the cache)
RECURSIVE FRun(_)
FRun(st) ==
    IF st.phase # "run" THEN st
    ELSE IF FAvail(st) < FNeed(st)
    THEN \* not enough: compaction before the next socket read
         (IF st.start = Len(st.cache) THEN [st EXCEPT !.cache = <<>>, !.start = 0]
          ELSE IF st.start # 0 THEN [st EXCEPT !.cache = Drop(@, st.start), !.start = 0] ELSE st)
    ELSE IF st.stage = "hdr"
    THEN LET a == st.start
             h == [ver |-> st.cache[a + 1], type |-> st.cache[a + 2], rid |-> st.cache[a + 3] * 256 + st.cache[a + 4],
                   cl |-> st.cache[a + 5] * 256 + st.cache[a + 6], pl |-> st.cache[a + 7]]
             s1 == [st EXCEPT !.h = h, !.start = a + 8]
         IN IF h.cl + h.pl = 0 THEN FRun(FRecord(s1)) ELSE FRun([s1 EXCEPT !.stage = "cont"])
    ELSE LET a == st.start
             s1 == [st EXCEPT !.rec = @ \o SubSeq(st.cache, a + 1, a + st.h.cl), !.start = a + st.h.cl + st.h.pl, !.stage = "hdr"]
         IN FRun(FRecord(s1))

\* room of the next read_some: the cache has Cap bytes (or as many as the pending request needs)
FWant(st, Cap) == IF st.phase # "run" THEN 0 ELSE Max(Cap, FNeed(st)) - Len(st.cache)
FFeed(st, chunk) == FRun([st EXCEPT !.cache = @ \o chunk])

FResult(st) == [env |-> st.env, body |-> st.body]
=============================================================================
