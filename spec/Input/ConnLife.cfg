SPECIFICATION CSpec
INVARIANTS TypeOK AtMostOnce Contained
CHECK_DEADLOCK FALSE
