-------------------------------- MODULE Input --------------------------------
(* Leg D of C01.  One connection of one front-end (CONSTANT Proto): the peer   *)
(* encodes a short abstract request (or a keep-alive chain), the network       *)
(* delivers the byte stream in arbitrary pieces, the front-end's incremental    *)
(* parser (mechanism layer of HttpIn/ScgiIn/FcgiIn) takes what is available,   *)
(* at most what its pending read asks for (ServerRead).  TLC explores every    *)
(* sequence of read sizes the code can see.                                    *)
(*   SegInv   : whatever the segmentation, a completed request is observed as  *)
(*              Reference(request)                                             *)
(*   NotStuck : once everything was delivered and consumed every request of    *)
(*              the connection has been completed (nothing lost, nothing left) *)
(*   CrossInv : the three encodings of the request decode to the same          *)
(*              observation (and the TLA+ encoders/decoders are inverse)       *)
EXTENDS FcgiIn, HttpIn

CONSTANTS Proto,       \* "http" | "scgi" | "fcgi"
          Level,       \* size of the request family (1 quick, 2 full)
          MaxChain,    \* keep-alive chain length (http)
          Pads,        \* FastCGI padding lengths explored
          Caps,        \* FastCGI read-ahead cache sizes explored
          MaxRead      \* 0: every read size; k > 0: read sizes 1..k and "everything available"

VARIABLES reqs, ref, wire, taken, st, obs, cap
vars == <<reqs, ref, wire, taken, st, obs, cap>>

\* ------------------------------------------------------------------ the request family
ScriptsM == << <<47, 115>> >>                       \* http.script_names = ["/s"]
c_G == <<71>>  c_H == <<72>>
h1 == KV(<<65>>, <<98, 32, 99, 9, 100>>)                                  \* A: b c<HT>d   (foldable)
h2 == KV(<<81>>, <<34, 97, 92, 34, 98, 34, 32, 40, 99, 92, 41, 41>>)      \* Q: "a\"b" (c\))
h3 == KV(S_Cookie, <<107, 61, 118>>)                                      \* Cookie: k=v
h4 == KV(<<88, 45, 121>>, <<>>)                                           \* X-y: (empty)
Req(script, path, hasq, q, hdrs, hascl, body, hasct, ct) ==
    [m |-> c_G, script |-> script, path |-> path, hasq |-> hasq, q |-> q, ver |-> c_H, hdrs |-> hdrs,
     hasct |-> hasct, ct |-> ct, hascl |-> hascl, body |-> body, extra |-> <<>>]

PathsOf(script) == {<<47>>, <<47, 97>>, <<47, 37, 43, 63>>, <<47, 97, 32, 200>>} \cup (IF script # <<>> THEN {<<>>} ELSE {})
Queries == {<<FALSE, <<>>>>, <<TRUE, <<120, 61, 49>>>>, <<TRUE, <<97, 61, 37, 52, 49, 43, 38, 98, 61>>>>}          \* none, x=1, a=%41+&b=
HdrLists == IF Level >= 2 THEN {<<>>, <<h1>>, <<h2>>, <<h4>>, <<h1, h3>>, <<h3, h2>>} ELSE {<<>>, <<h1>>, <<h2>>, <<h4, h3>>}
Bodies == {<<FALSE, <<>>, FALSE, <<>>>>, <<TRUE, <<122>>, FALSE, <<>>>>, <<TRUE, <<>>, FALSE, <<>>>>,
           <<TRUE, <<97, 61, 49, 38, 98, 61, 37, 50, 48>>, TRUE, S_FORM>>}                                     \* a=1&b=%20

HttpFamily ==
    { Req(sc, p, qq[1], qq[2], hs, b[1], b[2], b[3], b[4]) :
        sc \in {<<>>, <<47, 115>>}, p \in PathsOf(<<47, 115>>), qq \in Queries, hs \in HdrLists, b \in Bodies }
WellScripted(r) == r.script # <<>> \/ r.path # <<>>
\* gateways carry decoded values: the variety that matters is lengths, bodies and special bytes in values
GatewayFamily ==
    { Req(<<47, 115>>, p, qq[1], qq[2], hs, b[1], b[2], b[3], b[4]) :
        p \in {<<>>, <<47, 97, 32, 200>>},
        qq \in (IF Level >= 2 THEN {<<FALSE, <<>>>>, <<TRUE, <<120, 61, 49>>>>} ELSE {<<TRUE, <<120, 61, 49>>>>}),
        hs \in (IF Level >= 2 THEN {<<>>, <<h1>>, <<h2, h3>>} ELSE {<<>>, <<h2, h3>>}), b \in Bodies }
Base1 == Req(<<47, 115>>, <<47, 97>>, TRUE, <<120, 61, 49>>, <<h1>>, FALSE, <<>>, FALSE, <<>>)
Base2 == Req(<<>>, <<47, 97, 32, 200>>, FALSE, <<>>, <<h2>>, TRUE, <<97, 61, 49, 38, 98, 61, 37, 50, 48>>, TRUE, S_FORM)
Differs(r, b) == Cardinality({ f \in {"script", "path", "q", "hdrs", "body"} : r[f] # b[f] }) <= 1
Family0 == LET all == IF Proto = "http" THEN { r \in HttpFamily : WellScripted(r) } ELSE GatewayFamily
           IN IF Level >= 2 \/ Proto # "http" THEN all ELSE { r \in all : Differs(r, Base1) \/ Differs(r, Base2) }
Family == IF Level = 0 THEN { r \in Family0 : r.hdrs = <<h1>> /\ r.path = <<47, 97>> } ELSE Family0

\* second request of a keep-alive chain
ChainTail == { Req(<<47, 115>>, <<47, 97>>, FALSE, <<>>, <<>>, FALSE, <<>>, FALSE, <<>>),
               Req(<<>>, <<47>>, TRUE, <<120, 61, 49>>, <<h1>>, TRUE, <<122, 122>>, FALSE, <<>>) }
ChainHead == { r \in Family : r.hdrs \in {<<>>, <<h1>>} /\ r.path \in {<<47>>, <<47, 97>>} /\ ~r.hasq }

\* ------------------------------------------------------------------ encodings explored
\* FastCGI: record boundaries inside the PARAMS and STDIN streams, padding, 1- or 4-byte lengths
CutChoices(n) == IF n < 2 THEN {<<>>}
                 ELSE {<<>>, <<1>>, <<n - 1>>, <<1, 2>>} \cup (IF n > 4 THEN {<<2, n \div 2>>, <<n \div 2, n - 1>>} ELSE {})
                      \cup (IF Level >= 2 /\ n > 6 THEN {<<3>>, <<n \div 2>>, <<1, 2, 3>>} ELSE {})
Wires(r) ==
    CASE Proto = "http" -> { HttpEncode(r, f) : f \in BOOLEAN }
      [] Proto = "scgi" -> { ScgiEncode(r) }
      [] Proto = "fcgi" ->
           LET np == Len(NvEncode(CgiVars(r), FALSE))
               nb == Len(r.body)
               pcs == <<<<>>, <<1>>, <<np - 1>>, <<1, 2>>, <<2, np \div 2>>, <<np \div 2, np - 1>>, <<3>>, <<np \div 2>>, <<1, 2, 3>>>>
               scs == <<<<>>, (IF nb > 1 THEN <<1>> ELSE <<>>), <<>>, (IF nb > 2 THEN <<1, 2>> ELSE <<>>), (IF nb > 1 THEN <<nb - 1>> ELSE <<>>),
                        <<>>, (IF nb > 3 THEN <<2, 3>> ELSE <<>>), (IF nb > 1 THEN <<nb \div 2>> ELSE <<>>), <<>>>>
           IN IF Level >= 2
              THEN \* every padding 0..7 with every kind of PARAMS/STDIN record boundary (parity-balanced), both length forms
                   UNION { { FcgiEncode(r, 258, k % 3 = 0, pcs[k], scs[k], pad) : k \in { j \in 1..9 : (pad + j) % 2 = 0 } } : pad \in Pads }
              ELSE \* every kind of record boundary once, paddings and both length forms spread over them
                   { FcgiEncode(r, 258, o[1], o[2], o[3], o[4]) :
                       o \in { <<FALSE, <<>>, <<>>, 0>>, <<FALSE, <<1>>, (IF nb > 1 THEN <<1>> ELSE <<>>), 7>>,
                               <<TRUE, <<1, 2>>, <<>>, 3>>, <<FALSE, <<np - 1>>, (IF nb > 2 THEN <<1, 2>> ELSE <<>>), 1>>,
                               <<TRUE, <<2, np \div 2>>, (IF nb > 1 THEN <<nb - 1>> ELSE <<>>), 7>>, <<FALSE, <<np \div 2, np - 1>>, <<>>, 5>> } }

\* ------------------------------------------------------------------ observation
Derive(res) ==
    [ env |-> res.env, body |-> res.body,
      get |-> FormPairs(EnvGetS(res.env, S_QUERY_STRING, <<>>)),
      post |-> (IF IsForm(EnvGetS(res.env, S_CONTENT_TYPE, <<>>)) THEN FormPairs(res.body) ELSE <<>>),
      ck |-> Cookies(EnvGetS(res.env, S_HTTP_COOKIE, <<>>)) ]
RefObs(r) == LET x == Reference(r) IN [env |-> x.env, body |-> x.body, get |-> x.get, post |-> x.post, ck |-> x.ck]

ProtoInit == CASE Proto = "http" -> HInit [] Proto = "scgi" -> SInit [] Proto = "fcgi" -> FInit
Want(s) == CASE Proto = "http" -> HWant(s) [] Proto = "scgi" -> SWant(s) [] Proto = "fcgi" -> FWant(s, cap)
Feed(s, chunk) == CASE Proto = "http" -> HFeed(s, chunk, ScriptsM) [] Proto = "scgi" -> SFeed(s, chunk) [] Proto = "fcgi" -> FFeed(s, chunk)
Result(s) == CASE Proto = "http" -> HResult(s, ScriptsM) [] Proto = "scgi" -> SResult(s) [] Proto = "fcgi" -> FResult(s)

\* a completed request is handed over; a kept-alive HTTP connection re-arms with what is left in its buffer
RECURSIVE Settle(_, _, _)
Settle(s, o, n) ==
    IF s.phase # "done" THEN [st |-> s, obs |-> o]
    ELSE LET o1 == Append(o, Derive(Result(s)))
         IN IF Proto = "http" /\ Len(o1) < n THEN Settle(HRearm(s, ScriptsM), o1, n)
            ELSE [st |-> s, obs |-> o1]

Init ==
    /\ \/ \E r \in Family : \E w \in Wires(r) : reqs = <<r>> /\ wire = w
       \/ /\ Proto = "http" /\ MaxChain >= 2
          /\ \E r1 \in ChainHead, r2 \in ChainTail, f \in BOOLEAN :
                reqs = <<r1, r2>> /\ wire = HttpEncode(r1, f) \o HttpEncode(r2, ~f)
    /\ cap \in Caps
    /\ ref = [i \in DOMAIN reqs |-> RefObs(reqs[i])]
    /\ taken = 0 /\ st = ProtoInit /\ obs = <<>>

\* one socket read: the front-end gets n bytes, 1 <= n <= what its pending read asks for.  Every sequence of
\* read sizes that some delivery schedule of the network can produce is a behaviour.
CanRead == taken < Len(wire) /\ st.phase \notin {"done", "err"} /\ Want(st) > 0
ReadSizes(m) == IF MaxRead = 0 THEN 1..m ELSE (1..Min(m, MaxRead)) \cup {m}
ServerRead ==
    /\ CanRead
    /\ \E n \in ReadSizes(Min(Want(st), Len(wire) - taken)) :
          LET r == Settle(Feed(st, SubSeq(wire, taken + 1, taken + n)), obs, Len(reqs))
          IN taken' = taken + n /\ st' = r.st /\ obs' = r.obs
    /\ UNCHANGED <<reqs, ref, wire, cap>>

Next == ServerRead
Spec == Init /\ [][Next]_vars

SegInv == /\ Len(obs) <= Len(reqs)
          /\ \A i \in DOMAIN obs : obs[i] = ref[i]
          /\ st.phase # "err"
NotStuck == ~CanRead => (Len(obs) = Len(reqs) /\ taken = Len(wire))

\* evaluated once per connection: the three encodings of the request agree
CrossInv ==
    (taken = 0) =>
        \A i \in DOMAIN reqs :
            LET r == reqs[i]
                x == RefObs(r)
                h == HttpDecode(HttpEncode(r, TRUE), ScriptsM)
                s == ScgiDecode(ScgiEncode(r))
                f == FcgiDecode(FcgiEncode(r, 1, FALSE, <<>>, <<>>, 0))
                hOK == (r.script = <<>> => r.path # <<>>) => (h.ok /\ Derive(h) = x)
            IN WellFormed(r) /\ hOK /\ s.ok /\ Derive(s) = x /\ f.ok /\ Derive(f) = x
=============================================================================
