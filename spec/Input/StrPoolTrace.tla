---------------------------- MODULE StrPoolTrace ----------------------------
(* Leg B: the real cppcms::impl::string_pool driven with random add / alloc /   *)
(* clear sequences (harness/input/strpool_drv.cpp).  After every call the       *)
(* harness logs the requested size, where the returned block lies (offset in    *)
(* which malloc'ed page, page capacity = malloc_usable_size - header) and the    *)
(* pool's own bookkeeping (used, free of the current page, its real capacity).   *)
(* Accepted iff the call is a step of StrPool (same used / free as the model)    *)
(* AND the property holds on the REAL capacities: the block handed out lies      *)
(* inside its page and used + free <= capacity of the current page.              *)
EXTENDS StrPool, TraceBase

VARIABLE l
tvars == <<vars, l>>
Ev == TraceLog[l]
Is(name) == l <= NLines /\ Ev.e = name /\ l' = l + 1

Safe == /\ Ev.used + Ev.free <= Ev.cap
        /\ (Has(Ev, "off") => Ev.off + Ev.n <= Ev.pcap)

TReset == Is("Reset") /\ pages' = <<PageSize>> /\ used' = 0 /\ free' = PageSize /\ lastop' = "init"
TAlloc ==
    /\ Is("Alloc")
    /\ (AllocBig(Ev.n) \/ AllocSmall(Ev.n))
    /\ used' = Ev.used
    /\ free' = Ev.free
    /\ Safe
TClear ==
    /\ Is("Clear")
    /\ Clear
    /\ used' = Ev.used
    /\ free' = Ev.free
    /\ Safe

TNext == TReset \/ TAlloc \/ TClear
TInit == Init /\ l = 1
TraceSpec == TInit /\ [][TNext]_tvars
=============================================================================
