SPECIFICATION Spec
CONSTANTS
  Proto = "fcgi"
  Level = 1
  MaxChain = 1
  Pads = {0,1,7}
  Caps = {16384}
INVARIANTS SegInv NotStuck CrossInv
CHECK_DEADLOCK FALSE
