--------------------------- MODULE ConnLifeTrace ---------------------------
(* Leg B of C02: a trace of harness/input/input_drv.cpp (mode c02) is accepted *)
(* iff every line is an action of ConnLife.  Died / Late / Early lines have no  *)
(* action (Early: the application was called, or a reply was there, before the *)
(* peer had sent the last segment of a still incomplete request).               *)
(* Executions (Reset-delimited cases) are independent, so every Reset line is  *)
(* an initial state and TLC judges all cases in one run: a case is accepted    *)
(* iff its behaviour reaches the next Reset line ("AT" lines report the         *)
(* progress; lib/inputlib.py turns the cases that stop early into rejections).  *)
EXTENDS ConnLife, FcgiIn, HttpIn, TraceBase

Scripts == << <<47,115,121,110,99>>, <<47,97,115,121,110,99>>, <<47,102,105,108,116>>,
             <<47,114,97,119,102>>, <<47,109,112,102>> >>                      \* /sync /async /filt /rawf /mpf

VARIABLES l, start
tvars == <<cvars, l, start>>
Ev == TraceLog[l]
Is(name) == l <= NLines /\ Ev.e = name /\ l' = l + 1 /\ start' = start

Decodes(e) == CASE e.proto = "http" -> HttpDecode(e.bytes, Scripts).ok
                [] e.proto = "scgi" -> ScgiDecode(e.bytes).ok
                [] e.proto = "fcgi" -> FcgiDecode(e.bytes).ok

TReset == /\ Is("Reset") /\ l = start                      \* only the first line of a case
          /\ phase' = "Idle" /\ hooks' = FALSE /\ label' = "any" /\ nreq' = 0 /\ prepared' = FALSE
          /\ cyc' = 0 /\ hc' = 0 /\ ec' = 0 /\ su' = 0 /\ served' = 0 /\ loopAlive' = TRUE
TConn  == /\ Is("Conn")
          \* the driver's label is bound to the bytes: what it calls malformed is not a request by the decoders
          /\ (Ev.label = "bad" /\ Ev.nreq = 1 /\ Ev.hasbytes => ~Decodes(Ev))
          /\ Conn(Ev.label, Ev.nreq, Ev.hooks)
TPrepare  == Is("Prepare") /\ Prepare
TComplete == Is("Complete") /\ Complete(Ev.ec # 0)
TSetup    == Is("Setup") /\ Setup
THandler  == Is("Handler") /\ Handler
TOnError  == Is("OnError") /\ OnError
\* What the application saw of a structurally odd header block (Seen line, only when the request was served): every
\* (name, value) of its environment is a (name, value) pair of the block THIS peer sent - consecutive NUL-terminated
\* strings of the SCGI netstring, name-value pairs of the FastCGI PARAMS stream - and nothing carries the marker
\* of the connection served just before.
SentPairs(e) ==
    CASE e.proto = "scgi" ->
           LET w == e.sent
               colon == FirstOf(w, COLON, 1)
               len == DecVal(Take(w, colon - 1))
               f == Split(SubSeq(w, colon + 1, colon + len), NUL)
               n == Len(f) - 1                                  \* number of NUL-terminated strings
           IN { <<f[2 * i - 1], f[2 * i]>> : i \in 1..(n \div 2) }
      [] e.proto = "fcgi" ->
           LET ps == SelectSeq(Recs(e.sent, 1, <<>>), LAMBDA r : r.type = T_PARAMS)
           IN KVSet(NvPairs(Concat([i \in 1..Len(ps) |-> ps[i].c]), 1, <<>>).ps)
      [] OTHER -> {}
TSeen == /\ Is("Seen")
         /\ Ev.ok
         /\ KVSet(Ev.env) \subseteq SentPairs(Ev)
         /\ \A i \in DOMAIN Ev.env : ~IsSubstr(Ev.marker, Ev.env[i].k) /\ ~IsSubstr(Ev.marker, Ev.env[i].v)
         /\ UNCHANGED cvars

TReply    == Is("Reply") /\ Reply(Ev.kind, Ev.status, Ev.pstatus, Ev.nrep, Ev.frame)

AbsOf(e) == [m |-> e.m, script |-> e.script, path |-> e.path, hasq |-> e.hasq, q |-> e.q, ver |-> e.ver,
             hdrs |-> e.hdrs, hasct |-> e.hasct, ct |-> e.ct, hascl |-> e.hascl, body |-> e.body, extra |-> e.extra]
TProbe == Is("Probe") /\ Probe(Matches(Ev.o, Reference(AbsOf(Ev))))

TraceInit == CInit /\ l \in { i \in 1..NLines : TraceLog[i].e = "Reset" } /\ start = l
TraceNext == /\ (TReset \/ TConn \/ TPrepare \/ TComplete \/ TSetup \/ THandler \/ TOnError \/ TSeen \/ TReply \/ TProbe)
             /\ PrintT(<<"AT", start, l>>)          \* reached only when line l was matched
TraceSpec == TraceInit /\ [][TraceNext]_tvars
=============================================================================
