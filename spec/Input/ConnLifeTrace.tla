--------------------------- MODULE ConnLifeTrace ---------------------------
(* Leg B of C02: a trace of harness/input/input_drv.cpp (mode c02) is accepted *)
(* iff every line is an action of ConnLife.  Died / Late / Early lines have no  *)
(* action (Early: the application was called, or a reply was there, before the *)
(* peer had sent the last segment of a still incomplete request).               *)
(* Executions (Reset-delimited cases) are independent, so every Reset line is  *)
(* an initial state and TLC judges all cases in one run: a case is accepted    *)
(* iff its behaviour reaches the next Reset line ("AT" lines report the         *)
(* progress; lib/inputlib.py turns the cases that stop early into rejections).  *)
EXTENDS ConnLife, FcgiIn, HttpIn, TraceBase

Scripts == << <<47,115,121,110,99>>, <<47,97,115,121,110,99>>, <<47,102,105,108,116>>,
             <<47,114,97,119,102>>, <<47,109,112,102>> >>                      \* /sync /async /filt /rawf /mpf

VARIABLES l, start
tvars == <<cvars, l, start>>
Ev == TraceLog[l]
Is(name) == l <= NLines /\ Ev.e = name /\ l' = l + 1 /\ start' = start

Decodes(e) == CASE e.proto = "http" -> HttpDecode(e.bytes, Scripts).ok
                [] e.proto = "scgi" -> ScgiDecode(e.bytes).ok
                [] e.proto = "fcgi" -> FcgiDecode(e.bytes).ok

TReset == /\ Is("Reset") /\ l = start                      \* only the first line of a case
          /\ phase' = "Idle" /\ hooks' = FALSE /\ label' = "any" /\ nreq' = 0 /\ prepared' = FALSE
          /\ cyc' = 0 /\ hc' = 0 /\ ec' = 0 /\ su' = 0 /\ served' = 0 /\ loopAlive' = TRUE
TConn  == /\ Is("Conn")
          \* the driver's label is bound to the bytes: what it calls malformed is not a request by the decoders
          /\ (Ev.label = "bad" /\ Ev.nreq = 1 /\ Ev.hasbytes => ~Decodes(Ev))
          /\ Conn(Ev.label, Ev.nreq, Ev.hooks)
TPrepare  == Is("Prepare") /\ Prepare
TComplete == Is("Complete") /\ Complete(Ev.ec # 0)
TSetup    == Is("Setup") /\ Setup
THandler  == Is("Handler") /\ Handler
TOnError  == Is("OnError") /\ OnError
TReply    == Is("Reply") /\ Reply(Ev.kind, Ev.status, Ev.pstatus, Ev.nrep, Ev.frame)

AbsOf(e) == [m |-> e.m, script |-> e.script, path |-> e.path, hasq |-> e.hasq, q |-> e.q, ver |-> e.ver,
             hdrs |-> e.hdrs, hasct |-> e.hasct, ct |-> e.ct, hascl |-> e.hascl, body |-> e.body, extra |-> e.extra]
TProbe == Is("Probe") /\ Probe(Matches(Ev.o, Reference(AbsOf(Ev))))

TraceInit == CInit /\ l \in { i \in 1..NLines : TraceLog[i].e = "Reset" } /\ start = l
TraceNext == /\ (TReset \/ TConn \/ TPrepare \/ TComplete \/ TSetup \/ THandler \/ TOnError \/ TReply \/ TProbe)
             /\ PrintT(<<"AT", start, l>>)          \* reached only when line l was matched
TraceSpec == TraceInit /\ [][TraceNext]_tvars
=============================================================================
