------------------------------- MODULE ScgiIn -------------------------------
(* The SCGI front-end (src/scgi_api.cpp): a netstring  <len>:<k>NUL<v>NUL...,  *)
(* followed by CONTENT_LENGTH bytes of body.                                  *)
(*  - ScgiDecode / ScgiEncode: declarative wire format.                       *)
(*  - Mechanism layer: the first 16 bytes are read eagerly, then the rest of   *)
(*    the netstring, then the body; one SFeed per socket read.                *)
EXTENDS Request

ScgiBad == [ok |-> FALSE, env |-> {}, body |-> <<>>, n |-> 0]

\* NUL-separated pairs of a netstring content (must end with NUL, even number of fields)
PairsOK(c) == c # <<>> /\ c[Len(c)] = NUL /\ (Len(Split(c, NUL)) - 1) % 2 = 0
PairSet(c) == LET f == Split(c, NUL) IN { <<f[2 * i - 1], f[2 * i]>> : i \in 1..((Len(f) - 1) \div 2) }
PairKeysDistinct(c) == LET f == Split(c, NUL) IN \A i, j \in 1..((Len(f) - 1) \div 2) : i # j => f[2 * i - 1] # f[2 * j - 1]

EnvGetS(env, k, dflt) == IF \E x \in env : x[1] = k THEN (CHOOSE x \in env : x[1] = k)[2] ELSE dflt

ScgiDecode(w) ==
    LET colon == FirstOf(w, COLON, 1)
        len == DecVal(Take(w, colon - 1))
    IN IF colon > Len(w) \/ len < 0 \/ colon + len + 1 > Len(w) THEN ScgiBad
       ELSE LET c == SubSeq(w, colon + 1, colon + len)
            IN IF w[colon + len + 1] # COMMA \/ ~PairsOK(c) THEN ScgiBad
               ELSE LET env == PairSet(c)
                        cl == DecVal(EnvGetS(env, S_CONTENT_LENGTH, <<48>>))
                        at == colon + len + 1
                    IN IF cl < 0 \/ at + cl > Len(w) THEN ScgiBad
                       ELSE [ok |-> TRUE, env |-> env, body |-> SubSeq(w, at + 1, at + cl), n |-> at + cl]

\* what a gateway sends for an abstract request: CONTENT_LENGTH first, then the other variables
CgiVars(r) ==
    (IF r.hascl THEN <<KV(S_CONTENT_LENGTH, Dec(Len(r.body)))>> ELSE <<>>)
    \o <<KV(S_REQUEST_METHOD, r.m)>>
    \o (IF r.script # <<>> THEN <<KV(S_SCRIPT_NAME, r.script)>> ELSE <<>>)
    \o <<KV(S_PATH_INFO, r.path)>>
    \o (IF r.hasq THEN <<KV(S_QUERY_STRING, r.q)>> ELSE <<>>)
    \o <<KV(S_SERVER_PROTOCOL, r.ver)>>
    \o (IF r.hasct THEN <<KV(S_CONTENT_TYPE, r.ct)>> ELSE <<>>)
    \o [i \in 1..Len(r.hdrs) |-> KV(HttpVar(r.hdrs[i].k), r.hdrs[i].v)]
    \o r.extra

ScgiEncode(r) ==
    LET v == CgiVars(r)
        c == Concat([i \in 1..Len(v) |-> v[i].k \o <<NUL>> \o v[i].v \o <<NUL>>])
    IN Dec(Len(c)) \o <<COLON>> \o c \o <<COMMA>> \o r.body

\* ------------------------------------------------------------------ mechanism layer
SInit == [phase |-> "first", buf |-> <<>>, sep |-> 0, need |-> 16, env |-> {}, cl |-> 0, body |-> <<>>]
SCap == 16384

SWant(st) == CASE st.phase = "first" -> 16 - Len(st.buf)
               [] st.phase = "rest" -> st.need - Len(st.buf)
               [] st.phase = "body" -> st.cl - Len(st.body)
               [] OTHER -> 0

\* atoi of the digits in front of the ':' (non-digits stop the scan)
LeadingNumber(s) == LET w == Where(s, LAMBDA i : ~IsDigit(s[i]))
                        d == IF w = <<>> THEN s ELSE Take(s, w[1] - 1)
                    IN IF d = <<>> THEN 0 ELSE IF Len(d) > 6 THEN SCap + 1 ELSE DecVal(d)

\* the pair walk of scgi::on_headers_chunk_read over buffer_[sep+1 .. size-1), C strings
SPairs(c) == LET f == Split(c, NUL) IN { <<f[2 * i - 1], f[2 * i]>> : i \in 1..(Len(f) \div 2) }

SFeed(st, chunk) ==
    CASE st.phase = "first" ->
           LET b == st.buf \o chunk IN
           IF Len(b) < 16 THEN [st EXCEPT !.buf = b]
           ELSE LET sep == FirstOf(b, COLON, 1) - 1          \* 0-based index of ':'
                    len == LeadingNumber(Take(b, sep))
                    size == sep + 2 + len
                IN IF sep >= 16 \/ len > SCap \/ size <= 16 THEN [st EXCEPT !.buf = b, !.phase = "err"]
                   ELSE [st EXCEPT !.buf = b, !.sep = sep, !.need = size, !.phase = "rest"]
      [] st.phase = "rest" ->
           LET b == st.buf \o chunk IN
           IF Len(b) < st.need THEN [st EXCEPT !.buf = b]
           ELSE IF b[Len(b)] # COMMA THEN [st EXCEPT !.buf = b, !.phase = "err"]
           ELSE LET env == SPairs(SubSeq(b, st.sep + 2, Len(b) - 1))
                    cls == EnvGetS(env, S_CONTENT_LENGTH, <<48>>)
                    cl == IF DecVal(cls) < 0 THEN 0 ELSE DecVal(cls)
                IN [st EXCEPT !.buf = <<>>, !.env = env, !.cl = cl, !.phase = (IF cl > 0 THEN "body" ELSE "done")]
      [] st.phase = "body" ->
           LET b == st.body \o chunk IN [st EXCEPT !.body = b, !.phase = (IF Len(b) = st.cl THEN "done" ELSE "body")]
      [] OTHER -> st

SResult(st) == [env |-> st.env, body |-> st.body]
=============================================================================
