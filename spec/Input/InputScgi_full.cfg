SPECIFICATION Spec
CONSTANTS
  Proto = "scgi"
  Level = 2
  MaxChain = 1
  Pads = {0}
  Caps = {16384}
INVARIANTS SegInv NotStuck CrossInv
CHECK_DEADLOCK FALSE
