SPECIFICATION Spec
CONSTANTS
  Proto = "fcgi"
  MaxLen = 4
  FixF1 = TRUE
  FixF2 = TRUE
  FixF3 = FALSE
  Filter = TRUE
INVARIANTS AtMostOnce
CHECK_DEADLOCK FALSE
