SPECIFICATION Spec
CONSTANTS
  Proto = "fcgi"
  Level = 1
  MaxChain = 1
  Pads = {0,7}
  Caps = {24}
  MaxRead = 0
INVARIANTS SegInv NotStuck CrossInv
CHECK_DEADLOCK FALSE
