SPECIFICATION Spec
CONSTANTS
  Proto = "http"
  Level = 0
  MaxChain = 1
  Pads = {0}
  Caps = {16384}
  MaxRead = 3
INVARIANTS SegInv NotStuck CrossInv
CHECK_DEADLOCK FALSE
