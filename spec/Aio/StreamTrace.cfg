SPECIFICATION TraceSpec
CONSTANTS
  Shapes <- ShapesOne
  Kinds = {"all", "some"}
  UseDirs = {"r", "w"}
  MaxIn = 0
  MaxOps = 0
  Cap = 0
  IOV = 16
  SpuriousWB = TRUE
  FixCancel = TRUE
  BugNoAdvance = FALSE
  BugCancelZero = FALSE
  BugWriterCount = FALSE
POSTCONDITION TraceDone
CHECK_DEADLOCK FALSE
