SPECIFICATION FairSpec
CONSTANTS
  Producers = {1,2}
  MaxH = 2
  OpsPerProducer = 2
  MaxNow = 0
  Kinds = {"post","io"}
  BugNoWake = FALSE
  BugCopyHandler = FALSE
  OrderFix = TRUE
INVARIANTS AtMostOnce TimerNotEarly CodeRule TypeOK
PROPERTIES EventuallyRuns
CHECK_DEADLOCK FALSE
