----------------------------- MODULE StreamTrace -----------------------------
(* Leg B for G04: the trace recorded by harness/aio/stream_drv.cpp from the real       *)
(* booster::aio::stream_socket must be a behaviour of the WORLD layer of Stream.tla:   *)
(*   Start   an operation starts (direction, kind, its buffer as a chunk list)         *)
(*   SysR / SysW0+SysW1   every readv / writev the library makes on the socket, with   *)
(*           the iovec it passed and the result (possibly shortened / failed by the    *)
(*           harness): the model moves the same bytes between the pipe and the cells   *)
(*   PW0+PW1 / PR / PShut   what the peer does with its end (raw write / read)         *)
(*   Done    the handler ran (or the synchronous call returned): DoneOK - (a)(b)(c)(d) *)
(*   Cancel / Close, Sync (the loop ran everything that was queued): Settled - (d)     *)
(*   Drained the peer has read everything: nothing S wrote is missing                  *)
(*   Quiesce after the final close(): nothing is left in progress                      *)
(*   Adv / Cat / Cnt / Fac   buffer arithmetic, one independent event per call - (e)   *)
(*   AStart / ACancel / AConn / ADone / ASync   acceptor::async_accept                 *)
(* A write is logged in two halves (offer before the call, result after it) so that a  *)
(* peer running in another thread may already have read bytes of a call whose result   *)
(* is not logged yet; the bytes offered are appended optimistically and the part that  *)
(* was not taken is removed from the tail when the result arrives.                     *)
EXTENDS Stream, TraceBase

VARIABLES l, cfg, pendW, pendP, acc
tvars == <<vars, l, cfg, pendW, pendP, acc>>

Ev == TraceLog[l]
Is(name) == l <= NLines /\ Ev.e = name /\ l' = l + 1
Mech == UNCHANGED <<ph, nid, nin>>

Chunks(a) == [i \in 1..Len(a) |-> [o |-> a[i][1], s |-> a[i][2]]]
Off == [on |-> FALSE, n |-> 0, bytes |-> <<>>]
NoAcc == [st |-> "idle", id |-> 0, cx |-> FALSE, conns |-> 0, ran |-> {}]

TReset ==
    /\ Is("Reset")
    /\ inq' = <<>> /\ inShut' = FALSE /\ outq' = <<>> /\ outShut' = FALSE /\ sclosed' = FALSE
    /\ mem' = <<>> /\ op' = [d \in Dirs |-> NoOp] /\ ran' = {} /\ last' = NoLast
    /\ cfg' = [mt |-> Ev.mt, owner |-> Ev.owner, mode |-> Ev.mode]
    /\ pendW' = Off /\ pendP' = Off /\ acc' = NoAcc /\ Mech

TStart ==
    /\ Is("Start")
    /\ Start(Ev.d, Ev.id, Ev.kind, Ev.sync, Chunks(Ev.buf), Ev.data)
    /\ UNCHANGED <<inq, inShut, outq, outShut, sclosed, ran, last, cfg, pendW, pendP, acc>> /\ Mech

(* readv on S *)
TSysR ==
    /\ Is("SysR")
    /\ LET iov == Chunks(Ev.iov) IN
       \/ /\ Ev.cls = "xfer"
          /\ SysRead(iov, Ev.ret)
       \/ /\ Ev.cls = "intr"                         \* EINTR: the library simply repeats the call
          /\ op["r"].active /\ UNCHANGED <<inq, mem, op>>
       \/ /\ Ev.cls \in {"wb", "eof", "err"}
          /\ SysFail("r", Ev.cls)
          \* what the kernel can answer (binding of the pipe model, single-threaded runs are exact)
          /\ Ev.cls = "eof" => (Total(iov) = 0 \/ (inShut /\ inq = <<>>))
          /\ (Ev.cls = "wb" /\ ~Ev.inj /\ ~cfg.mt) => (inq = <<>> /\ ~inShut)
          /\ UNCHANGED <<inq, mem>>
    /\ UNCHANGED <<inShut, outq, outShut, sclosed, ran, last, cfg, pendW, pendP, acc>> /\ Mech

(* writev on S: offer ... *)
TSysW0 ==
    /\ Is("SysW0")
    /\ op["w"].active /\ ~pendW.on
    /\ LET cs == Cells(Chunks(Ev.iov)) IN
       /\ \A i \in 1..Len(cs) : cs[i] \in DOMAIN mem
       /\ pendW' = [on |-> TRUE, n |-> Len(cs), bytes |-> [i \in 1..Len(cs) |-> mem[cs[i]]]]
       /\ outq' = outq \o [i \in 1..Len(cs) |-> mem[cs[i]]]
    /\ UNCHANGED <<inq, inShut, outShut, sclosed, mem, op, ran, last, cfg, pendP, acc>> /\ Mech

(* ... and result: k of the n offered bytes were taken, the other n - k are removed from the tail again *)
TSysW1 ==
    /\ Is("SysW1")
    /\ pendW.on /\ op["w"].active
    /\ LET k == IF Ev.cls = "xfer" THEN Ev.ret ELSE 0
           rest == pendW.n - k
           taken == SubSeq(pendW.bytes, 1, k)
       IN /\ k <= pendW.n /\ Len(outq) >= rest
          /\ Ev.cls = "xfer" => k >= 1
          /\ Ev.cls = "eof" => pendW.n = 0
          /\ Ev.cls \in {"xfer", "wb", "eof", "err", "intr"}
          /\ outq' = SubSeq(outq, 1, Len(outq) - rest)
          /\ op' = IF Ev.cls = "xfer" THEN [op EXCEPT !["w"].moved = @ \o taken, !["w"].lastOut = "xfer", !["w"].outs = @ \cup {"xfer"}]
                   ELSE IF Ev.cls = "intr" THEN op
                   ELSE [op EXCEPT !["w"].lastOut = Ev.cls, !["w"].outs = @ \cup {Ev.cls}]
    /\ pendW' = Off
    /\ UNCHANGED <<inq, inShut, outShut, sclosed, mem, ran, last, cfg, pendP, acc>> /\ Mech

TDone ==
    /\ Is("Done")
    /\ op[Ev.d].id = Ev.id /\ op[Ev.d].sync = Ev.sync
    /\ ~pendW.on
    /\ DoneOK(Ev.d, Ev.ec, Ev.n)
    /\ Ev.d = "r" => Ev.data = Content(op["r"].buf0)          \* the memory of the process is what the system calls made it
    /\ Complete(Ev.d, Ev.ec, Ev.n)
    /\ UNCHANGED <<inq, inShut, outq, outShut, sclosed, cfg, pendW, pendP, acc>> /\ Mech

TCancel ==
    /\ Is("Cancel") /\ MarkCancel
    /\ UNCHANGED <<inq, inShut, outq, outShut, sclosed, mem, ran, last, cfg, pendW, pendP, acc>> /\ Mech

TClose ==
    /\ Is("Close") /\ MarkCancel
    /\ sclosed' = (sclosed \/ Ev.owner)                        \* close() of an attached descriptor only cancels
    /\ UNCHANGED <<inq, inShut, outq, outShut, mem, ran, last, cfg, pendW, pendP, acc>> /\ Mech

Same == UNCHANGED <<vars, cfg, pendW, pendP, acc>>

(* the loop has run everything that was queued when cancel()/close() returned (and what that queued) *)
TSync == Is("Sync") /\ Settled /\ Same
TQuiesce == Is("Quiesce") /\ AllDone /\ ~pendW.on /\ Same

TAvail ==
    /\ Is("Avail")
    /\ Ev.ec = "ok" => (IF cfg.mt THEN Ev.n <= Len(inq) ELSE Ev.n = Len(inq))
    /\ Ev.ec # "ok" => (Ev.n = 0 /\ sclosed)
    /\ Same

(* the peer *)
TPW0 ==
    /\ Is("PW0") /\ ~pendP.on
    /\ PeerWrite(Ev.bytes) /\ pendP' = [on |-> TRUE, n |-> Len(Ev.bytes), bytes |-> <<>>]
    /\ UNCHANGED <<inShut, outq, outShut, sclosed, mem, op, ran, last, cfg, pendW, acc>> /\ Mech
TPW1 ==
    /\ Is("PW1") /\ pendP.on
    /\ Ev.n <= pendP.n /\ Len(inq) >= pendP.n - Ev.n
    /\ inq' = SubSeq(inq, 1, Len(inq) - (pendP.n - Ev.n)) /\ pendP' = Off
    /\ UNCHANGED <<inShut, outq, outShut, sclosed, mem, op, ran, last, cfg, pendW, acc>> /\ Mech
TPR ==
    /\ Is("PR") /\ PeerRead(Ev.bytes)
    /\ UNCHANGED <<inq, inShut, outShut, sclosed, mem, op, ran, last, cfg, pendW, pendP, acc>> /\ Mech
TPShut ==
    /\ Is("PShut")
    /\ inShut' = (inShut \/ Ev.how \in {"wr", "close"})
    /\ outShut' = (outShut \/ Ev.how \in {"rd", "close"})
    /\ UNCHANGED <<inq, outq, sclosed, mem, op, ran, last, cfg, pendW, pendP, acc>> /\ Mech

(* acceptor::async_accept: one completion, success only for a connection that was made, aborted only after cancel() *)
TAStart ==
    /\ Is("AStart") /\ acc.st = "idle" /\ Ev.id \notin acc.ran
    /\ acc' = [acc EXCEPT !.st = "wait", !.id = Ev.id, !.cx = FALSE]
    /\ UNCHANGED <<vars, cfg, pendW, pendP>>
TACancel ==
    /\ Is("ACancel")
    /\ acc' = IF acc.st = "wait" THEN [acc EXCEPT !.cx = TRUE] ELSE acc
    /\ UNCHANGED <<vars, cfg, pendW, pendP>>
TAConn ==
    /\ Is("AConn") /\ acc' = [acc EXCEPT !.conns = @ + 1]
    /\ UNCHANGED <<vars, cfg, pendW, pendP>>
TADone ==
    /\ Is("ADone")
    /\ acc.st = "wait" /\ acc.id = Ev.id
    /\ Ev.ec \in {"ok", "aborted"}
    /\ Ev.ec = "ok" => (acc.conns > 0 /\ Ev.fd >= 0)
    /\ Ev.ec = "aborted" => acc.cx
    /\ acc' = [acc EXCEPT !.st = "idle", !.ran = @ \cup {Ev.id}, !.conns = IF Ev.ec = "ok" THEN @ - 1 ELSE @]
    /\ UNCHANGED <<vars, cfg, pendW, pendP>>
TASync == Is("ASync") /\ ~(acc.st = "wait" /\ acc.cx) /\ Same
TAttach == Is("Attach") /\ acc.st = "idle" /\ Same

(* buffer arithmetic (e): one independent event per call *)
NonEmpty(b) == SelectSeq(b, LAMBDA c : c.s > 0)
TAdv ==
    /\ Is("Adv")
    /\ LET b == Chunks(Ev.in)
           r == Chunks(Ev.out)
           r2 == Chunks(Ev.out2)
           left == Total(b) - Min(Ev.n, Total(b))
       IN /\ AdvOK(b, Ev.n, r) /\ AdvOK(b, Ev.n, r2)            \* operator+ and operator+=
          /\ NoEmptyChunk(r) /\ NoEmptyChunk(r2)
          /\ Ev.bytes = left /\ Ev.empty = (left = 0)           \* what the full-transfer loops test
    /\ Same
TCnt ==
    /\ Is("Cnt")
    /\ LET b == Chunks(Ev.in) IN
       /\ b = NonEmpty(Chunks(Ev.req))                           \* add() keeps the chunks in order and drops empty ones
       /\ Ev.bytes = Total(b) /\ Ev.chunks = Len(b) /\ Ev.empty = (Len(b) = 0)
    /\ Same
TCat ==
    /\ Is("Cat")
    /\ Chunks(Ev.out) = Chunks(Ev.a) \o Chunks(Ev.b)
    /\ Chunks(Ev.out2) = Chunks(Ev.a) \o Chunks(Ev.b)
    /\ Chunks(Ev.conv) = Chunks(Ev.m)
    /\ Same
TFac == Is("Fac") /\ Ev.bytes = Ev.want /\ Ev.empty = (Ev.want = 0) /\ Same

(* the peer has read until nothing was left: every byte S wrote has been seen *)
TDrained == Is("Drained") /\ outq = <<>> /\ ~pendW.on /\ Same
TInfo == Is("PREof") /\ Same

TraceInit == Init /\ l = 1 /\ cfg = [mt |-> FALSE, owner |-> TRUE, mode |-> "-"] /\ pendW = Off /\ pendP = Off /\ acc = NoAcc
TraceNext == TReset \/ TStart \/ TSysR \/ TSysW0 \/ TSysW1 \/ TDone \/ TCancel \/ TClose \/ TSync \/ TQuiesce \/ TAvail
             \/ TPW0 \/ TPW1 \/ TPR \/ TPShut \/ TAStart \/ TACancel \/ TAConn \/ TADone \/ TASync \/ TAttach
             \/ TAdv \/ TCnt \/ TCat \/ TFac \/ TInfo \/ TDrained
TraceSpec == TraceInit /\ [][TraceNext]_tvars
=============================================================================
