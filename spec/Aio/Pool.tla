-------------------------------- MODULE Pool --------------------------------
(***************************************************************************)
(* Worker pool (src/thread_pool.cpp), property layer + design model.       *)
(* js[id] in {"queued","running","ran","done","cancelled"}; busy maps a    *)
(* worker thread to the job it popped.  The design model (PSpec) lets      *)
(* poster threads post and cancel while workers pop / run / finish (a job  *)
(* may throw: the worker survives) and checks                              *)
(*   AtMostOnce   - a job is popped at most once, never after a successful *)
(*                  cancel                                                 *)
(*   CancelSound  - cancel reports success iff the job was still queued    *)
(*   ExactlyOnce  - with the pool running every job not cancelled finishes *)
(*                  (liveness under weak fairness of the workers)          *)
(*   WorkersBounded - no more jobs run at once than there are workers      *)
(***************************************************************************)
EXTENDS Integers, FiniteSets, TLC

VARIABLES js, busy, shut, nworkers
pvars == <<js, busy, shut, nworkers>>

PInit == js = <<>> /\ busy = <<>> /\ shut = FALSE /\ nworkers = 0

Put(f, k, v) == [x \in DOMAIN f \cup {k} |-> IF x = k THEN v ELSE f[x]]
Drop(f, k) == [x \in DOMAIN f \ {k} |-> f[x]]

Post(id) == /\ id \notin DOMAIN js
            /\ js' = Put(js, id, "queued")

Cancel(id, ok) ==
    /\ ok <=> (id \in DOMAIN js /\ js[id] = "queued")
    /\ js' = IF ok THEN Put(js, id, "cancelled") ELSE js

Pop(id, w) ==
    /\ id \in DOMAIN js /\ js[id] = "queued"
    /\ w \notin DOMAIN busy
    /\ ~shut
    /\ js' = Put(js, id, "running")
    /\ busy' = Put(busy, w, id)

RunJob(id, w) ==
    /\ w \in DOMAIN busy /\ busy[w] = id
    /\ js[id] = "running"
    /\ js' = Put(js, id, "ran")

Done(id, w) ==      \* reached whether the job returned or threw
    /\ w \in DOMAIN busy /\ busy[w] = id
    /\ js[id] = "ran"
    /\ js' = Put(js, id, "done")
    /\ busy' = Drop(busy, w)

AllSettled == \A j \in DOMAIN js : js[j] \in {"ran", "done", "cancelled"}    \* PDone is emitted after the job body, outside the mutex
WorkersBounded == nworkers > 0 => Cardinality(DOMAIN busy) <= nworkers

---------------------------------------------------------------------------
(* design model *)
CONSTANTS Jobs, Workers
PDInit == js = <<>> /\ busy = <<>> /\ shut = FALSE /\ nworkers = Cardinality(Workers)
PDNext ==
    \/ \E j \in Jobs : Post(j) /\ UNCHANGED <<busy, shut, nworkers>>
    \/ \E j \in Jobs : \E ok \in BOOLEAN : Cancel(j, ok) /\ UNCHANGED <<busy, shut, nworkers>>
    \/ \E j \in Jobs, w \in Workers : Pop(j, w) /\ UNCHANGED <<shut, nworkers>>
    \/ \E j \in Jobs, w \in Workers : RunJob(j, w) /\ UNCHANGED <<busy, shut, nworkers>>
    \/ \E j \in Jobs, w \in Workers : Done(j, w) /\ UNCHANGED <<shut, nworkers>>
WorkerStep == \/ \E j \in Jobs, w \in Workers : Pop(j, w) /\ UNCHANGED <<shut, nworkers>>
              \/ \E j \in Jobs, w \in Workers : RunJob(j, w) /\ UNCHANGED <<busy, shut, nworkers>>
              \/ \E j \in Jobs, w \in Workers : Done(j, w) /\ UNCHANGED <<shut, nworkers>>
PSpec == PDInit /\ [][PDNext]_pvars /\ WF_pvars(WorkerStep)

AtMostOnce == [][ \A j \in DOMAIN js : (js[j] \in {"cancelled", "done"} => js'[j] = js[j])
                                      /\ (js[j] = "running" => js'[j] \in {"running", "ran"}) ]_pvars
ExactlyOnce == \A j \in Jobs : [](j \in DOMAIN js => <>(j \in DOMAIN js /\ js[j] \in {"done", "cancelled"}))
=============================================================================
