-------------------------------- MODULE Stream --------------------------------
(***************************************************************************)
(* G04 - booster::aio::stream_socket: full-transfer operations over        *)
(* partial I/O (stream_socket.cpp, basic_io_device.cpp, buffer.h).         *)
(*                                                                         *)
(* The socket under test S is one end of a byte pipe; the other end is the *)
(* peer.  The module has two layers that share one vocabulary:             *)
(*                                                                         *)
(* WORLD (what the properties talk about; also used by StreamTrace.tla):   *)
(*   inq / outq      bytes in flight  peer -> S  and  S -> peer            *)
(*   mem             the memory cells of the buffers of the operations in  *)
(*                   progress (cell = address); a system call moves bytes  *)
(*                   between the pipe and the cells named by its iovec     *)
(*   op[d]           the operation in progress in direction d ("r","w"):   *)
(*                   its buffer (chunk list), the bytes moved so far ...   *)
(*   Start / SysRead / SysWrite / SysFail / Complete / Cancel / Close and  *)
(*   the peer's actions.  DoneOK(d, ec, n) is the property (a)-(d) for one *)
(*   completion: count truthful, bytes in order in the right cells,        *)
(*   success only when the transfer is full (or >= 1 byte for *_some),     *)
(*   an error only with its cause, exactly one completion.                 *)
(*                                                                         *)
(* MECHANISM (the code, one action per system call / decision):            *)
(*   ph[d]           phase of reader_all / writer_all / reader_some /      *)
(*                   writer_some: try (about to call readv/writev) ->      *)
(*                   armed (on_readable/on_writeable) -> rdy (readiness    *)
(*                   dispatched, callable queued) | cxl (queued with an    *)
(*                   error: cancel() or a hang-up seen by the reactor)     *)
(*                   -> try ... -> posted | fin -> handler                 *)
(*   The event loop is abstracted to what C17 (Loop.tla) guarantees: a     *)
(*   queued callable runs exactly once, later.                             *)
(*                                                                         *)
(* Buffer arithmetic (e): Adv is details::advance of buffer.h transcribed; *)
(* AdvOK says that b + n describes exactly the cells after the first n.    *)
(***************************************************************************)
EXTENDS Integers, Sequences, FiniteSets, TLC

CONSTANTS
    Shapes,         \* chunk-size sequences offered to Start, e.g. {<<>>, <<2>>, <<1,2>>}
    Kinds,          \* subset of {"all", "some"}
    UseDirs,        \* subset of {"r", "w"}: directions in which operations are started
    MaxIn,          \* bytes the peer writes in total
    MaxOps,         \* operations started in total
    Cap,            \* capacity of the kernel queue S -> peer
    IOV,            \* max_vec_size of stream_socket::readv / writev (16 in the code)
    SpuriousWB,     \* a call may report would-block / the reactor readiness without need (EAGAIN injection)
    FixCancel,      \* FALSE: cancel_io_events as in the code (misses a callable whose readiness is already queued)
    BugNoAdvance,   \* seeded: reader_all / writer_all forget  buf += n
    BugCancelZero,  \* seeded: a cancelled full-transfer operation reports 0 instead of the bytes moved so far
    BugWriterCount  \* seeded: async_write hands the partial count of its first write_some to writer_all as 0

VARIABLES inq, inShut, outq, outShut, sclosed, mem, op, ran, last,    \* world
          ph, nid, nin                                                   \* mechanism + environment counters

wvars == <<inq, inShut, outq, outShut, sclosed, mem, op, ran, last>>
vars  == <<wvars, ph, nid, nin>>

Dirs == {"r", "w"}
Sent == 238            \* fill byte of a read buffer before the operation starts
Min(a, b) == IF a < b THEN a ELSE b
Max(S) == CHOOSE x \in S : \A y \in S : y <= x

(***************************** buffers *************************************)
RECURSIVE Total(_)
Total(b) == IF b = <<>> THEN 0 ELSE Head(b).s + Total(Tail(b))

RECURSIVE Cells(_)      \* the addresses a buffer describes, in transfer order
Cells(b) == IF b = <<>> THEN <<>>
            ELSE [i \in 1..Head(b).s |-> Head(b).o + i - 1] \o Cells(Tail(b))
CellSet(b) == { Cells(b)[i] : i \in 1..Total(b) }

Take(b, k) == SubSeq(b, 1, Min(k, Len(b)))
Drop(s, n) == SubSeq(s, n + 1, Len(s))

(* details::advance(buf, n): skip whole chunks while they fit into n, cut the first one that does not, *)
(* copy the rest (buffer_impl::add drops chunks of size 0, so no empty chunk ever appears)              *)
RECURSIVE Adv(_, _)
Adv(b, n) == IF b = <<>> THEN <<>>
             ELSE IF n = 0 THEN b
             ELSE IF Head(b).s <= n THEN Adv(Tail(b), n - Head(b).s)
             ELSE <<[o |-> Head(b).o + n, s |-> Head(b).s - n]>> \o Tail(b)

(* property (e) *)
AdvOK(b, n, r) == Cells(r) = Drop(Cells(b), Min(n, Total(b)))
NoEmptyChunk(b) == \A i \in 1..Len(b) : b[i].s > 0

(***************************** world ***************************************)
NoOp == [active |-> FALSE, id |-> 0, kind |-> "none", sync |-> FALSE, buf0 |-> <<>>, data |-> <<>>,
         moved |-> <<>>, cx |-> FALSE, lastOut |-> "none", outs |-> {}]
NoLast == [id |-> 0, d |-> "-", ec |-> "none", n |-> 0, ok |-> TRUE]

WInit ==
    /\ inq = <<>> /\ inShut = FALSE /\ outq = <<>> /\ outShut = FALSE /\ sclosed = FALSE
    /\ mem = <<>> /\ op = [d \in Dirs |-> NoOp] /\ ran = {} /\ last = NoLast

Content(b) == [i \in 1..Total(b) |-> mem[Cells(b)[i]]]
Fill(n) == [i \in 1..n |-> Sent]

(* an operation starts: its buffer cells become part of mem - the fill byte for a read buffer, *)
(* the data to be sent for a write buffer                                                      *)
Start(d, id, kind, sync, b, data) ==
    /\ ~op[d].active
    /\ id \notin ran /\ \A e \in Dirs : op[e].id # id
    /\ Cardinality(CellSet(b)) = Total(b)                    \* chunks do not overlap
    /\ CellSet(b) \cap DOMAIN mem = {}                       \* nor the buffer of the operation in the other direction
    /\ d = "w" => Len(data) = Total(b)
    /\ op' = [op EXCEPT ![d] = [active |-> TRUE, id |-> id, kind |-> kind, sync |-> sync, buf0 |-> b, data |-> data,
                                moved |-> <<>>, cx |-> FALSE, lastOut |-> "none", outs |-> {}]]
    /\ mem' = LET cs == Cells(b) IN
              [c \in DOMAIN mem \cup CellSet(b) |->
                  IF c \in DOMAIN mem THEN mem[c]
                  ELSE IF d = "w" THEN data[CHOOSE i \in 1..Len(cs) : cs[i] = c] ELSE Sent]

(* readv on S moved k bytes from the pipe into the first k cells of iov *)
SysRead(iov, k) ==
    LET cs == Cells(iov)
        bytes == SubSeq(inq, 1, k)
    IN /\ op["r"].active
       /\ k >= 1 /\ k <= Len(inq) /\ k <= Len(cs)
       /\ \A i \in 1..k : cs[i] \in DOMAIN mem              \* never outside the buffers of the operations in progress
       /\ inq' = Drop(inq, k)
       /\ mem' = [c \in DOMAIN mem |-> LET I == {i \in 1..k : cs[i] = c} IN IF I = {} THEN mem[c] ELSE bytes[Max(I)]]
       /\ op' = [op EXCEPT !["r"].moved = @ \o bytes, !["r"].lastOut = "xfer", !["r"].outs = @ \cup {"xfer"}]

(* writev on S moved the content of the first k cells of iov into the pipe *)
SysWrite(iov, k) ==
    LET cs == Cells(iov)
        bytes == [i \in 1..k |-> mem[cs[i]]]
    IN /\ op["w"].active
       /\ k >= 1 /\ k <= Len(cs)
       /\ \A i \in 1..k : cs[i] \in DOMAIN mem
       /\ outq' = outq \o bytes
       /\ op' = [op EXCEPT !["w"].moved = @ \o bytes, !["w"].lastOut = "xfer", !["w"].outs = @ \cup {"xfer"}]

(* the call moved nothing: would-block, end of stream (return value 0), another error *)
SysFail(d, out) ==
    /\ op[d].active
    /\ op' = [op EXCEPT ![d].lastOut = out, ![d].outs = @ \cup {out}]

(* properties (a)-(d) for the completion (ec, n) of the operation in direction d *)
DoneOK(d, ec, n) ==
    LET o == op[d]
        tot == Total(o.buf0)
    IN /\ o.active /\ o.id \notin ran                                           \* exactly one completion
       /\ n = Len(o.moved) /\ n <= tot                                           \* the count is the number of bytes moved
       /\ IF d = "r" THEN Content(o.buf0) = o.moved \o Fill(tot - n)             \* next n bytes of the stream, in order, chunk by chunk, nothing else touched
                     ELSE o.moved = SubSeq(o.data, 1, n)                          \* exactly the first n bytes of the buffer went out, once, in order
       /\ ec \in {"ok", "eof", "aborted", "wb", "err", "sel"}
       /\ ec = "ok" => /\ o.kind = "all" => n = tot                              \* success of a full-transfer operation: everything
                       /\ (o.kind = "some" /\ tot > 0) => n >= 1                 \* of a *_some operation: at least one byte
       /\ ec = "eof" => (tot = 0 \/ "eof" \in o.outs)                            \* an error needs its cause: a call returned 0,
       /\ ec = "aborted" => o.cx                                                 \* cancel() / close() was called,
       /\ ec = "wb" => (o.sync /\ o.lastOut = "wb")                              \* a synchronous call on a non-blocking descriptor stopped at EAGAIN,
       /\ ec = "err" => ("err" \in o.outs \/ (o.outs = {} /\ sclosed))           \* a call failed / the descriptor is closed,
       /\ ec = "sel" => (~o.sync /\ (inShut \/ outShut \/ sclosed))              \* select_failed: the reactor saw a hang-up / error condition

Complete(d, ec, n) ==
    /\ last' = [id |-> op[d].id, d |-> d, ec |-> ec, n |-> n, ok |-> DoneOK(d, ec, n)]
    /\ ran' = ran \cup {op[d].id}
    /\ op' = [op EXCEPT ![d] = NoOp]
    /\ mem' = [c \in DOMAIN mem \ CellSet(op[d].buf0) |-> mem[c]]

(* cancel() / close(): every asynchronous operation in progress is marked; (d) wants it completed without any further help *)
MarkCancel == op' = [d \in Dirs |-> IF op[d].active /\ ~op[d].sync THEN [op[d] EXCEPT !.cx = TRUE] ELSE op[d]]
Settled == \A d \in Dirs : ~(op[d].active /\ op[d].cx)
AllDone == \A d \in Dirs : ~op[d].active

PeerWrite(bytes) == ~inShut /\ inq' = inq \o bytes
PeerRead(bytes) == Len(bytes) <= Len(outq) /\ bytes = SubSeq(outq, 1, Len(bytes)) /\ outq' = Drop(outq, Len(bytes))

(***************************** mechanism ***********************************)
Idle == [st |-> "idle", ctx |-> "-", att |-> 0, buf |-> <<>>, cnt |-> 0, pec |-> "ok", pn |-> 0]

Init == WInit /\ ph = [d \in Dirs |-> Idle] /\ nid = 0 /\ nin = 0

Busy == \E d \in Dirs : ph[d].st \in {"try", "fin"}       \* the (single) thread is inside stream_socket code

Layout(d, sh) == [j \in 1..Len(sh) |-> [o |-> (IF d = "r" THEN 0 ELSE 100) + 10 * (Len(sh) - j), s |-> sh[j]]]

IStart(d, kind, sh) ==
    /\ ~Busy /\ ph[d].st = "idle" /\ nid < MaxOps
    /\ LET b == Layout(d, sh) IN
       /\ Start(d, nid + 1, kind, FALSE, b, [j \in 1..Total(b) |-> 300 + 10 * (nid + 1) + j])
       /\ ph' = [ph EXCEPT ![d] = [Idle EXCEPT !.st = "try", !.ctx = "start", !.buf = b]]
    /\ nid' = nid + 1
    /\ UNCHANGED <<inq, inShut, outq, outShut, sclosed, ran, last, nin>>

(* the result goes to the handler: posted when still inside async_xxx(), called directly from operator() *)
Finish(d, ec, n) == ph' = [ph EXCEPT ![d] = [@ EXCEPT !.st = IF ph[d].ctx = "start" THEN "posted" ELSE "fin", !.pec = ec, !.pn = n]]

(* what the code does with the result (ec, k) of read_some / write_some *)
Decide(d, ec, k) ==
    LET p == ph[d]
        o == op[d]
        cnt2 == p.cnt + k
        buf2 == IF BugNoAdvance THEN p.buf ELSE Adv(p.buf, k)
    IN IF o.kind = "some"
       THEN IF ec = "wb" THEN ph' = [ph EXCEPT ![d] = [p EXCEPT !.st = "armed", !.att = 1]]
                         ELSE Finish(d, ec, k)
       ELSE IF d = "w" /\ p.ctx = "start" /\ p.att = 0
            THEN \* async_write(): one write_some on the whole buffer, then writer_all(buffer, n)::run()
                 IF (ec = "ok" /\ k # Total(o.buf0)) \/ ec = "wb"
                 THEN ph' = [ph EXCEPT ![d] = [p EXCEPT !.att = 1, !.buf = Adv(o.buf0, k), !.cnt = IF BugWriterCount THEN 0 ELSE k]]
                 ELSE Finish(d, ec, k)
            ELSE \* reader_all / writer_all: run() and operator()
                 IF buf2 = <<>> \/ ec \notin {"ok", "wb"}
                 THEN Finish(d, ec, cnt2)
                 ELSE ph' = [ph EXCEPT ![d] = [p EXCEPT !.st = "armed", !.att = 1, !.buf = buf2, !.cnt = cnt2]]

CanMove(d, iov) == IF d = "r" THEN Min(Len(inq), Total(iov))
                   ELSE IF outShut THEN 0 ELSE Min(Cap - Len(outq), Total(iov))

Attempt(d) ==
    /\ ph[d].st = "try"
    /\ LET iov == Take(ph[d].buf, IOV) IN
       IF sclosed
       THEN SysFail(d, "err") /\ Decide(d, "err", 0) /\ UNCHANGED <<inq, outq, mem>>
       ELSE IF Total(iov) = 0
       THEN SysFail(d, "eof") /\ Decide(d, "eof", 0) /\ UNCHANGED <<inq, outq, mem>>          \* readv/writev of nothing returns 0
       ELSE \/ \E k \in 1..CanMove(d, iov) :
                 /\ IF d = "r" THEN SysRead(iov, k) /\ outq' = outq ELSE SysWrite(iov, k) /\ UNCHANGED <<inq, mem>>
                 /\ Decide(d, "ok", k)
            \/ /\ SpuriousWB \/ CanMove(d, iov) = 0
               /\ ~(d = "r" /\ inq = <<>> /\ inShut) /\ ~(d = "w" /\ outShut)
               /\ SysFail(d, "wb") /\ Decide(d, "wb", 0) /\ UNCHANGED <<inq, outq, mem>>
            \/ /\ d = "r" /\ inq = <<>> /\ inShut
               /\ SysFail(d, "eof") /\ Decide(d, "eof", 0) /\ UNCHANGED <<inq, outq, mem>>
            \/ /\ d = "w" /\ outShut
               /\ SysFail(d, "err") /\ Decide(d, "err", 0) /\ UNCHANGED <<inq, outq, mem>>
    /\ UNCHANGED <<inShut, outShut, sclosed, ran, last, nid, nin>>

(* the reactor reports the descriptor: the armed callable is moved into the dispatch queue with "no error" *)
Ready(d) ==
    /\ ph[d].st = "armed"
    /\ SpuriousWB \/ sclosed \/ (IF d = "r" THEN inq # <<>> \/ inShut ELSE outShut \/ Len(outq) < Cap)
    /\ ph' = [ph EXCEPT ![d].st = "rdy"]
    /\ UNCHANGED <<wvars, nid, nin>>

(* the reactor reports a hang-up / error condition (both directions shut down): the callable is queued with select_failed *)
ReadyErr(d) ==
    /\ ph[d].st = "armed" /\ inShut /\ outShut
    /\ ph' = [ph EXCEPT ![d] = [@ EXCEPT !.st = "cxl", !.pec = "sel"]]
    /\ UNCHANGED <<wvars, nid, nin>>

(* the loop runs the queued callable: operator()(e) *)
Resume(d) ==
    /\ ~Busy
    /\ \/ /\ ph[d].st = "rdy"
          /\ ph' = [ph EXCEPT ![d] = [@ EXCEPT !.st = "try", !.ctx = "resume"]]
       \/ /\ ph[d].st = "cxl"
          /\ ph' = [ph EXCEPT ![d] = [@ EXCEPT !.st = "fin", !.ctx = "resume",
                                               !.pn = IF op[d].kind = "some" \/ BugCancelZero THEN 0 ELSE ph[d].cnt]]
    /\ UNCHANGED <<wvars, nid, nin>>

(* the handler is invoked: from the queue (posted) or directly by operator() (fin) *)
Invoke(d) ==
    /\ \/ ph[d].st = "fin"
       \/ ph[d].st = "posted" /\ ~Busy
    /\ Complete(d, ph[d].pec, ph[d].pn)
    /\ ph' = [ph EXCEPT ![d] = Idle]
    /\ UNCHANGED <<inq, inShut, outq, outShut, sclosed, nid, nin>>

CancelPh == ph' = [d \in Dirs |-> IF ph[d].st = "armed" \/ (FixCancel /\ ph[d].st = "rdy") THEN [ph[d] EXCEPT !.st = "cxl", !.pec = "aborted"] ELSE ph[d]]

ICancel ==
    /\ ~Busy /\ \E d \in Dirs : op[d].active
    /\ MarkCancel /\ CancelPh
    /\ UNCHANGED <<inq, inShut, outq, outShut, sclosed, mem, ran, last, nid, nin>>

IClose ==
    /\ ~Busy /\ ~sclosed
    /\ MarkCancel /\ CancelPh /\ sclosed' = TRUE
    /\ UNCHANGED <<inq, inShut, outq, outShut, mem, ran, last, nid, nin>>

IPeerWrite ==
    /\ nin < MaxIn /\ Len(inq) < Cap
    /\ PeerWrite(<<nin + 1>>) /\ nin' = nin + 1
    /\ UNCHANGED <<inShut, outq, outShut, sclosed, mem, op, ran, last, ph, nid>>

IPeerRead ==
    /\ outq # <<>>
    /\ \E k \in 1..Len(outq) : PeerRead(SubSeq(outq, 1, k))
    /\ UNCHANGED <<inq, inShut, outShut, sclosed, mem, op, ran, last, ph, nid, nin>>

IPeerShut ==
    /\ \/ ~inShut /\ inShut' = TRUE /\ outShut' = outShut
       \/ ~outShut /\ outShut' = TRUE /\ inShut' = inShut
    /\ UNCHANGED <<inq, outq, sclosed, mem, op, ran, last, ph, nid, nin>>

Next ==
    \/ \E d \in UseDirs, kind \in Kinds, sh \in Shapes : IStart(d, kind, sh)
    \/ \E d \in Dirs : Attempt(d) \/ Ready(d) \/ ReadyErr(d) \/ Resume(d) \/ Invoke(d)
    \/ ICancel \/ IClose \/ IPeerWrite \/ IPeerRead \/ IPeerShut

Spec == Init /\ [][Next]_vars
(* the loop keeps running: what is queued is run (strong fairness: the thread is busy with the other direction again and again) *)
FairSpec == Spec /\ \A d \in Dirs : WF_vars(Attempt(d)) /\ SF_vars(Resume(d)) /\ SF_vars(Invoke(d))

(***************************** properties **********************************)
TypeOK ==
    /\ \A d \in Dirs : ph[d].st \in {"idle", "try", "armed", "rdy", "cxl", "posted", "fin"}
    /\ \A d \in Dirs : (ph[d].st = "idle") <=> ~op[d].active
    /\ Len(outq) <= Cap /\ nid <= MaxOps /\ nin <= MaxIn

(* (a)(b)(c)(d): every completion the mechanism produces satisfies DoneOK *)
CompletionsOK == last.ok

(* while an operation waits, the count kept by the code is the number of bytes really moved *)
CountIsMoved == \A d \in Dirs : (op[d].active /\ op[d].kind = "all" /\ ph[d].st \in {"armed", "rdy", "cxl"}) => ph[d].cnt = Len(op[d].moved)

(* nothing is lost: the stream position is the sum of what completed operations reported plus what the current one holds *)
(* (follows from CompletionsOK for every completion; kept as a cross-check on the pipe bookkeeping)                     *)
InOrder == \A i \in 1..Len(inq) : inq[i] = nin - Len(inq) + i

(* (d) an operation that was outstanding when cancel()/close() was called never goes back to waiting for the peer *)
CancelEffective == \A d \in Dirs : ~(op[d].active /\ op[d].cx /\ ph[d].st = "armed")

(* (d) liveness form: it completes by itself *)
CancelCompletes == \A d \in Dirs : [](op[d].cx => <>(~op[d].active))

(* (e) for every buffer the model can build *)
AdvProperty == \A d \in Dirs, sh \in Shapes : \A n \in 0..(Total(Layout(d, sh)) + 1) :
                   LET r == Adv(Layout(d, sh), n) IN AdvOK(Layout(d, sh), n, r) /\ NoEmptyChunk(r)
ASSUME AdvProperty

(* shape sets for the cfg files (a cfg cannot spell tuples) *)
ShapesQ == {<<>>, <<2>>, <<1, 2>>}
ShapesT == {<<>>, <<1>>, <<3>>, <<2, 1>>, <<1, 1, 1>>}
ShapesL == {<<>>, <<1>>, <<3>>, <<2, 1>>, <<1, 1, 1>>, <<1, 2, 1>>}
ShapesOne == {<<1, 2>>}
=============================================================================
