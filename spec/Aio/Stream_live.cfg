SPECIFICATION FairSpec
CONSTANTS
  Shapes <- ShapesQ
  Kinds = {"all", "some"}
  UseDirs = {"r", "w"}
  MaxIn = 2
  MaxOps = 2
  Cap = 1
  IOV = 1
  SpuriousWB = TRUE
  FixCancel = TRUE
  BugNoAdvance = FALSE
  BugCancelZero = FALSE
  BugWriterCount = FALSE
INVARIANTS TypeOK CompletionsOK
PROPERTIES CancelCompletes
CHECK_DEADLOCK FALSE
