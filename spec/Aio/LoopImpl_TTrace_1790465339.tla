---- MODULE LoopImpl_TTrace_1790465339 ----
EXTENDS LoopImpl, Sequences, TLCExt, Toolbox, Naturals, TLC

_expression ==
    LET LoopImpl_TEExpression == INSTANCE LoopImpl_TEExpression
    IN LoopImpl_TEExpression!expression
----

_trace ==
    LET LoopImpl_TETrace == INSTANCE LoopImpl_TETrace
    IN LoopImpl_TETrace!trace
----

_inv ==
    ~(
        TLCGet("level") = Len(_TETrace)
        /\
        mine = (<<{1}>>)
        /\
        deferred = (0)
        /\
        timers = ({})
        /\
        ppc = (<<"run">>)
        /\
        wait = ("inf")
        /\
        code = (<<1, 0, 0>>)
        /\
        waitDl = (0)
        /\
        regd = ({1})
        /\
        kind = (<<"io", "none", "none">>)
        /\
        nextH = (2)
        /\
        counter = (0)
        /\
        polling = (FALSE)
        /\
        inflight = ([t |-> "none", h |-> 0, c |-> 0, fd |-> 0])
        /\
        ops = (<<2>>)
        /\
        ready = (<<FALSE>>)
        /\
        now = (0)
        /\
        armed = (<<0>>)
        /\
        pipe = (FALSE)
        /\
        ran = (<<2, 0, 0>>)
        /\
        lpc = ("drain")
        /\
        early = (FALSE)
        /\
        queue = (<<>>)
    )
----

_init ==
    /\ mine = _TETrace[1].mine
    /\ timers = _TETrace[1].timers
    /\ ready = _TETrace[1].ready
    /\ deferred = _TETrace[1].deferred
    /\ ran = _TETrace[1].ran
    /\ now = _TETrace[1].now
    /\ lpc = _TETrace[1].lpc
    /\ regd = _TETrace[1].regd
    /\ counter = _TETrace[1].counter
    /\ ppc = _TETrace[1].ppc
    /\ wait = _TETrace[1].wait
    /\ code = _TETrace[1].code
    /\ kind = _TETrace[1].kind
    /\ inflight = _TETrace[1].inflight
    /\ pipe = _TETrace[1].pipe
    /\ early = _TETrace[1].early
    /\ polling = _TETrace[1].polling
    /\ armed = _TETrace[1].armed
    /\ queue = _TETrace[1].queue
    /\ waitDl = _TETrace[1].waitDl
    /\ nextH = _TETrace[1].nextH
    /\ ops = _TETrace[1].ops
----

_next ==
    /\ \E i,j \in DOMAIN _TETrace:
        /\ \/ /\ j = i + 1
              /\ i = TLCGet("level")
        /\ mine  = _TETrace[i].mine
        /\ mine' = _TETrace[j].mine
        /\ timers  = _TETrace[i].timers
        /\ timers' = _TETrace[j].timers
        /\ ready  = _TETrace[i].ready
        /\ ready' = _TETrace[j].ready
        /\ deferred  = _TETrace[i].deferred
        /\ deferred' = _TETrace[j].deferred
        /\ ran  = _TETrace[i].ran
        /\ ran' = _TETrace[j].ran
        /\ now  = _TETrace[i].now
        /\ now' = _TETrace[j].now
        /\ lpc  = _TETrace[i].lpc
        /\ lpc' = _TETrace[j].lpc
        /\ regd  = _TETrace[i].regd
        /\ regd' = _TETrace[j].regd
        /\ counter  = _TETrace[i].counter
        /\ counter' = _TETrace[j].counter
        /\ ppc  = _TETrace[i].ppc
        /\ ppc' = _TETrace[j].ppc
        /\ wait  = _TETrace[i].wait
        /\ wait' = _TETrace[j].wait
        /\ code  = _TETrace[i].code
        /\ code' = _TETrace[j].code
        /\ kind  = _TETrace[i].kind
        /\ kind' = _TETrace[j].kind
        /\ inflight  = _TETrace[i].inflight
        /\ inflight' = _TETrace[j].inflight
        /\ pipe  = _TETrace[i].pipe
        /\ pipe' = _TETrace[j].pipe
        /\ early  = _TETrace[i].early
        /\ early' = _TETrace[j].early
        /\ polling  = _TETrace[i].polling
        /\ polling' = _TETrace[j].polling
        /\ armed  = _TETrace[i].armed
        /\ armed' = _TETrace[j].armed
        /\ queue  = _TETrace[i].queue
        /\ queue' = _TETrace[j].queue
        /\ waitDl  = _TETrace[i].waitDl
        /\ waitDl' = _TETrace[j].waitDl
        /\ nextH  = _TETrace[i].nextH
        /\ nextH' = _TETrace[j].nextH
        /\ ops  = _TETrace[i].ops
        /\ ops' = _TETrace[j].ops

\* Uncomment the ASSUME below to write the states of the error trace
\* to the given file in Json format. Note that you can pass any tuple
\* to `JsonSerialize`. For example, a sub-sequence of _TETrace.
    \* ASSUME
    \*     LET J == INSTANCE Json
    \*         IN J!JsonSerialize("LoopImpl_TTrace_1790465339.json", _TETrace)

=============================================================================

 Note that you can extract this module `LoopImpl_TEExpression`
  to a dedicated file to reuse `expression` (the module in the 
  dedicated `LoopImpl_TEExpression.tla` file takes precedence 
  over the module `LoopImpl_TEExpression` below).

---- MODULE LoopImpl_TEExpression ----
EXTENDS LoopImpl, Sequences, TLCExt, Toolbox, Naturals, TLC

expression == 
    [
        \* To hide variables of the `LoopImpl` spec from the error trace,
        \* remove the variables below.  The trace will be written in the order
        \* of the fields of this record.
        mine |-> mine
        ,timers |-> timers
        ,ready |-> ready
        ,deferred |-> deferred
        ,ran |-> ran
        ,now |-> now
        ,lpc |-> lpc
        ,regd |-> regd
        ,counter |-> counter
        ,ppc |-> ppc
        ,wait |-> wait
        ,code |-> code
        ,kind |-> kind
        ,inflight |-> inflight
        ,pipe |-> pipe
        ,early |-> early
        ,polling |-> polling
        ,armed |-> armed
        ,queue |-> queue
        ,waitDl |-> waitDl
        ,nextH |-> nextH
        ,ops |-> ops
        
        \* Put additional constant-, state-, and action-level expressions here:
        \* ,_stateNumber |-> _TEPosition
        \* ,_mineUnchanged |-> mine = mine'
        
        \* Format the `mine` variable as Json value.
        \* ,_mineJson |->
        \*     LET J == INSTANCE Json
        \*     IN J!ToJson(mine)
        
        \* Lastly, you may build expressions over arbitrary sets of states by
        \* leveraging the _TETrace operator.  For example, this is how to
        \* count the number of times a spec variable changed up to the current
        \* state in the trace.
        \* ,_mineModCount |->
        \*     LET F[s \in DOMAIN _TETrace] ==
        \*         IF s = 1 THEN 0
        \*         ELSE IF _TETrace[s].mine # _TETrace[s-1].mine
        \*             THEN 1 + F[s-1] ELSE F[s-1]
        \*     IN F[_TEPosition - 1]
    ]

=============================================================================



Parsing and semantic processing can take forever if the trace below is long.
 In this case, it is advised to uncomment the module below to deserialize the
 trace from a generated binary file.

\*
\*---- MODULE LoopImpl_TETrace ----
\*EXTENDS LoopImpl, IOUtils, TLC
\*
\*trace == IODeserialize("LoopImpl_TTrace_1790465339.bin", TRUE)
\*
\*=============================================================================
\*

---- MODULE LoopImpl_TETrace ----
EXTENDS LoopImpl, TLC

trace == 
    <<
    ([mine |-> <<{}>>,deferred |-> 0,timers |-> {},ppc |-> <<"run">>,wait |-> "zero",code |-> <<0, 0, 0>>,waitDl |-> 0,regd |-> {},kind |-> <<"none", "none", "none">>,nextH |-> 1,counter |-> 0,polling |-> FALSE,inflight |-> [t |-> "none", h |-> 0, c |-> 0, fd |-> 0],ops |-> <<0>>,ready |-> <<FALSE>>,now |-> 0,armed |-> <<0>>,pipe |-> FALSE,ran |-> <<0, 0, 0>>,lpc |-> "drain",early |-> FALSE,queue |-> <<>>]),
    ([mine |-> <<{1}>>,deferred |-> 0,timers |-> {},ppc |-> <<"run">>,wait |-> "zero",code |-> <<0, 0, 0>>,waitDl |-> 0,regd |-> {1},kind |-> <<"io", "none", "none">>,nextH |-> 2,counter |-> 0,polling |-> FALSE,inflight |-> [t |-> "none", h |-> 0, c |-> 0, fd |-> 0],ops |-> <<1>>,ready |-> <<FALSE>>,now |-> 0,armed |-> <<1>>,pipe |-> FALSE,ran |-> <<0, 0, 0>>,lpc |-> "drain",early |-> FALSE,queue |-> <<>>]),
    ([mine |-> <<{1}>>,deferred |-> 0,timers |-> {},ppc |-> <<"run">>,wait |-> "inf",code |-> <<0, 0, 0>>,waitDl |-> 0,regd |-> {1},kind |-> <<"io", "none", "none">>,nextH |-> 2,counter |-> 0,polling |-> TRUE,inflight |-> [t |-> "none", h |-> 0, c |-> 0, fd |-> 0],ops |-> <<1>>,ready |-> <<FALSE>>,now |-> 0,armed |-> <<1>>,pipe |-> FALSE,ran |-> <<0, 0, 0>>,lpc |-> "polling",early |-> FALSE,queue |-> <<>>]),
    ([mine |-> <<{1}>>,deferred |-> 0,timers |-> {},ppc |-> <<"run">>,wait |-> "inf",code |-> <<0, 0, 0>>,waitDl |-> 0,regd |-> {1},kind |-> <<"io", "none", "none">>,nextH |-> 2,counter |-> 0,polling |-> TRUE,inflight |-> [t |-> "none", h |-> 0, c |-> 0, fd |-> 0],ops |-> <<1>>,ready |-> <<TRUE>>,now |-> 0,armed |-> <<1>>,pipe |-> FALSE,ran |-> <<0, 0, 0>>,lpc |-> "polling",early |-> FALSE,queue |-> <<>>]),
    ([mine |-> <<{1}>>,deferred |-> 0,timers |-> {},ppc |-> <<"run">>,wait |-> "inf",code |-> <<0, 0, 0>>,waitDl |-> 0,regd |-> {1},kind |-> <<"io", "none", "none">>,nextH |-> 2,counter |-> 0,polling |-> FALSE,inflight |-> [t |-> "none", h |-> 0, c |-> 0, fd |-> 0],ops |-> <<1>>,ready |-> <<FALSE>>,now |-> 0,armed |-> <<1>>,pipe |-> FALSE,ran |-> <<0, 0, 0>>,lpc |-> "begin",early |-> FALSE,queue |-> <<[t |-> "h", h |-> 1, c |-> 0, fd |-> 0]>>]),
    ([mine |-> <<{1}>>,deferred |-> 0,timers |-> {},ppc |-> <<"run">>,wait |-> "inf",code |-> <<0, 0, 0>>,waitDl |-> 0,regd |-> {1},kind |-> <<"io", "none", "none">>,nextH |-> 2,counter |-> 0,polling |-> FALSE,inflight |-> [t |-> "none", h |-> 0, c |-> 0, fd |-> 0],ops |-> <<2>>,ready |-> <<FALSE>>,now |-> 0,armed |-> <<0>>,pipe |-> FALSE,ran |-> <<0, 0, 0>>,lpc |-> "begin",early |-> FALSE,queue |-> <<[t |-> "h", h |-> 1, c |-> 0, fd |-> 0], [t |-> "h", h |-> 1, c |-> 1, fd |-> 0]>>]),
    ([mine |-> <<{1}>>,deferred |-> 0,timers |-> {},ppc |-> <<"run">>,wait |-> "inf",code |-> <<0, 0, 0>>,waitDl |-> 0,regd |-> {1},kind |-> <<"io", "none", "none">>,nextH |-> 2,counter |-> 2,polling |-> FALSE,inflight |-> [t |-> "none", h |-> 0, c |-> 0, fd |-> 0],ops |-> <<2>>,ready |-> <<FALSE>>,now |-> 0,armed |-> <<0>>,pipe |-> FALSE,ran |-> <<0, 0, 0>>,lpc |-> "drain",early |-> FALSE,queue |-> <<[t |-> "h", h |-> 1, c |-> 0, fd |-> 0], [t |-> "h", h |-> 1, c |-> 1, fd |-> 0]>>]),
    ([mine |-> <<{1}>>,deferred |-> 0,timers |-> {},ppc |-> <<"run">>,wait |-> "inf",code |-> <<0, 0, 0>>,waitDl |-> 0,regd |-> {1},kind |-> <<"io", "none", "none">>,nextH |-> 2,counter |-> 2,polling |-> FALSE,inflight |-> [t |-> "h", h |-> 1, c |-> 0, fd |-> 0],ops |-> <<2>>,ready |-> <<FALSE>>,now |-> 0,armed |-> <<0>>,pipe |-> FALSE,ran |-> <<0, 0, 0>>,lpc |-> "exec",early |-> FALSE,queue |-> <<[t |-> "h", h |-> 1, c |-> 1, fd |-> 0]>>]),
    ([mine |-> <<{1}>>,deferred |-> 0,timers |-> {},ppc |-> <<"run">>,wait |-> "inf",code |-> <<0, 0, 0>>,waitDl |-> 0,regd |-> {1},kind |-> <<"io", "none", "none">>,nextH |-> 2,counter |-> 1,polling |-> FALSE,inflight |-> [t |-> "none", h |-> 0, c |-> 0, fd |-> 0],ops |-> <<2>>,ready |-> <<FALSE>>,now |-> 0,armed |-> <<0>>,pipe |-> FALSE,ran |-> <<1, 0, 0>>,lpc |-> "drain",early |-> FALSE,queue |-> <<[t |-> "h", h |-> 1, c |-> 1, fd |-> 0]>>]),
    ([mine |-> <<{1}>>,deferred |-> 0,timers |-> {},ppc |-> <<"run">>,wait |-> "inf",code |-> <<0, 0, 0>>,waitDl |-> 0,regd |-> {1},kind |-> <<"io", "none", "none">>,nextH |-> 2,counter |-> 1,polling |-> FALSE,inflight |-> [t |-> "h", h |-> 1, c |-> 1, fd |-> 0],ops |-> <<2>>,ready |-> <<FALSE>>,now |-> 0,armed |-> <<0>>,pipe |-> FALSE,ran |-> <<1, 0, 0>>,lpc |-> "exec",early |-> FALSE,queue |-> <<>>]),
    ([mine |-> <<{1}>>,deferred |-> 0,timers |-> {},ppc |-> <<"run">>,wait |-> "inf",code |-> <<1, 0, 0>>,waitDl |-> 0,regd |-> {1},kind |-> <<"io", "none", "none">>,nextH |-> 2,counter |-> 0,polling |-> FALSE,inflight |-> [t |-> "none", h |-> 0, c |-> 0, fd |-> 0],ops |-> <<2>>,ready |-> <<FALSE>>,now |-> 0,armed |-> <<0>>,pipe |-> FALSE,ran |-> <<2, 0, 0>>,lpc |-> "drain",early |-> FALSE,queue |-> <<>>])
    >>
----


=============================================================================

---- CONFIG LoopImpl_TTrace_1790465339 ----
CONSTANTS
    Producers = { 1 }
    MaxH = 3
    OpsPerProducer = 4
    MaxNow = 0
    Kinds = { "post" , "io" }
    BugNoWake = FALSE
    BugCopyHandler = TRUE
    OrderFix = TRUE

INVARIANT
    _inv

CHECK_DEADLOCK
    \* CHECK_DEADLOCK off because of PROPERTY or INVARIANT above.
    FALSE

INIT
    _init

NEXT
    _next

CONSTANT
    _TETrace <- _trace

ALIAS
    _expression
=============================================================================
\* Generated on Sat Sep 26 23:29:07 UTC 2026