SPECIFICATION TraceSpec
INVARIANT WorkersBounded
POSTCONDITION TraceDone
CHECK_DEADLOCK FALSE
CONSTANTS Jobs = {} Workers = {}
