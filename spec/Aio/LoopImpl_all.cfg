SPECIFICATION Spec
CONSTANTS
  Producers = {1,2}
  MaxH = 2
  OpsPerProducer = 2
  MaxNow = 1
  Kinds = {"post","timer","io"}
  BugNoWake = FALSE
  BugCopyHandler = FALSE
  OrderFix = TRUE
INVARIANTS AtMostOnce TimerNotEarly CodeRule TypeOK

CHECK_DEADLOCK FALSE
