SPECIFICATION Spec
CONSTANTS
  Shapes <- ShapesQ
  Kinds = {"all", "some"}
  UseDirs = {"r", "w"}
  MaxIn = 2
  MaxOps = 3
  Cap = 2
  IOV = 1
  SpuriousWB = TRUE
  FixCancel = TRUE
  BugNoAdvance = FALSE
  BugCancelZero = FALSE
  BugWriterCount = FALSE
INVARIANTS TypeOK CompletionsOK CountIsMoved InOrder CancelEffective
CHECK_DEADLOCK FALSE
