SPECIFICATION Spec
CONSTANTS
  Shapes <- ShapesT
  Kinds = {"all", "some"}
  UseDirs = {"r", "w"}
  MaxIn = 4
  MaxOps = 2
  Cap = 2
  IOV = 2
  SpuriousWB = TRUE
  FixCancel = TRUE
  BugNoAdvance = FALSE
  BugCancelZero = FALSE
  BugWriterCount = FALSE
INVARIANTS TypeOK CompletionsOK CountIsMoved InOrder CancelEffective
CHECK_DEADLOCK FALSE
