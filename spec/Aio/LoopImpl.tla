------------------------------ MODULE LoopImpl ------------------------------
(***************************************************************************)
(* Mechanism layer of booster::aio::io_service (io_service.cpp): one       *)
(* action per critical section under data_mutex_.                          *)
(*                                                                         *)
(* Producer threads post handlers, arm / cancel timers and arm / cancel    *)
(* I/O waits; the loop thread cycles                                       *)
(*   drain (pop one item under the mutex, run it outside) ->               *)
(*   timers due -> fix the poll time-out (a SNAPSHOT) -> polling:=TRUE ->  *)
(*   poll -> polling:=FALSE -> move ready handlers into the queue.         *)
(* While polling, set_io_event / cancel_io_events are queued as functors   *)
(* and the loop is woken through the self-pipe; otherwise they act         *)
(* directly.  poll() returns only for the reasons fixed when it began      *)
(* (time-out snapshot) or because the pipe / a selected descriptor became  *)
(* ready - therefore a missing wake-up is visible as a liveness failure.   *)
(*                                                                         *)
(* Checked: AtMostOnce, CodeRule, TimerNotEarly (safety) and, under weak    *)
(* fairness, EventuallyRuns: when every producer has finished and has      *)
(* cancelled what it armed, every registered handler has run.              *)
(* Seeded design bugs (constants) show the checks are not vacuous:         *)
(*   BugNoWake        post() does not wake a polling loop                  *)
(*   BugCopyHandler   a ready handler is copied, not moved, out of the table*)
(*   OrderFix = FALSE the code before the fix: ad910ae - a cancel issued   *)
(*                    after a set can overtake the queued set              *)
(***************************************************************************)
EXTENDS Integers, Sequences, FiniteSets, TLC

CONSTANTS Producers,        \* e.g. {1,2}; producer i owns descriptor i
          MaxH,             \* handler ids 1..MaxH
          OpsPerProducer,
          MaxNow,
          Kinds,            \* subset of {"post","timer","io"}: operation kinds the producers use
          BugNoWake, BugCopyHandler, OrderFix

VARIABLES queue,      \* dispatch_queue_: sequence of items
          armed,      \* map_[fd].readable : fd -> handler id or 0
          timers,     \* set of [h, dl]
          polling, pipe, wait,     \* wait: "zero" | "timer" | "inf"   (snapshot at poll begin)
          waitDl,     \* earliest deadline snapshot when wait = "timer"
          lpc, inflight, counter,  \* loop thread
          deferred,   \* deferred_ops_
          now, ready, \* ready[fd]: descriptor readable
          nextH, ops, ppc,         \* producers
          mine,       \* handler ids registered by each producer on its fd / as timers, not yet known to have run
          kind, ran, code, regd, early

vars == <<queue, armed, timers, polling, pipe, wait, waitDl, lpc, inflight, counter, deferred,
          now, ready, nextH, ops, ppc, mine, kind, ran, code, regd, early>>

H == 1..MaxH
NoItem == [t |-> "none", h |-> 0, c |-> 0, fd |-> 0]
HItem(h, c) == [t |-> "h", h |-> h, c |-> c, fd |-> 0]
SetItem(h, fd) == [t |-> "set", h |-> h, c |-> 0, fd |-> fd]
CanItem(fd) == [t |-> "cancel", h |-> 0, c |-> 0, fd |-> fd]

Init ==
    /\ queue = <<>> /\ armed = [f \in Producers |-> 0] /\ timers = {}
    /\ polling = FALSE /\ pipe = FALSE /\ wait = "zero" /\ waitDl = 0
    /\ lpc = "drain" /\ inflight = NoItem /\ counter = 0 /\ deferred = 0
    /\ now = 0 /\ ready = [f \in Producers |-> FALSE]
    /\ nextH = 1 /\ ops = [p \in Producers |-> 0] /\ ppc = [p \in Producers |-> "run"]
    /\ mine = [p \in Producers |-> {}]
    /\ kind = [h \in H |-> "none"] /\ ran = [h \in H |-> 0] /\ code = [h \in H |-> 0]
    /\ regd = {} /\ early = FALSE

Wake == pipe' = (pipe \/ polling)
NoWake == pipe' = pipe
MustDefer == polling \/ (OrderFix /\ deferred > 0)

---------------------------------------------------------------------------
(* producers: every operation is one critical section *)

NewH(p, k) ==
    /\ nextH <= MaxH /\ ppc[p] = "run" /\ ops[p] < OpsPerProducer
    /\ kind' = [kind EXCEPT ![nextH] = k]
    /\ regd' = regd \cup {nextH}
    /\ nextH' = nextH + 1
    /\ ops' = [ops EXCEPT ![p] = @ + 1]

Post(p) ==
    /\ NewH(p, "post")
    /\ queue' = Append(queue, HItem(nextH, 0))
    /\ (IF BugNoWake THEN NoWake ELSE Wake)
    /\ UNCHANGED <<armed, timers, polling, wait, waitDl, lpc, inflight, counter, deferred, now, ready, ppc, mine, ran, code, early>>

SetTimer(p, dl) ==
    /\ NewH(p, "timer")
    /\ timers' = timers \cup {[h |-> nextH, dl |-> dl]}
    /\ pipe' = (pipe \/ (polling /\ \A t \in timers : t.dl >= dl))
    /\ mine' = [mine EXCEPT ![p] = @ \cup {nextH}]
    /\ UNCHANGED <<queue, armed, polling, wait, waitDl, lpc, inflight, counter, deferred, now, ready, ppc, ran, code, early>>

CancelTimerOf(h) ==      \* cancel_timer_event: no-op when the timer is gone
    IF \E t \in timers : t.h = h
    THEN /\ timers' = { t \in timers : t.h # h }
         /\ queue' = Append(queue, HItem(h, 1))
         /\ Wake
    ELSE UNCHANGED <<timers, queue, pipe>>

SetIoDirect(h, fd) == armed' = [armed EXCEPT ![fd] = h]

CancelDirect(fd) ==
    IF armed[fd] # 0
    THEN /\ queue' = Append(queue, HItem(armed[fd], 1)) /\ armed' = [armed EXCEPT ![fd] = 0]
    ELSE UNCHANGED <<queue, armed>>

(* a descriptor is armed again only after its previous handler ran (arming an armed direction is API misuse) *)
FdFree(p) == \A h \in mine[p] : kind[h] # "io" \/ ran[h] > 0

SetIo(p) ==
    /\ FdFree(p)
    /\ NewH(p, "io")
    /\ mine' = [mine EXCEPT ![p] = @ \cup {nextH}]
    /\ IF MustDefer
       THEN /\ queue' = Append(queue, SetItem(nextH, p)) /\ deferred' = deferred + 1
            /\ pipe' = TRUE /\ armed' = armed
       ELSE /\ SetIoDirect(nextH, p) /\ UNCHANGED <<queue, deferred, pipe>>
    /\ UNCHANGED <<timers, polling, wait, waitDl, lpc, inflight, counter, now, ready, ppc, ran, code, early>>

CancelIoOp(p) ==      \* body of cancel_io_events(fd = p)
    IF queue = <<>> /\ (OrderFix => deferred = 0) /\ armed[p] = 0
    THEN UNCHANGED <<queue, armed, deferred, pipe>>                      \* "cancelation not needed"
    ELSE IF MustDefer
         THEN /\ queue' = Append(queue, CanItem(p)) /\ deferred' = deferred + 1
              /\ pipe' = TRUE /\ armed' = armed
         ELSE /\ CancelDirect(p) /\ UNCHANGED <<deferred, pipe>>

CancelIo(p) ==
    /\ ppc[p] = "run" /\ ops[p] < OpsPerProducer
    /\ ops' = [ops EXCEPT ![p] = @ + 1]
    /\ CancelIoOp(p)
    /\ UNCHANGED <<timers, polling, wait, waitDl, lpc, inflight, counter, now, ready, nextH, ppc, mine, kind, ran, code, regd, early>>

MakeReady(p) ==
    /\ ppc[p] = "run" /\ ~ready[p]
    /\ ready' = [ready EXCEPT ![p] = TRUE]
    /\ UNCHANGED <<queue, armed, timers, polling, pipe, wait, waitDl, lpc, inflight, counter, deferred, now, nextH, ops, ppc, mine, kind, ran, code, regd, early>>

(* end of the producer's program: cancel its timers, then its descriptor (as the harness does) *)
Finish1(p) ==
    /\ ppc[p] = "run"
    /\ ppc' = [ppc EXCEPT ![p] = IF \E h \in mine[p] : kind[h] = "timer" THEN "ctimers" ELSE "cio"]
    /\ UNCHANGED <<queue, armed, timers, polling, pipe, wait, waitDl, lpc, inflight, counter, deferred, now, ready, nextH, ops, mine, kind, ran, code, regd, early>>

FinishTimer(p) ==
    /\ ppc[p] = "ctimers"
    /\ \E h \in mine[p] :
         /\ kind[h] = "timer"
         /\ CancelTimerOf(h)
         /\ mine' = [mine EXCEPT ![p] = @ \ {h}]
         /\ ppc' = [ppc EXCEPT ![p] = IF \E g \in mine[p] \ {h} : kind[g] = "timer" THEN "ctimers" ELSE "cio"]
    /\ UNCHANGED <<armed, polling, wait, waitDl, lpc, inflight, counter, deferred, now, ready, nextH, ops, kind, ran, code, regd, early>>

FinishIo(p) ==
    /\ ppc[p] = "cio"
    /\ IF \E h \in mine[p] : kind[h] = "io"
       THEN CancelIoOp(p)
       ELSE UNCHANGED <<queue, armed, deferred, pipe>>       \* nothing of this producer to cancel
    /\ ppc' = [ppc EXCEPT ![p] = "done"]
    /\ UNCHANGED <<timers, polling, wait, waitDl, lpc, inflight, counter, now, ready, nextH, ops, mine, kind, ran, code, regd, early>>

ProducerStep(p) ==
    \/ ("post" \in Kinds /\ Post(p))
    \/ ("timer" \in Kinds /\ \E dl \in 0..MaxNow : SetTimer(p, dl))
    \/ ("io" \in Kinds /\ (SetIo(p) \/ CancelIo(p) \/ MakeReady(p)))
    \/ (\E h \in mine[p] : /\ kind[h] = "timer" /\ ppc[p] = "run" /\ ops[p] < OpsPerProducer
                           /\ ops' = [ops EXCEPT ![p] = @ + 1] /\ CancelTimerOf(h)
                           /\ mine' = [mine EXCEPT ![p] = @ \ {h}]
                           /\ UNCHANGED <<armed, polling, wait, waitDl, lpc, inflight, counter, deferred, now, ready, nextH, ppc, kind, ran, code, regd, early>>)
    \/ Finish1(p) \/ FinishTimer(p) \/ FinishIo(p)

---------------------------------------------------------------------------
(* the loop thread *)

RunOneBegin ==        \* top of run_one: counter := queue length
    /\ lpc = "begin"
    /\ counter' = Len(queue) /\ lpc' = "drain"
    /\ UNCHANGED <<queue, armed, timers, polling, pipe, wait, waitDl, inflight, deferred, now, ready, nextH, ops, ppc, mine, kind, ran, code, regd, early>>

DrainPop ==
    /\ lpc = "drain" /\ queue # <<>> /\ counter > 0
    /\ inflight' = Head(queue) /\ queue' = Tail(queue)
    /\ lpc' = "exec"
    /\ UNCHANGED <<armed, timers, polling, pipe, wait, waitDl, counter, deferred, now, ready, nextH, ops, ppc, mine, kind, ran, code, regd, early>>

Exec ==               \* the popped item runs outside the mutex; functors re-take it
    /\ lpc = "exec"
    /\ \/ /\ inflight.t = "h"
          /\ ran' = [ran EXCEPT ![inflight.h] = @ + 1]
          /\ code' = [code EXCEPT ![inflight.h] = inflight.c]
          /\ UNCHANGED <<queue, armed, deferred>>
       \/ /\ inflight.t = "set"
          /\ SetIoDirect(inflight.h, inflight.fd)
          /\ deferred' = deferred - 1
          /\ UNCHANGED <<queue, ran, code>>
       \/ /\ inflight.t = "cancel"
          /\ CancelDirect(inflight.fd)
          /\ deferred' = deferred - 1
          /\ UNCHANGED <<ran, code>>
    /\ inflight' = NoItem /\ counter' = counter - 1 /\ lpc' = "drain"
    /\ UNCHANGED <<timers, polling, pipe, wait, waitDl, now, ready, nextH, ops, ppc, mine, kind, regd, early>>

Due == { t \in timers : t.dl <= now }
RECURSIVE SeqOf(_)
SeqOf(S) == IF S = {} THEN <<>> ELSE LET x == CHOOSE y \in S : TRUE IN <<HItem(x.h, 0)>> \o SeqOf(S \ {x})

PollBegin ==          \* drain finished: due timers, time-out snapshot, polling := TRUE
    /\ lpc = "drain" /\ (queue = <<>> \/ counter = 0)
    /\ LET q2 == queue \o SeqOf(Due)
           t2 == timers \ Due
       IN /\ queue' = q2 /\ timers' = t2
          /\ early' = (early \/ \E t \in Due : t.dl > now)
          /\ wait' = IF q2 # <<>> THEN "zero" ELSE IF t2 # {} THEN "timer" ELSE "inf"
          /\ waitDl' = IF t2 # {} THEN (CHOOSE d \in { t.dl : t \in t2 } : \A t \in t2 : d <= t.dl) ELSE 0
    /\ polling' = TRUE /\ lpc' = "polling"
    /\ UNCHANGED <<armed, pipe, inflight, counter, deferred, now, ready, nextH, ops, ppc, mine, kind, ran, code, regd>>

ReadyFds == { f \in Producers : armed[f] # 0 /\ ready[f] }

RECURSIVE ReadySeq(_)
ReadySeq(S) == IF S = {} THEN <<>> ELSE LET f == CHOOSE y \in S : TRUE IN <<HItem(armed[f], 0)>> \o ReadySeq(S \ {f})

PollEnd ==            \* poll returns: only for the snapshot's reasons, the pipe, or a selected descriptor
    /\ lpc = "polling"
    /\ \/ wait = "zero" \/ pipe \/ ReadyFds # {}
       \/ (wait = "timer" /\ now >= waitDl)
    /\ polling' = FALSE /\ pipe' = FALSE
    /\ queue' = queue \o ReadySeq(ReadyFds)
    /\ armed' = IF BugCopyHandler THEN armed ELSE [f \in Producers |-> IF f \in ReadyFds THEN 0 ELSE armed[f]]
    /\ ready' = [f \in Producers |-> IF f \in ReadyFds THEN FALSE ELSE ready[f]]    \* the harness drains the byte
    /\ lpc' = "begin"
    /\ UNCHANGED <<timers, wait, waitDl, inflight, counter, deferred, now, nextH, ops, ppc, mine, kind, ran, code, regd, early>>

Tick == /\ now < MaxNow /\ now' = now + 1
        /\ UNCHANGED <<queue, armed, timers, polling, pipe, wait, waitDl, lpc, inflight, counter, deferred, ready, nextH, ops, ppc, mine, kind, ran, code, regd, early>>

LoopStep == RunOneBegin \/ DrainPop \/ Exec \/ PollBegin \/ PollEnd

Next == LoopStep \/ Tick \/ \E p \in Producers : ProducerStep(p)

Spec == Init /\ [][Next]_vars
FairSpec == /\ Spec /\ WF_vars(LoopStep) /\ WF_vars(Tick)
            /\ \A p \in Producers : WF_vars(Finish1(p) \/ FinishTimer(p) \/ FinishIo(p))

---------------------------------------------------------------------------
AtMostOnce == \A h \in H : ran[h] <= 1
TimerNotEarly == ~early
CodeRule == \A h \in H : ran[h] > 0 => (kind[h] = "post" => code[h] = 0)
TypeOK == deferred >= 0 /\ counter >= 0

AllProducersDone == \A p \in Producers : ppc[p] = "done"
(* the loop keeps running; everything registered either happened or was cancelled by the cleanup *)
EventuallyRuns == <>[](AllProducersDone => \A h \in regd : ran[h] = 1)
=============================================================================
