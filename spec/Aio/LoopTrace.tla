----------------------------- MODULE LoopTrace -----------------------------
(* Leg B for C17 (event loop): the merged trace of harness events (Reg, Run, *)
(* Quiesce ...) and in-mutex hook events of io_service.cpp (Enq, Deq,         *)
(* SetTimer, CancelTimer, TimerFire, SetIo, ...) must be a behaviour of       *)
(* Loop.tla: every handler runs exactly once, on the loop thread, with the    *)
(* code its cause prescribes, a timer never early, and at Quiesce (loop still *)
(* running, everything either happened or was cancelled) nothing is pending.  *)
EXTENDS Loop, TraceBase, Sequences

VARIABLES l, cancelCode, pidOf, lastFire
tvars == <<lvars, l, cancelCode, pidOf, lastFire>>

Ev == TraceLog[l]
Is(name) == l <= NLines /\ Ev.e = name /\ l' = l + 1
Skip == UNCHANGED <<lvars, cancelCode, pidOf, lastFire>>
Cls(ec) == IF ec = 0 THEN 0 ELSE IF ec = cancelCode THEN 1 ELSE 2

TReset ==
    /\ Is("Reset")
    /\ hs' = <<>> /\ timers' = <<>> /\ loopTid' = -1 /\ stopped' = FALSE
    /\ cancelCode' = Ev.canceled /\ pidOf' = <<>> /\ lastFire' = [id |-> -1, now |-> 0]

TLoopThread == Is("LoopThread") /\ loopTid' = Ev.tid /\ UNCHANGED <<hs, timers, stopped, cancelCode, pidOf, lastFire>>

TReg ==
    /\ Is("Reg")
    /\ Register(Ev.p, Ev.h, Ev.kind)
    /\ UNCHANGED <<timers, loopTid, stopped, cancelCode, pidOf, lastFire>>

Known(p) == p \in DOMAIN hs

(* Callables the harness did not register (the loop's own deferred set/cancel functors, the       *)
(* waiter objects of deadline_timer, posted driver functors) are "internal": their queue events  *)
(* are not handler events; their timers still must not fire early.                               *)
TEnq ==
    /\ Is("Enq")
    /\ IF ~Known(Ev.p)
       THEN /\ UNCHANGED <<hs, cancelCode, pidOf>>
            /\ IF Ev.why \in {"timer_fire", "timer_cancel"} /\ lastFire.id \in DOMAIN timers
               THEN timers' = Without(timers, lastFire.id) /\ lastFire' = [id |-> -1, now |-> 0]
               ELSE UNCHANGED <<timers, lastFire>>
       ELSE /\ \/ (Ev.why = "post" /\ EnqPost(Ev.p, Cls(Ev.ec)) /\ UNCHANGED <<timers, lastFire>>)
               \/ (Ev.why = "timer_fire" /\ FireTimer(lastFire.id, lastFire.now, Ev.p) /\ lastFire' = [id |-> -1, now |-> 0])
               \/ (Ev.why = "timer_cancel" /\ Cls(Ev.ec) = 1 /\ CancelTimerHit(lastFire.id, Ev.p) /\ lastFire' = [id |-> -1, now |-> 0])
               \/ (Ev.why \in {"io_ready", "io_cancel", "io_error", "io_badfd", "io_select_failed"}
                     \* a refused registration / reactor error carries a SYSTEM error code whose number may coincide with the
                     \* number of aio's "canceled" (EPERM = 1): such causes are always class 2
                     /\ EnqIo(Ev.p, Ev.why, IF Ev.why \in {"io_error", "io_badfd", "io_select_failed"} THEN 2 ELSE Cls(Ev.ec))
                     /\ UNCHANGED <<timers, lastFire>>)
            /\ UNCHANGED <<cancelCode, pidOf>>
    /\ UNCHANGED <<loopTid, stopped>>

TSetTimer ==
    /\ Is("SetTimer")
    /\ IF Known(Ev.p) /\ hs[Ev.p].kind = "timer"
       THEN ArmTimer(Ev.p, Ev.id, Ev.dl)
       ELSE /\ Ev.id \notin DOMAIN timers          \* internal timer (deadline_timer's waiter)
            /\ timers' = [x \in DOMAIN timers \cup {Ev.id} |-> IF x = Ev.id THEN [p |-> Ev.p, dl |-> Ev.dl] ELSE timers[x]]
            /\ hs' = hs
    /\ UNCHANGED <<loopTid, stopped, cancelCode, pidOf, lastFire>>

(* TimerFire{id,now,dl} immediately precedes its Enq; the deadline logged must be the one armed *)
TTimerFire ==
    /\ Is("TimerFire")
    /\ Ev.id \in DOMAIN timers /\ timers[Ev.id].dl = Ev.dl
    /\ Ev.now >= Ev.dl                                  \* never early - registered or internal
    /\ Ev.tid = loopTid
    /\ lastFire' = [id |-> Ev.id, now |-> Ev.now]
    /\ UNCHANGED <<lvars, cancelCode, pidOf>>

TCancelTimer ==
    /\ Is("CancelTimer")
    /\ IF Ev.found THEN (Ev.id \in DOMAIN timers /\ lastFire' = [id |-> Ev.id, now |-> 0])
                   ELSE (Ev.id \notin DOMAIN timers /\ lastFire' = lastFire)
    /\ UNCHANGED <<lvars, cancelCode, pidOf>>

TSetIo == /\ Is("SetIo")
          /\ (IF Known(Ev.p) THEN ArmIo(Ev.p) ELSE hs' = hs)
          /\ UNCHANGED <<timers, loopTid, stopped, cancelCode, pidOf, lastFire>>

TDeq ==
    /\ Is("Deq")
    /\ IF Known(Ev.p) /\ hs[Ev.p].kind # "dtimer"
       THEN Dequeue(Ev.p, Ev.tid) /\ (Cls(Ev.ec) = hs[Ev.p].code \/ (hs[Ev.p].code = 2 /\ Ev.ec # 0)) /\ UNCHANGED <<timers, loopTid, stopped>>
       ELSE Ev.tid = loopTid /\ UNCHANGED lvars
    /\ UNCHANGED <<cancelCode, pidOf, lastFire>>

PidOfH(h) == CHOOSE p \in DOMAIN hs : hs[p].h = h
TRun ==
    /\ Is("Run")
    /\ \E p \in DOMAIN hs : hs[p].h = Ev.h
    /\ IF hs[PidOfH(Ev.h)].kind = "dtimer"
       THEN \* handler given to a deadline_timer: reached through the timer's own waiter object, so only the
            \* harness-level facts are bound: once, on the loop thread, success not before the deadline
            /\ hs[PidOfH(Ev.h)].st = "reg" /\ Ev.tid = loopTid
            /\ (Ev.cls = 0 => Ev.t >= Ev.dl)
            /\ Put(PidOfH(Ev.h), [hs[PidOfH(Ev.h)] EXCEPT !.st = "ran", !.code = Ev.cls])
       ELSE Run(PidOfH(Ev.h), Ev.h, Ev.cls, Ev.tid)
    /\ (Cls(Ev.ec) = Ev.cls \/ (Ev.cls = 2 /\ Ev.ec # 0))     \* class 2: an error of another category whose number may equal "canceled"
    /\ UNCHANGED <<timers, loopTid, stopped, cancelCode, pidOf, lastFire>>

TDCancel == Is("DCancel") /\ Ev.tid = loopTid /\ Skip

(* loop-internal events: only the thread discipline is a property *)
TLoopOnly == /\ (Is("RunOne") \/ Is("PollBegin") \/ Is("PollEnd"))
             /\ Ev.tid = loopTid /\ Skip
TInfo == (Is("Fd") \/ Is("Burst") \/ Is("CancelIo") \/ Is("CancelIoSkip") \/ Is("LoopExit")) /\ Skip
TStop == Is("Stop") /\ stopped' = TRUE /\ UNCHANGED <<hs, timers, loopTid, cancelCode, pidOf, lastFire>>

TRestart == Is("Restart") /\ stopped /\ stopped' = FALSE /\ UNCHANGED <<hs, timers, loopTid, cancelCode, pidOf, lastFire>>

TQuiesce ==
    /\ Is("Quiesce")
    /\ ~stopped
    /\ AllRan /\ \A id \in DOMAIN timers : ~Known(timers[id].p)
    /\ Ev.reg = Cardinality(DOMAIN hs) /\ Ev.ran = Ev.reg
    /\ Skip

TStopped == Is("Stopped") /\ stopped /\ Skip       \* after stop(): at most once only, nothing more is promised

TraceInit == LInit /\ l = 1 /\ cancelCode = 0 /\ pidOf = <<>> /\ lastFire = [id |-> -1, now |-> 0]
TraceNext == TReset \/ TLoopThread \/ TReg \/ TEnq \/ TSetTimer \/ TTimerFire \/ TCancelTimer \/ TSetIo \/ TDCancel \/ TRestart
             \/ TDeq \/ TRun \/ TLoopOnly \/ TInfo \/ TStop \/ TQuiesce \/ TStopped
TraceSpec == TraceInit /\ [][TraceNext]_tvars
=============================================================================
