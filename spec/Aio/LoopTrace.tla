----------------------------- MODULE LoopTrace -----------------------------
(* Leg B for C17 (event loop): the merged trace of harness events (Reg, Run, *)
(* Quiesce ...) and in-mutex hook events of io_service.cpp (Enq, Deq,         *)
(* SetTimer, CancelTimer, TimerFire, SetIo, ...) must be a behaviour of       *)
(* Loop.tla: every handler runs exactly once, on the loop thread, with the    *)
(* code its cause prescribes, a timer never early, and at Quiesce (loop still *)
(* running, everything either happened or was cancelled) nothing is pending.  *)
EXTENDS Loop, TraceBase, Sequences

VARIABLES l, cancelCode, pidOf, lastFire
tvars == <<lvars, l, cancelCode, pidOf, lastFire>>

Ev == TraceLog[l]
Is(name) == l <= NLines /\ Ev.e = name /\ l' = l + 1
Skip == UNCHANGED <<lvars, cancelCode, pidOf, lastFire>>
Cls(ec) == IF ec = 0 THEN 0 ELSE IF ec = cancelCode THEN 1 ELSE 2

TReset ==
    /\ Is("Reset")
    /\ hs' = <<>> /\ timers' = <<>> /\ loopTid' = -1 /\ stopped' = FALSE
    /\ cancelCode' = Ev.canceled /\ pidOf' = <<>> /\ lastFire' = [id |-> -1, now |-> 0]

TLoopThread == Is("LoopThread") /\ loopTid' = Ev.tid /\ UNCHANGED <<hs, timers, stopped, cancelCode, pidOf, lastFire>>

TReg ==
    /\ Is("Reg")
    /\ Register(Ev.p, Ev.h, Ev.kind)
    /\ UNCHANGED <<timers, loopTid, stopped, cancelCode, pidOf, lastFire>>

Known(p) == p \in DOMAIN hs

TEnq ==
    /\ Is("Enq")
    /\ IF ~Known(Ev.p)
       THEN Ev.why = "defer" /\ Skip                     \* internal functor of the loop itself
       ELSE \/ (Ev.why = "post" /\ EnqPost(Ev.p, Cls(Ev.ec)) /\ UNCHANGED <<timers, lastFire>>)
            \/ (Ev.why = "timer_fire" /\ FireTimer(lastFire.id, lastFire.now, Ev.p) /\ lastFire' = [id |-> -1, now |-> 0])
            \/ (Ev.why = "timer_cancel" /\ Cls(Ev.ec) = 1 /\ CancelTimerHit(lastFire.id, Ev.p) /\ lastFire' = [id |-> -1, now |-> 0])
            \/ (Ev.why \in {"io_ready", "io_cancel", "io_error", "io_badfd", "io_select_failed"}
                  /\ EnqIo(Ev.p, Ev.why, Cls(Ev.ec)) /\ UNCHANGED <<timers, lastFire>>)
    /\ UNCHANGED <<loopTid, stopped, cancelCode, pidOf>>

TSetTimer ==
    /\ Is("SetTimer") /\ ArmTimer(Ev.p, Ev.id, Ev.dl)
    /\ UNCHANGED <<loopTid, stopped, cancelCode, pidOf, lastFire>>

(* TimerFire{id,now,dl} immediately precedes its Enq; the deadline logged must be the one armed *)
TTimerFire ==
    /\ Is("TimerFire")
    /\ Ev.id \in DOMAIN timers /\ timers[Ev.id].dl = Ev.dl
    /\ Ev.tid = loopTid
    /\ lastFire' = [id |-> Ev.id, now |-> Ev.now]
    /\ UNCHANGED <<lvars, cancelCode, pidOf>>

TCancelTimer ==
    /\ Is("CancelTimer")
    /\ IF Ev.found THEN (Ev.id \in DOMAIN timers /\ lastFire' = [id |-> Ev.id, now |-> 0])
                   ELSE (Ev.id \notin DOMAIN timers /\ lastFire' = lastFire)
    /\ UNCHANGED <<lvars, cancelCode, pidOf>>

TSetIo == Is("SetIo") /\ ArmIo(Ev.p) /\ UNCHANGED <<timers, loopTid, stopped, cancelCode, pidOf, lastFire>>

TDeq ==
    /\ Is("Deq")
    /\ IF Known(Ev.p)
       THEN Dequeue(Ev.p, Ev.tid) /\ Cls(Ev.ec) = hs[Ev.p].code /\ UNCHANGED <<timers, loopTid, stopped>>
       ELSE Ev.tid = loopTid /\ UNCHANGED lvars
    /\ UNCHANGED <<cancelCode, pidOf, lastFire>>

PidOfH(h) == CHOOSE p \in DOMAIN hs : hs[p].h = h
TRun ==
    /\ Is("Run")
    /\ \E p \in DOMAIN hs : hs[p].h = Ev.h
    /\ Run(PidOfH(Ev.h), Ev.h, Ev.cls, Ev.tid)
    /\ Cls(Ev.ec) = Ev.cls
    /\ UNCHANGED <<timers, loopTid, stopped, cancelCode, pidOf, lastFire>>

(* loop-internal events: only the thread discipline is a property *)
TLoopOnly == /\ (Is("RunOne") \/ Is("PollBegin") \/ Is("PollEnd"))
             /\ Ev.tid = loopTid /\ Skip
TInfo == (Is("Fd") \/ Is("CancelIo") \/ Is("CancelIoSkip") \/ Is("LoopExit")) /\ Skip
TStop == Is("Stop") /\ stopped' = TRUE /\ UNCHANGED <<hs, timers, loopTid, cancelCode, pidOf, lastFire>>

TQuiesce ==
    /\ Is("Quiesce")
    /\ ~stopped
    /\ AllRan /\ DOMAIN timers = {}
    /\ Ev.reg = Cardinality(DOMAIN hs) /\ Ev.ran = Ev.reg
    /\ Skip

TStopped == Is("Stopped") /\ stopped /\ Skip       \* after stop(): at most once only, nothing more is promised

TraceInit == LInit /\ l = 1 /\ cancelCode = 0 /\ pidOf = <<>> /\ lastFire = [id |-> -1, now |-> 0]
TraceNext == TReset \/ TLoopThread \/ TReg \/ TEnq \/ TSetTimer \/ TTimerFire \/ TCancelTimer \/ TSetIo
             \/ TDeq \/ TRun \/ TLoopOnly \/ TInfo \/ TStop \/ TQuiesce \/ TStopped
TraceSpec == TraceInit /\ [][TraceNext]_tvars
=============================================================================
