SPECIFICATION Spec
CONSTANTS
  Shapes <- ShapesL
  Kinds = {"all", "some"}
  UseDirs = {"w"}
  MaxIn = 1
  MaxOps = 4
  Cap = 3
  IOV = 2
  SpuriousWB = TRUE
  FixCancel = TRUE
  BugNoAdvance = FALSE
  BugCancelZero = FALSE
  BugWriterCount = FALSE
INVARIANTS TypeOK CompletionsOK CountIsMoved InOrder CancelEffective
CHECK_DEADLOCK FALSE
