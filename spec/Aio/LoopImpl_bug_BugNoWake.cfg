SPECIFICATION FairSpec
CONSTANTS
  Producers = {1}
  MaxH = 3
  OpsPerProducer = 4
  MaxNow = 0
  Kinds = {"post","io"}
  BugNoWake = TRUE
  BugCopyHandler = FALSE
  OrderFix = TRUE
INVARIANTS AtMostOnce TimerNotEarly CodeRule TypeOK
PROPERTIES EventuallyRuns
CHECK_DEADLOCK FALSE
