SPECIFICATION FairSpec
CONSTANTS
  Producers = {1}
  MaxH = 3
  OpsPerProducer = 4
  MaxNow = 0
  Kinds = {"post","io"}
  BugNoWake = FALSE
  BugCopyHandler = TRUE
  OrderFix = TRUE
INVARIANTS AtMostOnce TimerNotEarly CodeRule TypeOK
PROPERTIES EventuallyRuns
CHECK_DEADLOCK FALSE
