-------------------------------- MODULE Loop --------------------------------
(***************************************************************************)
(* Property layer for C17 (event loop part).                               *)
(* A handler is registered once (posted, armed as a timer, or armed as an  *)
(* I/O wait) and then passes through                                       *)
(*     reg -> [armed ->] queued(code) -> dequeued -> ran                    *)
(* exactly once.  The layer records only what the property talks about:    *)
(* how often a handler ran, on which thread, with which completion code,    *)
(* and - for timers - that a successful completion is not early.            *)
(* Codes: 0 success, 1 canceled, 2 other error.                             *)
(***************************************************************************)
EXTENDS Integers, FiniteSets, TLC

VARIABLES hs,        \* handler id (pointer) -> record
          timers,    \* armed timer id -> [p, dl]
          loopTid,   \* thread that runs the loop (-1 unknown)
          stopped

lvars == <<hs, timers, loopTid, stopped>>

NoH == [st |-> "none", kind |-> "none", code |-> 0, h |-> -1]
St(p) == IF p \in DOMAIN hs THEN hs[p].st ELSE "none"

LInit == hs = <<>> /\ timers = <<>> /\ loopTid = -1 /\ stopped = FALSE

Put(p, r) == hs' = [x \in DOMAIN hs \cup {p} |-> IF x = p THEN r ELSE hs[x]]

Register(p, h, kind) ==
    /\ St(p) = "none"
    /\ Put(p, [st |-> "reg", kind |-> kind, code |-> 0, h |-> h])

(* post: registered -> queued with the code given by the caller *)
EnqPost(p, code) ==
    /\ St(p) = "reg" /\ hs[p].kind = "post"
    /\ Put(p, [hs[p] EXCEPT !.st = "queued", !.code = code])

ArmTimer(p, id, dl) ==
    /\ St(p) = "reg" /\ hs[p].kind = "timer"
    /\ id \notin DOMAIN timers
    /\ Put(p, [hs[p] EXCEPT !.st = "armed"])
    /\ timers' = [x \in DOMAIN timers \cup {id} |-> IF x = id THEN [p |-> p, dl |-> dl] ELSE timers[x]]

Without(f, x) == [y \in DOMAIN f \ {x} |-> f[y]]

(* the timer expired: success, and not before its deadline *)
FireTimer(id, nowv, p) ==
    /\ id \in DOMAIN timers /\ timers[id].p = p
    /\ nowv >= timers[id].dl
    /\ St(p) = "armed"
    /\ Put(p, [hs[p] EXCEPT !.st = "queued", !.code = 0])
    /\ timers' = Without(timers, id)

CancelTimerHit(id, p) ==
    /\ id \in DOMAIN timers /\ timers[id].p = p
    /\ St(p) = "armed"
    /\ Put(p, [hs[p] EXCEPT !.st = "queued", !.code = 1])
    /\ timers' = Without(timers, id)

ArmIo(p) ==
    /\ St(p) = "reg" /\ hs[p].kind = "io"
    /\ Put(p, [hs[p] EXCEPT !.st = "armed"])

(* readiness -> success; cancel/close -> canceled; error -> error.  The code must match the cause *)
EnqIo(p, cause, code) ==
    /\ St(p) \in (IF cause \in {"io_badfd", "io_select_failed"} THEN {"reg"} ELSE {"armed"})
    /\ hs[p].kind = "io"
    /\ \/ (cause = "io_ready" /\ code = 0)
       \/ (cause = "io_cancel" /\ code = 1)
       \/ (cause \in {"io_error", "io_badfd", "io_select_failed"} /\ code # 0)
    /\ Put(p, [hs[p] EXCEPT !.st = "queued", !.code = code])

Dequeue(p, tid) ==
    /\ St(p) = "queued"
    /\ tid = loopTid
    /\ Put(p, [hs[p] EXCEPT !.st = "deq"])

Run(p, h, code, tid) ==
    /\ St(p) = "deq" /\ hs[p].h = h
    /\ tid = loopTid
    /\ code = hs[p].code
    /\ Put(p, [hs[p] EXCEPT !.st = "ran"])

AllRan == \A p \in DOMAIN hs : hs[p].st = "ran"
=============================================================================
