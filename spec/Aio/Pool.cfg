SPECIFICATION PSpec
CONSTANTS Jobs = {1,2,3}  Workers = {11,12}
INVARIANT WorkersBounded
PROPERTIES AtMostOnce ExactlyOnce
CHECK_DEADLOCK FALSE
