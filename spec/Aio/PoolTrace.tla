----------------------------- MODULE PoolTrace -----------------------------
(* Leg B for C17 (worker pool).  Hook events under the pool mutex:          *)
(*   PPost{id} PCancel{id,ok} PPop{id} PStop ; outside: PDone{id}, Job{id}  *)
(* Property: a job runs at most once, never after a successful cancel, a    *)
(* cancel succeeds only for a job still queued, a job that throws does not  *)
(* take its worker down (PDone follows, the worker pops again), and at      *)
(* PQuiesce (pool still running) every job not cancelled has run.           *)
EXTENDS Pool, TraceBase

VARIABLE l
tvars == <<pvars, l>>
Ev == TraceLog[l]
Is(name) == l <= NLines /\ Ev.e = name /\ l' = l + 1

TReset == Is("Reset") /\ js' = <<>> /\ busy' = <<>> /\ shut' = FALSE /\ nworkers' = Ev.workers
TPost  == Is("PPost") /\ Post(Ev.id) /\ UNCHANGED <<busy, shut, nworkers>>
TCancel == Is("PCancel") /\ Cancel(Ev.id, Ev.ok) /\ UNCHANGED <<busy, shut, nworkers>>
TPop   == Is("PPop") /\ Pop(Ev.id, Ev.tid) /\ UNCHANGED <<shut, nworkers>>
TJob   == Is("Job") /\ RunJob(Ev.id, Ev.tid) /\ UNCHANGED <<busy, shut, nworkers>>
TDone  == Is("PDone") /\ Done(Ev.id, Ev.tid) /\ UNCHANGED <<shut, nworkers>>
TStop  == Is("PStop") /\ shut' = TRUE /\ UNCHANGED <<js, busy, nworkers>>
TQuiesce ==
    /\ Is("PQuiesce")
    /\ ~shut /\ AllSettled
    /\ Ev.posted = Cardinality(DOMAIN js)
    /\ Ev.ran = Cardinality({ j \in DOMAIN js : js[j] \in {"ran", "done"} })
    /\ Ev.cancelled = Cardinality({ j \in DOMAIN js : js[j] = "cancelled" })
    /\ UNCHANGED pvars

TraceInit == PInit /\ l = 1
TraceNext == TReset \/ TPost \/ TCancel \/ TPop \/ TJob \/ TDone \/ TStop \/ TQuiesce
TraceSpec == TraceInit /\ [][TraceNext]_tvars
=============================================================================
