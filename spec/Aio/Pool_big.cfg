SPECIFICATION PSpec
CONSTANTS Jobs = {1,2,3,4}  Workers = {11,12,13}
INVARIANT WorkersBounded
PROPERTIES AtMostOnce ExactlyOnce
CHECK_DEADLOCK FALSE
