"""Helpers of checks/C10.py (networked cache).

* prep_threaded(): turns the raw hook trace of `netcache_drv thr` (harness Inv/Ret events and the
  Lock/Lin/Unlock events of cache_storage.cpp, all stamped with the global sequence number) into the
  step-level trace NetHookTrace.tla reads: Lin events are attributed to a server's backing cache or a
  client's L1 through the Lock event that encloses them and the Obj lines the harness wrote.
* validate(): ctx.validate() in a private scratch directory (so that several validations can run in
  parallel threads) that also collects the `DEVIATION <signature> line <n>` lines the trace specs
  print for named, accepted-but-reported deviations.
* classify(): a stable signature for a rejected execution.
"""
import os, re, json, copy, threading

KEEP = ("Reset", "Obj", "Inv", "Ret", "Lock", "Unlock", "Lin", "End")
_lock = threading.Lock()


def name_to_int(s):
    # "k3.17" -> 3 ; "t18" -> 18
    m = re.match(r"^[kt](\d+)", s or "")
    return int(m.group(1)) if m else -1


def prep_threaded(raw, out):
    """returns (executions, events written, lin_events_seen)"""
    evs = []
    with open(raw) as f:
        for ln in f:
            ln = ln.strip()
            if not ln:
                continue
            try:
                e = json.loads(ln)
            except Exception:
                continue
            if e.get("e") in KEEP:
                evs.append(e)
    evs.sort(key=lambda e: e["seq"])
    objs = {}
    place, srv_gb = [], {}
    held = {}       # tid -> stack of objects locked (rd / wr)
    n_exec = n_out = n_lin = 0
    with open(out, "w") as o:
        def w(d):
            nonlocal n_out
            o.write(json.dumps(d, separators=(",", ":")) + "\n")
            n_out += 1
        for e in evs:
            k = e["e"]
            tid = e.get("tid")
            if k == "Reset":
                objs, held = {}, {}
                place, srv_gb = e.get("place", []), {}
                n_exec += 1
                d = {x: e[x] for x in e if x not in ("seq", "tid")}
                w(d)
            elif k == "Obj":
                objs[e["o"]] = (e["role"], e["i"], e.get("gb", 0))
                if e["role"] == "srv":
                    srv_gb[e["i"]] = e.get("gb", 0)
            elif k == "Lock":
                if e.get("m") in ("rd", "wr"):
                    held.setdefault(tid, []).append(e["o"])
            elif k == "Unlock":
                if e.get("m") in ("rd", "wr") and held.get(tid):
                    held[tid].pop()
            elif k == "Lin":
                st = held.get(tid)
                if not st or st[-1] not in objs:
                    continue            # a cache that is not part of the experiment
                role, i, gb = objs[st[-1]]
                n_lin += 1
                d = {"e": "Srv" if role == "srv" else "L1", ("s" if role == "srv" else "c"): i, "op": e["op"],
                     "k": name_to_int(e["k"]) if "k" in e else 0}
                if "hit" in e:
                    d["hit"] = e["hit"]
                if role == "l1" and 1 <= d["k"] <= len(place):
                    gb = srv_gb.get(place[d["k"] - 1], 0)      # an L1 keeps the owning server's generation
                d["g"] = (e["gen"] - gb) if "gen" in e else 0
                w(d)
            elif k in ("Inv", "Ret", "End"):
                d = {x: e[x] for x in e if x not in ("seq", "tid")}
                w(d)
    return n_exec, n_out, n_lin


_counter = [0]


def validate(ctx, module, cfg, trace, tag, replays=None, count=True, **kw):
    """-> (rejections, deviations) ; deviations = list of (signature, line number in `trace`)"""
    c2 = copy.copy(ctx)
    c2.work = os.path.join(ctx.work, "v-" + tag)
    os.makedirs(c2.work, exist_ok=True)
    c2.events = 0
    with _lock:
        _counter[0] += 1
        c2.t0 = int(ctx.t0) * 1000 + _counter[0]      # only names the replay files of rejected executions
    if replays:
        os.makedirs(replays, exist_ok=True)
        c2.replays = replays
    c2.traces_ok = 0
    c2.extra = {}
    outs = []
    orig = ctx.tlc
    with open(trace) as f:
        total = sum(1 for x in f if x.strip())

    def cap(*a, **k):
        r = orig(*a, **k)
        off = 0
        try:
            with open(k["env"]["TRACE"]) as f:
                off = total - sum(1 for x in f if x.strip())
        except Exception:
            pass
        outs.append((off, r.out))
        return r
    c2.tlc = cap
    rej = c2.validate(module, cfg, trace, **kw)
    # validate() starts several TLC runs (it resumes behind the next Reset after a rejection and re-runs
    # to confirm); each run reads a suffix of the trace, hence the offset
    dev = sorted({(m.group(1), off + int(m.group(2))) for off, o in outs
                  for m in re.finditer(r'DEVIATION (\S+) line (\d+)', o)}, key=lambda d: d[1])
    with _lock:
        if not count:
            return rej, dev
        ctx.events += c2.events
        ctx.traces_ok += c2.traces_ok
        ctx.extra["trace_states"] = ctx.extra.get("trace_states", 0) + c2.extra.get("trace_states", 0)
    return rej, dev


def executions(trace):
    """list of (first_line_index (0-based), lines) per Reset-delimited execution"""
    res = []
    cur = None
    with open(trace) as f:
        for i, ln in enumerate(x for x in f if x.strip()):
            if '"e":"Reset"' in ln or cur is None:
                cur = [i, []]
                res.append(cur)
            cur[1].append(ln.rstrip("\n"))
    return res


def exec_at(execs, line):
    """execution that contains 1-based line number `line`"""
    lo, hi = 0, len(execs) - 1
    while lo < hi:
        mid = (lo + hi + 1) // 2
        if execs[mid][0] <= line - 1:
            lo = mid
        else:
            hi = mid - 1
    return execs[lo]


def history(lines, upto=None):
    """compact human-readable history of an execution (operation-level events)"""
    out = []
    for ln in lines[:upto]:
        try:
            e = json.loads(ln)
        except Exception:
            continue
        k = e.get("e")
        if k == "Reset":
            out.append("[ns=%s l1=%s]" % (e.get("ns"), e.get("l1")))
        elif k in ("Op", "Inv"):
            s = "c%s.%s" % (e.get("c"), e.get("op"))
            if e.get("op") == "store":
                s += "(k%s=v%s,ts=%s,dl=%s)" % (e.get("k"), e.get("v"), e.get("ts"), e.get("dl"))
            elif e.get("op") in ("fetch", "rise"):
                s += "(%s)" % e.get("k")
            if k == "Op" and e.get("op") == "fetch":
                s += "->" + ("v%s,ts=%s,dl=%s" % (e.get("rv"), e.get("rts"), e.get("rdl")) if e.get("hit") else "miss")
            out.append(s)
        elif k == "Ret" and e.get("op") == "fetch":
            out.append("c%s.ret->" % e.get("c") + ("v%s,ts=%s" % (e.get("rv"), e.get("rts")) if e.get("hit") else "miss"))
        elif k == "Tick":
            out.append("tick(%s)" % e.get("d"))
        elif k == "Wire":
            out.append("wire(kc=%s,key=%s,ntrig=%d,vlen=%s)" % (e.get("kc"), e.get("k"), len(e.get("ts", [])),
                                                               len(e.get("v", []))))
    return " ; ".join(out)


def classify(x, threaded=False):
    """signature of a rejection returned by ctx.validate: which kind of event, which field disagrees with
    the most recent store of that key in the same execution (only used to name the failure class -
    TLC has already decided)."""
    try:
        ev = json.loads(x["event"])
    except Exception:
        return "end-of-trace"
    k = ev.get("e")
    if k in ("Op", "Ret") and ev.get("op") == "fetch":
        last = None
        for ln in x["exec"][:x["offset_in_exec"]]:
            try:
                e = json.loads(ln)
            except Exception:
                continue
            if e.get("e") in ("Op", "Inv") and e.get("op") == "store" and e.get("k") == ev.get("k", e.get("k")):
                last = e
        if not ev.get("hit"):
            return "fetch-miss"
        if threaded:        # the order of concurrent stores is the servers', not the Inv order: no finer class
            return "fetch-result-differs-from-server-step"
        if last is None:
            return "fetch-hit-never-stored"
        if ev.get("rv") != last.get("v"):
            return "fetch-stale-or-foreign-value"
        if sorted(ev.get("rts", [])) != sorted(set(last.get("ts", []) + [last.get("k")])):
            return "fetch-trigger-set"
        if ev.get("rdl") != last.get("dl"):
            return "fetch-deadline"
        return "fetch-hit-on-dead-entry"
    if k == "Op":
        return "observed-state-after-%s" % ev.get("op")
    if k == "Wire":
        exp = sorted(ev.get("ts", []) + ([ev["k"]] if ev.get("k") not in ev.get("ts", []) else []))
        if ev.get("live") and (ev.get("w", -1) < 0 or ev.get("wprev", -1) not in (-1, ev.get("w"))):
            return "wire-placement"
        if ev.get("live") != ev.get("shit"):
            return "wire-server-does-not-hold-live-entry" if ev.get("live") else "wire-server-holds-expired-entry"
        if ev.get("shit") and (ev.get("sv") != ev.get("v") or ev.get("sdl") != ev.get("dl") or sorted(ev.get("sts", [])) != exp):
            return "wire-store-path"
        for f in ev.get("f", []):
            if f.get("hit") != ev.get("live"):
                return "wire-fetch-hit" if f.get("hit") else "wire-fetch-miss"
            if f.get("hit"):
                if f.get("v") != ev.get("v"):
                    return "wire-fetch-value"
                if sorted(f.get("ts", [])) != exp:
                    return "wire-fetch-triggers"
                if f.get("dl") != ev.get("dl"):
                    return "wire-fetch-deadline"
                if not f.get("geq"):
                    return "wire-fetch-generation"
        return "wire-other"
    return "%s-%s" % (k, ev.get("op", ""))
