"""Helper for function-style trace specs that FLAG instead of rejecting (C19, C11).

The trace spec still consumes one line per step and TLC still evaluates the property predicate of every
event; an event that breaks the property lets the action match but makes TLC print
    <<"FLAG", "<class>", <detail>, <line>>>
so that one defect does not hide the thousands of events behind it.  judge() runs one JVM over one trace
file and returns the flags; anything TLC cannot match at all (unknown event, model error) goes through the
ordinary ctx.validate() path (re-run, replay file, UNDECIDED on model failure)."""
import os, re, concurrent.futures

FLAG = re.compile(r'<<"FLAG", "([^"]*)", (?:"([^"]*)"|(-?\d+)), (\d+)>>')


def judge(ctx, module, cfg, trace, timeout=1500, heap="3g", env=None):
    with open(trace) as f:
        lines = [x for x in f.read().splitlines() if x.strip()]
    e = {"TRACE": trace}
    if env:
        e.update(env)
    r = ctx.tlc(module, cfg, workers=1, timeout=timeout, env=e, deadlock_off=True, heap=heap, count=False,
                extra=["-noGenerateSpecTE"])
    m = re.findall(r"TRACE-MATCHED (\d+)", r.out)
    matched = int(m[-1]) if m and not r.failed else -1
    res = {"trace": trace, "lines": lines, "matched": matched, "flags": [], "rejects": [], "states": r.distinct}
    if matched < len(lines):
        # not a flag: the specification could not follow the trace (or TLC failed): ordinary path
        res["rejects"] = ctx.validate(module, cfg, trace, timeout=timeout, heap=heap, env=env)
        return res
    for c, ds, di, ln in FLAG.findall(r.out):
        res["flags"].append((c, ds if ds != "" or di == "" else di, int(ln)))
    return res


def judge_many(ctx, module, cfg, traces, threads=6, **kw):
    with concurrent.futures.ThreadPoolExecutor(max_workers=threads) as ex:
        return list(ex.map(lambda t: judge(ctx, module, cfg, t, **kw), traces))


def block_of(lines, ln, starts=('"e":"Reset"',)):
    """the lines from the last block start up to (1-based) line ln"""
    s = ln - 1
    while s > 0 and not any(k in lines[s] for k in starts):
        s -= 1
    return lines[s:ln]


def account(ctx, res, sig_of, describe, starts=('"e":"Reset"',), tag="flag"):
    """book-keeping common to the checks: events, executions, one violation per distinct signature
    (first flagged event of that signature is kept as replay)."""
    lines = res["lines"]
    nexec = sum(1 for x in lines if '"e":"Reset"' in x)
    if res["rejects"]:
        return
    ctx.events += len(lines)
    ctx.extra["trace_states"] = ctx.extra.get("trace_states", 0) + res["states"]
    bad_exec = set()
    seen = ctx.extra.setdefault("flag_counts", {})
    for c, d, ln in res["flags"]:
        s = ln - 1
        while s > 0 and '"e":"Reset"' not in lines[s]:
            s -= 1
        bad_exec.add(s)
        sig = sig_of(c, d, lines[ln - 1])
        seen[sig] = seen.get(sig, 0) + 1
        if seen[sig] == 1:
            rp = os.path.join(ctx.replays, "%s-%s-%d.ndjson" % (tag, re.sub(r"[^A-Za-z0-9_.-]", "_", sig), int(ctx.t0)))
            with open(rp, "w") as f:
                f.write("\n".join(block_of(lines, ln, starts)) + "\n")
            ctx.violation(sig, describe(c, d, lines[ln - 1]), rp)
    ctx.traces_ok += max(0, nexec - len(bad_exec))
