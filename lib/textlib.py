"""Helpers shared by the Text checks (C14, C15): thread-safe parallel trace validation.

ctx.validate() keeps per-call scratch files under ctx.work and updates counters on ctx; to run
several validations at once each job gets a shallow copy of ctx with its own scratch directory and
the counters are merged under a lock afterwards.  TLC stays the only judge; this only schedules it.
"""
import os, copy, json, threading
from concurrent.futures import ThreadPoolExecutor

_lock = threading.Lock()
# recursive TLA+ operators over strings of a few hundred characters need a deeper Java stack
JAVA_ENV = {"JAVA_TOOL_OPTIONS": "-Xss256m"}


class Pool:
    def __init__(self, ctx, jobs=6):
        self.ctx = ctx
        self.ex = ThreadPoolExecutor(max_workers=jobs)
        self.sem = threading.BoundedSemaphore(jobs)      # at most `jobs` TLC JVMs at a time
        self.n = 0
        self.futs = []

    def submit(self, fn, *a, **kw):
        f = self.ex.submit(self._guard, fn, *a, **kw)
        self.futs.append(f)
        return f

    def _guard(self, fn, *a, **kw):
        try:
            return fn(*a, **kw)
        except SystemExit:
            raise
        except Exception:
            import traceback
            with _lock:
                self.ctx.undecided.append("worker crashed:\n" + traceback.format_exc())
            return None

    def wait(self):
        for f in self.futs:
            f.result()
        self.futs = []

    def validate(self, module, cfg, trace, **kw):
        """thread-safe ctx.validate; returns the list of rejections"""
        ctx = self.ctx
        with _lock:
            self.n += 1
            sub = os.path.join(ctx.work, "val-%d" % self.n)
        os.makedirs(sub, exist_ok=True)
        c = copy.copy(ctx)
        c.work = sub
        c.events = 0
        c.traces_ok = 0
        c.states = 0
        c.transitions = 0
        c.extra = {}
        c.tlc_runs = []
        c.undecided = []
        # replay files are named by module and start time only: keep the jobs apart
        c.replays = os.path.join(ctx.replays, "job-%d-%d" % (int(ctx.t0), self.n))
        os.makedirs(c.replays, exist_ok=True)
        env = dict(JAVA_ENV)
        env.update(kw.pop("env", None) or {})
        with self.sem:
            rej = c.validate(module, cfg, trace, env=env, **kw)
        try:
            os.rmdir(c.replays)          # only succeeds when nothing was rejected
        except OSError:
            pass
        with _lock:
            ctx.events += c.events
            ctx.traces_ok += c.traces_ok
            ctx.undecided += c.undecided
            ctx.extra["trace_states"] = ctx.extra.get("trace_states", 0) + c.extra.get("trace_states", 0)
            ctx.extra["trace_jvms"] = ctx.extra.get("trace_jvms", 0) + len(c.tlc_runs)
        return rej


def ev(x):
    """the rejected event of a rejection record as a dict ({} at end of trace)"""
    try:
        return json.loads(x["event"])
    except Exception:
        return {}


def hexs(b):
    return "".join("%02x" % v for v in b)


def count_events(path):
    """event name -> count (cheap textual scan)"""
    out = {}
    with open(path) as f:
        for ln in f:
            i = ln.find('"e":"')
            if i < 0:
                continue
            j = ln.find('"', i + 5)
            k = ln[i + 5:j]
            out[k] = out.get(k, 0) + 1
    return out
