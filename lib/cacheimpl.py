def run(ctx):
    """Leg D, mechanism layer of the cache: four-index consistency + refinement of Cache.tla."""
    ctx.design("Cache/CacheImpl.tla", "CacheImpl_quick.cfg" if ctx.quick else "CacheImpl.cfg", workers=16, timeout=1800, heap="16g",
               note="IndexInv, GenUnique, Refines == Cache!Spec")
